/-
End-to-end reading of declared systems (C14, "sigma" theorems), part 13: what the final state says about a
macrostate; declaring a macrostate again.
-/
import DsdVerif.Lemmas.ReaderSigmaMacroDoc

namespace Dsd.Sig
open Dsd Dsd.PP Dsd.RState

theorem readDoc_fresh6 (sl : Slots) (hcd : sl.dom < 4) (hcs : sl.strand < 4) (hcc : sl.cplx < 4) (hcm : sl.macr < 4)
    (hcr : sl.rxn < 4) (ds : List Decl) (hsys : Sys ds) (ss : List SDecl) (hss : SSys ds ss) (cds : List CDecl)
    (hcs' : CSys ds ss cds) (kds : List KDecl) (hks : KSys ds (cds.map (CDecl.spec ds ss)) kds) (MS : List MDecl)
    (hms : MSys (cds.map (CDecl.spec ds ss) ++ kds.map (KDecl.spec ds)) MS) (tail : List Tree) :
    ({} : RState).readDoc sl [] [] (doc ds ++ (sdoc ss ++ (cdoc cds ++ (kdoc kds ++ (mdoc MS ++ tail))))) {} =
      (S6 sl.dom sl.strand sl.cplx sl.macr sl.rxn ds ss (cds.map (CDecl.spec ds ss) ++ kds.map (KDecl.spec ds)) MS
          (kConc (base4 ds ss + cds.length) kds)).readDoc sl [] [] tail
        (D6 ds ss (cds.map (CDecl.spec ds ss) ++ kds.map (KDecl.spec ds)) MS) := by
  rw [readDoc_fresh5_tail sl hcd hcs hcc ds hsys ss hss cds hcs' kds hks (mdoc MS ++ tail),
    ← S6_nil sl.dom sl.strand sl.cplx sl.macr sl.rxn hcm hcr, ← D6_nil]
  have hf : CFacts (cds.map (CDecl.spec ds ss) ++ kds.map (KDecl.spec ds)) := ⟨hks.names, hks.descr, hks.nonrot⟩
  have := readDoc_macros_tail sl hcd hcs hcc hcm hcr ds ss _ hf (kConc (base4 ds ss + cds.length) kds) tail MS []
    (by simpa using hms)
  simpa using this

/-! ### attributes -/

theorem macroCanon_eq (C : List CSpec) (M : MDecl) :
    macroCanon (msOf C M) = sortBy ckeyLt (M.members.map (cCanonOf C)) := by
  unfold macroCanon
  rw [SortL.sortBy_map (fun a : String × CKey => a.2) ckeyLt (msOf C M)]
  unfold msOf
  rw [List.map_map]; rfl

theorem mDict_lookup (b : Nat) (MS : List MDecl) (hn : (MS.map (·.name)).Nodup) (j : Nat) (M : MDecl)
    (hj : MS[j]? = some M) : (mDict b MS).lookup M.name = some (b + j) := by
  apply lookup_unique
  · rw [mDict, mem_zipIdx_map]; exact ⟨j, M, hj, rfl⟩
  · intro v' hv'
    rw [mDict, mem_zipIdx_map] at hv'
    obtain ⟨j', M', hj', he⟩ := hv'
    simp only [Prod.mk.injEq] at he
    have h1 : (MS.map (·.name))[j]? = some M.name := by simp [hj]
    have h2 : (MS.map (·.name))[j']? = some M'.name := by simp [hj']
    have hlt : j < (MS.map (·.name)).length := by simpa using getElem?_lt' _ _ _ hj
    have : j = j' := (List.getElem?_inj hlt hn).mp (by rw [h1, h2, he.1])
    rw [he.2, this]

theorem mDict_keys (b : Nat) (MS : List MDecl) : (mDict b MS).map (·.1) = MS.map (·.name) := by
  unfold mDict
  rw [List.map_map]
  have : ((fun (x : String × Nat) => x.1) ∘ fun (p : MDecl × Nat) => (p.1.name, b + p.2)) =
      (fun (q : MDecl) => q.name) ∘ Prod.fst := rfl
  rw [this, ← List.map_map, List.zipIdx_map_fst]

/-- the macrostate behind a dictionary entry -/
theorem S6_macro (cd cst cc cm cr : Nat) (hcm : cm < 4) (ds : List Decl) (ss : List SDecl) (C : List CSpec)
    (MS : List MDecl) (conc : List (Nat × (String × String × String))) (j : Nat) (M : MDecl) (hj : MS[j]? = some M) :
    (S6 cd cst cc cm cr ds ss C MS conc).w.node (base6 ds ss C + j) =
      some (macroNode (base6 ds ss C + j) cm (M.members.map (cResolve (base4 ds ss) C))) ∧
    (S6 cd cst cc cm cr ds ss C MS conc).w.macroObj (base6 ds ss C + j) =
      some (cm, newMacro (base6 ds ss C + j) M.name (msOf C M)) ∧
    (S6 cd cst cc cm cr ds ss C MS conc).w.isLive (base6 ds ss C + j) = true ∧
    base6 ds ss C + j ∈ (S6 cd cst cc cm cr ds ss C MS conc).w.held := by
  have hlt := getElem?_lt' _ _ _ hj
  have hnode : (S6 cd cst cc cm cr ds ss C MS conc).w.node (base6 ds ss C + j) =
      some (macroNode (base6 ds ss C + j) cm (M.members.map (cResolve (base4 ds ss) C))) :=
    nodes6_macro cd cst cc cm cr ds ss C MS j M hj
  obtain ⟨cr0, h0, _⟩ := baseMacros_get cm hcm
  have hget := setObjs_get baseMacros cm (mObjs (base6 ds ss C) C MS) cr0 h0
  have hmp : (S6 cd cst cc cm cr ds ss C MS conc).w.macros = setObjs baseMacros cm (mObjs (base6 ds ss C) C MS) := rfl
  refine ⟨hnode, ?_, ?_, ?_⟩
  · unfold World.macroObj
    rw [hnode]
    simp only [macroNode, if_true, hmp, hget, Option.bind_some, Reg.findId, mObjs_find _ C MS j M hj, Option.map_some]
  · unfold World.isLive; rw [hnode]; rfl
  · show base6 ds ss C + j ∈ List.range (base6 ds ss C + MS.length)
    exact List.mem_range.mpr (by omega)

/-! ### transferring the facts about domains, strands and complexes to larger states -/

/-- what a state must provide so that the domain, strand and complex parts can be read off -/
structure Lower (sl : Slots) (ds : List Decl) (ss : List SDecl) (C : List CSpec) (s' : RState) (d' : RDict) : Prop where
  doms : s'.w.doms = setObjs baseDoms sl.dom (dObjs ds)
  strands : s'.w.strands = setObjs baseStrands sl.strand (sObjs ds ss)
  cplxs : s'.w.cplxs = setObjs baseCplxs sl.cplx (cObjs (base4 ds ss) C)
  cstate : s'.w.cstate = cStates (base4 ds ss) C
  dseq : s'.dseq = dSeq ds
  ndom : ∀ i, i < 2 * ds.length → s'.w.nodes.find? (fun m => m.id == i) = some (domNode i sl.dom)
  nstrand : ∀ j p, ss[j]? = some p → s'.w.nodes.find? (fun m => m.id == 2 * ds.length + j) =
    some (strandNode (2 * ds.length + j) sl.strand (idsOf ds p.2))
  ncplx : ∀ j c, C[j]? = some c → s'.w.nodes.find? (fun m => m.id == base4 ds ss + j) =
    some (cplxNode (base4 ds ss + j) sl.cplx (c.seq.filterMap id))
  held : ∀ i, i < base4 ds ss + C.length → i ∈ s'.w.held
  ddict : d'.domains = dDict ds
  sdict : d'.strands = sDict ds ss
  cdict : d'.complexes = cDict (base4 ds ss) C

theorem strandObj_gen (w : World) (cs : Nat) (hcs : cs < 4) (sobjs : List (Obj CKey))
    (hstr : w.strands = setObjs baseStrands cs sobjs) (id : Nat) (ch : List Nat) (o : Obj CKey)
    (hn : w.nodes.find? (fun n => n.id == id) = some (strandNode id cs ch))
    (ho : sobjs.find? (fun x => x.id == id) = some o) : w.cplxObj id = some (cs, o) := by
  obtain ⟨cr0, h0, _⟩ := baseStrands_get cs hcs
  have hget := setObjs_get baseStrands cs sobjs cr0 h0
  have hnode : w.node id = some (strandNode id cs ch) := hn
  unfold World.cplxObj
  rw [hnode]
  simp only [strandNode, reduceCtorEq, if_false, if_true, hstr, hget, Option.bind_some, Reg.findId, ho, Option.map_some]

theorem nodes6_dom (cd cst cc cm cr : Nat) (ds : List Decl) (ss : List SDecl) (C : List CSpec) (MS : List MDecl)
    (i : Nat) (hi : i < 2 * ds.length) :
    (P6 cd cst cc cm cr ds ss C MS).nodes.find? (fun m => m.id == i) = some (domNode i cd) := by
  show (dNodes cd ds ++ sNodes cst ds ss ++ cNodes cc (base4 ds ss) C ++ mNodes cm (base4 ds ss) (base6 ds ss C) C MS).find? _ = _
  have := nodes4_dom cd cst cc ds ss C i hi
  have h4 : (P4 cd cst cc ds ss C).nodes = dNodes cd ds ++ sNodes cst ds ss ++ cNodes cc (base4 ds ss) C := rfl
  rw [h4] at this
  rw [List.find?_append, this]; rfl

theorem nodes6_strand (cd cst cc cm cr : Nat) (ds : List Decl) (ss : List SDecl) (C : List CSpec) (MS : List MDecl)
    (j : Nat) (p : SDecl) (hj : ss[j]? = some p) :
    (P6 cd cst cc cm cr ds ss C MS).nodes.find? (fun m => m.id == 2 * ds.length + j) =
      some (strandNode (2 * ds.length + j) cst (idsOf ds p.2)) := by
  show (dNodes cd ds ++ sNodes cst ds ss ++ cNodes cc (base4 ds ss) C ++ mNodes cm (base4 ds ss) (base6 ds ss C) C MS).find? _ = _
  have := nodes4_strand cd cst cc ds ss C j p hj
  have h4 : (P4 cd cst cc ds ss C).nodes = dNodes cd ds ++ sNodes cst ds ss ++ cNodes cc (base4 ds ss) C := rfl
  rw [h4] at this
  rw [List.find?_append, this]; rfl

theorem lower_S6 (sl : Slots) (ds : List Decl) (ss : List SDecl) (C : List CSpec) (MS : List MDecl)
    (conc : List (Nat × (String × String × String))) :
    Lower sl ds ss C (S6 sl.dom sl.strand sl.cplx sl.macr sl.rxn ds ss C MS conc) (D6 ds ss C MS) :=
  { doms := rfl, strands := rfl, cplxs := rfl, cstate := rfl, dseq := rfl,
    ndom := fun i hi => nodes6_dom sl.dom sl.strand sl.cplx sl.macr sl.rxn ds ss C MS i hi,
    nstrand := fun j p hj => nodes6_strand sl.dom sl.strand sl.cplx sl.macr sl.rxn ds ss C MS j p hj,
    ncplx := fun j c hj => nodes6_cplx sl.dom sl.strand sl.cplx sl.macr sl.rxn ds ss C MS j c hj,
    held := fun i hi => by
      show i ∈ List.range (base6 ds ss C + MS.length)
      exact List.mem_range.mpr (by unfold base6; omega),
    ddict := rfl, sdict := rfl, cdict := rfl }

/-! ### declaring a macrostate again -/

theorem mkMacro_snd (w : World) (cm : Nat) (hcm : cm < 4) (mobjs : List (Obj MKey))
    (hm : w.macros = setObjs baseMacros cm mobjs) (ids : List Nat) (ms : List (String × CKey))
    (hms : ids.filterMap (fun id => (w.cplxObj id).map (fun p => (p.2.name, p.2.canon))) = ms) (hne : ms ≠ [])
    (nm : String) (hnm : nm ∈ ms.map (·.1)) :
    (w.mkMacro cm (some ids) (some nm)).2 =
      (Reg.call ({ objs := mobjs, autoId := 1 } : Reg MKey) (some (macroCanon ms)) (some nm) w.nextId [macroCanon ms]
        false).2 := by
  obtain ⟨cr0, h0, _⟩ := baseMacros_get cm hcm
  have hget := setObjs_get baseMacros cm mobjs cr0 h0
  have hreq : macroRequest ({ objs := mobjs, autoId := 1 } : Reg MKey) w.nextId (some ms) (some nm) =
      Reg.call ({ objs := mobjs, autoId := 1 } : Reg MKey) (some (macroCanon ms)) (some nm) w.nextId [macroCanon ms]
        false := by
    unfold macroRequest
    have hc : (ms.map (·.1)).contains nm = true := by simpa using hnm
    have he := macroCanon_ne_nil ms hne
    unfold macroCanon at he ⊢
    simp only [hc, if_true, he, Bool.false_eq_true, if_false]
  unfold World.mkMacro
  simp only [Option.map_some, hms]
  rw [ReaderL.withClass_some _ _ _ _ (by rw [hm]; exact hget)]
  simp only [hm, effId_macros cm hcm, hreq]

theorem readLine_macro_ret (s : RState) (sl : Slots) (nm : String) (members : List String) (ids : List Nat)
    (h1 : s.lookupAll (fun w n => let r := w.mkCplx sl.cplx none [] (some n) none; (r.1, r.2.1)) members = (s, .ok ids))
    (id : Nat) (b : Bool) (h2 : (s.w.mkMacro sl.macr (some ids) (some nm)).2 = .ret id b) :
    ∃ s1, s.readLine sl (macroLine nm members) = (s1, .ok (.macro id)) := by
  unfold macroLine readLine
  simp only [tokList_map_tok, h1]
  generalize s.w.mkMacro sl.macr (some ids) (some nm) = X at h2
  obtain ⟨w', out⟩ := X
  simp only at h2
  subst h2
  exact ⟨_, rfl⟩

theorem readLine_macro_refused (s : RState) (sl : Slots) (nm : String) (members : List String) (ids : List Nat)
    (h1 : s.lookupAll (fun w n => let r := w.mkCplx sl.cplx none [] (some n) none; (r.1, r.2.1)) members = (s, .ok ids))
    (e : Option Nat) (h2 : (s.w.mkMacro sl.macr (some ids) (some nm)).2 = .singletonErr e) :
    ∃ s1, s.readLine sl (macroLine nm members) = (s1, .error .singleton) := by
  unfold macroLine readLine
  simp only [tokList_map_tok, h1]
  generalize s.w.mkMacro sl.macr (some ids) (some nm) = X at h2
  obtain ⟨w', out⟩ := X
  simp only at h2
  subst h2
  exact ⟨_, rfl⟩

theorem mObjs_findName (b : Nat) (C : List CSpec) (MS : List MDecl) (hn : (MS.map (·.name)).Nodup) (j : Nat)
    (M : MDecl) (hj : MS[j]? = some M) :
    Reg.findName ({ objs := mObjs b C MS, autoId := 1 } : Reg MKey) M.name = some (newMacro (b + j) M.name (msOf C M)) := by
  unfold Reg.findName
  apply RegL.find?_unique
  · rw [mObjs, mem_zipIdx_map]; exact ⟨j, M, hj, rfl⟩
  · simp [newMacro]
  · intro a ha hp
    obtain ⟨j', M', hj', rfl⟩ := mObjs_mem b C MS a ha
    have he : M'.name = M.name := by simpa [newMacro] using hp
    have h1 : (MS.map (·.name))[j]? = some M.name := by simp [hj]
    have h2 : (MS.map (·.name))[j']? = some M'.name := by simp [hj']
    have hlt : j < (MS.map (·.name)).length := by simpa using getElem?_lt' _ _ _ hj
    have : j = j' := (List.getElem?_inj hlt hn).mp (by rw [h1, h2, he])
    subst this
    rw [getElem?_det MS j M M' hj hj']

/-- the outcome of declaring the macrostate at position `j` again, under the same name with members `members'` -/
theorem redeclare (sl : Slots) (hcc : sl.cplx < 4) (hcm : sl.macr < 4) (ds : List Decl) (ss : List SDecl)
    (C : List CSpec) (hf : CFacts C) (MS : List MDecl) (hms : MSys C MS)
    (conc : List (Nat × (String × String × String))) (j : Nat) (M : MDecl) (hj : MS[j]? = some M)
    (members' : List String) (hne : members' ≠ []) (hmem : ∀ n ∈ members', n ∈ C.map (·.name))
    (hnm : M.name ∈ members') :
    (members'.Perm M.members →
      ∃ s1, (S6 sl.dom sl.strand sl.cplx sl.macr sl.rxn ds ss C MS conc).readLine sl (macroLine M.name members') =
        (s1, .ok (.macro (base6 ds ss C + j)))) ∧
    ((¬ ∀ n, n ∈ members' ↔ n ∈ M.members) →
      ∃ s1, (S6 sl.dom sl.strand sl.cplx sl.macr sl.rxn ds ss C MS conc).readLine sl (macroLine M.name members') =
        (s1, .error .singleton)) := by
  have hMmem := List.mem_of_getElem? hj
  have hla := lookupAll_same (S6 sl.dom sl.strand sl.cplx sl.macr sl.rxn ds ss C MS conc)
    (fun w n => let r := w.mkCplx sl.cplx none [] (some n) none; (r.1, r.2.1)) (cResolve (base4 ds ss) C) members'
    (fun n hn => ⟨false, by
      have := (member_lookup sl.dom sl.strand sl.cplx sl.macr sl.rxn hcc ds ss C hf MS n (hmem n hn)).1
      have hw : (S6 sl.dom sl.strand sl.cplx sl.macr sl.rxn ds ss C MS conc).w =
          (P6 sl.dom sl.strand sl.cplx sl.macr sl.rxn ds ss C MS).world := rfl
      simp only [hw, this]⟩)
  have hmsl : (members'.map (cResolve (base4 ds ss) C)).filterMap
      (fun id => ((P6 sl.dom sl.strand sl.cplx sl.macr sl.rxn ds ss C MS).world.cplxObj id).map
        (fun p => (p.2.name, p.2.canon))) = msOf C ⟨M.name, members'⟩ :=
    filterMap_map_some _ _ _ members'
      (fun n hn => (member_lookup sl.dom sl.strand sl.cplx sl.macr sl.rxn hcc ds ss C hf MS n (hmem n hn)).2.2)
  have hne' : msOf C ⟨M.name, members'⟩ ≠ [] := by
    intro e
    have := congrArg List.length e
    simp only [msOf, List.length_map, List.length_nil] at this
    exact hne (List.length_eq_zero_iff.mp this)
  have hsnd := mkMacro_snd (P6 sl.dom sl.strand sl.cplx sl.macr sl.rxn ds ss C MS).world sl.macr hcm
    (mObjs (base6 ds ss C) C MS) rfl _ _ hmsl hne' M.name
    (by unfold msOf; rw [List.map_map]; exact List.mem_map.mpr ⟨M.name, hnm, rfl⟩)
  have hfn := mObjs_findName (base6 ds ss C) C MS hms.names j M hj
  have hMm := (hms.each M hMmem).2.1
  have hw : (S6 sl.dom sl.strand sl.cplx sl.macr sl.rxn ds ss C MS conc).w =
      (P6 sl.dom sl.strand sl.cplx sl.macr sl.rxn ds ss C MS).world := rfl
  have hkey : ∀ (o : Obj MKey), o ∈ mObjs (base6 ds ss C) C MS → macroCanon (msOf C ⟨M.name, members'⟩) ∈ o.keys →
      ∃ j' M', MS[j']? = some M' ∧ o = newMacro (base6 ds ss C + j') M'.name (msOf C M') ∧
        ∀ n, n ∈ members' ↔ n ∈ M'.members := by
    intro o ho hk
    obtain ⟨j', M', hj', rfl⟩ := mObjs_mem _ C MS o ho
    refine ⟨j', M', hj', rfl, ?_⟩
    simp only [newMacro, List.mem_singleton] at hk
    have hM'm := (hms.each M' (List.mem_of_getElem? hj')).2.1
    intro n
    exact ⟨macroCanon_inj C hf ⟨M.name, members'⟩ M' hmem hM'm hk n,
      macroCanon_inj C hf M' ⟨M.name, members'⟩ hM'm hmem hk.symm n⟩
  constructor
  · intro hperm
    have hcanon : macroCanon (msOf C ⟨M.name, members'⟩) = macroCanon (msOf C M) := by
      rw [macroCanon_eq, macroCanon_eq]
      exact SortL.sortBy_keys_perm ckeyLt Ord.ckeyLt_sto.irrefl Ord.ckeyLt_sto.trans Ord.ckeyLt_sto.total _ _
        (hperm.map _)
    have hfc : Reg.findCanon ({ objs := mObjs (base6 ds ss C) C MS, autoId := 1 } : Reg MKey)
        (macroCanon (msOf C ⟨M.name, members'⟩)) = some (newMacro (base6 ds ss C + j) M.name (msOf C M)) := by
      unfold Reg.findCanon
      apply RegL.find?_unique
      · rw [mObjs, mem_zipIdx_map]; exact ⟨j, M, hj, rfl⟩
      · simp [newMacro, hcanon]
      · intro a ha hp
        obtain ⟨j', M', hj', rfl, hsets⟩ := hkey a ha (by simpa using hp)
        have : j' = j := by
          apply Classical.byContradiction
          intro hne
          have hp := List.pairwise_iff_getElem.mp hms.sets
          have hl := getElem?_lt' _ _ _ hj
          have hl' := getElem?_lt' _ _ _ hj'
          have e1 : MS[j] = M := by rw [List.getElem?_eq_getElem hl] at hj; exact Option.some.inj hj
          have e2 : MS[j'] = M' := by rw [List.getElem?_eq_getElem hl'] at hj'; exact Option.some.inj hj'
          have hMM' : ∀ n, n ∈ M.members ↔ n ∈ M'.members :=
            fun n => ⟨fun h => (hsets n).mp (hperm.mem_iff.mpr h), fun h => hperm.mem_iff.mp ((hsets n).mpr h)⟩
          rcases Nat.lt_or_gt_of_ne hne with h | h
          · have := hp j' j hl' hl h; rw [e1, e2] at this; exact this (fun n => (hMM' n).symm)
          · have := hp j j' hl hl' h; rw [e1, e2] at this; exact this hMM'
        subst this
        rw [getElem?_det MS j' M M' hj hj']
    apply readLine_macro_ret _ sl M.name members' _ hla _ false
    rw [hw, hsnd]
    simp [Reg.call, Reg.decide, hfn, hfc, newMacro]
  · intro hdiff
    apply readLine_macro_refused _ sl M.name members' _ hla none
    rw [hw, hsnd]
    cases hfc : Reg.findCanon ({ objs := mObjs (base6 ds ss C) C MS, autoId := 1 } : Reg MKey)
        (macroCanon (msOf C ⟨M.name, members'⟩)) with
    | none => simp [Reg.call, Reg.decide, hfn, hfc]
    | some oc =>
      obtain ⟨hm1, hm2⟩ := Reg.findCanon_some _ _ oc hfc
      obtain ⟨j', M', hj', rfl, hsets⟩ := hkey oc hm1 hm2
      have hne : j' ≠ j := by
        intro e; subst e
        rw [getElem?_det MS j' M M' hj hj'] at hdiff
        exact hdiff hsets
      have hid : ¬ (j = j') := fun e => hne e.symm
      simp [Reg.call, Reg.decide, hfn, hfc, newMacro, hid]

end Dsd.Sig
