/-
PIL documents of any number of statements (C13): a document parses as the concatenation of its statements.
`StmtText s t`: `s` is the text of one statement (without the line end that closes it) which `pil_stmt` parses to
exactly `[t]` in front of any continuation `X` that is empty or begins with a line end — where the statement's own
`OneOrMore(Suppress(LineEnd))` consumes the line ends of `X` (they belong to the statement in this grammar, so the
blank lines between two statements are consumed by the first of them).

`run`'s fuel bounds the nesting depth, and every repetition of `ZeroOrMore`/`OneOrMore` costs one level; the bounds
below are linear in the length of the text so that the fuel `4 * length + 200` of `parseDoc` suffices.
-/
import DsdVerif.Lemmas.PilStmts

namespace Dsd.Pil
open Dsd.PP Dsd.Gen

/-- a character that can start a statement: not skipped, not a comment, not a line end -/
def StartCh (c : Char) : Prop := isWs c = false ∧ c ≠ '#' ∧ c ≠ '\n'

/-- the position after the virtual end-of-input line end -/
abbrev Pend : Pos := { rest := [], past := true }

/-- `s` is the text of one statement: it starts with a proper character, contains no tab, and `pil_stmt` parses it
    to `[t]` in front of every continuation `X` that is empty or starts with a line end; the line ends of `X` are
    consumed by the statement (`heol`: they end at `p`), at a depth linear in the length of `s` -/
structure StmtText (s : List Char) (t : Tree) : Prop where
  head : ∃ c, s.head? = some c ∧ StartCh c
  notab : '\t' ∉ s
  parses : ∃ N, N ≤ 4 * s.length + 100 ∧ ∀ (X : List Char) (NE : Nat) (p : Pos), LineEnd X →
    Ok pil_env NE {} eolG { rest := X, past := false } (p, []) →
    Ok pil_env (max N (NE + 30)) {} pil_stmt { rest := s ++ X, past := false } (p, [t])

theorem StmtText.cons {s : List Char} {t : Tree} (h : StmtText s t) : ∃ c r, s = c :: r ∧ StartCh c := by
  obtain ⟨c, hc, hs⟩ := h.head
  cases s with
  | nil => simp at hc
  | cons d r => simp at hc; subst hc; exact ⟨d, r, rfl, hs⟩

/-- a convenient introduction rule: `f X` is the normalised form of `s ++ X` -/
theorem StmtText.of (s : List Char) (t : Tree) (N : Nat) (c : Char) (f : List Char → List Char)
    (hhead : s.head? = some c) (hc : StartCh c) (hnt : '\t' ∉ s) (hN : N ≤ 4 * s.length + 100)
    (hf : ∀ X, s ++ X = f X)
    (hok : ∀ (X : List Char) (NE : Nat) (p : Pos), LineEnd X →
      Ok pil_env NE {} eolG { rest := X, past := false } (p, []) →
      Ok pil_env (max N (NE + 30)) {} pil_stmt { rest := f X, past := false } (p, [t])) : StmtText s t :=
  ⟨⟨c, hhead, hc⟩, hnt, N, hN, fun X NE p hX heol => by rw [hf X]; exact hok X NE p hX heol⟩

theorem _root_.Dsd.PP.OkMany.mono {env N N' ctx g p r} (h : OkMany env N ctx g p r) (hN : N ≤ N') :
    OkMany env N' ctx g p r :=
  fun reps fuel hr hf => h reps fuel (by omega) (by omega)

/-! ### the line ends that close a statement -/

theorem OkMany_nls_eof (env : Env) (k : Nat) :
    OkMany env (k + 4) {} (.suppress .lineEnd) { rest := List.replicate k '\n', past := false } (Pend, []) := by
  induction k with
  | zero =>
    have h2 : Ok env 2 {} (.suppress .lineEnd) { rest := [], past := false } (Pend, []) :=
      Ok_suppress (Ok_lineEnd_eof env {} _ rfl rfl)
    have h3 : No env 2 {} (.suppress .lineEnd) Pend := No_suppress (No_lineEnd_past env {} _ rfl rfl)
    have := OkMany_step h2 (by simp) (OkMany_stop h3)
    intro reps fuel hr hf
    simpa using this reps fuel (by omega) (by omega)
  | succ k ih =>
    have hne : ({ rest := List.replicate k '\n', past := false } : Pos) ≠
        { rest := '\n' :: List.replicate k '\n', past := false } :=
      pos_ne_of_length _ _ _ _ (by simp)
    have := OkMany_step (Ok_nl env (List.replicate k '\n')) hne ih
    intro reps fuel hr hf
    simpa [List.replicate_succ] using this reps fuel (by omega) (by omega)

/-- the continuation after a statement's line ends: the end of the input, or the next statement -/
inductive Cont : List Char → Pos → Prop
  | eof : Cont [] Pend
  | next (c : Char) (r : List Char) : StartCh c → Cont (c :: r) { rest := c :: r, past := false }

theorem Ok_eol_cont (env : Env) (k : Nat) (R : List Char) (p : Pos) (h : Cont R p) :
    Ok env (k + 6) {} eolG { rest := '\n' :: (List.replicate k '\n' ++ R), past := false } (p, []) := by
  cases h with
  | eof =>
    have := Ok_many1 (Ok_nl env (List.replicate k '\n')) (OkMany_nls_eof env k)
    rw [List.append_nil]
    exact this.mono (by omega)
  | next c r hc => exact (Ok_eol_nls env k c r hc.1 hc.2.1 hc.2.2).mono (by omega)

/-! ### one statement inside a document -/

/-- a statement with its line end, `k` further blank lines, and the continuation `R` -/
theorem stmt_term (s : List Char) (t : Tree) (h : StmtText s t) (k : Nat) (R : List Char) (p : Pos) (hc : Cont R p) :
    Ok pil_env (4 * s.length + k + 100) {} pil_stmt
      { rest := s ++ '\n' :: (List.replicate k '\n' ++ R), past := false } (p, [t]) := by
  obtain ⟨N, hN, hok⟩ := h.parses
  exact (hok _ _ p (Or.inr ⟨_, rfl⟩) (Ok_eol_cont pil_env k R p hc)).mono (by omega)

/-- the last statement of a document without final line end -/
theorem stmt_open (s : List Char) (t : Tree) (h : StmtText s t) :
    Ok pil_env (4 * s.length + 100) {} pil_stmt { rest := s, past := false } (Pend, [t]) := by
  obtain ⟨N, hN, hok⟩ := h.parses
  have := hok [] 5 Pend (Or.inl rfl) (Ok_eol_end pil_env [] rfl)
  rw [List.append_nil] at this
  exact this.mono (by omega)

/-! ### any number of statements -/

/-- a statement text, its tree, and the number of blank lines after it -/
abbrev Item := List Char × Tree × Nat

def itemText (x : Item) : List Char := x.1 ++ '\n' :: List.replicate x.2.2 '\n'
def itemsText (l : List Item) : List Char := l.flatMap itemText

theorem itemsText_cons (x : Item) (xs : List Item) (T : List Char) :
    itemsText (x :: xs) ++ T = x.1 ++ '\n' :: (List.replicate x.2.2 '\n' ++ (itemsText xs ++ T)) := by
  simp [itemsText, itemText, List.append_assoc]

theorem itemsText_length_cons (x : Item) (xs : List Item) :
    (itemsText (x :: xs)).length = x.1.length + 1 + x.2.2 + (itemsText xs).length := by
  simp [itemsText, itemText]; omega

/-- the position in front of the items `l` followed by `T` (position `p`) -/
def posOf (l : List Item) (T : List Char) (p : Pos) : Pos :=
  match l with
  | [] => p
  | _ :: _ => { rest := itemsText l ++ T, past := false }

theorem cont_items (l : List Item) (hl : ∀ x ∈ l, StmtText x.1 x.2.1) (T : List Char) (p : Pos) (hc : Cont T p) :
    Cont (itemsText l ++ T) (posOf l T p) := by
  cases l with
  | nil => simpa [itemsText, posOf] using hc
  | cons x xs =>
    obtain ⟨c, r, hx, hs⟩ := (hl x List.mem_cons_self).cons
    simp only [posOf]
    rw [itemsText_cons, hx]
    exact Cont.next c _ hs

theorem posOf_ne (x : Item) (xs : List Item) (hl : ∀ y ∈ xs, StmtText y.1 y.2.1) (T : List Char) (p : Pos)
    (hc : Cont T p) : posOf xs T p ≠ { rest := itemsText (x :: xs) ++ T, past := false } := by
  have hcont := cont_items xs hl T p hc
  generalize posOf xs T p = q at hcont
  generalize hR : itemsText xs ++ T = R at hcont
  intro h
  cases hcont with
  | eof => simp at h
  | next c r hc' =>
    have := congrArg (fun p : Pos => p.rest.length) h
    simp only [itemsText_cons, hR, List.length_append, List.length_cons, List.length_replicate] at this
    omega

/-- **the statements of a document are parsed one after the other** -/
theorem chain (l : List Item) (hl : ∀ x ∈ l, StmtText x.1 x.2.1) (T : List Char) (p : Pos) (hc : Cont T p)
    (tt : List Tree) (bt : Nat) (hbt : 100 ≤ bt) (htail : OkMany pil_env bt {} pil_stmt p (Pend, tt)) :
    OkMany pil_env (4 * (itemsText l).length + bt) {} pil_stmt (posOf l T p) (Pend, l.map (·.2.1) ++ tt) := by
  induction l with
  | nil =>
    intro reps fuel hr hf
    simpa [posOf] using htail reps fuel (by omega) (by omega)
  | cons x xs ih =>
    have hxs : ∀ y ∈ xs, StmtText y.1 y.2.1 := fun y hy => hl y (List.mem_cons_of_mem _ hy)
    have h1 := stmt_term x.1 x.2.1 (hl x List.mem_cons_self) x.2.2 (itemsText xs ++ T) (posOf xs T p)
      (cont_items xs hxs T p hc)
    rw [← itemsText_cons] at h1
    have hne := posOf_ne x xs hxs T p hc
    have := OkMany_step h1 hne (ih hxs)
    have hlen := itemsText_length_cons x xs
    intro reps fuel hr hf
    simpa [posOf] using this reps fuel (by omega) (by omega)

/-! ### documents -/

theorem doc_frame (k0 : Nat) (c : Char) (r : List Char) (hc : StartCh c) (tt : List Tree) (N : Nat)
    (hm : Ok pil_env N {} (.many1 pil_stmt) { rest := c :: r, past := false } (Pend, tt)) :
    Ok pil_env (max N (k0 + 4) + 6) {} pil_grammar { rest := List.replicate k0 '\n' ++ c :: r, past := false }
      (Pend, tt) := by
  unfold pil_grammar pil_document
  have h0 := Ok_stringStart pil_env {} { rest := List.replicate k0 '\n' ++ c :: r, past := false }
  have h1 := Ok_many (OkMany_nls pil_env k0 c r hc.1 hc.2.1 hc.2.2)
  have h3 : Ok pil_env 1 {} .stringEnd Pend (Pend, []) := Ok_stringEnd pil_env {} _ rfl
  have := Ok_seq (OkSeq_cons h0 (OkSeq_cons h1 (OkSeq_cons hm (OkSeq_cons h3 (OkSeq_nil pil_env _ _)))))
  simp only [List.nil_append, List.append_nil] at this
  exact this.mono (by omega)

theorem notab_items (l : List Item) (hl : ∀ x ∈ l, StmtText x.1 x.2.1) : '\t' ∉ itemsText l := by
  induction l with
  | nil => simp [itemsText]
  | cons x xs ih =>
    have h1 := (hl x List.mem_cons_self).notab
    have h2 := ih (fun y hy => hl y (List.mem_cons_of_mem _ hy))
    simp only [itemsText, List.flatMap_cons] at h2 ⊢
    simp [itemText, h1, h2]

/-- the statements `x :: xs`, each with its line end and blank lines, after `k0` leading blank lines -/
theorem document_ok (k0 : Nat) (x : Item) (xs : List Item) (hl : ∀ y ∈ x :: xs, StmtText y.1 y.2.1) :
    Ok pil_env (4 * (itemsText (x :: xs)).length + k0 + 120) {} pil_grammar
      { rest := List.replicate k0 '\n' ++ itemsText (x :: xs), past := false }
      (Pend, (x :: xs).map (·.2.1)) := by
  have hxs : ∀ y ∈ xs, StmtText y.1 y.2.1 := fun y hy => hl y (List.mem_cons_of_mem _ hy)
  have hx := hl x List.mem_cons_self
  obtain ⟨c, r, hcr, hc⟩ := hx.cons
  have h1 := stmt_term x.1 x.2.1 hx x.2.2 (itemsText xs ++ []) (posOf xs [] Pend) (cont_items xs hxs [] Pend Cont.eof)
  rw [← itemsText_cons, List.append_nil] at h1
  have h2 := chain xs hxs [] Pend Cont.eof [] 100 (Nat.le_refl _)
    ((OkMany_stop (No_stmt_end pil_env)).mono (by decide))
  have hm := Ok_many1 h1 h2
  simp only [List.singleton_append, List.append_nil] at hm
  have htext : itemsText (x :: xs) = c :: (r ++ '\n' :: (List.replicate x.2.2 '\n' ++ itemsText xs)) := by
    simp [itemsText, itemText, hcr]
  have hlen := itemsText_length_cons x xs
  rw [htext] at hm
  have hfr := doc_frame k0 c _ hc _ _ hm
  rw [← htext] at hfr
  exact hfr.mono (by rw [hlen]; omega)

/-- … and a last statement without line end -/
theorem document_open_ok (k0 : Nat) (l : List Item) (hl : ∀ y ∈ l, StmtText y.1 y.2.1) (s : List Char) (t : Tree)
    (hs : StmtText s t) :
    Ok pil_env (4 * (itemsText l ++ s).length + k0 + 120) {} pil_grammar
      { rest := List.replicate k0 '\n' ++ (itemsText l ++ s), past := false }
      (Pend, l.map (·.2.1) ++ [t]) := by
  obtain ⟨cs, rs, hcs, hsc⟩ := hs.cons
  have hstop := OkMany_stop (No_stmt_end pil_env)
  have hlast : OkMany pil_env (4 * s.length + 101) {} pil_stmt { rest := s, past := false } (Pend, [t]) := by
    have := OkMany_step (stmt_open s t hs) (by simp) hstop
    simp only [List.append_nil] at this
    exact this.mono (by omega)
  cases l with
  | nil =>
    have hm := Ok_many1 (stmt_open s t hs) hstop
    simp only [itemsText, List.flatMap_nil, List.nil_append, List.map_nil, List.append_nil] at hm ⊢
    rw [hcs] at hm ⊢
    exact (doc_frame k0 cs rs hsc _ _ hm).mono (by simp only [List.length_cons]; omega)
  | cons x xs =>
    have hxs : ∀ y ∈ xs, StmtText y.1 y.2.1 := fun y hy => hl y (List.mem_cons_of_mem _ hy)
    have hx := hl x List.mem_cons_self
    obtain ⟨c, r, hcr, hc⟩ := hx.cons
    have hcont : Cont s { rest := s, past := false } := by rw [hcs]; exact Cont.next cs rs hsc
    have h1 := stmt_term x.1 x.2.1 hx x.2.2 (itemsText xs ++ s) (posOf xs s { rest := s, past := false })
      (cont_items xs hxs s _ hcont)
    rw [← itemsText_cons] at h1
    have h2 := chain xs hxs s _ hcont [t] _ (by omega) hlast
    have hm := Ok_many1 h1 h2
    simp only [List.singleton_append] at hm
    have htext : itemsText (x :: xs) ++ s = c :: (r ++ '\n' :: (List.replicate x.2.2 '\n' ++ (itemsText xs ++ s))) := by
      simp [itemsText, itemText, hcr]
    have hlen := itemsText_length_cons x xs
    rw [htext] at hm
    have hfr := doc_frame k0 c _ hc _ _ hm
    rw [← htext] at hfr
    exact hfr.mono (by simp only [List.length_append, hlen]; omega)

/-- **documents parse as the concatenation of their statements**: `k0` leading blank lines, then any number `≥ 1`
    of statements of any kinds, each followed by its line end and any number of blank lines -/
theorem document_parse (k0 : Nat) (stmts : List Item) (hne : stmts ≠ []) (h : ∀ x ∈ stmts, StmtText x.1 x.2.1) :
    parseDoc pil_env pil_grammar (String.ofList (List.replicate k0 '\n' ++ itemsText stmts)) =
      some (stmts.map (·.2.1)) := by
  cases stmts with
  | nil => exact absurd rfl hne
  | cons x xs =>
    have hok := document_ok k0 x xs h
    have hnt : '\t' ∉ List.replicate k0 '\n' ++ itemsText (x :: xs) := by
      have := notab_items (x :: xs) h
      simp [this]
    exact parseDoc_ok' pil_env pil_grammar _ _ _ _ hnt hok
      (by simp only [List.length_append, List.length_replicate]; omega)

/-- the same when the final line end is missing: the end of the input closes the last statement -/
theorem document_parse_open (k0 : Nat) (stmts : List Item) (h : ∀ x ∈ stmts, StmtText x.1 x.2.1)
    (s : List Char) (t : Tree) (hs : StmtText s t) :
    parseDoc pil_env pil_grammar (String.ofList (List.replicate k0 '\n' ++ (itemsText stmts ++ s))) =
      some (stmts.map (·.2.1) ++ [t]) := by
  have hok := document_open_ok k0 stmts h s t hs
  have hnt : '\t' ∉ List.replicate k0 '\n' ++ (itemsText stmts ++ s) := by
    have h1 := notab_items stmts h
    have h2 := hs.notab
    simp [h1, h2]
  exact parseDoc_ok' pil_env pil_grammar _ _ _ _ hnt hok
    (by simp only [List.length_append, List.length_replicate]; omega)

end Dsd.Pil
