/-
End-to-end reading of declared systems (C14, "sigma" theorems), part 8: what the final state says about a complex.
-/
import DsdVerif.Lemmas.ReaderSigmaScplx

namespace Dsd.Sig
open Dsd Dsd.PP Dsd.RState

/-- the complex behind a dictionary entry: node, registry object and mutable state -/
theorem S4_cplx (cd cst cc : Nat) (hcc : cc < 4) (ds : List Decl) (ss : List SDecl) (cs : List CSpec)
    (conc : List (Nat × (String × String × String))) (j : Nat) (c : CSpec) (hj : cs[j]? = some c) :
    (S4 cd cst cc ds ss cs conc).w.node (base4 ds ss + j) = some (cplxNode (base4 ds ss + j) cc (c.seq.filterMap id)) ∧
    (S4 cd cst cc ds ss cs conc).w.cplxObj (base4 ds ss + j) =
      some (cc, newCplx (base4 ds ss + j) c.name (cIds c.ns c.sst)) ∧
    (S4 cd cst cc ds ss cs conc).w.cstate.lookup (base4 ds ss + j) =
      some (cplxState c.ns c.sst (cIds c.ns c.sst) c.name) ∧
    (S4 cd cst cc ds ss cs conc).w.isLive (base4 ds ss + j) = true ∧
    base4 ds ss + j ∈ (S4 cd cst cc ds ss cs conc).w.held := by
  have hlt := getElem?_lt' _ _ _ hj
  have hnode : (S4 cd cst cc ds ss cs conc).w.node (base4 ds ss + j) =
      some (cplxNode (base4 ds ss + j) cc (c.seq.filterMap id)) := nodes4_cplx cd cst cc ds ss cs j c hj
  obtain ⟨cr0, h0, _⟩ := baseCplxs_get cc hcc
  have hget := setObjs_get baseCplxs cc (cObjs (base4 ds ss) cs) cr0 h0
  have hcp : (S4 cd cst cc ds ss cs conc).w.cplxs = setObjs baseCplxs cc (cObjs (base4 ds ss) cs) := rfl
  refine ⟨hnode, ?_, cStates_lookup _ cs j c hj, ?_, ?_⟩
  · unfold World.cplxObj
    rw [hnode]
    simp only [cplxNode, if_true, hcp, hget, Option.bind_some, Reg.findId, cObjs_find _ cs j c hj, Option.map_some]
  · unfold World.isLive; rw [hnode]; rfl
  · show base4 ds ss + j ∈ List.range (base4 ds ss + cs.length)
    exact List.mem_range.mpr (by omega)

/-- the canonical form stored for a complex is the smallest rotation of the declared description -/
theorem cIds_canon (ns : List String) (sst : List Char) (hd : Rot.Descr' ns sst) :
    complexIdentifiers ({} : Reg CKey) ns sst = .ok (cIds ns sst) ∧
    (cIds ns sst).canon ∈ Rot.orb (Rot.nStr ns) ns sst ∧
    (∀ x ∈ Rot.orb (Rot.nStr ns) ns sst, ckeyLt x (cIds ns sst).canon = false) ∧
    (cIds ns sst).turns < Rot.nStr ns ∧
    rotateN (cIds ns sst).turns (cIds ns sst).canon.1 (cIds ns sst).canon.2 = .ok (ns, sst) := by
  obtain ⟨h1, h2, h3⟩ := cIds_spec ({} : Reg CKey) ns sst hd (fun _ _ => rfl)
  obtain ⟨t1, t2⟩ := Rot.turns_spec ns sst hd (cIds ns sst).canon h2
  exact ⟨h1, h2, h3, t1, t2⟩

/-! ### children of a strand-notation complex -/

theorem filterMap_some_map {β} (l : List β) : (l.map some).filterMap id = l := by
  induction l with
  | nil => rfl
  | cons a as ih => simp [ih]

theorem filterMap_joinWith {α β} (f : α → β) (cts : List (List α)) :
    (joinWith none (cts.map (fun c => (c.map f).map some))).filterMap id = cts.flatten.map f := by
  induction cts with
  | nil => rfl
  | cons c rest ih =>
    cases rest with
    | nil => simp [joinWith]
    | cons c2 rest2 =>
      simp only [List.map_cons, joinWith] at ih ⊢
      rw [List.filterMap_append, List.filterMap_cons]
      simp only [id, ih, filterMap_some_map]
      simp

theorem filter_joinWith (cts : List (List String)) (h : ∀ c ∈ cts, ∀ n ∈ c, n ≠ "+") :
    (joinWith "+" cts).filter (· != "+") = cts.flatten := by
  induction cts with
  | nil => rfl
  | cons c rest ih =>
    have hc : c.filter (· != "+") = c := by
      rw [List.filter_eq_self]; intro n hn; simpa using h c (by simp) n hn
    cases rest with
    | nil => simpa [joinWith] using hc
    | cons c2 rest2 =>
      have ih' := ih (fun x hx => h x (by simp [hx]))
      simp only [joinWith] at ih' ⊢
      rw [List.filter_append, hc, List.filter_cons]
      simp [ih']

/-- the children of a strand-notation complex are the dictionary's identities of its domain names -/
theorem scplx_children (ds : List Decl) (hsys : Sys ds) (ss : List SDecl) (hss : SSys ds ss) (c : CDecl)
    (hstr : ∀ n ∈ c.strands, n ∈ ss.map (·.1)) :
    ((c.spec ds ss).seq.filterMap id).map some =
      ((c.spec ds ss).ns.filter (· != "+")).map (fun n => (dDict ds).lookup n) := by
  have hcts : ∀ ct ∈ c.strands.map (contentOf ss), ContentOK ds ct := by
    intro ct hct
    obtain ⟨sn, hsn, rfl⟩ := List.mem_map.mp hct
    obtain ⟨p, hp, rfl⟩ := List.mem_map.mp (hstr sn hsn)
    obtain ⟨j, hj⟩ := List.getElem?_of_mem hp
    rw [contentOf_get ss hss.names j p hj]
    exact hss.content p hp
  have h1 : (c.spec ds ss).seq.filterMap id = (c.strands.map (contentOf ss)).flatten.map (resolveId ds) := by
    have := filterMap_joinWith (resolveId ds) (c.strands.map (contentOf ss))
    rw [List.map_map] at this
    exact this
  have h2 : (c.spec ds ss).ns.filter (· != "+") = (c.strands.map (contentOf ss)).flatten :=
    filter_joinWith _ (fun ct hct n hn => (hcts ct hct n hn).1)
  rw [h1, h2, List.map_map]
  apply List.map_congr_left
  intro n hn
  obtain ⟨ct, hct, hnct⟩ := List.mem_flatten.mp hn
  obtain ⟨_, k, d, hk, hnd⟩ := hcts ct hct n hnct
  obtain ⟨l1, l2⟩ := dDict_lookup ds hsys k d hk
  simp only [Function.comp, resolveId]
  rcases hnd with rfl | rfl
  · rw [l1]; rfl
  · rw [l2]; rfl

/-! ### the domain and strand part of the state with complexes -/

theorem S4_domObj (cd cst cc : Nat) (hcd : cd < 4) (ds : List Decl) (ss : List SDecl) (cs : List CSpec)
    (conc : List (Nat × (String × String × String))) (k : Nat) (d : Decl) (hk : ds[k]? = some d) :
    (S4 cd cst cc ds ss cs conc).w.domObj (2 * k) = some (cd, newDom (2 * k) d.name d.len) ∧
    (S4 cd cst cc ds ss cs conc).w.domObj (2 * k + 1) = some (cd, newDom (2 * k + 1) (star d.name) d.len) := by
  have hlt := getElem?_lt' _ _ _ hk
  obtain ⟨h1, h2⟩ := dObjs_find ds k d hk
  exact ⟨domObj_gen _ cd hcd (dObjs ds) rfl _ _ (nodes4_dom cd cst cc ds ss cs _ (by omega)) h1,
    domObj_gen _ cd hcd (dObjs ds) rfl _ _ (nodes4_dom cd cst cc ds ss cs _ (by omega)) h2⟩

theorem S4_live_dom (cd cst cc : Nat) (ds : List Decl) (ss : List SDecl) (cs : List CSpec)
    (conc : List (Nat × (String × String × String))) (i : Nat) (hi : i < 2 * ds.length) :
    (S4 cd cst cc ds ss cs conc).w.isLive i = true ∧ i ∈ (S4 cd cst cc ds ss cs conc).w.held := by
  constructor
  · unfold World.isLive World.node
    have := nodes4_dom cd cst cc ds ss cs i hi
    have hn : (S4 cd cst cc ds ss cs conc).w.nodes = (P4 cd cst cc ds ss cs).nodes := rfl
    rw [hn, this]; rfl
  · show i ∈ List.range (base4 ds ss + cs.length)
    exact List.mem_range.mpr (by unfold base4; omega)

theorem S4_strand (cd cst cc : Nat) (hcs : cst < 4) (ds : List Decl) (ss : List SDecl) (cs : List CSpec)
    (conc : List (Nat × (String × String × String))) (j : Nat) (p : SDecl) (hj : ss[j]? = some p) :
    (S4 cd cst cc ds ss cs conc).w.node (2 * ds.length + j) =
      some (strandNode (2 * ds.length + j) cst (idsOf ds p.2)) ∧
    (S4 cd cst cc ds ss cs conc).w.cplxObj (2 * ds.length + j) =
      some (cst, newStrand (2 * ds.length + j) p.1 p.2) ∧
    (S4 cd cst cc ds ss cs conc).w.isLive (2 * ds.length + j) = true ∧
    2 * ds.length + j ∈ (S4 cd cst cc ds ss cs conc).w.held := by
  have hlt := getElem?_lt' _ _ _ hj
  have hnode : (S4 cd cst cc ds ss cs conc).w.node (2 * ds.length + j) =
      some (strandNode (2 * ds.length + j) cst (idsOf ds p.2)) := nodes4_strand cd cst cc ds ss cs j p hj
  obtain ⟨cr0, h0, _⟩ := baseStrands_get cst hcs
  have hget := setObjs_get baseStrands cst (sObjs ds ss) cr0 h0
  have hstr : (S4 cd cst cc ds ss cs conc).w.strands = setObjs baseStrands cst (sObjs ds ss) := rfl
  refine ⟨hnode, ?_, ?_, ?_⟩
  · unfold World.cplxObj
    rw [hnode]
    simp only [strandNode, reduceCtorEq, if_false, if_true, hstr, hget, Option.bind_some, Reg.findId,
      sObjs_find ds ss j p hj, Option.map_some]
  · unfold World.isLive; rw [hnode]; rfl
  · show 2 * ds.length + j ∈ List.range (base4 ds ss + cs.length)
    exact List.mem_range.mpr (by unfold base4; omega)

end Dsd.Sig
