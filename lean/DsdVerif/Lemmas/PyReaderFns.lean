/-
Lemmas for Props/PyReaderFns.lean: the statement-level translation `Gen.py_read_reaction` (Gen/PyReaderFns.lean, regenerated from
dsdobjects/objectio.py by translator/pyreaderfn.py) against the hand-written `ReaderFull.readReaction`, and the translated
`set_io_objects` / `clear_io_objects` against their net effect on the five module globals.

The model reports a str where a list is needed (or vice versa) as TypeError; the code follows Python's duck typing (a str is
subscripted character by character).  They agree on lines TYPED as the grammar produces them (`lineTyped`: the info box is a list
of lists of strs, reactants and products are lists) - proved by case analysis over the shape of the info box (at most its first
three items matter) and of the rest of the line, each case by evaluation of both sides.
-/
import DsdVerif.Gen.PyReaderFns
import DsdVerif.Model.ReaderFull

namespace Dsd.PyReaderFnsL
open Dsd Dsd.PP Dsd.Gen Dsd.ReaderFull

def toRErr : Err → RErr
  | .fault k => .fault k
  | .secondaryStructure => .secondaryStructure
  | .objectInit => .objectInit
  | .singleton _ => .singleton
  | .notImplemented => .notImplemented
  | .assertion => .assertion
  | .pilFormat => .pilFormat
  | .parse => .fault "ParseException"

abbrev Res6 := Option Tree × Option Tree × Option Tree × Option Py.FloatLit × Option Tree × Option String

def keep3 (r : Res6) : Option Tree × Option String × Option Tree := (r.2.2.1, r.2.2.2.1, r.2.2.2.2.1)
def embed3 (r : Option String × Option String × Option String) : Option Tree × Option String × Option Tree :=
  (r.1.map .tok, r.2.1, r.2.2.map .tok)

def isTok : Tree → Bool | .tok _ => true | .grp _ => false
def isGrp : Tree → Bool | .grp _ => true | .tok _ => false
def isToks : Tree → Bool | .grp ts => ts.all isTok | .tok _ => false
def infoTyped : Tree → Bool | .grp ts => ts.all isToks | .tok _ => false
def lineTyped (line : List Tree) : Bool :=
  match line with
  | _ :: l1 :: rest => infoTyped l1 && (match rest with | [] => true | [a] => isGrp a | a :: b :: _ => isGrp a && isGrp b)
  | _ => true

theorem asStrs_eq (ts : List Tree) :
    asStrs ts = (match Py.treeStrs ts with | .ok l => .ok l | .error _ => .error (.fault "TypeError")) := by
  induction ts with
  | nil => rfl
  | cons t ts ih =>
    cases t with
    | tok s =>
      simp only [asStrs, List.mapM_cons, asStr, Py.treeStrs] at *
      rw [ih]
      cases Py.treeStrs ts <;> rfl
    | grp g => rfl

theorem treeStrs_cases (ts : List Tree) :
    (∃ l, Py.treeStrs ts = .ok l) ∨ Py.treeStrs ts = .error (.fault "TypeError") := by
  induction ts with
  | nil => exact .inl ⟨[], rfl⟩
  | cons t ts ih =>
    cases t with
    | grp g => exact .inr rfl
    | tok s =>
      rcases ih with ⟨l, hl⟩ | hl
      · exact .inl ⟨s :: l, by simp only [Py.treeStrs, hl]; rfl⟩
      · exact .inr (by simp only [Py.treeStrs, hl]; rfl)

macro "rx_typed" : tactic =>
  `(tactic| simp [lineTyped, infoTyped, isToks, isTok, isGrp] at h)

macro "rx_simp" : tactic =>
  `(tactic| ((simp [py_read_reaction, readReaction, infoHead, infoError, item, asList, asStr, Except.bind, Py.idx, Py.treeIdx,
      Py.treeNeNil, Py.treeLen, Py.treeFloat, Py.treeJoin, Py.inStrSet, Py.unwrap, asStrs_eq, Except.map, Except.mapError, keep3,
      embed3, toRErr, *]) <;> try rfl))

/-- a typed info box is a list of lists of strs -/
theorem infoTyped_norm (ts : List Tree) (h : ts.all isToks = true) :
    ∃ tys : List (List String), ts = tys.map (fun ss => Tree.grp (ss.map Tree.tok)) := by
  induction ts with
  | nil => exact ⟨[], rfl⟩
  | cons x ts ih =>
    simp only [List.all_cons, Bool.and_eq_true] at h
    obtain ⟨tys, rfl⟩ := ih h.2
    cases x with
    | tok s => simp [isToks] at h
    | grp us =>
      have hu : ∃ ss : List String, us = ss.map Tree.tok := by
        have h1 := h.1
        simp only [isToks] at h1
        clear h
        induction us with
        | nil => exact ⟨[], rfl⟩
        | cons u us ihu =>
          simp only [List.all_cons, Bool.and_eq_true] at h1
          obtain ⟨ss, rfl⟩ := ihu h1.2
          cases u with
          | tok s => exact ⟨s :: ss, rfl⟩
          | grp g => simp [isTok] at h1
      obtain ⟨ss, rfl⟩ := hu
      exact ⟨ss :: tys, rfl⟩

theorem restTyped_norm (rest : List Tree)
    (h : (match rest with | [] => true | [a] => isGrp a | a :: b :: _ => isGrp a && isGrp b) = true) :
    rest = [] ∨ (∃ rs, rest = [.grp rs]) ∨ (∃ rs ps more, rest = .grp rs :: .grp ps :: more) := by
  rcases rest with _ | ⟨(s2 | rs), _ | ⟨(s3 | ps), more⟩⟩ <;> simp [isGrp] at h ⊢

set_option hygiene false in
/-- the shapes of a typed info box `tys` (already a list of lists of strs): no / one / two / at least three items; of the type its
    first str (and whether it is in the set `rt`), of the rate whether it has 0 / 1 / 2 / more strs, of the units the first str -/
macro "rx_info" rt:term : tactic => `(tactic| (
  rcases tys with _ | ⟨ty, _ | ⟨ra, _ | ⟨un, more⟩⟩⟩
  · rx_simp
  · rcases ty with _ | ⟨t, ty'⟩
    · rx_simp
    · by_cases ht : t ∈ $rt <;> rx_simp
  · rcases ty with _ | ⟨t, ty'⟩
    · rcases ra with _ | ⟨r0, _ | ⟨r1, _ | ⟨r2, ra'⟩⟩⟩ <;> rx_simp
    · by_cases ht : t ∈ $rt <;> rcases ra with _ | ⟨r0, _ | ⟨r1, _ | ⟨r2, ra'⟩⟩⟩ <;> rx_simp
  · rcases ty with _ | ⟨t, ty'⟩
    · rcases ra with _ | ⟨r0, _ | ⟨r1, _ | ⟨r2, ra'⟩⟩⟩ <;> rcases un with _ | ⟨u, un'⟩ <;> rx_simp
    · by_cases ht : t ∈ $rt <;> rcases ra with _ | ⟨r0, _ | ⟨r1, _ | ⟨r2, ra'⟩⟩⟩ <;> rcases un with _ | ⟨u, un'⟩ <;> rx_simp))

set_option hygiene false in
/-- the shapes of the rest of a typed line: reactants / products absent, or lists whose join succeeds or raises TypeError -/
macro "rx_line" rt:term : tactic => `(tactic| (
  simp only [lineTyped, infoTyped, Bool.and_eq_true] at h
  obtain ⟨tys, rfl⟩ := infoTyped_norm ts h.1
  have hrest := restTyped_norm rest h.2
  clear h
  rcases hrest with rfl | ⟨rs, rfl⟩ | ⟨rs, ps, more', rfl⟩
  · rx_info $rt
  · rcases treeStrs_cases rs with ⟨lr, hr⟩ | hr
    · rx_info $rt
    · rx_info $rt
  · rcases treeStrs_cases rs with ⟨lr, hr⟩ | hr <;> rcases treeStrs_cases ps with ⟨lp, hp⟩ | hp
    · rx_info $rt
    · rx_info $rt
    · rx_info $rt
    · rx_info $rt))

set_option maxHeartbeats 4000000 in
theorem py_eq_grp (g12 : Py.FloatLit → String) (strL : List Tree → String) (a : Tree) (ts rest : List Tree)
    (h : lineTyped (a :: .grp ts :: rest) = true) :
    ((py_read_reaction Gen.rtypes g12 strL (a :: .grp ts :: rest)).map keep3).mapError toRErr =
      (readReaction (a :: .grp ts :: rest)).map embed3 := by
  rx_line Gen.rtypes

/-- **the translation is the model on typed lines** (components rtype, rate, units; exceptions by kind) -/
theorem py_eq (g12 : Py.FloatLit → String) (strL : List Tree → String) (line : List Tree) (h : lineTyped line = true) :
    ((py_read_reaction Gen.rtypes g12 strL line).map keep3).mapError toRErr = (readReaction line).map embed3 := by
  match line, h with
  | [], _ => rfl
  | [_], _ => rfl
  | a :: .tok s :: rest, h => simp [lineTyped, infoTyped] at h
  | a :: .grp ts :: rest, h => exact py_eq_grp g12 strL a ts rest h

end Dsd.PyReaderFnsL
