/-
`DomainS.__init__` as translated from the source (Gen/PyMembers2.lean): its net effect.  Core Lean only.
-/
import DsdVerif.Gen.PyMembers2

set_option linter.unusedSimpArgs false
set_option linter.unusedVariables false

namespace Dsd.PyMembers2L
open Dsd Gen

section exec
variable {σ α β : Type}
theorem exec_pure (a : α) (s : σ) : (pure a : Py.MS σ α).exec s = (.ok a, s) := rfl
theorem exec_bind (m : Py.MS σ α) (f : α → Py.MS σ β) (s : σ) :
    (m >>= f).exec s = match m.exec s with
      | (.ok a, s') => (f a).exec s'
      | (.error e, s') => (.error e, s') := by
  simp only [Py.MS.exec, ExceptT.run, bind, ExceptT.bind, ExceptT.mk, StateT.bind, StateT.run]
  cases h : m s with
  | mk r s' => cases r <;> rfl
theorem exec_get (s : σ) : (get : Py.MS σ σ).exec s = (.ok s, s) := rfl
theorem exec_modify (f : σ → σ) (s : σ) : (modify f : Py.MS σ Unit).exec s = (.ok (), f s) := rfl
theorem exec_lift (x : Except Err α) (s : σ) : (liftM x : Py.MS σ α).exec s = (x, s) := by cases x <;> rfl
theorem exec_monadLift (x : Except Err α) (s : σ) : (monadLift x : Py.MS σ α).exec s = (x, s) := by cases x <;> rfl
theorem exec_ite (c : Prop) [Decidable c] (a b : Py.MS σ α) (s : σ) :
    (if c then a else b).exec s = if c then a.exec s else b.exec s := by split <;> rfl
end exec

/-- the automatic name: `prefix` if one is GIVEN (`is None` test: an empty prefix counts as given), else `cls.PREFIX`; then `cls.ID` -/
def autoName (pfx : String) (id : Nat) (pre : Option String) : String := pre.getD pfx ++ toString id

/-- the default length by `dtype` -/
def defaultLen (sh lo : Nat) (dtype : Option String) : Option Nat :=
  if dtype == some "short" then some sh else if dtype == some "long" then some lo else none

/-- the state after `__init__` -/
def initPost (st : DomainS2.St) (pfx : String) (sh lo : Nat) (name : Option String) (length : Option Nat) (pre dtype : Option String) :
    DomainS2.St :=
  { cls_ID := if name.isNone then st.cls_ID + 1 else st.cls_ID
    _name := name.getD (autoName pfx st.cls_ID pre)
    _length := match length with | some l => some l | none => defaultLen sh lo dtype
    sequence := none }

/-- **`DomainS.__init__` as written, net effect**: never raises; the given name or the automatic one; `cls.ID += 1` exactly when no name was
    given; the given length or the default of the `dtype`; `sequence = None` -/
theorem py_domain_init_eq (st : DomainS2.St) (pfx : String) (sh lo : Nat) (name : Option String) (length : Option Nat)
    (pre dtype : Option String) :
    (py_DomainS_init_full pfx sh lo name length pre dtype).exec st = (.ok (), initPost st pfx sh lo name length pre dtype) := by
  unfold py_DomainS_init_full
  cases name <;> cases pre <;> cases length <;>
    simp only [Option.isNone, if_true, if_false, Bool.false_eq_true, exec_bind, exec_get, exec_modify, exec_pure, exec_lift, exec_monadLift,
      exec_ite, Py.unwrap] <;> rfl

end Dsd.PyMembers2L
