/-
The remaining views of the legacy `SequenceConstraint` against the current IUPAC functions (both as translated from the source).
-/
import DsdVerif.Lemmas.PyLegacySeq

set_option linter.unusedSimpArgs false

namespace Dsd.PyLegacySeq
open Dsd Dsd.Gen Dsd.PyObj.Basic

theorem seq_mkS (s : List Char) (mol : String) : (mkS s mol)._sequence = s.map (fun c => [c]) := rfl
theorem rev_seq_mkS (s : List Char) (mol : String) : List.reverse (mkS s mol)._sequence = s.reverse.map (fun c => [c]) := by
  rw [seq_mkS, List.map_reverse]

theorem wc_complement_eq (s : List Char) (mol : String) (hm : mol = "DNA" ∨ mol = "RNA") (hs : ∀ c ∈ s, c ∈ wcCodesOf mol) :
    (py_SequenceConstraint_wc_complement).exec (mkS s mol) = (py_wc_complement s mol, mkS s mol) := by
  unfold py_SequenceConstraint_wc_complement py_wc_complement
  simp only [exec_bind, exec_get, exec_pure]
  rcases hm with rfl | rfl
  · rw [seq_mkS, mapM_codes _ (Py.dictGet wc_complement_dna) _ s
      (fun c hc => by rw [wc_ToU, show (mkS s "DNA").ToU = ['T'] from rfl, wc_codes_dna c (hs c hc)])]
    cases List.mapM (Py.dictGet wc_complement_dna) s <;> rfl
  · rw [seq_mkS, mapM_codes _ (Py.dictGet wc_complement_rna) _ s
      (fun c hc => by rw [wc_ToU, show (mkS s "RNA").ToU = ['U'] from rfl, wc_codes_rna c (hs c hc)])]
    cases List.mapM (Py.dictGet wc_complement_rna) s <;> rfl

theorem reverse_complement_eq (s : List Char) (mol : String) (hm : mol = "DNA" ∨ mol = "RNA") (hs : ∀ c ∈ s, c ∈ codesOf mol) :
    (py_SequenceConstraint_reverse_complement).exec (mkS s mol) = (py_reverse_complement s mol, mkS s mol) := by
  unfold py_SequenceConstraint_reverse_complement py_reverse_complement
  simp only [exec_bind, exec_get, exec_pure]
  have hr : ∀ c ∈ s.reverse, c ∈ codesOf mol := fun c hc => hs c (List.mem_reverse.mp hc)
  rcases hm with rfl | rfl
  · rw [rev_seq_mkS, mapM_codes _ (Py.dictGet wobble_complement_dna) _ s.reverse
      (fun c hc => by rw [compl_ToU, show (mkS s "DNA").ToU = ['T'] from rfl, compl_codes_dna c (hr c hc)])]
    cases List.mapM (Py.dictGet wobble_complement_dna) s.reverse <;> rfl
  · rw [rev_seq_mkS, mapM_codes _ (Py.dictGet wobble_complement_rna) _ s.reverse
      (fun c hc => by rw [compl_ToU, show (mkS s "RNA").ToU = ['U'] from rfl, compl_codes_rna c (hr c hc)])]
    cases List.mapM (Py.dictGet wobble_complement_rna) s.reverse <;> rfl

theorem reverse_wc_complement_eq (s : List Char) (mol : String) (hm : mol = "DNA" ∨ mol = "RNA") (hs : ∀ c ∈ s, c ∈ wcCodesOf mol) :
    (py_SequenceConstraint_reverse_wc_complement).exec (mkS s mol) = (py_reverse_wc_complement s mol, mkS s mol) := by
  unfold py_SequenceConstraint_reverse_wc_complement py_reverse_wc_complement
  simp only [exec_bind, exec_get, exec_pure]
  have hr : ∀ c ∈ s.reverse, c ∈ wcCodesOf mol := fun c hc => hs c (List.mem_reverse.mp hc)
  rcases hm with rfl | rfl
  · rw [rev_seq_mkS, mapM_codes _ (Py.dictGet wc_complement_dna) _ s.reverse
      (fun c hc => by rw [wc_ToU, show (mkS s "DNA").ToU = ['T'] from rfl, wc_codes_dna c (hr c hc)])]
    cases List.mapM (Py.dictGet wc_complement_dna) s.reverse <;> rfl
  · rw [rev_seq_mkS, mapM_codes _ (Py.dictGet wc_complement_rna) _ s.reverse
      (fun c hc => by rw [wc_ToU, show (mkS s "RNA").ToU = ['U'] from rfl, wc_codes_rna c (hr c hc)])]
    cases List.mapM (Py.dictGet wc_complement_rna) s.reverse <;> rfl

end Dsd.PyLegacySeq
