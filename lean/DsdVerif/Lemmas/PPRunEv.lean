/-
Symbolic-execution toolkit for the pyparsing model (Model/Pyparsing.lean).

`run` is fuel based and NOT monotone in the fuel (a sub-parser that runs out of fuel "fails", and `opt`, `alt`,
`many` turn failures into successes), so all lemmas speak about *eventual* results:
`Ev env ctx g p o b` — for every fuel `≥ b` the interpreter answers `o` (a success or a failure).
These statements compose through every grammar constructor.
-/
import DsdVerif.Model.Pyparsing

namespace Dsd.PP

/-- the result of `run` is `o` for every fuel `≥ b` -/
def Ev (env : Env) (ctx : Ctx) (g : G) (p : Pos) (o : Option (Pos × List Tree)) (b : Nat) : Prop :=
  ∀ fuel, b ≤ fuel → run env fuel ctx g p = o
def EvSeq (env : Env) (ctx : Ctx) (gs : List G) (p : Pos) (o : Option (Pos × List Tree)) (b : Nat) : Prop :=
  ∀ fuel, b ≤ fuel → runSeq env fuel ctx gs p = o
def EvAlt (env : Env) (ctx : Ctx) (gs : List G) (p : Pos) (o : Option (Pos × List Tree)) (b : Nat) : Prop :=
  ∀ fuel, b ≤ fuel → runAlt env fuel ctx gs p = o
def EvMany (env : Env) (ctx : Ctx) (g : G) (p : Pos) (o : Option (Pos × List Tree)) (b : Nat) : Prop :=
  ∀ reps fuel, b ≤ reps → b ≤ fuel → runMany env reps fuel ctx g p = o

/-- position with the end-of-input flag unset -/
abbrev P (cs : List Char) : Pos := { rest := cs, past := false }
/-- the position after the virtual final line end -/
abbrev Pend : Pos := { rest := [], past := true }

abbrev sk : Ctx := { skip := true }
abbrev nsk : Ctx := { skip := false }

variable {env : Env} {ctx : Ctx} {g : G} {gs : List G} {p p1 p2 : Pos} {o o' : Option (Pos × List Tree)}
  {t1 t2 : List Tree} {b b' b1 b2 : Nat}

theorem Ev.cast (h : Ev env ctx g p o b) (ho : o = o') (hb : b ≤ b') : Ev env ctx g p o' b' := by
  subst ho; intro fuel hf; exact h fuel (by omega)
theorem EvSeq.cast (h : EvSeq env ctx gs p o b) (ho : o = o') (hb : b ≤ b') : EvSeq env ctx gs p o' b' := by
  subst ho; intro fuel hf; exact h fuel (by omega)
theorem EvAlt.cast (h : EvAlt env ctx gs p o b) (ho : o = o') (hb : b ≤ b') : EvAlt env ctx gs p o' b' := by
  subst ho; intro fuel hf; exact h fuel (by omega)
theorem EvMany.cast (h : EvMany env ctx g p o b) (ho : o = o') (hb : b ≤ b') : EvMany env ctx g p o' b' := by
  subst ho; intro reps fuel hr hf; exact h reps fuel (by omega) (by omega)

/-! ### sequences -/

theorem evs_nil : EvSeq env ctx [] p (some (p, [])) 1 := by
  intro fuel hf
  obtain ⟨f, rfl⟩ : ∃ f, fuel = f + 1 := ⟨fuel - 1, by omega⟩
  simp only [runSeq]

theorem evs_cons (h1 : Ev env ctx g p (some (p1, t1)) b1) (h2 : EvSeq env ctx gs p1 (some (p2, t2)) b2) :
    EvSeq env ctx (g :: gs) p (some (p2, t1 ++ t2)) (max b1 b2 + 1) := by
  intro fuel hf
  obtain ⟨f, rfl⟩ : ∃ f, fuel = f + 1 := ⟨fuel - 1, by omega⟩
  simp only [runSeq, h1 f (by omega), h2 f (by omega)]

theorem evs_fail_head (h1 : Ev env ctx g p none b1) : EvSeq env ctx (g :: gs) p none (b1 + 1) := by
  intro fuel hf
  obtain ⟨f, rfl⟩ : ∃ f, fuel = f + 1 := ⟨fuel - 1, by omega⟩
  simp only [runSeq, h1 f (by omega)]

theorem evs_fail_tail (h1 : Ev env ctx g p (some (p1, t1)) b1) (h2 : EvSeq env ctx gs p1 none b2) :
    EvSeq env ctx (g :: gs) p none (max b1 b2 + 1) := by
  intro fuel hf
  obtain ⟨f, rfl⟩ : ∃ f, fuel = f + 1 := ⟨fuel - 1, by omega⟩
  simp only [runSeq, h1 f (by omega), h2 f (by omega)]

theorem ev_seq (h : EvSeq env ctx gs p o b) : Ev env ctx (.seq gs) p o (b + 1) := by
  intro fuel hf
  obtain ⟨f, rfl⟩ : ∃ f, fuel = f + 1 := ⟨fuel - 1, by omega⟩
  simp only [run, h f (by omega)]

/-! ### ordered choice -/

theorem eva_nil : EvAlt env ctx [] p none 0 := by
  intro fuel _
  cases fuel <;> simp only [runAlt]

theorem eva_ok {r : Pos × List Tree} (h1 : Ev env ctx g p (some r) b1) : EvAlt env ctx (g :: gs) p (some r) (b1 + 1) := by
  intro fuel hf
  obtain ⟨f, rfl⟩ : ∃ f, fuel = f + 1 := ⟨fuel - 1, by omega⟩
  simp only [runAlt, h1 f (by omega)]

theorem eva_skip (h1 : Ev env ctx g p none b1) (h2 : EvAlt env ctx gs p o b2) :
    EvAlt env ctx (g :: gs) p o (max b1 b2 + 1) := by
  intro fuel hf
  obtain ⟨f, rfl⟩ : ∃ f, fuel = f + 1 := ⟨fuel - 1, by omega⟩
  simp only [runAlt, h1 f (by omega), h2 f (by omega)]

theorem ev_alt (h : EvAlt env ctx gs p o b) : Ev env ctx (.alt gs) p o (b + 1) := by
  intro fuel hf
  obtain ⟨f, rfl⟩ : ∃ f, fuel = f + 1 := ⟨fuel - 1, by omega⟩
  simp only [run, h f (by omega)]

/-! ### option, repetition -/

theorem ev_opt_some {r : Pos × List Tree} (h : Ev env ctx g p (some r) b) : Ev env ctx (.opt g) p (some r) (b + 1) := by
  intro fuel hf
  obtain ⟨f, rfl⟩ : ∃ f, fuel = f + 1 := ⟨fuel - 1, by omega⟩
  simp only [run, h f (by omega)]

theorem ev_opt_none (h : Ev env ctx g p none b) : Ev env ctx (.opt g) p (some (p, [])) (b + 1) := by
  intro fuel hf
  obtain ⟨f, rfl⟩ : ∃ f, fuel = f + 1 := ⟨fuel - 1, by omega⟩
  simp only [run, h f (by omega)]

theorem evm_stop (h : Ev env ctx g p none b) : EvMany env ctx g p (some (p, [])) (b + 1) := by
  intro reps fuel hr hf
  obtain ⟨f, rfl⟩ : ∃ f, fuel = f + 1 := ⟨fuel - 1, by omega⟩
  obtain ⟨r, rfl⟩ : ∃ r, reps = r + 1 := ⟨reps - 1, by omega⟩
  simp only [runMany, h f (by omega)]

theorem evm_step (h1 : Ev env ctx g p (some (p1, t1)) b1) (hne : p1 ≠ p)
    (h2 : EvMany env ctx g p1 (some (p2, t2)) b2) :
    EvMany env ctx g p (some (p2, t1 ++ t2)) (max b1 b2 + 1) := by
  intro reps fuel hr hf
  obtain ⟨f, rfl⟩ : ∃ f, fuel = f + 1 := ⟨fuel - 1, by omega⟩
  obtain ⟨r, rfl⟩ : ∃ r, reps = r + 1 := ⟨reps - 1, by omega⟩
  have hb : (p1 == p) = false := by simpa using hne
  simp only [runMany, h1 f (by omega), hb, h2 r f (by omega) (by omega)]
  simp

theorem ev_many (h : EvMany env ctx g p o b) : Ev env ctx (.many g) p o (b + 1) := by
  intro fuel hf
  obtain ⟨f, rfl⟩ : ∃ f, fuel = f + 1 := ⟨fuel - 1, by omega⟩
  simp only [run, h f f (by omega) (by omega)]

theorem ev_many1 (h1 : Ev env ctx g p (some (p1, t1)) b1) (h2 : EvMany env ctx g p1 (some (p2, t2)) b2) :
    Ev env ctx (.many1 g) p (some (p2, t1 ++ t2)) (max b1 b2 + 1) := by
  intro fuel hf
  obtain ⟨f, rfl⟩ : ∃ f, fuel = f + 1 := ⟨fuel - 1, by omega⟩
  simp only [run, h1 f (by omega), h2 f f (by omega) (by omega)]

theorem ev_many1_fail (h1 : Ev env ctx g p none b1) : Ev env ctx (.many1 g) p none (b1 + 1) := by
  intro fuel hf
  obtain ⟨f, rfl⟩ : ∃ f, fuel = f + 1 := ⟨fuel - 1, by omega⟩
  simp only [run, h1 f (by omega)]

/-! ### group, suppress, combine -/

theorem ev_group (h : Ev env ctx g p (some (p1, t1)) b) : Ev env ctx (.group g) p (some (p1, [.grp t1])) (b + 1) := by
  intro fuel hf
  obtain ⟨f, rfl⟩ : ∃ f, fuel = f + 1 := ⟨fuel - 1, by omega⟩
  simp only [run, h f (by omega)]

theorem ev_group_fail (h : Ev env ctx g p none b) : Ev env ctx (.group g) p none (b + 1) := by
  intro fuel hf
  obtain ⟨f, rfl⟩ : ∃ f, fuel = f + 1 := ⟨fuel - 1, by omega⟩
  simp only [run, h f (by omega)]

theorem ev_suppress (h : Ev env ctx g p (some (p1, t1)) b) : Ev env ctx (.suppress g) p (some (p1, [])) (b + 1) := by
  intro fuel hf
  obtain ⟨f, rfl⟩ : ∃ f, fuel = f + 1 := ⟨fuel - 1, by omega⟩
  simp only [run, h f (by omega)]

theorem ev_suppress_fail (h : Ev env ctx g p none b) : Ev env ctx (.suppress g) p none (b + 1) := by
  intro fuel hf
  obtain ⟨f, rfl⟩ : ∃ f, fuel = f + 1 := ⟨fuel - 1, by omega⟩
  simp only [run, h f (by omega)]

theorem flatToks_single (f : Nat) (s : String) : flatToks (f + 1) [.tok s] = [s] := by
  cases f <;> simp [flatToks]

/-- `Combine` around a parser that yields a single token -/
theorem ev_combine_single {s : String} (h : Ev env nsk g (pre ctx p) (some (p1, [.tok s])) b) :
    Ev env ctx (.combine g) p (some (p1, [.tok s])) (b + 1) := by
  intro fuel hf
  obtain ⟨f, rfl⟩ : ∃ f, fuel = f + 1 := ⟨fuel - 1, by omega⟩
  simp only [run, h f (by omega), flatToks_single, String.join]
  simp

theorem ev_combine_fail (h : Ev env nsk g (pre ctx p) none b) : Ev env ctx (.combine g) p none (b + 1) := by
  intro fuel hf
  obtain ⟨f, rfl⟩ : ∃ f, fuel = f + 1 := ⟨fuel - 1, by omega⟩
  simp only [run, h f (by omega)]

/-! ### leaves -/

theorem stripPrefix_appendE (s rest : List Char) : stripPrefix s (s ++ rest) = some rest := by
  induction s with
  | nil => cases rest <;> rfl
  | cons a s ih => simp [stripPrefix, ih]

theorem skipWs_cons_of (c : Char) (r : List Char) (h : isWs c = false) : skipWs (c :: r) = c :: r := by
  simp [skipWs, h]

theorem skipIgn_cons_of (c : Char) (r : List Char) (h : isWs c = false) (h2 : c ≠ '#') :
    skipIgn (c :: r) = c :: r := by
  unfold skipIgn
  simp only [skipWs_cons_of c r h]
  split
  · rename_i heq; simp at heq; exact absurd heq.1 h2
  · rfl

theorem skipWs_blanks (k : Nat) (r : List Char) : skipWs (List.replicate k ' ' ++ r) = skipWs r := by
  induction k with
  | zero => rfl
  | succ k ih =>
    simp only [List.replicate_succ, List.cons_append, skipWs, List.dropWhile_cons] at ih ⊢
    simp [isWs, ih]

theorem skipIgn_blanksE (k : Nat) (r : List Char) : skipIgn (List.replicate k ' ' ++ r) = skipIgn r := by
  unfold skipIgn
  simp only [skipWs_blanks]

theorem skipIgn_blanks_consE (k : Nat) (c : Char) (r : List Char) (h : isWs c = false) (h2 : c ≠ '#') :
    skipIgn (List.replicate k ' ' ++ c :: r) = c :: r := by
  rw [skipIgn_blanksE, skipIgn_cons_of c r h h2]

theorem skipIgn_nilE : skipIgn [] = [] := rfl

/-- a literal after `k` blanks -/
theorem ev_lit (k : Nat) (c : Char) (s rest : List Char) (h : isWs c = false) (h2 : c ≠ '#') :
    Ev env sk (.lit (c :: s)) (P (List.replicate k ' ' ++ (c :: s ++ rest)))
      (some (P rest, [.tok (String.ofList (c :: s))])) 1 := by
  intro fuel hf
  obtain ⟨f, rfl⟩ : ∃ f, fuel = f + 1 := ⟨fuel - 1, by omega⟩
  have hp : pre sk (P (List.replicate k ' ' ++ (c :: s ++ rest))) = P (c :: s ++ rest) := by
    simp only [pre, if_true]
    rw [List.cons_append, skipIgn_blanks_consE k c _ h h2]
  simp only [run, hp]
  rw [stripPrefix_appendE]
  simp

/-- a literal inside `Combine` (nothing is skipped) -/
theorem ev_lit_nsk (s rest : List Char) :
    Ev env nsk (.lit s) (P (s ++ rest)) (some (P rest, [.tok (String.ofList s)])) 1 := by
  intro fuel hf
  obtain ⟨f, rfl⟩ : ∃ f, fuel = f + 1 := ⟨fuel - 1, by omega⟩
  have hp : pre nsk (P (s ++ rest)) = P (s ++ rest) := by simp [pre]
  simp only [run, hp]
  rw [stripPrefix_appendE]
  simp

/-- a literal fails when the next character differs from its first one -/
theorem ev_lit_fail (a c : Char) (s r : List Char) (hp : (pre ctx p).rest = c :: r) (hne : a ≠ c) :
    Ev env ctx (.lit (a :: s)) p none 0 := by
  intro fuel _
  cases fuel with
  | zero => simp only [run]
  | succ f =>
    simp only [run, hp, stripPrefix, hne, if_false]
    split <;> rfl

/-- a literal fails at the end of the text -/
theorem ev_lit_fail_nil (a : Char) (s : List Char) (hp : (pre ctx p).rest = []) :
    Ev env ctx (.lit (a :: s)) p none 0 := by
  intro fuel _
  cases fuel with
  | zero => simp only [run]
  | succ f =>
    simp only [run, hp, stripPrefix]
    split <;> rfl

/-- a literal fails once the virtual final line end was consumed -/
theorem ev_lit_fail_past (s : List Char) (hp : (pre ctx p).past = true) : Ev env ctx (.lit s) p none 0 := by
  intro fuel _
  cases fuel with
  | zero => simp only [run]
  | succ f => simp only [run, hp, if_true]

theorem pre_pastE (ctx : Ctx) (p : Pos) : (pre ctx p).past = p.past := by
  unfold pre; split <;> rfl

/-- `Word` fails when the next character is not an initial character -/
theorem ev_word_fail (init body : List Char) (c : Char) (r : List Char) (hp : (pre ctx p).rest = c :: r)
    (hc : init.contains c = false) : Ev env ctx (.word init body) p none 0 := by
  intro fuel _
  cases fuel with
  | zero => simp only [run]
  | succ f => simp only [run, hp, hc]; simp

theorem takeWhile_bodyE (body ds : List Char) (c : Char) (r : List Char) (hds : ∀ x ∈ ds, body.contains x = true)
    (hc : body.contains c = false) :
    (ds ++ c :: r).takeWhile (fun x => body.contains x) = ds := by
  induction ds with
  | nil => simp only [List.nil_append, List.takeWhile_cons, hc]; simp
  | cons d ds ih =>
    have hd := hds d (List.mem_cons_self)
    rw [List.cons_append, List.takeWhile_cons, hd]
    simp only [if_true]
    rw [ih (fun x hx => hds x (List.mem_cons_of_mem _ hx))]

/-- `Word` is maximal munch: it takes `d :: ds` when the following character `c` is not a body character -/
theorem run_word (init body : List Char) (d : Char) (ds : List Char) (c : Char) (r : List Char) (past : Bool)
    (hp : pre ctx p = { rest := d :: ds ++ c :: r, past := past })
    (hd : init.contains d = true) (hds : ∀ x ∈ ds, body.contains x = true) (hc : body.contains c = false) :
    Ev env ctx (.word init body) p (some ({ rest := c :: r, past := past }, [.tok (String.ofList (d :: ds))])) 1 := by
  intro fuel hf
  obtain ⟨f, rfl⟩ : ∃ f, fuel = f + 1 := ⟨fuel - 1, by omega⟩
  simp only [run, hp, List.cons_append, hd, if_true, takeWhile_bodyE body ds c r hds hc]
  simp

/-- `LineEnd` at a line feed -/
theorem ev_lineEnd_nl (rest : List Char) :
    Ev env sk .lineEnd (P ('\n' :: rest)) (some (P rest, [.tok "\n"])) 1 := by
  intro fuel hf
  obtain ⟨f, rfl⟩ : ∃ f, fuel = f + 1 := ⟨fuel - 1, by omega⟩
  have hp : pre sk (P ('\n' :: rest)) = P ('\n' :: rest) := by
    simp only [pre, if_true]; rw [skipIgn_cons_of _ _ (by decide) (by decide)]
  simp only [run, hp]

/-- `LineEnd` at the end of the text: matches once -/
theorem ev_lineEnd_eof : Ev env sk .lineEnd (P []) (some (Pend, [])) 1 := by
  intro fuel hf
  obtain ⟨f, rfl⟩ : ∃ f, fuel = f + 1 := ⟨fuel - 1, by omega⟩
  simp [run, pre, skipIgn_nilE]

theorem ev_lineEnd_past : Ev env sk .lineEnd Pend none 0 := by
  intro fuel _
  cases fuel with
  | zero => simp only [run]
  | succ f => simp [run, pre, skipIgn_nilE]

/-- `LineEnd` fails before any other character -/
theorem ev_lineEnd_fail (c : Char) (r : List Char) (hp : (pre ctx p).rest = c :: r) (hc : c ≠ '\n') :
    Ev env ctx .lineEnd p none 0 := by
  intro fuel _
  cases fuel with
  | zero => simp only [run]
  | succ f =>
    simp only [run, hp]
    split
    · rename_i heq; simp at heq; exact absurd heq.1 hc
    · rename_i heq; simp at heq
    · rfl

theorem ev_stringStart : Ev env ctx .stringStart p (some (p, [])) 1 := by
  intro fuel hf
  obtain ⟨f, rfl⟩ : ∃ f, fuel = f + 1 := ⟨fuel - 1, by omega⟩
  simp only [run]

theorem ev_stringEnd_end : Ev env sk .stringEnd Pend (some (Pend, [])) 1 := by
  intro fuel hf
  obtain ⟨f, rfl⟩ : ∃ f, fuel = f + 1 := ⟨fuel - 1, by omega⟩
  simp [run, pre, skipIgn_nilE]

/-! ### the tail of every statement and the document frame -/

/-- `OneOrMore(Suppress(LineEnd()))` on the final line feed -/
theorem ev_lineEnds_final : Ev env sk (.many1 (.suppress .lineEnd)) (P ['\n']) (some (Pend, [])) 5 := by
  have h1 : Ev env sk (.suppress .lineEnd) (P ['\n']) (some (P [], [])) 2 := ev_suppress (ev_lineEnd_nl [])
  have h2 : Ev env sk (.suppress .lineEnd) (P []) (some (Pend, [])) 2 := ev_suppress ev_lineEnd_eof
  have h3 : Ev env sk (.suppress .lineEnd) Pend none 1 := ev_suppress_fail ev_lineEnd_past
  have m3 := evm_stop h3
  have m2 := evm_step h2 (by simp) m3
  exact (ev_many1 h1 m2).cast rfl (by decide)

end Dsd.PP
