/-
Running the translated `__init__` / views of `MacrostateS` and `ReactionS` (Gen/PySetObjects.lean): the object that `__init__` leaves,
in closed form.
-/
import DsdVerif.Gen.PySetObjects
import DsdVerif.Lemmas.PyIdent2Sort

namespace Dsd.PySetObj
open Dsd Dsd.Gen Dsd.SetsFull

section exec
variable {σ α β : Type}

theorem exec_pure (a : α) (s : σ) : (pure a : Py.MS σ α).exec s = (.ok a, s) := rfl

theorem exec_bind (m : Py.MS σ α) (f : α → Py.MS σ β) (s : σ) :
    (m >>= f).exec s = match m.exec s with
      | (.ok a, s') => (f a).exec s'
      | (.error e, s') => (.error e, s') := by
  simp only [Py.MS.exec, ExceptT.run, bind, ExceptT.bind, ExceptT.mk, StateT.bind, StateT.run]
  cases h : m s with
  | mk r s' => cases r <;> rfl

theorem exec_get (s : σ) : (get : Py.MS σ σ).exec s = (.ok s, s) := rfl
theorem exec_modify (f : σ → σ) (s : σ) : (modify f : Py.MS σ Unit).exec s = (.ok (), f s) := rfl
theorem exec_throw (e : Err) (s : σ) : (throw e : Py.MS σ α).exec s = (.error e, s) := rfl
theorem exec_lift (x : Except Err α) (s : σ) : (liftM x : Py.MS σ α).exec s = (x, s) := by cases x <;> rfl
theorem exec_monadLift (x : Except Err α) (s : σ) : (monadLift x : Py.MS σ α).exec s = (x, s) := by cases x <;> rfl
theorem exec_ite (c : Prop) [Decidable c] (a b : Py.MS σ α) (s : σ) :
    (if c then a else b).exec s = if c then a.exec s else b.exec s := by split <;> rfl

end exec

/-- **`MacrostateS.__init__` as written in the source**: the object keeps the VALUE of the member list, the first member that
    carries the name (StopIteration if none does, after `_complexes` was assigned), and the canonical form it was given -/
theorem macro_new_eq (ms : List (String × CKey)) (name : String) (canon : Option (List (String × CKey))) :
    py_MacrostateSObj_new ms name canon =
      match ms.find? (fun x => x.1 == name) with
      | none => .error (.fault "StopIteration")
      | some x => .ok { _complexes := ms, _representative := x, _canonical_form := canon } := by
  unfold py_MacrostateSObj_new py_MacrostateS___init__
  simp only [exec_bind, exec_modify, exec_monadLift, exec_pure, List.map_id']
  have hf : Py.Ident3.nextOf (List.filter (fun x => x.1 == name) ms) =
      match ms.find? (fun x => x.1 == name) with | none => .error (.fault "StopIteration") | some x => .ok x := by
    induction ms with
    | nil => rfl
    | cons y ys ih =>
      simp only [List.filter_cons, List.find?_cons]
      cases hy : y.1 == name
      · simpa using ih
      · rfl
  rw [hf]
  cases ms.find? (fun x => x.1 == name) <;> rfl

/-- **`ReactionS.__init__` as written in the source** (members without empty macrostate forms): AssertionError out of `sorted` for a
    mixed list (reactants first), AssertionError for a missing name / canonical form; else the object stores the members SORTED by
    canonical form (`pySorted`), the type, the name and the canonical form it was given -/
theorem reaction_new_eq (rs ps : List (String × MemKey)) (rtype name : Option String) (canon : Option RKey)
    (hr : ∀ y ∈ rs, y.2 ≠ .m []) (hp : ∀ y ∈ ps, y.2 ≠ .m []) :
    py_ReactionSObj_new rs ps rtype name canon =
      match pySorted rs with
      | none => .error .assertion
      | some rs' =>
        match pySorted ps with
        | none => .error .assertion
        | some ps' =>
          match name with
          | none => .error .assertion
          | some _ =>
            match canon with
            | none => .error .assertion
            | some _ => .ok { _reactants := rs', _products := ps', _rtype := rtype, _const := none, _units := none,
                              _name := name, _canonical_form := canon } := by
  unfold py_ReactionSObj_new py_ReactionS___init__
  simp only [exec_bind, exec_modify, exec_monadLift, exec_pure, PyIdent2.sortedMembers_eq rs hr, PyIdent2.sortedMembers_eq ps hp]
  cases pySorted rs with
  | none => rfl
  | some rs' =>
    cases pySorted ps with
    | none => rfl
    | some ps' =>
      cases name with
      | none => rfl
      | some n => cases canon <;> rfl

end Dsd.PySetObj
