/-
(d), first steps: the request assembled in Spec/PyDomainRequest.lean is the driver's; the exact representation `RepX` gives the
look-up representation `Rep` that `PySingletonL.call_eq` needs.
-/
import DsdVerif.Spec.PyDomainRequest
import DsdVerif.DriverDomain
import DsdVerif.Lemmas.PyDomainEqReq0

namespace Dsd.PyDomainEq
open Dsd Dsd.Gen Dsd.PySingletonL

/-- the copy outside the driver IS the driver's request -/
theorem requestPy_eq_driver (cutoff sh lo : Nat) (pfx : String) :
    ∀ (fuel fresh tmp : Nat) (q : Py.Dom.Req),
      PyDomainRequest.requestPy cutoff sh lo pfx fuel fresh tmp q = DriverDomain.requestPy cutoff sh lo pfx fuel fresh tmp q := by
  intro fuel
  induction fuel with
  | zero => intros; rfl
  | succ fuel ih =>
    intro fresh tmp q
    have : PyDomainRequest.requestPy cutoff sh lo pfx fuel tmp tmp = DriverDomain.requestPy cutoff sh lo pfx fuel tmp tmp :=
      funext (ih tmp tmp)
    unfold PyDomainRequest.requestPy DriverDomain.requestPy
    rw [this]
    rfl

theorem lookup_names (l : List (Obj DKey)) (n : String) :
    (l.map (fun o => (o.name, o.id))).lookup n = (l.find? (fun o => o.name == n)).map (·.id) := by
  induction l with
  | nil => rfl
  | cons o l ih =>
    by_cases h : o.name = n
    · subst h; simp [List.lookup]
    · have h1 : (n == o.name) = false := by simpa using fun e => h e.symm
      have h2 : (o.name == n) = false := by simpa using h
      simp only [List.map_cons, List.lookup, h1, List.find?_cons, h2]
      exact ih

theorem lookup_canon {κ : Type} [DecidableEq κ] (l : List (Obj κ)) (k : κ) :
    (l.flatMap (fun o => o.keys.map (fun k => (k, o.id)))).lookup k = (l.find? (fun o => o.keys.contains k)).map (·.id) := by
  induction l with
  | nil => rfl
  | cons o l ih =>
    simp only [List.flatMap_cons, List.find?_cons]
    have hl : ∀ (ks : List κ) (rest : List (κ × Nat)),
        (ks.map (fun k => (k, o.id)) ++ rest).lookup k = if ks.contains k then some o.id else rest.lookup k := by
      intro ks
      induction ks with
      | nil => intro rest; simp
      | cons a ks ihk =>
        intro rest
        by_cases ha : k = a
        · subst ha; simp [List.lookup]
        · have h1 : (k == a) = false := by simpa using ha
          have h2 : (a == k) = false := by simpa using fun e => ha e.symm
          simp only [List.map_cons, List.cons_append, List.lookup, h1, ihk rest, List.contains_cons, h2, Bool.false_or]
    rw [hl]
    cases hc : o.keys.contains k <;> simp [hc, ih]

/-- the exact representation gives the look-up representation of Lemmas/PySingleton.lean -/
theorem repX_rep (s : Py.Dom.Cls) (r : Reg DKey) (h : RepX s r) : Rep s.reg r :=
  ⟨fun n => by rw [h.names]; exact lookup_names r.objs n, fun k => by rw [h.canon]; exact lookup_canon r.objs k⟩

end Dsd.PyDomainEq
