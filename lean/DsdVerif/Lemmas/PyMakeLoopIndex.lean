import DsdVerif.Gen.PyFuncs
import DsdVerif.Lemmas.Loop

namespace Dsd.PyEq
open Dsd Dsd.Bracket Dsd.Loop

abbrev Vars := Gen.make_loop_index.Vars

theorem appendLast_snoc {α} (done : List (List α)) (cur : List α) (x : α) :
    Py.appendLast (done ++ [cur]) x = .ok (done ++ [cur ++ [x]]) := by
  simp [Py.appendLast]; rfl

theorem loop2_none (pt c si strand) (v : Vars) (di : Nat) (done : List (List Nat)) (cur : List Nat)
    (h : v.loop_index = done ++ [cur]) :
    Gen.make_loop_index.loop2 pt c si strand v (di, none) =
      .ok { v with loc := (si, di), loop_index := done ++ [cur ++ [v.cl]] } := by
  simp [Gen.make_loop_index.loop2, h, appendLast_snoc, bind, Except.bind, pure, Except.pure]

theorem loop2_op (pt c si strand) (v : Vars) (di : Nat) (p : Nat × Nat) (done : List (List Nat)) (cur : List Nat)
    (h : v.loop_index = done ++ [cur]) (hlt : Py.tupleLt (si, di) p = true) :
    Gen.make_loop_index.loop2 pt c si strand v (di, some p) =
      .ok { v with loc := (si, di), nl := v.nl + 1, cl := v.nl + 1, stack := v.stack ++ [(si, di)],
                   loop_index := done ++ [cur ++ [v.nl + 1]] } := by
  have h2 : Py.tupleLt p (si, di) = false := Locus.lt_asymm _ _ hlt
  simp [Gen.make_loop_index.loop2, h, appendLast_snoc, bind, Except.bind, pure, Except.pure, Py.unwrap, hlt, h2]


theorem loop2_cl1 (pt c si strand) (v : Vars) (di : Nat) (p a : Nat × Nat) (done : List (List Nat)) (cur : List Nat)
    (h : v.loop_index = done ++ [cur]) (hlt : Py.tupleLt p (si, di) = true) (hst : v.stack = [a]) :
    Gen.make_loop_index.loop2 pt c si strand v (di, some p) =
      .ok { v with loc := (si, di), loop_index := done ++ [cur ++ [v.cl]], stack := [], cl := 0 } := by
  have h2 : Py.tupleLt (si, di) p = false := Locus.lt_asymm _ _ hlt
  simp [Gen.make_loop_index.loop2, h, appendLast_snoc, bind, Except.bind, pure, Except.pure, Py.unwrap, hlt, h2,
    hst, Py.pop, Py.last, throw, throwThe, MonadExceptOf.throw]

theorem idx2_of_getL {α} (xss : List (List α)) (l : Nat × Nat) (x : α) (h : getL xss l = some x) :
    ∃ row, Py.idx xss l.1 = .ok row ∧ Py.idx row l.2 = .ok x := by
  unfold getL at h
  cases hr : xss[l.1]? with
  | none => simp [hr] at h
  | some row =>
    simp [hr] at h
    exact ⟨row, by simp [Py.idx, hr]; rfl, by simp [Py.idx, h]; rfl⟩

theorem loop2_cl2 (pt c si strand) (v : Vars) (di : Nat) (p a b : Nat × Nat) (st : List (Nat × Nat))
    (done : List (List Nat)) (cur : List Nat) (x : Nat)
    (h : v.loop_index = done ++ [cur]) (hlt : Py.tupleLt p (si, di) = true) (hst : v.stack = st ++ [b, a])
    (hget : getL (done ++ [cur ++ [v.cl]]) b = some x) :
    Gen.make_loop_index.loop2 pt c si strand v (di, some p) =
      .ok { v with loc := (si, di), loop_index := done ++ [cur ++ [v.cl]], stack := st ++ [b], ploc := b, cl := x } := by
  have h2 : Py.tupleLt (si, di) p = false := Locus.lt_asymm _ _ hlt
  obtain ⟨row, e1, e2⟩ := idx2_of_getL _ _ _ hget
  simp [Gen.make_loop_index.loop2, h, appendLast_snoc, bind, Except.bind, pure, Except.pure, Py.unwrap, hlt, h2,
    hst, Py.pop, Py.last, e1, e2]


/-! ### correspondence of states -/

structure CorrI (lens : List Nat) (done : List (List Nat)) (cur : List Nat) (v : Vars) (s : LoopSt) : Prop where
  li : v.loop_index = done ++ [cur]
  fl : s.loopIndex = done.flatten ++ cur
  stk : v.stack = s.stack.reverse.map (toLocus lens)
  cl : v.cl = s.cl
  nl : v.nl = s.nl

structure Frame (v v' : Vars) : Prop where
  exterior : v'.exterior = v.exterior
  myext : v'.myext = v.myext
  ext : v'.ext = v.ext

theorem toLocus_prefix (pre : List Nat) (d l : Nat) (post : List Nat) (k : Nat) (hd : d ≤ l)
    (hk : k < pre.sum + d) : toLocus (pre ++ [d]) k = toLocus (pre ++ l :: post) k := by
  induction pre generalizing k with
  | nil =>
    simp only [List.sum_nil, Nat.zero_add] at hk
    simp only [List.nil_append]
    rw [toLocus_cons_lt _ _ _ hk, toLocus_cons_lt _ _ _ (by omega)]
  | cons p pre ih =>
    simp only [List.sum_cons] at hk
    simp only [List.cons_append]
    by_cases h : k < p
    · rw [toLocus_cons_lt _ _ _ h, toLocus_cons_lt _ _ _ h]
    · rw [toLocus_cons_ge _ _ _ h, toLocus_cons_ge _ _ _ h, ih (k - p) (by omega)]

theorem getL_partial (pre post : List Nat) (l : Nat) (done : List (List Nat)) (cur : List Nat)
    (hd : done.map List.length = pre) (hc : cur.length ≤ l) (k : Nat)
    (hk : k < done.flatten.length + cur.length) :
    getL (done ++ [cur]) (toLocus (pre ++ l :: post) k) = (done.flatten ++ cur)[k]? := by
  have h1 := getL_toLocus (done ++ [cur]) k
  have hs : pre.sum = done.flatten.length := by rw [← hd, List.length_flatten]
  simp only [List.map_append, hd, List.map_cons, List.map_nil] at h1
  rw [toLocus_prefix pre cur.length l post k hc (by omega)] at h1
  rw [h1]; simp

theorem hloc_of (pre post : List Nat) (l di : Nat) (h : di < l) :
    toLocus (pre ++ l :: post) (pre.sum + di) = (pre.length, di) := by
  have hv : ValidL (pre ++ l :: post) (pre.length, di) := ⟨l, by simp, h⟩
  have := (toLocus_fromLocus _ _ hv).1
  simpa [fromLocus] using this

theorem step_corr (W : List Sym) (t : List (Option Nat)) (lens pre post : List Nat) (l : Nat)
    (hM : Matching W (P t)) (htl : t.length = W.length) (hlens : lens = pre ++ l :: post)
    (pt c strand) (n di : Nat) (v : Vars) (s : LoopSt) (done : List (List Nat)) (cur : List Nat)
    (hn : n = pre.sum + di) (hcur : cur.length = di) (hdi : di < l) (hdone : done.map List.length = pre)
    (hnt : n < t.length) (inv : LInv W (P t) n s) (hc : CorrI lens done cur v s) :
    ∃ v' x, Gen.make_loop_index.loop2 pt c pre.length strand v (di, (t[n]).map (toLocus lens)) = .ok v' ∧
      CorrI lens done (cur ++ [x]) v' (loopStep s n t[n]) ∧ Frame v v' := by
  have hloc : toLocus lens n = (pre.length, di) := by rw [hlens, hn]; exact hloc_of pre post l di hdi
  have hlen : s.loopIndex.length = n := inv.len
  obtain ⟨li, fl, stk, cl, nl⟩ := hc
  cases htn : t[n] with
  | none =>
    refine ⟨_, v.cl, loop2_none pt c _ strand v di done cur li, ⟨rfl, ?_, stk, cl, nl⟩, ⟨rfl, rfl, rfl⟩⟩
    rw [loopStep_none]; simp [fl, cl]
  | some j =>
    have hP : P t n = some j := by simp [P, List.getElem?_eq_getElem hnt, htn]
    obtain ⟨_, hjW, hne, _⟩ := hM.pair n j hP
    rcases Nat.lt_or_gt_of_ne hne with hlt | hgt
    · have hlt' : Py.tupleLt (pre.length, di) (toLocus lens j) = true := by
        rw [← hloc]; exact (toLocus_lt lens n j).mpr hlt
      refine ⟨_, v.nl + 1, loop2_op pt c _ strand v di _ done cur li hlt', ?_, ⟨rfl, rfl, rfl⟩⟩
      rw [loopStep_op _ _ _ hlt]
      refine ⟨rfl, ?_, ?_, ?_, ?_⟩
      · simp [fl, nl]
      · simp [stk, hloc]
      · simp [nl]
      · simp [nl]
    · have hlt' : Py.tupleLt (toLocus lens j) (pre.length, di) = true := by
        rw [← hloc]; exact (toLocus_lt lens j n).mpr hgt
      have hWn : W[n]? = some .cl := by
        rcases sym_cases W n (by omega) with h | h | h
        · obtain ⟨j', h1, h2, _⟩ := hM.op n h
          rw [hP] at h2; have := Option.some.inj h2; omega
        · exact h
        · have := hM.dot n h; rw [hP] at this; simp at this
      obtain ⟨tbl, r⟩ := inv.rel
      obtain ⟨s', hs', _⟩ := rel_step W (P t) hM n ⟨tbl, s.stack⟩ .cl hWn r
      obtain ⟨_, hmem⟩ := inv.mem
      cases hst : s.stack with
      | nil => simp [step, hst] at hs'
      | cons t0 rest =>
        cases rest with
        | nil =>
          have hvs : v.stack = [toLocus lens t0] := by simp [stk, hst]
          refine ⟨_, v.cl, loop2_cl1 pt c _ strand v di _ _ done cur li hlt' hvs, ?_, ⟨rfl, rfl, rfl⟩⟩
          rw [loopStep_cl1 _ _ _ t0 hgt hst]
          exact ⟨rfl, by simp [fl, cl], by simp, rfl, nl⟩
        | cons t' r'' =>
          have hvs : v.stack = r''.reverse.map (toLocus lens) ++ [toLocus lens t', toLocus lens t0] := by
            simp [stk, hst]
          have ht' : t' < n := ((hmem t').mp (by simp [hst])).1
          have hget : getL (done ++ [cur ++ [v.cl]]) (toLocus lens t') =
              some ((s.loopIndex ++ [s.cl]).getD t' 0) := by
            rw [hlens, getL_partial pre post l done (cur ++ [v.cl]) hdone (by simp; omega) t'
              (by rw [fl] at hlen; simp at hlen ⊢; omega)]
            rw [List.getD_eq_getElem?_getD, fl, cl]
            have : t' < (done.flatten ++ (cur ++ [s.cl])).length := by
              rw [fl] at hlen; simp at hlen ⊢; omega
            rw [List.append_assoc, List.getElem?_eq_getElem this]; rfl
          refine ⟨_, v.cl, loop2_cl2 pt c _ strand v di _ _ _ _ done cur _ li hlt' hvs hget, ?_, ⟨rfl, rfl, rfl⟩⟩
          rw [loopStep_cl2 _ _ _ t0 t' r'' hgt hst]
          exact ⟨rfl, by simp [fl, cl], by simp, rfl, nl⟩


/-! ### the inner loop -/

def enumFrom {α} (k : Nat) (l : List α) : List (Nat × α) := (l.zipIdx k).map (fun p => (p.2, p.1))

theorem enumerate_eq {α} (l : List α) : Py.enumerate l = enumFrom 0 l := rfl

theorem enumFrom_cons {α} (k : Nat) (x : α) (xs : List α) :
    enumFrom k (x :: xs) = (k, x) :: enumFrom (k + 1) xs := by
  simp [enumFrom, List.zipIdx_cons]

theorem enumFrom_nil {α} (k : Nat) : enumFrom k ([] : List α) = [] := rfl

theorem Frame.trans {a b c : Vars} (h1 : Frame a b) (h2 : Frame b c) : Frame a c :=
  ⟨h2.exterior.trans h1.exterior, h2.myext.trans h1.myext, h2.ext.trans h1.ext⟩

theorem inner_corr (W : List Sym) (t : List (Option Nat)) (lens pre post : List Nat) (l : Nat)
    (hM : Matching W (P t)) (htl : t.length = W.length) (hlens : lens = pre ++ l :: post)
    (pt c strand) (xs : List (Option Nat)) :
    ∀ (n di : Nat) (v : Vars) (s : LoopSt) (done : List (List Nat)) (cur : List Nat) (rest : List (Option Nat)),
    t.drop n = xs ++ rest → n = pre.sum + di → cur.length = di → di + xs.length ≤ l →
    done.map List.length = pre → LInv W (P t) n s → CorrI lens done cur v s →
    ∃ v' cur', List.foldlM (Gen.make_loop_index.loop2 pt c pre.length strand) v
        (enumFrom di (xs.map (fun o => o.map (toLocus lens)))) = .ok v' ∧
      CorrI lens done cur' v' (scanL s n xs) ∧ cur'.length = di + xs.length ∧
      LInv W (P t) (n + xs.length) (scanL s n xs) ∧ Frame v v' := by
  induction xs with
  | nil =>
    intro n di v s done cur rest _ _ hcur _ _ inv hc
    exact ⟨v, cur, rfl, hc, by simpa using hcur, inv, ⟨rfl, rfl, rfl⟩⟩
  | cons x xs ih =>
    intro n di v s done cur rest hdrop hn hcur hdi hdone inv hc
    have hnt : n < t.length := by
      apply Classical.byContradiction; intro hh
      rw [List.drop_eq_nil_of_le (by omega)] at hdrop; simp at hdrop
    rw [List.drop_eq_getElem_cons hnt] at hdrop
    simp only [List.cons_append, List.cons.injEq] at hdrop
    obtain ⟨hx, hdrop⟩ := hdrop
    simp only [List.length_cons] at hdi
    obtain ⟨v1, x1, e1, c1, f1⟩ := step_corr W t lens pre post l hM htl hlens pt c strand n di v s done cur
      hn hcur (by omega) hdone hnt inv hc
    have hP : P t n = t[n] := by simp [P, List.getElem?_eq_getElem hnt]
    have inv1 : LInv W (P t) (n + 1) (loopStep s n t[n]) := by
      rw [← hP]
      exact linv_step hM n s W[n] (List.getElem?_eq_getElem (by omega)) inv
    obtain ⟨v', cur', e2, c2, l2, inv2, f2⟩ := ih (n + 1) (di + 1) v1 (loopStep s n t[n]) done (cur ++ [x1]) rest
      hdrop (by omega) (by simp [hcur]) (by omega) hdone inv1 c1
    refine ⟨v', cur', ?_, ?_, ?_, ?_, f1.trans f2⟩
    · simp only [List.map_cons, enumFrom_cons, List.foldlM_cons]
      rw [← hx, e1]
      exact e2
    · rw [← hx]; exact c2
    · simp only [List.length_cons]; omega
    · rw [← hx]; simp only [List.length_cons, scanL]
      have : n + (xs.length + 1) = n + 1 + xs.length := by omega
      rw [this]; exact inv2


/-! ### the outer loop -/

theorem loop1_eq (pt c) (v : Vars) (si : Nat) (strand : List (Option (Nat × Nat))) (v' : Vars)
    (e : List.foldlM (Gen.make_loop_index.loop2 pt c si strand)
      { v with loop_index := v.loop_index ++ [[]], ext := [some v.cl, none] } (Py.enumerate strand) = .ok v')
    (hext : v'.ext = [some v.cl, none]) :
    Gen.make_loop_index.loop1 pt c v (si, strand) =
      if v'.exterior.contains v'.cl then
        (if c then .ok { v' with ext := [some v.cl, some v'.cl], myext := v'.myext ++ [[some v.cl, some v'.cl]] }
         else .error .secondaryStructure)
      else .ok { v' with ext := [some v.cl, some v'.cl], myext := v'.myext ++ [[some v.cl, some v'.cl]],
                         exterior := v'.exterior ++ [v'.cl] } := by
  simp only [Gen.make_loop_index.loop1, e, bind, Except.bind, pure, Except.pure, hext, Py.setIdx, Py.setAdd]
  cases c <;> by_cases hc : v'.cl ∈ v'.exterior <;>
    simp [hc, throw, throwThe, MonadExceptOf.throw]


structure CorrO (lens : List Nat) (done : List (List Nat)) (v : Vars) (s : LoopSt) (ext : List Nat)
    (my : List (Nat × Nat)) : Prop where
  li : v.loop_index = done
  fl : s.loopIndex = done.flatten
  stk : v.stack = s.stack.reverse.map (toLocus lens)
  cl : v.cl = s.cl
  nl : v.nl = s.nl
  ex : v.exterior = ext
  me : v.myext = my.map (fun p => [some p.1, some p.2])

theorem reshape_of_flatten {α} (xss : List (List α)) : reshape (xss.map List.length) xss.flatten = xss := by
  induction xss with
  | nil => rfl
  | cons xs xss ih => simp [reshape, ih]

def outPy (v : Vars) : List (List Nat) × List Nat × List (List (Option Nat)) := (v.loop_index, v.exterior, v.myext)

def outM (lens : List Nat) (r : List Nat × List (Nat × Nat) × LoopSt) :
    List (List Nat) × List Nat × List (List (Option Nat)) :=
  (reshape lens r.2.2.loopIndex, r.1, r.2.1.map (fun p => [some p.1, some p.2]))

theorem outer_corr (W : List Sym) (t : List (Option Nat)) (lens : List Nat)
    (hM : Matching W (P t)) (htl : t.length = W.length) (pt c) (post : List Nat) :
    ∀ (pre : List Nat) (v : Vars) (s : LoopSt) (done : List (List Nat)) (ext : List Nat) (my : List (Nat × Nat)),
    lens = pre ++ post → pre.sum + post.sum = t.length → done.map List.length = pre →
    LInv W (P t) pre.sum s → CorrO lens done v s ext my →
    Except.map outPy (List.foldlM (Gen.make_loop_index.loop1 pt c) v
        (enumFrom pre.length ((reshape post (t.drop pre.sum)).map (List.map (fun o => o.map (toLocus lens)))))) =
      Except.map (outM lens) (loopScan c (reshape post (t.drop pre.sum)) pre.sum s ext my) := by
  induction post with
  | nil =>
    intro pre v s done ext my hlens _ hdone _ hc
    simp only [List.append_nil] at hlens
    simp only [reshape, List.map_nil, enumFrom_nil, List.foldlM_nil, loopScan]
    show Except.ok (outPy v) = Except.ok _
    simp only [outPy, outM, hc.li, hc.ex, hc.me, hc.fl, hlens, ← hdone, reshape_of_flatten]
  | cons l post ih =>
    intro pre v s done ext my hlens hsum hdone inv hc
    simp only [List.sum_cons] at hsum
    rw [reshape_cons_drop, loopScan_cons]
    simp only [List.map_cons, enumFrom_cons, List.foldlM_cons]
    have hxl : ((t.drop pre.sum).take l).length = l := strand_length t pre.sum l (by omega)
    obtain ⟨li, fl, stk, cl, nl, ex, me⟩ := hc
    have c0 : CorrI lens done []
        { v with loop_index := v.loop_index ++ [[]], ext := [some v.cl, none] } s :=
      ⟨by simp [li], by simp [fl], stk, cl, nl⟩
    obtain ⟨v', cur', e1, c1, l1, inv1, f1⟩ := inner_corr W t lens pre post l hM htl hlens pt c
      (List.map (fun o => o.map (toLocus lens)) ((t.drop pre.sum).take l)) ((t.drop pre.sum).take l)
      pre.sum 0 _ s done [] ((t.drop pre.sum).drop l) (List.take_append_drop _ _).symm rfl rfl (by omega) hdone inv c0
    rw [← enumerate_eq] at e1
    rw [loop1_eq pt c v pre.length _ v' e1 f1.ext]
    rw [hxl] at inv1 l1
    simp only [Nat.zero_add] at l1
    have hs : (pre ++ [l]).sum = pre.sum + l := by simp
    have hl : (pre ++ [l]).length = pre.length + 1 := by simp
    have hlens' : lens = (pre ++ [l]) ++ post := by simp [hlens]
    have hdone' : (done ++ [cur']).map List.length = pre ++ [l] := by simp [hdone, l1]
    obtain ⟨li1, fl1, stk1, cl1, nl1⟩ := c1
    have hex : v'.exterior = ext := f1.exterior.trans ex
    have hme : v'.myext = my.map (fun p => [some p.1, some p.2]) := f1.myext.trans me
    have hconEq : v'.exterior.contains v'.cl = ext.contains (scanL s pre.sum ((t.drop pre.sum).take l)).cl := by
      rw [hex, cl1]
    rw [hconEq, hxl]
    by_cases hcon : ext.contains ((scanL s pre.sum ((t.drop pre.sum).take l)).cl) = true
    · rw [if_pos hcon, if_pos hcon]
      cases c with
      | false => rfl
      | true =>
        simp only [if_true, bind, Except.bind]
        have := ih (pre ++ [l])
          { v' with ext := [some v.cl, some v'.cl], myext := v'.myext ++ [[some v.cl, some v'.cl]] }
          _ (done ++ [cur']) ext (my ++ [(s.cl, (scanL s pre.sum ((t.drop pre.sum).take l)).cl)])
          hlens' (by rw [hs]; omega) hdone' (by rw [hs]; exact inv1)
          ⟨li1, by simp [fl1], stk1, cl1, nl1, hex, by simp [hme, cl, cl1]⟩
        rw [hs, hl] at this
        exact this
    · rw [if_neg hcon, if_neg hcon]
      simp only [bind, Except.bind]
      have := ih (pre ++ [l])
          { v' with ext := [some v.cl, some v'.cl], myext := v'.myext ++ [[some v.cl, some v'.cl]],
                    exterior := v'.exterior ++ [v'.cl] }
          _ (done ++ [cur']) (ext ++ [(scanL s pre.sum ((t.drop pre.sum).take l)).cl])
          (my ++ [(s.cl, (scanL s pre.sum ((t.drop pre.sum).take l)).cl)])
          hlens' (by rw [hs]; omega) hdone' (by rw [hs]; exact inv1)
          ⟨li1, by simp [fl1], stk1, cl1, nl1, by simp [hex, cl1], by simp [hme, cl, cl1]⟩
      rw [hs, hl] at this
      exact this

/-! ### the statement -/

def loopOutPy (o : LoopOut) : List (List Nat) × List Nat × List (List (Option Nat)) :=
  (o.loopIndex, o.exterior, o.myext.map (fun p => [some p.1, some p.2]))

theorem py_make_loop_index_unfold (pt : PairTable) (c : Bool) :
    Gen.py_make_loop_index pt c =
      Except.map outPy (List.foldlM (Gen.make_loop_index.loop1 pt c)
        { loop_index := [], exterior := [], myext := [], stack := [], cl := 0, nl := 0 } (enumFrom 0 pt)) := by
  unfold Gen.py_make_loop_index
  rw [enumerate_eq]
  simp only [bind, Except.bind, pure, Except.pure]
  cases List.foldlM (Gen.make_loop_index.loop1 pt c) _ (enumFrom 0 pt) <;> rfl

/-- the translated `make_loop_index` is the model's on every pair table that `make_pair_table` returns -/
theorem make_loop_index_eq (ss : List Char) (brk : Char) (pt : PairTable) (h : makePairTable ss brk = .ok pt)
    (components : Bool) :
    Gen.py_make_loop_index pt components = (makeLoopIndex pt components).map loopOutPy := by
  obtain ⟨syms, t, ht, hpt⟩ := mpt_explicit ss brk pt h
  have hM := matchW_sound _ t ht
  have htl := matchW_length _ t ht
  have hsum : (syms.map List.length).sum = syms.flatten.length := by rw [List.length_flatten]
  have hshape : pt.map List.length = syms.map List.length := by
    rw [hpt, reshape_shape]
    rw [List.length_map, htl, hsum]
  have hlin : pt.map (fun s => s.map (fun o => o.map (fromLocus (syms.map List.length)))) =
      reshape (syms.map List.length) t := by
    rw [hpt, reshape_map, List.map_map]
    congr 1
    conv => rhs; rw [← List.map_id t]
    apply List.map_congr_left
    intro a ha
    cases a with
    | none => rfl
    | some j =>
      obtain ⟨i, hi⟩ := List.mem_iff_getElem?.mp ha
      have hP : P t i = some j := by simp [P, hi]
      have hj := (hM.pair i j hP).2.1
      simp only [Function.comp, Option.map_some, id]
      rw [fromLocus_toLocus _ j (by omega)]
  have hmodel : (makeLoopIndex pt components).map loopOutPy =
      Except.map (outM (syms.map List.length)) (loopScan components (reshape (syms.map List.length) t) 0 {} [] []) := by
    unfold makeLoopIndex
    simp only [hshape, hlin]
    cases loopScan components (reshape (syms.map List.length) t) 0 {} [] [] with
    | error e => rfl
    | ok r => rfl
  have hpy := outer_corr syms.flatten t (syms.map List.length) hM htl pt components (syms.map List.length) []
    { loop_index := [], exterior := [], myext := [], stack := [], cl := 0, nl := 0 } {} [] [] []
    (by simp) (by simp; omega) rfl (linv_init _ _) ⟨rfl, rfl, rfl, rfl, rfl, rfl, rfl⟩
  simp only [List.sum_nil, List.drop_zero, List.length_nil] at hpy
  rw [hmodel, ← hpy, py_make_loop_index_unfold]
  congr 2
  rw [hpt, ← reshape_map]

end Dsd.PyEq

#print axioms Dsd.PyEq.make_loop_index_eq
