/-
`resolve_kernel_loops` inverts the token forest of `kernel_string` (C12): joint invariant of the
forest-building stack machine `nestGo`, the reader `resolveKernel` and the bracket matcher `run`.
-/
import DsdVerif.Model.Kernel
import DsdVerif.Lemmas.RotatePeriod

namespace Dsd.Ker
open Dsd Dsd.PP Dsd.Bracket Dsd.Rot

/-- one step of the fold in `resolveKernel (fuel+1)` -/
def stepK (fuel : Nat) (acc : List String × List Char) (t : Tree) : Except Err (List String × List Char) :=
  match t with
  | .tok s => .ok (acc.1 ++ [s], acc.2 ++ [if s == "+" then '+' else '.'])
  | .grp inner =>
    match acc.1.getLast? with
    | none => .error (.fault "IndexError")
    | some old =>
      match resolveKernel fuel inner with
      | .error e => .error e
      | .ok (se, ss) =>
        .ok (acc.1 ++ se ++ [compName old], (acc.2.dropLast ++ ['(']) ++ ss ++ [')'])

theorem resolveKernel_succ (f : Nat) (l : List Tree) :
    resolveKernel (f + 1) l = l.foldlM (stepK f) ([], []) := by
  rw [resolveKernel]; rfl

theorem rk_nil (f : Nat) : resolveKernel (f + 1) [] = .ok ([], []) := by
  rw [resolveKernel_succ]; rfl

theorem rk_tok (f : Nat) (l : List Tree) (a : List String) (b : List Char) (s : String)
    (h : resolveKernel (f + 1) l = .ok (a, b)) :
    resolveKernel (f + 1) (l ++ [.tok s]) = .ok (a ++ [s], b ++ [if s == "+" then '+' else '.']) := by
  rw [resolveKernel_succ] at h ⊢
  rw [List.foldlM_append, h]
  rfl

theorem rk_grp (f : Nat) (l inner : List Tree) (a se : List String) (b ss : List Char) (old : String)
    (h : resolveKernel (f + 1) l = .ok (a, b)) (hl : a.getLast? = some old)
    (hi : resolveKernel f inner = .ok (se, ss)) :
    resolveKernel (f + 1) (l ++ [.grp inner]) =
      .ok (a ++ se ++ [compName old], (b.dropLast ++ ['(']) ++ ss ++ [')']) := by
  rw [resolveKernel_succ] at h ⊢
  rw [List.foldlM_append, h]
  show ([Tree.grp inner].foldlM (stepK f) (a, b)) = _
  simp [List.foldlM, stepK, hl, hi]
/-! ### names of the resolved prefix -/

def sy (p : String × Char) : Sym := tsym p.2

/-- the names resolved so far: the original ones except at closing positions, where the name is the
    synthesised complement of the name at the partner position -/
structure NP (nm : List String) (pre : List (String × Char)) (tbl : List (Option Nat)) : Prop where
  len : nm.length = pre.length
  keep : ∀ (i : Nat) (n : String) (c : Char), pre[i]? = some (n, c) → c ≠ ')' → nm[i]? = some n
  close : ∀ (i : Nat) (n : String), pre[i]? = some (n, ')') →
    ∃ k, k < i ∧ P tbl i = some k ∧ nm[i]? = (nm[k]?).map compName

theorem np_nil : NP [] [] [] := by
  constructor <;> simp

theorem np_snoc_keep (nm : List String) (pre : List (String × Char)) (tbl tbl' : List (Option Nat))
    (n : String) (c : Char) (h : NP nm pre tbl)
    (hmono : ∀ i k, P tbl i = some k → P tbl' i = some k) (hc : c ≠ ')') :
    NP (nm ++ [n]) (pre ++ [(n, c)]) tbl' := by
  obtain ⟨hl, hk, hcl⟩ := h
  constructor
  · simp [hl]
  · intro i n' c' hi hc'
    rw [Uw] at hi ⊢
    rw [hl]
    split at hi
    · rename_i hlt; rw [if_pos hlt]; exact hk i n' c' hi hc'
    · rename_i hlt
      rw [if_neg hlt]
      split at hi
      · rename_i he; rw [if_pos he]; cases hi; rfl
      · cases hi
  · intro i n' hi
    rw [Uw] at hi
    split at hi
    · rename_i hlt
      obtain ⟨k, hk1, hk2, hk3⟩ := hcl i n' hi
      refine ⟨k, hk1, hmono i k hk2, ?_⟩
      rw [List.getElem?_append_left (by omega), List.getElem?_append_left (by omega)]
      exact hk3
    · split at hi
      · cases hi; exact absurd rfl hc
      · cases hi

theorem np_snoc_close (nm : List String) (pre : List (String × Char)) (tbl tbl' : List (Option Nat))
    (n old : String) (pos : Nat) (h : NP nm pre tbl)
    (hmono : ∀ i k, P tbl i = some k → P tbl' i = some k) (hpos : pos < pre.length)
    (hP : P tbl' pre.length = some pos) (hold : nm[pos]? = some old) :
    NP (nm ++ [compName old]) (pre ++ [(n, ')')]) tbl' := by
  obtain ⟨hl, hk, hcl⟩ := h
  constructor
  · simp [hl]
  · intro i n' c' hi hc'
    rw [Uw] at hi ⊢
    rw [hl]
    split at hi
    · rename_i hlt; rw [if_pos hlt]; exact hk i n' c' hi hc'
    · rename_i hlt
      split at hi
      · cases hi; exact absurd rfl hc'
      · cases hi
  · intro i n' hi
    rw [Uw] at hi
    split at hi
    · rename_i hlt
      obtain ⟨k, hk1, hk2, hk3⟩ := hcl i n' hi
      refine ⟨k, hk1, hmono i k hk2, ?_⟩
      rw [List.getElem?_append_left (by omega), List.getElem?_append_left (by omega)]
      exact hk3
    · rename_i hlt
      split at hi
      · rename_i he
        subst he
        refine ⟨pos, hpos, hP, ?_⟩
        have e1 : (nm ++ [compName old])[pre.length]? = some (compName old) := by rw [← hl]; simp
        have e2 : (nm ++ [compName old])[pos]? = some old := by
          rw [List.getElem?_append_left (by omega)]; exact hold
        rw [e1, e2]; rfl
      · cases hi

/-! ### the suspended outer lists -/

/-- resolution of the stack of suspended lists: each list `o` resolves (with the fuel of its depth) to
    `(a, b)`, its last name is the one that opened the loop, sitting at the recorded position -/
inductive SR (F : Nat) : List (List Tree) → List Nat → List String → List Char → Prop
  | nil : SR F [] [] [] []
  | cons (st : List (List Tree)) (ps : List Nat) (A : List String) (B : List Char) (o : List Tree)
      (a : List String) (b : List Char) :
      SR F st ps A B → resolveKernel (F - st.length) o = .ok (a, b) → a.length = b.length → a ≠ [] →
      A.length = B.length →
      SR F (o :: st) ((A.length + a.length - 1) :: ps) (A ++ a) (B ++ (b.dropLast ++ ['(']))

theorem sr_len (F : Nat) (st : List (List Tree)) (ps : List Nat) (A : List String) (B : List Char)
    (h : SR F st ps A B) : A.length = B.length ∧ ps.length = st.length := by
  induction h with
  | nil => simp
  | cons st ps A B o a b _ _ hab hne hAB ih =>
    have : 0 < b.length := by
      rw [← hab]; exact List.length_pos_iff.mpr hne
    simp [ih.2]; omega

/-- joint invariant of `nestGo`, `resolveKernel` and the matcher after the prefix `pre` -/
structure J (F : Nat) (pre : List (String × Char)) (cur : List Tree) (stack : List (List Tree)) (s : St) :
    Prop where
  inv : Inv (pre.map sy) s.tbl s.stack
  depth : stack.length ≤ pre.length
  ex : ∃ (A : List String) (B : List Char) (a : List String) (b : List Char),
    SR F stack s.stack A B ∧ resolveKernel (F - stack.length) cur = .ok (a, b) ∧ a.length = b.length ∧
    B ++ b = pre.map Prod.snd ∧ NP (A ++ a) pre s.tbl

/-- side conditions on the description: only `( ) . +`, and "+" exactly at the breaks -/
def RestOK (rest : List (String × Char)) : Prop :=
  ∀ p ∈ rest, (p.2 = '(' ∨ p.2 = ')' ∨ p.2 = '.' ∨ p.2 = '+') ∧ (p.2 = '+' ↔ p.1 = "+")

theorem j_init (F : Nat) (hF : 1 ≤ F) : J F [] [] [] ⟨[], []⟩ := by
  refine ⟨inv_init, by simp, [], [], [], [], SR.nil, ?_, rfl, rfl, np_nil⟩
  obtain ⟨f, rfl⟩ : ∃ f, F = f + 1 := ⟨F - 1, by omega⟩
  exact rk_nil f

/-- a plain (unpaired / break) position: same stack, one more token -/
theorem j_plain (F : Nat) (pre : List (String × Char)) (cur : List Tree) (stack : List (List Tree)) (s : St)
    (n m : String) (c : Char) (hJ : J F pre cur stack s) (hF : stack.length + 1 ≤ F)
    (hsy : sy (n, c) = .dot) (hc : c ≠ ')') (hm : m = n) (hch : (if m == "+" then '+' else '.') = c) :
    J F (pre ++ [(n, c)]) (cur ++ [.tok m]) stack ⟨s.tbl ++ [none], s.stack⟩ := by
  obtain ⟨hinv, hdepth, A, B, a, b, hsr, hrk, hab, hB, hnp⟩ := hJ
  have hs : step s (sy (n, c)) = some ⟨s.tbl ++ [none], s.stack⟩ := by rw [hsy]; rfl
  have hinv' := step_inv _ s _ _ hinv hs
  have hmono := step_mono _ s _ _ hinv hs
  obtain ⟨f, hf⟩ : ∃ f, F - stack.length = f + 1 := ⟨F - stack.length - 1, by omega⟩
  refine ⟨by simpa using hinv', by simp; omega, A, B, a ++ [m], b ++ [c], hsr, ?_, by simp [hab], ?_, ?_⟩
  · rw [hf] at hrk ⊢
    have := rk_tok f cur a b m hrk
    rw [hch] at this; exact this
  · simp [← hB]
  · rw [← List.append_assoc, hm]
    exact np_snoc_keep _ _ _ _ n c hnp hmono hc

theorem nestGo_spec (F : Nat) (t : List (Option Nat)) :
    ∀ (rest pre : List (String × Char)) (cur : List Tree) (stack : List (List Tree)) (s : St),
      J F pre cur stack s → Bracket.run s (rest.map sy) = some ⟨t, []⟩ → RestOK rest →
      pre.length + rest.length + 1 ≤ F →
      ∃ toks, nestGo rest cur stack = some toks ∧ J F (pre ++ rest) toks [] ⟨t, []⟩ := by
  intro rest
  induction rest with
  | nil =>
    intro pre cur stack s hJ hrun _ _
    simp only [List.map_nil, Bracket.run, Option.some.injEq] at hrun
    subst hrun
    obtain ⟨hinv, hdepth, A, B, a, b, hsr, hrk, hab, hB, hnp⟩ := hJ
    have hst : stack = [] := by
      have := (sr_len _ _ _ _ _ hsr).2
      exact List.length_eq_zero_iff.mp this.symm
    subst hst
    refine ⟨cur, rfl, ?_⟩
    rw [List.append_nil]
    exact ⟨hinv, hdepth, A, B, a, b, hsr, hrk, hab, hB, hnp⟩
  | cons x rest ih =>
    intro pre cur stack s hJ hrun hok hF
    obtain ⟨n, c⟩ := x
    have hx := hok (n, c) (by simp)
    have hok' : RestOK rest := fun p hp => hok p (by simp [hp])
    simp only [List.map_cons, Bracket.run] at hrun
    simp only [List.length_cons] at hF
    have hassoc : pre ++ (n, c) :: rest = (pre ++ [(n, c)]) ++ rest := by simp
    rw [hassoc]
    have hdepth := hJ.depth
    by_cases h1 : c = '('
    · -- opening bracket: suspend the current list
      subst h1
      obtain ⟨hinv, _, A, B, a, b, hsr, hrk, hab, hB, hnp⟩ := hJ
      have hlenpre : s.tbl.length = pre.length := by simpa using hinv.len
      have hAB := (sr_len _ _ _ _ _ hsr).1
      have hnm : A.length + a.length = pre.length := by simpa using hnp.len
      have hs : step s (sy (n, '(')) = some ⟨s.tbl ++ [none], s.tbl.length :: s.stack⟩ := rfl
      rw [hs] at hrun
      simp only [Option.bind_some] at hrun
      have hinv' := step_inv _ s _ _ hinv hs
      have hmono := step_mono _ s _ _ hinv hs
      have hnext : nestGo ((n, '(') :: rest) cur stack = nestGo rest [] ((cur ++ [.tok n]) :: stack) := by
        simp [nestGo]
      rw [hnext]
      obtain ⟨f, hf⟩ : ∃ f, F - stack.length = f + 1 := ⟨F - stack.length - 1, by omega⟩
      obtain ⟨f', hf'⟩ : ∃ f', F - (stack.length + 1) = f' + 1 := ⟨F - (stack.length + 1) - 1, by omega⟩
      apply ih (pre ++ [(n, '(')]) [] ((cur ++ [Tree.tok n]) :: stack) _ _ hrun hok' (by simp; omega)
      have hrk' : resolveKernel (F - stack.length) (cur ++ [.tok n]) =
          .ok (a ++ [n], b ++ [if n == "+" then '+' else '.']) := by
        rw [hf] at hrk ⊢; exact rk_tok f cur a b n hrk
      have hsr' := SR.cons stack s.stack A B (cur ++ [.tok n]) (a ++ [n]) (b ++ [if n == "+" then '+' else '.'])
        hsr hrk' (by simp [hab]) (by simp) hAB
      have hpos : A.length + (a ++ [n]).length - 1 = s.tbl.length := by
        simp only [List.length_append, List.length_singleton]; omega
      rw [hpos, List.dropLast_concat] at hsr'
      refine ⟨by simpa using hinv', by simp; omega, _, _, [], [], hsr', ?_, rfl, ?_, ?_⟩
      · simp only [List.length_cons]; rw [hf']; exact rk_nil f'
      · simp [← hB]
      · rw [List.append_nil, ← List.append_assoc]
        exact np_snoc_keep _ _ _ _ n '(' hnp hmono (by decide)
    · by_cases h2 : c = ')'
      · -- closing bracket: the current list becomes a group of the innermost suspended list
        subst h2
        obtain ⟨hinv, _, A, B, a, b, hsr, hrk, hab, hB, hnp⟩ := hJ
        obtain ⟨tbl, stk⟩ := s
        simp only at hinv hsr hnp hrun
        have hlenpre : tbl.length = pre.length := by simpa using hinv.len
        cases hsr with
        | nil =>
          exfalso
          have : step ⟨tbl, []⟩ (sy (n, ')')) = none := rfl
          rw [this] at hrun; simp at hrun
        | cons st ps A0 B0 o a1 b1 hsr0 hrk1 hab1 hne1 hAB0 =>
          have hs : step ⟨tbl, (A0.length + a1.length - 1) :: ps⟩ (sy (n, ')')) =
              some ⟨tbl.set (A0.length + a1.length - 1) (some tbl.length) ++ [some (A0.length + a1.length - 1)], ps⟩ := rfl
          rw [hs] at hrun
          simp only [Option.bind_some] at hrun
          have hinv' := step_inv _ _ _ _ hinv hs
          have hmono := step_mono _ _ _ _ hinv hs
          simp only at hinv' hmono
          have hnext : nestGo ((n, ')') :: rest) cur (o :: st) = nestGo rest (o ++ [.grp cur]) st := by
            simp [nestGo]
          rw [hnext]
          simp only [List.length_cons] at hrk hdepth
          obtain ⟨f, hf⟩ : ∃ f, F - (st.length + 1) = f + 1 := ⟨F - (st.length + 1) - 1, by omega⟩
          have hf2 : F - st.length = f + 1 + 1 := by omega
          have ha1pos : 0 < a1.length := List.length_pos_iff.mpr hne1
          obtain ⟨old, hold⟩ : ∃ old, a1.getLast? = some old := by
            cases h : a1.getLast? with
            | none => exact absurd (List.getLast?_eq_none_iff.mp h) hne1
            | some old => exact ⟨old, rfl⟩
          have hnm : A0.length + a1.length + a.length = pre.length := by
            have := hnp.len; simp only [List.length_append] at this; omega
          apply ih (pre ++ [(n, ')')]) (o ++ [Tree.grp cur]) st _ _ hrun hok' (by simp; omega)
          refine ⟨by simpa using hinv', by simp; omega, A0, B0, a1 ++ a ++ [compName old],
            (b1.dropLast ++ ['(']) ++ b ++ [')'], hsr0, ?_, ?_, ?_, ?_⟩
          · rw [hf2] at hrk1 ⊢
            rw [hf] at hrk
            exact rk_grp (f + 1) o cur a1 a b1 b old hrk1 hold hrk
          · simp only [List.length_append, List.length_singleton, List.length_dropLast]; omega
          · simp [← hB]
          · have e : A0 ++ (a1 ++ a ++ [compName old]) = (A0 ++ a1 ++ a) ++ [compName old] := by simp
            rw [e]
            apply np_snoc_close _ _ _ _ n old (A0.length + a1.length - 1) hnp hmono (by omega)
            · have := P_append_eq (tbl.set (A0.length + a1.length - 1) (some tbl.length)) (some (A0.length + a1.length - 1))
              rw [List.length_set] at this
              rw [← hlenpre]; exact this
            · rw [List.getElem?_append_left (by simp; omega),
                List.getElem?_append_right (by omega)]
              have : A0.length + a1.length - 1 - A0.length = a1.length - 1 := by omega
              rw [this, ← List.getLast?_eq_getElem?]; exact hold
      · -- unpaired position or strand break
        obtain ⟨hch, hplus⟩ := hx
        simp only at hch hplus
        have hsyd : sy (n, c) = .dot := tsym_dot c h1 h2
        have hs : step s (sy (n, c)) = some ⟨s.tbl ++ [none], s.stack⟩ := by rw [hsyd]; rfl
        rw [hs] at hrun
        simp only [Option.bind_some] at hrun
        by_cases h3 : c = '+'
        · subst h3
          have hn : n = "+" := hplus.mp rfl
          have hnext : nestGo ((n, '+') :: rest) cur stack = nestGo rest (cur ++ [.tok "+"]) stack := by
            simp [nestGo]
          rw [hnext]
          apply ih (pre ++ [(n, '+')]) (cur ++ [Tree.tok "+"]) stack _ _ hrun hok' (by simp; omega)
          exact j_plain F pre cur stack s n "+" '+' hJ (by omega) hsyd h2 hn.symm rfl
        · have hc : c = '.' := by
            rcases hch with h | h | h | h
            · exact absurd h h1
            · exact absurd h h2
            · exact h
            · exact absurd h h3
          subst hc
          have hn : n ≠ "+" := fun e => h3 (hplus.mpr e)
          have hnext : nestGo ((n, '.') :: rest) cur stack = nestGo rest (cur ++ [.tok n]) stack := by
            simp [nestGo]
          rw [hnext]
          apply ih (pre ++ [(n, '.')]) (cur ++ [Tree.tok n]) stack _ _ hrun hok' (by simp; omega)
          exact j_plain F pre cur stack s n n '.' hJ (by omega) hsyd h2 rfl (by simp [hn])

/-- the kernel round trip at lemma level: the forest exists, resolves with fuel `length + 1`, the
    structure comes back exactly and the names are described by `NP` -/
theorem kernel_spec (seq : List String) (sst : List Char) (t : List (Option Nat))
    (hal : Al seq sst) (hm : matchW (cword sst) = some t) (hok : OkChars sst) :
    ∃ toks nm, kernelTokens seq sst = some toks ∧
      resolveKernel (seq.length + 1) toks = .ok (nm, sst) ∧ NP nm (seq.zip sst) t := by
  have hlen := hal.1
  have hsnd : (seq.zip sst).map Prod.snd = sst := List.map_snd_zip (by omega)
  have hsy : (seq.zip sst).map sy = cword sst := by
    have : (seq.zip sst).map sy = ((seq.zip sst).map Prod.snd).map tsym := by
      rw [List.map_map]; rfl
    rw [this, hsnd]; rfl
  have hrun := matchW_run _ _ hm
  rw [← hsy] at hrun
  have hrest : RestOK (seq.zip sst) := by
    intro p hp
    obtain ⟨i, hi⟩ := List.mem_iff_getElem?.mp hp
    rw [List.getElem?_zip_eq_some] at hi
    obtain ⟨h1, h2⟩ := hi
    refine ⟨hok _ (List.mem_iff_getElem?.mpr ⟨i, h2⟩), ?_⟩
    have := hal.2 i
    rw [h1, h2] at this
    simp only [Option.some.injEq] at this
    exact this.symm
  have hzl : (seq.zip sst).length = seq.length := by simp; omega
  obtain ⟨toks, h1, hJ⟩ := nestGo_spec (seq.length + 1) t (seq.zip sst) [] [] [] ⟨[], []⟩
    (j_init _ (by omega)) hrun hrest (by simp; omega)
  obtain ⟨_, _, A, B, a, b, hsr, hrk, _, hB, hnp⟩ := hJ
  cases hsr
  simp only [List.nil_append, List.length_nil, Nat.sub_zero] at hrk hB hnp
  rw [hsnd] at hB
  subst hB
  exact ⟨toks, a, h1, hrk, hnp⟩

end Dsd.Ker
