/-
`Reg.call` answering "created": the request named both identifiers, the identity is the fresh one and
(if that identity is unused) the new object is found under it.
-/
import DsdVerif.Lemmas.Registry

namespace Dsd.Reg
variable {κ : Type} [DecidableEq κ]

theorem call_created (r : Reg κ) (canon : Option κ) (name : Option String) (fresh : Nat)
    (keys : List κ) (auto : Bool) (id : Nat) (hfresh : r.findId fresh = none)
    (h : (r.call canon name fresh keys auto).2 = .ret id true) :
    ∃ n k, name = some n ∧ canon = some k ∧ id = fresh ∧
      (r.call canon name fresh keys auto).1.findId id =
        some { id := fresh, name := n, canon := k, keys := keys } := by
  rcases call_spec r canon name fresh keys auto with ⟨n, k, hn, hk, _, _, hcall⟩ | ⟨_, ⟨o, ho⟩ | ⟨e, he⟩⟩
  · rw [hcall] at h ⊢
    simp only [Out.ret.injEq, and_true] at h
    subst h
    refine ⟨n, k, hn, hk, rfl, ?_⟩
    unfold findId at hfresh ⊢
    simp only [register]
    rw [RegL.find?_append_none _ _ _ hfresh]
    simp
  · rw [ho] at h; simp at h
  · rw [he] at h; simp at h

end Dsd.Reg
