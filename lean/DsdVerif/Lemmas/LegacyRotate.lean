/-
C20, task 2: the legacy `DSD_Complex.rotate_once` (Model/LegacyFull.lean: index loops over `range(p)` and
`reversed(range(p + 1, len))`, a Python list as stack, `for i in stack: tmpstruct[i] = …`) against
`rotate_complex_once` (Model/Complex.lean: `scanFwd` / `scanBwd` / `setAll`).
-/
import DsdVerif.Model.LegacyFull

namespace Dsd.LgL
open Dsd Dsd.Lg

/-! ### assigning one value at many positions does not depend on the order -/

theorem assign_set_comm (v : Char) (idx : List Nat) : ∀ (l : List Char) (j : Nat),
    idx.foldl (fun t i => t.set i v) (l.set j v) = (idx.foldl (fun t i => t.set i v) l).set j v := by
  induction idx with
  | nil => intro l j; rfl
  | cons x xs ih =>
    intro l j
    simp only [List.foldl_cons]
    by_cases hxj : x = j
    · subst hxj
      rw [ih, ih]
    · rw [List.set_comm _ _ (fun e => hxj e.symm), ih]

theorem assignAll_reverse (l : List Char) (idx : List Nat) (v : Char) :
    assignAll l idx.reverse v = setAll l idx v := by
  unfold assignAll setAll
  induction idx generalizing l with
  | nil => rfl
  | cons x xs ih =>
    rw [List.reverse_cons, List.foldl_append, ih]
    simp only [List.foldl_cons, List.foldl_nil]
    rw [assign_set_comm]

theorem assignAll_length (l : List Char) (idx : List Nat) (v : Char) : (assignAll l idx v).length = l.length := by
  unfold assignAll
  induction idx generalizing l with
  | nil => rfl
  | cons x xs ih => simp only [List.foldl_cons]; rw [ih]; simp

theorem setAll_length (l : List Char) (idx : List Nat) (v : Char) : (setAll l idx v).length = l.length := by
  unfold setAll
  induction idx generalizing l with
  | nil => rfl
  | cons x xs ih => simp only [List.foldl_cons]; rw [ih]; simp

/-! ### the two bracket loops -/

/-- how a scan of the current code reads as the outcome of a legacy loop: the stacks are mirror images -/
def asLegacy : Option (List Nat) → Except LErr (List Nat)
  | none => .error (.objects "Unbalanced parenthesis in secondary structure.")
  | some st => .ok st.reverse

theorem dropLast_reverse_tail (l : List Nat) : l.dropLast.reverse = l.reverse.tail := by
  rw [List.tail_reverse]

theorem fwd_loop (tmp : List Char) : ∀ (k i : Nat) (stk : List Nat), i + k ≤ tmp.length →
    bracketLoop '(' ')' tmp (List.range' i k) stk = asLegacy (scanFwd ((tmp.drop i).take k) i stk.reverse) := by
  intro k
  induction k with
  | zero => intro i stk _; simp [bracketLoop, scanFwd, asLegacy]
  | succ k ih =>
    intro i stk hlen
    have hi : i < tmp.length := by omega
    have hget : tmp[i]? = some tmp[i] := List.getElem?_eq_getElem hi
    have hchars : (tmp.drop i).take (k + 1) = tmp[i] :: (tmp.drop (i + 1)).take k := by
      rw [List.drop_eq_getElem_cons hi, List.take_succ_cons]
    rw [List.range'_succ, hchars]
    unfold bracketLoop scanFwd
    simp only [hget]
    by_cases h1 : tmp[i] = '('
    · simp only [h1, if_true]
      rw [ih (i + 1) (stk ++ [i]) (by omega)]
      simp
    · simp only [h1, if_false]
      by_cases h2 : tmp[i] = ')'
      · simp only [h2, if_true]
        cases hs : stk.reverse with
        | nil =>
          have : stk = [] := by simpa using hs
          subst this
          simp [asLegacy]
        | cons t rest =>
          have hne : stk.isEmpty = false := by
            cases stk with
            | nil => simp at hs
            | cons _ _ => rfl
          simp only [hne, Bool.false_eq_true, if_false]
          rw [ih (i + 1) stk.dropLast (by omega), dropLast_reverse_tail, hs]
          rfl
      · simp only [h2, if_false]
        exact ih (i + 1) stk (by omega)

theorem bwd_loop (tmp : List Char) : ∀ (k i : Nat) (stk : List Nat), i + k ≤ tmp.length →
    bracketLoop ')' '(' tmp (List.range' i k).reverse stk =
      asLegacy (scanBwd ((tmp.drop i).take k).reverse (i + k - 1) stk.reverse) := by
  intro k
  induction k with
  | zero => intro i stk _; simp [bracketLoop, scanBwd, asLegacy]
  | succ k ih =>
    intro i stk hlen
    have hi : i + k < tmp.length := by omega
    have hget : tmp[i + k]? = some tmp[i + k] := List.getElem?_eq_getElem hi
    have hidx : (List.range' i (k + 1)).reverse = (i + k) :: (List.range' i k).reverse := by
      rw [List.range'_1_concat, List.reverse_append]; rfl
    have hchars : ((tmp.drop i).take (k + 1)).reverse = tmp[i + k] :: ((tmp.drop i).take k).reverse := by
      have hk : k < (tmp.drop i).length := by rw [List.length_drop]; omega
      rw [List.take_succ_eq_append_getElem hk, List.reverse_append]
      simp
    rw [hidx, hchars]
    have e1 : i + (k + 1) - 1 = i + k := by omega
    rw [e1]
    unfold bracketLoop scanBwd
    simp only [hget]
    by_cases h1 : tmp[i + k] = ')'
    · simp only [h1, if_true]
      rw [ih i (stk ++ [i + k]) (by omega)]
      simp
    · simp only [h1, if_false]
      by_cases h2 : tmp[i + k] = '('
      · simp only [h2, if_true]
        cases hs : stk.reverse with
        | nil =>
          have : stk = [] := by simpa using hs
          subst this
          simp [asLegacy]
        | cons t rest =>
          have hne : stk.isEmpty = false := by
            cases stk with
            | nil => simp at hs
            | cons _ _ => rfl
          simp only [hne, Bool.false_eq_true, if_false]
          rw [ih i stk.dropLast (by omega), dropLast_reverse_tail, hs]
          rfl
      · simp only [h2, if_false]
        exact ih i stk (by omega)

/-! ### `rotate_once` -/

/-- the outcome of the legacy `rotate_once` in the vocabulary of the current function: the pair of lists, or
    SecondaryStructureError for the legacy DSDObjectsError("Unbalanced parenthesis …") -/
def toCurrent : List String × Except LErr (List Char) → Except Err (List String × List Char)
  | (s, .ok t) => .ok (s, t)
  | (_, .error (.objects _)) => .error .secondaryStructure
  | (_, .error (.fault k)) => .error (.fault k)
  | (_, .error _) => .error (.fault "other")

theorem idxOf?_lt (seq : List String) (p : Nat) (h : seq.idxOf? "+" = some p) : p < seq.length := by
  rw [List.idxOf?] at h
  have := List.findIdx?_eq_some_iff_getElem.mp h
  exact this.1

theorem flipStructure_eq (sst : List Char) (p : Nat) (hp : p < sst.length) :
    flipStructure sst p =
      match scanFwd (sst.take p) 0 [] with
      | none => .error (.objects "Unbalanced parenthesis in secondary structure.")
      | some st1 =>
        match scanBwd ((setAll sst st1 ')').drop (p + 1)).reverse ((setAll sst st1 ')').length - 1) [] with
        | none => .error (.objects "Unbalanced parenthesis in secondary structure.")
        | some st2 =>
          .ok ((setAll (setAll sst st1 ')') st2 '(').drop (p + 1) ++ ['+'] ++ (setAll (setAll sst st1 ')') st2 '(').take p) := by
  unfold flipStructure
  have h1 := fwd_loop sst p 0 [] (by omega)
  rw [List.range_eq_range']
  simp only [List.drop_zero, List.reverse_nil] at h1
  rw [h1]
  cases hs1 : scanFwd (sst.take p) 0 [] with
  | none => rfl
  | some st1 =>
    simp only [asLegacy]
    rw [assignAll_reverse]
    have hl : (setAll sst st1 ')').length = sst.length := setAll_length _ _ _
    have h2 := bwd_loop (setAll sst st1 ')') ((setAll sst st1 ')').length - (p + 1)) (p + 1) [] (by omega)
    rw [h2]
    have e1 : p + 1 + ((setAll sst st1 ')').length - (p + 1)) - 1 = (setAll sst st1 ')').length - 1 := by omega
    have e2 : ((setAll sst st1 ')').drop (p + 1)).take ((setAll sst st1 ')').length - (p + 1)) =
        (setAll sst st1 ')').drop (p + 1) := by
      apply List.take_of_length_le
      rw [List.length_drop]; omega
    rw [e1, e2]
    simp only [List.reverse_nil]
    cases hs2 : scanBwd ((setAll sst st1 ')').drop (p + 1)).reverse ((setAll sst st1 ')').length - 1) [] with
    | none => rfl
    | some st2 =>
      simp only [asLegacy]
      rw [assignAll_reverse]

/-- **`legacy_rotate_once_eq`** on the lists: for EVERY pair of lists of equal length (ill-formed structures, single
    strands and empty strands included) the legacy `rotate_once` and `rotate_complex_once` return the same pair, and
    the legacy code raises DSDObjectsError exactly where the current one raises SecondaryStructureError. -/
theorem rotateOnceLists_eq (seq : List String) (sst : List Char) (h : seq.length = sst.length) :
    toCurrent (rotateOnceLists seq sst) = Dsd.rotateOnce seq sst := by
  unfold rotateOnceLists Dsd.rotateOnce
  cases hp : seq.idxOf? "+" with
  | none => rfl
  | some p =>
    have hlt := idxOf?_lt seq p hp
    simp only
    rw [flipStructure_eq sst p (by omega)]
    cases hs1 : scanFwd (sst.take p) 0 [] with
    | none => rfl
    | some st1 =>
      simp only
      cases hs2 : scanBwd ((setAll sst st1 ')').drop (p + 1)).reverse ((setAll sst st1 ')').length - 1) [] with
      | none => rfl
      | some st2 => rfl

end Dsd.LgL
