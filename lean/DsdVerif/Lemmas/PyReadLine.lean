/-
Lemmas about the statement-level translation of `read_pil_line` (Gen/PyReadLine.lean): the unconfigured reader, and the instance of the request
parameters by the operations of the model's object world (`modelEnv`), under which the translated branches are the branches of
`ReaderFull.readLineFull`.
-/
import DsdVerif.Gen.PyReadLine
import DsdVerif.Model.ReaderFull

namespace Dsd.PyReadLineL
open Dsd Dsd.PP Dsd.Gen Dsd.ReaderFull

def ofRErr : RErr → Err
  | .fault k => .fault k
  | .singleton => .singleton none
  | .objectInit => .objectInit
  | .secondaryStructure => .secondaryStructure
  | .notImplemented => .notImplemented
  | .assertion => .assertion
  | .pilFormat => .pilFormat

/-- a request of the model's world as a computation of the translation's monad (the world survives an exception) -/
def req {α} (f : RState → RState × Except RErr α) : Py.MS RState α :=
  ExceptT.mk (fun s => match f s with
    | (s', .ok a) => (.ok a, s')
    | (s', .error e) => (.error (ofRErr e), s'))

/-- a request that needs the name as a str (`asStr`: the model reports a list as TypeError before it asks the world) -/
def named {α} (nameT : Tree) (f : String → RState → RState × Except RErr α) : Py.MS RState α :=
  req (fun s => match asStr nameT with | .error e => (s, .error e) | .ok n => f n s)

/-- the request parameters as the operations of the model's world, for the slot configuration `sl` (all five slots configured) -/
def modelEnv (sl : Slots) (RTYPES : Py.StrSet) (g12 : Py.FloatLit → String) (strL : List Tree → String) : RL.Env RState where
  g := { Domain := some sl.dom, Strand := some sl.strand, Complex := some sl.cplx, Macrostate := some sl.macr, Reaction := some sl.rxn }
  Domain := fun nameT len => named nameT (fun n s => ctorDomain sl s { name := some n, length := len })
  Strand := fun seq nameT => named nameT (fun n s => ctorStrand sl s (seq.map (fun l => l.map some)) (some n))
  Complex := fun _ nameT => named nameT (fun n s => ctorComplex sl s none [] (some n))
  Macrostate := fun cs nameT => named nameT (fun n s => ctorMacro sl s cs (some n))
  Reaction := fun rs ps ty => named ty (fun t s => ctorReaction sl s rs ps t)
  set_sequence := fun h t => named t (fun con s => ({ s with dseq := (s.dseq.filter (fun p => p.1 != h)) ++ [(h, con)] }, .ok ()))
  set_rate_constant := fun h ra un => req (fun s =>
    ({ s with rate := (s.rate.filter (fun p => p.1 != h)) ++ [(h, (ra, un.bind tokStr))] }, .ok ()))
  RTYPES := RTYPES
  g12 := g12
  strL := strL

/-- the model's outcome in the translation's vocabulary: an object is its handle, `other` is the parsed line handed back -/
def outOf (line : List Tree) (r : RState × Except RErr RObj) : Except Err RL.Val × RState :=
  (match r.2 with
   | .error e => .error (ofRErr e)
   | .ok (.dom id) | .ok (.strand id) | .ok (.cplx id) | .ok (.macro id) | .ok (.rxn id _) => .ok (.obj id)
   | .ok .other => .ok (.raw line), r.1)

/-- **an unconfigured reader hands the parsed statement back**: with all five slots `None`, whatever the keyword -/
theorem unconfigured {ω : Type} (env : RL.Env ω) (hg : env.g = {}) (t0 t1 : Tree) (rest : List Tree) (w : ω) :
    Py.MS.exec (py_read_pil_line env (t0 :: t1 :: rest)) w = (.ok (.raw (t0 :: t1 :: rest)), w) := by
  simp [py_read_pil_line, hg, Py.idx, Py.MS.exec]
  rfl

macro "rl_simp" : tactic =>
  `(tactic| simp [py_read_pil_line, modelEnv, Py.idx, Py.MS.exec, Py.treeEqStr, Py.treeInt, Py.treeLen, RState.readLineFull, item, isStr, lineDl,
      lineSl, outOf, named, req, asStr, pyInt, *])

set_option hygiene false in
macro "rl_fin" : tactic =>
  `(tactic| first | done | rfl | (simp only [StateT.run]; generalize ctorDomain _ _ _ = r; rcases r with ⟨s1, (e | id)⟩ <;> rfl))

/-- the `dl-domain` branch of the translation is the branch `lineDl` of the model (every line that starts with the keyword) -/
theorem dl_eq (sl : Slots) (RT : Py.StrSet) (g12 : Py.FloatLit → String) (strL : List Tree → String) (nameT : Tree) (rest : List Tree)
    (s : RState) :
    Py.MS.exec (py_read_pil_line (modelEnv sl RT g12 strL) (.tok "dl-domain" :: nameT :: rest)) s =
      outOf (.tok "dl-domain" :: nameT :: rest) (s.readLineFull sl (.tok "dl-domain" :: nameT :: rest)) := by
  rcases rest with _ | ⟨(l2 | g2), rest'⟩
  · rl_simp; rl_fin
  · by_cases h1 : l2 = "short"
    · cases nameT <;> rl_simp <;> rl_fin
    · by_cases h2 : l2 = "long"
      · cases nameT <;> rl_simp <;> rl_fin
      · cases hn : l2.toNat? <;> cases nameT <;> rl_simp <;> rl_fin
  · cases nameT <;> rl_simp <;> rl_fin

end Dsd.PyReadLineL
