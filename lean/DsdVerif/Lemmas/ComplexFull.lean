/-
The full model of `ComplexS.identifiers` (Model/ComplexFull.lean: dictionary, `for … break … else`, `sorted(…)[0]`)
against `complexIdentifiers` (a list of visited rotations, `minKey`, `lastIdxOf`, `eraseDups`).
-/
import DsdVerif.Model.ComplexFull
import DsdVerif.Lemmas.CanonIds
import DsdVerif.Lemmas.Sort
import DsdVerif.Lemmas.SingletonFull

namespace Dsd.CplxFullL
open Dsd Dsd.CplxFull

/-! ### lists -/

theorem eraseDups_snoc {α} [BEq α] [LawfulBEq α] (l : List α) (x : α) :
    (l ++ [x]).eraseDups = if x ∈ l then l.eraseDups else l.eraseDups ++ [x] := by
  generalize hn : l.length = n
  induction n using Nat.strongRecOn generalizing l with
  | _ n ih =>
    cases l with
    | nil => simp [List.eraseDups_cons]
    | cons a l =>
      simp only [List.cons_append, List.eraseDups_cons, List.filter_append]
      have hlen : (l.filter (fun b => !b == a)).length < n := by
        have := List.length_filter_le (fun b => !b == a) l
        simp at hn; omega
      by_cases hxa : x = a
      · subst hxa
        simp
      · have hx' : (!x == a) = true := by simp [hxa]
        simp only [List.filter_cons, List.filter_nil, hx', if_true]
        rw [ih _ hlen (l.filter (fun b => !b == a)) rfl]
        have hmem : x ∈ l.filter (fun b => !b == a) ↔ x ∈ l := by
          simp [List.mem_filter, hxa]
        simp only [hmem, List.mem_cons, hxa, false_or]
        split <;> simp

/-- index of the last occurrence, if any (`lastIdxOf` is its `getD 0`) -/
def lastIdx? (ks : List CKey) (k : CKey) : Option Nat :=
  ks.zipIdx.foldl (fun acc (p : CKey × Nat) => if p.1 = k then some p.2 else acc) none

theorem lastIdxOf_eq (ks : List CKey) (k : CKey) : lastIdxOf ks k = (lastIdx? ks k).getD 0 := rfl

theorem lastIdx?_snoc (ks : List CKey) (x k : CKey) :
    lastIdx? (ks ++ [x]) k = if x = k then some ks.length else lastIdx? ks k := by
  unfold lastIdx?
  rw [List.zipIdx_append, List.foldl_append]
  simp

/-! ### the dictionary -/

theorem keys_dictSet (d : Dict) (k : CKey) (v : Nat) :
    dictKeys (dictSet d k v) = if k ∈ dictKeys d then dictKeys d else dictKeys d ++ [k] := by
  induction d with
  | nil => simp [dictSet, dictKeys]
  | cons p d ih =>
    obtain ⟨k', v'⟩ := p
    unfold dictKeys at ih ⊢
    simp only [dictSet]
    by_cases h : k' = k
    · subst h; simp
    · have h' : ¬ k = k' := fun e => h e.symm
      simp only [h, if_false, List.map_cons, ih, List.mem_cons, h', false_or]
      split <;> simp

theorem get_dictSet (d : Dict) (k k' : CKey) (v : Nat) :
    dictGet (dictSet d k v) k' = if k = k' then some v else dictGet d k' := by
  induction d with
  | nil => simp [dictSet, dictGet]
  | cons p d ih =>
    obtain ⟨k0, v0⟩ := p
    simp only [dictSet]
    by_cases h : k0 = k
    · subst h
      simp only [if_true, dictGet]
      split <;> rfl
    · simp only [h, if_false, dictGet, ih]
      by_cases h2 : k0 = k'
      · have : ¬ k = k' := fun e => h (h2.trans e.symm)
        simp [h2, this]
      · simp [h2]

theorem dictGet_of_mem (d : Dict) (k : CKey) (h : k ∈ dictKeys d) : ∃ i, dictGet d k = some i := by
  induction d with
  | nil => simp [dictKeys] at h
  | cons p d ih =>
    obtain ⟨k0, v0⟩ := p
    by_cases h0 : k0 = k
    · exact ⟨v0, by simp [dictGet, h0]⟩
    · simp only [dictKeys, List.map_cons, List.mem_cons] at h
      rcases h with h | h
      · exact absurd h.symm h0
      · obtain ⟨i, hi⟩ := ih h
        exact ⟨i, by simp [dictGet, h0, hi]⟩

/-- the dictionary of the loop holds what the list of visited rotations says -/
structure DictOf (d : Dict) (seen : List CKey) : Prop where
  keys : dictKeys d = seen.eraseDups
  get : ∀ k, dictGet d k = lastIdx? seen k

theorem dictOf_nil : DictOf [] [] := ⟨rfl, fun _ => rfl⟩

theorem dictOf_snoc (d : Dict) (seen : List CKey) (h : DictOf d seen) (x : CKey) :
    DictOf (dictSet d x seen.length) (seen ++ [x]) := by
  refine ⟨?_, ?_⟩
  · rw [keys_dictSet, eraseDups_snoc, h.keys]
    simp only [List.mem_eraseDups]
  · intro k
    rw [get_dictSet, lastIdx?_snoc, h.get]

/-! ### `sorted(…)[0]` -/

theorem head_sortBy (l : List CKey) (c : CKey) (h : minKey l = some c) :
    (sortBy ckeyLt l).head? = some c := by
  have hs := Ord.ckeyLt_sto
  have hsorted := SortL.sortBy_sorted ckeyLt hs.irrefl hs.trans
    (SortL.neg_trans ckeyLt hs.irrefl hs.trans hs.total) l
  have hperm := SortL.sortBy_perm ckeyLt l
  obtain ⟨m1, m2⟩ := Ord.minKey_spec l c h
  cases hsl : sortBy ckeyLt l with
  | nil =>
    have := hperm.length_eq
    rw [hsl] at this
    have : l = [] := List.length_eq_zero_iff.mp this.symm
    rw [this] at m1; cases m1
  | cons a rest =>
    rw [hsl] at hsorted hperm
    have ha : a ∈ l := hperm.subset (by simp)
    have hmin : ∀ x ∈ l, ckeyLt x a = false := by
      intro x hx
      have hx' : x ∈ a :: rest := hperm.symm.subset hx
      rcases List.mem_cons.mp hx' with rfl | hx'
      · exact hs.irrefl _
      · exact (List.pairwise_cons.mp hsorted).1 x hx'
    have := Ord.min_unique ckeyLt hs l l a c (fun _ => Iff.rfl) ⟨ha, hmin⟩ ⟨m1, m2⟩
    rw [this]; rfl

theorem minKey_eraseDups (l : List CKey) (c : CKey) (h : minKey l = some c) : minKey l.eraseDups = some c := by
  obtain ⟨m1, m2⟩ := Ord.minKey_spec l c h
  have hne : l.eraseDups ≠ [] := fun e => by
    have := List.mem_eraseDups.mpr m1
    rw [e] at this; cases this
  obtain ⟨c', hc'⟩ := Ord.minKey_isSome _ hne
  obtain ⟨n1, n2⟩ := Ord.minKey_spec _ c' hc'
  have := Ord.min_unique ckeyLt Ord.ckeyLt_sto l.eraseDups l c' c (fun _ => List.mem_eraseDups) ⟨n1, n2⟩ ⟨m1, m2⟩
  rw [hc', this]

/-! ### the loop -/

/-- what `identifiers` makes of the end of the loop -/
def finishFull (tot : Nat) : LoopEnd → Except Out CplxIds
  | .brk canon turns cdict => .ok { canon := canon, turns := wrap (-(turns : Int)) tot, keys := dictKeys cdict }
  | .els cdict =>
    match (sortBy ckeyLt (dictKeys cdict)).head? with
    | none => .error (.fault "IndexError")
    | some canon =>
      match dictGet cdict canon with
      | none => .error (.fault "KeyError")
      | some turns => .ok { canon := canon, turns := wrap (-(turns : Int)) tot, keys := dictKeys cdict }

def loopFull (r : Reg CKey) (tot : Nat) (es : List Nat) (s : List String) (t : List Char) (d : Dict) :
    Except Out CplxIds :=
  match forLoop r es s t d with
  | .error e => .error e
  | .ok e => finishFull tot e

theorem finish_eq (tot : Nat) (d : Dict) (seen : List CKey) (h : DictOf d seen) (hne : seen ≠ []) :
    finishFull tot (.els d) = Rot.finish tot seen := by
  obtain ⟨c, hc⟩ := Ord.minKey_isSome seen hne
  unfold finishFull Rot.finish
  simp only [hc, h.keys, head_sortBy _ c (minKey_eraseDups seen c hc), h.get]
  obtain ⟨m1, _⟩ := Ord.minKey_spec seen c hc
  -- the minimum has been visited, so it has a last index
  have hsome : ∃ i, lastIdx? seen c = some i := by
    obtain ⟨i, hi⟩ := dictGet_of_mem d c (by rw [h.keys]; exact List.mem_eraseDups.mpr m1)
    exact ⟨i, by rw [← h.get c, hi]⟩
  obtain ⟨i, hi⟩ := hsome
  simp only [hi, lastIdxOf_eq, Option.getD_some]

/-- **the loop with the dictionary computes what the loop with the list of visited rotations computes** -/
theorem loop_eq (r : Reg CKey) (tot : Nat) : ∀ (k : Nat) (s : List String) (t : List Char) (d : Dict)
    (seen : List CKey), DictOf d seen → (0 < k ∨ seen ≠ []) →
    loopFull r tot (List.range' seen.length k) s t d = complexIdentifiers.loop r tot k seen.length s t seen := by
  intro k
  induction k with
  | zero =>
    intro s t d seen hd hne
    rw [Rot.loop_zero]
    have hne' : seen ≠ [] := by
      rcases hne with h | h
      · omega
      · exact h
    unfold loopFull forLoop
    exact finish_eq tot d seen hd hne'
  | succ k ih =>
    intro s t d seen hd _
    rw [List.range'_succ]
    unfold loopFull
    unfold forLoop
    cases hf : r.findCanon (s, t) with
    | some o =>
      rw [Rot.loop_succ_reg r tot k seen.length s t seen (by rw [hf]; rfl)]
      simp only [hf, Option.isSome_some, if_true, finishFull, hd.keys]
    | none =>
      simp only [hf, Option.isSome_none, Bool.false_eq_true, if_false]
      cases hrot : rotateOnce s t with
      | error e =>
        conv => rhs; unfold complexIdentifiers.loop
        simp only [hf, hrot, Option.isSome_none, Bool.false_eq_true, if_false]
        cases e <;> rfl
      | ok nx =>
        rw [Rot.loop_succ_free r tot k seen.length s t seen nx hf hrot]
        have := ih nx.1 nx.2 (dictSet d (s, t) seen.length) (seen ++ [(s, t)]) (dictOf_snoc d seen hd (s, t))
          (Or.inr (by simp))
        simp only [List.length_append, List.length_cons, List.length_nil, Nat.zero_add] at this
        exact this

/-- the body of `identifiers` for a given sequence, with the name settled -/
def identCore (r : Reg CKey) (name : String) (sequence : List String) (sst : List Char) :
    Except Out (Option CKey × String × Option CplxIds) :=
  if sequence.length ≠ sst.length then .error .objectInitErr
  else
    let tot := (makeStrandTableList "+" sequence).length
    if tot = 0 then .error .objectInitErr
    else
      match forLoop r (List.range tot) sequence sst [] with
      | .error e => .error e
      | .ok (.brk canon turns cdict) =>
        .ok (some canon, name, some { canon := canon, turns := wrap (-(turns : Int)) tot, keys := dictKeys cdict })
      | .ok (.els cdict) =>
        match (sortBy ckeyLt (dictKeys cdict)).head? with
        | none => .error (.fault "IndexError")
        | some canon =>
          match dictGet cdict canon with
          | none => .error (.fault "KeyError")
          | some turns =>
            .ok (some canon, name,
                 some { canon := canon, turns := wrap (-(turns : Int)) tot, keys := dictKeys cdict })

theorem identCore_eq (r : Reg CKey) (name : String) (sequence : List String) (sst : List Char) :
    identCore r name sequence sst =
      match complexIdentifiers r sequence sst with
      | .error e => .error e
      | .ok ids => .ok (some ids.canon, name, some ids) := by
  unfold identCore
  by_cases hlen : sequence.length = sst.length
  · simp only [hlen, ne_eq, not_true_eq_false, if_false]
    rw [Rot.complexIdentifiers_eq r sequence sst hlen]
    unfold Rot.nStr
    generalize (makeStrandTableList "+" sequence).length = tot
    by_cases h0 : tot = 0
    · subst h0
      rw [Rot.loop_zero]
      simp [Rot.finish, minKey]
    · simp only [h0, if_false]
      have := loop_eq r tot tot sequence sst [] [] dictOf_nil (Or.inl (by omega))
      simp only [List.length_nil] at this
      rw [← this, List.range_eq_range']
      unfold loopFull
      cases forLoop r (List.range' 0 tot) sequence sst [] with
      | error e => rfl
      | ok e =>
        cases e with
        | brk c tn d => rfl
        | els d =>
          simp only [finishFull]
          cases (sortBy ckeyLt (dictKeys d)).head? with
          | none => rfl
          | some c =>
            simp only
            cases dictGet d c <;> rfl
  · simp only [hlen, ne_eq, not_false_eq_true, if_true]
    unfold complexIdentifiers
    simp [hlen]

/-- **`ComplexS.identifiers` of the full model = `complexIdentifiers`**, for every registry and every input -/
theorem identifiers_eq (pfx : String) (r : Reg CKey) (q : CplxReq) (sequence : List String)
    (hq : q.seq = some sequence) :
    CplxFull.identifiers pfx r q =
      match complexIdentifiers r sequence q.sst with
      | .error e => .error e
      | .ok ids => .ok (some ids.canon, q.name.getD ((q.prefix_.getD pfx) ++ toString r.autoId), some ids) := by
  rw [← identCore_eq]
  obtain ⟨qseq, qsst, qname, qpfx⟩ := q
  simp only at hq
  subst hq
  cases qname <;> cases qpfx <;> rfl

end Dsd.CplxFullL
