/-
PIL documents with a malformed statement are rejected (C13, negative clause, document level).
`BadStmtFor C s`: `pil_stmt` fails on `s ++ R` for every continuation `R` with `C R` (for most malformed
statements `C` is trivial: the failure happens inside `s`; an unclosed kernel loop needs a condition on what follows).
A document in which such a text stands where a statement is expected — after statement-free lines and any number of
well-formed statements in any line-level layout — is rejected.  `BadStmtForT`: the same for texts with tabs.
-/
import DsdVerif.Lemmas.PilTabs

namespace Dsd.Pil
open Dsd.PP Dsd.Gen Dsd.PP.Tabs

/-- `pil_stmt` rejects the text `s` (which starts like a statement) in front of every continuation with `C` -/
structure BadStmtFor (C : List Char → Prop) (s : List Char) : Prop where
  head : ∃ c r, s = c :: r ∧ StartCh c
  notab : '\t' ∉ s
  fails : ∃ N, N ≤ 4 * s.length + 100 ∧ ∀ R, C R → No pil_env N {} pil_stmt { rest := s ++ R, past := false }

/-- … whatever follows -/
abbrev BadStmt (s : List Char) : Prop := BadStmtFor (fun _ => True) s

theorem BadStmtFor.weaken {C C' : List Char → Prop} {s : List Char} (h : BadStmtFor C s) (hC : ∀ R, C' R → C R) :
    BadStmtFor C' s := by
  obtain ⟨N, hN, hf⟩ := h.fails
  exact ⟨h.head, h.notab, N, hN, fun R hR => hf R (hC R hR)⟩

theorem No_stringEnd (env : Env) (ctx : Ctx) (p : Pos) (c : Char) (r : List Char) (hp : (pre ctx p).rest = c :: r) :
    No env 0 ctx .stringEnd p := by
  intro fuel _
  cases fuel with
  | zero => simp only [run]
  | succ f => simp [run, hp]

/-- `chainL` with an arbitrary final position -/
theorem chainL_to (l : List LItem) (hl : ∀ x ∈ l, LItemOK x) (T : List Char) (p : Pos) (hc : ContL T p) (q : Pos)
    (tt : List Tree) (bt : Nat) (hbt : 100 ≤ bt) (htail : OkMany pil_env bt {} pil_stmt p (q, tt)) :
    OkMany pil_env (4 * (litemsText l).length + bt) {} pil_stmt (posOfL l T p) (q, l.map (·.2.1) ++ tt) := by
  induction l with
  | nil =>
    intro reps fuel hr hf
    simpa [posOfL] using htail reps fuel (by omega) (by omega)
  | cons x xs ih =>
    have hxs : ∀ y ∈ xs, LItemOK y := fun y hy => hl y (List.mem_cons_of_mem _ hy)
    obtain ⟨hx1, hx2⟩ := hl x List.mem_cons_self
    have h1 := stmt_termL x.1 x.2.1 hx1 x.2.2 hx2 (litemsText xs ++ T) (posOfL xs T p)
      (cont_itemsL xs hxs T p hc)
    rw [← litemsText_cons] at h1
    have hne := posOfL_ne x xs hxs T p hc
    have := OkMany_step h1 hne (ih hxs)
    have hlen := litemsText_length_cons x xs
    have hl1 := x.2.2.length_le
    intro reps fuel hr hf
    simpa [posOfL] using this reps fuel (by omega) (by omega)

/-- after the statement-free lines `pre` and the well-formed statements `l`, the malformed `s` makes the document
    fail -/
theorem document_reject_noL {C : List Char → Prop} (pre : List BLine) (hpre : ∀ b ∈ pre, b.OK) (l : List LItem)
    (hl : ∀ x ∈ l, LItemOK x) (s : List Char) (hs : BadStmtFor C s) (R : List Char) (hR : C R) :
    ∃ N, N ≤ 4 * (litemsText l ++ s).length + pre.length + 150 ∧
      No pil_env N {} pil_grammar { rest := blines pre ++ (litemsText l ++ (s ++ R)), past := false } := by
  obtain ⟨c, r, rfl, hc⟩ := hs.head
  obtain ⟨N0, hN0, hfail⟩ := hs.fails
  have hstmt := hfail R hR
  have hend : No pil_env 0 {} .stringEnd { rest := c :: r ++ R, past := false } :=
    No_stringEnd pil_env {} _ c (r ++ R) (by rw [pre_skip]; exact skipIgn_cons c _ hc.1 hc.2.1)
  have h0 : ∀ X : List Char, Ok pil_env 1 {} .stringStart { rest := X, past := false }
      ({ rest := X, past := false }, []) := fun X => Ok_stringStart pil_env {} _
  unfold pil_grammar pil_document
  cases l with
  | nil =>
    have h1 := Ok_many (OkMany_blines pil_env pre hpre (c :: r ++ R) _ (ContL.next c (r ++ R) hc))
    have hno := No_seq (NoSeq_tail (h0 _) (NoSeq_tail h1 (NoSeq_head (gs := [.stringEnd]) (No_many1 hstmt))))
    refine ⟨_, ?_, by simpa [litemsText] using hno⟩
    simp only [litemsText, List.flatMap_nil, List.nil_append]
    omega
  | cons x xs =>
    have hxs : ∀ y ∈ xs, LItemOK y := fun y hy => hl y (List.mem_cons_of_mem _ hy)
    obtain ⟨hx1, hx2⟩ := hl x List.mem_cons_self
    obtain ⟨cx, rx, hcr, hcx⟩ := hx1.cons
    have hcont : ContL (c :: r ++ R) { rest := c :: r ++ R, past := false } := ContL.next c (r ++ R) hc
    have h1 := stmt_termL x.1 x.2.1 hx1 x.2.2 hx2 (litemsText xs ++ (c :: r ++ R)) (posOfL xs (c :: r ++ R) _)
      (cont_itemsL xs hxs _ _ hcont)
    rw [← litemsText_cons] at h1
    have h2 := chainL_to xs hxs (c :: r ++ R) _ hcont _ [] (max (N0 + 1) 100) (by omega)
      ((OkMany_stop hstmt).mono (by omega))
    have hm := Ok_many1 h1 h2
    have htext : litemsText (x :: xs) ++ (c :: r ++ R) =
        cx :: (rx ++ (x.2.2.text ++ (litemsText xs ++ (c :: r ++ R)))) := by
      rw [litemsText_cons, hcr]; rfl
    have hlen := litemsText_length_cons x xs
    have hl1 := x.2.2.length_le
    rw [htext] at hm
    have hb := Ok_many (OkMany_blines pil_env pre hpre (cx :: (rx ++ (x.2.2.text ++ (litemsText xs ++ (c :: r ++ R)))))
      _ (ContL.next cx _ hcx))
    have hno := No_seq (NoSeq_tail (h0 _) (NoSeq_tail hb (NoSeq_tail hm (NoSeq_head (gs := []) hend))))
    rw [← htext] at hno
    refine ⟨_, ?_, hno⟩
    simp only [List.length_append, hlen, List.length_cons] at hN0 ⊢
    omega

/-- **a PIL document with a malformed statement is rejected** (tab-free): statement-free lines `pre`, well-formed
    statements `stmts` in any line-level layout, the malformed statement `s`, any further text `R` -/
theorem pil_document_rejectedL {C : List Char → Prop} (pre : List BLine) (hpre : ∀ b ∈ pre, b.OK)
    (stmts : List LItem) (h : ∀ x ∈ stmts, LItemOK x) (s : List Char) (hs : BadStmtFor C s) (R : List Char)
    (hR : C R) (hRt : '\t' ∉ R) :
    parseDoc pil_env pil_grammar (String.ofList (blines pre ++ (litemsText stmts ++ (s ++ R)))) = none := by
  obtain ⟨N, hN, hno⟩ := document_reject_noL pre hpre stmts h s hs R hR
  have hnt : '\t' ∉ blines pre ++ (litemsText stmts ++ (s ++ R)) := by
    have h1 := notab_litems stmts h
    have h2 := notab_blines pre hpre
    have h3 := hs.notab
    simp [h1, h2, h3, hRt]
  have hl := blines_length pre
  exact parseDoc_no' pil_env pil_grammar _ _ hnt hno (by simp only [List.length_append] at hN ⊢; omega)

/-! ### with tabs -/

/-- `s` — which may contain tabs — expands (at column 0) to a malformed statement -/
def BadStmtForT (C : List Char → Prop) (s : List Char) : Prop :=
  ∃ s', (∀ rest, ∃ col', expandTabs (s ++ rest) 0 = s' ++ expandTabs rest col') ∧ BadStmtFor C s'

theorem BadStmtFor.toT {C : List Char → Prop} {s : List Char} (h : BadStmtFor C s) : BadStmtForT C s :=
  ⟨s, fun rest => ⟨_, expandTabs_tok s h.notab rest 0⟩, h⟩

theorem notab_expandTabs (cs : List Char) (col : Nat) : '\t' ∉ expandTabs cs col := by
  induction cs generalizing col with
  | nil => simp [expandTabs]
  | cons c cs ih =>
    by_cases hc : c = '\t'
    · subst hc
      simp only [expandTabs, List.mem_append, not_or]
      exact ⟨fun h => absurd (List.eq_of_mem_replicate h) (by decide), ih 0⟩
    · rw [expandTabs]
      · simp only [List.mem_cons, not_or]
        exact ⟨fun e => hc e.symm, ih _⟩
      · exact hc

/-- **a PIL document with a malformed statement is rejected**: the well-formed statements, the malformed statement
    and everything after it may contain tabs (the condition on the continuation is about its expansion) -/
theorem pil_document_rejected {C : List Char → Prop} (pre : List BLine) (hpre : ∀ b ∈ pre, b.OK)
    (stmts : List LItem) (h : ∀ x ∈ stmts, StmtTextT x.1 x.2.1 ∧ x.2.2.OK) (s : List Char) (hs : BadStmtForT C s)
    (R : List Char) (hR : ∀ col, C (expandTabs R col)) :
    parseDoc pil_env pil_grammar (String.ofList (blines pre ++ (litemsText stmts ++ (s ++ R)))) = none := by
  obtain ⟨l', h1, _, _, h4⟩ := expand_items stmts h
  obtain ⟨s', hex, hbad⟩ := hs
  obtain ⟨col', hcol⟩ := hex R
  have hexp : expandTabs (blines pre ++ (litemsText stmts ++ (s ++ R))) 0 =
      blines pre ++ (litemsText l' ++ (s' ++ expandTabs R col')) := by
    rw [expandTabs_tok (blines pre) (notab_blines pre hpre), colAfter_blines, h4 (s ++ R), hcol]
  have hnt : '\t' ∉ blines pre ++ (litemsText l' ++ (s' ++ expandTabs R col')) := by
    have a1 := notab_litems l' h1
    have a2 := notab_blines pre hpre
    have a3 := hbad.notab
    have a4 := notab_expandTabs R col'
    simp [a1, a2, a3, a4]
  rw [parseDoc_expand pil_env pil_grammar _ _ hexp hnt]
  exact pil_document_rejectedL pre hpre l' h1 s' hbad _ (hR col') (notab_expandTabs R col')

end Dsd.Pil
