/-
Coherence invariant of a translated `ComplexS` object (Gen/PyComplexS.lean) and the shape of the per-view statements.
-/
import DsdVerif.Spec.PyComplexS
import DsdVerif.Props.C03Views
import DsdVerif.Props.PyFuncs

namespace Dsd.PyObj
open Dsd Gen

/-- each lazily filled attribute is falsy (`None` or empty) or is the function of the CURRENT representation -/
structure PCoh (s : ComplexS.Self) : Prop where
  len : s._sequence.length = s._structure.length
  nn : 0 ≤ s._turns
  st : ∀ t, s._strand_table = some t → t ≠ [] → t = makeStrandTableList "+" s._sequence
  pt : ∀ t, s._pair_table = some t → t ≠ [] → makePairTable s._structure = .ok t
  li : ∀ l, s._loop_index = some l → l ≠ [] →
        ∃ pt e, s._pair_table = some pt ∧ pt ≠ [] ∧ makePairTable s._structure = .ok pt ∧
          s._exterior_loops = some e ∧ CplxObj.liOf pt = .ok (l, e)
  ex : ∀ d, s._exterior_domains = some d → d ≠ [] →
        ∃ r, CplxObj.edSpec s._structure = .ok r ∧ d = r.1 ∧ s._enclosed_domains = some r.2
  en : ∀ d, s._enclosed_domains = some d → d ≠ [] → ∃ r, CplxObj.edSpec s._structure = .ok r ∧ d = r.2

/-- same representation (what the views are functions of) -/
def SameRepS (s s' : ComplexS.Self) : Prop :=
  s'._sequence = s._sequence ∧ s'._structure = s._structure ∧ s'._turns = s._turns ∧ s'._name = s._name

theorem SameRepS.refl (s : ComplexS.Self) : SameRepS s s := ⟨rfl, rfl, rfl, rfl⟩
theorem SameRepS.trans {a b c : ComplexS.Self} (h : SameRepS a b) (h' : SameRepS b c) : SameRepS a c := by
  obtain ⟨a1, a2, a3, a4⟩ := h; obtain ⟨b1, b2, b3, b4⟩ := h'
  exact ⟨b1.trans a1, b2.trans a2, b3.trans a3, b4.trans a4⟩

/-- a view of a coherent object: the object stays coherent, keeps its representation, and the answer is `expected` -/
def ViewOk (s : ComplexS.Self) (v : View) (expected : Ans) : Prop :=
  PCoh (pyQuery s v).1 ∧ SameRepS s (pyQuery s v).1 ∧ (pyQuery s v).2 = expected

/-- what `__init__` leaves is coherent (sequence and structure equally long is what `identifiers` checks) -/
theorem pcoh_init (seq : List String) (sst : List Char) (name : String) (turns : Int) (h : seq.length = sst.length)
    (ht : 0 ≤ turns) : PCoh (py_ComplexS_init seq sst name turns) := by
  refine ⟨h, ht, ?_, ?_, ?_, ?_, ?_⟩ <;> intro _ h' <;> cases h'

end Dsd.PyObj
