/-
Malformed PIL statements (C13, negative clause): a dispatcher for `pil_stmt`.  Every alternative of `pil_stmt` but
the kernel statement starts with a keyword; `No_stmt_kw`: on a text that starts with the keyword `K`, the statement
fails when the tails of the alternatives with this keyword fail after it and the kernel alternative fails;
`No_stmt_name`: on a text that starts with a name that is no keyword, it fails when the kernel alternative fails;
`No_stmt_nonident`: a statement cannot start with a character that is no identifier character.
-/
import DsdVerif.Lemmas.PilRejectDoc
import DsdVerif.Lemmas.PilReject

namespace Dsd.Pil
open Dsd.PP Dsd.Gen

abbrev K_sequence : List Char := ['s', 'e', 'q', 'u', 'e', 'n', 'c', 'e']
abbrev K_length : List Char := ['l', 'e', 'n', 'g', 't', 'h']
abbrev K_domain : List Char := ['d', 'o', 'm', 'a', 'i', 'n']
abbrev K_supseq : List Char := ['s', 'u', 'p', '-', 's', 'e', 'q', 'u', 'e', 'n', 'c', 'e']
abbrev K_strand : List Char := ['s', 't', 'r', 'a', 'n', 'd']
abbrev K_complex : List Char := ['c', 'o', 'm', 'p', 'l', 'e', 'x']
abbrev K_structure : List Char := ['s', 't', 'r', 'u', 'c', 't', 'u', 'r', 'e']
abbrev K_kinetic : List Char := ['k', 'i', 'n', 'e', 't', 'i', 'c']
abbrev K_reaction : List Char := ['r', 'e', 'a', 'c', 't', 'i', 'o', 'n']
abbrev K_state : List Char := ['s', 't', 'a', 't', 'e']
abbrev K_macrostate : List Char := ['m', 'a', 'c', 'r', 'o', 's', 't', 'a', 't', 'e']

/-- the statement keywords of the PIL grammar -/
abbrev keywords : List (List Char) :=
  [K_sequence, K_length, K_domain, K_supseq, K_strand, K_complex, K_structure, K_kinetic, K_reaction, K_state,
    K_macrostate]

/-- a statement alternative: `Group(tag + Suppress(Keyword K) + L…)` -/
def kwStmt (T : String) (K : List Char) (L : List G) : G :=
  .group (.tag T (.seq (.suppress (.kw K identChars) :: L)))

def tlSl : List G :=
  [pil_domain, .suppress pil_assign, pil_constraint, .opt (.seq [.suppress pil_assign, pil_number]), eolG]
def tlDl : List G := [pil_domain, .suppress pil_assign, pil_dlength, eolG]
def tlComp : List G :=
  [pil_identifier, .suppress pil_assign, .group (.many1 pil_domain), .opt (.seq [.suppress pil_assign, pil_number]),
    eolG]
def tlComplex : List G :=
  [pil_identifier, .suppress pil_assign, .opt (.suppress .lineEnd), .group (.many1 pil_domain),
    .opt (.suppress .lineEnd), pil_dotbracket, eolG]
def tlStruct : List G :=
  [pil_identifier, .suppress pil_assign, .group (.many1 (.alt [pil_domain, .suppress (.lit ['+'])])),
    .suppress pil_assign, pil_dotbracket, eolG]
def tlRx : List G :=
  [.group (.opt pil_infobox), .group pil_species, .suppress (.lit ['-', '>']), .group pil_species, eolG]
def tlRest : List G :=
  [pil_identifier, .suppress (.lit ['=']), .suppress (.lit ['[']),
    .group (.seq [pil_identifier, .many (.seq [.suppress (.lit [',']), pil_identifier])]), .suppress (.lit [']']), eolG]

theorem pil_stmt_eq : pil_stmt = .alt [kwStmt "sl-domain" K_sequence tlSl,
    .alt [kwStmt "dl-domain" K_length tlDl, kwStmt "dl-domain" K_domain tlDl, kwStmt "dl-domain" K_sequence tlDl],
    kwStmt "composite-domain" K_supseq tlComp, kwStmt "composite-domain" K_strand tlComp,
    .alt [kwStmt "strand-complex" K_complex tlComplex, kwStmt "strand-complex" K_structure tlStruct],
    .alt [kwStmt "reaction" K_kinetic tlRx, kwStmt "reaction" K_reaction tlRx],
    pil_cplx,
    .alt [kwStmt "resting-macrostate" K_state tlRest, kwStmt "resting-macrostate" K_macrostate tlRest]] := rfl

/-- the tails of the alternatives that start with the keyword `K` -/
def tailsOf (K : List Char) : List (List G) :=
  (if K = K_sequence then [tlSl] else []) ++
  (if K = K_length ∨ K = K_domain ∨ K = K_sequence then [tlDl] else []) ++
  (if K = K_supseq ∨ K = K_strand then [tlComp] else []) ++
  (if K = K_complex then [tlComplex] else []) ++
  (if K = K_structure then [tlStruct] else []) ++
  (if K = K_kinetic ∨ K = K_reaction then [tlRx] else []) ++
  (if K = K_state ∨ K = K_macrostate then [tlRest] else [])

/-! ### keywords do not match each other -/

/-- the two strings differ at a position both have -/
def mism : List Char → List Char → Bool
  | a :: as, b :: bs => if a = b then mism as bs else true
  | _, _ => false

theorem strip_none_of_mism (K' K X : List Char) (h : mism K' K = true) : stripPrefix K' (K ++ X) = none := by
  induction K' generalizing K with
  | nil => simp [mism] at h
  | cons a as ih =>
    cases K with
    | nil => simp [mism] at h
    | cons b bs =>
      simp only [mism] at h
      simp only [List.cons_append, stripPrefix]
      split
      · rename_i e
        rw [if_pos e] at h
        exact ih bs h
      · rfl

theorem kw_mism : ∀ K ∈ keywords, ∀ K' ∈ keywords, K' ≠ K → mism K' K = true := by decide

theorem kw_ident : ∀ K ∈ keywords, ∀ c ∈ K, identChars.contains c = true := by decide

theorem kw_head {K : List Char} (hK : K ∈ keywords) :
    ∃ c ks, K = c :: ks ∧ isWs c = false ∧ c ≠ '#' ∧ c ≠ '\n' ∧ c ∈ identChars := by
  simp only [List.mem_cons, List.not_mem_nil, or_false] at hK
  rcases hK with rfl | rfl | rfl | rfl | rfl | rfl | rfl | rfl | rfl | rfl | rfl <;>
    exact ⟨_, _, rfl, by decide, by decide, by decide, by decide⟩

theorem skipIgn_kw {K : List Char} (hK : K ∈ keywords) (X : List Char) : skipIgn (K ++ X) = K ++ X := by
  obtain ⟨c, ks, rfl, h1, h2, _⟩ := kw_head hK
  exact skipIgn_cons c _ h1 h2

/-- an alternative with the keyword `K'` on a text that starts with the keyword `K` -/
theorem No_kwStmt (T : String) (K' : List Char) (L : List G) (K X : List Char) (hK : K ∈ keywords)
    (hK' : K' ∈ keywords) (hX : OutHd (fun x => x ∉ identChars) X) (N : Nat)
    (hsame : K' = K → NoSeq pil_env N {} L { rest := X, past := false }) :
    No pil_env (N + 8) {} (kwStmt T K' L) { rest := K ++ X, past := false } := by
  unfold kwStmt
  by_cases e : K' = K
  · subst e
    obtain ⟨c, ks, rfl, h1, h2, _⟩ := kw_head hK
    have hk := Ok_kw pil_env c ks X h1 h2 hX
    exact (No_group (No_tag (No_seq (NoSeq_tail hk (hsame rfl))))).mono (by omega)
  · exact (No_gts pil_env T K' L _ (by
      rw [skipIgn_kw hK]; exact strip_none_of_mism K' K X (kw_mism K hK K' hK' e))).mono (by omega)

/-- **a text that starts with a keyword**: the statement fails when the tails of the alternatives with this keyword
    fail behind it, and the kernel-statement alternative fails -/
theorem No_stmt_kw (K X : List Char) (hK : K ∈ keywords) (hX : OutHd (fun x => x ∉ identChars) X) (N : Nat)
    (htails : ∀ L ∈ tailsOf K, NoSeq pil_env N {} L { rest := X, past := false })
    (hcplx : No pil_env N {} pil_cplx { rest := K ++ X, past := false }) :
    No pil_env (N + 20) {} pil_stmt { rest := K ++ X, past := false } := by
  rw [pil_stmt_eq]
  have a : ∀ (T : String) (K' : List Char) (L : List G), K' ∈ keywords → (K' = K → L ∈ tailsOf K) →
      No pil_env (N + 8) {} (kwStmt T K' L) { rest := K ++ X, past := false } :=
    fun T K' L hK' hmem => No_kwStmt T K' L K X hK hK' hX N (fun e => htails L (hmem e))
  have e := NoAlt_nil pil_env {} { rest := K ++ X, past := false }
  refine (No_alt (NoAlt_cons (a _ K_sequence tlSl (by decide) (by intro e; subst e; simp [tailsOf]))
    (NoAlt_cons (No_alt (NoAlt_cons (a _ K_length tlDl (by decide) (by intro e; subst e; simp [tailsOf]))
      (NoAlt_cons (a _ K_domain tlDl (by decide) (by intro e; subst e; simp [tailsOf]))
      (NoAlt_cons (a _ K_sequence tlDl (by decide) (by intro e; subst e; simp [tailsOf])) e))))
    (NoAlt_cons (a _ K_supseq tlComp (by decide) (by intro e; subst e; simp [tailsOf]))
    (NoAlt_cons (a _ K_strand tlComp (by decide) (by intro e; subst e; simp [tailsOf]))
    (NoAlt_cons (No_alt (NoAlt_cons (a _ K_complex tlComplex (by decide) (by intro e; subst e; simp [tailsOf]))
      (NoAlt_cons (a _ K_structure tlStruct (by decide) (by intro e; subst e; simp [tailsOf])) e)))
    (NoAlt_cons (No_alt (NoAlt_cons (a _ K_kinetic tlRx (by decide) (by intro e; subst e; simp [tailsOf]))
      (NoAlt_cons (a _ K_reaction tlRx (by decide) (by intro e; subst e; simp [tailsOf])) e)))
    (NoAlt_cons hcplx
    (NoAlt_cons (No_alt (NoAlt_cons (a _ K_state tlRest (by decide) (by intro e; subst e; simp [tailsOf]))
      (NoAlt_cons (a _ K_macrostate tlRest (by decide) (by intro e; subst e; simp [tailsOf])) e)))
    e))))))))).mono (by omega)

/-! ### the kernel-statement alternative without `=` -/

/-- `pil_cplx` fails when the name is not followed by `=` -/
theorem No_cplx_noeq (nc : Char) (m X : List Char) (hnc : nc ∈ identChars) (hm : ∀ x ∈ m, x ∈ identChars)
    (hX : OutHd (fun x => x ∉ identChars) X) (hne : stripPrefix ['='] (skipIgn X) = none) :
    No pil_env 8 {} pil_cplx { rest := nc :: m ++ X, past := false } := by
  unfold pil_cplx pil_identifier
  have w : Ok pil_env 1 {} (.word identChars identChars) { rest := nc :: m ++ X, past := false }
      ({ rest := X, past := false }, [.tok (String.ofList (nc :: m))]) := by
    have := Ok_class pil_env identChars 0 nc m X (fun x hx => hx) hnc hm hX
    simpa using this
  have l : No pil_env 2 {} (.suppress (.lit ['='])) { rest := X, past := false } :=
    No_suppress (No_lit pil_env {} _ _ (by rw [pre_skip]; exact hne))
  exact (No_group (No_tag (t := "kernel-complex") (No_seq (NoSeq_tail w (NoSeq_head
    (gs := [.many1 (.group (.ref "pattern")), .opt pil_conc, .many1 (.suppress .lineEnd)]) l))))).mono (by decide)

/-- … in particular when the next significant character is not `=` -/
theorem strip_eq_none (n : Nat) (c : Char) (t : List Char) (h1 : isWs c = false) (h2 : c ≠ '#') (h3 : c ≠ '=') :
    stripPrefix ['='] (skipIgn (List.replicate n ' ' ++ c :: t)) = none := by
  rw [skipIgn_blanks_cons n c t h1 h2]
  simp [stripPrefix, Ne.symm h3]

/-! ### a name that is no keyword -/

theorem No_kw_name (K name X : List Char) (hK : K ∈ keywords) (hname : name ≠ [] ∧ ∀ c ∈ name, c ∈ identChars)
    (hne : name ≠ K) (hX : OutHd (fun x => x ∉ identChars) X) :
    No pil_env 2 {} (.suppress (.kw K identChars)) { rest := name ++ X, past := false } := by
  obtain ⟨nc, m, rfl⟩ : ∃ nc m, name = nc :: m := by
    cases name with
    | nil => exact absurd rfl hname.1
    | cons nc m => exact ⟨nc, m, rfl⟩
  have hcf := ident_facts nc (hname.2 nc List.mem_cons_self)
  have hpre : (pre {} { rest := nc :: m ++ X, past := false }).rest = nc :: m ++ X := by
    rw [pre_skip]; exact skipIgn_cons nc _ hcf.1 hcf.2.1
  have hXc : ∀ c r, X = c :: r → identChars.contains c = false := by
    intro c r e; subst e
    have := hX c rfl
    simpa using this
  have hnm : ∀ c ∈ nc :: m, identChars.contains c = true := fun c hc => by simpa using hname.2 c hc
  apply No_suppress
  cases hs : stripPrefix K (nc :: m ++ X) with
  | none => exact (No_keyword pil_env {} K identChars _ (by rw [hpre]; exact hs)).mono (by decide)
  | some rest =>
    have e := stripPrefix_some K _ rest hs
    cases rest with
    | nil =>
      have := class_prefix_unique identChars (nc :: m) K X [] hnm (kw_ident K hK) hXc
        (by intro c r e'; cases e') e
      exact absurd this.1 hne
    | cons c r =>
      by_cases hc : c ∈ identChars
      · exact (No_keyword_ident pil_env {} K identChars _ c r (by rw [hpre]; exact e) hc).mono (by decide)
      · have := class_prefix_unique identChars (nc :: m) K X (c :: r) hnm (kw_ident K hK) hXc
          (by intro c' r' e'; cases e'; simpa using hc) e
        exact absurd this.1 hne

/-- **a text that starts with a name that is no keyword**: only the kernel-statement alternative can match -/
theorem No_stmt_name (name X : List Char) (hname : name ≠ [] ∧ ∀ c ∈ name, c ∈ identChars)
    (hnk : name ∉ keywords) (hX : OutHd (fun x => x ∉ identChars) X) (N : Nat)
    (hcplx : No pil_env N {} pil_cplx { rest := name ++ X, past := false }) :
    No pil_env (N + 20) {} pil_stmt { rest := name ++ X, past := false } := by
  rw [pil_stmt_eq]
  have a : ∀ (T : String) (K' : List Char) (L : List G), K' ∈ keywords →
      No pil_env 6 {} (kwStmt T K' L) { rest := name ++ X, past := false } := by
    intro T K' L hK'
    unfold kwStmt
    exact (No_group (No_tag (No_seq (NoSeq_head (No_kw_name K' name X hK' hname
      (fun e => hnk (e ▸ hK')) hX))))).mono (by decide)
  have e := NoAlt_nil pil_env {} { rest := name ++ X, past := false }
  refine (No_alt (NoAlt_cons (a _ K_sequence tlSl (by decide))
    (NoAlt_cons (No_alt (NoAlt_cons (a _ K_length tlDl (by decide))
      (NoAlt_cons (a _ K_domain tlDl (by decide)) (NoAlt_cons (a _ K_sequence tlDl (by decide)) e))))
    (NoAlt_cons (a _ K_supseq tlComp (by decide))
    (NoAlt_cons (a _ K_strand tlComp (by decide))
    (NoAlt_cons (No_alt (NoAlt_cons (a _ K_complex tlComplex (by decide))
      (NoAlt_cons (a _ K_structure tlStruct (by decide)) e)))
    (NoAlt_cons (No_alt (NoAlt_cons (a _ K_kinetic tlRx (by decide))
      (NoAlt_cons (a _ K_reaction tlRx (by decide)) e)))
    (NoAlt_cons hcplx
    (NoAlt_cons (No_alt (NoAlt_cons (a _ K_state tlRest (by decide))
      (NoAlt_cons (a _ K_macrostate tlRest (by decide)) e)))
    e))))))))).mono (by omega)

/-! ### a statement starts with an identifier character -/

theorem No_stmt_nonident (c : Char) (r : List Char) (h1 : isWs c = false) (h2 : c ≠ '#') (h3 : c ∉ identChars) :
    No pil_env 30 {} pil_stmt { rest := c :: r, past := false } := by
  rw [pil_stmt_eq]
  have hsk : skipIgn (c :: r) = c :: r := skipIgn_cons c r h1 h2
  have a : ∀ (T : String) (K' : List Char) (L : List G), K' ∈ keywords →
      No pil_env 6 {} (kwStmt T K' L) { rest := c :: r, past := false } := by
    intro T K' L hK'
    obtain ⟨k, ks, rfl, _, _, _, hk⟩ := kw_head hK'
    refine No_gts pil_env T (k :: ks) L _ ?_
    show stripPrefix (k :: ks) (skipIgn (c :: r)) = none
    rw [hsk]
    have : k ≠ c := fun e => h3 (e ▸ hk)
    simp [stripPrefix, this]
  have hcx : No pil_env 6 {} pil_cplx { rest := c :: r, past := false } := by
    unfold pil_cplx pil_identifier
    have w : No pil_env 1 {} (.word identChars identChars) { rest := c :: r, past := false } := by
      have := No_class pil_env identChars 0 c r h3 h1 h2
      simpa using this
    exact (No_group (No_tag (No_seq (NoSeq_head w)))).mono (by decide)
  have e := NoAlt_nil pil_env {} { rest := c :: r, past := false }
  refine (No_alt (NoAlt_cons (a _ K_sequence tlSl (by decide))
    (NoAlt_cons (No_alt (NoAlt_cons (a _ K_length tlDl (by decide))
      (NoAlt_cons (a _ K_domain tlDl (by decide)) (NoAlt_cons (a _ K_sequence tlDl (by decide)) e))))
    (NoAlt_cons (a _ K_supseq tlComp (by decide))
    (NoAlt_cons (a _ K_strand tlComp (by decide))
    (NoAlt_cons (No_alt (NoAlt_cons (a _ K_complex tlComplex (by decide))
      (NoAlt_cons (a _ K_structure tlStruct (by decide)) e)))
    (NoAlt_cons (No_alt (NoAlt_cons (a _ K_kinetic tlRx (by decide))
      (NoAlt_cons (a _ K_reaction tlRx (by decide)) e)))
    (NoAlt_cons hcx
    (NoAlt_cons (No_alt (NoAlt_cons (a _ K_state tlRest (by decide))
      (NoAlt_cons (a _ K_macrostate tlRest (by decide)) e)))
    e))))))))).mono (by decide)

end Dsd.Pil
