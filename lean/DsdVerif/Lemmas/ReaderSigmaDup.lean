/-
End-to-end reading of declared systems (C14, "sigma" theorems), part 10: a second declaration of a registered
complex under a new name is refused with SingletonError.
-/
import DsdVerif.Lemmas.ReaderSigmaKernel

namespace Dsd.Sig
open Dsd Dsd.PP Dsd.RState

/-- a request whose canonical form is registered under another name is refused -/
theorem mkCplx_refused (w : World) (cc : Nat) (hcc : cc < 4) (cobjs : List (Obj CKey))
    (hcp : w.cplxs = setObjs baseCplxs cc cobjs) (seq : List (Option Nat)) (ns : List String)
    (hns : w.seqNames seq = some ns) (sst : List Char) (nm : String) (ids : CplxIds)
    (hids : complexIdentifiers ({ objs := cobjs, autoId := 1 } : Reg CKey) ns sst = .ok ids)
    (h1 : ∀ o ∈ cobjs, o.name ≠ nm) (oc : Obj CKey)
    (h2 : Reg.findCanon ({ objs := cobjs, autoId := 1 } : Reg CKey) ids.canon = some oc) :
    (w.mkCplx cc (some seq) sst (some nm) none).2.1 = .singletonErr (some oc.id) := by
  obtain ⟨cr0, h0, _⟩ := baseCplxs_get cc hcc
  have hget := setObjs_get baseCplxs cc cobjs cr0 h0
  have f1 := findName_none_of ({ objs := cobjs, autoId := 1 } : Reg CKey) nm h1
  have hcall : Reg.call ({ objs := cobjs, autoId := 1 } : Reg CKey) (some ids.canon) (some nm) w.nextId ids.keys false =
      ({ objs := cobjs, autoId := 1 }, .singletonErr (some oc.id)) := by
    simp [Reg.call, Reg.decide, f1, h2]
  unfold World.mkCplx
  simp only [Option.map_some, hns, Option.getD_some, hcp, hget, effId_cplxs cc hcc, complexRequest, hids,
    Option.isNone_some, hcall]

theorem readLine_scplx_refused (s : RState) (sl : Slots) (nm : String) (strands : List String) (sst : List Char)
    (hsst : ∀ c ∈ sst, c ≠ ' ') (st : List (List Nat)) (hst : st ≠ [])
    (h1 : readLine.collect sl s strands = (s, .ok st)) (e : Option Nat)
    (h2 : (s.w.mkCplx sl.cplx (some (joinWith none (st.map (fun ds => ds.map some)))) sst (some nm) none).2.1 =
      .singletonErr e) :
    ∃ s1, s.readLine sl (scplxLine nm strands sst) = (s1, .error .singleton) := by
  have hfil : (String.ofList sst).toList.filter (· != ' ') = sst := by
    rw [String.toList_ofList, List.filter_eq_self]
    intro c hc; simpa using hsst c hc
  unfold scplxLine readLine
  simp only [tokList_map_tok, h1, hfil]
  cases st with
  | nil => exact absurd rfl hst
  | cons a as =>
    generalize hm : s.w.mkCplx sl.cplx (some (joinWith none ((a :: as).map (fun ds => ds.map some)))) sst (some nm) none
      = M at h2
    obtain ⟨w', out, x⟩ := M
    simp only at h2
    subst h2
    exact ⟨_, rfl⟩

theorem readDoc_last_error (s : RState) (sl : Slots) (before : List Nat) (line : List Tree) (d : RDict) (s1 : RState)
    (e : RErr) (h : s.readLine sl line = (s1, .error e)) :
    s.readDoc sl [] before [.grp line] d = (s1.keepOnly before {}, .error e) := by
  unfold readDoc
  simp only [kind_not_ignored, Bool.false_eq_true, if_false, h]

/-- **declaring a rotation of a registered complex under a fresh name is a SingletonError** -/
theorem dup_refused (sl : Slots) (hcd : sl.dom < 4) (hcs : sl.strand < 4) (hcc : sl.cplx < 4) (ds : List Decl)
    (hsys : Sys ds) (ss : List SDecl) (hss : SSys ds ss) (cds : List CDecl) (hcsys : CSys ds ss cds) (c : CDecl)
    (hstr : c.strands ≠ [] ∧ ∀ n ∈ c.strands, n ∈ ss.map (·.1))
    (hd : Rot.Descr' (c.spec ds ss).ns c.sst) (hname : ∀ a ∈ cds, a.name ≠ c.name)
    (a : CDecl) (ha : a ∈ cds)
    (hrot : ((c.spec ds ss).ns, c.sst) ∈ Rot.orb (Rot.nStr (a.spec ds ss).ns) (a.spec ds ss).ns a.sst) :
    ∃ s', ({} : RState).readDoc sl [] [] (doc ds ++ (sdoc ss ++ (cdoc cds ++ [.grp (scplxLine c.name c.strands c.sst)]))) {} =
      (s', .error .singleton) := by
  -- read the consistent part
  have h1 := readDoc_decls_tail sl hcd sl.strand hcs
    (sdoc ss ++ (cdoc cds ++ [.grp (scplxLine c.name c.strands c.sst)])) ds [] (by simpa using hsys)
  have hS : S sl.dom sl.strand [] = {} := by
    unfold S
    have : P sl.dom sl.strand [] = { cd := sl.dom, cs := sl.strand } := rfl
    rw [this, world_empty sl.dom sl.strand hcd hcs]
    rfl
  have hD : D [] = {} := rfl
  rw [hS, hD] at h1
  simp only [List.nil_append] at h1
  rw [h1, ← S3_nil, ← D3_nil]
  have h2 := readDoc_strands_tail sl hcd hcs ds hsys (cdoc cds ++ [.grp (scplxLine c.name c.strands c.sst)]) ss []
    (by simpa using hss)
  simp only [List.nil_append] at h2
  rw [h2, ← S4_nil sl.dom sl.strand sl.cplx hcc, ← D4_nil]
  have h3 := readDoc_cplxs_tail sl hcd hcs hcc ds hsys ss hss [] [.grp (scplxLine c.name c.strands c.sst)] cds []
    (by simpa using hcsys)
  simp only [List.nil_append, List.map_nil] at h3
  rw [h3]
  -- the offending line
  have hcol := collect_same (S4 sl.dom sl.strand sl.cplx ds ss (cds.map (CDecl.spec ds ss)) []) sl
    (fun n => idsOf ds (contentOf ss n)) c.strands
    (fun n hn => strandDomains_S4 sl hcs ds ss hss.names _ [] n (hstr.2 n hn))
  have hns : (P4 sl.dom sl.strand sl.cplx ds ss (cds.map (CDecl.spec ds ss))).world.seqNames (c.spec ds ss).seq =
      some (c.spec ds ss).ns := by
    have := seqNames_joinWith (P4 sl.dom sl.strand sl.cplx ds ss (cds.map (CDecl.spec ds ss))).world sl.dom
      (resolveId ds) (c.strands.map (contentOf ss))
      (by
        intro ct hct n hn
        obtain ⟨sn, hsn, rfl⟩ := List.mem_map.mp hct
        obtain ⟨p, hp, rfl⟩ := List.mem_map.mp (hstr.2 sn hsn)
        obtain ⟨j, hj⟩ := List.getElem?_of_mem hp
        rw [contentOf_get ss hss.names j p hj] at hn
        exact domObj_S4 sl.dom sl.strand sl.cplx hcd ds hsys ss _ n ((hss.content p hp) n hn).2)
    rw [List.map_map] at this
    exact this
  -- the identifiers stop at a registered rotation
  have hself := Rot.self_mem_orb (c.spec ds ss).ns c.sst hd
  obtain ⟨ja, hja⟩ := List.getElem?_of_mem ha
  have hamem : newCplx (base4 ds ss + ja) a.name (cIds (a.spec ds ss).ns a.sst) ∈
      cObjs (base4 ds ss) (cds.map (CDecl.spec ds ss)) := by
    rw [cObjs, mem_zipIdx_map]
    exact ⟨ja, a.spec ds ss, by simp [hja], rfl⟩
  have hreg : (Reg.findCanon ({ objs := cObjs (base4 ds ss) (cds.map (CDecl.spec ds ss)), autoId := 1 } : Reg CKey)
      ((c.spec ds ss).ns, c.sst)).isSome = true := by
    unfold Reg.findCanon
    rw [List.find?_isSome]
    refine ⟨_, hamem, ?_⟩
    simp only [newCplx, cIds, List.contains_eq_mem, decide_eq_true_eq]
    exact List.mem_eraseDups.mpr hrot
  obtain ⟨ids, hids, hsome⟩ : ∃ ids, complexIdentifiers
      ({ objs := cObjs (base4 ds ss) (cds.map (CDecl.spec ds ss)), autoId := 1 } : Reg CKey) (c.spec ds ss).ns c.sst =
        .ok ids ∧ (Reg.findCanon ({ objs := cObjs (base4 ds ss) (cds.map (CDecl.spec ds ss)), autoId := 1 } : Reg CKey)
          ids.canon).isSome = true := by
    rcases Rot.ids_cases _ (c.spec ds ss).ns c.sst hd with ⟨ids, h1, _, h3⟩ | ⟨hfree, _⟩
    · exact ⟨ids, h1, h3⟩
    · rw [hfree _ hself] at hreg; cases hreg
  obtain ⟨oc, hoc⟩ := Option.isSome_iff_exists.mp hsome
  have hmk := mkCplx_refused (P4 sl.dom sl.strand sl.cplx ds ss (cds.map (CDecl.spec ds ss))).world sl.cplx hcc _ rfl
    (c.spec ds ss).seq (c.spec ds ss).ns hns c.sst c.name ids hids
    (by
      intro o ho
      obtain ⟨j, c', hj, rfl⟩ := cObjs_mem _ _ o ho
      obtain ⟨x, hx, rfl⟩ := List.mem_map.mp (List.mem_of_getElem? hj)
      exact hname x hx)
    oc hoc
  have hseq : joinWith none ((c.strands.map (fun n => idsOf ds (contentOf ss n))).map (fun ds => ds.map some)) =
      (c.spec ds ss).seq := by
    rw [List.map_map]; rfl
  obtain ⟨s1, hs1⟩ := readLine_scplx_refused (S4 sl.dom sl.strand sl.cplx ds ss (cds.map (CDecl.spec ds ss)) []) sl
    c.name c.strands c.sst
    (by
      intro ch hch e
      have := hd.chars ch hch
      rw [e] at this
      rcases this with h | h | h | h <;> cases h)
    _ (by
      intro e
      have := congrArg List.length e
      simp only [List.length_map, List.length_nil] at this
      exact hstr.1 (List.length_eq_zero_iff.mp this))
    hcol (some oc.id) (by rw [hseq]; exact hmk)
  exact ⟨_, readDoc_last_error _ sl [] _ _ s1 _ hs1⟩

end Dsd.Sig
