/-
(c) complete for the requests that `identifiers` itself makes (a name, maybe a length; no prefix, no dtype): one theorem for every such
request under `RelatedF`, with the freshness of `tmp` afterwards - what the induction on the nesting depth consumes.
-/
import DsdVerif.Lemmas.PyDomainEqFresh2

namespace Dsd.PyDomainEq
open Dsd Dsd.Gen Dsd.PySingletonL

theorem identifiers_eq_tail (nested : Reg DKey → DomReq → Reg DKey × Out) (cfg : DomCfg) (r : Reg DKey) (n : String) (hne : n ≠ "")
    (l : Option Nat) :
    DomFull.identifiers nested cfg r { name := some n, length := l } = DomFull.identTail nested r n l := by
  have hemp : n.isEmpty = false := by simpa using hne
  unfold DomFull.identifiers DomFull.lengthArg
  cases l <;> simp [hemp]

/-- the empty name: `name[-1]` raises IndexError, in the code and in the model; nothing changes -/
theorem identifiers_empty_name (request : Py.Dom.Req → Py.Dom.M Nat) (nested : Reg DKey → DomReq → Reg DKey × Out) (tmp : Nat)
    (s : Py.Dom.Cls) (r : Reg DKey) (cfg : DomCfg) (l : Option Nat) :
    DomFull.identifiers nested cfg r { name := some "", length := l } = (r, .error (.fault "IndexError")) ∧
    (py_DomainS_identifiers request tmp cfg.cutoff cfg.shortLen cfg.longLen cfg.prefix_ (some "") l none none).exec s =
      (.error (.fault "IndexError"), s) := by
  have hs : Py.strLast "" = .error (.fault "IndexError") := by decide
  have hd1 : ((none : Option String) == some "short") = false := rfl
  have hd2 : ((none : Option String) == some "long") = false := rfl
  constructor
  · unfold DomFull.identifiers DomFull.lengthArg
    cases l <;> simp
  · unfold py_DomainS_identifiers
    cases l <;>
      simp only [exec_ite, exec_bind, exec_get, exec_pure, exec_throw, exec_lift, Py.unwrap, Py.Dom.truthyOS, Option.isNone_none,
        Option.isNone_some, if_true, if_false, Bool.false_eq_true, pure_ok, hs, hd1, hd2]

/-- **(c) for every request `identifiers` itself makes**: under `RelatedF` and with `tmp` free, the translated `identifiers` and the
    model's correspond (class afterwards represents the registry afterwards, results correspond) and `tmp` is free again -/
theorem identifiers_named_F (request : Py.Dom.Req → Py.Dom.M Nat) (nested : Reg DKey → DomReq → Reg DKey × Out) (tmp : Nat)
    (hrel : RelatedF request nested tmp) (s : Py.Dom.Cls) (r : Reg DKey) (h : RepX s r) (hf : Fresh r tmp) (cfg : DomCfg)
    (n : String) (l : Option Nat) :
    ∃ s', RepX s' (DomFull.identifiers nested cfg r { name := some n, length := l }).1 ∧
      (py_DomainS_identifiers request tmp cfg.cutoff cfg.shortLen cfg.longLen cfg.prefix_ (some n) l none none).exec s =
        (toIdents (DomFull.identifiers nested cfg r { name := some n, length := l }).2, s') ∧
      Fresh (DomFull.identifiers nested cfg r { name := some n, length := l }).1 tmp := by
  by_cases hne : n = ""
  · subst hne
    obtain ⟨h1, h2⟩ := identifiers_empty_name request nested tmp s r cfg l
    rw [h1]
    exact ⟨s, h, h2, hf⟩
  · have hfr : Fresh (DomFull.identifiers nested cfg r { name := some n, length := l }).1 tmp := by
      rw [identifiers_eq_tail nested cfg r n hne l]
      exact identTail_fresh request nested tmp hrel r hf n l
    cases l with
    | none =>
      by_cases hst : isStarred n = true
      · obtain ⟨s', h1, h2⟩ := identifiers_starred_nolength_F request nested tmp hrel s r h hf cfg n hne hst none
        exact ⟨s', h1, h2, hfr⟩
      · have hst' : isStarred n = false := by simpa using hst
        obtain ⟨h1, h2⟩ := identifiers_plain_name request nested tmp s r cfg n hne hst' none
        exact ⟨s, by rw [h1]; exact h, h2, hfr⟩
    | some len =>
      by_cases hst : isStarred n = true
      · obtain ⟨s', h1, h2⟩ := identifiers_starred_length_F request nested tmp hrel s r h hf cfg n hne hst len none
        exact ⟨s', h1, h2, hfr⟩
      · have hst' : isStarred n = false := by simpa using hst
        obtain ⟨s', h1, h2⟩ := identifiers_unstarred_length_F request nested tmp hrel s r h hf cfg n hne hst' len none
        exact ⟨s', h1, h2, hfr⟩

end Dsd.PyDomainEq
