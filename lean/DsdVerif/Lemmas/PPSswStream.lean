/-
Token streams for the seesaw grammar (C19): a statement is a list of tokens, each preceded by any number of blanks.
`txt S R` is the text of the stream `S` in front of the continuation `R`; `Comp env g toks ts F b` says that the
grammar `g` consumes ANY stream with the tokens `toks` — whatever the blank counts — and yields the trees `ts`,
provided the continuation satisfies `F` (`Brk`: it starts with a character that ends a number / an identifier).
`FailOn env g toks b`: `g` fails on every stream with these tokens.  These statements compose through the grammar
constructors, so that "blanks at EVERY token boundary" needs one lemma per grammar node.
-/
import DsdVerif.Lemmas.PPSswStmts

namespace Dsd.PP.Ssw
open Dsd.PP Dsd.Gen

variable {env : Env}

/-- a token stream: every token with the number of blanks in front of it -/
abbrev Stream := List (Nat × List Char)

/-- the text of a stream in front of `R` -/
def txt : Stream → List Char → List Char
  | [], R => R
  | (k, t) :: S, R => bl k ++ (t ++ txt S R)

theorem txt_append (S1 S2 : Stream) (R : List Char) : txt (S1 ++ S2) R = txt S1 (txt S2 R) := by
  induction S1 with
  | nil => rfl
  | cons x S ih => obtain ⟨k, t⟩ := x; simp only [List.cons_append, txt, ih]

theorem txt_rest (S : Stream) (R : List Char) : txt S [] ++ R = txt S R := by
  induction S with
  | nil => rfl
  | cons x S ih => obtain ⟨k, t⟩ := x; simp only [txt, List.append_assoc, ih]

theorem length_le_txt (S : Stream) (R : List Char) (h : ∀ x ∈ S, x.2 ≠ []) : S.length + R.length ≤ (txt S R).length := by
  induction S with
  | nil => simp [txt]
  | cons x S ih =>
    obtain ⟨k, t⟩ := x
    have h1 : t ≠ [] := h (k, t) List.mem_cons_self
    have h2 := ih (fun y hy => h y (List.mem_cons_of_mem _ hy))
    have : 0 < t.length := List.length_pos_iff.mpr h1
    simp only [txt, List.length_append, List.length_cons, List.length_replicate]
    omega

theorem notab_txt (S : Stream) (R : List Char) (h : ∀ x ∈ S, '\t' ∉ x.2) (hR : '\t' ∉ R) : '\t' ∉ txt S R := by
  induction S with
  | nil => exact hR
  | cons x S ih =>
    obtain ⟨k, t⟩ := x
    have h1 : '\t' ∉ t := h (k, t) List.mem_cons_self
    have h2 := ih (fun y hy => h y (List.mem_cons_of_mem _ hy))
    simp only [txt, List.mem_append, List.mem_replicate, not_or]
    exact ⟨fun ⟨_, e⟩ => absurd e (by decide), h1, h2⟩

/-! ### the tokens of a stream -/

theorem map_snd_nil {S : Stream} (h : S.map Prod.snd = []) : S = [] := by simpa using h

theorem map_snd_cons {S : Stream} {t : List Char} {ts : List (List Char)} (h : S.map Prod.snd = t :: ts) :
    ∃ k S', S = (k, t) :: S' ∧ S'.map Prod.snd = ts := by
  cases S with
  | nil => simp at h
  | cons x S' =>
    obtain ⟨k, t'⟩ := x
    simp only [List.map_cons, List.cons.injEq] at h
    obtain ⟨rfl, h2⟩ := h
    exact ⟨k, S', rfl, h2⟩

theorem map_snd_single {S : Stream} {t : List Char} (h : S.map Prod.snd = [t]) : ∃ k, S = [(k, t)] := by
  obtain ⟨k, S', rfl, h2⟩ := map_snd_cons h
  rw [map_snd_nil h2]
  exact ⟨k, rfl⟩

theorem map_snd_append {S : Stream} {a b : List (List Char)} (h : S.map Prod.snd = a ++ b) :
    ∃ S1 S2, S = S1 ++ S2 ∧ S1.map Prod.snd = a ∧ S2.map Prod.snd = b := List.map_eq_append_iff.mp h

/-! ### characters that end a number / an identifier -/

/-- neither a digit, nor an identifier character, nor the decimal point -/
def brkCh (c : Char) : Bool := !pp_nums.contains c && !(pp_alphanums ++ ['_', '-']).contains c && c != '.'

/-- the continuation starts with a character that ends a number, an identifier and a decimal / scientific number -/
def Brk (R : List Char) : Prop := ∃ c r, R = c :: r ∧ brkCh c = true

/-- no condition on the continuation -/
def Any : List Char → Prop := fun _ => True

theorem brkCh_facts {c : Char} (h : brkCh c = true) :
    pp_nums.contains c = false ∧ (pp_alphanums ++ ['_', '-']).contains c = false ∧ '.' ≠ c ∧ 'e' ≠ c := by
  simp only [brkCh, Bool.and_eq_true, Bool.not_eq_true', bne_iff_ne, ne_eq] at h
  obtain ⟨⟨h1, h2⟩, h3⟩ := h
  refine ⟨h1, h2, fun e => h3 e.symm, ?_⟩
  intro e; subst e
  exact absurd h2 (by decide)

theorem brk_bl (k : Nat) (c : Char) (r : List Char) (h : brkCh c = true) : Brk (bl k ++ c :: r) := by
  cases k with
  | zero => exact ⟨c, r, rfl, h⟩
  | succ k => exact ⟨' ', bl k ++ c :: r, by simp [List.replicate_succ], by decide⟩

theorem pre_bl_cons (k : Nat) (c : Char) (r : List Char) (h : isWs c = false) (h2 : c ≠ '#') :
    pre sk (P (bl k ++ c :: r)) = P (c :: r) := by
  simp only [pre, if_true]
  rw [skipIgn_blanks_consE k c r h h2]

/-! ### `Comp`: a grammar consumes the tokens, whatever the blanks -/

def Comp (env : Env) (g : G) (toks : List (List Char)) (ts : List Tree) (F : List Char → Prop) (b : Nat) : Prop :=
  ∀ (S : Stream) (R : List Char), S.map Prod.snd = toks → F R → Ev env sk g (P (txt S R)) (some (P R, ts)) b
def CompSeq (env : Env) (gs : List G) (toks : List (List Char)) (ts : List Tree) (F : List Char → Prop) (b : Nat) : Prop :=
  ∀ (S : Stream) (R : List Char), S.map Prod.snd = toks → F R → EvSeq env sk gs (P (txt S R)) (some (P R, ts)) b
def CompAlt (env : Env) (gs : List G) (toks : List (List Char)) (ts : List Tree) (F : List Char → Prop) (b : Nat) : Prop :=
  ∀ (S : Stream) (R : List Char), S.map Prod.snd = toks → F R → EvAlt env sk gs (P (txt S R)) (some (P R, ts)) b

def FailOn (env : Env) (g : G) (toks : List (List Char)) (b : Nat) : Prop :=
  ∀ (S : Stream) (R : List Char), S.map Prod.snd = toks → Ev env sk g (P (txt S R)) none b
def FailOnSeq (env : Env) (gs : List G) (toks : List (List Char)) (b : Nat) : Prop :=
  ∀ (S : Stream) (R : List Char), S.map Prod.snd = toks → EvSeq env sk gs (P (txt S R)) none b
def FailOnAlt (env : Env) (gs : List G) (toks : List (List Char)) (b : Nat) : Prop :=
  ∀ (S : Stream) (R : List Char), S.map Prod.snd = toks → EvAlt env sk gs (P (txt S R)) none b

/-- what follows the tokens `toks` (in front of a continuation with `F`) satisfies `F1` -/
def Follow (toks : List (List Char)) (F F1 : List Char → Prop) : Prop :=
  ∀ (S : Stream) (R : List Char), S.map Prod.snd = toks → F R → F1 (txt S R)

section
variable {g : G} {gs : List G} {toks toks1 toks2 : List (List Char)} {t : List Char} {ts ts' t1 t2 : List Tree}
  {F F' F1 : List Char → Prop} {b b' b1 b2 : Nat}

theorem Comp.cast (h : Comp env g toks ts F b) (hts : ts = ts') (hb : b ≤ b') : Comp env g toks ts' F b' :=
  fun S R hS hR => (h S R hS hR).cast (by rw [hts]) hb
theorem CompSeq.cast (h : CompSeq env gs toks ts F b) (hts : ts = ts') (hb : b ≤ b') : CompSeq env gs toks ts' F b' :=
  fun S R hS hR => (h S R hS hR).cast (by rw [hts]) hb
theorem Comp.mono (h : Comp env g toks ts F b) (hF : ∀ R, F' R → F R) : Comp env g toks ts F' b :=
  fun S R hS hR => h S R hS (hF R hR)
theorem Comp.brk (h : Comp env g toks ts Any b) : Comp env g toks ts Brk b := h.mono (fun _ _ => trivial)
theorem FailOn.cast (h : FailOn env g toks b) (hb : b ≤ b') : FailOn env g toks b' :=
  fun S R hS => (h S R hS).cast rfl hb

theorem follow_any : Follow toks F Any := fun _ _ _ _ => trivial
theorem follow_nil (h : ∀ R, F R → F1 R) : Follow [] F F1 := by
  intro S R hS hR; rw [map_snd_nil hS]; exact h R hR
theorem follow_brk (c : Char) (s : List Char) (toks : List (List Char)) (hc : brkCh c = true) :
    Follow ((c :: s) :: toks) F Brk := by
  intro S R hS _
  obtain ⟨k, S', rfl, _⟩ := map_snd_cons hS
  exact brk_bl k c (s ++ txt S' R) hc

/-- discharges the `Follow` side conditions -/
macro "fol" : tactic =>
  `(tactic| first | exact follow_any | exact follow_brk _ _ _ (by decide) | exact follow_nil (fun _ h => h))

theorem comps_nil : CompSeq env [] [] [] F 1 := by
  intro S R hS _; rw [map_snd_nil hS]; exact evs_nil

theorem comps_cons (h1 : Comp env g toks1 t1 F1 b1) (h2 : CompSeq env gs toks2 t2 F b2) (hF : Follow toks2 F F1) :
    CompSeq env (g :: gs) (toks1 ++ toks2) (t1 ++ t2) F (max b1 b2 + 1) := by
  intro S R hS hR
  obtain ⟨S1, S2, rfl, hS1, hS2⟩ := map_snd_append hS
  rw [txt_append]
  exact evs_cons (h1 S1 (txt S2 R) hS1 (hF S2 R hS2 hR)) (h2 S2 R hS2 hR)

/-- … with a single-token head -/
theorem comps_cons1 (h1 : Comp env g [t] t1 F1 b1) (h2 : CompSeq env gs toks2 t2 F b2) (hF : Follow toks2 F F1) :
    CompSeq env (g :: gs) (t :: toks2) (t1 ++ t2) F (max b1 b2 + 1) := comps_cons h1 h2 hF

/-- the last element of a sequence -/
theorem comps_single (h : Comp env g toks ts F b) : CompSeq env [g] toks ts F (b + 2) := by
  intro S R hS hR
  have h2 := evs_cons (h S R hS hR) (evs_nil (env := env) (ctx := sk) (p := P R))
  exact h2.cast (by simp) (by omega)

theorem comp_seq (h : CompSeq env gs toks ts F b) : Comp env (.seq gs) toks ts F (b + 1) :=
  fun S R hS hR => ev_seq (h S R hS hR)
theorem comp_group (h : Comp env g toks ts F b) : Comp env (.group g) toks [.grp ts] F (b + 1) :=
  fun S R hS hR => ev_group (h S R hS hR)
theorem comp_suppress (h : Comp env g toks ts F b) : Comp env (.suppress g) toks [] F (b + 1) :=
  fun S R hS hR => ev_suppress (h S R hS hR)

theorem compa_ok (h : Comp env g toks ts F b) : CompAlt env (g :: gs) toks ts F (b + 1) :=
  fun S R hS hR => eva_ok (h S R hS hR)
theorem compa_skip (hf : FailOn env g toks b1) (h : CompAlt env gs toks ts F b2) :
    CompAlt env (g :: gs) toks ts F (max b1 b2 + 1) :=
  fun S R hS hR => eva_skip (hf S R hS) (h S R hS hR)
theorem comp_alt (h : CompAlt env gs toks ts F b) : Comp env (.alt gs) toks ts F (b + 1) :=
  fun S R hS hR => ev_alt (h S R hS hR)

theorem failons_head (h : FailOn env g toks b) : FailOnSeq env (g :: gs) toks (b + 1) :=
  fun S R hS => evs_fail_head (h S R hS)
theorem failons_tail (h1 : Comp env g toks1 t1 Any b1) (h2 : FailOnSeq env gs toks2 b2) :
    FailOnSeq env (g :: gs) (toks1 ++ toks2) (max b1 b2 + 1) := by
  intro S R hS
  obtain ⟨S1, S2, rfl, hS1, hS2⟩ := map_snd_append hS
  rw [txt_append]
  exact evs_fail_tail (h1 S1 (txt S2 R) hS1 trivial) (h2 S2 R hS2)
theorem failons_tail1 (h1 : Comp env g [t] t1 Any b1) (h2 : FailOnSeq env gs toks2 b2) :
    FailOnSeq env (g :: gs) (t :: toks2) (max b1 b2 + 1) := failons_tail h1 h2
theorem failon_seq (h : FailOnSeq env gs toks b) : FailOn env (.seq gs) toks (b + 1) :=
  fun S R hS => ev_seq (h S R hS)
theorem failon_group (h : FailOn env g toks b) : FailOn env (.group g) toks (b + 1) :=
  fun S R hS => ev_group_fail (h S R hS)
theorem failon_suppress (h : FailOn env g toks b) : FailOn env (.suppress g) toks (b + 1) :=
  fun S R hS => ev_suppress_fail (h S R hS)
theorem failona_nil : FailOnAlt env [] toks 0 := fun _ _ _ => eva_nil
theorem failona_cons (h1 : FailOn env g toks b1) (h2 : FailOnAlt env gs toks b2) :
    FailOnAlt env (g :: gs) toks (max b1 b2 + 1) := fun S R hS => eva_skip (h1 S R hS) (h2 S R hS)
theorem failon_alt (h : FailOnAlt env gs toks b) : FailOn env (.alt gs) toks (b + 1) :=
  fun S R hS => ev_alt (h S R hS)

end

/-! ### leaves -/

/-- the token starts with a proper character that satisfies `q` -/
def Hd (t : List Char) (q : Char → Prop) : Prop := ∃ c s, t = c :: s ∧ isWs c = false ∧ c ≠ '#' ∧ q c

theorem hd_mk (c : Char) (s : List Char) (q : Char → Prop) (h1 : isWs c = false) (h2 : c ≠ '#') (h3 : q c) :
    Hd (c :: s) q := ⟨c, s, rfl, h1, h2, h3⟩

theorem hd_dig {t : List Char} (ht : Dig t) (q : Char → Prop) (hq : ∀ c ∈ pp_nums, q c) : Hd t q := by
  obtain ⟨d, ds, rfl, hd, _⟩ := ht.cons
  obtain ⟨w1, w2, _⟩ := nums_facts d hd
  exact ⟨d, ds, rfl, w1, w2, hq d hd⟩

theorem comp_lit (c : Char) (s : List Char) (h : isWs c = false) (h2 : c ≠ '#') :
    Comp env (.lit (c :: s)) [c :: s] [.tok (String.ofList (c :: s))] Any 1 := by
  intro S R hS _
  obtain ⟨k, rfl⟩ := map_snd_single hS
  exact ev_lit k c s R h h2

theorem comp_sup (c : Char) (s : List Char) (h : isWs c = false) (h2 : c ≠ '#') :
    Comp env (.suppress (.lit (c :: s))) [c :: s] [] Any 2 := comp_suppress (comp_lit c s h h2)

theorem failon_lit (a : Char) (s t : List Char) (toks : List (List Char)) (h : Hd t (fun c => a ≠ c)) :
    FailOn env (.lit (a :: s)) (t :: toks) 0 := by
  intro S R hS
  obtain ⟨k, S', rfl, _⟩ := map_snd_cons hS
  obtain ⟨c, s', rfl, h1, h2, h3⟩ := h
  exact ev_lit_failk k a c s (s' ++ txt S' R) h1 h2 h3

theorem failon_number (t : List Char) (toks : List (List Char)) (h : Hd t (fun c => pp_nums.contains c = false)) :
    FailOn env ssw_number (t :: toks) 0 := by
  intro S R hS
  obtain ⟨k, S', rfl, _⟩ := map_snd_cons hS
  obtain ⟨c, s', rfl, h1, h2, h3⟩ := h
  exact ev_number_failk k c (s' ++ txt S' R) h1 h2 h3

/-- a sequence that starts with a literal fails on a token with another first character -/
theorem failon_head (a : Char) (s : List Char) (gs : List G) (t : List Char) (toks : List (List Char))
    (h : Hd t (fun c => a ≠ c)) : FailOn env (.seq (.lit (a :: s) :: gs)) (t :: toks) 2 :=
  failon_seq (failons_head (failon_lit a s t toks h))

theorem comp_number (t : List Char) (ht : Dig t) : Comp env ssw_number [t] [numT t] Brk 1 := by
  intro S R hS hR
  obtain ⟨k, rfl⟩ := map_snd_single hS
  obtain ⟨c, r, rfl, hc⟩ := hR
  exact ev_number k t ht c r (brkCh_facts hc).1

/-- a digit string or `f` -/
def NumOrF (t : List Char) : Prop := Dig t ∨ t = ['f']

theorem comp_numOrF (t : List Char) (ht : NumOrF t) :
    Comp env (.alt [ssw_number, .lit ['f']]) [t] [numT t] Brk 4 := by
  intro S R hS hR
  obtain ⟨k, rfl⟩ := map_snd_single hS
  rcases ht with ht | rfl
  · obtain ⟨c, r, rfl, hc⟩ := hR
    exact (ev_alt (eva_ok (ev_number k t ht c r (brkCh_facts hc).1))).cast rfl (by decide)
  · exact (ev_alt (eva_skip (ev_number_failk k 'f' R (by decide) (by decide) (by decide))
      (eva_ok (ev_lit k 'f' [] R (by decide) (by decide))))).cast rfl (by decide)

/-- a digit string or an identifier -/
def NameTok (t : List Char) : Prop := Dig t ∨ Ident t

theorem comp_name (t : List Char) (ht : NameTok t) : Comp env nameG [t] [.grp [numT t]] Brk 5 := by
  intro S R hS hR
  obtain ⟨k, rfl⟩ := map_snd_single hS
  obtain ⟨c', r, rfl, hc'⟩ := hR
  obtain ⟨f1, f2, _, _⟩ := brkCh_facts hc'
  rcases ht with ht | ht
  · exact (ev_group (ev_alt (eva_ok (ev_number k t ht c' r f1)))).cast rfl (by decide)
  · obtain ⟨c, cs, rfl, hc, hcs⟩ := ht
    obtain ⟨w1, w2, _, w4, w5⟩ := alphas_facts c hc
    have hfail : Ev env sk ssw_number (P (bl k ++ c :: (cs ++ c' :: r))) none 0 := ev_number_failk k c _ w1 w2 w4
    have hid : Ev env sk ssw_identifier (P (bl k ++ c :: (cs ++ c' :: r)))
        (some (P (c' :: r), [numT (c :: cs)])) 1 := by
      unfold ssw_identifier
      apply run_word
      · rw [pre_bl_cons k c _ w1 w2]; rfl
      · exact w5
      · intro x hx; exact (body_facts x (hcs x hx)).2
      · exact f2
    exact (ev_group (ev_alt (eva_skip hfail (eva_ok hid)))).cast rfl (by decide)

/-! ### decimal and scientific numbers -/

/-- the mantissa `v` or `v.w`, with the tokens `Combine` joins -/
inductive Mant : List Char → List String → Prop
  | int (v : List Char) (hv : Dig v) : Mant v [String.ofList v]
  | dec (v w : List Char) (hv : Dig v) (hw : Dig w) : Mant (v ++ '.' :: w) [String.ofList v, ".", String.ofList w]

/-- the optional sign of the exponent -/
inductive Sign : List Char → List String → Prop
  | none : Sign [] []
  | minus : Sign ['-'] ["-"]
  | plus : Sign ['+'] ["+"]

theorem Mant.head {m : List Char} {ss : List String} (h : Mant m ss) : ∃ d ds, m = d :: ds ∧ d ∈ pp_nums := by
  cases h with
  | int v hv => obtain ⟨d, ds, rfl, hd, _⟩ := hv.cons; exact ⟨d, ds, rfl, hd⟩
  | dec v w hv hw => obtain ⟨d, ds, rfl, hd, _⟩ := hv.cons; exact ⟨d, _, rfl, hd⟩

theorem Mant.len {m : List Char} {ss : List String} (h : Mant m ss) : ss.length ≤ 3 := by
  cases h <;> simp

theorem Sign.len {s : List Char} {sg : List String} (h : Sign s sg) : sg.length ≤ 1 := by
  cases h <;> simp

theorem evs_mant {m : List Char} {ss : List String} (hm : Mant m ss) (c : Char) (r : List Char)
    (hc : pp_nums.contains c = false) (hdot : '.' ≠ c) (gs : List G) (p2 : Pos) (t2 : List Tree) (b2 : Nat)
    (h2 : EvSeq env nsk gs (P (c :: r)) (some (p2, t2)) b2) :
    EvSeq env nsk (ssw_number :: .opt (.seq [.lit ['.'], ssw_number]) :: gs) (P (m ++ c :: r))
      (some (p2, ss.map .tok ++ t2)) (max 5 b2 + 2) := by
  cases hm with
  | int _ hv =>
    have hopt : Ev env nsk (.opt (.seq [.lit ['.'], ssw_number])) (P (c :: r)) (some (P (c :: r), [])) 3 :=
      (ev_opt_none (ev_seq (evs_fail_head (ev_lit_fail '.' c [] r (by rw [pre_nsk]) hdot)))).cast rfl (by decide)
    exact (evs_cons (ev_number_nsk m hv c r hc) (evs_cons hopt h2)).cast (by simp) (by omega)
  | dec v w hv hw =>
    have hopt : Ev env nsk (.opt (.seq [.lit ['.'], ssw_number])) (P ('.' :: (w ++ c :: r)))
        (some (P (c :: r), [.tok ".", numT w])) 5 := by
      apply Ev.cast
      · apply ev_opt_some; apply ev_seq
        apply evs_cons (ev_lit_nsk ['.'] _)
        apply evs_cons (ev_number_nsk w hw c r hc)
        exact evs_nil
      · rfl
      · decide
    have h := evs_cons (ev_number_nsk v hv '.' (w ++ c :: r) (by decide)) (evs_cons hopt h2)
    rw [show (v ++ '.' :: w) ++ c :: r = v ++ '.' :: (w ++ c :: r) by simp]
    exact h.cast (by simp) (by omega)

theorem evs_mant_fail {m : List Char} {ss : List String} (hm : Mant m ss) (c : Char) (r : List Char)
    (hc : pp_nums.contains c = false) (hdot : '.' ≠ c) (gs : List G) (b2 : Nat)
    (h2 : EvSeq env nsk gs (P (c :: r)) none b2) :
    EvSeq env nsk (ssw_number :: .opt (.seq [.lit ['.'], ssw_number]) :: gs) (P (m ++ c :: r)) none
      (max 5 b2 + 2) := by
  cases hm with
  | int _ hv =>
    have hopt : Ev env nsk (.opt (.seq [.lit ['.'], ssw_number])) (P (c :: r)) (some (P (c :: r), [])) 3 :=
      (ev_opt_none (ev_seq (evs_fail_head (ev_lit_fail '.' c [] r (by rw [pre_nsk]) hdot)))).cast rfl (by decide)
    exact (evs_fail_tail (ev_number_nsk m hv c r hc) (evs_fail_tail hopt h2)).cast rfl (by omega)
  | dec v w hv hw =>
    have hopt : Ev env nsk (.opt (.seq [.lit ['.'], ssw_number])) (P ('.' :: (w ++ c :: r)))
        (some (P (c :: r), [.tok ".", numT w])) 5 := by
      apply Ev.cast
      · apply ev_opt_some; apply ev_seq
        apply evs_cons (ev_lit_nsk ['.'] _)
        apply evs_cons (ev_number_nsk w hw c r hc)
        exact evs_nil
      · rfl
      · decide
    have h := evs_fail_tail (ev_number_nsk v hv '.' (w ++ c :: r) (by decide)) (evs_fail_tail hopt h2)
    rw [show (v ++ '.' :: w) ++ c :: r = v ++ '.' :: (w ++ c :: r) by simp]
    exact h.cast rfl (by omega)

theorem nums_not_sign : ∀ c ∈ pp_nums, '-' ≠ c ∧ '+' ≠ c := by decide

theorem ev_sign {s : List Char} {sg : List String} (hs : Sign s sg) (x : List Char) (hx : Dig x) (r : List Char) :
    Ev env nsk (.opt (.alt [.lit ['-'], .lit ['+']])) (P (s ++ (x ++ r))) (some (P (x ++ r), sg.map .tok)) 6 := by
  cases hs with
  | none =>
    obtain ⟨d, ds, rfl, hd, _⟩ := hx.cons
    obtain ⟨n1, n2⟩ := nums_not_sign d hd
    exact (ev_opt_none (ev_alt (eva_skip (ev_lit_fail '-' d [] (ds ++ r) (by rw [pre_nsk]; rfl) n1)
      (eva_skip (ev_lit_fail '+' d [] (ds ++ r) (by rw [pre_nsk]; rfl) n2) eva_nil)))).cast rfl (by decide)
  | minus =>
    exact (ev_opt_some (ev_alt (eva_ok (ev_lit_nsk ['-'] (x ++ r))))).cast rfl (by decide)
  | plus =>
    exact (ev_opt_some (ev_alt (eva_skip (ev_lit_fail '-' '+' [] (x ++ r) (by rw [pre_nsk]; rfl) (by decide))
      (eva_ok (ev_lit_nsk ['+'] (x ++ r)))))).cast rfl (by decide)

theorem evs_sci_tail {s : List Char} {sg : List String} (hs : Sign s sg) (x : List Char) (hx : Dig x) (c : Char)
    (r : List Char) (hc : pp_nums.contains c = false) :
    EvSeq env nsk [.lit ['e'], .opt (.alt [.lit ['-'], .lit ['+']]), .word pp_nums pp_nums]
      (P ('e' :: (s ++ (x ++ c :: r)))) (some (P (c :: r), (("e" :: sg) ++ [String.ofList x]).map .tok)) 10 := by
  have h := evs_cons (ev_lit_nsk (env := env) ['e'] (s ++ (x ++ c :: r)))
    (evs_cons (ev_sign hs x hx (c :: r)) (evs_cons (ev_number_nsk x hx c r hc) evs_nil))
  exact h.cast (by simp) (by decide)

/-- the texts of `gorf`: `v`, `v.w`, and these followed by `e`, an optional sign, and digits -/
inductive GorfTok : List Char → Prop
  | flt {m : List Char} {ss : List String} (hm : Mant m ss) : GorfTok m
  | sci {m s : List Char} {ss sg : List String} (hm : Mant m ss) (hs : Sign s sg) (x : List Char) (hx : Dig x) :
      GorfTok (m ++ 'e' :: (s ++ x))

theorem Mant.join {m : List Char} {ss : List String} (h : Mant m ss) : String.join ss = String.ofList m := by
  cases h <;> simp [String.join, String.append_assoc]

theorem sci_join {m s : List Char} {ss sg : List String} (hm : Mant m ss) (hs : Sign s sg) (x : List Char) :
    String.join (ss ++ (("e" :: sg) ++ [String.ofList x])) = String.ofList (m ++ 'e' :: (s ++ x)) := by
  cases hm <;> cases hs <;> simp [String.join, String.append_assoc] <;> (rw [← String.append_assoc]; rfl)

theorem comp_gorf (t : List Char) (ht : GorfTok t) : Comp env ssw_gorf [t] [numT t] Brk 16 := by
  intro S R hS hR
  obtain ⟨k, rfl⟩ := map_snd_single hS
  obtain ⟨c, r, rfl, hcb⟩ := hR
  obtain ⟨hc, _, hdot, he⟩ := brkCh_facts hcb
  cases ht with
  | @flt m ss hm =>
    obtain ⟨d, ds, rfl, hd⟩ := hm.head
    obtain ⟨w1, w2, _⟩ := nums_facts d hd
    have hpre : pre sk (P (bl k ++ (d :: ds ++ c :: r))) = P (d :: ds ++ c :: r) := pre_bl_cons k d _ w1 w2
    have hsci : Ev env sk ssw_num_sci (P (bl k ++ (d :: ds ++ c :: r))) none 10 := by
      unfold ssw_num_sci
      apply Ev.cast
      · apply ev_combine_fail
        rw [hpre]
        apply ev_seq
        exact evs_mant_fail hm c r hc hdot _ _ (evs_fail_head (ev_lit_fail 'e' c [] r (by rw [pre_nsk]) he))
      · rfl
      · decide
    have hflt : Ev env sk ssw_num_flt (P (bl k ++ (d :: ds ++ c :: r))) (some (P (c :: r), [numT (d :: ds)])) 10 := by
      unfold ssw_num_flt
      have hin : Ev env nsk (.seq [ssw_number, .opt (.seq [.lit ['.'], ssw_number])]) (P (d :: ds ++ c :: r))
          (some (P (c :: r), ss.map .tok)) 8 :=
        (ev_seq (evs_mant hm c r hc hdot [] _ _ _ evs_nil)).cast (by simp) (by decide)
      have hcomb := ev_combine_toks (env := env) (ctx := sk) (p := P (bl k ++ (d :: ds ++ c :: r))) ss
        (by rw [hpre]; exact hin) (by have := hm.len; omega)
      refine hcomb.cast ?_ (by decide)
      rw [hm.join]
    unfold ssw_gorf
    exact (ev_alt (eva_skip hsci (eva_ok hflt))).cast rfl (by decide)
  | @sci m s ss sg hm hs x hx =>
    obtain ⟨d, ds, rfl, hd⟩ := hm.head
    obtain ⟨w1, w2, _⟩ := nums_facts d hd
    have htxt : txt [(k, d :: ds ++ 'e' :: (s ++ x))] (c :: r) = bl k ++ (d :: (ds ++ 'e' :: (s ++ (x ++ c :: r)))) := by
      simp [txt]
    rw [htxt]
    have hpre : pre sk (P (bl k ++ (d :: (ds ++ 'e' :: (s ++ (x ++ c :: r)))))) =
        P (d :: ds ++ 'e' :: (s ++ (x ++ c :: r))) := pre_bl_cons k d _ w1 w2
    have hsci : Ev env sk ssw_num_sci (P (bl k ++ (d :: (ds ++ 'e' :: (s ++ (x ++ c :: r))))))
        (some (P (c :: r), [numT (d :: ds ++ 'e' :: (s ++ x))])) 14 := by
      unfold ssw_num_sci
      have hin := ev_seq (evs_mant hm 'e' (s ++ (x ++ c :: r)) (by decide) (by decide) _ _ _ _
        (evs_sci_tail (env := env) hs x hx c r hc))
      have hcomb := ev_combine_toks (env := env) (ctx := sk)
        (p := P (bl k ++ (d :: (ds ++ 'e' :: (s ++ (x ++ c :: r)))))) (ss ++ (("e" :: sg) ++ [String.ofList x]))
        (by rw [hpre]
            exact hin.cast (o' := some (P (c :: r), (ss ++ (("e" :: sg) ++ [String.ofList x])).map .tok))
              (by simp) (Nat.le_refl _))
        (by have := hm.len; have := hs.len; simp; omega)
      refine hcomb.cast ?_ (by decide)
      rw [sci_join hm hs x]
    unfold ssw_gorf
    exact (ev_alt (eva_ok hsci)).cast rfl (by decide)

end Dsd.PP.Ssw
