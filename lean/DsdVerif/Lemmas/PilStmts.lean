/-
The statement lemmas of the PIL grammar once more, in front of an ARBITRARY continuation: the text of a statement is
followed by a tail `X` (blanks, then the end of the text or a line end and whatever comes after it), and the
statement's own `OneOrMore(Suppress(LineEnd))` is a parameter (`heol`): it matches at `X` and ends at any position `p`.
This is what documents of several statements need (Lemmas/PilDoc.lean).
-/
import DsdVerif.Lemmas.PilMore

namespace Dsd.Pil
open Dsd.PP Dsd.Gen

/-- the end of every statement alternative -/
abbrev eolG : G := .many1 (.suppress .lineEnd)

/-! ### tails -/

theorem skipIgn_replicate (n : Nat) (r : List Char) : skipIgn (List.replicate n ' ' ++ r) = skipIgn r := by
  simp only [skipIgn, skipWs_replicate]

/-- the end of a statement line: the end of the text, or a line end (and anything after it) -/
def LineEnd (X : List Char) : Prop := X = [] ∨ ∃ r, X = '\n' :: r

/-- what may follow the last token of a statement: blanks / carriage returns and possibly a comment, then the end of
    the text or a line end — the two facts the lemmas use: the first character (if any) is a blank, a line feed, a
    carriage return or `#`, and after skipping whitespace and a comment the text is empty or starts with a line feed -/
structure Tail (X : List Char) : Prop where
  hd : OutHd (fun x => x = ' ' ∨ x = '\n' ∨ x = '\r' ∨ x = '#') X
  sk : skipIgn X = [] ∨ ∃ r, skipIgn X = '\n' :: r

theorem LineEnd.tail {X : List Char} (h : LineEnd X) : Tail X := by
  rcases h with rfl | ⟨r, rfl⟩
  · exact ⟨OutHd_nil _, Or.inl rfl⟩
  · exact ⟨OutHd_cons _ _ _ (Or.inr (Or.inl rfl)), Or.inr ⟨r, skipIgn_cons '\n' r (by decide) (by decide)⟩⟩

theorem Tail.blanks {X : List Char} (h : Tail X) (e : Nat) : Tail (List.replicate e ' ' ++ X) :=
  ⟨OutHd_blanks _ e X (Or.inl rfl) h.hd, by rw [skipIgn_replicate]; exact h.sk⟩

theorem Tail.outId {X : List Char} (h : Tail X) : OutHd (fun x => x ∉ identChars) X :=
  h.hd.imp (by rintro x (rfl | rfl | rfl | rfl) <;> decide)

theorem Tail.outDom {X : List Char} (h : Tail X) : OutHd (fun x => x ∉ identChars ∧ x ≠ '*') X :=
  h.hd.imp (by rintro x (rfl | rfl | rfl | rfl) <;> exact ⟨by decide, by decide⟩)

theorem Tail.nameEnd {X : List Char} (h : Tail X) : OutHd NameEnd X :=
  h.hd.imp (by rintro x (rfl | rfl | rfl | rfl) <;> exact ⟨by decide, by decide, by decide, by decide⟩)

theorem LineEnd.outDb {X : List Char} (h : LineEnd X) : OutHd (fun x => x ∉ dbChars) X := by
  rcases h with rfl | ⟨r, rfl⟩
  · exact OutHd_nil _
  · exact OutHd_cons _ _ _ (by decide)

/-! ### the line ends after trailing blanks -/

theorem run_lineEnd_pre (env : Env) (p q : Pos) (h : pre {} p = pre {} q) (fuel : Nat) :
    run env fuel {} (.suppress .lineEnd) p = run env fuel {} (.suppress .lineEnd) q := by
  cases fuel with
  | zero => simp [run]
  | succ f =>
    cases f with
    | zero => simp [run]
    | succ f => simp only [run, h]

theorem run_eol_pre (env : Env) (p q : Pos) (h : pre {} p = pre {} q) (fuel : Nat) :
    run env fuel {} eolG p = run env fuel {} eolG q := by
  cases fuel with
  | zero => simp [run]
  | succ f => simp only [run, run_lineEnd_pre env p q h f]

/-- blanks before the line end do not matter -/
theorem Ok_eol_blanks {env : Env} {NE : Nat} {X : List Char} {r : Pos × List Tree} (e : Nat)
    (h : Ok env NE {} eolG { rest := X, past := false } r) :
    Ok env NE {} eolG { rest := List.replicate e ' ' ++ X, past := false } r := by
  intro fuel hf
  rw [run_eol_pre env _ { rest := X, past := false } _ fuel]
  · exact h fuel hf
  · show (⟨skipIgn _, false⟩ : Pos) = ⟨skipIgn _, false⟩
    rw [skipIgn_replicate]

/-! ### what fails at a tail -/

theorem No_lit_tail (env : Env) (X : List Char) (hX : Tail X) (c : Char) (s : List Char) (hc : c ≠ '\n') :
    No env 1 {} (.lit (c :: s)) { rest := X, past := false } := by
  apply No_lit
  rw [pre_skip]
  show stripPrefix (c :: s) (skipIgn X) = none
  rcases hX.sk with h | ⟨r, h⟩
  · rw [h]; rfl
  · rw [h]; simp [stripPrefix, hc]

theorem No_punct_tail (env : Env) (X : List Char) (hX : Tail X) (c : Char) (hc : c ≠ '\n') :
    No env 2 {} (.suppress (.lit [c])) { rest := X, past := false } :=
  No_suppress (No_lit_tail env X hX c [] hc)

theorem No_assign_tail (env : Env) (X : List Char) (hX : Tail X) :
    No env 5 {} (.suppress pil_assign) { rest := X, past := false } := by
  unfold pil_assign
  exact (No_suppress (No_alt (NoAlt_cons (No_lit_tail env X hX '=' [] (by decide))
    (NoAlt_cons (No_lit_tail env X hX ':' [] (by decide)) (NoAlt_nil env _ _))))).mono (by decide)

theorem No_word_tail (env : Env) (ctx : Ctx) (init body : List Char) (p : Pos)
    (h : (pre ctx p).rest = [] ∨ ∃ r, (pre ctx p).rest = '\n' :: r) (hi : '\n' ∉ init) :
    No env 1 ctx (.word init body) p := by
  rcases h with h | ⟨r, h⟩
  · exact No_word_nil env ctx init body p h
  · exact No_word_cons env ctx init body p '\n' r h hi

theorem No_domain_tail (env : Env) (X : List Char) (hX : Tail X) :
    No env 5 {} pil_domain { rest := X, past := false } := by
  unfold pil_domain pil_identifier
  have : No env 1 { skip := false } (.word identChars identChars) (pre {} { rest := X, past := false }) :=
    No_word_tail env _ _ _ _ (by rw [pre_noskip, pre_skip]; exact hX.sk) (outside_facts '\n' (by decide))
  exact (No_combine (No_seq (NoSeq_head this))).mono (by decide)

theorem No_ident_tail (env : Env) (X : List Char) (hX : Tail X) :
    No env 1 {} pil_identifier { rest := X, past := false } :=
  No_word_tail env _ _ _ _ (by rw [pre_skip]; exact hX.sk) (outside_facts '\n' (by decide))

theorem No_sense_tail (env : Env) (ctx : Ctx) (p : Pos)
    (h : (pre ctx p).rest = [] ∨ ∃ r, (pre ctx p).rest = '\n' :: r) : No env 4 ctx pil_sense p := by
  unfold pil_sense pil_identifier
  have : No env 1 { skip := false } (.word identChars identChars) (pre ctx p) :=
    No_word_tail env _ _ _ _ (by rw [pre_noskip]; exact h) (outside_facts '\n' (by decide))
  exact (No_combine (No_seq (NoSeq_head this))).mono (by decide)

theorem No_item_tail (env : Env) (X : List Char) (hX : Tail X) :
    No env 12 {} itemG { rest := X, past := false } := by
  unfold itemG pil_loop
  have hs : No env 4 { skip := false } pil_sense (pre {} { rest := X, past := false }) :=
    No_sense_tail env _ _ (by rw [pre_noskip, pre_skip]; exact hX.sk)
  have h1 := No_seq (NoSeq_head (gs := [.group (.opt pil_innerloop), .suppress (.lit [')'])])
    (No_combine (ctx := {}) (No_seq (NoSeq_head (gs := [.suppress (.lit ['('])]) hs))))
  have h2 := No_lit_tail env X hX '+' [] (by decide)
  have h3 := No_sense_tail env {} { rest := X, past := false } (by rw [pre_skip]; exact hX.sk)
  exact (No_alt (NoAlt_cons h1 (NoAlt_cons h2 (NoAlt_cons h3 (NoAlt_nil env _ _))))).mono (by decide)

theorem TailOK_tail (X : List Char) (hX : Tail X) : TailOK X := ⟨hX.nameEnd, No_item_tail pil_env X hX⟩

/-! ### domain statements -/

/-- a domain-length statement (any of the three keywords) in front of a tail -/
theorem dl_stmt_tail (kw : List Char) (hkw : Kw kw) (a : Nat) (ha : 0 < a) (c : Char) (m : List Char) (st : Bool)
    (b : Nat) (sign : Char) (hs : sign = '=' ∨ sign = ':') (cc : Nat) (V X : List Char) (NE : Nat) (p : Pos)
    (hc : c ∈ identChars) (hm : ∀ x ∈ m, x ∈ identChars)
    (hlen : Ok pil_env 5 {} pil_dlength { rest := List.replicate cc ' ' ++ (V ++ X), past := false }
      ({ rest := X, past := false }, [.tok (String.ofList V)]))
    (hsl : No pil_env 14 {} pil_sl_domain { rest := kw ++ dlText a c m st b sign cc V X, past := false })
    (heol : Ok pil_env NE {} eolG { rest := X, past := false } (p, [])) :
    Ok pil_env (NE + 30) {} pil_stmt { rest := kw ++ dlText a c m st b sign cc V X, past := false }
      (p, [.grp [.tok "dl-domain", .tok (String.ofList (c :: m ++ star st)), .tok (String.ofList V)]]) := by
  obtain ⟨kc, ks, rfl, h1, h2, _⟩ := hkw.head
  have hbody := Ok_dl_body' pil_env kc ks h1 h2 a ha c m st b sign hs cc V X 5 NE p hc hm hlen heol
  exact (Ok_dl_stmt pil_env (kc :: ks) _ hkw _ 14 _ hsl hbody).mono (by omega)

/-- `sequence name = LETTERS` in front of a tail -/
theorem sl_stmt_tail (a : Nat) (ha : 0 < a) (c : Char) (m : List Char) (st : Bool) (b : Nat) (sign : Char)
    (hs : sign = '=' ∨ sign = ':') (cc : Nat) (kc : Char) (km X : List Char) (NE : Nat) (p : Pos)
    (hc : c ∈ identChars) (hm : ∀ x ∈ m, x ∈ identChars)
    (hkc : kc ∈ pp_alphas) (hkm : ∀ x ∈ km, x ∈ pp_alphas) (hX : Tail X)
    (heol : Ok pil_env NE {} eolG { rest := X, past := false } (p, [])) :
    Ok pil_env (NE + 30) {} pil_stmt
      { rest := ['s', 'e', 'q', 'u', 'e', 'n', 'c', 'e'] ++ dlText a c m st b sign cc (kc :: km) X, past := false }
      (p, [.grp [.tok "sl-domain", .tok (String.ofList (c :: m ++ star st)), .tok (String.ofList (kc :: km))]]) := by
  unfold pil_stmt pil_sl_domain dlText pil_constraint
  have h1 := Ok_kw pil_env 's' ['e', 'q', 'u', 'e', 'n', 'c', 'e'] (List.replicate a ' ' ++ (c :: m ++ (star st ++
    (List.replicate b ' ' ++ (sign :: (List.replicate cc ' ' ++ (kc :: km ++ X))))))) (by decide) (by decide)
    (OutHd_kw_blanks a ha _)
  have h2 := Ok_domain pil_env a c m st _ hc hm (OutHd_sign b sign hs (List.replicate cc ' ' ++ (kc :: km ++ X)))
  have h3 := Ok_assign pil_env b sign hs (List.replicate cc ' ' ++ (kc :: km ++ X))
  have h4 := Ok_class pil_env pp_alphas cc kc km X (fun x hx => (alphas_facts x hx).1) hkc hkm
    (hX.outId.imp (fun x hx => outside_alphas x hx))
  have h5 : Ok pil_env 8 {} (.opt (.seq [.suppress pil_assign, pil_number])) { rest := X, past := false }
      ({ rest := X, past := false }, []) :=
    (Ok_opt_none (No_seq (NoSeq_head (No_assign_tail pil_env X hX)))).mono (by decide)
  have := Ok_alt (OkAlt_head (gs := [pil_dl_domain, pil_comp_domain, pil_strand, pil_strandcomplex, pil_reaction,
      pil_cplx, pil_restingset])
    (Ok_group (Ok_tag (t := "sl-domain") (Ok_seq (OkSeq_cons h1 (OkSeq_cons h2 (OkSeq_cons h3
      (OkSeq_cons h4 (OkSeq_cons h5 (OkSeq_cons heol (OkSeq_nil pil_env _ _)))))))))))
  simp only [List.nil_append, List.append_nil, List.cons_append] at this
  exact this.mono (by omega)

/-- `sequence name = LETTERS = length` in front of a tail -/
theorem sl_len_stmt_tail (a : Nat) (ha : 0 < a) (c : Char) (m : List Char) (st : Bool) (b : Nat) (sign : Char)
    (hs : sign = '=' ∨ sign = ':') (cc : Nat) (kc : Char) (km : List Char) (e : Nat) (s2 : Char)
    (hs2 : s2 = '=' ∨ s2 = ':') (f : Nat) (dc : Char) (dm X : List Char) (NE : Nat) (p : Pos)
    (hc : c ∈ identChars) (hm : ∀ x ∈ m, x ∈ identChars)
    (hkc : kc ∈ pp_alphas) (hkm : ∀ x ∈ km, x ∈ pp_alphas)
    (hdc : dc ∈ pp_nums) (hdm : ∀ x ∈ dm, x ∈ pp_nums) (hX : Tail X)
    (heol : Ok pil_env NE {} eolG { rest := X, past := false } (p, [])) :
    Ok pil_env (NE + 30) {} pil_stmt
      { rest := ['s', 'e', 'q', 'u', 'e', 'n', 'c', 'e'] ++
          dlText a c m st b sign cc (kc :: km) (slTail e s2 f dc dm X), past := false }
      (p, [.grp [.tok "sl-domain", .tok (String.ofList (c :: m ++ star st)), .tok (String.ofList (kc :: km)),
          .tok (String.ofList (dc :: dm))]]) := by
  unfold pil_stmt pil_sl_domain dlText pil_constraint slTail
  have h1 := Ok_kw pil_env 's' ['e', 'q', 'u', 'e', 'n', 'c', 'e'] (List.replicate a ' ' ++ (c :: m ++ (star st ++
    (List.replicate b ' ' ++ (sign :: (List.replicate cc ' ' ++ (kc :: km ++
      (List.replicate e ' ' ++ (s2 :: (List.replicate f ' ' ++ (dc :: dm ++ X))))))))))) (by decide) (by decide)
    (OutHd_kw_blanks a ha _)
  have h2 := Ok_domain pil_env a c m st _ hc hm (OutHd_sign b sign hs (List.replicate cc ' ' ++ (kc :: km ++
      (List.replicate e ' ' ++ (s2 :: (List.replicate f ' ' ++ (dc :: dm ++ X)))))))
  have h3 := Ok_assign pil_env b sign hs (List.replicate cc ' ' ++ (kc :: km ++
      (List.replicate e ' ' ++ (s2 :: (List.replicate f ' ' ++ (dc :: dm ++ X))))))
  have h4 := Ok_class pil_env pp_alphas cc kc km
    (List.replicate e ' ' ++ (s2 :: (List.replicate f ' ' ++ (dc :: dm ++ X))))
    (fun x hx => (alphas_facts x hx).1) hkc hkm
    ((OutHd_sign e s2 hs2 _).imp (fun x hx => outside_alphas x hx.1))
  have h5a := Ok_assign pil_env e s2 hs2 (List.replicate f ' ' ++ (dc :: dm ++ X))
  have h5b : Ok pil_env 1 {} pil_number { rest := List.replicate f ' ' ++ (dc :: dm ++ X), past := false }
      ({ rest := X, past := false }, [.tok (String.ofList (dc :: dm))]) :=
    Ok_class pil_env pp_nums f dc dm X (fun x hx => (nums_facts x hx).1) hdc hdm
      (hX.outId.imp (fun x hx => outside_nums x hx))
  have h5 := Ok_opt_some (Ok_seq (OkSeq_cons h5a (OkSeq_cons h5b (OkSeq_nil pil_env _ _))))
  have := Ok_alt (OkAlt_head (gs := [pil_dl_domain, pil_comp_domain, pil_strand, pil_strandcomplex, pil_reaction,
      pil_cplx, pil_restingset])
    (Ok_group (Ok_tag (t := "sl-domain") (Ok_seq (OkSeq_cons h1 (OkSeq_cons h2 (OkSeq_cons h3
      (OkSeq_cons h4 (OkSeq_cons h5 (OkSeq_cons heol (OkSeq_nil pil_env _ _)))))))))))
  simp only [List.nil_append, List.append_nil, List.cons_append] at this
  exact this.mono (by omega)

/-! ### `strand` / `sup-sequence` -/

/-- `ZeroOrMore(domain)` over blank-separated names, stopping where `domain` fails -/
theorem OkMany_doms_stop (env : Env) (ds : List (List Char)) (tail : List Char) (hd : ∀ d ∈ ds, IsDom d)
    (ht : OutHd (fun x => x ∉ identChars ∧ x ≠ '*') tail)
    (hstop : No env 5 {} pil_domain { rest := tail, past := false }) :
    OkMany env (ds.length + 7) {} pil_domain { rest := spDoms ds ++ tail, past := false }
      ({ rest := tail, past := false }, ds.map (fun d => .tok (String.ofList d))) := by
  induction ds with
  | nil =>
    have := OkMany_stop hstop
    intro reps fuel hr hf
    simpa [spDoms] using this reps fuel (by omega) (by omega)
  | cons d ds ih =>
    obtain ⟨c, m, st, rfl, hc, hm⟩ := hd d (by simp)
    have ih' := ih (fun d hd' => hd d (List.mem_cons_of_mem _ hd'))
    have h1 := Ok_domain env 1 c m st (spDoms ds ++ tail) hc hm (OutHd_spDoms ds tail ht)
    have hne : ({ rest := spDoms ds ++ tail, past := false } : Pos) ≠
        { rest := List.replicate 1 ' ' ++ (c :: m ++ (star st ++ (spDoms ds ++ tail))), past := false } :=
      pos_ne_of_length _ _ _ _ (by simp; omega)
    have := OkMany_step h1 hne ih'
    rw [spDoms_cons]
    simp only [List.replicate_one, List.cons_append, List.append_assoc,
      List.map_cons, List.length_cons] at this ⊢
    intro reps fuel hr hf
    exact this reps fuel (by omega) (by omega)

/-- the text of a `strand` / `sup-sequence` statement after the keyword, followed by `X` -/
def compTextX (a : Nat) (c : Char) (m : List Char) (b : Nat) (sign : Char) (cc : Nat) (d : List Char)
    (ds : List (List Char)) (X : List Char) : List Char :=
  List.replicate a ' ' ++ (c :: m ++ (List.replicate b ' ' ++ (sign :: (List.replicate cc ' ' ++
    (d ++ (spDoms ds ++ X))))))

theorem Ok_comp_body_tail (env : Env) (kc : Char) (ks : List Char) (hk : isWs kc = false) (hk' : kc ≠ '#')
    (a : Nat) (ha : 0 < a) (c : Char) (m : List Char) (b : Nat) (sign : Char) (hs : sign = '=' ∨ sign = ':') (cc : Nat)
    (d : List Char) (ds : List (List Char)) (X : List Char) (NE : Nat) (p : Pos)
    (hc : c ∈ identChars) (hm : ∀ x ∈ m, x ∈ identChars) (hd : IsDom d) (hds : ∀ x ∈ ds, IsDom x) (hX : Tail X)
    (heol : Ok env NE {} eolG { rest := X, past := false } (p, [])) :
    Ok env (max (ds.length + 20) (NE + 10)) {} (compBody (kc :: ks))
      { rest := kc :: (ks ++ compTextX a c m b sign cc d ds X), past := false }
      (p, [.grp [.tok "composite-domain", .tok (String.ofList (c :: m)),
          .grp ((d :: ds).map (fun d => .tok (String.ofList d)))]]) := by
  unfold compBody compTextX
  obtain ⟨dc, dm, st, rfl, hdc, hdm⟩ := hd
  have h1 := Ok_kw env kc ks (List.replicate a ' ' ++ (c :: m ++ (List.replicate b ' ' ++ (sign ::
    (List.replicate cc ' ' ++ (dc :: dm ++ star st ++ (spDoms ds ++ X))))))) hk hk'
    (OutHd_kw_blanks a ha _)
  have h2 := Ok_ident env a c m (List.replicate b ' ' ++ (sign ::
    (List.replicate cc ' ' ++ (dc :: dm ++ star st ++ (spDoms ds ++ X)))))
    hc hm ((OutHd_sign b sign hs _).imp (fun x hx => hx.1))
  have h3 := Ok_assign env b sign hs
    (List.replicate cc ' ' ++ (dc :: dm ++ star st ++ (spDoms ds ++ X)))
  have h4a := Ok_domain env cc dc dm st (spDoms ds ++ X) hdc hdm (OutHd_spDoms ds _ hX.outDom)
  have h4b := OkMany_doms_stop env ds X hds hX.outDom (No_domain_tail env X hX)
  simp only [List.cons_append, List.append_assoc] at h1 h2 h3 h4a h4b ⊢
  have h4 := Ok_group (Ok_many1 h4a h4b)
  have h5 : Ok env 8 {} (.opt (.seq [.suppress pil_assign, pil_number])) { rest := X, past := false }
      ({ rest := X, past := false }, []) :=
    (Ok_opt_none (No_seq (NoSeq_head (No_assign_tail env X hX)))).mono (by decide)
  have := Ok_group (Ok_tag (t := "composite-domain") (Ok_seq (OkSeq_cons h1 (OkSeq_cons h2 (OkSeq_cons h3
    (OkSeq_cons h4 (OkSeq_cons h5 (OkSeq_cons heol (OkSeq_nil env _ _)))))))))
  simp only [List.nil_append, List.append_nil, List.cons_append, List.map_cons] at this ⊢
  exact this.mono (by omega)

/-- `strand` / `sup-sequence` statements in front of a tail -/
theorem comp_stmt_tail (kw : List Char)
    (hkw : kw = ['s', 't', 'r', 'a', 'n', 'd'] ∨ kw = ['s', 'u', 'p', '-', 's', 'e', 'q', 'u', 'e', 'n', 'c', 'e'])
    (a : Nat) (ha : 0 < a) (c : Char) (m : List Char) (b : Nat) (sign : Char) (hs : sign = '=' ∨ sign = ':') (cc : Nat)
    (d : List Char) (ds : List (List Char)) (X : List Char) (NE : Nat) (p : Pos)
    (hc : c ∈ identChars) (hm : ∀ x ∈ m, x ∈ identChars) (hd : IsDom d) (hds : ∀ x ∈ ds, IsDom x) (hX : Tail X)
    (heol : Ok pil_env NE {} eolG { rest := X, past := false } (p, [])) :
    Ok pil_env (max (ds.length + 30) (NE + 30)) {} pil_stmt
      { rest := kw ++ compTextX a c m b sign cc d ds X, past := false }
      (p, [.grp [.tok "composite-domain", .tok (String.ofList (c :: m)),
          .grp ((d :: ds).map (fun d => .tok (String.ofList d)))]]) := by
  rcases hkw with rfl | rfl
  · have hb := Ok_comp_body_tail pil_env 's' ['t', 'r', 'a', 'n', 'd'] (by decide) (by decide) a ha c m b sign hs cc
      d ds X NE p hc hm hd hds hX heol
    exact (Ok_strand_stmt pil_env _ _ _ hb).mono (by omega)
  · have hb := Ok_comp_body_tail pil_env 's' ['u', 'p', '-', 's', 'e', 'q', 'u', 'e', 'n', 'c', 'e'] (by decide)
      (by decide) a ha c m b sign hs cc d ds X NE p hc hm hd hds hX heol
    exact (Ok_supseq_stmt pil_env _ _ _ hb).mono (by omega)

/-! ### `state` / `macrostate` -/

def restTextX (a : Nat) (c : Char) (m : List Char) (b cc : Nat) (mc : Char) (mm : List Char)
    (ms : List (List Char)) (X : List Char) : List Char :=
  List.replicate a ' ' ++ (c :: m ++ (List.replicate b ' ' ++ ('=' :: (List.replicate cc ' ' ++ ('[' ::
    (mc :: mm ++ (csMems ms ++ (']' :: X))))))))

theorem Ok_rest_body_tail (env : Env) (kc : Char) (ks : List Char) (hk : isWs kc = false) (hk' : kc ≠ '#')
    (a : Nat) (ha : 0 < a) (c : Char) (m : List Char) (b cc : Nat) (mc : Char) (mm : List Char)
    (ms : List (List Char)) (X : List Char) (NE : Nat) (p : Pos)
    (hc : c ∈ identChars) (hm : ∀ x ∈ m, x ∈ identChars) (hmc : mc ∈ identChars) (hmm : ∀ x ∈ mm, x ∈ identChars)
    (hms : ∀ x ∈ ms, IsId x)
    (heol : Ok env NE {} eolG { rest := X, past := false } (p, [])) :
    Ok env (max (ms.length + 22) (NE + 11)) {} (restBody (kc :: ks))
      { rest := kc :: (ks ++ restTextX a c m b cc mc mm ms X), past := false }
      (p, [.grp [.tok "resting-macrostate", .tok (String.ofList (c :: m)),
          .grp (((mc :: mm) :: ms).map (fun d => .tok (String.ofList d)))]]) := by
  unfold restBody restTextX
  have h1 := Ok_kw env kc ks (List.replicate a ' ' ++ (c :: m ++ (List.replicate b ' ' ++ ('=' ::
    (List.replicate cc ' ' ++ ('[' :: (mc :: mm ++ (csMems ms ++ (']' :: X)))))))))
    hk hk' (OutHd_kw_blanks a ha _)
  have h2 := Ok_ident env a c m (List.replicate b ' ' ++ ('=' ::
    (List.replicate cc ' ' ++ ('[' :: (mc :: mm ++ (csMems ms ++ (']' :: X)))))))
    hc hm ((OutHd_sign b '=' (Or.inl rfl) _).imp (fun x hx => hx.1))
  have h3 := Ok_punct env b '=' (List.replicate cc ' ' ++ ('[' :: (mc :: mm ++ (csMems ms ++
    (']' :: X))))) (by decide) (by decide)
  have h4 := Ok_punct env cc '[' (mc :: mm ++ (csMems ms ++ (']' :: X)))
    (by decide) (by decide)
  have h5a : Ok env 1 {} pil_identifier
      { rest := mc :: mm ++ (csMems ms ++ (']' :: X)), past := false }
      ({ rest := csMems ms ++ (']' :: X), past := false },
        [.tok (String.ofList (mc :: mm))]) :=
    Ok_ident env 0 mc mm _ hmc hmm (OutHd_csMems ms _)
  have h5b := Ok_many (OkMany_mems env ms X hms)
  have h5 := Ok_group (Ok_seq (OkSeq_cons h5a (OkSeq_cons h5b (OkSeq_nil env _ _))))
  have h6 := Ok_punct env 0 ']' X (by decide) (by decide)
  simp only [List.cons_append, List.replicate_zero, List.nil_append] at h1 h2 h3 h4 h5 h6 ⊢
  have := Ok_group (Ok_tag (t := "resting-macrostate") (Ok_seq (OkSeq_cons h1 (OkSeq_cons h2 (OkSeq_cons h3
    (OkSeq_cons h4 (OkSeq_cons h5 (OkSeq_cons h6 (OkSeq_cons heol (OkSeq_nil env _ _))))))))))
  simp only [List.nil_append, List.append_nil, List.cons_append, List.map_cons] at this ⊢
  exact this.mono (by omega)

/-- `state` / `macrostate` statements in front of a tail -/
theorem rest_stmt_tail (kw : List Char)
    (hkw : kw = ['s', 't', 'a', 't', 'e'] ∨ kw = ['m', 'a', 'c', 'r', 'o', 's', 't', 'a', 't', 'e'])
    (a : Nat) (c : Char) (m : List Char) (b cc : Nat) (mc : Char) (mm : List Char)
    (ms : List (List Char)) (X : List Char) (NE : Nat) (p : Pos)
    (hc : c ∈ identChars) (hm : ∀ x ∈ m, x ∈ identChars) (hmc : mc ∈ identChars) (hmm : ∀ x ∈ mm, x ∈ identChars)
    (hms : ∀ x ∈ ms, IsId x)
    (heol : Ok pil_env NE {} eolG { rest := X, past := false } (p, [])) :
    Ok pil_env (max (ms.length + 40) (NE + 30)) {} pil_stmt
      { rest := kw ++ restTextX (a + 1) c m b cc mc mm ms X, past := false }
      (p, [.grp [.tok "resting-macrostate", .tok (String.ofList (c :: m)),
          .grp (((mc :: mm) :: ms).map (fun d => .tok (String.ofList d)))]]) := by
  have hform : restTextX (a + 1) c m b cc mc mm ms X = List.replicate (a + 1) ' ' ++ (c :: (m ++ (List.replicate b ' ' ++
      ('=' :: (List.replicate cc ' ' ++ ('[' :: (mc :: mm ++ (csMems ms ++ (']' :: X))))))))) := rfl
  rcases hkw with rfl | rfl
  · have hb := Ok_rest_body_tail pil_env 's' ['t', 'a', 't', 'e'] (by decide) (by decide) (a + 1) (Nat.succ_pos a)
      c m b cc mc mm ms X NE p hc hm hmc hmm hms heol
    rw [hform] at hb
    have hstmt := Ok_state_stmt pil_env a c _ hc _ _ hb
    rw [← hform] at hstmt
    exact hstmt.mono (by omega)
  · have hb := Ok_rest_body_tail pil_env 'm' ['a', 'c', 'r', 'o', 's', 't', 'a', 't', 'e'] (by decide) (by decide)
      (a + 1) (Nat.succ_pos a) c m b cc mc mm ms X NE p hc hm hmc hmm hms heol
    rw [hform] at hb
    have hstmt := Ok_macrostate_stmt pil_env a c _ hc _ _ hb
    rw [← hform] at hstmt
    exact hstmt.mono (by omega)

/-! ### kernel complexes -/

/-- `name = <pattern>` in front of a tail -/
theorem kernel_stmt_tail (nc : Char) (m : List Char) (L : List Ent) (toks : List Tree) (X : List Char) (NE : Nat)
    (p : Pos) (hnc : nc ∈ identChars) (hm : ∀ x ∈ m, x ∈ identChars) (hL : L ≠ [])
    (hleg : ∀ e ∈ L, LegalEnt e) (hp : pItems (2 * L.length + 1) L = some (toks, [])) (hX : Tail X)
    (heol : Ok pil_env NE {} eolG { rest := X, past := false } (p, [])) :
    Ok pil_env (max (8 * L.length + 70) (NE + 30)) {} pil_stmt { rest := kernelText nc m L X, past := false }
      (p, [.grp [.tok "kernel-complex", .tok (String.ofList (nc :: m)), .grp toks]]) := by
  obtain ⟨h1, h2, h3, h4⟩ := cplx_parts nc m L toks X hnc hm hL hleg hp (TailOK_tail X hX)
    (by
      intro c0 t e
      rcases hX.sk with h | ⟨r, h⟩
      · rw [h] at e; simp at e
      · rw [h] at e; simp only [List.cons.injEq] at e; rw [← e.1]; decide)
  have hc : Ok pil_env (max (8 * L.length + 60) (NE + 10)) {} pil_cplx
      { rest := nc :: (m ++ (' ' :: '=' :: (sp L ++ X))), past := false }
      (p, [.grp [.tok "kernel-complex", .tok (String.ofList (nc :: m)), .grp toks]]) := by
    unfold pil_cplx
    have := Ok_group (Ok_tag (t := "kernel-complex") (Ok_seq (OkSeq_cons h1 (OkSeq_cons h2 (OkSeq_cons h3
      (OkSeq_cons h4 (OkSeq_cons heol (OkSeq_nil pil_env _ _))))))))
    simp only [List.nil_append, List.append_nil, List.cons_append] at this
    exact this.mono (by omega)
  have hstmt := stmt_before_cplx nc m _ hnc hm _ _ (OkAlt_head (gs := [pil_restingset]) hc)
  unfold kernelText
  exact hstmt.mono (by omega)

/-- `" @mode value unit"` followed by `X` -/
def concTextX (mode : List Char) (vc : Char) (vm unit X : List Char) : List Char :=
  ' ' :: '@' :: (mode ++ (' ' :: (vc :: vm ++ (' ' :: (unit ++ X)))))

theorem Ok_conc_tail (mode : List Char) (vc : Char) (vm unit X : List Char) (hmode : IsMode mode)
    (hvc : vc ∈ pp_nums) (hvm : ∀ x ∈ vm, x ∈ pp_nums) (hu : IsCunit unit) :
    Ok pil_env 24 {} pil_conc { rest := concTextX mode vc vm unit X, past := false }
      ({ rest := X, past := false },
        [.grp [.tok (String.ofList mode), .tok (String.ofList (vc :: vm)), .tok (String.ofList unit)]]) := by
  unfold pil_conc concTextX
  -- after the mode
  have hg := Ok_gorf_int pil_env 1 vc vm (' ' :: (unit ++ X)) hvc hvm
    (OutHd_cons _ _ _ ⟨outside_facts ' ' (by decide), by decide⟩)
  have hcu : Ok pil_env 7 {} pil_cunit { rest := ' ' :: (unit ++ X), past := false }
      ({ rest := X, past := false }, [.tok (String.ofList unit)]) := by
    apply Ok_cunit pil_env {} _ unit X hu _ rfl
    rw [pre_skip]
    rcases hu with rfl | rfl | rfl | rfl | rfl
    · have := skipIgn_blanks_cons 1 'M' X (by decide) (by decide); simpa using this
    · have := skipIgn_blanks_cons 1 'm' ('M' :: X) (by decide) (by decide); simpa using this
    · have := skipIgn_blanks_cons 1 'u' ('M' :: X) (by decide) (by decide); simpa using this
    · have := skipIgn_blanks_cons 1 'n' ('M' :: X) (by decide) (by decide); simpa using this
    · have := skipIgn_blanks_cons 1 'p' ('M' :: X) (by decide) (by decide); simpa using this
  simp only [List.replicate_one, List.singleton_append] at hg
  have hat := Ok_punct pil_env 1 '@' (mode ++ (' ' :: (vc :: vm ++ (' ' :: (unit ++ X))))) (by decide) (by decide)
  simp only [List.replicate_one, List.singleton_append] at hat
  -- generic assembly of one alternative
  have asm : ∀ (l1 l2 : List Char) (N : Nat),
      Ok pil_env N {} (.alt [.lit l1, .lit l2])
        { rest := mode ++ (' ' :: (vc :: vm ++ (' ' :: (unit ++ X)))), past := false }
        ({ rest := ' ' :: (vc :: vm ++ (' ' :: (unit ++ X))), past := false }, [.tok (String.ofList mode)]) →
      Ok pil_env (max N 12 + 6) {} (.group (.seq [.suppress (.lit ['@']), .alt [.lit l1, .lit l2], pil_gorf, pil_cunit]))
        { rest := ' ' :: '@' :: (mode ++ (' ' :: (vc :: vm ++ (' ' :: (unit ++ X))))), past := false }
        ({ rest := X, past := false },
          [.grp [.tok (String.ofList mode), .tok (String.ofList (vc :: vm)), .tok (String.ofList unit)]]) := by
    intro l1 l2 N hmd
    have := Ok_group (Ok_seq (OkSeq_cons hat (OkSeq_cons hmd (OkSeq_cons hg (OkSeq_cons hcu (OkSeq_nil pil_env _ _))))))
    simp only [List.nil_append, List.append_nil, List.cons_append] at this
    exact this.mono (by omega)
  have lit_ok : ∀ (s r : List Char) (c : Char) (s' : List Char), s = c :: s' → isWs c = false → c ≠ '#' →
      Ok pil_env 1 {} (.lit s) { rest := s ++ r, past := false } ({ rest := r, past := false }, [.tok (String.ofList s)]) := by
    intro s r c s' hs h1 h2
    subst hs
    exact Ok_lit pil_env {} _ _ r (by rw [pre_skip]; exact skipIgn_cons c _ h1 h2) rfl
  have lit_no : ∀ (s t : List Char) (c : Char) (t' : List Char), t = c :: t' → isWs c = false → c ≠ '#' →
      stripPrefix s t = none → No pil_env 1 {} (.lit s) { rest := t, past := false } := by
    intro s t c t' ht h1 h2 h3
    subst ht
    exact No_lit pil_env {} s _ (by rw [pre_skip, skipIgn_cons c t' h1 h2]; exact h3)
  rcases hmode with rfl | rfl | rfl | rfl
  · -- initial
    have hmd := Ok_alt (OkAlt_head (gs := [.lit ['i']])
      (lit_ok ['i', 'n', 'i', 't', 'i', 'a', 'l'] (' ' :: (vc :: vm ++ (' ' :: (unit ++ X)))) 'i' _ rfl
        (by decide) (by decide)))
    exact (Ok_alt (OkAlt_head (asm _ _ _ hmd))).mono (by decide)
  · -- i
    have n1 := lit_no ['i', 'n', 'i', 't', 'i', 'a', 'l'] (['i'] ++ (' ' :: (vc :: vm ++ (' ' :: (unit ++ X)))))
      'i' _ rfl (by decide) (by decide) (by simp [stripPrefix])
    have o1 := lit_ok ['i'] (' ' :: (vc :: vm ++ (' ' :: (unit ++ X)))) 'i' _ rfl (by decide) (by decide)
    have hmd := Ok_alt (OkAlt_tail n1 (OkAlt_head (gs := []) o1))
    exact (Ok_alt (OkAlt_head (asm _ _ _ hmd))).mono (by decide)
  · -- constant
    have n1 := lit_no ['i', 'n', 'i', 't', 'i', 'a', 'l']
      (['c', 'o', 'n', 's', 't', 'a', 'n', 't'] ++ (' ' :: (vc :: vm ++ (' ' :: (unit ++ X)))))
      'c' _ rfl (by decide) (by decide) (by simp [stripPrefix])
    have n2 := lit_no ['i']
      (['c', 'o', 'n', 's', 't', 'a', 'n', 't'] ++ (' ' :: (vc :: vm ++ (' ' :: (unit ++ X)))))
      'c' _ rfl (by decide) (by decide) (by simp [stripPrefix])
    have g1 := No_group (No_seq (NoSeq_tail hat (NoSeq_head (gs := [pil_gorf, pil_cunit])
      (No_alt (NoAlt_cons n1 (NoAlt_cons n2 (NoAlt_nil pil_env _ _)))))))
    have hmd := Ok_alt (OkAlt_head (gs := [.lit ['c']])
      (lit_ok ['c', 'o', 'n', 's', 't', 'a', 'n', 't'] (' ' :: (vc :: vm ++ (' ' :: (unit ++ X)))) 'c' _ rfl
        (by decide) (by decide)))
    exact (Ok_alt (OkAlt_tail g1 (OkAlt_head (asm _ _ _ hmd)))).mono (by decide)
  · -- c
    have n1 := lit_no ['i', 'n', 'i', 't', 'i', 'a', 'l'] (['c'] ++ (' ' :: (vc :: vm ++ (' ' :: (unit ++ X)))))
      'c' _ rfl (by decide) (by decide) (by simp [stripPrefix])
    have n2 := lit_no ['i'] (['c'] ++ (' ' :: (vc :: vm ++ (' ' :: (unit ++ X)))))
      'c' _ rfl (by decide) (by decide) (by simp [stripPrefix])
    have g1 := No_group (No_seq (NoSeq_tail hat (NoSeq_head (gs := [pil_gorf, pil_cunit])
      (No_alt (NoAlt_cons n1 (NoAlt_cons n2 (NoAlt_nil pil_env _ _)))))))
    have n3 := lit_no ['c', 'o', 'n', 's', 't', 'a', 'n', 't'] (['c'] ++ (' ' :: (vc :: vm ++ (' ' :: (unit ++ X)))))
      'c' _ rfl (by decide) (by decide) (by simp [stripPrefix])
    have o1 := lit_ok ['c'] (' ' :: (vc :: vm ++ (' ' :: (unit ++ X)))) 'c' _ rfl (by decide) (by decide)
    have hmd := Ok_alt (OkAlt_tail n3 (OkAlt_head (gs := []) o1))
    exact (Ok_alt (OkAlt_tail g1 (OkAlt_head (asm _ _ _ hmd)))).mono (by decide)


theorem TailOK_concX (mode : List Char) (vc : Char) (vm unit X : List Char) :
    TailOK (concTextX mode vc vm unit X) := by
  unfold concTextX
  have hsk : skipIgn (' ' :: '@' :: (mode ++ (' ' :: (vc :: vm ++ (' ' :: (unit ++ X)))))) =
      '@' :: (mode ++ (' ' :: (vc :: vm ++ (' ' :: (unit ++ X))))) := by
    have := skipIgn_blanks_cons 1 '@' (mode ++ (' ' :: (vc :: vm ++ (' ' :: (unit ++ X))))) (by decide) (by decide)
    simpa using this
  exact TailOK.of_cons _ (OutHd_cons _ _ _ ⟨outside_facts ' ' (by decide), by decide, by decide, by decide⟩) '@' _ hsk
    (punct_facts '@' (by decide)).1 (by decide)

/-- `name = <pattern> @mode value unit` in front of a tail -/
theorem kernel_conc_stmt_tail (nc : Char) (m : List Char) (L : List Ent) (toks : List Tree)
    (mode : List Char) (vc : Char) (vm unit X : List Char) (NE : Nat) (p : Pos)
    (hnc : nc ∈ identChars) (hm : ∀ x ∈ m, x ∈ identChars) (hL : L ≠ [])
    (hleg : ∀ e ∈ L, LegalEnt e) (hp : pItems (2 * L.length + 1) L = some (toks, []))
    (hmode : IsMode mode) (hvc : vc ∈ pp_nums) (hvm : ∀ x ∈ vm, x ∈ pp_nums) (hu : IsCunit unit)
    (heol : Ok pil_env NE {} eolG { rest := X, past := false } (p, [])) :
    Ok pil_env (max (8 * L.length + 70) (NE + 30)) {} pil_stmt
      { rest := kernelText nc m L (concTextX mode vc vm unit X), past := false }
      (p, [.grp [.tok "kernel-complex", .tok (String.ofList (nc :: m)), .grp toks,
        .grp [.tok (String.ofList mode), .tok (String.ofList (vc :: vm)), .tok (String.ofList unit)]]]) := by
  obtain ⟨h1, h2, h3⟩ := cplx_parts3 nc m L toks _ hnc hm hL hleg hp (TailOK_concX mode vc vm unit X)
  have h4 := Ok_opt_some (Ok_conc_tail mode vc vm unit X hmode hvc hvm hu)
  have hc : Ok pil_env (max (8 * L.length + 60) (NE + 10)) {} pil_cplx
      { rest := nc :: (m ++ (' ' :: '=' :: (sp L ++ concTextX mode vc vm unit X))), past := false }
      (p, [.grp [.tok "kernel-complex", .tok (String.ofList (nc :: m)), .grp toks,
        .grp [.tok (String.ofList mode), .tok (String.ofList (vc :: vm)), .tok (String.ofList unit)]]]) := by
    unfold pil_cplx
    have := Ok_group (Ok_tag (t := "kernel-complex") (Ok_seq (OkSeq_cons h1 (OkSeq_cons h2 (OkSeq_cons h3
      (OkSeq_cons h4 (OkSeq_cons heol (OkSeq_nil pil_env _ _))))))))
    simp only [List.nil_append, List.append_nil, List.cons_append] at this
    exact this.mono (by omega)
  have hstmt := stmt_before_cplx nc m _ hnc hm _ _ (OkAlt_head (gs := [pil_restingset]) hc)
  unfold kernelText
  exact hstmt.mono (by omega)

/-! ### strand-notation complexes -/

def complexTextX (a : Nat) (c : Char) (m : List Char) (b : Nat) (sign : Char) (d : List Char)
    (ds : List (List Char)) (dbc : Char) (dbm X : List Char) : List Char :=
  List.replicate a ' ' ++ (c :: m ++ (List.replicate b ' ' ++ (sign :: ('\n' :: (d ++ (spDoms ds ++
    ('\n' :: (dbc :: dbm ++ X))))))))

/-- the `complex` form (strands and dot-bracket on their own lines) in front of a line end -/
theorem complex_stmt_tail (a : Nat) (ha : 0 < a) (c : Char) (m : List Char) (b : Nat) (sign : Char)
    (hs : sign = '=' ∨ sign = ':') (d : List Char) (ds : List (List Char)) (dbc : Char) (dbm X : List Char)
    (NE : Nat) (p : Pos)
    (hc : c ∈ identChars) (hm : ∀ x ∈ m, x ∈ identChars) (hd : IsDom d) (hds : ∀ x ∈ ds, IsDom x)
    (hdbc : dbc ∈ dbCore) (hdbm : ∀ x ∈ dbm, x ∈ dbCore) (hX : OutHd (fun x => x ∉ dbChars) X)
    (heol : Ok pil_env NE {} eolG { rest := X, past := false } (p, [])) :
    Ok pil_env (max (ds.length + 40) (NE + 30)) {} pil_stmt
      { rest := 'c' :: (['o', 'm', 'p', 'l', 'e', 'x'] ++ complexTextX a c m b sign d ds dbc dbm X), past := false }
      (p, [.grp [.tok "strand-complex", .tok (String.ofList (c :: m)),
          .grp ((d :: ds).map (fun d => .tok (String.ofList d))), .tok (String.ofList (dbc :: dbm))]]) := by
  have hbody : Ok pil_env (max (ds.length + 24) (NE + 12)) {} complexBody
      { rest := 'c' :: (['o', 'm', 'p', 'l', 'e', 'x'] ++ complexTextX a c m b sign d ds dbc dbm X), past := false }
      (p, [.grp [.tok "strand-complex", .tok (String.ofList (c :: m)),
          .grp ((d :: ds).map (fun d => .tok (String.ofList d))), .tok (String.ofList (dbc :: dbm))]]) := by
    unfold complexBody complexTextX
    obtain ⟨dc, dm, st, rfl, hdc, hdm⟩ := hd
    have h1 := Ok_kw pil_env 'c' ['o', 'm', 'p', 'l', 'e', 'x'] (List.replicate a ' ' ++ (c :: m ++
      (List.replicate b ' ' ++ (sign :: ('\n' :: (dc :: dm ++ star st ++ (spDoms ds ++
      ('\n' :: (dbc :: dbm ++ X))))))))) (by decide) (by decide) (OutHd_kw_blanks a ha _)
    have h2 := Ok_ident pil_env a c m (List.replicate b ' ' ++ (sign :: ('\n' :: (dc :: dm ++ star st ++ (spDoms ds ++
      ('\n' :: (dbc :: dbm ++ X)))))))
      hc hm ((OutHd_sign b sign hs _).imp (fun x hx => hx.1))
    have h3 := Ok_assign pil_env b sign hs ('\n' :: (dc :: dm ++ star st ++ (spDoms ds ++
      ('\n' :: (dbc :: dbm ++ X)))))
    have h4 := Ok_opt_some (Ok_nl pil_env (dc :: dm ++ star st ++ (spDoms ds ++ ('\n' :: (dbc :: dbm ++ X)))))
    have tl := OutTail_nl_cons (dbc :: dbm ++ X)
    have h5a := Ok_domain pil_env 0 dc dm st (spDoms ds ++ ('\n' :: (dbc :: dbm ++ X))) hdc hdm
      (OutHd_spDoms ds _ tl.1)
    have h5b := OkMany_doms pil_env ds _ hds tl
    have h6 := Ok_opt_some (Ok_nl pil_env (dbc :: dbm ++ X))
    have h7 := Ok_db pil_env 0 dbc dbm X hdbc hdbm hX
    simp only [List.cons_append, List.append_assoc, List.replicate_zero, List.nil_append] at h1 h2 h3 h4 h5a h5b h6 h7 ⊢
    have h5 := Ok_group (Ok_many1 h5a h5b)
    have := Ok_group (Ok_tag (t := "strand-complex") (Ok_seq (OkSeq_cons h1 (OkSeq_cons h2 (OkSeq_cons h3
      (OkSeq_cons h4 (OkSeq_cons h5 (OkSeq_cons h6 (OkSeq_cons h7 (OkSeq_cons heol (OkSeq_nil pil_env _ _)))))))))))
    simp only [List.nil_append, List.append_nil, List.cons_append, List.map_cons] at this ⊢
    exact this.mono (by omega)
  exact (Ok_complex_stmt pil_env _ _ _ hbody).mono (by omega)

def structTextX (a : Nat) (c : Char) (m : List Char) (s1 : Char) (d : List Char)
    (ds : List (List Char)) (s2 : Char) (dbc : Char) (dbm X : List Char) : List Char :=
  List.replicate a ' ' ++ (c :: m ++ (' ' :: s1 :: ' ' :: (d ++ (psList ds ++
    (' ' :: s2 :: ' ' :: (dbc :: dbm ++ X))))))

/-- the `structure` form in front of a line end -/
theorem struct_stmt_tail (a : Nat) (ha : 0 < a) (c : Char) (m : List Char) (s1 s2 : Char)
    (hs1 : s1 = '=' ∨ s1 = ':') (hs2 : s2 = '=' ∨ s2 = ':') (d : List Char) (ds : List (List Char))
    (dbc : Char) (dbm X : List Char) (NE : Nat) (p : Pos)
    (hc : c ∈ identChars) (hm : ∀ x ∈ m, x ∈ identChars) (hd : IsDom d) (hds : ∀ x ∈ ds, IsDom x)
    (hdbc : dbc ∈ dbCore) (hdbm : ∀ x ∈ dbm, x ∈ dbCore) (hX : OutHd (fun x => x ∉ dbChars) X)
    (heol : Ok pil_env NE {} eolG { rest := X, past := false } (p, [])) :
    Ok pil_env (max (2 * ds.length + 40) (NE + 30)) {} pil_stmt
      { rest := 's' :: (['t', 'r', 'u', 'c', 't', 'u', 'r', 'e'] ++ structTextX a c m s1 d ds s2 dbc dbm X),
        past := false }
      (p, [.grp [.tok "strand-complex", .tok (String.ofList (c :: m)),
          .grp ((d :: ds).map (fun d => .tok (String.ofList d))), .tok (String.ofList (dbc :: dbm))]]) := by
  have hbody : Ok pil_env (max (2 * ds.length + 24) (NE + 12)) {} structBody
      { rest := 's' :: (['t', 'r', 'u', 'c', 't', 'u', 'r', 'e'] ++ structTextX a c m s1 d ds s2 dbc dbm X),
        past := false }
      (p, [.grp [.tok "strand-complex", .tok (String.ofList (c :: m)),
          .grp ((d :: ds).map (fun d => .tok (String.ofList d))), .tok (String.ofList (dbc :: dbm))]]) := by
    unfold structBody structTextX
    obtain ⟨dc, dm, st, rfl, hdc, hdm⟩ := hd
    have h1 := Ok_kw pil_env 's' ['t', 'r', 'u', 'c', 't', 'u', 'r', 'e'] (List.replicate a ' ' ++ (c :: m ++
      (' ' :: s1 :: ' ' :: (dc :: dm ++ star st ++ (psList ds ++ (' ' :: s2 :: ' ' :: (dbc :: dbm ++ X)))))))
      (by decide) (by decide) (OutHd_kw_blanks a ha _)
    have h2 := Ok_ident pil_env a c m (' ' :: s1 :: ' ' :: (dc :: dm ++ star st ++ (psList ds ++
      (' ' :: s2 :: ' ' :: (dbc :: dbm ++ X)))))
      hc hm (OutHd_cons _ _ _ (outside_facts ' ' (by decide)))
    have h3 := Ok_assign pil_env 1 s1 hs1 (' ' :: (dc :: dm ++ star st ++ (psList ds ++
      (' ' :: s2 :: ' ' :: (dbc :: dbm ++ X)))))
    have h4a := Ok_alt (OkAlt_head (gs := [.suppress (.lit ['+'])])
      (Ok_domain pil_env 1 dc dm st (psList ds ++ (' ' :: s2 :: ' ' :: (dbc :: dbm ++ X))) hdc hdm
        (OutHd_psList ds s2 _)))
    have h4b := OkMany_plusdoms pil_env ds s2 hs2 (' ' :: (dbc :: dbm ++ X)) hds
    have h5 := Ok_assign pil_env 1 s2 hs2 (' ' :: (dbc :: dbm ++ X))
    have h6 := Ok_db pil_env 1 dbc dbm X hdbc hdbm hX
    unfold domOrPlus at h4b
    simp only [List.cons_append, List.append_assoc, List.replicate_one, List.nil_append] at h1 h2 h3 h4a h4b h5 h6 ⊢
    have h4 := Ok_group (Ok_many1 h4a h4b)
    have := Ok_group (Ok_tag (t := "strand-complex") (Ok_seq (OkSeq_cons h1 (OkSeq_cons h2 (OkSeq_cons h3
      (OkSeq_cons h4 (OkSeq_cons h5 (OkSeq_cons h6 (OkSeq_cons heol (OkSeq_nil pil_env _ _))))))))))
    simp only [List.nil_append, List.append_nil, List.cons_append, List.map_cons] at this ⊢
    exact this.mono (by omega)
  exact (Ok_struct_stmt pil_env _ _ _ hbody).mono (by omega)

/-! ### reactions -/

theorem OkMany_ids_stop (env : Env) (xs : List (List Char)) (tail : List Char)
    (hx : ∀ x ∈ xs, IsId x) (ht : OutHd (fun x => x ∉ identChars) tail)
    (hstop : No env 2 {} (.suppress (.lit ['+'])) { rest := tail, past := false }) :
    OkMany env (xs.length + 6) {} (.seq [.suppress (.lit ['+']), pil_identifier])
      { rest := psList xs ++ tail, past := false }
      ({ rest := tail, past := false }, xs.map (fun d => .tok (String.ofList d))) := by
  induction xs with
  | nil =>
    have := OkMany_stop (No_seq (NoSeq_head (gs := [pil_identifier]) hstop))
    intro reps fuel hr hf
    simpa [psList] using this reps fuel (by omega) (by omega)
  | cons d ds ih =>
    obtain ⟨c, m, rfl, hc, hm⟩ := hx d (by simp)
    have ih' := ih (fun d hd' => hx d (List.mem_cons_of_mem _ hd'))
    have h1 := Ok_punct env 1 '+' (' ' :: (c :: m ++ (psList ds ++ tail))) (by decide) (by decide)
    have h2 := Ok_ident env 1 c m (psList ds ++ tail) hc hm (OutHd_psList_id ds tail ht)
    have hne : ({ rest := psList ds ++ tail, past := false } : Pos) ≠
        { rest := List.replicate 1 ' ' ++ ('+' :: ' ' :: (c :: m ++ (psList ds ++ tail))), past := false } :=
      pos_ne_of_length _ _ _ _ (by simp; omega)
    simp only [List.replicate_one, List.singleton_append] at h1 h2 hne
    have := OkMany_step (Ok_seq (OkSeq_cons h1 (OkSeq_cons h2 (OkSeq_nil env _ _)))) hne ih'
    rw [psList_cons]
    simp only [List.cons_append, List.append_assoc, List.nil_append, List.append_nil, List.map_cons,
      List.length_cons] at this ⊢
    intro reps fuel hr hf
    exact this reps fuel (by omega) (by omega)

theorem Ok_species_stop (env : Env) (n : Nat) (c : Char) (m : List Char) (xs : List (List Char)) (tail : List Char)
    (hc : c ∈ identChars) (hm : ∀ x ∈ m, x ∈ identChars)
    (hx : ∀ x ∈ xs, IsId x) (ht : OutHd (fun x => x ∉ identChars) tail)
    (hstop : No env 2 {} (.suppress (.lit ['+'])) { rest := tail, past := false }) :
    Ok env (xs.length + 12) {} (.group pil_species)
      { rest := List.replicate n ' ' ++ (c :: m ++ (psList xs ++ tail)), past := false }
      ({ rest := tail, past := false }, [.grp (((c :: m) :: xs).map (fun d => .tok (String.ofList d)))]) := by
  unfold pil_species
  have h1 := Ok_ident env n c m (psList xs ++ tail) hc hm (OutHd_psList_id xs tail ht)
  have h2 := Ok_many (OkMany_ids_stop env xs tail hx ht hstop)
  have := Ok_group (Ok_seq (OkSeq_cons h1 (OkSeq_cons h2 (OkSeq_nil env _ _))))
  simp only [List.append_nil, List.singleton_append, List.map_cons] at this ⊢
  exact this.mono (by omega)

/-- reactants, arrow, products; preceded by `n` blanks and followed by `X` -/
def rxTextX (n : Nat) (rc : Char) (rm : List Char) (rs : List (List Char)) (pc : Char) (pm : List Char)
    (ps : List (List Char)) (X : List Char) : List Char :=
  List.replicate n ' ' ++ (rc :: rm ++ (psList rs ++ (' ' :: '-' :: '>' :: ' ' :: (pc :: pm ++ (psList ps ++ X)))))

/-- a reaction statement (with whatever the information-box group yields) in front of a tail -/
theorem rx_stmt_tail (kw : List Char)
    (hkw : kw = ['r', 'e', 'a', 'c', 't', 'i', 'o', 'n'] ∨ kw = ['k', 'i', 'n', 'e', 't', 'i', 'c'])
    (T0 : List Char) (hT0 : OutHd (fun x => x ∉ identChars) T0) (NI : Nat) (itoks : List Tree)
    (n : Nat) (rc : Char) (rm : List Char) (rs : List (List Char)) (pc : Char) (pm : List Char) (ps : List (List Char))
    (X : List Char) (NE : Nat) (p : Pos)
    (hrc : rc ∈ identChars) (hrm : ∀ x ∈ rm, x ∈ identChars) (hrs : ∀ x ∈ rs, IsId x)
    (hpc : pc ∈ identChars) (hpm : ∀ x ∈ pm, x ∈ identChars) (hps : ∀ x ∈ ps, IsId x)
    (hinfo : Ok pil_env NI {} (.group (.opt pil_infobox)) { rest := T0, past := false }
      ({ rest := rxTextX n rc rm rs pc pm ps X, past := false }, [.grp itoks]))
    (hX : Tail X) (heol : Ok pil_env NE {} eolG { rest := X, past := false } (p, [])) :
    Ok pil_env (max (max NI (rs.length + ps.length) + 40) (NE + 30)) {} pil_stmt { rest := kw ++ T0, past := false }
      (p, [.grp [.tok "reaction", .grp itoks, .grp (((rc :: rm) :: rs).map (fun d => .tok (String.ofList d))),
          .grp (((pc :: pm) :: ps).map (fun d => .tok (String.ofList d)))]]) := by
  have hbody : ∀ (kc : Char) (ks : List Char), isWs kc = false → kc ≠ '#' →
      Ok pil_env (max (max NI (rs.length + ps.length) + 24) (NE + 12)) {} (rxBody (kc :: ks))
        { rest := kc :: (ks ++ T0), past := false }
        (p, [.grp [.tok "reaction", .grp itoks, .grp (((rc :: rm) :: rs).map (fun d => .tok (String.ofList d))),
          .grp (((pc :: pm) :: ps).map (fun d => .tok (String.ofList d)))]]) := by
    intro kc ks hk hk'
    unfold rxBody
    unfold rxTextX at hinfo
    have h1 := Ok_kw pil_env kc ks T0 hk hk' hT0
    have hsk1 : skipIgn (' ' :: '-' :: '>' :: ' ' :: (pc :: pm ++ (psList ps ++ X))) =
        '-' :: '>' :: ' ' :: (pc :: pm ++ (psList ps ++ X)) := by
      have := skipIgn_blanks_cons 1 '-' ('>' :: ' ' :: (pc :: pm ++ (psList ps ++ X))) (by decide) (by decide)
      simpa using this
    have h3 := Ok_species pil_env n rc rm rs (' ' :: '-' :: '>' :: ' ' :: (pc :: pm ++ (psList ps ++ X))) '-' _
      hrc hrm hrs (OutHd_cons _ _ _ (outside_facts ' ' (by decide))) hsk1 (by decide)
    have h4 : Ok pil_env 2 {} (.suppress (.lit ['-', '>']))
        { rest := ' ' :: '-' :: '>' :: ' ' :: (pc :: pm ++ (psList ps ++ X)), past := false }
        ({ rest := ' ' :: (pc :: pm ++ (psList ps ++ X)), past := false }, []) :=
      Ok_suppress (Ok_lit pil_env {} ['-', '>'] _ _ (by rw [pre_skip]; exact hsk1) rfl)
    have h5 := Ok_species_stop pil_env 1 pc pm ps X hpc hpm hps hX.outId (No_punct_tail pil_env X hX '+' (by decide))
    simp only [List.replicate_one, List.singleton_append] at h5
    have := Ok_group (Ok_tag (t := "reaction") (Ok_seq (OkSeq_cons h1 (OkSeq_cons hinfo (OkSeq_cons h3
      (OkSeq_cons h4 (OkSeq_cons h5 (OkSeq_cons heol (OkSeq_nil pil_env _ _)))))))))
    simp only [List.nil_append, List.append_nil, List.cons_append] at this ⊢
    exact this.mono (by omega)
  rcases hkw with rfl | rfl
  · exact (Ok_rx_stmt pil_env _ (Or.inl rfl) _ _ _ (hbody 'r' _ (by decide) (by decide))).mono (by omega)
  · exact (Ok_rx_stmt pil_env _ (Or.inr rfl) _ _ _ (hbody 'k' _ (by decide) (by decide))).mono (by omega)

/-- the information-box group is empty in front of the reactants -/
theorem Ok_noinfo (a : Nat) (rc : Char) (rm : List Char) (rs : List (List Char)) (pc : Char) (pm : List Char)
    (ps : List (List Char)) (X : List Char) (hrc : rc ∈ identChars) :
    Ok pil_env 6 {} (.group (.opt pil_infobox)) { rest := rxTextX (a + 1) rc rm rs pc pm ps X, past := false }
      ({ rest := rxTextX (a + 1) rc rm rs pc pm ps X, past := false }, [.grp []]) := by
  have hrcf := ident_facts rc hrc
  have hbr : rc ≠ '[' := fun e => (punct_facts '[' (by decide)).1 (e ▸ hrc)
  unfold pil_infobox
  have hsk : skipIgn (rxTextX (a + 1) rc rm rs pc pm ps X) = rc :: (rm ++ (psList rs ++
      (' ' :: '-' :: '>' :: ' ' :: (pc :: pm ++ (psList ps ++ X))))) := by
    unfold rxTextX
    rw [List.cons_append]
    exact skipIgn_blanks_cons (a + 1) rc _ hrcf.1 hrcf.2.1
  have := No_punct pil_env { rest := rxTextX (a + 1) rc rm rs pc pm ps X, past := false } '[' rc _ hsk hbr
  exact (Ok_group (Ok_opt_none (No_seq (NoSeq_head this)))).mono (by decide)

end Dsd.Pil
