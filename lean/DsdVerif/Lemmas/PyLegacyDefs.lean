/-
The translated legacy `DSD_Complex` (Gen/PyLegacy.lean, from dsdobjects/core/deprecated.py) against the hand-written statement-level
model `Lg.LObj` (Model/LegacyFull.lean): the correspondence of object states and of exception classes, and how the state monad runs.
-/
import DsdVerif.Gen.PyLegacy
import DsdVerif.Model.LegacyFull
import DsdVerif.Lemmas.PyObjBasic

namespace Dsd.PyLegacy
open Dsd Dsd.Gen Dsd.Lg

/-- the exception classes of the model as the translator names them (messages dropped; `DSDObjectsError` has no constructor of its
    own in `Err`) -/
def errOf : LErr → Err
  | .objects _ => .fault "DSDObjectsError"
  | .duplication _ _ => .fault "DSDDuplicationError"
  | .secondaryStructure => .secondaryStructure
  | .notImplemented => .notImplemented
  | .fault k => .fault k

/-- the part of a model object that the translated methods read or write -/
def ofL (o : LObj) : DSD_Complex.Self :=
  { _sequence := o.seq, _structure := o.sst, _strand_lengths := o.strandLengths, _pair_table := o.pairTable,
    _loop_index := o.loopIndex, _exterior_loops := o.exteriorLoops, _lol_sequence := o.lolSequence,
    _exterior_domains := o.exteriorDomains, _enclosed_domains := o.enclosedDomains }

/-- a model object with the translated part replaced (every `Self` is `ofL` of such an object: `ofL_toL`) -/
def toL (base : LObj) (s : DSD_Complex.Self) : LObj :=
  { base with seq := s._sequence, sst := s._structure, strandLengths := s._strand_lengths, pairTable := s._pair_table,
              loopIndex := s._loop_index, exteriorLoops := s._exterior_loops, lolSequence := s._lol_sequence,
              exteriorDomains := s._exterior_domains, enclosedDomains := s._enclosed_domains }

theorem ofL_toL (base : LObj) (s : DSD_Complex.Self) : ofL (toL base s) = s := rfl

/-- what `__init__` assigns is the model's new instance -/
theorem ofL_init (id : Nat) (name : String) (seq : List String) (sst : List Char) (mc : Bool) :
    ofL { id := id, name := name, seq := seq, sst := sst, memorycheck := mc } = py_DSD_Complex_init seq sst := rfl

/-- the answer of a method that cannot fail in the model -/
def okAns {α} (r : LObj × α) : Except Err α × DSD_Complex.Self := (.ok r.2, ofL r.1)

/-- the answer of a method that can raise -/
def exAns {α} (r : LObj × Except LErr α) : Except Err α × DSD_Complex.Self :=
  (match r.2 with | .ok a => .ok a | .error e => .error (errOf e), ofL r.1)

/-- Python truthiness of a `None`-able list: the two definitions agree -/
theorem truthy_eq {α} (o : Option (List α)) : Py.truthyOL o = truthy o := by
  cases o with
  | none => rfl
  | some l => cases l <;> rfl

/-- a fold of steps that do not touch the object is the fold of the steps on the locals -/
theorem exec_foldlM_pure {σ α β : Type} (f : β → α → Py.MS σ β) (g : β → α → Except Err β)
    (h : ∀ v x s, (f v x).exec s = (g v x, s)) : ∀ (l : List α) (v : β) (s : σ),
    (List.foldlM f v l).exec s = (List.foldlM g v l, s) := by
  intro l
  induction l with
  | nil => intro v s; rfl
  | cons x xs ih =>
    intro v s
    rw [List.foldlM_cons, List.foldlM_cons, PyObj.Basic.exec_bind, h]
    cases hg : g v x with
    | error e => rfl
    | ok v' => simp only [ih]; rfl

end Dsd.PyLegacy
