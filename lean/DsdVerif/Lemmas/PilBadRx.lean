/-
Malformed rates in the information box of a PIL reaction (C13, negative clause): a rate that does not start with a
digit (`.5`), a decimal point without digits behind it (`1.`), an exponent without digits (`1e`, `1e+`), and rate
units without a time unit (`5 /M`).  In every case the information box fails, the reaction alternative then expects
its species at `[` and fails as well, and so does `pil_stmt`.
-/
import DsdVerif.Lemmas.PilBadStmts
import DsdVerif.Lemmas.PPSswStream
import DsdVerif.Lemmas.PilGapsRx

namespace Dsd.Pil
open Dsd.PP Dsd.Gen

/-! ### `gorf` stops / fails -/

section
open Dsd.PP.Ssw
variable {env : Env}

/-- the exponent part of the scientific form: `e`, an optional sign, digits -/
abbrev expG : List G := [.lit ['e'], .opt (.alt [.lit ['-'], .lit ['+']]), .word pp_nums pp_nums]

/-- `gorf` reads the mantissa `m` and stops in front of `z` when the exponent part fails there -/
theorem ev_gorf_stop (k : Nat) {m : List Char} {ss : List String} (hm : Mant m ss) (z : Char) (Z : List Char)
    (hz : pp_nums.contains z = false) (hdot : '.' ≠ z) (b : Nat)
    (hexp : EvSeq env nsk expG (P (z :: Z)) none b) :
    Ev env sk pil_gorf (P (Ssw.bl k ++ (m ++ z :: Z))) (some (P (z :: Z), [numT m])) (b + 20) := by
  obtain ⟨d, ds, rfl, hd⟩ := hm.head
  obtain ⟨w1, w2, _⟩ := Ssw.nums_facts d hd
  have hpre : pre sk (P (Ssw.bl k ++ (d :: ds ++ z :: Z))) = P (d :: ds ++ z :: Z) := pre_bl_cons k d _ w1 w2
  have hsci : Ev env sk pil_num_sci (P (Ssw.bl k ++ (d :: ds ++ z :: Z))) none (b + 10) := by
    unfold pil_num_sci
    apply Ev.cast
    · apply ev_combine_fail
      rw [hpre]
      apply ev_seq
      exact evs_mant_fail hm z Z hz hdot _ _ hexp
    · rfl
    · omega
  have hflt : Ev env sk pil_num_flt (P (Ssw.bl k ++ (d :: ds ++ z :: Z))) (some (P (z :: Z), [numT (d :: ds)])) 10 := by
    unfold pil_num_flt
    have hin : Ev env nsk (.seq [pil_number, .opt (.seq [.lit ['.'], pil_number])]) (P (d :: ds ++ z :: Z))
        (some (P (z :: Z), ss.map .tok)) 8 :=
      (ev_seq (evs_mant hm z Z hz hdot [] _ _ _ evs_nil)).cast (by simp) (by decide)
    have hcomb := ev_combine_toks (env := env) (ctx := sk) (p := P (Ssw.bl k ++ (d :: ds ++ z :: Z))) ss
      (by rw [hpre]; exact hin) (by have := hm.len; omega)
    refine hcomb.cast ?_ (by decide)
    rw [hm.join]
  unfold pil_gorf
  exact (ev_alt (eva_skip hsci (eva_ok hflt))).cast rfl (by omega)

/-- the exponent part fails where there is no `e` -/
theorem expG_fail_noe (z : Char) (Z : List Char) (he : 'e' ≠ z) : EvSeq env nsk expG (P (z :: Z)) none 1 :=
  evs_fail_head (ev_lit_fail 'e' z [] Z (by rw [pre_nsk]) he)

/-- … and at `e` that is not followed by digits (nor by a sign) -/
theorem expG_fail_e (c : Char) (r : List Char) (hc : pp_nums.contains c = false) (hm : '-' ≠ c) (hp : '+' ≠ c) :
    EvSeq env nsk expG (P ('e' :: c :: r)) none 8 := by
  have hsign : Ev env nsk (.opt (.alt [.lit ['-'], .lit ['+']])) (P (c :: r)) (some (P (c :: r), [])) 4 :=
    (ev_opt_none (ev_alt (eva_skip (ev_lit_fail '-' c [] r (by rw [pre_nsk]) hm)
      (eva_skip (ev_lit_fail '+' c [] r (by rw [pre_nsk]) hp) eva_nil)))).cast rfl (by decide)
  exact (evs_fail_tail (ev_lit_nsk ['e'] (c :: r)) (evs_fail_tail hsign
    (evs_fail_head (ev_word_fail _ _ c r (by rw [pre_nsk]) hc)))).cast rfl (by decide)

/-- … and at `e`, a sign, and no digit -/
theorem expG_fail_esign (s c : Char) (r : List Char) (hs : s = '-' ∨ s = '+') (hc : pp_nums.contains c = false) :
    EvSeq env nsk expG (P ('e' :: s :: c :: r)) none 10 := by
  have hsign : Ev env nsk (.opt (.alt [.lit ['-'], .lit ['+']])) (P (s :: c :: r)) (some (P (c :: r), [.tok (String.ofList [s])])) 6 := by
    rcases hs with rfl | rfl
    · exact (ev_opt_some (ev_alt (eva_ok (ev_lit_nsk ['-'] (c :: r))))).cast rfl (by decide)
    · exact (ev_opt_some (ev_alt (eva_skip (ev_lit_fail '-' '+' [] (c :: r) (by rw [pre_nsk]; rfl) (by decide))
        (eva_ok (ev_lit_nsk ['+'] (c :: r)))))).cast rfl (by decide)
  exact (evs_fail_tail (ev_lit_nsk ['e'] (s :: c :: r)) (evs_fail_tail hsign
    (evs_fail_head (ev_word_fail _ _ c r (by rw [pre_nsk]) hc)))).cast rfl (by decide)

/-- `v.` without digits behind the point: `gorf` reads `v` and stops in front of the point -/
theorem ev_gorf_int_dot (k : Nat) (v : List Char) (hv : Ssw.Dig v) (c : Char) (r : List Char)
    (hc : pp_nums.contains c = false) :
    Ev env sk pil_gorf (P (Ssw.bl k ++ (v ++ '.' :: c :: r))) (some (P ('.' :: c :: r), [numT v])) 20 := by
  obtain ⟨d, ds, rfl, hd, _⟩ := hv.cons
  obtain ⟨w1, w2, _⟩ := Ssw.nums_facts d hd
  have hpre : pre sk (P (Ssw.bl k ++ (d :: ds ++ '.' :: c :: r))) = P (d :: ds ++ '.' :: c :: r) :=
    pre_bl_cons k d _ w1 w2
  have hnum := ev_number_nsk (env := env) (d :: ds) hv '.' (c :: r) (by decide)
  have hopt : Ev env nsk (.opt (.seq [.lit ['.'], pil_number])) (P ('.' :: c :: r)) (some (P ('.' :: c :: r), [])) 4 :=
    (ev_opt_none (ev_seq (evs_fail_tail (ev_lit_nsk ['.'] (c :: r))
      (evs_fail_head (ev_word_fail _ _ c r (by rw [pre_nsk]) hc))))).cast rfl (by decide)
  have hsci : Ev env sk pil_num_sci (P (Ssw.bl k ++ (d :: ds ++ '.' :: c :: r))) none 10 := by
    unfold pil_num_sci
    apply Ev.cast
    · apply ev_combine_fail
      rw [hpre]
      apply ev_seq
      apply evs_fail_tail hnum
      apply evs_fail_tail hopt
      exact evs_fail_head (ev_lit_fail 'e' '.' [] (c :: r) (by rw [pre_nsk]) (by decide))
    · rfl
    · decide
  have hflt : Ev env sk pil_num_flt (P (Ssw.bl k ++ (d :: ds ++ '.' :: c :: r)))
      (some (P ('.' :: c :: r), [numT (d :: ds)])) 10 := by
    unfold pil_num_flt
    have hin : Ev env nsk (.seq [pil_number, .opt (.seq [.lit ['.'], pil_number])]) (P (d :: ds ++ '.' :: c :: r))
        (some (P ('.' :: c :: r), [numT (d :: ds)])) 8 :=
      (ev_seq (evs_cons hnum (evs_cons hopt evs_nil))).cast rfl (by decide)
    have hcomb := ev_combine_single (env := env) (ctx := sk) (p := P (Ssw.bl k ++ (d :: ds ++ '.' :: c :: r)))
      (by rw [hpre]; exact hin)
    exact hcomb.cast rfl (by decide)
  unfold pil_gorf
  exact (ev_alt (eva_skip hsci (eva_ok hflt))).cast rfl (by decide)

/-- `gorf` fails where no digit stands -/
theorem ev_gorf_fail_at (k : Nat) (c : Char) (r : List Char) (h1 : isWs c = false) (h2 : c ≠ '#')
    (hc : pp_nums.contains c = false) : Ev env sk pil_gorf (P (Ssw.bl k ++ c :: r)) none 8 := by
  have hpre : pre sk (P (Ssw.bl k ++ c :: r)) = P (c :: r) := pre_bl_cons k c r h1 h2
  have hnum : Ev env nsk pil_number (P (c :: r)) none 0 := by
    unfold pil_number
    exact ev_word_fail _ _ c r (by rw [pre_nsk]) hc
  have hsci : Ev env sk pil_num_sci (P (Ssw.bl k ++ c :: r)) none 3 := by
    unfold pil_num_sci
    apply Ev.cast
    · apply ev_combine_fail
      rw [hpre]
      exact ev_seq (evs_fail_head hnum)
    · rfl
    · decide
  have hflt : Ev env sk pil_num_flt (P (Ssw.bl k ++ c :: r)) none 3 := by
    unfold pil_num_flt
    apply Ev.cast
    · apply ev_combine_fail
      rw [hpre]
      exact ev_seq (evs_fail_head hnum)
    · rfl
    · decide
  unfold pil_gorf
  exact (ev_alt (eva_skip hsci (eva_skip hflt eva_nil))).cast rfl (by decide)

/-- the rate part of the information box: the value with its optional error, the units, the closing bracket -/
abbrev rateG : List G :=
  [.group (.seq [pil_gorf, .opt (.seq [.suppress (.lit ['+', '/', '-']), pil_ginf])]), .group pil_runit,
    .suppress (.lit [']'])]

/-- the rate unit fails where no `/` stands -/
theorem ev_runit_fail_at (k : Nat) (z : Char) (Z : List Char) (h1 : isWs z = false) (h2 : z ≠ '#') (h3 : '/' ≠ z) :
    Ev env sk pil_runit (P (Ssw.bl k ++ z :: Z)) none 8 := by
  unfold pil_runit
  have hpre : pre sk (P (Ssw.bl k ++ z :: Z)) = P (z :: Z) := pre_bl_cons k z Z h1 h2
  have hl : Ev env nsk (.lit ['/']) (P (z :: Z)) none 0 := ev_lit_fail '/' z [] Z (by rw [pre_nsk]) h3
  have hmany : Ev env nsk (.many (.seq [.lit ['/'], pil_cunit])) (P (z :: Z)) (some (P (z :: Z), [])) 4 :=
    (ev_many (evm_stop (ev_seq (evs_fail_head hl)))).cast rfl (by decide)
  apply Ev.cast
  · apply ev_combine_fail
    rw [hpre]
    exact ev_seq (evs_fail_tail hmany (evs_fail_head hl))
  · rfl
  · decide

/-- when `gorf` stops in front of a character that starts neither the error term nor the units, the rate part
    fails -/
theorem rate_stop_fail (T : List Char) (m : List Char) (z : Char) (Z : List Char) (bg : Nat)
    (hg : Ev env sk pil_gorf (P T) (some (P (z :: Z), [numT m])) bg)
    (h1 : isWs z = false) (h2 : z ≠ '#') (h3 : '/' ≠ z) (h4 : '+' ≠ z) :
    EvSeq env sk rateG (P T) none (bg + 20) := by
  have hpre : (pre sk (P (z :: Z))).rest = z :: Z := by
    have := pre_bl_cons 0 z Z h1 h2
    simpa using congrArg Pos.rest this
  have hopt : Ev env sk (.opt (.seq [.suppress (.lit ['+', '/', '-']), pil_ginf])) (P (z :: Z))
      (some (P (z :: Z), [])) 4 :=
    (ev_opt_none (ev_seq (evs_fail_head (ev_suppress_fail
      (ev_lit_fail '+' z ['/', '-'] Z hpre h4))))).cast rfl (by decide)
  have hgrp := ev_group (ev_seq (evs_cons hg (evs_cons hopt evs_nil)))
  have hru : Ev env sk (.group pil_runit) (P (z :: Z)) none 9 := by
    have := ev_runit_fail_at (env := env) 0 z Z h1 h2 h3
    exact ev_group_fail (by simpa using this)
  exact (evs_fail_tail hgrp (evs_fail_head hru)).cast rfl (by omega)

/-- a rate that does not start with a digit -/
theorem rate_nondigit_fail (k : Nat) (c : Char) (r : List Char) (h1 : isWs c = false) (h2 : c ≠ '#')
    (hc : pp_nums.contains c = false) : EvSeq env sk rateG (P (Ssw.bl k ++ c :: r)) none 12 :=
  (evs_fail_head (ev_group_fail (ev_seq (evs_fail_head (ev_gorf_fail_at k c r h1 h2 hc))))).cast rfl (by decide)

end

/-! ### the reaction statement with a malformed rate part -/

/-- `reaction [ty = RATE…` / `kinetic [ty = RATE…`: the rate part of the information box fails -/
theorem No_rx_badinfo (K : List Char) (hK : K = K_kinetic ∨ K = K_reaction) (n g0 : Nat) (tc : Char)
    (tm : List Char) (g1 : Nat) (sign : Char) (hs : sign = '=' ∨ sign = ':') (g2 : Nat) (Y : List Char) (N : Nat)
    (htc : tc ∈ identChars) (htm : ∀ x ∈ tm, x ∈ identChars)
    (hY : NoSeq pil_env N {} rateG { rest := bl g2 ++ Y, past := false }) :
    No pil_env (N + 60) {} pil_stmt
      { rest := K ++ (bl n ++ ('[' :: (bl g0 ++ (tc :: tm ++ (bl g1 ++ (sign :: (bl g2 ++ Y))))))), past := false } := by
  have hKm : K ∈ keywords := by rcases hK with rfl | rfl <;> decide
  have hX : OutHd (fun x => x ∉ identChars)
      (bl n ++ ('[' :: (bl g0 ++ (tc :: tm ++ (bl g1 ++ (sign :: (bl g2 ++ Y))))))) :=
    OutHd_blanks _ n _ blank_out (OutHd_cons _ '[' _ (by decide))
  have i1 := Ok_punct pil_env n '[' (bl g0 ++ (tc :: tm ++ (bl g1 ++ (sign :: (bl g2 ++ Y))))) (by decide) (by decide)
  have i2a := Ok_ident pil_env g0 tc tm (bl g1 ++ (sign :: (bl g2 ++ Y))) htc htm
    ((OutHd_sign g1 sign hs _).imp (fun x hx => hx.1))
  have i2b := Ok_assign pil_env g1 sign hs (bl g2 ++ Y)
  have i2 := Ok_group (Ok_opt_some (Ok_seq (OkSeq_cons i2a (OkSeq_cons i2b (OkSeq_nil pil_env _ _)))))
  have hbox : No pil_env (N + 20) {} pil_infobox
      { rest := bl n ++ ('[' :: (bl g0 ++ (tc :: tm ++ (bl g1 ++ (sign :: (bl g2 ++ Y)))))), past := false } := by
    unfold pil_infobox
    exact (No_seq (NoSeq_tail i1 (NoSeq_tail i2 hY))).mono (by omega)
  have hopt := Ok_group (Ok_opt_none hbox)
  have hsp : No pil_env 4 {} (.group pil_species)
      { rest := bl n ++ ('[' :: (bl g0 ++ (tc :: tm ++ (bl g1 ++ (sign :: (bl g2 ++ Y)))))), past := false } := by
    unfold pil_species pil_identifier
    exact (No_group (No_seq (NoSeq_head (No_class pil_env identChars n '[' _ (by decide) (by decide) (by decide))))).mono
      (by decide)
  refine (No_stmt_kw K _ hKm hX (N + 30) ?_ ?_).mono (by omega)
  · intro L hL
    have : L = tlRx := by rcases hK with rfl | rfl <;> simp [tailsOf] at hL <;> simp [hL]
    subst this
    exact (NoSeq_tail hopt (NoSeq_head hsp)).mono (by omega)
  · exact (No_cplx_at_kw K _ hKm hX (strip_eq_none n '[' _ (by decide) (by decide) (by decide))).mono (by omega)

/-- the concentration units, then no further `/` -/
theorem OkMany_cunits_stop (env : Env) (cus : List (List Char)) (c : Char) (r : List Char)
    (hcu : ∀ u ∈ cus, IsCunit u) (hc : c ≠ '/') :
    OkMany env (cus.length + 12) { skip := false } (.seq [.lit ['/'], pil_cunit])
      { rest := cuText cus ++ c :: r, past := false }
      ({ rest := c :: r, past := false }, (cuWords cus).map (fun w => .tok (String.ofList w))) := by
  induction cus with
  | nil =>
    have h1 : No env 1 { skip := false } (.lit ['/']) { rest := c :: r, past := false } :=
      No_lit env _ _ _ (by rw [pre_noskip]; simp [stripPrefix, Ne.symm hc])
    have := OkMany_stop (No_seq (NoSeq_head (gs := [pil_cunit]) h1))
    intro reps fuel hr hf
    simpa [cuText, cuWords] using this reps fuel (by simp at hr; omega) (by simp at hf; omega)
  | cons u cus ih =>
    have ih' := ih (fun x hx => hcu x (List.mem_cons_of_mem _ hx))
    have h1 : Ok env 1 { skip := false } (.lit ['/'])
        { rest := '/' :: (u ++ (cuText cus ++ c :: r)), past := false }
        ({ rest := u ++ (cuText cus ++ c :: r), past := false }, [.tok (String.ofList ['/'])]) :=
      Ok_lit env _ ['/'] _ _ rfl rfl
    have h2 := Ok_cunit env { skip := false } { rest := u ++ (cuText cus ++ c :: r), past := false }
      u _ (hcu u (by simp)) rfl rfl
    have hne : ({ rest := cuText cus ++ c :: r, past := false } : Pos) ≠
        { rest := '/' :: (u ++ (cuText cus ++ c :: r)), past := false } :=
      pos_ne_of_length _ _ _ _ (by simp; omega)
    have := OkMany_step (Ok_seq (OkSeq_cons h1 (OkSeq_cons h2 (OkSeq_nil env _ _)))) hne ih'
    rw [cuText_cons, cuWords_cons]
    simp only [List.cons_append, List.append_assoc, List.nil_append, List.append_nil, List.map_cons,
      List.length_cons] at this ⊢
    intro reps fuel hr hf
    exact this reps fuel (by omega) (by omega)

theorem cuText_head' (cus : List (List Char)) (c : Char) (r : List Char) :
    ∃ x t, cuText cus ++ c :: r = x :: t ∧ (x = '/' ∨ x = c) := by
  cases cus with
  | nil => exact ⟨c, r, rfl, Or.inr rfl⟩
  | cons u cus => rw [cuText_cons]; exact ⟨'/', _, rfl, Or.inl rfl⟩

/-- a well-formed rate, concentration units, but no time unit: the rate part fails -/
theorem rate_notime_fail (g2 : Nat) (rate : Num) (hrate : rate.OK) (g3 : Nat) (cus : List (List Char))
    (hcu : ∀ u ∈ cus, IsCunit u) (c : Char) (r : List Char) (h1 : isWs c = false) (h2 : c ≠ '#') (h3 : c ≠ '/')
    (h4 : c ≠ '+') (h5 : NumEnd c) :
    NoSeq pil_env (cus.length + 60) {} rateG
      { rest := bl g2 ++ (rate.text ++ (bl g3 ++ (cuText cus ++ c :: r))), past := false } := by
  obtain ⟨x, t, hxt, hx⟩ := cuText_head' cus c r
  have hxf : isWs x = false ∧ x ≠ '#' ∧ x ≠ '+' ∧ NumEnd x := by
    rcases hx with rfl | rfl
    · exact ⟨by decide, by decide, by decide, numEnd_facts.2.1⟩
    · exact ⟨h1, h2, h4, h5⟩
  have hnum : OutHd NumEnd (bl g3 ++ (cuText cus ++ c :: r)) := by
    rw [hxt]; exact OutHd_blanks NumEnd g3 _ numEnd_facts.1 (OutHd_cons _ x t hxf.2.2.2)
  have i3a := Ok_gorf pil_env g2 rate hrate (bl g3 ++ (cuText cus ++ c :: r)) hnum
  have hsk : skipIgn (bl g3 ++ (cuText cus ++ c :: r)) = x :: t := by
    rw [hxt]; exact skipIgn_blanks_cons g3 x t hxf.1 hxf.2.1
  have i3b : Ok pil_env 6 {} (.opt (.seq [.suppress (.lit ['+', '/', '-']), pil_ginf]))
      { rest := bl g3 ++ (cuText cus ++ c :: r), past := false }
      ({ rest := bl g3 ++ (cuText cus ++ c :: r), past := false }, []) := by
    have hno : No pil_env 2 {} (.suppress (.lit ['+', '/', '-'])) { rest := bl g3 ++ (cuText cus ++ c :: r), past := false } := by
      apply No_suppress; apply No_lit
      rw [pre_skip, hsk]
      simp [stripPrefix, Ne.symm hxf.2.2.1]
    exact (Ok_opt_none (No_seq (NoSeq_head (gs := [pil_ginf]) hno))).mono (by decide)
  have i3 := Ok_group (Ok_seq (OkSeq_cons i3a (OkSeq_cons i3b (OkSeq_nil pil_env _ _))))
  have hru : No pil_env (cus.length + 20) {} (.group pil_runit)
      { rest := bl g3 ++ (cuText cus ++ c :: r), past := false } := by
    unfold pil_runit
    have hpre : pre {} { rest := bl g3 ++ (cuText cus ++ c :: r), past := false } =
        { rest := cuText cus ++ c :: r, past := false } := by
      show (⟨skipIgn _, false⟩ : Pos) = _
      rw [hsk, hxt]
    have hm := Ok_many (OkMany_cunits_stop pil_env cus c r hcu h3)
    have hl : No pil_env 1 { skip := false } (.lit ['/']) { rest := c :: r, past := false } :=
      No_lit pil_env _ _ _ (by rw [pre_noskip]; simp [stripPrefix, Ne.symm h3])
    have := No_group (No_combine (ctx := {}) (p := { rest := bl g3 ++ (cuText cus ++ c :: r), past := false })
      (hpre ▸ No_seq (NoSeq_tail hm (NoSeq_head (gs := [pil_tunit]) hl))))
    exact this.mono (by omega)
  simp only [List.append_nil] at i3
  exact (NoSeq_tail i3 (NoSeq_head hru)).mono (by omega)

end Dsd.Pil
