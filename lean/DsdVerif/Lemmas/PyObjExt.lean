import DsdVerif.Lemmas.PyObjDefs
import DsdVerif.Lemmas.LoopObj

set_option linter.unusedSimpArgs false
set_option linter.unusedVariables false

namespace Dsd.PyObj.Ext
open Dsd Gen

/-! ### running the monad -/

section exec
variable {σ α β : Type}

theorem exec_pure (a : α) (s : σ) : (pure a : Py.MS σ α).exec s = (.ok a, s) := rfl

theorem exec_bind (m : Py.MS σ α) (f : α → Py.MS σ β) (s : σ) :
    (m >>= f).exec s = match m.exec s with
      | (.ok a, s') => (f a).exec s'
      | (.error e, s') => (.error e, s') := by
  simp only [Py.MS.exec, ExceptT.run, bind, ExceptT.bind, ExceptT.mk, ExceptT.bindCont, StateT.bind, StateT.run]
  cases h : m s with
  | mk r s' => cases r <;> rfl

theorem exec_get (s : σ) : (get : Py.MS σ σ).exec s = (.ok s, s) := rfl

theorem exec_modify (f : σ → σ) (s : σ) : (modify f : Py.MS σ PUnit).exec s = (.ok ⟨⟩, f s) := rfl

theorem exec_throw (e : Err) (s : σ) : (throw e : Py.MS σ α).exec s = (.error e, s) := rfl

theorem exec_lift (x : Except Err α) (s : σ) : (liftM x : Py.MS σ α).exec s = (x, s) := by
  cases x <;> rfl

theorem exec_monadLift (x : Except Err α) (s : σ) : (monadLift x : Py.MS σ α).exec s = (x, s) := by
  cases x <;> rfl

end exec

theorem pure_ok {α} (a : α) : (pure a : Except Err α) = .ok a := rfl
theorem pure_ok' {α} (a : α) : (pure a : Py.M α) = .ok a := rfl
theorem throw_err {α} (e : Err) : (throw e : Py.M α) = .error e := rfl
theorem default_nil {α} : (default : List α) = [] := rfl

theorem exec_yield_pt (l : List (List (Option (Nat × Nat)))) (v : ComplexS_pair_table.Vars) (s : ComplexS.Self) :
    (List.foldlM ComplexS_pair_table.loop1 v l : ComplexS.M _).exec s = (.ok { yielded := v.yielded ++ l }, s) := by
  induction l generalizing v with
  | nil => simp [List.foldlM, exec_pure]
  | cons x xs ih =>
    rw [List.foldlM_cons, exec_bind]
    simp only [ComplexS_pair_table.loop1, exec_pure]
    rw [ih]; simp

theorem exec_pair_table (s : ComplexS.Self) :
    py_ComplexS_pair_table.exec s =
      if Py.truthyOL s._pair_table then (.ok (s._pair_table.getD []), s) else
      match makePairTable s._structure with
      | .ok pt => (.ok pt, { s with _pair_table := some pt })
      | .error e => (.error e, s) := by
  unfold py_ComplexS_pair_table
  simp only [exec_bind, exec_get]
  by_cases hc : Py.truthyOL s._pair_table
  · simp only [hc, Bool.not_true, Bool.false_eq_true, if_false, if_true, exec_bind, exec_get]
    cases hp : s._pair_table with
    | none => rw [hp] at hc; simp [Py.truthyOL] at hc
    | some t =>
      simp only [Py.unwrap, exec_lift, exec_yield_pt, exec_pure]
      simp [pure_ok, default_nil]
  · simp only [hc, Bool.not_false, if_true, exec_bind, exec_get, exec_lift, PyFuncs.py_make_pair_table_eq]
    cases hm : makePairTable s._structure with
    | error e => simp
    | ok pt => simp [exec_modify, exec_bind, exec_get, Py.unwrap, exec_lift, exec_yield_pt, exec_pure, pure_ok, default_nil]

/-! ### shape of the loop index, non-empty pair tables -/

section shape
open Dsd.Bracket Dsd.C06

theorem li_shape (sst : List Char) (pt : PairTable) (lo : LoopOut) (h : makePairTable sst = .ok pt)
    (hl : makeLoopIndex pt false = .ok lo) : lo.loopIndex.map List.length = pt.map List.length := by
  obtain ⟨syms, t, L, _⟩ := Split.mpt_linF sst '+' pt h
  obtain ⟨e1, _⟩ := LoopObj.plain_out L lo hl
  have inv := Loop.linv_St _ t L.hM (by rw [L.tlen, L.wlen]) syms.flatten.length (Nat.le_refl _)
  rw [e1, reshape_shape _ _ (by rw [← L.wlen, ← inv.len, L.tlen, L.wlen]), L.shape]

theorem mpt_ne_nil (sst : List Char) (pt : PairTable) (h : makePairTable sst = .ok pt) : pt ≠ [] := by
  intro hp
  have := C06.mpt_shape sst '+' pt h
  rw [hp] at this
  exact PyEq.splitOn_ne_nil '+' sst (by simpa using this.symm)

end shape

theorem liOf_shape (sst : List Char) (pt : PairTable) (l e) (h : makePairTable sst = .ok pt)
    (hl : CplxObj.liOf pt = .ok (l, e)) : l.map List.length = pt.map List.length := by
  obtain ⟨lo, h1, h2⟩ := (C03.liOf_iff pt (l, e)).1 hl
  cases h2
  exact li_shape sst pt lo h h1

theorem truthy_iff {α} (o : Option (List α)) : Py.truthyOL o = true ↔ ∃ l, o = some l ∧ l ≠ [] := by
  cases o with
  | none => simp [Py.truthyOL]
  | some l => cases l <;> simp [Py.truthyOL]

theorem falsy_iff {α} (o : Option (List α)) : ¬ Py.truthyOL o = true ↔ ∀ l, o = some l → l = [] := by
  cases o with
  | none => simp [Py.truthyOL]
  | some l => cases l <;> simp [Py.truthyOL]

/-! ### the cached pair table -/

theorem pcoh_setPT (s : ComplexS.Self) (h : PCoh s) (pt : PairTable) (hm : makePairTable s._structure = .ok pt) :
    PCoh { s with _pair_table := some pt } := by
  refine ⟨h.len, h.nn, h.st, ?_, ?_, h.ex, h.en⟩
  · intro t ht _
    simp only [Option.some.injEq] at ht
    subst ht; exact hm
  · intro l hl hne
    obtain ⟨pt', e, h1, h2, h3, h4, h5⟩ := h.li l hl hne
    have : pt' = pt := by rw [hm] at h3; injection h3 with h3; exact h3.symm
    subst this
    exact ⟨pt', e, rfl, h2, h3, h4, h5⟩

theorem exec_pair_table_coh (s : ComplexS.Self) (h : PCoh s) :
    (∃ pt, makePairTable s._structure = .ok pt ∧
        py_ComplexS_pair_table.exec s = (.ok pt, { s with _pair_table := some pt }))
    ∨ (∃ e, makePairTable s._structure = .error e ∧ py_ComplexS_pair_table.exec s = (.error e, s)) := by
  rw [exec_pair_table]
  by_cases hc : Py.truthyOL s._pair_table
  · obtain ⟨t, h1, h2⟩ := (truthy_iff _).1 hc
    left
    refine ⟨t, h.pt t h1 h2, ?_⟩
    rw [if_pos hc, h1]
    simp only [Option.getD_some]
    cases s; simp only at h1; subst h1; rfl
  · simp only [hc]
    cases hm : makePairTable s._structure with
    | error e => right; exact ⟨e, rfl, by simp⟩
    | ok pt => left; exact ⟨pt, rfl, by simp⟩

/-! ### `__loop_index` -/

theorem exec_p_loop_index' (s : ComplexS.Self) (h : PCoh s) :
    (∃ pt l e s', makePairTable s._structure = .ok pt ∧ CplxObj.liOf pt = .ok (l, e) ∧ (Gen.py_ComplexS_p_loop_index).exec s = (.ok (some l), s') ∧ PCoh s' ∧ SameRepS s s' ∧
        s'._pair_table = some pt ∧ s'._loop_index = some l ∧ s'._exterior_loops = some e ∧ s'._strand_table = s._strand_table ∧ s'._exterior_domains = s._exterior_domains ∧ s'._enclosed_domains = s._enclosed_domains)
    ∨ (∃ e s', CplxObj.liSpec s._structure = .error e ∧ (Gen.py_ComplexS_p_loop_index).exec s = (.error e, s') ∧ PCoh s' ∧ SameRepS s s' ∧ s'._exterior_domains = s._exterior_domains ∧ s'._enclosed_domains = s._enclosed_domains) := by
  unfold py_ComplexS_p_loop_index
  simp only [exec_bind, exec_get]
  by_cases hc : Py.truthyOL s._loop_index
  · obtain ⟨l, h1, h2⟩ := (truthy_iff _).1 hc
    obtain ⟨pt, e, g1, g2, g3, g4, g5⟩ := h.li l h1 h2
    left
    refine ⟨pt, l, e, s, g3, g5, ?_, h, SameRepS.refl s, g1, h1, g4, rfl, rfl, rfl⟩
    simp only [hc, Bool.not_true, Bool.false_eq_true, if_false, exec_bind, exec_get, exec_pure]
    rw [h1]
  · have hfal := (falsy_iff _).1 hc
    simp only [hc, Bool.not_false, if_true, exec_bind]
    rcases exec_pair_table_coh s h with ⟨pt, hm, hx⟩ | ⟨e, hm, hx⟩
    · rw [hx]
      simp only [exec_lift, PyFuncs.py_make_loop_index_eq s._structure '+' pt hm false]
      have hco := pcoh_setPT s h pt hm
      cases hlo : makeLoopIndex pt false with
      | error e =>
        right
        refine ⟨e, { s with _pair_table := some pt }, ?_, by simp [Except.map], hco, ⟨rfl, rfl, rfl, rfl⟩, rfl, rfl⟩
        simp [CplxObj.liSpec, hm, CplxObj.liOf, hlo]
      | ok lo =>
        left
        refine ⟨pt, lo.loopIndex, lo.exterior,
          { s with _pair_table := some pt, _loop_index := some lo.loopIndex, _exterior_loops := some lo.exterior }, hm, by simp [CplxObj.liOf, hlo], ?_, ?_, ⟨rfl, rfl, rfl, rfl⟩, ?_, ?_, ?_, ?_, ?_, ?_⟩
        · simp [Except.map, exec_modify, exec_bind, exec_get, exec_pure, PyEq.loopOutPy]
        · refine ⟨h.len, h.nn, h.st, hco.pt, ?_, h.ex, h.en⟩
          intro l hl hne
          simp only [Option.some.injEq] at hl
          subst hl
          exact ⟨pt, lo.exterior, rfl, mpt_ne_nil _ _ hm, hm, rfl, by simp [CplxObj.liOf, hlo]⟩
        all_goals rfl
    · rw [hx]
      right
      refine ⟨e, s, by simp [CplxObj.liSpec, hm], rfl, h, SameRepS.refl s, rfl, rfl⟩

/-! ### the two nested loops of `exterior_domains` -/

/-- the object with the two domain lists replaced -/
def setEN (s : ComplexS.Self) (X N : List (Nat × Nat)) : ComplexS.Self :=
  { s with _exterior_domains := some X, _enclosed_domains := some N }

def unpAt (pt : PairTable) (l : Locus) : Bool := ((pt[l.1]?).bind (fun s => s[l.2]?)).join.isNone
def liAt (li : List (List Nat)) (l : Locus) : Nat := ((li[l.1]?).bind (fun s => s[l.2]?)).getD 0

def fE (pt : PairTable) (li : List (List Nat)) (e : List Nat) (l : Locus) : Bool := e.contains (liAt li l) && unpAt pt l
def fN (pt : PairTable) (li : List (List Nat)) (e : List Nat) (l : Locus) : Bool := (!e.contains (liAt li l)) && unpAt pt l

theorem exec_loop2 (s : ComplexS.Self) (pt : PairTable) (li : List (List Nat)) (e : List Nat)
    (h1 : s._pair_table = some pt) (h2 : s._loop_index = some li) (h3 : s._exterior_loops = some e)
    (si di dom : Nat) (strand : List Nat) (v : ComplexS_exterior_domains.Vars) (X N : List (Nat × Nat))
    (row : List Nat) (x : Nat) (prow : List (Option (Nat × Nat))) (p : Option (Nat × Nat))
    (hr : li[si]? = some row) (hx : row[di]? = some x) (hpr : pt[si]? = some prow) (hp : prow[di]? = some p) :
    (ComplexS_exterior_domains.loop2 si strand v (di, dom)).exec (setEN s X N) =
      (.ok v, setEN s (if fE pt li e (si, di) then X ++ [(si, di)] else X) (if fN pt li e (si, di) then N ++ [(si, di)] else N)) := by
  have hl : liAt li (si, di) = x := by simp [liAt, hr, hx]
  have hu : unpAt pt (si, di) = p.isNone := by simp [unpAt, hpr, hp]
  unfold ComplexS_exterior_domains.loop2
  simp only [exec_bind, exec_get, exec_lift, setEN, h1, h2, h3, Py.unwrap, Py.idx, pure_ok, hr, hx, hpr, hp, fE, fN, hl, hu]
  by_cases hc : e.contains x = true <;> by_cases hn : p.isNone = true <;>
    simp only [hc, hn, if_true, if_false, exec_bind, exec_get, exec_lift, exec_modify, exec_pure, Py.unwrap, pure_ok,
      h1, hpr, hp, Bool.not_true, Bool.false_eq_true, Bool.true_and, Bool.false_and, Bool.not_false, Bool.and_true, Bool.and_false]

theorem exec_inner (s : ComplexS.Self) (pt : PairTable) (li : List (List Nat)) (e : List Nat)
    (h1 : s._pair_table = some pt) (h2 : s._loop_index = some li) (h3 : s._exterior_loops = some e)
    (si : Nat) (strand : List Nat) (row : List Nat) (prow : List (Option (Nat × Nat)))
    (hr : li[si]? = some row) (hpr : pt[si]? = some prow) (hlen : prow.length = row.length)
    (ds : List (Nat × Nat)) (hds : ∀ d ∈ ds, d.1 < row.length) (v : ComplexS_exterior_domains.Vars) (X N : List (Nat × Nat)) :
    (List.foldlM (ComplexS_exterior_domains.loop2 si strand) v ds).exec (setEN s X N) =
      (.ok v, setEN s (X ++ (ds.map (fun d => (si, d.1))).filter (fE pt li e))
                      (N ++ (ds.map (fun d => (si, d.1))).filter (fN pt li e))) := by
  induction ds generalizing X N with
  | nil => simp [List.foldlM, exec_pure]
  | cons d ds ih =>
    obtain ⟨di, dom⟩ := d
    have hd : di < row.length := hds (di, dom) (by simp)
    have hx : row[di]? = some row[di] := List.getElem?_eq_getElem hd
    have hp : prow[di]? = some (prow[di]'(by omega)) := List.getElem?_eq_getElem (by omega)
    rw [List.foldlM_cons, exec_bind, exec_loop2 s pt li e h1 h2 h3 si di dom strand v X N row _ prow _ hr hx hpr hp]
    simp only
    rw [ih (fun d hd => hds d (List.mem_cons_of_mem _ hd))]
    simp only [List.map_cons, List.filter_cons]
    by_cases c1 : fE pt li e (si, di) = true <;> by_cases c2 : fN pt li e (si, di) = true <;>
      simp [c1, c2]

theorem shape_row (pt : PairTable) (li : List (List Nat)) (hsh : li.map List.length = pt.map List.length)
    (si : Nat) (row : List Nat) (hr : li[si]? = some row) : ∃ prow, pt[si]? = some prow ∧ prow.length = row.length := by
  have := congrArg (fun l => l[si]?) hsh
  simp only [List.getElem?_map, hr, Option.map_some] at this
  cases hp : pt[si]? with
  | none => rw [hp] at this; simp at this
  | some prow => rw [hp] at this; simp at this; exact ⟨prow, rfl, this.symm⟩

theorem mem_enumerate {α} (l : List α) (d : Nat × α) (h : d ∈ Py.enumerate l) : l[d.1]? = some d.2 := by
  simp only [Py.enumerate, List.mem_map] at h
  obtain ⟨q, hq, rfl⟩ := h
  obtain ⟨a, i⟩ := q
  have := List.mem_zipIdx hq
  simp at this ⊢
  grind

theorem exec_loop1 (s : ComplexS.Self) (pt : PairTable) (li : List (List Nat)) (e : List Nat)
    (h1 : s._pair_table = some pt) (h2 : s._loop_index = some li) (h3 : s._exterior_loops = some e)
    (hsh : li.map List.length = pt.map List.length)
    (si : Nat) (row : List Nat) (hr : li[si]? = some row)
    (v : ComplexS_exterior_domains.Vars) (X N : List (Nat × Nat)) :
    (ComplexS_exterior_domains.loop1 v (si, row)).exec (setEN s X N) =
      (.ok v, setEN s (X ++ (row.zipIdx.map (fun q => (si, q.2))).filter (fE pt li e))
                      (N ++ (row.zipIdx.map (fun q => (si, q.2))).filter (fN pt li e))) := by
  obtain ⟨prow, hpr, hlen⟩ := shape_row pt li hsh si row hr
  unfold ComplexS_exterior_domains.loop1
  simp only [exec_bind]
  rw [exec_inner s pt li e h1 h2 h3 si row row prow hr hpr hlen (Py.enumerate row)
    (fun d hd => by have := mem_enumerate row d hd; exact (List.getElem?_eq_some_iff.mp this).1)]
  simp only [exec_pure, Py.enumerate, List.map_map]
  rfl

theorem exec_outer (s : ComplexS.Self) (pt : PairTable) (li : List (List Nat)) (e : List Nat)
    (h1 : s._pair_table = some pt) (h2 : s._loop_index = some li) (h3 : s._exterior_loops = some e)
    (hsh : li.map List.length = pt.map List.length)
    (rs : List (Nat × List Nat)) (hrs : ∀ r ∈ rs, li[r.1]? = some r.2)
    (v : ComplexS_exterior_domains.Vars) (X N : List (Nat × Nat)) :
    (List.foldlM ComplexS_exterior_domains.loop1 v rs).exec (setEN s X N) =
      (.ok v, setEN s (X ++ ((rs.map (fun r => r.2.zipIdx.map (fun q => (r.1, q.2)))).flatten).filter (fE pt li e))
                      (N ++ ((rs.map (fun r => r.2.zipIdx.map (fun q => (r.1, q.2)))).flatten).filter (fN pt li e))) := by
  induction rs generalizing X N with
  | nil => simp [List.foldlM, exec_pure]
  | cons r rs ih =>
    obtain ⟨si, row⟩ := r
    rw [List.foldlM_cons, exec_bind, exec_loop1 s pt li e h1 h2 h3 hsh si row (hrs (si, row) (by simp))]
    simp only
    rw [ih (fun r hr => hrs r (List.mem_cons_of_mem _ hr))]
    simp [List.filter_append, List.append_assoc]

theorem extOf_fold (pt : PairTable) (li : List (List Nat)) (e : List Nat) :
    CplxObj.extOf pt (li, e) =
      ((((Py.enumerate li).map (fun r => r.2.zipIdx.map (fun q => (r.1, q.2)))).flatten).filter (fE pt li e),
       (((Py.enumerate li).map (fun r => r.2.zipIdx.map (fun q => (r.1, q.2)))).flatten).filter (fN pt li e)) := by
  simp only [CplxObj.extOf, List.filter_filter, Py.enumerate, List.map_map]
  rfl

theorem edSpec_of_liSpec_error (sst : List Char) (e : Err) (h : CplxObj.liSpec sst = .error e) :
    CplxObj.edSpec sst = .error e := by
  simp only [CplxObj.liSpec, CplxObj.edSpec] at h ⊢
  cases hm : makePairTable sst with
  | error e' => rw [hm] at h; simp only at h ⊢; injection h with h; rw [h]
  | ok pt => rw [hm] at h; simp only at h ⊢; rw [h]

theorem setEN_self (s : ComplexS.Self) (X N : List (Nat × Nat)) (h1 : s._exterior_domains = some X)
    (h2 : s._enclosed_domains = some N) : setEN s X N = s := by
  cases s; simp only at h1 h2; subst h1; subst h2; rfl

theorem pcoh_setEN_nil (s : ComplexS.Self) (h : PCoh s) : PCoh (setEN s [] []) := by
  refine ⟨h.len, h.nn, h.st, h.pt, h.li, ?_, ?_⟩
  · intro d hd hne; simp only [setEN, Option.some.injEq] at hd; exact absurd hd.symm hne
  · intro d hd hne; simp only [setEN, Option.some.injEq] at hd; exact absurd hd.symm hne

/-- `exterior_domains`: the answer, the object afterwards and its second list -/
theorem exec_exterior_domains (s : ComplexS.Self) (h : PCoh s) :
    ∃ s', PCoh s' ∧ SameRepS s s' ∧
      ((∃ r, CplxObj.edSpec s._structure = .ok r ∧ py_ComplexS_exterior_domains.exec s = (.ok (some r.1), s') ∧
          s'._enclosed_domains = some r.2) ∨
       (∃ e, CplxObj.edSpec s._structure = .error e ∧ py_ComplexS_exterior_domains.exec s = (.error e, s'))) := by
  unfold py_ComplexS_exterior_domains
  simp only [exec_bind, exec_get]
  by_cases hc : Py.truthyOL s._exterior_domains
  · obtain ⟨d, h1, h2⟩ := (truthy_iff _).1 hc
    obtain ⟨r, g1, g2, g3⟩ := h.ex d h1 h2
    refine ⟨s, h, SameRepS.refl s, Or.inl ⟨r, g1, ?_, g3⟩⟩
    simp only [hc, Bool.not_true, Bool.false_eq_true, if_false, exec_bind, exec_get, exec_pure]
    rw [h1, g2]
  · simp only [hc, Bool.not_false, if_true, exec_bind, exec_modify]
    have h0 := pcoh_setEN_nil s h
    rcases exec_p_loop_index' (setEN s [] []) h0 with
      ⟨pt, l, e, s1, k1, k2, k3, k4, k5, k6, k7, k8, k9, k10, k11⟩ | ⟨e, s1, k1, k2, k3, k4, k5, k6⟩
    · simp only [setEN] at k3
      rw [k3]
      have hs1 : setEN s1 [] [] = s1 := setEN_self s1 [] [] k10 k11
      have hsh := liOf_shape s._structure pt l e k1 k2
      have hed : CplxObj.edSpec s._structure = .ok (CplxObj.extOf pt (l, e)) := by
        have k1' : makePairTable s._structure = .ok pt := k1
        simp only [CplxObj.edSpec, k1', k2]
      have hout := exec_outer s1 pt l e k6 k7 k8 hsh (Py.enumerate l) (fun r hr => mem_enumerate l r hr) {} [] []
      rw [hs1] at hout
      simp only [List.nil_append] at hout
      have hout' : ∃ F1 F2, CplxObj.extOf pt (l, e) = (F1, F2) ∧
          (List.foldlM ComplexS_exterior_domains.loop1 ({} : ComplexS_exterior_domains.Vars) (Py.enumerate l)).exec s1 =
            (.ok {}, setEN s1 F1 F2) := ⟨_, _, extOf_fold pt l e, hout⟩
      clear hout
      obtain ⟨F1, F2, hF, hout⟩ := hout'
      rw [hF] at hed
      have hst : s1._structure = s._structure := k5.2.1
      have hed1 : CplxObj.edSpec (setEN s1 F1 F2)._structure = .ok (F1, F2) := by
        show CplxObj.edSpec s1._structure = _
        rw [hst]; exact hed
      refine ⟨setEN s1 F1 F2, ?_, k5, Or.inl ⟨(F1, F2), hed, ?_, rfl⟩⟩
      · refine ⟨k4.len, k4.nn, k4.st, k4.pt, k4.li, ?_, ?_⟩
        · intro d hd hne
          simp only [setEN, Option.some.injEq] at hd
          exact ⟨(F1, F2), hed1, hd.symm, rfl⟩
        · intro d hd hne
          simp only [setEN, Option.some.injEq] at hd
          exact ⟨(F1, F2), hed1, hd.symm⟩
      · simp only [exec_bind, exec_lift, Py.unwrap, pure_ok, hout, exec_get, exec_pure, setEN]
    · simp only [setEN] at k2
      rw [k2]
      exact ⟨s1, k3, k4, Or.inr ⟨e, edSpec_of_liSpec_error _ _ k1, rfl⟩⟩

/-! ### the two views -/

theorem view_exterior (s : ComplexS.Self) (canon : CKey) (h : PCoh s) :
    ViewOk s .exterior (C03.qSpec (toObj s canon) .exterior) := by
  obtain ⟨s', c1, c2, hr⟩ := exec_exterior_domains s h
  unfold ViewOk pyQuery
  simp only [pyAnswer, exec_bind, C03.qSpec, toObj]
  rcases hr with ⟨r, g1, g2, g3⟩ | ⟨e, g1, g2⟩
  · rw [g2, g1]
    exact ⟨c1, c2, rfl⟩
  · rw [g2, g1]
    exact ⟨c1, c2, rfl⟩

/-- `enclosed_domains`: the answer and the object afterwards -/
theorem exec_enclosed_domains (s : ComplexS.Self) (h : PCoh s) :
    ∃ s', PCoh s' ∧ SameRepS s s' ∧
      ((∃ r, CplxObj.edSpec s._structure = .ok r ∧ py_ComplexS_enclosed_domains.exec s = (.ok (some r.2), s')) ∨
       (∃ e, CplxObj.edSpec s._structure = .error e ∧ py_ComplexS_enclosed_domains.exec s = (.error e, s'))) := by
  unfold py_ComplexS_enclosed_domains
  simp only [exec_bind, exec_get]
  by_cases hc : Py.truthyOL s._enclosed_domains
  · obtain ⟨d, h1, h2⟩ := (truthy_iff _).1 hc
    obtain ⟨r, g1, g2⟩ := h.en d h1 h2
    refine ⟨s, h, SameRepS.refl s, Or.inl ⟨r, g1, ?_⟩⟩
    simp only [hc, Bool.not_true, Bool.false_eq_true, if_false, exec_bind, exec_get, exec_pure]
    rw [h1, g2]
  · simp only [hc, Bool.not_false, if_true, exec_bind]
    obtain ⟨s', c1, c2, hr⟩ := exec_exterior_domains s h
    rcases hr with ⟨r, g1, g2, g3⟩ | ⟨e, g1, g2⟩
    · rw [g2]
      refine ⟨s', c1, c2, Or.inl ⟨r, g1, ?_⟩⟩
      simp only [exec_get, exec_pure, g3]
    · rw [g2]
      exact ⟨s', c1, c2, Or.inr ⟨e, g1, rfl⟩⟩

theorem view_enclosed (s : ComplexS.Self) (canon : CKey) (h : PCoh s) :
    ViewOk s .enclosed (C03.qSpec (toObj s canon) .enclosed) := by
  obtain ⟨s', c1, c2, hr⟩ := exec_enclosed_domains s h
  unfold ViewOk pyQuery
  simp only [pyAnswer, exec_bind, C03.qSpec, toObj]
  rcases hr with ⟨r, g1, g2⟩ | ⟨e, g1, g2⟩
  · rw [g2, g1]
    exact ⟨c1, c2, rfl⟩
  · rw [g2, g1]
    exact ⟨c1, c2, rfl⟩

end Dsd.PyObj.Ext

#print axioms Dsd.PyObj.Ext.exec_p_loop_index'
#print axioms Dsd.PyObj.Ext.view_exterior
#print axioms Dsd.PyObj.Ext.view_enclosed
