/-
Under `RelatedF`: `tmp` is free again after `identifiers` (every temporary has been released), and the four branches combined - the
statement about `identifiers` that the induction on the nesting depth consumes.
-/
import DsdVerif.Lemmas.PyDomainEqFresh

namespace Dsd.PyDomainEq
open Dsd Dsd.Gen Dsd.PySingletonL

/-- the class record read off a registry -/
def repOf (r : Reg DKey) : Py.Dom.Cls :=
  { reg := { _instanceNames := r.objs.map (fun o => (o.name, o.id)),
             _instanceCanon := r.objs.flatMap (fun o => o.keys.map (fun k => (k, o.id))) },
    ID := r.autoId,
    heap := r.objs.map (fun o => (o.id, ({ _name := o.name, _length := some o.canon.2 } : Py.Dom.Obj))) }

theorem repX_repOf (r : Reg DKey) : RepX (repOf r) r := ⟨rfl, rfl, rfl, rfl⟩

/-- after the model's `identTail`, `tmp` is free again -/
theorem identTail_fresh (request : Py.Dom.Req → Py.Dom.M Nat) (nested : Reg DKey → DomReq → Reg DKey × Out) (tmp : Nat)
    (hrel : RelatedF request nested tmp) (r : Reg DKey) (hf : Fresh r tmp) (n : String) (l : Option Nat) :
    Fresh (DomFull.identTail nested r n l).1 tmp := by
  obtain ⟨_, hfr1, hfe1⟩ := hrel (repOf r) r (cnameOf n) none (repX_repOf r) hf
  unfold DomFull.identTail
  cases l with
  | none =>
    by_cases hst : isStarred n = true
    · simp only [hst, if_true]
      cases hn : nested r { name := some (cnameOf n), length := none } with
      | mk r1 o =>
        rw [hn] at hfr1 hfe1
        cases o with
        | ret id cr =>
          have := hfr1 id cr rfl
          simp only at this ⊢
          cases hlr : DomFull.lenAndRelease r1 id cr with
          | mk lo r2 => rw [hlr] at this; cases lo <;> exact this
        | _ => exact hfe1 (by intro id c hc; cases hc)
    · simp only [hst, if_false, Bool.false_eq_true]; exact hf
  | some len =>
    by_cases hst : isStarred n = true
    · simp only [hst, Bool.not_true, Bool.false_eq_true, if_false]
      cases hn : nested r { name := some (cnameOf n) } with
      | mk r1 o =>
        rw [hn] at hfr1 hfe1
        cases o with
        | ret id cr =>
          have := hfr1 id cr rfl
          simp only at this ⊢
          cases hlr : DomFull.lenAndRelease r1 id cr with
          | mk lo r2 =>
            rw [hlr] at this
            cases lo with
            | none => exact this
            | some cl => simp only; split <;> exact this
        | _ => exact hfe1 (by intro id c hc; cases hc)
    · have hst' : isStarred n = false := by simpa using hst
      simp only [hst', Bool.not_false, if_true]
      cases hn : nested r { name := some (cnameOf n) } with
      | mk r1 o =>
        rw [hn] at hfr1 hfe1
        cases o with
        | ret id cr =>
          have hf2 := hfr1 id cr rfl
          simp only at hf2 ⊢
          cases hlr : DomFull.lenAndRelease r1 id cr with
          | mk lo r2 =>
            rw [hlr] at hf2
            cases lo with
            | none => exact hf2
            | some cl =>
              simp only at hf2 ⊢
              obtain ⟨_, hfr3, hfe3⟩ := hrel (repOf r2) r2 (cnameOf n) (some len) (repX_repOf r2) hf2
              cases hn3 : nested r2 { name := some (cnameOf n), length := some len } with
              | mk r3 o3 =>
                rw [hn3] at hfr3 hfe3
                cases o3 with
                | ret id2 c2 => exact hfr3 id2 c2 rfl
                | singletonErr e3 =>
                  have := hfe3 (by intro id c hc; cases hc)
                  simp only; split <;> exact this
                | _ => exact hfe3 (by intro id c hc; cases hc)
        | _ => exact hfe1 (by intro id c hc; cases hc)

end Dsd.PyDomainEq
