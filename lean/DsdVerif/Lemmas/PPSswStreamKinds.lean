/-
The seesaw statement kinds on token streams (C19): every component and every statement kind consumes its tokens
with ANY number of blanks in front of every token.  Built on the `Comp` / `FailOn` combinators of PPSswStream.
-/
import DsdVerif.Lemmas.PPSswStream

namespace Dsd.PP.Ssw
open Dsd.PP Dsd.Gen

variable {env : Env}

/-! ### wires, fluorophores, gates -/

/-- `w [ a , b ]` -/
def wireToks (a b : List Char) : List (List Char) := [['w'], ['['], a, [','], b, [']']]

theorem comp_wire (a b : List Char) (ha : Dig a) (hb : NumOrF b) :
    Comp env ssw_wire (wireToks a b) [wireT a b] Any 16 := by
  unfold ssw_wire wireToks
  apply Comp.cast
  · apply comp_group; apply comp_seq
    apply comps_cons1 (comp_lit 'w' [] (by decide) (by decide)) (hF := by fol)
    apply comps_cons1 (comp_sup '[' [] (by decide) (by decide)) (hF := by fol)
    apply comps_cons (toks1 := [a, [','], b]) (toks2 := [[']']]) (F1 := Brk) (hF := by fol)
    · apply comp_group; apply comp_seq
      apply comps_cons1 (comp_number a ha) (hF := by fol)
      apply comps_cons1 (comp_sup ',' [] (by decide) (by decide)) (hF := by fol)
      exact comps_single (comp_numOrF b hb)
    · exact comps_single (comp_sup ']' [] (by decide) (by decide))
  · rfl
  · decide

theorem failon_wire (t : List Char) (toks : List (List Char)) (h : Hd t (fun c => 'w' ≠ c)) :
    FailOn env ssw_wire (t :: toks) 3 := failon_group (failon_head 'w' [] _ t toks h)

/-- `Fluor [ f ]` -/
def fluorToks (f : List Char) : List (List Char) := [['F', 'l', 'u', 'o', 'r'], ['['], f, [']']]

theorem comp_fluor (f : List Char) (hf : Dig f) :
    Comp env ssw_fluor (fluorToks f) [.grp [.tok "Fluor", numT f]] Any 10 := by
  unfold ssw_fluor fluorToks
  apply Comp.cast
  · apply comp_group; apply comp_seq
    apply comps_cons1 (comp_lit 'F' ['l', 'u', 'o', 'r'] (by decide) (by decide)) (hF := by fol)
    apply comps_cons1 (comp_sup '[' [] (by decide) (by decide)) (hF := by fol)
    apply comps_cons1 (comp_number f hf) (hF := by fol)
    exact comps_single (comp_sup ']' [] (by decide) (by decide))
  · rfl
  · decide

/-- the value of an OUTPUT: a fluorophore or a wire -/
inductive OutVal : List (List Char) → Tree → Prop
  | fluor (f : List Char) (hf : Dig f) : OutVal (fluorToks f) (.grp [.tok "Fluor", numT f])
  | wire (a b : List Char) (ha : Dig a) (hb : NumOrF b) : OutVal (wireToks a b) (wireT a b)

theorem comp_outval {T : List (List Char)} {t : Tree} (h : OutVal T t) :
    Comp env (.alt [ssw_fluor, ssw_wire]) T [t] Any 20 := by
  cases h with
  | fluor f hf => exact (comp_alt (compa_ok (comp_fluor f hf))).cast rfl (by decide)
  | wire a b ha hb =>
    refine (comp_alt (compa_skip (b1 := 3) ?_ (compa_ok (comp_wire a b ha hb)))).cast rfl (by decide)
    unfold ssw_fluor wireToks
    exact failon_group (failon_head 'F' _ _ _ _ (hd_mk 'w' [] _ (by decide) (by decide) (by decide)))

/-- `l [ A , B ]` -/
def gateToks (l : List Char) (TA TB : List (List Char)) : List (List Char) :=
  l :: ['['] :: ((TA ++ ([','] :: TB)) ++ [[']']])

theorem comp_gate (c : Char) (s : List Char) (hws : isWs c = false) (hh : c ≠ '#') (A B : G)
    (TA TB : List (List Char)) (ta tb : List Tree) (ba bb : Nat)
    (hA : Comp env A TA ta Brk ba) (hB : Comp env B TB tb Brk bb) :
    Comp env (gateG (c :: s) A B) (gateToks (c :: s) TA TB)
      [.grp [.tok (String.ofList (c :: s)), .grp (ta ++ tb)]] Any (max ba bb + 14) := by
  unfold gateG gateToks
  apply Comp.cast
  · apply comp_group; apply comp_seq
    apply comps_cons1 (comp_lit c s hws hh) (hF := by fol)
    apply comps_cons1 (comp_sup '[' [] (by decide) (by decide)) (hF := by fol)
    apply comps_cons (toks1 := TA ++ ([','] :: TB)) (toks2 := [[']']]) (F1 := Brk) (hF := by fol)
    · apply comp_group; apply comp_seq
      apply comps_cons hA (hF := by fol)
      apply comps_cons1 (comp_sup ',' [] (by decide) (by decide)) (hF := by fol)
      exact comps_single hB
    · exact comps_single (comp_sup ']' [] (by decide) (by decide))
  · simp
  · omega

theorem failon_gate_head (a : Char) (s : List Char) (A B : G) (t : List Char) (toks : List (List Char))
    (h : Hd t (fun c => a ≠ c)) : FailOn env (gateG (a :: s) A B) (t :: toks) 3 :=
  failon_group (failon_head a s _ t toks h)

theorem failon_gate_A (c : Char) (s : List Char) (hws : isWs c = false) (hh : c ≠ '#') (A B : G)
    (T : List (List Char)) (ba : Nat) (hA : FailOn env A T ba) :
    FailOn env (gateG (c :: s) A B) ((c :: s) :: ['['] :: T) (ba + 8) := by
  unfold gateG
  apply FailOn.cast
  · apply failon_group; apply failon_seq
    apply failons_tail1 (comp_lit c s hws hh)
    apply failons_tail1 (comp_sup '[' [] (by decide) (by decide))
    apply failons_head
    apply failon_group; apply failon_seq
    exact failons_head hA
  · omega

/-- the first argument of `conc[…]`: a wire, a gate, or a threshold — with its tree -/
inductive ConcArg : List (List Char) → Tree → Prop
  | wire (a b : List Char) (ha : Dig a) (hb : NumOrF b) : ConcArg (wireToks a b) (wireT a b)
  | gateO (a b n : List Char) (ha : Dig a) (hb : NumOrF b) (hn : Dig n) :
      ConcArg (gateToks ['g'] (wireToks a b) [n]) (.grp [.tok "g", .grp [wireT a b, numT n]])
  | gateI (a b n : List Char) (ha : Dig a) (hb : NumOrF b) (hn : Dig n) :
      ConcArg (gateToks ['g'] [n] (wireToks a b)) (.grp [.tok "g", .grp [numT n, wireT a b]])
  | thO (a b n : List Char) (ha : Dig a) (hb : NumOrF b) (hn : Dig n) :
      ConcArg (gateToks ['t', 'h'] (wireToks a b) [n]) (.grp [.tok "th", .grp [wireT a b, numT n]])
  | thI (a b n : List Char) (ha : Dig a) (hb : NumOrF b) (hn : Dig n) :
      ConcArg (gateToks ['t', 'h'] [n] (wireToks a b)) (.grp [.tok "th", .grp [numT n, wireT a b]])

/-! ### brace lists with blanks around every element and every comma -/

def bracesG (x : G) : G :=
  .group (.seq [.suppress (.lit ['{']), .seq [x, .many (.seq [.suppress (.lit [',']), x])], .suppress (.lit ['}'])])

theorem inputs_eq : ssw_inputs = bracesG ssw_number := rfl
theorem outputs_eq : ssw_outputs = bracesG (.alt [ssw_number, .lit ['f']]) := rfl

/-- `, y1 , y2 …` -/
def tailToks (ys : List (List Char)) : List (List Char) := ys.flatMap (fun y => [[','], y])

/-- `{ x0 , x1 … }` -/
def braceToks (x0 : List Char) (xs : List (List Char)) : List (List Char) := ['{'] :: x0 :: (tailToks xs ++ [['}']])

theorem tailToks_cons (y : List Char) (ys : List (List Char)) : tailToks (y :: ys) = [','] :: y :: tailToks ys := by
  simp [tailToks]

theorem brk_tail (ys : List (List Char)) (S : Stream) (hS : S.map Prod.snd = tailToks ys) (k : Nat) (R : List Char) :
    Brk (txt S (bl k ++ '}' :: R)) := by
  cases ys with
  | nil => rw [map_snd_nil hS]; exact brk_bl k '}' R (by decide)
  | cons y ys =>
    rw [tailToks_cons] at hS
    obtain ⟨k1, S', rfl, _⟩ := map_snd_cons hS
    exact brk_bl k1 ',' _ (by decide)

theorem many_tail (x : G) (bx : Nat) (Q : List Char → Prop) (hx : ∀ t, Q t → Comp env x [t] [numT t] Brk bx)
    (ys : List (List Char)) (hys : ∀ y ∈ ys, Q y) (S : Stream) (hS : S.map Prod.snd = tailToks ys) (k : Nat)
    (R : List Char) :
    EvMany env sk (.seq [.suppress (.lit [',']), x]) (P (txt S (bl k ++ '}' :: R)))
      (some (P (bl k ++ '}' :: R), ys.map numT)) (ys.length + bx + 6) := by
  induction ys generalizing S with
  | nil =>
    rw [map_snd_nil hS]
    refine (evm_stop (ev_seq (evs_fail_head (ev_suppress_fail
      (ev_lit_failk k ',' '}' [] R (by decide) (by decide) (by decide)))))).cast rfl ?_
    omega
  | cons y ys ih =>
    rw [tailToks_cons] at hS
    obtain ⟨k1, S1, rfl, hS1⟩ := map_snd_cons hS
    obtain ⟨k2, S2, rfl, hS2⟩ := map_snd_cons hS1
    have hy : Q y := hys y List.mem_cons_self
    have ih' := ih (fun z hz => hys z (List.mem_cons_of_mem _ hz)) S2 hS2
    have hnum := hx y hy [(k2, y)] (txt S2 (bl k ++ '}' :: R)) rfl (brk_tail ys S2 hS2 k R)
    have hstep : Ev env sk (.seq [.suppress (.lit [',']), x])
        (P (txt ((k1, [',']) :: (k2, y) :: S2) (bl k ++ '}' :: R)))
        (some (P (txt S2 (bl k ++ '}' :: R)), [numT y])) (bx + 5) := by
      refine (ev_seq (evs_cons (ev_suppress (ev_lit k1 ',' [] _ (by decide) (by decide)))
        (evs_cons hnum evs_nil))).cast rfl ?_
      omega
    have hne : P (txt S2 (bl k ++ '}' :: R)) ≠ P (txt ((k1, [',']) :: (k2, y) :: S2) (bl k ++ '}' :: R)) := by
      intro h
      have := congrArg (fun p : Pos => p.rest.length) h
      simp [txt] at this
      omega
    refine (evm_step hstep hne ih').cast rfl ?_
    simp only [List.length_cons]
    omega

theorem comp_braces (x : G) (bx : Nat) (Q : List Char → Prop) (hx : ∀ t, Q t → Comp env x [t] [numT t] Brk bx)
    (x0 : List Char) (xs : List (List Char)) (h0 : Q x0) (hxs : ∀ y ∈ xs, Q y) :
    Comp env (bracesG x) (braceToks x0 xs) [.grp ((x0 :: xs).map numT)] Any (xs.length + bx + 14) := by
  intro S R hS _
  unfold braceToks at hS
  obtain ⟨k0, S1, rfl, hS1⟩ := map_snd_cons hS
  obtain ⟨k1, S2, rfl, hS2⟩ := map_snd_cons hS1
  obtain ⟨S3, S4, rfl, hS3, hS4⟩ := map_snd_append hS2
  obtain ⟨k, rfl⟩ := map_snd_single hS4
  have htxt : txt ((k0, ['{']) :: (k1, x0) :: (S3 ++ [(k, ['}'])])) R =
      bl k0 ++ ('{' :: [] ++ txt ((k1, x0) :: S3) (bl k ++ ('}' :: [] ++ R))) := by
    simp [txt, txt_append]
  rw [htxt]
  have hnum := hx x0 h0 [(k1, x0)] (txt S3 (bl k ++ '}' :: R)) rfl (brk_tail xs S3 hS3 k R)
  have hmany := many_tail x bx Q hx xs hxs S3 hS3 k R
  unfold bracesG
  apply Ev.cast
  · apply ev_group; apply ev_seq
    apply evs_cons (ev_suppress (ev_lit k0 '{' [] _ (by decide) (by decide)))
    apply evs_cons (ev_seq (evs_cons hnum (evs_cons (ev_many hmany) evs_nil)))
    apply evs_cons (ev_suppress (ev_lit k '}' [] R (by decide) (by decide)))
    exact evs_nil
  · simp
  · omega

theorem comp_inputs (x0 : List Char) (xs : List (List Char)) (h0 : Dig x0) (hxs : ∀ y ∈ xs, Dig y) :
    Comp env ssw_inputs (braceToks x0 xs) [.grp ((x0 :: xs).map numT)] Any (xs.length + 15) := by
  rw [inputs_eq]
  exact comp_braces ssw_number 1 Dig (fun t ht => comp_number t ht) x0 xs h0 hxs

theorem comp_outputs (x0 : List Char) (xs : List (List Char)) (h0 : NumOrF x0) (hxs : ∀ y ∈ xs, NumOrF y) :
    Comp env ssw_outputs (braceToks x0 xs) [.grp ((x0 :: xs).map numT)] Any (xs.length + 18) := by
  rw [outputs_eq]
  exact comp_braces _ 4 NumOrF (fun t ht => comp_numOrF t ht) x0 xs h0 hxs

/-! ### concentrations -/

/-- `v * c` -/
def concToks (v : List Char) : List (List Char) := [v, ['*'], ['c']]

theorem comp_conc (v : List Char) (hv : GorfTok v) : Comp env ssw_conc (concToks v) [numT v] Any 24 := by
  unfold ssw_conc concToks
  apply Comp.cast
  · apply comp_seq
    apply comps_cons1 (comp_gorf v hv) (hF := by fol)
    apply comps_single
    apply comp_suppress; apply comp_seq
    apply comps_cons1 (comp_lit '*' [] (by decide) (by decide)) (hF := by fol)
    exact comps_single (comp_lit 'c' [] (by decide) (by decide))
  · rfl
  · decide

/-- the tokens after `conc`: `[ X , v * c ]` -/
def concTail (TX : List (List Char)) (v : List Char) : List (List Char) :=
  ['['] :: (TX ++ ([','] :: (concToks v ++ [[']']])))

theorem comp_concG (X : G) (TX : List (List Char)) (tx : List Tree) (bx : Nat) (hX : Comp env X TX tx Brk bx)
    (v : List Char) (hv : GorfTok v) :
    Comp env (concG X) (['c', 'o', 'n', 'c'] :: concTail TX v) (.tok "conc" :: (tx ++ [numT v])) Any
      (max bx 24 + 12) := by
  unfold concG concTail
  apply Comp.cast
  · apply comp_seq
    apply comps_cons1 (comp_lit 'c' ['o', 'n', 'c'] (by decide) (by decide)) (hF := by fol)
    apply comps_cons1 (comp_sup '[' [] (by decide) (by decide)) (hF := by fol)
    apply comps_cons hX (hF := by fol)
    apply comps_cons1 (comp_sup ',' [] (by decide) (by decide)) (hF := by fol)
    apply comps_cons (comp_conc v hv) (hF := by fol)
    exact comps_single (comp_sup ']' [] (by decide) (by decide))
  · simp
  · omega

theorem failon_concG (X : G) (T : List (List Char)) (bx : Nat) (hX : FailOn env X T bx) :
    FailOn env (concG X) (['c', 'o', 'n', 'c'] :: ['['] :: T) (bx + 6) := by
  unfold concG
  apply FailOn.cast
  · apply failon_seq
    apply failons_tail1 (comp_lit 'c' ['o', 'n', 'c'] (by decide) (by decide))
    apply failons_tail1 (comp_sup '[' [] (by decide) (by decide))
    exact failons_head hX
  · omega

/-! ### statements: the first token stands at the start of the statement, the others follow with any blanks -/

theorem top {g : G} {t0 : List Char} {toks : List (List Char)} {ts : List Tree} {b : Nat}
    (h : Comp env g (t0 :: toks) ts Any b) (S : Stream) (R : List Char) (hS : S.map Prod.snd = toks) :
    Ev env sk g (P (t0 ++ txt S R)) (some (P R, ts)) b :=
  h ((0, t0) :: S) R (by simp [hS]) trivial

theorem top_fail {g : G} {t0 : List Char} {toks : List (List Char)} {b : Nat}
    (h : FailOn env g (t0 :: toks) b) (S : Stream) (R : List Char) (hS : S.map Prod.snd = toks) :
    Ev env sk g (P (t0 ++ txt S R)) none b :=
  h ((0, t0) :: S) R (by simp [hS])

/-- `S` is a stream with the tokens `toks`; the statement alternatives parse `t0` followed by `S` to `ts` -/
def StmtComp (env : Env) (t0 : List Char) (toks : List (List Char)) (ts : List Tree) (b : Nat) : Prop :=
  ∀ (S : Stream) (R : List Char), S.map Prod.snd = toks →
    Ev env sk (.alt bodyAlts) (P (t0 ++ txt S R)) (some (P R, ts)) b

/-- `( n ) = w [ a , b ]` -/
def inputToks (n a b : List Char) : List (List Char) := ['('] :: n :: [')'] :: ['='] :: wireToks a b

theorem comp_inp (n a b : List Char) (hn : NameTok n) (ha : Dig a) (hb : NumOrF b) :
    Comp env ssw_inp (['I', 'N', 'P', 'U', 'T'] :: inputToks n a b) [.tok "INPUT", .grp [numT n], wireT a b] Any 26 := by
  unfold ssw_inp inputToks
  apply Comp.cast
  · apply comp_seq
    apply comps_cons1 (comp_lit 'I' ['N', 'P', 'U', 'T'] (by decide) (by decide)) (hF := by fol)
    apply comps_cons1 (comp_sup '(' [] (by decide) (by decide)) (hF := by fol)
    apply comps_cons1 (comp_name n hn) (hF := by fol)
    apply comps_cons1 (comp_sup ')' [] (by decide) (by decide)) (hF := by fol)
    apply comps_cons1 (comp_sup '=' [] (by decide) (by decide)) (hF := by fol)
    exact comps_single (comp_wire a b ha hb)
  · rfl
  · decide

theorem input_stmt (n a b : List Char) (hn : NameTok n) (ha : Dig a) (hb : NumOrF b) :
    StmtComp env ['I', 'N', 'P', 'U', 'T'] (inputToks n a b) [.tok "INPUT", .grp [numT n], wireT a b] 30 := by
  intro S R hS
  unfold bodyAlts
  exact (ev_alt (eva_ok (top (comp_inp n a b hn ha hb) S R hS))).cast rfl (by decide)

/-- `( n ) = V` -/
def outputToks (n : List Char) (TV : List (List Char)) : List (List Char) := ['('] :: n :: [')'] :: ['='] :: TV

theorem comp_out (n : List Char) (hn : NameTok n) {TV : List (List Char)} {tv : Tree} (hV : OutVal TV tv) :
    Comp env ssw_out (['O', 'U', 'T', 'P', 'U', 'T'] :: outputToks n TV) [.tok "OUTPUT", .grp [numT n], tv] Any 30 := by
  unfold ssw_out outputToks
  apply Comp.cast
  · apply comp_seq
    apply comps_cons1 (comp_lit 'O' ['U', 'T', 'P', 'U', 'T'] (by decide) (by decide)) (hF := by fol)
    apply comps_cons1 (comp_sup '(' [] (by decide) (by decide)) (hF := by fol)
    apply comps_cons1 (comp_name n hn) (hF := by fol)
    apply comps_cons1 (comp_sup ')' [] (by decide) (by decide)) (hF := by fol)
    apply comps_cons1 (comp_sup '=' [] (by decide) (by decide)) (hF := by fol)
    exact comps_single (comp_outval hV)
  · rfl
  · decide

theorem output_stmt (n : List Char) (hn : NameTok n) {TV : List (List Char)} {tv : Tree} (hV : OutVal TV tv) :
    StmtComp env ['O', 'U', 'T', 'P', 'U', 'T'] (outputToks n TV) [.tok "OUTPUT", .grp [numT n], tv] 40 := by
  intro S R hS
  unfold bodyAlts
  apply Ev.cast
  · apply ev_alt
    apply eva_skip (g := ssw_inp) (by fh)
    apply eva_ok
    exact top (comp_out n hn hV) S R hS
  · rfl
  · decide

/-- `[ n , { i… } , { o… } ]` -/
def seesawToks (n i0 : List Char) (is : List (List Char)) (o0 : List Char) (os : List (List Char)) :
    List (List Char) :=
  ['['] :: ((n :: [','] :: (braceToks i0 is ++ ([','] :: braceToks o0 os))) ++ [[']']])

theorem comp_seesaw (n i0 o0 : List Char) (is os : List (List Char)) (hn : Dig n) (hi0 : Dig i0) (ho0 : NumOrF o0)
    (his : ∀ y ∈ is, Dig y) (hos : ∀ y ∈ os, NumOrF y) :
    Comp env ssw_seesaw (['s', 'e', 'e', 's', 'a', 'w'] :: seesawToks n i0 is o0 os)
      [.tok "seesaw", .grp [numT n, .grp ((i0 :: is).map numT), .grp ((o0 :: os).map numT)]] Any
      (is.length + os.length + 40) := by
  unfold ssw_seesaw seesawToks
  apply Comp.cast
  · apply comp_seq
    apply comps_cons1 (comp_lit 's' ['e', 'e', 's', 'a', 'w'] (by decide) (by decide)) (hF := by fol)
    apply comps_cons1 (comp_sup '[' [] (by decide) (by decide)) (hF := by fol)
    apply comps_cons (toks1 := n :: [','] :: (braceToks i0 is ++ ([','] :: braceToks o0 os))) (toks2 := [[']']])
      (F1 := Any) (hF := by fol)
    · apply comp_group; apply comp_seq
      apply comps_cons1 (comp_number n hn) (hF := by fol)
      apply comps_cons1 (comp_sup ',' [] (by decide) (by decide)) (hF := by fol)
      apply comps_cons (comp_inputs i0 is hi0 his) (hF := by fol)
      apply comps_cons1 (comp_sup ',' [] (by decide) (by decide)) (hF := by fol)
      exact comps_single (comp_outputs o0 os ho0 hos)
    · exact comps_single (comp_sup ']' [] (by decide) (by decide))
  · rfl
  · omega

theorem seesaw_stmt (n i0 o0 : List Char) (is os : List (List Char)) (hn : Dig n) (hi0 : Dig i0) (ho0 : NumOrF o0)
    (his : ∀ y ∈ is, Dig y) (hos : ∀ y ∈ os, NumOrF y) :
    StmtComp env ['s', 'e', 'e', 's', 'a', 'w'] (seesawToks n i0 is o0 os)
      [.tok "seesaw", .grp [numT n, .grp ((i0 :: is).map numT), .grp ((o0 :: os).map numT)]]
      (is.length + os.length + 50) := by
  intro S R hS
  unfold bodyAlts
  apply Ev.cast
  · apply ev_alt
    apply eva_skip (g := ssw_inp) (by fh)
    apply eva_skip (g := ssw_out) (by fh)
    apply eva_ok
    exact top (comp_seesaw n i0 o0 is os hn hi0 ho0 his hos) S R hS
  · rfl
  · omega

/-- `conc [ X , v * c ]` for the six forms of `X` and the three forms of `v` -/
theorem conc_stmt {TX : List (List Char)} {tx : Tree} (hX : ConcArg TX tx) (v : List Char) (hv : GorfTok v) :
    StmtComp env ['c', 'o', 'n', 'c'] (concTail TX v) [.tok "conc", tx, numT v] 60 := by
  intro S R hS
  have hwireN : ∀ (n : List Char) (toks : List (List Char)), Dig n → FailOn env ssw_wire (n :: toks) 3 :=
    fun n toks hn => failon_wire n toks (hd_dig hn _ (by decide))
  have hgO : ∀ (t : List Char) (toks : List (List Char)), Hd t (fun c => 'g' ≠ c) →
      FailOn env (.alt [ssw_gateO, ssw_gateI]) (t :: toks) 6 := fun t toks h =>
    (failon_alt (failona_cons (g := ssw_gateO) (failon_gate_head 'g' [] ssw_wire ssw_number t toks h)
      (failona_cons (g := ssw_gateI) (failon_gate_head 'g' [] ssw_number ssw_wire t toks h) failona_nil))).cast
      (by decide)
  cases hX with
  | wire a b ha hb =>
    have hok := top (env := env) (comp_concG ssw_wire _ _ _ (comp_wire a b ha hb).brk v hv) S R hS
    unfold bodyAlts
    apply Ev.cast
    · apply ev_alt
      apply eva_skip (g := ssw_inp) (by fh)
      apply eva_skip (g := ssw_out) (by fh)
      apply eva_skip (g := ssw_seesaw) (by fh)
      apply eva_ok (g := ssw_wireconc)
      exact hok
    · rfl
    · decide
  | gateO a b n ha hb hn =>
    have hgate : Comp env ssw_gateO _ _ Any _ := comp_gate 'g' [] (by decide) (by decide) ssw_wire ssw_number _ _ _ _ _ _
      (comp_wire a b ha hb).brk (comp_number n hn)
    have hok := top (env := env) (comp_concG (.alt [ssw_gateO, ssw_gateI]) _ _ _ (comp_alt (compa_ok hgate)).brk v hv) S R hS
    have hw := top_fail (env := env) (failon_concG ssw_wire _ _
      (failon_wire ['g'] _ (hd_mk 'g' [] _ (by decide) (by decide) (by decide)))) S R hS
    unfold bodyAlts
    apply Ev.cast
    · apply ev_alt
      apply eva_skip (g := ssw_inp) (by fh)
      apply eva_skip (g := ssw_out) (by fh)
      apply eva_skip (g := ssw_seesaw) (by fh)
      apply eva_skip (g := ssw_wireconc) hw
      apply eva_ok (g := ssw_outpconc)
      exact hok
    · rfl
    · decide
  | gateI a b n ha hb hn =>
    have hgate : Comp env ssw_gateI _ _ Any _ := comp_gate 'g' [] (by decide) (by decide) ssw_number ssw_wire _ _ _ _ _ _
      (comp_number n hn) (comp_wire a b ha hb).brk
    have hgf : FailOn env ssw_gateO (gateToks ['g'] [n] (wireToks a b)) _ :=
      failon_gate_A 'g' [] (by decide) (by decide) ssw_wire ssw_number _ _ (hwireN n _ hn)
    have hok := top (env := env) (comp_concG (.alt [ssw_gateO, ssw_gateI]) _ _ _
      (comp_alt (compa_skip hgf (compa_ok hgate))).brk v hv) S R hS
    have hw := top_fail (env := env) (failon_concG ssw_wire _ _
      (failon_wire ['g'] _ (hd_mk 'g' [] _ (by decide) (by decide) (by decide)))) S R hS
    unfold bodyAlts
    apply Ev.cast
    · apply ev_alt
      apply eva_skip (g := ssw_inp) (by fh)
      apply eva_skip (g := ssw_out) (by fh)
      apply eva_skip (g := ssw_seesaw) (by fh)
      apply eva_skip (g := ssw_wireconc) hw
      apply eva_ok (g := ssw_outpconc)
      exact hok
    · rfl
    · decide
  | thO a b n ha hb hn =>
    have hgate : Comp env ssw_thshO _ _ Any _ := comp_gate 't' ['h'] (by decide) (by decide) ssw_wire ssw_number _ _ _ _ _ _
      (comp_wire a b ha hb).brk (comp_number n hn)
    have hok := top (env := env) (comp_concG (.alt [ssw_thshO, ssw_thshI]) _ _ _ (comp_alt (compa_ok hgate)).brk v hv) S R hS
    have hw := top_fail (env := env) (failon_concG ssw_wire _ _
      (failon_wire ['t', 'h'] _ (hd_mk 't' ['h'] _ (by decide) (by decide) (by decide)))) S R hS
    have hg := top_fail (env := env) (failon_concG (.alt [ssw_gateO, ssw_gateI]) _ _
      (hgO ['t', 'h'] _ (hd_mk 't' ['h'] _ (by decide) (by decide) (by decide)))) S R hS
    unfold bodyAlts
    apply Ev.cast
    · apply ev_alt
      apply eva_skip (g := ssw_inp) (by fh)
      apply eva_skip (g := ssw_out) (by fh)
      apply eva_skip (g := ssw_seesaw) (by fh)
      apply eva_skip (g := ssw_wireconc) hw
      apply eva_skip (g := ssw_outpconc) hg
      apply eva_ok (g := ssw_thshconc)
      exact hok
    · rfl
    · decide
  | thI a b n ha hb hn =>
    have hgate : Comp env ssw_thshI _ _ Any _ := comp_gate 't' ['h'] (by decide) (by decide) ssw_number ssw_wire _ _ _ _ _ _
      (comp_number n hn) (comp_wire a b ha hb).brk
    have hgf : FailOn env ssw_thshO (gateToks ['t', 'h'] [n] (wireToks a b)) _ :=
      failon_gate_A 't' ['h'] (by decide) (by decide) ssw_wire ssw_number _ _ (hwireN n _ hn)
    have hok := top (env := env) (comp_concG (.alt [ssw_thshO, ssw_thshI]) _ _ _
      (comp_alt (compa_skip hgf (compa_ok hgate))).brk v hv) S R hS
    have hw := top_fail (env := env) (failon_concG ssw_wire _ _
      (failon_wire ['t', 'h'] _ (hd_mk 't' ['h'] _ (by decide) (by decide) (by decide)))) S R hS
    have hg := top_fail (env := env) (failon_concG (.alt [ssw_gateO, ssw_gateI]) _ _
      (hgO ['t', 'h'] _ (hd_mk 't' ['h'] _ (by decide) (by decide) (by decide)))) S R hS
    unfold bodyAlts
    apply Ev.cast
    · apply ev_alt
      apply eva_skip (g := ssw_inp) (by fh)
      apply eva_skip (g := ssw_out) (by fh)
      apply eva_skip (g := ssw_seesaw) (by fh)
      apply eva_skip (g := ssw_wireconc) hw
      apply eva_skip (g := ssw_outpconc) hg
      apply eva_ok (g := ssw_thshconc)
      exact hok
    · rfl
    · decide

/-! ### the macros -/

/-- `[ a , b ]` -/
def reporterToks (a b : List Char) : List (List Char) := ['['] :: ([a, [','], b] ++ [[']']])

theorem comp_reporter (a b : List Char) (ha : Dig a) (hb : Dig b) :
    Comp env ssw_reporter (['r', 'e', 'p', 'o', 'r', 't', 'e', 'r'] :: reporterToks a b)
      [.tok "reporter", .grp [numT a, numT b]] Any 16 := by
  unfold ssw_reporter reporterToks
  apply Comp.cast
  · apply comp_seq
    apply comps_cons1 (comp_lit 'r' ['e', 'p', 'o', 'r', 't', 'e', 'r'] (by decide) (by decide)) (hF := by fol)
    apply comps_cons1 (comp_sup '[' [] (by decide) (by decide)) (hF := by fol)
    apply comps_cons (toks1 := [a, [','], b]) (toks2 := [[']']]) (F1 := Brk) (hF := by fol)
    · apply comp_group; apply comp_seq
      apply comps_cons1 (comp_number a ha) (hF := by fol)
      apply comps_cons1 (comp_sup ',' [] (by decide) (by decide)) (hF := by fol)
      exact comps_single (comp_number b hb)
    · exact comps_single (comp_sup ']' [] (by decide) (by decide))
  · rfl
  · decide

theorem reporter_stmt (a b : List Char) (ha : Dig a) (hb : Dig b) :
    StmtComp env ['r', 'e', 'p', 'o', 'r', 't', 'e', 'r'] (reporterToks a b)
      [.tok "reporter", .grp [numT a, numT b]] 30 := by
  intro S R hS
  unfold bodyAlts
  apply Ev.cast
  · apply ev_alt
    apply eva_skip (g := ssw_inp) (by fh)
    apply eva_skip (g := ssw_out) (by fh)
    apply eva_skip (g := ssw_seesaw) (by fh)
    apply eva_skip (g := ssw_wireconc) (by fh)
    apply eva_skip (g := ssw_outpconc) (by fh)
    apply eva_skip (g := ssw_thshconc) (by fh)
    apply eva_ok
    unfold ssw_macros
    apply ev_alt
    apply eva_ok (g := ssw_reporter)
    exact top (comp_reporter a b ha hb) S R hS
  · rfl
  · decide

/-- `[ a , b , { x… } ]` -/
def fanoutToks (a b x0 : List Char) (xs : List (List Char)) : List (List Char) :=
  ['['] :: ((a :: [','] :: b :: [','] :: braceToks x0 xs) ++ [[']']])

theorem comp_fanout (a b x0 : List Char) (xs : List (List Char)) (ha : Dig a) (hb : Dig b) (h0 : Dig x0)
    (hxs : ∀ y ∈ xs, Dig y) :
    Comp env ssw_inputfanout (['i', 'n', 'p', 'u', 't', 'f', 'a', 'n', 'o', 'u', 't'] :: fanoutToks a b x0 xs)
      [.tok "inputfanout", .grp [numT a, numT b, .grp ((x0 :: xs).map numT)]] Any (xs.length + 40) := by
  unfold ssw_inputfanout fanoutToks
  apply Comp.cast
  · apply comp_seq
    apply comps_cons1 (comp_lit 'i' ['n', 'p', 'u', 't', 'f', 'a', 'n', 'o', 'u', 't'] (by decide) (by decide)) (hF := by fol)
    apply comps_cons1 (comp_sup '[' [] (by decide) (by decide)) (hF := by fol)
    apply comps_cons (toks1 := a :: [','] :: b :: [','] :: braceToks x0 xs) (toks2 := [[']']]) (F1 := Any)
      (hF := by fol)
    · apply comp_group; apply comp_seq
      apply comps_cons1 (comp_number a ha) (hF := by fol)
      apply comps_cons1 (comp_sup ',' [] (by decide) (by decide)) (hF := by fol)
      apply comps_cons1 (comp_number b hb) (hF := by fol)
      apply comps_cons1 (comp_sup ',' [] (by decide) (by decide)) (hF := by fol)
      exact comps_single (comp_inputs x0 xs h0 hxs)
    · exact comps_single (comp_sup ']' [] (by decide) (by decide))
  · rfl
  · omega

theorem fanout_stmt (a b x0 : List Char) (xs : List (List Char)) (ha : Dig a) (hb : Dig b) (h0 : Dig x0)
    (hxs : ∀ y ∈ xs, Dig y) :
    StmtComp env ['i', 'n', 'p', 'u', 't', 'f', 'a', 'n', 'o', 'u', 't'] (fanoutToks a b x0 xs)
      [.tok "inputfanout", .grp [numT a, numT b, .grp ((x0 :: xs).map numT)]] (xs.length + 55) := by
  intro S R hS
  unfold bodyAlts
  apply Ev.cast
  · apply ev_alt
    apply eva_skip (g := ssw_inp) (by fh)
    apply eva_skip (g := ssw_out) (by fh)
    apply eva_skip (g := ssw_seesaw) (by fh)
    apply eva_skip (g := ssw_wireconc) (by fh)
    apply eva_skip (g := ssw_outpconc) (by fh)
    apply eva_skip (g := ssw_thshconc) (by fh)
    apply eva_ok
    unfold ssw_macros
    apply ev_alt
    apply eva_skip (g := ssw_reporter) (by fh)
    apply eva_ok (g := ssw_inputfanout)
    exact top (comp_fanout a b x0 xs ha hb h0 hxs) S R hS
  · rfl
  · omega

/-- `[ a , b , { x… } , { y… } ]` -/
def twoListToks (a b x0 : List Char) (xs : List (List Char)) (y0 : List Char) (ys : List (List Char)) :
    List (List Char) :=
  ['['] :: ((a :: [','] :: b :: [','] :: (braceToks x0 xs ++ ([','] :: braceToks y0 ys))) ++ [[']']])

theorem comp_twoList (c : Char) (s : List Char) (hws : isWs c = false) (hh : c ≠ '#') (a b x0 y0 : List Char)
    (xs ys : List (List Char)) (ha : Dig a) (hb : Dig b) (hx0 : Dig x0) (hy0 : Dig y0) (hxs : ∀ y ∈ xs, Dig y)
    (hys : ∀ y ∈ ys, Dig y) :
    Comp env (twoListG (c :: s)) ((c :: s) :: twoListToks a b x0 xs y0 ys)
      [.tok (String.ofList (c :: s)), .grp [numT a, numT b, .grp ((x0 :: xs).map numT), .grp ((y0 :: ys).map numT)]]
      Any (xs.length + ys.length + 40) := by
  unfold twoListG twoListToks
  apply Comp.cast
  · apply comp_seq
    apply comps_cons1 (comp_lit c s hws hh) (hF := by fol)
    apply comps_cons1 (comp_sup '[' [] (by decide) (by decide)) (hF := by fol)
    apply comps_cons (toks1 := a :: [','] :: b :: [','] :: (braceToks x0 xs ++ ([','] :: braceToks y0 ys)))
      (toks2 := [[']']]) (F1 := Any) (hF := by fol)
    · apply comp_group; apply comp_seq
      apply comps_cons1 (comp_number a ha) (hF := by fol)
      apply comps_cons1 (comp_sup ',' [] (by decide) (by decide)) (hF := by fol)
      apply comps_cons1 (comp_number b hb) (hF := by fol)
      apply comps_cons1 (comp_sup ',' [] (by decide) (by decide)) (hF := by fol)
      apply comps_cons (comp_inputs x0 xs hx0 hxs) (hF := by fol)
      apply comps_cons1 (comp_sup ',' [] (by decide) (by decide)) (hF := by fol)
      exact comps_single (comp_inputs y0 ys hy0 hys)
    · exact comps_single (comp_sup ']' [] (by decide) (by decide))
  · rfl
  · omega

theorem seesawOR_stmt (a b x0 y0 : List Char) (xs ys : List (List Char)) (ha : Dig a) (hb : Dig b) (hx0 : Dig x0)
    (hy0 : Dig y0) (hxs : ∀ y ∈ xs, Dig y) (hys : ∀ y ∈ ys, Dig y) :
    StmtComp env ['s', 'e', 'e', 's', 'a', 'w', 'O', 'R'] (twoListToks a b x0 xs y0 ys)
      [.tok "seesawOR", .grp [numT a, numT b, .grp ((x0 :: xs).map numT), .grp ((y0 :: ys).map numT)]]
      (xs.length + ys.length + 60) := by
  intro S R hS
  have hok := top (comp_twoList (env := env) 's' ['e', 'e', 's', 'a', 'w', 'O', 'R'] (by decide) (by decide)
    a b x0 y0 xs ys ha hb hx0 hy0 hxs hys) S R hS
  unfold bodyAlts
  apply Ev.cast
  · apply ev_alt
    apply eva_skip (g := ssw_inp) (by fh)
    apply eva_skip (g := ssw_out) (by fh)
    apply eva_skip (seesaw_fail_suffix 'O' _ (by decide) (by decide) (by decide))
    apply eva_skip (g := ssw_wireconc) (by fh)
    apply eva_skip (g := ssw_outpconc) (by fh)
    apply eva_skip (g := ssw_thshconc) (by fh)
    apply eva_ok
    unfold ssw_macros
    apply ev_alt
    apply eva_skip (g := ssw_reporter) (by fh)
    apply eva_skip (g := ssw_inputfanout) (by fh)
    apply eva_ok (g := ssw_seesawOR)
    exact hok
  · rfl
  · omega

theorem seesawAND_stmt (a b x0 y0 : List Char) (xs ys : List (List Char)) (ha : Dig a) (hb : Dig b) (hx0 : Dig x0)
    (hy0 : Dig y0) (hxs : ∀ y ∈ xs, Dig y) (hys : ∀ y ∈ ys, Dig y) :
    StmtComp env ['s', 'e', 'e', 's', 'a', 'w', 'A', 'N', 'D'] (twoListToks a b x0 xs y0 ys)
      [.tok "seesawAND", .grp [numT a, numT b, .grp ((x0 :: xs).map numT), .grp ((y0 :: ys).map numT)]]
      (xs.length + ys.length + 60) := by
  intro S R hS
  have hok := top (comp_twoList (env := env) 's' ['e', 'e', 's', 'a', 'w', 'A', 'N', 'D'] (by decide) (by decide)
    a b x0 y0 xs ys ha hb hx0 hy0 hxs hys) S R hS
  unfold bodyAlts
  apply Ev.cast
  · apply ev_alt
    apply eva_skip (g := ssw_inp) (by fh)
    apply eva_skip (g := ssw_out) (by fh)
    apply eva_skip (seesaw_fail_suffix 'A' _ (by decide) (by decide) (by decide))
    apply eva_skip (g := ssw_wireconc) (by fh)
    apply eva_skip (g := ssw_outpconc) (by fh)
    apply eva_skip (g := ssw_thshconc) (by fh)
    apply eva_ok
    unfold ssw_macros
    apply ev_alt
    apply eva_skip (g := ssw_reporter) (by fh)
    apply eva_skip (g := ssw_inputfanout) (by fh)
    apply eva_skip (g := ssw_seesawOR) (fail_strip _ _ 's' _ (by decide) (by decide) rfl)
    apply eva_ok (g := ssw_seesawAND)
    exact hok
  · rfl
  · omega

end Dsd.PP.Ssw
