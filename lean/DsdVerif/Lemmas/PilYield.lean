/-
Parse soundness for kernel patterns (C13): the text a kernel pattern consumes has balanced parentheses, one pair per
nested list of the returned forest.  Built on the input accounting `PP.Yield`.
-/
import DsdVerif.Lemmas.PPYield
import DsdVerif.Lemmas.PilShape

namespace Dsd.PP
open Dsd Dsd.Gen

/-! ### inversion of `Yield` -/

variable {env : Env} {skip : Bool}

theorem Yield.seq_inv {gs : List G} {inp rest : List Char} {ts : List Tree} (h : Yield env skip (.seq gs) inp rest ts) :
    YieldSeq env skip gs inp rest ts := by cases h; assumption
theorem YieldSeq.nil_inv {inp rest : List Char} {ts : List Tree} (h : YieldSeq env skip [] inp rest ts) :
    rest = inp ∧ ts = [] := by cases h; exact ⟨rfl, rfl⟩
theorem YieldSeq.cons_inv {g : G} {gs : List G} {inp rest : List Char} {ts : List Tree}
    (h : YieldSeq env skip (g :: gs) inp rest ts) :
    ∃ mid t1 t2, ts = t1 ++ t2 ∧ Yield env skip g inp mid t1 ∧ YieldSeq env skip gs mid rest t2 := by
  cases h with
  | cons _ _ _ _ mid _ t1 t2 h1 h2 => exact ⟨mid, t1, t2, rfl, h1, h2⟩
theorem Yield.alt_inv {gs : List G} {inp rest : List Char} {ts : List Tree} (h : Yield env skip (.alt gs) inp rest ts) :
    ∃ g ∈ gs, Yield env skip g inp rest ts := by
  cases h with
  | alt _ _ g _ _ _ hg hs => exact ⟨g, hg, hs⟩
theorem Yield.group_inv {g : G} {inp rest : List Char} {ts : List Tree} (h : Yield env skip (.group g) inp rest ts) :
    ∃ t, ts = [.grp t] ∧ Yield env skip g inp rest t := by
  cases h with
  | group _ _ _ _ t hs => exact ⟨t, rfl, hs⟩
theorem Yield.suppress_inv {g : G} {inp rest : List Char} {ts : List Tree} (h : Yield env skip (.suppress g) inp rest ts) :
    ts = [] ∧ ∃ t, Yield env skip g inp rest t := by
  cases h with
  | suppress _ _ _ _ t hs => exact ⟨rfl, t, hs⟩
theorem Yield.opt_inv {g : G} {inp rest : List Char} {ts : List Tree} (h : Yield env skip (.opt g) inp rest ts) :
    (rest = inp ∧ ts = []) ∨ Yield env skip g inp rest ts := by
  cases h with
  | optNone => exact Or.inl ⟨rfl, rfl⟩
  | optSome _ _ _ _ _ hs => exact Or.inr hs
theorem Yield.many1_inv {g : G} {inp rest : List Char} {ts : List Tree} (h : Yield env skip (.many1 g) inp rest ts) :
    ∃ mid t1 t2, ts = t1 ++ t2 ∧ Yield env skip g inp mid t1 ∧ YieldMany env skip g mid rest t2 := by
  cases h with
  | many1 _ _ _ mid _ t1 t2 h1 h2 => exact ⟨mid, t1, t2, rfl, h1, h2⟩
theorem Yield.combine_inv {g : G} {inp rest : List Char} {ts : List Tree} (h : Yield env skip (.combine g) inp rest ts) :
    ∃ ts' f, ts = [.tok (String.join (flatToks (f + 1) ts'))] ∧ Yield env false g (preL skip inp) rest ts' := by
  cases h with
  | combine _ _ _ _ ts' f hs => exact ⟨ts', f, rfl, hs⟩
theorem Yield.ref_inv {n : String} {inp rest : List Char} {ts : List Tree} (h : Yield env skip (.ref n) inp rest ts) :
    ∃ g, env.lookup n = some g ∧ Yield env skip g inp rest ts := by
  cases h with
  | ref _ _ g _ _ _ hg hs => exact ⟨g, hg, hs⟩

/-- a literal: ignorable text, then the literal -/
theorem Yield.lit_split {s inp rest : List Char} {ts : List Tree} (h : Yield env skip (.lit s) inp rest ts) :
    ∃ ign, inp = ign ++ (s ++ rest) ∧ IgnText ign ∧ (skip = false → ign = []) ∧ ts = [.tok (String.ofList s)] := by
  cases h with
  | lit _ _ _ _ hs =>
    obtain ⟨ign, h1, h2, h3⟩ := preL_split skip inp
    exact ⟨ign, by rw [← stripPrefix_some s _ rest hs]; exact h1, h2, h3, rfl⟩

theorem takeWhile_next {α} (q : α → Bool) (l : List α) (y : α) (r : List α)
    (h : l.drop (l.takeWhile q).length = y :: r) : q y = false := by
  induction l with
  | nil => simp at h
  | cons a as ih =>
    rw [List.takeWhile_cons] at h
    split at h
    · simp only [List.length_cons, List.drop_succ_cons] at h
      exact ih h
    · rename_i hq
      simp only [List.length_nil, List.drop_zero, List.cons.injEq] at h
      rw [← h.1]; simpa using hq

/-- a word: ignorable text, then a maximal non-empty string over `init` / `body` -/
theorem Yield.word_split {init body inp rest : List Char} {ts : List Tree}
    (h : Yield env skip (.word init body) inp rest ts) :
    ∃ ign c m, inp = ign ++ (c :: m ++ rest) ∧ IgnText ign ∧ (skip = false → ign = []) ∧ init.contains c = true ∧
      (∀ x ∈ m, body.contains x = true) ∧ (∀ y r, rest = y :: r → body.contains y = false) ∧
      ts = [.tok (String.ofList (c :: m))] := by
  cases h with
  | word _ _ _ _ c cs hp hc =>
    obtain ⟨ign, h1, h2, h3⟩ := preL_split skip inp
    refine ⟨ign, c, cs.takeWhile (fun x => body.contains x), ?_, h2, h3, hc,
      fun x hx => mem_takeWhile_true _ _ x hx, fun y r hy => takeWhile_next _ cs y r hy, rfl⟩
    rw [h1, hp]
    simp only [List.cons_append]
    congr 2
    exact (takeWhile_append_drop' _ cs).symm

/-! ### bracket depth -/

/-- scan the parentheses of a text, starting at nesting depth `d` -/
def bdepth : List Char → Nat → Option Nat
  | [], d => some d
  | c :: cs, d =>
    if c = '(' then bdepth cs (d + 1)
    else if c = ')' then (match d with | 0 => none | d' + 1 => bdepth cs d')
    else bdepth cs d

/-- the parentheses of the text are balanced -/
def Balanced (cs : List Char) : Prop := bdepth cs 0 = some 0

/-- the text is well nested: from every depth it returns to the same depth -/
def Neutral (cs : List Char) : Prop := ∀ d, bdepth cs d = some d

theorem Neutral.balanced {cs : List Char} (h : Neutral cs) : Balanced cs := h 0

theorem bdepth_append (a b : List Char) (d : Nat) : bdepth (a ++ b) d = (bdepth a d).bind (bdepth b) := by
  induction a generalizing d with
  | nil => rfl
  | cons c cs ih =>
    simp only [List.cons_append, bdepth]
    split
    · exact ih _
    · split
      · cases d with
        | zero => rfl
        | succ d' => exact ih _
      · exact ih _

theorem Neutral.append {a b : List Char} (ha : Neutral a) (hb : Neutral b) : Neutral (a ++ b) := by
  intro d; rw [bdepth_append, ha d]; exact hb d

theorem neutral_nil : Neutral [] := fun _ => rfl

/-- a text without parentheses -/
def NoBr (cs : List Char) : Prop := ∀ c ∈ cs, c ≠ '(' ∧ c ≠ ')'

theorem NoBr.neutral {cs : List Char} (h : NoBr cs) : Neutral cs := by
  intro d
  induction cs with
  | nil => rfl
  | cons c cs ih =>
    obtain ⟨h1, h2⟩ := h c List.mem_cons_self
    simp only [bdepth, h1, h2, if_false]
    exact ih (fun x hx => h x (List.mem_cons_of_mem _ hx))

theorem NoBr.append {a b : List Char} (ha : NoBr a) (hb : NoBr b) : NoBr (a ++ b) := by
  intro c hc
  rcases List.mem_append.mp hc with hc | hc
  · exact ha c hc
  · exact hb c hc

/-- `a ( mid b )` around a well-nested `mid` -/
theorem neutral_wrap {a mid b : List Char} (ha : NoBr a) (hm : Neutral mid) (hb : NoBr b) :
    Neutral (a ++ '(' :: (mid ++ (b ++ [')']))) := by
  intro d
  rw [bdepth_append, ha.neutral d]
  simp only [Option.bind_some, bdepth, if_true]
  rw [bdepth_append, hm (d + 1)]
  simp only [Option.bind_some]
  rw [bdepth_append, hb.neutral (d + 1)]
  simp [bdepth]

theorem ws_nobr : ∀ c, isWs c = true → c ≠ '(' ∧ c ≠ ')' := by
  intro c hc
  constructor <;> (intro e; subst e; simp [isWs] at hc)

/-- ignorable text without a comment has no parentheses -/
theorem IgnText.nobr {ign : List Char} (h : IgnText ign) (hh : '#' ∉ ign) : NoBr ign := by
  rcases h with h | h
  · intro c hc; exact ws_nobr c (h c hc)
  · exact absurd h hh

/-! ### terms that cannot consume a parenthesis -/

/-- grammar terms whose literals and character classes contain no parenthesis (no `Forward` references) -/
inductive BrFree : G → Prop
  | lit (s) : NoBr s → BrFree (.lit s)
  | kw (s i) : NoBr s → BrFree (.kw s i)
  | word (i b) : NoBr i → NoBr b → BrFree (.word i b)
  | white : BrFree .white
  | lineEnd : BrFree .lineEnd
  | stringStart : BrFree .stringStart
  | stringEnd : BrFree .stringEnd
  | seq (gs) : (∀ g ∈ gs, BrFree g) → BrFree (.seq gs)
  | alt (gs) : (∀ g ∈ gs, BrFree g) → BrFree (.alt gs)
  | opt (g) : BrFree g → BrFree (.opt g)
  | many (g) : BrFree g → BrFree (.many g)
  | many1 (g) : BrFree g → BrFree (.many1 g)
  | combine (g) : BrFree g → BrFree (.combine g)
  | group (g) : BrFree g → BrFree (.group g)
  | suppress (g) : BrFree g → BrFree (.suppress g)
  | tag (t g) : BrFree g → BrFree (.tag t g)

theorem notmem_of_suffix {inp c rest : List Char} (h : inp = c ++ rest) (hh : '#' ∉ inp) : '#' ∉ c ∧ '#' ∉ rest := by
  subst h
  simp only [List.mem_append, not_or] at hh
  exact hh

theorem nobr_of_contains (cls : List Char) (h : NoBr cls) (c : Char) (hc : cls.contains c = true) : c ≠ '(' ∧ c ≠ ')' :=
  h c (by simpa using hc)

mutual
/-- **a parenthesis-free term consumes parenthesis-free text** (when the input has no comment) -/
theorem Yield.nobr : ∀ {skip : Bool} {g : G} {inp rest : List Char} {ts : List Tree},
    Yield env skip g inp rest ts → BrFree g → '#' ∉ inp → ∃ c, inp = c ++ rest ∧ NoBr c
  | _, _, _, _, _, .lit skip s inp rest hs, hb, hh => by
    obtain ⟨ign, h1, h2, _⟩ := (Yield.lit skip s inp rest hs : Yield env skip (.lit s) inp rest _).lit_split
    cases hb with
    | lit _ hs' =>
      refine ⟨ign ++ s, by rw [List.append_assoc]; exact h1, ?_⟩
      exact (h2.nobr (notmem_of_suffix h1 hh).1).append hs'
  | _, _, _, _, _, .kw skip s ident inp rest hs _, hb, hh => by
    obtain ⟨ign, h1, h2, _⟩ := preL_split skip inp
    cases hb with
    | kw _ _ hs' =>
      have h1' : inp = ign ++ (s ++ rest) := by rw [← stripPrefix_some s _ rest hs]; exact h1
      refine ⟨ign ++ s, by rw [List.append_assoc]; exact h1', ?_⟩
      exact (h2.nobr (notmem_of_suffix h1' hh).1).append hs'
  | _, _, _, _, _, .word skip init body inp c cs hp hc, hb, hh => by
    obtain ⟨ign, c', m, h1, h2, _, h4, h5, _⟩ :=
      (Yield.word skip init body inp c cs hp hc : Yield env skip (.word init body) inp _ _).word_split
    cases hb with
    | word _ _ hi hbd =>
      refine ⟨ign ++ c' :: m, by rw [h1]; simp, ?_⟩
      apply (h2.nobr (notmem_of_suffix h1 hh).1).append
      intro x hx
      rcases List.mem_cons.mp hx with rfl | hx
      · exact nobr_of_contains init hi _ h4
      · exact nobr_of_contains body hbd x (h5 x hx)
  | _, _, _, _, _, .white skip inp r0 hr0 _, _, hh => by
    -- blanks (the comment branch is excluded), then blanks and line feeds
    have hr : ∃ w, inp = w ++ r0 ∧ NoBr w := by
      cases skip with
      | false => exact ⟨[], by simpa using hr0.symm, by intro c hc; simp at hc⟩
      | true =>
        simp only [if_true] at hr0
        split at hr0
        · rename_i t ht
          exfalso
          obtain ⟨w, hw, _⟩ := skipWs_split inp
          apply hh
          rw [hw, ht]; simp
        · exact ⟨[], by simpa using hr0.symm, by intro c hc; simp at hc⟩
    obtain ⟨w, hw, hwn⟩ := hr
    refine ⟨w ++ r0.takeWhile (fun c => isWs c || c == '\n'), by
      rw [List.append_assoc, takeWhile_append_drop']; exact hw, hwn.append ?_⟩
    intro x hx
    have := mem_takeWhile_true _ _ x hx
    simp only [Bool.or_eq_true, beq_iff_eq] at this
    rcases this with h | h
    · exact ws_nobr x h
    · subst h; exact ⟨by decide, by decide⟩
  | _, _, _, _, _, .lineEndNl skip inp cs hp, _, hh => by
    obtain ⟨ign, h1, h2, _⟩ := preL_split skip inp
    rw [hp] at h1
    refine ⟨ign ++ ['\n'], by rw [h1]; simp, (h2.nobr (notmem_of_suffix h1 hh).1).append ?_⟩
    intro x hx; simp at hx; subst hx; exact ⟨by decide, by decide⟩
  | _, _, _, _, _, .lineEndEof skip inp hp, _, hh => by
    obtain ⟨ign, h1, h2, _⟩ := preL_split skip inp
    rw [hp] at h1
    exact ⟨inp, by simp, by rw [h1]; simpa using h2.nobr (by rw [h1] at hh; simpa using hh)⟩
  | _, _, _, _, _, .stringStart skip inp, _, _ => ⟨[], rfl, by intro c hc; simp at hc⟩
  | _, _, _, _, _, .stringEnd skip inp hp, _, hh => by
    obtain ⟨ign, h1, h2, _⟩ := preL_split skip inp
    rw [hp] at h1
    exact ⟨inp, by simp, by rw [h1]; simpa using h2.nobr (by rw [h1] at hh; simpa using hh)⟩
  | _, _, _, _, _, .seq skip gs inp rest ts h, hb, hh => by
    cases hb with
    | seq _ hgs => exact YieldSeq.nobr h hgs hh
  | _, _, _, _, _, .alt skip gs g inp rest ts hg h, hb, hh => by
    cases hb with
    | alt _ hgs => exact Yield.nobr h (hgs g hg) hh
  | _, _, _, _, _, .optNone skip g inp, _, _ => ⟨[], rfl, by intro c hc; simp at hc⟩
  | _, _, _, _, _, .optSome skip g inp rest ts h, hb, hh => by
    cases hb with
    | opt _ hg => exact Yield.nobr h hg hh
  | _, _, _, _, _, .many skip g inp rest ts h, hb, hh => by
    cases hb with
    | many _ hg => exact YieldMany.nobr h hg hh
  | _, _, _, _, _, .many1 skip g inp mid rest t1 t2 h1 h2, hb, hh => by
    cases hb with
    | many1 _ hg =>
      obtain ⟨c1, e1, n1⟩ := Yield.nobr h1 hg hh
      obtain ⟨c2, e2, n2⟩ := YieldMany.nobr h2 hg (notmem_of_suffix e1 hh).2
      exact ⟨c1 ++ c2, by rw [e1, e2, List.append_assoc], n1.append n2⟩
  | _, _, _, _, _, .combine skip g inp rest ts f h, hb, hh => by
    cases hb with
    | combine _ hg =>
      obtain ⟨ign, h1, h2, _⟩ := preL_split skip inp
      obtain ⟨c, e, n⟩ := Yield.nobr h hg (notmem_of_suffix h1 hh).2
      exact ⟨ign ++ c, by rw [List.append_assoc, ← e]; exact h1, (h2.nobr (notmem_of_suffix h1 hh).1).append n⟩
  | _, _, _, _, _, .group skip g inp rest ts h, hb, hh => by
    cases hb with
    | group _ hg => exact Yield.nobr h hg hh
  | _, _, _, _, _, .suppress skip g inp rest ts h, hb, hh => by
    cases hb with
    | suppress _ hg => exact Yield.nobr h hg hh
  | _, _, _, _, _, .tag skip t g inp rest ts h, hb, hh => by
    cases hb with
    | tag _ _ hg => exact Yield.nobr h hg hh
  | _, _, _, _, _, .ref skip n g inp rest ts _ h, hb, _ => by cases hb
theorem YieldSeq.nobr : ∀ {skip : Bool} {gs : List G} {inp rest : List Char} {ts : List Tree},
    YieldSeq env skip gs inp rest ts → (∀ g ∈ gs, BrFree g) → '#' ∉ inp → ∃ c, inp = c ++ rest ∧ NoBr c
  | _, _, _, _, _, .nil skip inp, _, _ => ⟨[], rfl, by intro c hc; simp at hc⟩
  | _, _, _, _, _, .cons skip g gs inp mid rest t1 t2 h1 h2, hb, hh => by
    obtain ⟨c1, e1, n1⟩ := Yield.nobr h1 (hb g List.mem_cons_self) hh
    obtain ⟨c2, e2, n2⟩ := YieldSeq.nobr h2 (fun g' hg' => hb g' (List.mem_cons_of_mem _ hg')) (notmem_of_suffix e1 hh).2
    exact ⟨c1 ++ c2, by rw [e1, e2, List.append_assoc], n1.append n2⟩
theorem YieldMany.nobr : ∀ {skip : Bool} {g : G} {inp rest : List Char} {ts : List Tree},
    YieldMany env skip g inp rest ts → BrFree g → '#' ∉ inp → ∃ c, inp = c ++ rest ∧ NoBr c
  | _, _, _, _, _, .nil skip g inp, _, _ => ⟨[], rfl, by intro c hc; simp at hc⟩
  | _, _, _, _, _, .cons skip g inp mid rest t1 t2 h1 h2, hb, hh => by
    obtain ⟨c1, e1, n1⟩ := Yield.nobr h1 hb hh
    obtain ⟨c2, e2, n2⟩ := YieldMany.nobr h2 hb (notmem_of_suffix e1 hh).2
    exact ⟨c1 ++ c2, by rw [e1, e2, List.append_assoc], n1.append n2⟩
end

/-! ### kernel patterns -/

theorem nobr_identChars : NoBr (pp_alphanums ++ ['_', '-']) := by
  intro c hc
  revert c
  decide

theorem brFree_identifier : BrFree pil_identifier := BrFree.word _ _ nobr_identChars nobr_identChars

theorem brFree_lit1 (c : Char) (h : c ≠ '(' ∧ c ≠ ')') : BrFree (.lit [c]) :=
  BrFree.lit _ (by intro x hx; simp at hx; subst hx; exact h)

theorem brFree_sense : BrFree pil_sense := by
  unfold pil_sense
  refine BrFree.combine _ (BrFree.seq _ ?_)
  intro g hg
  simp only [List.mem_cons, List.not_mem_nil, or_false] at hg
  rcases hg with rfl | rfl | rfl
  · exact brFree_identifier
  · exact BrFree.opt _ (brFree_lit1 '^' (by decide))
  · exact BrFree.opt _ (brFree_lit1 '*' (by decide))

theorem length_lt_of_split {inp c rest : List Char} (h : inp = c ++ rest) (hc : c ≠ []) : rest.length < inp.length := by
  subst h
  cases c with
  | nil => exact absurd rfl hc
  | cons x xs => simp; omega

/-- one element of a pattern consumes well-nested text; `ih` is the statement for the (shorter) inner patterns -/
theorem item_neutral (n : Nat)
    (ih : ∀ (inp : List Char), inp.length ≤ n → ∀ (skip : Bool) (rest : List Char) (ts : List Tree),
      Yield pil_env skip patternG inp rest ts → '#' ∉ inp → ∃ c, inp = c ++ rest ∧ Neutral c)
    (skip : Bool) (inp rest : List Char) (ts : List Tree) (hlen : inp.length ≤ n + 1)
    (h : Yield pil_env skip (.alt [pil_loop, .lit ['+'], pil_sense]) inp rest ts) (hh : '#' ∉ inp) :
    ∃ c, inp = c ++ rest ∧ Neutral c := by
  obtain ⟨g, hg, hs⟩ := h.alt_inv
  simp only [List.mem_cons, List.not_mem_nil, or_false] at hg
  rcases hg with rfl | rfl | rfl
  · unfold pil_loop at hs
    obtain ⟨m1, t1, r1, rfl, h1, hr1⟩ := hs.seq_inv.cons_inv
    obtain ⟨m2, t2, r2, rfl, h2, hr2⟩ := hr1.cons_inv
    obtain ⟨m3, t3, r3, rfl, h3, hr3⟩ := hr2.cons_inv
    obtain ⟨hm3, _⟩ := hr3.nil_inv
    subst hm3
    -- the head `name(`
    obtain ⟨ts', f, _, hc1⟩ := h1.combine_inv
    obtain ⟨ign1, e1, hi1, _⟩ := preL_split skip inp
    obtain ⟨ma, ta, ra, _, ha, hra⟩ := hc1.seq_inv.cons_inv
    obtain ⟨mb, tb, rb, _, hb, hrb⟩ := hra.cons_inv
    obtain ⟨hmb, _⟩ := hrb.nil_inv
    subst hmb
    have hh1 := notmem_of_suffix e1 hh
    obtain ⟨cs, es, ns⟩ := ha.nobr brFree_sense hh1.2
    obtain ⟨_, tpar, hpar⟩ := hb.suppress_inv
    obtain ⟨ignp, ep, _, hip, _⟩ := hpar.lit_split
    rw [hip rfl] at ep
    simp only [List.nil_append, List.cons_append] at ep
    -- the inner part
    have e_m1 : inp = (ign1 ++ cs) ++ '(' :: m1 := by rw [e1, es, ep]; simp
    have hhm1 : '#' ∉ m1 := by
      have := (notmem_of_suffix e_m1 hh).2
      simp only [List.mem_cons, not_or] at this
      exact this.2
    have hlen1 : m1.length ≤ n := by
      have : inp.length = (ign1 ++ cs).length + 1 + m1.length := by rw [e_m1]; simp; omega
      omega
    obtain ⟨inner, _, hin⟩ := h2.group_inv
    have hmid : ∃ c2, m1 = c2 ++ m2 ∧ Neutral c2 := by
      rcases hin.opt_inv with ⟨hm, _⟩ | hin
      · exact ⟨[], by rw [hm]; rfl, neutral_nil⟩
      · unfold pil_innerloop at hin
        obtain ⟨g, hg, hs'⟩ := hin.alt_inv
        simp only [List.mem_cons, List.not_mem_nil, or_false] at hg
        rcases hg with rfl | rfl
        · obtain ⟨g', hg', hs''⟩ := hs'.ref_inv
          rw [pil_env_pattern] at hg'
          cases hg'
          exact ih m1 hlen1 skip m2 inner hs'' hhm1
        · obtain ⟨c2, e2, n2⟩ := hs'.nobr (BrFree.suppress _ BrFree.white) hhm1
          exact ⟨c2, e2, n2.neutral⟩
    obtain ⟨c2, e2, n2⟩ := hmid
    -- the closing parenthesis
    obtain ⟨_, tcl, hcl⟩ := h3.suppress_inv
    obtain ⟨ign3, e3, hi3, _, _⟩ := hcl.lit_split
    have hh3 : '#' ∉ ign3 := by
      have := (notmem_of_suffix e2 hhm1).2
      exact (notmem_of_suffix e3 this).1
    refine ⟨(ign1 ++ cs) ++ '(' :: (c2 ++ (ign3 ++ [')'])), ?_, ?_⟩
    · rw [e_m1, e2, e3]; simp
    · exact neutral_wrap ((hi1.nobr hh1.1).append ns) n2 (hi3.nobr hh3)
  · obtain ⟨c, e, nb⟩ := hs.nobr (brFree_lit1 '+' (by decide)) hh
    exact ⟨c, e, nb.neutral⟩
  · obtain ⟨c, e, nb⟩ := hs.nobr brFree_sense hh
    exact ⟨c, e, nb.neutral⟩

/-- a repetition of elements that consume well-nested text consumes well-nested text -/
theorem yieldMany_neutral {env : Env} (bound : Nat) : ∀ {skip : Bool} {g : G} {inp rest : List Char} {ts : List Tree},
    YieldMany env skip g inp rest ts →
    (∀ (inp rest : List Char) (ts : List Tree), inp.length ≤ bound → '#' ∉ inp → Yield env skip g inp rest ts →
      ∃ c, inp = c ++ rest ∧ Neutral c) →
    inp.length ≤ bound → '#' ∉ inp → ∃ c, inp = c ++ rest ∧ Neutral c
  | _, _, _, _, _, .nil _ _ inp, _, _, _ => ⟨[], rfl, neutral_nil⟩
  | _, _, _, _, _, .cons _ _ inp mid rest t1 t2 h1 h2, hitem, hlen, hh => by
    obtain ⟨c1, e1, n1⟩ := hitem inp mid t1 hlen hh h1
    have hmid : mid.length ≤ bound := by
      have : inp.length = c1.length + mid.length := by rw [e1]; simp
      omega
    obtain ⟨c2, e2, n2⟩ := yieldMany_neutral bound h2 hitem hmid (notmem_of_suffix e1 hh).2
    exact ⟨c1 ++ c2, by rw [e1, e2, List.append_assoc], n1.append n2⟩

theorem pattern_neutral_aux : ∀ (n : Nat) (inp : List Char), inp.length ≤ n → ∀ (skip : Bool) (rest : List Char)
    (ts : List Tree), Yield pil_env skip patternG inp rest ts → '#' ∉ inp → ∃ c, inp = c ++ rest ∧ Neutral c := by
  intro n
  induction n with
  | zero =>
    intro inp hlen skip rest ts h hh
    -- a pattern consumes at least one character
    exfalso
    have hnil : inp = [] := List.eq_nil_of_length_eq_zero (by omega)
    subst hnil
    unfold patternG at h
    obtain ⟨mid, t1, t2, _, h1, _⟩ := h.many1_inv
    obtain ⟨g, hg, hs⟩ := h1.alt_inv
    simp only [List.mem_cons, List.not_mem_nil, or_false] at hg
    have hempty : ∀ {sk : Bool} {g : G} {r : List Char} {t : List Tree}, Yield pil_env sk pil_identifier [] r t → False := by
      intro sk g r t hy
      unfold pil_identifier at hy
      obtain ⟨ign, c, m, e, _⟩ := hy.word_split
      have := congrArg List.length e
      simp at this
    have hsense : ∀ {sk : Bool} {r : List Char} {t : List Tree}, Yield pil_env sk pil_sense [] r t → False := by
      intro sk r t hy
      unfold pil_sense at hy
      obtain ⟨ts', f, _, hc⟩ := hy.combine_inv
      have hp : preL sk [] = [] := by unfold preL; split <;> rfl
      rw [hp] at hc
      obtain ⟨ma, ta, ra, _, ha, _⟩ := hc.seq_inv.cons_inv
      exact hempty (g := pil_identifier) ha
    rcases hg with rfl | rfl | rfl
    · unfold pil_loop at hs
      obtain ⟨m1, t1', r1, _, h1', _⟩ := hs.seq_inv.cons_inv
      obtain ⟨ts', f, _, hc⟩ := h1'.combine_inv
      have hp : preL skip [] = [] := by unfold preL; split <;> rfl
      rw [hp] at hc
      obtain ⟨ma, ta, ra, _, ha, _⟩ := hc.seq_inv.cons_inv
      exact hsense ha
    · obtain ⟨ign, e, _⟩ := hs.lit_split
      have := congrArg List.length e
      simp at this
    · exact hsense hs
  | succ n ih =>
    intro inp hlen skip rest ts h hh
    unfold patternG at h
    obtain ⟨mid, t1, t2, _, h1, h2⟩ := h.many1_inv
    obtain ⟨c1, e1, n1⟩ := item_neutral n ih skip inp mid t1 hlen h1 hh
    have hmid : mid.length ≤ n + 1 := by
      have : inp.length = c1.length + mid.length := by rw [e1]; simp
      omega
    obtain ⟨c2, e2, n2⟩ := yieldMany_neutral (n + 1) h2
      (fun i r t hl hh' hy => item_neutral n ih skip i r t hl hy hh') hmid (notmem_of_suffix e1 hh).2
    exact ⟨c1 ++ c2, by rw [e1, e2, List.append_assoc], n1.append n2⟩

/-- **the text a kernel pattern consumes is well nested** (input without comments): its parentheses are balanced -/
theorem pattern_neutral {skip : Bool} {inp rest : List Char} {ts : List Tree}
    (h : Yield pil_env skip patternG inp rest ts) (hh : '#' ∉ inp) : ∃ c, inp = c ++ rest ∧ Neutral c :=
  pattern_neutral_aux inp.length inp (Nat.le_refl _) skip rest ts h hh

/-! ### every statement contains an assignment sign or an arrow -/

/-- every element of a sequence runs on a suffix of the input -/
theorem YieldSeq.elem {env : Env} : ∀ {skip : Bool} {gs : List G} {inp rest : List Char} {ts : List Tree},
    YieldSeq env skip gs inp rest ts → ∀ g ∈ gs, ∃ pre i r t, inp = pre ++ i ∧ Yield env skip g i r t
  | _, _, _, _, _, .nil _ _, g, hg => by simp at hg
  | _, _, _, _, _, .cons skip g0 gs inp mid rest t1 t2 h1 h2, g, hg => by
    rcases List.mem_cons.mp hg with rfl | hg
    · exact ⟨[], inp, mid, t1, rfl, h1⟩
    · obtain ⟨c, e⟩ := h1.suffix
      obtain ⟨pre, i, r, t, e', hy⟩ := YieldSeq.elem h2 g hg
      exact ⟨c ++ pre, i, r, t, by rw [e, e', List.append_assoc], hy⟩

/-- the characters `=`, `:` and `>` -/
def IsAssignCh (c : Char) : Prop := c = '=' ∨ c = ':' ∨ c = '>'

/-- the elements that force such a character into the text -/
def AssignElem (g : G) : Prop :=
  g = .suppress pil_assign ∨ g = .suppress (.lit ['=']) ∨ g = .suppress (.lit ['-', '>'])

theorem assignElem_char {env : Env} {skip : Bool} {g : G} {inp rest : List Char} {ts : List Tree} (hg : AssignElem g)
    (h : Yield env skip g inp rest ts) : ∃ c ∈ inp, IsAssignCh c := by
  rcases hg with rfl | rfl | rfl
  · obtain ⟨_, t, hy⟩ := h.suppress_inv
    unfold pil_assign at hy
    obtain ⟨g', hg', hs⟩ := hy.alt_inv
    simp only [List.mem_cons, List.not_mem_nil, or_false] at hg'
    rcases hg' with rfl | rfl
    · obtain ⟨ign, e, _⟩ := hs.lit_split
      exact ⟨'=', by rw [e]; simp, Or.inl rfl⟩
    · obtain ⟨ign, e, _⟩ := hs.lit_split
      exact ⟨':', by rw [e]; simp, Or.inr (Or.inl rfl)⟩
  · obtain ⟨_, t, hy⟩ := h.suppress_inv
    obtain ⟨ign, e, _⟩ := hy.lit_split
    exact ⟨'=', by rw [e]; simp, Or.inl rfl⟩
  · obtain ⟨_, t, hy⟩ := h.suppress_inv
    obtain ⟨ign, e, _⟩ := hy.lit_split
    exact ⟨'>', by rw [e]; simp, Or.inr (Or.inr rfl)⟩

/-- a tagged group whose sequence has such an element -/
theorem stmtGroup_char {env : Env} {skip : Bool} (T : String) (L : List G) (g : G) (hg : g ∈ L) (ha : AssignElem g)
    {inp rest : List Char} {ts : List Tree} (h : Yield env skip (.group (.tag T (.seq L))) inp rest ts) :
    ∃ c ∈ inp, IsAssignCh c := by
  obtain ⟨t, _, h1⟩ := h.group_inv
  cases h1 with
  | tag _ _ _ _ _ t' h2 =>
    obtain ⟨pre, i, r, t'', e, hy⟩ := h2.seq_inv.elem g hg
    obtain ⟨c, hc, hcc⟩ := assignElem_char ha hy
    exact ⟨c, by rw [e]; exact List.mem_append_right _ hc, hcc⟩

/-- **a statement contains `=`, `:` or `->`** -/
theorem stmt_assign_char {skip : Bool} {inp rest : List Char} {ts : List Tree}
    (h : Yield pil_env skip pil_stmt inp rest ts) : ∃ c ∈ inp, IsAssignCh c := by
  unfold pil_stmt at h
  obtain ⟨g, hg, hs⟩ := h.alt_inv
  simp only [List.mem_cons, List.not_mem_nil, or_false] at hg
  rcases hg with rfl | rfl | rfl | rfl | rfl | rfl | rfl | rfl
  · unfold pil_sl_domain at hs
    exact stmtGroup_char _ _ (.suppress pil_assign) (by simp) (Or.inl rfl) hs
  · unfold pil_dl_domain at hs
    obtain ⟨g, hg, hs'⟩ := hs.alt_inv
    simp only [List.mem_cons, List.not_mem_nil, or_false] at hg
    rcases hg with rfl | rfl | rfl <;>
      exact stmtGroup_char _ _ (.suppress pil_assign) (by simp) (Or.inl rfl) hs'
  · unfold pil_comp_domain at hs
    exact stmtGroup_char _ _ (.suppress pil_assign) (by simp) (Or.inl rfl) hs
  · unfold pil_strand at hs
    exact stmtGroup_char _ _ (.suppress pil_assign) (by simp) (Or.inl rfl) hs
  · unfold pil_strandcomplex at hs
    obtain ⟨g, hg, hs'⟩ := hs.alt_inv
    simp only [List.mem_cons, List.not_mem_nil, or_false] at hg
    rcases hg with rfl | rfl <;>
      exact stmtGroup_char _ _ (.suppress pil_assign) (by simp) (Or.inl rfl) hs'
  · unfold pil_reaction at hs
    obtain ⟨g, hg, hs'⟩ := hs.alt_inv
    simp only [List.mem_cons, List.not_mem_nil, or_false] at hg
    rcases hg with rfl | rfl <;>
      exact stmtGroup_char _ _ (.suppress (.lit ['-', '>'])) (by simp) (Or.inr (Or.inr rfl)) hs'
  · unfold pil_cplx at hs
    exact stmtGroup_char _ _ (.suppress (.lit ['='])) (by simp) (Or.inr (Or.inl rfl)) hs
  · unfold pil_restingset at hs
    obtain ⟨g, hg, hs'⟩ := hs.alt_inv
    simp only [List.mem_cons, List.not_mem_nil, or_false] at hg
    rcases hg with rfl | rfl <;>
      exact stmtGroup_char _ _ (.suppress (.lit ['='])) (by simp) (Or.inr (Or.inl rfl)) hs'

/-- an accepted document contains `=`, `:` or `->` -/
theorem document_assign_char {skip : Bool} {inp rest : List Char} {ts : List Tree}
    (h : Yield pil_env skip pil_document inp rest ts) : ∃ c ∈ inp, IsAssignCh c := by
  unfold pil_document at h
  obtain ⟨pre, i, r, t, e, hy⟩ := h.seq_inv.elem (.many1 pil_stmt) (by simp)
  obtain ⟨mid, t1, t2, _, h1, _⟩ := hy.many1_inv
  obtain ⟨c, hc, hcc⟩ := stmt_assign_char h1
  exact ⟨c, by rw [e]; exact List.mem_append_right _ hc, hcc⟩

theorem mem_expandTabs (cs : List Char) : ∀ (col : Nat) (c : Char), c ∈ expandTabs cs col → c ∈ cs ∨ c = ' ' := by
  induction cs with
  | nil => intro col c h; simp [expandTabs] at h
  | cons x xs ih =>
    intro col c h
    by_cases hx : x = '\t'
    · subst hx
      simp only [expandTabs, List.mem_append, List.mem_replicate] at h
      rcases h with h | h
      · exact Or.inr h.2
      · rcases ih _ c h with h | h
        · exact Or.inl (List.mem_cons_of_mem _ h)
        · exact Or.inr h
    · rw [expandTabs] at h
      · rcases List.mem_cons.mp h with rfl | h
        · exact Or.inl List.mem_cons_self
        · rcases ih _ c h with h | h
          · exact Or.inl (List.mem_cons_of_mem _ h)
          · exact Or.inr h
      · exact hx

/-! ### kernel statements -/

/-- all terms of the list are parenthesis-free -/
inductive AllBrFree : List G → Prop
  | nil : AllBrFree []
  | cons {g : G} {gs : List G} : BrFree g → AllBrFree gs → AllBrFree (g :: gs)

theorem AllBrFree.all {gs : List G} (h : AllBrFree gs) : ∀ x ∈ gs, BrFree x := by
  induction h with
  | nil => intro x hx; simp at hx
  | cons h1 _ ih =>
    intro x hx
    rcases List.mem_cons.mp hx with rfl | hx
    · exact h1
    · exact ih x hx

theorem allBrFree_nil : AllBrFree [] := AllBrFree.nil
theorem allBrFree_cons {g : G} {gs : List G} (h : BrFree g) (hs : AllBrFree gs) : AllBrFree (g :: gs) :=
  AllBrFree.cons h hs
theorem BrFree.seq' {gs : List G} (h : AllBrFree gs) : BrFree (.seq gs) := BrFree.seq gs h.all
theorem BrFree.alt' {gs : List G} (h : AllBrFree gs) : BrFree (.alt gs) := BrFree.alt gs h.all

/-- decide that a (reference-free, fully unfolded) term is parenthesis-free -/
macro "brfree" : tactic => `(tactic| repeat (first
  | exact allBrFree_nil | apply allBrFree_cons | apply BrFree.seq' | apply BrFree.alt' | apply BrFree.opt
  | apply BrFree.many | apply BrFree.many1 | apply BrFree.combine | apply BrFree.group | apply BrFree.suppress
  | apply BrFree.tag | exact BrFree.lineEnd | exact BrFree.white | exact BrFree.stringStart | exact BrFree.stringEnd
  | (apply BrFree.lit; unfold NoBr; decide) | (apply BrFree.kw; unfold NoBr; decide)
  | (apply BrFree.word <;> (unfold NoBr; decide))))

theorem brFree_conc : BrFree (.opt pil_conc) := by
  unfold pil_conc pil_gorf pil_num_sci pil_num_flt pil_number pil_cunit
  brfree

theorem brFree_lineEnds : BrFree (.many1 (.suppress .lineEnd)) := by brfree

/-- **the text of a kernel statement is well nested** (input without comments): its parentheses are balanced -/
theorem cplx_neutral {skip : Bool} {inp rest : List Char} {ts : List Tree}
    (h : Yield pil_env skip pil_cplx inp rest ts) (hh : '#' ∉ inp) : ∃ c, inp = c ++ rest ∧ Neutral c := by
  unfold pil_cplx at h
  obtain ⟨t, _, h1⟩ := h.group_inv
  cases h1 with
  | tag _ _ _ _ _ t' h2 =>
    obtain ⟨m1, t1, r1, _, h1, hr1⟩ := h2.seq_inv.cons_inv
    obtain ⟨m2, t2, r2, _, h2', hr2⟩ := hr1.cons_inv
    obtain ⟨m3, t3, r3, _, h3, hr3⟩ := hr2.cons_inv
    obtain ⟨m4, t4, r4, _, h4, hr4⟩ := hr3.cons_inv
    obtain ⟨m5, t5, r5, _, h5, hr5⟩ := hr4.cons_inv
    obtain ⟨hm5, _⟩ := hr5.nil_inv
    subst hm5
    obtain ⟨c1, e1, n1⟩ := h1.nobr brFree_identifier hh
    have hh1 := (notmem_of_suffix e1 hh).2
    obtain ⟨c2, e2, n2⟩ := h2'.nobr (by brfree) hh1
    have hh2 := (notmem_of_suffix e2 hh1).2
    -- the patterns
    have hpat : ∀ (inp rest : List Char) (ts : List Tree), inp.length ≤ m2.length → '#' ∉ inp →
        Yield pil_env skip (.group (.ref "pattern")) inp rest ts → ∃ c, inp = c ++ rest ∧ Neutral c := by
      intro inp rest ts _ hh' hy
      obtain ⟨t, _, hy'⟩ := hy.group_inv
      obtain ⟨g, hg, hs⟩ := hy'.ref_inv
      rw [pil_env_pattern] at hg
      cases hg
      exact pattern_neutral hs hh'
    obtain ⟨ma, ta, tb, _, ha, hb⟩ := h3.many1_inv
    obtain ⟨c3a, e3a, n3a⟩ := hpat m2 ma ta (Nat.le_refl _) hh2 ha
    have hh3a := (notmem_of_suffix e3a hh2).2
    have hlen : ma.length ≤ m2.length := by
      have := congrArg List.length e3a
      simp at this; omega
    obtain ⟨c3b, e3b, n3b⟩ := yieldMany_neutral m2.length hb hpat hlen hh3a
    have hh3 := (notmem_of_suffix e3b hh3a).2
    obtain ⟨c4, e4, n4⟩ := h4.nobr brFree_conc hh3
    have hh4 := (notmem_of_suffix e4 hh3).2
    obtain ⟨c5, e5, n5⟩ := h5.nobr brFree_lineEnds hh4
    refine ⟨c1 ++ (c2 ++ (c3a ++ (c3b ++ (c4 ++ c5)))), ?_, ?_⟩
    · rw [e1, e2, e3a, e3b, e4, e5]; simp
    · exact n1.neutral.append (n2.neutral.append (n3a.append (n3b.append (n4.neutral.append n5.neutral))))

end Dsd.PP
