/-
The reader on the lines the PIL grammar produces (C16, text level): without a bound on the size of kernel
patterns the only interpreter-level fault left is the RecursionError of `resolve_kernel_loops` on a pattern that
exceeds the recursion budget (Python's recursion limit).
-/
import DsdVerif.Lemmas.ReaderDoc
import DsdVerif.Lemmas.PilShape

namespace Dsd.RdL
open Dsd Dsd.PP

/-- the result of the kernel translation on a forest, for ANY fuel: a proper (names, structure) pair, or the
    recursion budget was exceeded -/
def KRes (r : Except Err (List String × List Char)) : Prop :=
  (∃ names struct, r = .ok (names, struct) ∧ names.length = struct.length ∧ NamesOK names) ∨
  r = .error (.fault "RecursionError")

theorem fold_forest : ∀ (fuel : Nat) (toks : List Tree), KForest toks → ∀ (acc : List String × List Char),
    acc.1.length = acc.2.length → NamesOK acc.1 → KRes (toks.foldlM (kstep fuel) acc) := by
  intro fuel
  induction fuel with
  | zero =>
    intro toks hf
    induction hf with
    | nil => intro acc hlen hnm; exact Or.inl ⟨acc.1, acc.2, rfl, hlen, hnm⟩
    | tok s rest hs _ ih =>
      intro acc hlen hnm
      simp only [List.foldlM_cons, kstep, bind, Except.bind]
      apply ih
      · simp [hlen]
      · intro x hx
        rcases List.mem_append.mp hx with hx | hx
        · exact hnm x hx
        · simp at hx; subst hx; exact hs.1
    | loop s inner rest hs _ _ _ _ _ =>
      intro acc hlen hnm
      right
      simp only [List.foldlM_cons, kstep, bind, Except.bind]
      have hlast : (acc.1 ++ [s]).getLast? = some s := by simp
      rw [hlast]
      simp only [resolveKernel]
  | succ f ihf =>
    intro toks hf
    induction hf with
    | nil => intro acc hlen hnm; exact Or.inl ⟨acc.1, acc.2, rfl, hlen, hnm⟩
    | tok s rest hs _ ih =>
      intro acc hlen hnm
      simp only [List.foldlM_cons, kstep, bind, Except.bind]
      apply ih
      · simp [hlen]
      · intro x hx
        rcases List.mem_append.mp hx with hx | hx
        · exact hnm x hx
        · simp at hx; subst hx; exact hs.1
    | loop s inner rest hs hplus hinner _ _ ih2 =>
      intro acc hlen hnm
      simp only [List.foldlM_cons, kstep, bind, Except.bind]
      have hlast : (acc.1 ++ [s]).getLast? = some s := by simp
      rw [hlast]
      simp only
      rw [resolveKernel_succ]
      rcases ihf inner hinner ([], []) rfl (fun x hx => by simp at hx) with ⟨se, ss, hri, hril, hrin⟩ | hri
      · rw [hri]
        simp only
        apply ih2
        · simp only [List.length_append, List.length_cons, List.length_nil, List.length_dropLast]
          omega
        · intro x hx
          simp only [List.mem_append, List.mem_cons, List.not_mem_nil, or_false] at hx
          rcases hx with ((hx | hx) | hx) | hx
          · exact hnm x hx
          · subst hx; exact hs.1
          · exact hrin x hx
          · subst hx; exact cnameOf_ne_empty s hs
      · right
        rw [hri]

theorem resolveKernel_forest (pat : List Tree) (hf : KForest pat) (fuel : Nat) : KRes (resolveKernel fuel pat) := by
  cases fuel with
  | zero => right; simp only [resolveKernel]
  | succ f =>
    rw [resolveKernel_succ]
    exact fold_forest f pat hf ([], []) rfl (fun x hx => by simp at hx)

/-! ### no fault but the recursion budget -/

def NoFaultR (e : RErr) : Prop := ∀ k, e = .fault k → k = "RecursionError"

theorem NoFault.r {e : RErr} (h : NoFault e) : NoFaultR e := fun k hk => absurd hk (h k)

def LSpecR (r : RState × Except RErr RObj) : Prop :=
  WOK r.1.w ∧ (∀ e, r.2 = .error e → NoFaultR e) ∧ (∀ id, r.2 = .ok (.dom id) → GoodDom r.1.w id)

theorem LSpec.r {r : RState × Except RErr RObj} (h : LSpec r) : LSpecR r :=
  ⟨h.1, fun e he => (h.2.1 e he).r, h.2.2⟩

def LineOKR (line : List Tree) : Prop := ∀ (s : RState) (sl : Slots), WOK s.w → SlotsOK sl → LSpecR (s.readLine sl line)

theorem pilLine_ok {l : List Tree} (h : PilLine l) : LineOKR l := by
  intro s sl hw hsl
  cases h with
  | dl name len hn hl => exact (readLine_dl s sl hw hsl name len [] hn hl).r
  | sl name con rest hn => exact (readLine_sl s sl hw hsl name con rest hn).r
  | comp name doms rest hd => exact (readLine_comp s sl hw hsl name doms rest hd).r
  | strandComplex name db strands => exact (readLine_strandComplex s sl hw hsl name db strands []).r
  | kernel name pat rest hf =>
    rcases resolveKernel_forest pat hf (treeSize 1000 pat + 2) with ⟨names, struct, h1, h2, h3⟩ | herr
    · exact (readLine_kernel s sl hw hsl name pat rest names struct h1 h2 h3).r
    · simp only [RState.readLine, herr]
      refine ⟨hw, ?_, by intro id h; cases h⟩
      intro e he
      cases he
      intro k hk
      cases hk
      rfl
  | resting name mem => exact (readLine_resting s sl hw hsl name mem []).r
  | reaction info rs ps => exact (readLine_reaction s sl hw hsl info rs ps []).r

theorem readDoc_nofaultR (sl : Slots) (hsl : SlotsOK sl) (ign : List String) (before : List Nat) (lines : List Tree) :
    ∀ (s : RState) (d : RDict), WOK s.w → (∀ t ∈ lines, ∀ l, t = .grp l → LineOKR l) →
      ∀ s' e, s.readDoc sl ign before lines d = (s', .error e) → NoFaultR e := by
  induction lines with
  | nil => intro s d _ _ s' e h; simp [RState.readDoc] at h
  | cons t rest ih =>
    intro s d hw hl s' e h
    have hrest : ∀ t ∈ rest, ∀ l, t = .grp l → LineOKR l := fun t ht => hl t (List.mem_cons_of_mem _ ht)
    cases t with
    | tok x => simp [RState.readDoc] at h
    | grp line =>
      simp only [RState.readDoc] at h
      split at h
      · exact ih s d hw hrest s' e h
      · obtain ⟨a1, a2, a3⟩ := hl (.grp line) List.mem_cons_self line rfl s sl hw hsl
        generalize s.readLine sl line = r1 at a1 a2 a3 h
        obtain ⟨s1, res1⟩ := r1
        cases res1 with
        | error e1 =>
          simp only [Prod.mk.injEq, Except.error.injEq] at h
          rw [← h.2]; exact a2 e1 rfl
        | ok obj =>
          simp only at a1 a2 a3 h
          cases obj with
          | dom id =>
            simp only at h
            obtain ⟨c, g, _⟩ := invert_grow s1.w a1 id (a3 id rfl)
            have hw' := g.wok a1 (by simp) (by intro h; cases h)
            generalize s1.w.invert id = res at g hw' h
            obtain ⟨w', out⟩ := res
            simp only at g hw' h
            cases out with
            | ret cid b =>
              simp only at h
              split at h
              · rename_i _ s2 e2 heq
                have he2 : e2 = .pilFormat := by
                  split at heq
                  · split at heq
                    · simp only [Prod.mk.injEq, Except.error.injEq] at heq; exact heq.2.symm
                    · simp at heq
                  · simp at heq
                simp only [Prod.mk.injEq, Except.error.injEq] at h
                rw [← h.2, he2]; exact nf_pil.r
              · rename_i _ s2 d2 heq
                have hs2 : s2.w = w' := by
                  split at heq
                  · split at heq
                    · simp at heq
                    · simp only [Prod.mk.injEq] at heq; rw [← heq.1]
                  · simp only [Prod.mk.injEq] at heq; rw [← heq.1]
                exact ih _ _ (wok_keepOnly _ _ _ (hs2 ▸ hw')) hrest s' e h
            | fault kk => exact absurd rfl (g.noFault kk)
            | _ =>
              simp only [Prod.mk.injEq, Except.error.injEq] at h
              rw [← h.2]; intro k; simp [RErr.ofOut]
          | strand id => exact ih _ _ (wok_keepOnly _ _ _ a1) hrest s' e h
          | cplx id => exact ih _ _ (wok_keepOnly _ _ _ a1) hrest s' e h
          | «macro» id => exact ih _ _ (wok_keepOnly _ _ _ a1) hrest s' e h
          | rxn id b =>
            cases b
            · exact ih _ _ (wok_keepOnly _ _ _ a1) hrest s' e h
            · exact ih _ _ (wok_keepOnly _ _ _ a1) hrest s' e h
          | other => exact ih _ _ (wok_keepOnly _ _ _ a1) hrest s' e h

end Dsd.RdL
