/-
Python's tuple / str order and stable `sorted` (Model/PyPreludeIdent.lean) against the model's `ckeyLt` / `sortBy`, once more for
the C11 line of imports (Lemmas/PyIdentOrder.lean sits above Lemmas/CanonOrder.lean, which cannot be imported together with
Lemmas/Order.lean that Props/C11Sets.lean uses; the statements are the same, the names live in `Dsd.PyIdent2`).
-/
import DsdVerif.Model.PyPreludeIdent2
import DsdVerif.Lemmas.Sort

namespace Dsd.PyIdent2
open Dsd

theorem seqLt_eq_lexLt' {α} [BEq α] [LawfulBEq α] [DecidableEq α] (lt : α → α → Bool) (a b : List α) :
    Py.seqLt lt a b = lexLt lt a b := by
  induction a generalizing b with
  | nil => cases b <;> rfl
  | cons x xs ih =>
    cases b with
    | nil => rfl
    | cons y ys =>
      simp only [Py.seqLt, lexLt, ih]
      by_cases h : x = y <;> simp [h]

theorem strLt_eq : Py.strLt = Dsd.strLt := by
  funext a b
  simp only [Py.strLt, Dsd.strLt, seqLt_eq_lexLt']
  rfl

/-- Python's `<` on (tuple of str, tuple of one-character str), written from first principles, is the model's `ckeyLt` -/
theorem ckeyLt_eq : Py.ckeyLt = Dsd.ckeyLt := by
  funext a b
  simp only [Py.ckeyLt, Dsd.ckeyLt, seqLt_eq_lexLt', strLt_eq]
  by_cases h : a.1 = b.1
  · simp [h]; rfl
  · simp [h]

theorem insertBy_eq {α} (lt : α → α → Bool) (x : α) (l : List α) :
    Py.insertBy lt x l = insertSorted (fun a b => !lt b a) x l := by
  induction l with
  | nil => rfl
  | cons y ys ih =>
    simp only [Py.insertBy, insertSorted, ih]
    by_cases h : lt y x = true <;> simp [h]

/-- Python's stable `sorted` is the model's `sortBy` -/
theorem sortedBy_eq {α} (lt : α → α → Bool) (l : List α) : Py.sortedBy lt l = sortBy lt l := by
  unfold Py.sortedBy sortBy
  induction l with
  | nil => rfl
  | cons x xs ih => simp only [List.foldr_cons, ih, insertBy_eq]

end Dsd.PyIdent2
