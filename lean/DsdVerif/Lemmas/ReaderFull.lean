/-
The statement-by-statement reader (Model/ReaderFull.lean) against the hand-written one (Model/Reader.lean):
the list comprehensions, `resolve_kernel_loops`, the fallback loop.
-/
import DsdVerif.Model.ReaderFull
import DsdVerif.Lemmas.ReaderName
import DsdVerif.Lemmas.ReaderWF

namespace Dsd.RFull
open Dsd Dsd.PP Dsd.ReaderFull

/-! ### constructor calls and comprehensions -/

theorem domReq_eq (s : RState) (sl : Slots) (q : DomReq) : s.domReq sl q = ctorDomain sl s q := by
  unfold RState.domReq ctorDomain ofOut
  cases s.w.mkDom sl.dom q with
  | mk w' out => cases out <;> rfl

theorem strandDomains_eq (s : RState) (sl : Slots) (n : String) : s.strandDomains sl n = strandSeq sl s n := by
  unfold RState.strandDomains strandSeq ctorStrand ofOut
  cases s.w.mkStrand sl.strand none (some n) with
  | mk w' out =>
    cases out <;> try rfl
    rename_i id c
    simp only
    cases w'.node id <;> rfl

theorem listComp_cons {α β} (f : RState → α → RState × Except RErr β) (s : RState) (x : α) (xs : List α) :
    listComp f s (x :: xs) =
      match f s x with
      | (s1, .error e) => (s1, .error e)
      | (s1, .ok y) =>
        match listComp f s1 xs with
        | (s2, .ok ys) => (s2, .ok (y :: ys))
        | (s2, .error e) => (s2, .error e) := rfl

theorem domList_eq (sl : Slots) (ns : List String) : ∀ s : RState,
    s.domList sl ns = listComp (fun s d => ctorDomain sl s { name := some d }) s ns := by
  induction ns with
  | nil => intro s; rfl
  | cons n ns ih =>
    intro s
    rw [listComp_cons]
    unfold RState.domList
    rw [domReq_eq]
    cases ctorDomain sl s { name := some n } with
    | mk s1 r =>
      cases r with
      | error e => rfl
      | ok id =>
        simp only [ih s1]
        cases listComp (fun s d => ctorDomain sl s { name := some d }) s1 ns with
        | mk s2 r2 => cases r2 <;> rfl

theorem invertAll_eq (ds : List Nat) : ∀ s : RState, s.invertAll ds = listComp ctorInvert s ds := by
  induction ds with
  | nil => intro s; rfl
  | cons d ds ih =>
    intro s
    rw [listComp_cons]
    unfold RState.invertAll
    cases h : s.w.invert d with
    | mk w' out =>
      have hc : ctorInvert s d = ofOut s w' out := by unfold ctorInvert; rw [h]
      rw [hc]
      cases out <;> try rfl
      simp only [ofOut, ih]
      cases listComp ctorInvert { s with w := w' } ds with
      | mk s2 r2 => cases r2 <;> rfl

theorem lookupAll_eq (f : World → String → World × Out) (g : RState → String → RState × Except RErr Nat)
    (hg : ∀ s n, g s n = ofOut s (f s.w n).1 (f s.w n).2) (ns : List String) : ∀ s : RState,
    s.lookupAll f ns = listComp g s ns := by
  induction ns with
  | nil => intro s; rfl
  | cons n ns ih =>
    intro s
    rw [listComp_cons, hg]
    unfold RState.lookupAll
    simp only
    cases h : f s.w n with
    | mk w' out =>
      cases out <;> try rfl
      simp only [ih, ofOut]
      generalize listComp g { s with w := w' } ns = r
      obtain ⟨s2, r2⟩ := r
      cases r2 <;> rfl

theorem collect_eq (sl : Slots) (ns : List String) : ∀ s : RState,
    RState.readLine.collect sl s ns = listComp (strandSeq sl) s ns := by
  induction ns with
  | nil => intro s; rfl
  | cons n ns ih =>
    intro s
    rw [listComp_cons]
    unfold RState.readLine.collect
    rw [strandDomains_eq]
    cases strandSeq sl s n with
    | mk s1 r =>
      cases r with
      | error e => rfl
      | ok ds =>
        simp only [ih s1]
        cases listComp (strandSeq sl) s1 ns with
        | mk s2 r2 => cases r2 <;> rfl

/-! ### `resolve_kernel_loops` -/

/-- how the hand-written reader reports an exception of `resolveKernel` -/
def errMap : Err → RErr
  | .fault k => .fault k
  | _ => .fault "resolve"

def mapRes (x : Except Err (List String × List Char)) : Except RErr (List String × List Char) :=
  match x with
  | .ok r => .ok r
  | .error e => .error (errMap e)

theorem compName_of_last (old : String) (c : Char) (h : old.toList.getLast? = some c) :
    (if c != '*' then old ++ "*" else String.ofList old.toList.dropLast) = compName old := by
  unfold compName cnameOf isStarred
  rw [h]
  by_cases hc : c = '*'
  · subst hc; rfl
  · have : (some c == some '*') = false := by simp [hc]
    simp [hc, this]

/-- the loop of `resolve_kernel_loops` against the fold of `resolveKernel`, given that the recursive calls agree -/
theorem resolveGo_eq (f : Nat) (recurse : List Tree → Except RErr (List String × List Char))
    (hrec : ∀ inner, RdL.KForest inner → recurse inner = mapRes (resolveKernel f inner) ∧
      ∀ r, resolveKernel f inner = .ok r → r.1.length = r.2.length)
    (toks : List Tree) (hk : RdL.KForest toks) :
    ∀ (sequen : List String) (struct : List Char), sequen.length = struct.length →
      resolveGo recurse toks sequen struct = mapRes (toks.foldlM (RdL.kstep f) (sequen, struct)) ∧
      ∀ r, toks.foldlM (RdL.kstep f) (sequen, struct) = .ok r → r.1.length = r.2.length := by
  induction hk with
  | nil =>
    intro sequen struct hl
    exact ⟨rfl, fun r hr => by cases hr; exact hl⟩
  | tok s rest hs _ ih =>
    intro sequen struct hl
    simp only [resolveGo, List.foldlM_cons, RdL.kstep, bind, Except.bind]
    exact ih _ _ (by simp [hl])
  | loop s inner rest hs hplus hinner _ _ ih2 =>
    intro sequen struct hl
    simp only [resolveGo, List.foldlM_cons, RdL.kstep, bind, Except.bind]
    have hlast1 : (sequen ++ [s]).getLast? = some s := by simp
    have hlast2 : ∃ c, (struct ++ [if s == "+" then '+' else '.']).getLast? = some c :=
      ⟨if s == "+" then '+' else '.', by simp⟩
    obtain ⟨c2, hc2⟩ := hlast2
    rw [hlast1, hc2]
    simp only
    obtain ⟨hr1, hr2⟩ := hrec inner hinner
    rw [hr1]
    cases hres : resolveKernel f inner with
    | error e => exact ⟨rfl, fun r hr => by cases hr⟩
    | ok r =>
      obtain ⟨se, ss⟩ := r
      have hlen := hr2 _ hres
      simp only [mapRes]
      have hne : s.toList ≠ [] := (RdL.str_ne_empty_iff s).mp hs.1
      obtain ⟨c, hc⟩ : ∃ c, s.toList.getLast? = some c := by
        cases hh : s.toList.getLast? with
        | none => exact absurd (List.getLast?_eq_none_iff.mp hh) hne
        | some c => exact ⟨c, rfl⟩
      rw [hc]
      simp only [compName_of_last s c hc]
      exact ih2 _ _ (by simp at hlen ⊢; omega)

theorem resolveLoops_eq (f : Nat) : ∀ (pat : List Tree), RdL.KForest pat →
    resolveLoops f pat = mapRes (resolveKernel f pat) ∧ ∀ r, resolveKernel f pat = .ok r → r.1.length = r.2.length := by
  induction f with
  | zero =>
    intro pat _
    exact ⟨rfl, fun r hr => by unfold resolveKernel at hr; cases hr⟩
  | succ f ih =>
    intro pat hk
    rw [RdL.resolveKernel_succ]
    exact resolveGo_eq f (resolveLoops f) ih pat hk [] [] rfl

/-! ### the fallback loop -/

/-- what the loop computes, by recursion over the names: the rewritten list (a name whose composite domain is empty
    stays a string), the structure with the copied characters, and the number of iterations -/
def expandS (sl : Slots) : RState → List String → List Char → (RState × Except RErr (List PyItem × List Char)) × Nat
  | s, [], _ => ((s, .ok ([], [])), 1)
  | s, _ :: _, [] => ((s, .error (.fault "IndexError")), 1)
  | s, n :: ns, c :: cs =>
    if n == "+" then
      match expandS sl s ns cs with
      | ((s2, .ok (it, st)), k) => ((s2, .ok (.name n :: it, c :: st)), k + 1)
      | ((s2, .error e), k) => ((s2, .error e), k + 1)
    else
      match ctorDomain sl s { name := some n } with
      | (s1, .ok id) =>
        match expandS sl s1 ns cs with
        | ((s2, .ok (it, st)), k) => ((s2, .ok (.dom id :: it, c :: st)), k + 1)
        | ((s2, .error e), k) => ((s2, .error e), k + 1)
      | (s1, .error .singleton) =>
        match subseqOf sl s1 n with
        | (s2, .error e) => ((s2, .error e), 1)
        | (s2, .ok ds) =>
          match expandS sl s2 ns cs with
          | ((s3, .ok (it, st)), k) =>
            if ds.isEmpty then ((s3, .ok (.name n :: it, c :: st)), k + 1)
            else ((s3, .ok (ds.map .dom ++ it, ds.map (fun _ => c) ++ st)), k + ds.length)
          | ((s3, .error e), k) => ((s3, .error e), k + (if ds.isEmpty then 1 else ds.length))
      | (s1, .error e) => ((s1, .error e), 1)

theorem fallback_succ (sl : Slots) (fuel : Nat) (s : RState) (e : Nat) (sequence : List PyItem) (struc : List Char) :
    fallback sl (fuel + 1) s e sequence struc =
      match sequence[e]? with
      | none => (s, .ok (sequence, struc))
      | some (.dom _) => fallback sl fuel s (e + 1) sequence struc
      | some (.name d) =>
        if d == "+" then fallback sl fuel s (e + 1) sequence struc
        else
          match ctorDomain sl s { name := some d } with
          | (s1, .ok id) => fallback sl fuel s1 (e + 1) (sequence.set e (.dom id)) struc
          | (s1, .error .singleton) =>
            match subseqOf sl s1 d with
            | (s2, .error err) => (s2, .error err)
            | (s2, .ok subseq) =>
              match ReaderFull.splice e 0 subseq sequence struc with
              | .error err => (s2, .error err)
              | .ok (sequence', struc') => fallback sl fuel s2 (e + 1) sequence' struc'
          | (s1, .error err) => (s1, .error err) := rfl

/-- inserted `Domain` objects are visited and skipped -/
theorem fallback_skip (sl : Slots) (ds : List Nat) : ∀ (fuel : Nat) (s : RState) (pre rest : List PyItem) (struc : List Char),
    fallback sl (fuel + ds.length) s pre.length (pre ++ ds.map .dom ++ rest) struc =
      fallback sl fuel s (pre.length + ds.length) (pre ++ ds.map .dom ++ rest) struc := by
  induction ds with
  | nil => intro fuel s pre rest struc; rfl
  | cons d ds ih =>
    intro fuel s pre rest struc
    have h1 : fuel + (d :: ds).length = (fuel + ds.length) + 1 := by simp; omega
    rw [h1, fallback_succ]
    have hget : (pre ++ List.map PyItem.dom (d :: ds) ++ rest)[pre.length]? = some (.dom d) := by
      simp
    rw [hget]
    simp only
    have := ih fuel s (pre ++ [.dom d]) rest struc
    simp only [List.length_append, List.length_cons, List.length_nil, List.append_assoc, List.cons_append,
      List.nil_append, Nat.zero_add] at this
    simp only [List.map_cons, List.append_assoc, List.cons_append, List.length_cons]
    rw [this]
    congr 1
    omega

/-- the `for i, sd in enumerate(subseq)` loop from `i ≥ 1` on: the remaining domains are inserted behind those
    already placed, each with a copy of the structure character -/
theorem splice_rest (pre : List PyItem) (preS : List Char) (c : Char) (dr : List Nat) :
    ∀ (i : Nat) (X : List PyItem) (Y : List Char) (rest : List PyItem) (cs : List Char), 1 ≤ i → X.length = i → Y.length = i →
      pre.length = preS.length → (∀ y ∈ Y, y = c) →
      ReaderFull.splice pre.length i dr (pre ++ X ++ rest) (preS ++ Y ++ cs) =
        .ok (pre ++ X ++ dr.map .dom ++ rest, preS ++ Y ++ dr.map (fun _ => c) ++ cs) := by
  induction dr with
  | nil => intro i X Y rest cs _ _ _ _ _; simp [ReaderFull.splice]
  | cons d dr ih =>
    intro i X Y rest cs hi hX hY hp hYc
    unfold ReaderFull.splice
    have hi0 : ¬ i = 0 := by omega
    simp only [hi0, if_false]
    have hc : (preS ++ Y ++ cs)[pre.length]? = some c := by
      cases Y with
      | nil => simp at hY; omega
      | cons y Y' =>
        have : y = c := hYc y (by simp)
        subst this
        simp [hp]
    rw [hc]
    simp only
    have hins1 : pyInsert (pre ++ X ++ rest) (pre.length + i) (.dom d) = pre ++ (X ++ [.dom d]) ++ rest := by
      unfold pyInsert
      have : (pre ++ X).length = pre.length + i := by simp [hX]
      rw [← this, List.take_left', List.drop_left']
      · simp
      · rfl
      · rfl
    have hins2 : pyInsert (preS ++ Y ++ cs) (pre.length + i) c = preS ++ (Y ++ [c]) ++ cs := by
      unfold pyInsert
      have : (preS ++ Y).length = pre.length + i := by simp [hY, hp]
      rw [← this, List.take_left', List.drop_left']
      · simp
      · rfl
      · rfl
    rw [hins1, hins2, ih (i + 1) (X ++ [PyItem.dom d]) (Y ++ [c]) rest cs (by omega) (by simp [hX]) (by simp [hY]) hp
      (by intro y hy; rcases List.mem_append.mp hy with h | h; exact hYc y h; simpa using h)]
    simp

/-- the whole `enumerate(subseq)` loop for a non-empty `subseq` -/
theorem splice_all (pre rest : List PyItem) (preS cs : List Char) (n : String) (c : Char) (d : Nat) (dr : List Nat)
    (hp : pre.length = preS.length) :
    ReaderFull.splice pre.length 0 (d :: dr) (pre ++ .name n :: rest) (preS ++ c :: cs) =
      .ok (pre ++ (d :: dr).map .dom ++ rest, preS ++ (d :: dr).map (fun _ => c) ++ cs) := by
  unfold ReaderFull.splice
  simp only [if_true]
  have hset : (pre ++ PyItem.name n :: rest).set pre.length (.dom d) = pre ++ [.dom d] ++ rest := by
    simp [List.set_append_right]
  rw [hset]
  have := splice_rest pre preS c dr 1 [.dom d] [c] rest cs (Nat.le_refl _) rfl rfl hp (by simp)
  simp only [List.append_assoc, List.cons_append, List.nil_append] at this ⊢
  rw [this]
  simp

/-- how the loop's result relates to `expandS`'s: the processed prefix in front -/
def lift (pre : List PyItem) (preS : List Char) (r : RState × Except RErr (List PyItem × List Char)) :
    RState × Except RErr (List PyItem × List Char) :=
  match r with
  | (s', .ok (it, st)) => (s', .ok (pre ++ it, preS ++ st))
  | (s', .error e) => (s', .error e)

theorem lift_snoc (pre : List PyItem) (preS : List Char) (x : PyItem) (c : Char)
    (s' : RState) (r : Except RErr (List PyItem × List Char)) :
    lift (pre ++ [x]) (preS ++ [c]) (s', r) =
      lift pre preS (match r with | .ok (it, st) => (s', .ok (x :: it, c :: st)) | .error e => (s', .error e)) := by
  cases r with
  | error e => rfl
  | ok p => obtain ⟨it, st⟩ := p; simp [lift]

/-- **the loop over the growing list computes `expandS`**, given enough steps -/
theorem fallback_eq (sl : Slots) (names : List String) : ∀ (cs : List Char) (s : RState) (pre : List PyItem)
    (preS : List Char) (fuel : Nat), names.length = cs.length → pre.length = preS.length →
    (expandS sl s names cs).2 ≤ fuel →
    fallback sl fuel s pre.length (pre ++ names.map .name) (preS ++ cs) = lift pre preS (expandS sl s names cs).1 := by
  induction names with
  | nil =>
    intro cs s pre preS fuel hl hp hf
    cases cs with
    | cons c cs => simp at hl
    | nil =>
      simp only [expandS] at hf ⊢
      obtain ⟨f, rfl⟩ : ∃ f, fuel = f + 1 := ⟨fuel - 1, by omega⟩
      rw [fallback_succ]
      simp [lift]
  | cons n ns ih =>
    intro cs s pre preS fuel hl hp hf
    cases cs with
    | nil => simp at hl
    | cons c cs =>
      have hl' : ns.length = cs.length := by simpa using hl
      have hget : (pre ++ List.map PyItem.name (n :: ns))[pre.length]? = some (.name n) := by simp
      have hlen1 : pre.length + 1 = (pre ++ [PyItem.name n]).length := by simp
      have hp1 : ∀ x : PyItem, (pre ++ [x]).length = (preS ++ [c]).length := by intro x; simp [hp]
      have hre1 : ∀ x : PyItem, pre ++ x :: List.map PyItem.name ns = (pre ++ [x]) ++ List.map PyItem.name ns := by
        intro x; simp
      have hre2 : preS ++ c :: cs = (preS ++ [c]) ++ cs := by simp
      unfold expandS at hf ⊢
      by_cases hplus : (n == "+") = true
      · simp only [hplus, if_true] at hf ⊢
        generalize hE : expandS sl s ns cs = E at hf ⊢
        obtain ⟨⟨s2, r⟩, k⟩ := E
        have hk : k + 1 ≤ fuel := by cases r <;> simpa using hf
        obtain ⟨f, rfl⟩ : ∃ f, fuel = f + 1 := ⟨fuel - 1, by omega⟩
        rw [fallback_succ, hget]
        simp only [hplus, if_true, List.map_cons]
        rw [hre1, hre2, hlen1, ih cs s _ _ f hl' (hp1 _) (by rw [hE]; simpa using hk), hE, lift_snoc]
        cases r with
        | error e => rfl
        | ok p => rfl
      · simp only [hplus, Bool.false_eq_true, if_false] at hf ⊢
        generalize hD : ctorDomain sl s { name := some n } = D at hf ⊢
        obtain ⟨s1, rd⟩ := D
        cases rd with
        | ok id =>
          simp only at hf ⊢
          generalize hE : expandS sl s1 ns cs = E at hf ⊢
          obtain ⟨⟨s2, r⟩, k⟩ := E
          have hk : k + 1 ≤ fuel := by cases r <;> simpa using hf
          obtain ⟨f, rfl⟩ : ∃ f, fuel = f + 1 := ⟨fuel - 1, by omega⟩
          rw [fallback_succ, hget]
          simp only [hplus, Bool.false_eq_true, if_false, hD, List.map_cons]
          have hset : (pre ++ PyItem.name n :: List.map PyItem.name ns).set pre.length (.dom id) =
              (pre ++ [PyItem.dom id]) ++ List.map PyItem.name ns := by simp [List.set_append_right]
          have hlen2 : pre.length + 1 = (pre ++ [PyItem.dom id]).length := by simp
          rw [hset, hre2, hlen2, ih cs s1 _ _ f hl' (hp1 _) (by rw [hE]; simpa using hk), hE, lift_snoc]
          cases r with
          | error e => rfl
          | ok p => rfl
        | error e =>
          by_cases hsing : e = .singleton
          · subst hsing
            simp only at hf ⊢
            generalize hS : subseqOf sl s1 n = S at hf ⊢
            obtain ⟨s2, rs⟩ := S
            cases rs with
            | error e2 =>
              simp only at hf ⊢
              obtain ⟨f, rfl⟩ : ∃ f, fuel = f + 1 := ⟨fuel - 1, by omega⟩
              rw [fallback_succ, hget]
              simp only [hplus, Bool.false_eq_true, if_false, hD, hS]
              rfl
            | ok ds =>
              simp only at hf ⊢
              generalize hE : expandS sl s2 ns cs = E at hf ⊢
              obtain ⟨⟨s3, r⟩, k⟩ := E
              cases ds with
              | nil =>
                have hk : k + 1 ≤ fuel := by cases r <;> simpa using hf
                obtain ⟨f, rfl⟩ : ∃ f, fuel = f + 1 := ⟨fuel - 1, by omega⟩
                rw [fallback_succ, hget]
                simp only [hplus, Bool.false_eq_true, if_false, hD, hS, ReaderFull.splice, List.map_cons]
                rw [hre1, hre2, hlen1, ih cs s2 _ _ f hl' (hp1 _) (by rw [hE]; simpa using hk), hE, lift_snoc]
                cases r with
                | error e => rfl
                | ok p => rfl
              | cons d dr =>
                have hk : k + (dr.length + 1) ≤ fuel := by cases r <;> simpa using hf
                obtain ⟨f, rfl⟩ : ∃ f, fuel = (f + dr.length) + 1 := ⟨fuel - dr.length - 1, by omega⟩
                rw [fallback_succ, hget]
                simp only [hplus, Bool.false_eq_true, if_false, hD, hS, List.map_cons]
                rw [splice_all pre (List.map PyItem.name ns) preS cs n c d dr hp]
                simp only
                have hskip := fallback_skip sl dr f s2 (pre ++ [PyItem.dom d]) (List.map PyItem.name ns)
                  (preS ++ List.map (fun _ => c) (d :: dr) ++ cs)
                simp only [List.length_append, List.length_cons, List.length_nil, Nat.zero_add, List.append_assoc,
                  List.cons_append, List.nil_append, List.map_cons] at hskip ⊢
                rw [hskip]
                have hreg1 : pre ++ PyItem.dom d :: (List.map PyItem.dom dr ++ List.map PyItem.name ns) =
                    (pre ++ List.map PyItem.dom (d :: dr)) ++ List.map PyItem.name ns := by simp
                have hreg2 : preS ++ c :: (List.map (fun _ => c) dr ++ cs) =
                    (preS ++ List.map (fun _ => c) (d :: dr)) ++ cs := by simp
                have hlen3 : pre.length + 1 + dr.length = (pre ++ List.map PyItem.dom (d :: dr)).length := by
                  simp; omega
                rw [hreg1, hreg2, hlen3, ih cs s2 _ _ f hl' (by simp [hp]) (by rw [hE]; simp; omega), hE]
                cases r with
                | error e => rfl
                | ok p => obtain ⟨it, st⟩ := p; simp [lift]
          · obtain ⟨f, rfl⟩ : ∃ f, fuel = f + 1 := ⟨fuel - 1, by
              cases e <;> simp at hf <;> first | omega | exact absurd rfl hsing⟩
            rw [fallback_succ, hget]
            simp only [hplus, Bool.false_eq_true, if_false, hD]
            cases e <;> first | rfl | exact absurd rfl hsing

/-! ### the step budget suffices -/

theorem kids_settle_nil (w : World) (out : Out) (k : Kind) (c : Nat) : kids (w.settle out k c []) = kids w := by
  unfold kids
  rw [(RdL.settle_nodes w out k c []).1]
  unfold RdL.newNodes
  split <;> simp

theorem kids_mkDom (w : World) (c : Nat) (q : DomReq) : kids (w.mkDom c q).1 = kids w := by
  unfold World.mkDom
  simp only
  generalize World.withClass w.doms c _ = r
  obtain ⟨ds, out⟩ := r
  exact kids_settle_nil { w with doms := ds } out .dom c

theorem kids_invert (w : World) (d : Nat) : kids (w.invert d).1 = kids w := by
  unfold World.invert
  cases w.domObj d with
  | none => rfl
  | some p => exact kids_mkDom w p.1 _

theorem kids_mkStrand_lookup (w : World) (c : Nat) (n : String) : kids (w.mkStrand c none (some n)).1 = kids w := by
  unfold World.mkStrand
  simp only
  generalize World.withClass w.strands c _ = r
  obtain ⟨ss, out⟩ := r
  exact kids_settle_nil { w with strands := ss } out .strand c

theorem ofOut_w (s : RState) (w' : World) (out : Out) : (ofOut s w' out).1.w = w' := by
  unfold ofOut; cases out <;> rfl

theorem kids_ctorDomain (sl : Slots) (s : RState) (q : DomReq) : kids (ctorDomain sl s q).1.w = kids s.w := by
  unfold ctorDomain; simp only [ofOut_w]; exact kids_mkDom _ _ _

theorem kids_ctorInvert (s : RState) (d : Nat) : kids (ctorInvert s d).1.w = kids s.w := by
  unfold ctorInvert; simp only [ofOut_w]; exact kids_invert _ _

theorem listComp_invert (ds : List Nat) : ∀ s : RState,
    kids (listComp ctorInvert s ds).1.w = kids s.w ∧
    ∀ r, (listComp ctorInvert s ds).2 = .ok r → r.length = ds.length := by
  induction ds with
  | nil => intro s; exact ⟨rfl, fun r hr => by cases hr; rfl⟩
  | cons d ds ih =>
    intro s
    rw [listComp_cons]
    have hk := kids_ctorInvert s d
    generalize ctorInvert s d = r1 at hk
    obtain ⟨s1, x⟩ := r1
    cases x with
    | error e => exact ⟨hk, fun r hr => by cases hr⟩
    | ok id =>
      simp only
      obtain ⟨i1, i2⟩ := ih s1
      generalize listComp ctorInvert s1 ds = r2 at i1 i2
      obtain ⟨s2, y⟩ := r2
      cases y with
      | error e => exact ⟨i1.trans hk, fun r hr => by cases hr⟩
      | ok ids =>
        refine ⟨i1.trans hk, fun r hr => ?_⟩
        cases hr
        simp [i2 ids rfl]

theorem mem_le_sum (l : List Nat) (x : Nat) (h : x ∈ l) : x ≤ l.sum := by
  induction l with
  | nil => cases h
  | cons a l ih =>
    rcases List.mem_cons.mp h with rfl | h
    · simp
    · have := ih h; simp; omega

theorem node_kids (w : World) (id : Nat) (nd : Node) (h : w.node id = some nd) : nd.children.length ≤ kids w := by
  unfold World.node at h
  have hm := List.mem_of_find?_eq_some h
  unfold kids
  exact mem_le_sum _ _ (List.mem_map.mpr ⟨nd, hm, rfl⟩)

theorem strandSeq_kids (sl : Slots) (s : RState) (n : String) :
    kids (strandSeq sl s n).1.w = kids s.w ∧ ∀ ds, (strandSeq sl s n).2 = .ok ds → ds.length ≤ kids s.w := by
  unfold strandSeq ctorStrand
  have hk := kids_mkStrand_lookup s.w sl.strand n
  generalize s.w.mkStrand sl.strand none (some n) = r at hk
  obtain ⟨w', out⟩ := r
  simp only at hk
  cases out with
  | ret id c =>
    simp only [ofOut]
    refine ⟨hk, fun ds h => ?_⟩
    cases hn : w'.node id with
    | none => rw [hn] at h; cases h; simp
    | some nd =>
      rw [hn] at h; cases h
      rw [← hk]; exact node_kids w' id nd hn
  | _ => exact ⟨hk, fun ds h => by cases h⟩

theorem subseqOf_kids (sl : Slots) (s : RState) (d : String) :
    kids (subseqOf sl s d).1.w = kids s.w ∧ ∀ ds, (subseqOf sl s d).2 = .ok ds → ds.length ≤ kids s.w := by
  unfold subseqOf
  obtain ⟨a1, a2⟩ := strandSeq_kids sl s d
  generalize strandSeq sl s d = r1 at a1 a2
  obtain ⟨s1, x⟩ := r1
  cases x with
  | ok ds => exact ⟨a1, fun ds' h => by cases h; exact a2 _ rfl⟩
  | error e =>
    by_cases he : e = .singleton
    · subst he
      simp only
      cases compOf d with
      | error e2 => exact ⟨a1, fun ds h => by cases h⟩
      | ok cd =>
        simp only
        obtain ⟨b1, b2⟩ := strandSeq_kids sl s1 cd
        generalize strandSeq sl s1 cd = r2 at b1 b2
        obtain ⟨s2, y⟩ := r2
        cases y with
        | ok comp =>
          simp only
          obtain ⟨c1, c2⟩ := listComp_invert comp.reverse s2
          refine ⟨c1.trans (b1.trans a1), fun ds h => ?_⟩
          rw [c2 ds h, List.length_reverse]
          have := b2 comp rfl
          rw [← a1]; exact this
        | error e2 =>
          cases e2 <;> exact ⟨b1.trans a1, fun ds h => by cases h⟩
    · cases e <;> first | exact absurd rfl he | exact ⟨a1, fun ds h => by cases h⟩

/-- **the loop never runs out of steps** -/
theorem steps_le_budget (sl : Slots) (names : List String) : ∀ (cs : List Char) (s : RState),
    (expandS sl s names cs).2 ≤ names.length * (kids s.w + 2) + 1 ∧
    kids (expandS sl s names cs).1.1.w = kids s.w := by
  induction names with
  | nil => intro cs s; simp [expandS]
  | cons n ns ih =>
    intro cs s
    cases cs with
    | nil => simp [expandS]
    | cons c cs =>
      have hmul : (n :: ns).length * (kids s.w + 2) + 1 = ns.length * (kids s.w + 2) + 1 + (kids s.w + 2) := by
        simp [Nat.succ_mul]; omega
      rw [hmul]
      unfold expandS
      by_cases hplus : (n == "+") = true
      · simp only [hplus, if_true]
        obtain ⟨i1, i2⟩ := ih cs s
        generalize expandS sl s ns cs = E at i1 i2
        obtain ⟨⟨s2, r⟩, k⟩ := E
        cases r <;> exact ⟨by simp at i1 ⊢; omega, i2⟩
      · simp only [hplus, Bool.false_eq_true, if_false]
        have hd := kids_ctorDomain sl s { name := some n }
        generalize ctorDomain sl s { name := some n } = D at hd
        obtain ⟨s1, rd⟩ := D
        cases rd with
        | ok id =>
          simp only
          obtain ⟨i1, i2⟩ := ih cs s1
          rw [hd] at i1
          generalize expandS sl s1 ns cs = E at i1 i2
          obtain ⟨⟨s2, r⟩, k⟩ := E
          cases r <;> exact ⟨by simp at i1 ⊢; omega, i2.trans hd⟩
        | error e =>
          by_cases hsing : e = .singleton
          · subst hsing
            simp only
            obtain ⟨b1, b2⟩ := subseqOf_kids sl s1 n
            generalize subseqOf sl s1 n = S at b1 b2
            obtain ⟨s2, rs⟩ := S
            cases rs with
            | error e2 => exact ⟨by simp; omega, b1.trans hd⟩
            | ok ds =>
              simp only
              have hds := b2 ds rfl
              rw [hd] at hds
              obtain ⟨i1, i2⟩ := ih cs s2
              rw [b1, hd] at i1
              generalize expandS sl s2 ns cs = E at i1 i2
              obtain ⟨⟨s3, r⟩, k⟩ := E
              cases r with
              | ok p =>
                obtain ⟨it, st⟩ := p
                simp only at i1 i2 ⊢
                split
                · exact ⟨by simp at i1 ⊢; omega, i2.trans (b1.trans hd)⟩
                · exact ⟨by simp at i1 ⊢; omega, i2.trans (b1.trans hd)⟩
              | error e2 =>
                simp only at i1 i2 ⊢
                split
                · exact ⟨by omega, i2.trans (b1.trans hd)⟩
                · exact ⟨by omega, i2.trans (b1.trans hd)⟩
          · cases e <;> first | exact absurd rfl hsing | exact ⟨by simp; omega, hd⟩

/-! ### `expandS` against the hand-written `expandKernel` -/

theorem toSeq_plus (it : List PyItem) : toSeq (.name "+" :: it) = (toSeq it).map (fun r => none :: r) := rfl
theorem toSeq_dom (id : Nat) (it : List PyItem) : toSeq (.dom id :: it) = (toSeq it).map (fun r => some id :: r) := rfl
theorem toSeq_name (n : String) (it : List PyItem) (h : (n == "+") = false) :
    toSeq (.name n :: it) = .error (.fault "str-in-sequence") := by
  unfold toSeq; simp [h]

theorem toSeq_doms (ds : List Nat) (it : List PyItem) :
    toSeq (ds.map .dom ++ it) = (toSeq it).map (fun r => ds.map some ++ r) := by
  induction ds with
  | nil => simp only [List.map_nil, List.nil_append]; cases toSeq it <;> rfl
  | cons d ds ih =>
    simp only [List.map_cons, List.cons_append, toSeq_dom, ih]
    cases toSeq it <;> rfl

/-- same state, same exception; on success the same sequence and structure — unless a name stands for a composite
    domain WITHOUT domains, which the code leaves in the list as a string -/
def Rel (H : RState × Except RErr (List (Option Nat) × List Char))
    (F : RState × Except RErr (List PyItem × List Char)) : Prop :=
  F.1 = H.1 ∧
  match H.2, F.2 with
  | .error e, .error e' => e = e'
  | .ok (ids, st), .ok (it, st') => (toSeq it = .ok ids ∧ st' = st) ∨ toSeq it = .error (.fault "str-in-sequence")
  | _, _ => False

theorem compOf_eq (n : String) (h : n ≠ "") : compOf n = .ok (compName n) := by
  have hne : n.toList ≠ [] := (RdL.str_ne_empty_iff n).mp h
  obtain ⟨c, hc⟩ : ∃ c, n.toList.getLast? = some c := by
    cases hh : n.toList.getLast? with
    | none => exact absurd (List.getLast?_eq_none_iff.mp hh) hne
    | some c => exact ⟨c, rfl⟩
  unfold compOf compName cnameOf isStarred
  rw [hc]
  by_cases hs : c = '*'
  · subst hs; rfl
  · have : (some c == some '*') = false := by simp [hs]
    simp [hs, this]

/-- the rest of a step of the hand-written `expandKernel`, given the domains `ds` a name stands for -/
def contK (sl : Slots) (ns : List String) (cs : List Char) (c : Char) (s' : RState) (ds : List Nat) :
    RState × Except RErr (List (Option Nat) × List Char) :=
  match s'.expandKernel sl ns cs with
  | (s2, .ok (ids, st)) => (s2, .ok (ds.map some ++ ids, ds.map (fun _ => c) ++ st))
  | (s2, .error e) => (s2, .error e)

/-- … and of `expandS` -/
def contS (sl : Slots) (n : String) (ns : List String) (cs : List Char) (c : Char) (s' : RState) (ds : List Nat) :
    (RState × Except RErr (List PyItem × List Char)) × Nat :=
  match expandS sl s' ns cs with
  | ((s3, .ok (it, st)), k) =>
    if ds.isEmpty then ((s3, .ok (.name n :: it, c :: st)), k + 1)
    else ((s3, .ok (ds.map .dom ++ it, ds.map (fun _ => c) ++ st)), k + ds.length)
  | ((s3, .error e), k) => ((s3, .error e), k + (if ds.isEmpty then 1 else ds.length))

/-- a step of the hand-written `expandKernel` on a name other than `'+'`, with its three-way attempt (domain /
    composite / complement of a composite) written as `subseqOf` -/
theorem expandKernel_cons (sl : Slots) (s : RState) (n : String) (ns : List String) (c : Char) (cs : List Char)
    (hplus : (n == "+") = false) (hn : n ≠ "") :
    s.expandKernel sl (n :: ns) (c :: cs) =
      match ctorDomain sl s { name := some n } with
      | (s1, .ok id) => contK sl ns cs c s1 [id]
      | (s1, .error .singleton) =>
        match subseqOf sl s1 n with
        | (s2, .error e) => (s2, .error e)
        | (s2, .ok ds) => contK sl ns cs c s2 ds
      | (s1, .error e) => (s1, .error e) := by
  simp only [RState.expandKernel, hplus, Bool.false_eq_true, if_false, domReq_eq, strandDomains_eq, invertAll_eq]
  unfold subseqOf contK
  rw [compOf_eq n hn]
  generalize ctorDomain sl s { name := some n } = D
  obtain ⟨s1, rd⟩ := D
  cases rd with
  | ok id => rfl
  | error e =>
    cases e <;> try rfl
    simp only
    generalize strandSeq sl s1 n = r
    obtain ⟨s2, x⟩ := r
    cases x with
    | ok ds => rfl
    | error e2 =>
      cases e2 <;> try rfl
      simp only
      generalize strandSeq sl s2 (compName n) = r2
      obtain ⟨s3, y⟩ := r2
      cases y with
      | ok ds =>
        simp only
        generalize listComp ctorInvert s3 ds.reverse = r3
        obtain ⟨s4, z⟩ := r3
        cases z <;> rfl
      | error e3 => cases e3 <;> rfl

theorem expandS_cons (sl : Slots) (s : RState) (n : String) (ns : List String) (c : Char) (cs : List Char)
    (hplus : (n == "+") = false) :
    expandS sl s (n :: ns) (c :: cs) =
      match ctorDomain sl s { name := some n } with
      | (s1, .ok id) =>
        match expandS sl s1 ns cs with
        | ((s2, .ok (it, st)), k) => ((s2, .ok (.dom id :: it, c :: st)), k + 1)
        | ((s2, .error e), k) => ((s2, .error e), k + 1)
      | (s1, .error .singleton) =>
        match subseqOf sl s1 n with
        | (s2, .error e) => ((s2, .error e), 1)
        | (s2, .ok ds) => contS sl n ns cs c s2 ds
      | (s1, .error e) => ((s1, .error e), 1) := by
  conv => lhs; unfold expandS
  simp only [hplus, Bool.false_eq_true, if_false]
  rfl

theorem cont_rel (sl : Slots) (n : String) (ns : List String) (cs : List Char) (c : Char) (hplus : (n == "+") = false)
    (ih : ∀ s : RState, Rel (s.expandKernel sl ns cs) (expandS sl s ns cs).1) (s' : RState) (ds : List Nat) :
    Rel (contK sl ns cs c s' ds) (contS sl n ns cs c s' ds).1 := by
  unfold contK contS
  obtain ⟨i1, i2⟩ := ih s'
  generalize s'.expandKernel sl ns cs = H at i1 i2
  generalize expandS sl s' ns cs = E at i1 i2
  obtain ⟨s2, h⟩ := H
  obtain ⟨⟨s2', r⟩, k⟩ := E
  simp only at i1 i2
  subst i1
  cases h with
  | error e => cases r with
    | error e' => exact ⟨rfl, i2⟩
    | ok p => exact absurd i2 (by simp)
  | ok q =>
    obtain ⟨ids, st⟩ := q
    cases r with
    | error e' => exact absurd i2 (by simp)
    | ok p =>
      obtain ⟨it, st'⟩ := p
      simp only at i2 ⊢
      cases ds with
      | nil =>
        simp only [List.isEmpty_nil, if_true]
        exact ⟨rfl, Or.inr (toSeq_name n it hplus)⟩
      | cons d dr =>
        simp only [List.isEmpty_cons, Bool.false_eq_true, if_false]
        refine ⟨rfl, ?_⟩
        rcases i2 with ⟨a, b⟩ | a
        · exact Or.inl ⟨by rw [toSeq_doms, a]; rfl, by rw [b]⟩
        · exact Or.inr (by rw [toSeq_doms, a]; rfl)

theorem expandS_rel (sl : Slots) (names : List String) : ∀ (cs : List Char) (s : RState), (∀ n ∈ names, n ≠ "") →
    Rel (s.expandKernel sl names cs) (expandS sl s names cs).1 := by
  induction names with
  | nil =>
    intro cs s _
    simp only [RState.expandKernel, expandS]
    exact ⟨rfl, Or.inl ⟨rfl, rfl⟩⟩
  | cons n ns ih =>
    intro cs s hne
    have hn : n ≠ "" := hne n (by simp)
    have hns : ∀ x ∈ ns, x ≠ "" := fun x hx => hne x (by simp [hx])
    cases cs with
    | nil =>
      simp only [RState.expandKernel, expandS]
      exact ⟨rfl, rfl⟩
    | cons c cs =>
      by_cases hplus : (n == "+") = true
      · unfold expandS
        simp only [RState.expandKernel, hplus, if_true]
        obtain ⟨i1, i2⟩ := ih cs s hns
        generalize s.expandKernel sl ns cs = H at i1 i2
        generalize expandS sl s ns cs = E at i1 i2
        obtain ⟨s2, h⟩ := H
        obtain ⟨⟨s2', r⟩, k⟩ := E
        simp only at i1 i2
        subst i1
        have hn' : n = "+" := by simpa using hplus
        subst hn'
        cases h with
        | error e => cases r with
          | error e' => exact ⟨rfl, i2⟩
          | ok p => exact absurd i2 (by simp)
        | ok q =>
          obtain ⟨ids, st⟩ := q
          cases r with
          | error e' => exact absurd i2 (by simp)
          | ok p =>
            obtain ⟨it, st'⟩ := p
            refine ⟨rfl, ?_⟩
            simp only at i2 ⊢
            rcases i2 with ⟨a, b⟩ | a
            · exact Or.inl ⟨by rw [toSeq_plus, a]; rfl, by rw [b]⟩
            · exact Or.inr (by rw [toSeq_plus, a]; rfl)
      · have hplus' : (n == "+") = false := by simpa using hplus
        rw [expandKernel_cons sl s n ns c cs hplus' hn, expandS_cons sl s n ns c cs hplus']
        generalize ctorDomain sl s { name := some n } = D
        obtain ⟨s1, rd⟩ := D
        have hcont := cont_rel sl n ns cs c hplus' (fun s' => ih cs s' hns)
        cases rd with
        | ok id =>
          simp only
          have := hcont s1 [id]
          unfold contS at this
          simp only [List.isEmpty_cons, Bool.false_eq_true, if_false, List.map_cons, List.map_nil,
            List.cons_append, List.nil_append, List.length_cons, List.length_nil, Nat.zero_add] at this
          generalize expandS sl s1 ns cs = E at this ⊢
          obtain ⟨⟨s3, r⟩, k⟩ := E
          cases r with
          | error e => exact this
          | ok p => exact this
        | error e =>
          cases e with
          | singleton =>
            simp only
            generalize subseqOf sl s1 n = S
            obtain ⟨s2, rs⟩ := S
            cases rs with
            | error e2 => exact ⟨rfl, rfl⟩
            | ok ds => exact hcont s2 ds
          | _ => exact ⟨rfl, rfl⟩

/-! ### the first attempt of the `kernel-complex` branch -/

theorem attempt_eq (sl : Slots) (names : List String) : ∀ s : RState,
    listComp (attemptStep sl) s names =
      match s.domList sl (names.filter (· != "+")) with
      | (s1, .ok ids) => (s1, .ok (RState.readLine.weave names ids))
      | (s1, .error e) => (s1, .error e) := by
  induction names with
  | nil => intro s; rfl
  | cons n ns ih =>
    intro s
    rw [listComp_cons]
    by_cases hplus : (n == "+") = true
    · have hstep : attemptStep sl s n = (s, .ok none) := by unfold attemptStep; simp only [hplus, if_true]
      have hf : List.filter (fun x => x != "+") (n :: ns) = List.filter (fun x => x != "+") ns := by
        rw [List.filter_cons_of_neg]; simp only [bne, hplus, Bool.not_true]; simp
      rw [hstep, hf]
      simp only [ih s]
      generalize s.domList sl (List.filter (fun x => x != "+") ns) = r
      obtain ⟨s1, x⟩ := r
      cases x with
      | error e => rfl
      | ok ids =>
        simp only
        conv => rhs; unfold RState.readLine.weave
        simp only [hplus, if_true]
    · have hplus' : (n == "+") = false := by simpa using hplus
      have hstep : attemptStep sl s n = (match ctorDomain sl s { name := some n } with
          | (s1, .ok id) => (s1, .ok (some id))
          | (s1, .error e) => (s1, .error e)) := by
        unfold attemptStep; simp only [hplus', Bool.false_eq_true, if_false]; rfl
      have hf : List.filter (fun x => x != "+") (n :: ns) = n :: List.filter (fun x => x != "+") ns := by
        rw [List.filter_cons_of_pos]; simp only [bne, hplus', Bool.not_false]
      rw [hstep, hf]
      unfold RState.domList
      rw [domReq_eq]
      generalize ctorDomain sl s { name := some n } = D
      obtain ⟨s1, rd⟩ := D
      cases rd with
      | error e => rfl
      | ok id =>
        simp only [ih s1]
        generalize s1.domList sl (List.filter (fun x => x != "+") ns) = r
        obtain ⟨s2, x⟩ := r
        cases x with
        | error e => rfl
        | ok ids =>
          simp only
          conv => rhs; unfold RState.readLine.weave
          simp only [hplus', Bool.false_eq_true, if_false]

end Dsd.RFull
