/-
Kernel complexes with ARBITRARY amounts of blanks (≥ 1) between the name, the `=`, and the items of the pattern —
the generalisation of the kernel lemmas of Lemmas/PilKernel.lean (which treat the output of `kernel_string`: exactly
one blank everywhere) that the layout clause "arbitrary spaces and tabs" needs.
-/
import DsdVerif.Lemmas.PilLayout

namespace Dsd.Pil
open Dsd.PP Dsd.Gen

/-! ### elements that depend on the skipped position only -/

/-- the result of `g` (in a skipping context) depends on the position after skipping only -/
def PreInv (env : Env) (g : G) : Prop :=
  ∀ fuel p q, pre {} p = pre {} q → run env fuel {} g p = run env fuel {} g q

theorem PreInv.lit (env : Env) (s : List Char) : PreInv env (.lit s) := by
  intro fuel p q h
  cases fuel with
  | zero => simp [run]
  | succ f => simp only [run, h]

theorem PreInv.combine (env : Env) (g : G) : PreInv env (.combine g) := by
  intro fuel p q h
  cases fuel with
  | zero => simp [run]
  | succ f => simp only [run, h]

theorem PreInv.seq (env : Env) (g : G) (gs : List G) (hg : PreInv env g) : PreInv env (.seq (g :: gs)) := by
  intro fuel p q h
  cases fuel with
  | zero => simp [run]
  | succ f =>
    cases f with
    | zero => simp [run, runSeq]
    | succ f => simp only [run, runSeq, hg f p q h]

theorem runAlt_pre (env : Env) (gs : List G) (hgs : ∀ g ∈ gs, PreInv env g) (p q : Pos) (h : pre {} p = pre {} q) :
    ∀ fuel, runAlt env fuel {} gs p = runAlt env fuel {} gs q := by
  induction gs with
  | nil => intro fuel; cases fuel <;> simp [runAlt]
  | cons g gs ih =>
    intro fuel
    cases fuel with
    | zero => simp [runAlt]
    | succ f =>
      simp only [runAlt, hgs g (by simp) f p q h, ih (fun x hx => hgs x (List.mem_cons_of_mem _ hx)) f]

theorem PreInv.alt (env : Env) (gs : List G) (hgs : ∀ g ∈ gs, PreInv env g) : PreInv env (.alt gs) := by
  intro fuel p q h
  cases fuel with
  | zero => simp [run]
  | succ f => simp only [run, runAlt_pre env gs hgs p q h f]

theorem preInv_item (env : Env) : PreInv env itemG := by
  unfold itemG pil_loop pil_sense
  apply PreInv.alt
  intro g hg
  simp only [List.mem_cons, List.not_mem_nil, or_false] at hg
  rcases hg with rfl | rfl | rfl
  · exact PreInv.seq env _ _ (PreInv.combine env _)
  · exact PreInv.lit env _
  · exact PreInv.combine env _

/-- an item after several blanks is an item after one blank -/
theorem Ok_item_blanks {env : Env} {N : Nat} {r : List Char} {res : Pos × List Tree} (n : Nat)
    (h : Ok env N {} itemG { rest := ' ' :: r, past := false } res) :
    Ok env N {} itemG { rest := List.replicate (n + 1) ' ' ++ r, past := false } res := by
  intro fuel hf
  rw [preInv_item env fuel _ { rest := ' ' :: r, past := false }]
  · exact h fuel hf
  · show (⟨skipIgn _, false⟩ : Pos) = ⟨skipIgn _, false⟩
    rw [skipIgn_replicate, show (' ' :: r) = List.replicate 1 ' ' ++ r from rfl, skipIgn_replicate]

/-! ### the inner group of a loop -/

/-- `White()` on several blanks followed by a non-blank character -/
theorem Ok_white_blanks (env : Env) (n : Nat) (c : Char) (r : List Char) (past : Bool)
    (hc : isWs c = false) (hc' : c ≠ '#') (hn : c ≠ '\n') :
    Ok env 1 {} .white { rest := List.replicate (n + 1) ' ' ++ c :: r, past := past }
      ({ rest := c :: r, past := past }, [.tok (String.ofList (List.replicate (n + 1) ' '))]) := by
  intro fuel hf
  obtain ⟨f, rfl, _⟩ := succ_of_le hf
  have h1 : skipWs (List.replicate (n + 1) ' ' ++ c :: r) = c :: r := by
    rw [skipWs_replicate, skipWs_cons c r hc]
  have hcc : (isWs c || c == '\n') = false := by simp [hc, hn]
  have h3 : ∀ k, (List.replicate k ' ' ++ c :: r).takeWhile (fun x => isWs x || x == '\n') = List.replicate k ' ' := by
    intro k
    induction k with
    | zero => simp [hcc]
    | succ k ih =>
      rw [List.replicate_succ, List.cons_append, List.takeWhile_cons]
      simp [show isWs ' ' = true from by decide, ih]
  simp only [run, h1]
  split
  · split
    · rename_i h2; simp at h2; exact absurd h2.1 hc'
    · rw [h3 (n + 1)]
      simp [List.replicate_succ]
  · rename_i h; exact absurd trivial h

/-- the inner group of an empty loop: blanks, then `)` -/
theorem Ok_inner_emptyW (n : Nat) (r : List Char) :
    Ok pil_env 20 {} (.group (.opt pil_innerloop)) { rest := List.replicate (n + 1) ' ' ++ ')' :: r, past := false }
      ({ rest := List.replicate 0 ' ' ++ (')' :: r), past := false }, [.grp []]) := by
  unfold pil_innerloop
  have hsk : skipIgn (List.replicate (n + 1) ' ' ++ ')' :: r) = ')' :: r :=
    skipIgn_blanks_cons (n + 1) ')' r (by decide) (by decide)
  have h1 := No_ref pattern_lookup (No_many1 (No_item_at pil_env
    { rest := List.replicate (n + 1) ' ' ++ ')' :: r, past := false } ')' r hsk
    (punct_facts ')' (by decide)).1 (by decide)))
  have h2 := Ok_suppress (Ok_white_blanks pil_env n ')' r false (by decide) (by decide) (by decide))
  exact (Ok_group (Ok_opt_some (Ok_alt (OkAlt_tail h1 (OkAlt_head h2))))).mono (by decide)

/-- the inner group of a non-empty loop (whatever the position after the items) -/
theorem Ok_inner_items (N : Nat) (r0 : List Char) (p1 : Pos) (inner : List Tree)
    (h : Ok pil_env N {} (.many1 itemG) { rest := r0, past := false } (p1, inner)) :
    Ok pil_env (N + 5) {} (.group (.opt pil_innerloop)) { rest := r0, past := false } (p1, [.grp inner]) := by
  unfold pil_innerloop
  exact Ok_group (Ok_opt_some (Ok_alt (OkAlt_head (gs := [.suppress .white]) (Ok_ref pattern_lookup h))))

/-! ### decorated entries: the number of extra blanks before each word -/

/-- an entry of the description together with `k`: its word is preceded by `k + 1` blanks -/
abbrev EntW := Ent × Nat

def spW (L : List EntW) : List Char := (L.map (fun e => List.replicate (e.2 + 1) ' ' ++ word e.1)).flatten

theorem spW_cons (e : EntW) (R : List EntW) : spW (e :: R) = List.replicate (e.2 + 1) ' ' ++ (word e.1 ++ spW R) := by
  simp [spW]

theorem spW_append (P R : List EntW) : spW (P ++ R) = spW P ++ spW R := by simp [spW]

theorem spW_length_pos (P : List EntW) (h : P ≠ []) : 0 < (spW P).length := by
  cases P with
  | nil => exact absurd rfl h
  | cons e R => rw [spW_cons]; simp [List.replicate_succ]

theorem map_cons_split {LW : List EntW} {e : Ent} {R : List Ent} (h : LW.map (·.1) = e :: R) :
    ∃ k RW, LW = (e, k) :: RW ∧ RW.map (·.1) = R := by
  cases LW with
  | nil => simp at h
  | cons x xs =>
    simp only [List.map_cons, List.cons.injEq] at h
    exact ⟨x.2, xs, by rw [← h.1], h.2⟩

theorem OutHd_spW (R : List EntW) (X : List Char) (h : OutHd NameEnd X) : OutHd NameEnd (spW R ++ X) := by
  cases R with
  | nil => simpa [spW] using h
  | cons e R =>
    rw [spW_cons, List.replicate_succ]
    exact OutHd_cons _ _ _ ⟨outside_facts ' ' (by decide), by decide, by decide, by decide⟩

/-- the simulation of `pItem` / `pItems` by the grammar, with any amount of blanks before every word -/
theorem kernel_simW : ∀ f : Nat,
    (∀ (LW : List EntW) t1 L1, pItem f (LW.map (·.1)) = some (t1, L1) → (∀ e ∈ LW, LegalEnt e.1) →
      ∀ X, TailOK X → ∃ PW L1W, LW = PW ++ L1W ∧ L1W.map (·.1) = L1 ∧
        Ok pil_env (8 * PW.length + 40) {} itemG { rest := spW LW ++ X, past := false }
          ({ rest := spW L1W ++ X, past := false }, t1)) ∧
    (∀ (LW : List EntW) ts R, pItems f (LW.map (·.1)) = some (ts, R) → (∀ e ∈ LW, LegalEnt e.1) →
      ∀ X, TailOK X → ∃ PW RW, LW = PW ++ RW ∧ RW.map (·.1) = R ∧
        OkMany pil_env (8 * PW.length + 41) {} itemG { rest := spW LW ++ X, past := false }
          ({ rest := spW RW ++ X, past := false }, ts)) := by
  intro f
  induction f using Nat.strongRecOn with
  | _ f ih =>
    constructor
    · -- one item
      intro LW t1 L1 h hleg X hX
      obtain ⟨f', rfl⟩ : ∃ f', f = f' + 1 := by
        cases f with
        | zero => simp [pItem] at h
        | succ k => exact ⟨k, rfl⟩
      cases LW with
      | nil => simp [pItem] at h
      | cons eW RW =>
        obtain ⟨⟨n, c⟩, k⟩ := eW
        obtain ⟨l1, l2, l3⟩ := hleg ((n, c), k) (by simp)
        have hlegR : ∀ e ∈ RW, LegalEnt e.1 := fun e he => hleg e (List.mem_cons_of_mem _ he)
        simp only [List.map_cons] at h
        rw [pItem] at h
        by_cases h1 : c = '('
        · -- a loop
          subst h1
          simp only [if_true] at h
          obtain ⟨cc, m, st, hn, hcc, hm⟩ := l2 (show ('(' : Char) ≠ '+' by decide)
          simp only at hn
          have hw : spW (((n, '('), k) :: RW) ++ X =
              List.replicate (k + 1) ' ' ++ (cc :: m ++ (star st ++ ('(' :: (spW RW ++ X)))) := by
            rw [spW_cons]; simp [word, hn, List.append_assoc]
          rw [hw]
          have htok : String.ofList (cc :: m ++ star st) = n := ofList_dom n _ hn
          cases hp : pItems f' (RW.map (·.1)) with
          | none => simp [hp] at h
          | some q =>
            obtain ⟨inner, R1⟩ := q
            cases R1 with
            | nil => simp [hp] at h
            | cons e' R' =>
              obtain ⟨mm, c'⟩ := e'
              simp only [hp] at h
              by_cases h2 : c' = ')'
              · subst h2
                simp only [if_true, Option.some.injEq, Prod.mk.injEq] at h
                obtain ⟨rfl, rfl⟩ := h
                cases RW with
                | nil =>
                  obtain ⟨f'', rfl⟩ : ∃ f'', f' = f'' + 1 := by
                    cases f' with
                    | zero => simp [pItems] at hp
                    | succ j => exact ⟨j, rfl⟩
                  simp [pItems] at hp
                | cons e2W R2W =>
                  obtain ⟨⟨n2, c2⟩, k2⟩ := e2W
                  obtain ⟨f'', rfl⟩ : ∃ f'', f' = f'' + 1 := by
                    cases f' with
                    | zero => simp [pItems] at hp
                    | succ j => exact ⟨j, rfl⟩
                  simp only [List.map_cons] at hp
                  rw [pItems] at hp
                  by_cases h3 : c2 = ')'
                  · -- empty loop
                    subst h3
                    simp only [if_true, Option.some.injEq, Prod.mk.injEq, List.cons.injEq] at hp
                    obtain ⟨rfl, ⟨_, hR'⟩⟩ := hp
                    have hin := Ok_inner_emptyW k2 (spW R2W ++ X)
                    have hw2 : spW (((n2, ')'), k2) :: R2W) ++ X =
                        List.replicate (k2 + 1) ' ' ++ ')' :: (spW R2W ++ X) := by
                      rw [spW_cons]; simp [word]
                    rw [hw2]
                    have := Ok_item_blanks k (Ok_item_loop pil_env _ cc m st _ (spW R2W ++ X) 0 [] hcc hm hin)
                    rw [htok] at this
                    refine ⟨[((n, '('), k), ((n2, ')'), k2)], R2W, rfl, hR', ?_⟩
                    exact this.mono (by simp only [List.length_cons, List.length_nil]; omega)
                  · -- non-empty loop
                    simp only [h3, if_false] at hp
                    cases hpa : pItem f'' ((n2, c2) :: R2W.map (·.1)) with
                    | none => simp [hpa] at hp
                    | some qa =>
                      obtain ⟨ta, La⟩ := qa
                      simp only [hpa] at hp
                      cases hpb : pItems f'' La with
                      | none => simp [hpb] at hp
                      | some qb =>
                        obtain ⟨tb, Rb⟩ := qb
                        simp only [hpb, Option.some.injEq, Prod.mk.injEq] at hp
                        obtain ⟨rfl, rfl⟩ := hp
                        have hpa' : pItem f'' ((((n2, c2), k2) :: R2W).map (·.1)) = some (ta, La) := by
                          simpa using hpa
                        obtain ⟨PaW, LaW, ea, ema, A⟩ := (ih f'' (by omega)).1 _ _ _ hpa' hlegR X hX
                        have hlegLa : ∀ e ∈ LaW, LegalEnt e.1 := by
                          intro e he
                          exact hlegR e (by rw [ea]; exact List.mem_append_right _ he)
                        have hpb' : pItems f'' (LaW.map (·.1)) = some (tb, (mm, ')') :: R') := by
                          rw [ema]; exact hpb
                        obtain ⟨PbW, RbW, eb, emb, B⟩ := (ih f'' (by omega)).2 _ _ _ hpb' hlegLa X hX
                        obtain ⟨k', R'W, rfl, hR'W⟩ := map_cons_split emb
                        have hw2 : spW (((mm, ')'), k') :: R'W) ++ X =
                            List.replicate (k' + 1) ' ' ++ ')' :: (spW R'W ++ X) := by
                          rw [spW_cons]; simp [word]
                        rw [hw2] at B
                        have hin := Ok_inner_items _ _ _ _ (Ok_many1 A B)
                        have := Ok_item_blanks k
                          (Ok_item_loop pil_env _ cc m st _ (spW R'W ++ X) (k' + 1) (ta ++ tb) hcc hm hin)
                        rw [htok] at this
                        refine ⟨((n, '('), k) :: (PaW ++ (PbW ++ [((mm, ')'), k')])), R'W, ?_, hR'W, ?_⟩
                        · rw [ea, eb]; simp
                        · exact this.mono (by
                            simp only [List.length_cons, List.length_append, List.length_nil]; omega)
              · simp [h2] at h
        · simp only [h1, if_false] at h
          by_cases h2 : c = ')'
          · simp [h2] at h
          · simp only [h2, if_false] at h
            by_cases h3 : c = '+'
            · subst h3
              simp only [if_true, Option.some.injEq, Prod.mk.injEq] at h
              obtain ⟨rfl, rfl⟩ := h
              have hw : spW (((n, '+'), k) :: RW) ++ X = List.replicate (k + 1) ' ' ++ '+' :: (spW RW ++ X) := by
                rw [spW_cons]; simp [word]
              rw [hw]
              refine ⟨[((n, '+'), k)], RW, rfl, rfl, ?_⟩
              exact (Ok_item_blanks k (Ok_item_plus pil_env (spW RW ++ X))).mono (by
                simp only [List.length_cons, List.length_nil]; omega)
            · simp only [h3, if_false, Option.some.injEq, Prod.mk.injEq] at h
              obtain ⟨rfl, rfl⟩ := h
              obtain ⟨cc, m, st, hn, hcc, hm⟩ := l2 h3
              simp only at hn
              have hw : spW (((n, c), k) :: RW) ++ X =
                  List.replicate (k + 1) ' ' ++ (cc :: m ++ (star st ++ (spW RW ++ X))) := by
                rw [spW_cons]; simp [word, h1, h2, h3, hn, List.append_assoc]
              rw [hw]
              have := Ok_item_blanks k (Ok_item_leaf pil_env cc m st (spW RW ++ X) hcc hm (OutHd_spW RW X hX.1))
              rw [ofList_dom n _ hn] at this
              refine ⟨[((n, c), k)], RW, rfl, rfl, ?_⟩
              exact this.mono (by simp only [List.length_cons, List.length_nil]; omega)
    · -- zero or more items
      intro LW ts R h hleg X hX
      obtain ⟨f', rfl⟩ : ∃ f', f = f' + 1 := by
        cases f with
        | zero => simp [pItems] at h
        | succ k => exact ⟨k, rfl⟩
      cases LW with
      | nil =>
        simp only [List.map_nil, pItems, Option.some.injEq, Prod.mk.injEq] at h
        obtain ⟨rfl, rfl⟩ := h
        refine ⟨[], [], rfl, rfl, ?_⟩
        have := OkMany_stop (show No pil_env 12 {} itemG { rest := spW [] ++ X, past := false } by
          simpa [spW] using hX.2)
        intro reps fuel hr hf
        exact this reps fuel (by simp at hr; omega) (by simp at hf; omega)
      | cons eW R0W =>
        obtain ⟨⟨n, c⟩, k⟩ := eW
        simp only [List.map_cons] at h
        rw [pItems] at h
        by_cases h2 : c = ')'
        · subst h2
          simp only [if_true, Option.some.injEq, Prod.mk.injEq] at h
          obtain ⟨rfl, rfl⟩ := h
          have hsk : skipIgn (spW (((n, ')'), k) :: R0W) ++ X) = ')' :: (spW R0W ++ X) := by
            rw [spW_cons]
            simp only [word, if_neg (show (')' : Char) ≠ '+' by decide), if_true, List.append_assoc,
              List.cons_append, List.nil_append]
            exact skipIgn_blanks_cons (k + 1) ')' _ (by decide) (by decide)
          have := OkMany_stop (No_item_at pil_env { rest := spW (((n, ')'), k) :: R0W) ++ X, past := false } ')' _
            hsk (punct_facts ')' (by decide)).1 (by decide))
          refine ⟨[], ((n, ')'), k) :: R0W, rfl, by simp, ?_⟩
          intro reps fuel hr hf
          exact this reps fuel (by simp at hr; omega) (by simp at hf; omega)
        · simp only [h2, if_false] at h
          cases hp : pItem f' ((n, c) :: R0W.map (·.1)) with
          | none => simp [hp] at h
          | some q =>
            obtain ⟨t1, L1⟩ := q
            simp only [hp] at h
            cases hp2 : pItems f' L1 with
            | none => simp [hp2] at h
            | some q2 =>
              obtain ⟨ts', R'⟩ := q2
              simp only [hp2, Option.some.injEq, Prod.mk.injEq] at h
              obtain ⟨rfl, rfl⟩ := h
              have hp' : pItem f' ((((n, c), k) :: R0W).map (·.1)) = some (t1, L1) := by simpa using hp
              obtain ⟨la, _⟩ := (pItem_nestGo f').1 _ _ _ hp'
              obtain ⟨P1, L1W, e1, em1, A⟩ := (ih f' (by omega)).1 _ _ _ hp' hleg X hX
              have hlegL1 : ∀ e ∈ L1W, LegalEnt e.1 := by
                intro e he
                exact hleg e (by rw [e1]; exact List.mem_append_right _ he)
              have hp2' : pItems f' (L1W.map (·.1)) = some (ts', R') := by rw [em1]; exact hp2
              obtain ⟨P2, RW, e2, em2, B⟩ := (ih f' (by omega)).2 _ _ _ hp2' hlegL1 X hX
              have hP1 : P1 ≠ [] := by
                intro e
                rw [e, List.nil_append] at e1
                rw [← em1, ← e1] at la
                exact Nat.lt_irrefl _ la
              have hne : ({ rest := spW L1W ++ X, past := false } : Pos) ≠
                  { rest := spW (((n, c), k) :: R0W) ++ X, past := false } := by
                apply pos_ne_of_length
                rw [e1, spW_append]
                have := spW_length_pos P1 hP1
                simp only [List.length_append]
                omega
              have := OkMany_step A hne B
              have hP1l : 0 < P1.length := List.length_pos_iff.mpr hP1
              refine ⟨P1 ++ P2, RW, by rw [e1, e2, List.append_assoc], em2, ?_⟩
              intro reps fuel hr hf
              simp only [List.length_append] at hr hf
              exact this reps fuel (by omega) (by omega)

/-! ### the statement -/

theorem spW_facts (L : List EntW) (h : ∀ e ∈ L, LegalEnt e.1) : 2 * L.length ≤ (spW L).length ∧ '\t' ∉ spW L := by
  induction L with
  | nil => simp [spW]
  | cons e R ih =>
    obtain ⟨i1, i2⟩ := ih (fun x hx => h x (List.mem_cons_of_mem _ hx))
    obtain ⟨w1, w2⟩ := word_facts e.1 (h e (by simp))
    rw [spW_cons]
    constructor
    · have : 0 < (word e.1).length := List.length_pos_iff.mpr w1
      simp only [List.length_cons, List.length_append, List.length_replicate]; omega
    · simp only [List.mem_append, not_or]
      exact ⟨notab_replicate _, w2, i2⟩

/-- the whole pattern: `OneOrMore(item)` over the decorated description -/
theorem pattern_W (LW : List EntW) (toks : List Tree) (X : List Char) (hL : LW ≠ [])
    (hleg : ∀ e ∈ LW, LegalEnt e.1)
    (hp : pItems (2 * LW.length + 1) (LW.map (·.1)) = some (toks, [])) (hX : TailOK X) :
    Ok pil_env (8 * LW.length + 42) {} (.many1 itemG) { rest := spW LW ++ X, past := false }
      ({ rest := X, past := false }, toks) := by
  cases LW with
  | nil => exact absurd rfl hL
  | cons eW R0W =>
    obtain ⟨⟨n, c⟩, k⟩ := eW
    rw [show 2 * (((n, c), k) :: R0W).length + 1 = (2 * R0W.length + 2) + 1 by simp only [List.length_cons]; omega]
      at hp
    simp only [List.map_cons] at hp
    rw [pItems] at hp
    by_cases h2 : c = ')'
    · simp [h2] at hp
    · simp only [h2, if_false] at hp
      cases hpa : pItem (2 * R0W.length + 2) ((n, c) :: R0W.map (·.1)) with
      | none => simp [hpa] at hp
      | some qa =>
        obtain ⟨ta, La⟩ := qa
        simp only [hpa] at hp
        cases hpb : pItems (2 * R0W.length + 2) La with
        | none => simp [hpb] at hp
        | some qb =>
          obtain ⟨tb, Rb⟩ := qb
          simp only [hpb, Option.some.injEq, Prod.mk.injEq] at hp
          obtain ⟨rfl, rfl⟩ := hp
          have hpa' : pItem (2 * R0W.length + 2) ((((n, c), k) :: R0W).map (·.1)) = some (ta, La) := by
            simpa using hpa
          obtain ⟨PaW, LaW, ea, ema, A⟩ := (kernel_simW _).1 _ _ _ hpa' hleg X hX
          have hlegLa : ∀ e ∈ LaW, LegalEnt e.1 := by
            intro e he
            exact hleg e (by rw [ea]; exact List.mem_append_right _ he)
          have hpb' : pItems (2 * R0W.length + 2) (LaW.map (·.1)) = some (tb, []) := by rw [ema]; exact hpb
          obtain ⟨PbW, RbW, eb, emb, B⟩ := (kernel_simW _).2 _ _ _ hpb' hlegLa X hX
          have hRb : RbW = [] := by
            cases RbW with
            | nil => rfl
            | cons x xs => simp at emb
          subst hRb
          have := Ok_many1 A B
          simp only [spW, List.map_nil, List.flatten_nil, List.nil_append] at this
          have hlen : (((n, c), k) :: R0W).length = PaW.length + PbW.length := by
            rw [ea, eb]; simp
          exact this.mono (by omega)

theorem NoSeq_domain_at (env : Env) (gs : List G) (p : Pos) (r : List Char) (h : skipIgn p.rest = '=' :: r) :
    NoSeq env 8 {} (pil_domain :: gs) p :=
  (NoSeq_head (No_domain env p '=' r h (outside_facts '=' (by decide)))).mono (by decide)

theorem NoSeq_ident_at (env : Env) (gs : List G) (p : Pos) (r : List Char) (h : skipIgn p.rest = '=' :: r) :
    NoSeq env 8 {} (pil_identifier :: gs) p := by
  have hw : No env 1 {} pil_identifier p :=
    No_word_cons env {} _ _ _ '=' r (by rw [pre_skip]; exact h) (outside_facts '=' (by decide))
  exact (NoSeq_head hw).mono (by decide)

theorem NoSeq_rx_at (env : Env) (gs : List G) (p : Pos) (r : List Char) (h : skipIgn p.rest = '=' :: r) :
    NoSeq env 8 {} (.group (.opt pil_infobox) :: .group pil_species :: gs) p := by
  have hinfo : Ok env 6 {} (.group (.opt pil_infobox)) p (p, [.grp []]) := by
    unfold pil_infobox
    have := No_punct env p '[' '=' r h (by decide)
    exact (Ok_group (Ok_opt_none (No_seq (NoSeq_head this)))).mono (by decide)
  have hw : No env 1 {} pil_identifier p :=
    No_word_cons env {} _ _ _ '=' r (by rw [pre_skip]; exact h) (outside_facts '=' (by decide))
  have hsp : No env 4 {} (.group pil_species) p := by
    unfold pil_species
    exact No_group (No_seq (NoSeq_head hw))
  exact (NoSeq_tail hinfo (NoSeq_head hsp)).mono (by decide)

/-- the alternatives of `pil_stmt` before `pil_cplx` fail on `name <blanks> = …`, for every identifier `name` -/
theorem stmt_before_cplxW (nc : Char) (m r0 r1 : List Char) (hnc : nc ∈ identChars) (hm : ∀ x ∈ m, x ∈ identChars)
    (hsk : skipIgn (' ' :: r0) = '=' :: r1) (N : Nat) (res : Pos × List Tree)
    (h : OkAlt pil_env N {} [pil_cplx, pil_restingset] { rest := nc :: (m ++ (' ' :: r0)), past := false } res) :
    Ok pil_env (max N 16 + 8) {} pil_stmt { rest := nc :: (m ++ (' ' :: r0)), past := false } res := by
  unfold pil_stmt pil_sl_domain pil_dl_domain pil_comp_domain pil_strand pil_strandcomplex pil_reaction
  have nd : ∀ (t : String) (s : List Char) (gs : List G), ' ' ∉ s →
      No pil_env 12 {} (.group (.tag t (.seq (.suppress (.kw s identChars) :: pil_domain :: gs))))
        { rest := nc :: (m ++ (' ' :: r0)), past := false } :=
    fun t s gs hs => No_gts_name pil_env t s _ nc m _ hnc hm hs
      (NoSeq_domain_at pil_env gs { rest := ' ' :: r0, past := false } r1 hsk)
  have ni : ∀ (t : String) (s : List Char) (gs : List G), ' ' ∉ s →
      No pil_env 12 {} (.group (.tag t (.seq (.suppress (.kw s identChars) :: pil_identifier :: gs))))
        { rest := nc :: (m ++ (' ' :: r0)), past := false } :=
    fun t s gs hs => No_gts_name pil_env t s _ nc m _ hnc hm hs
      (NoSeq_ident_at pil_env gs { rest := ' ' :: r0, past := false } r1 hsk)
  have nr : ∀ (t : String) (s : List Char) (gs : List G), ' ' ∉ s →
      No pil_env 12 {} (.group (.tag t (.seq (.suppress (.kw s identChars) :: .group (.opt pil_infobox) ::
        .group pil_species :: gs)))) { rest := nc :: (m ++ (' ' :: r0)), past := false } :=
    fun t s gs hs => No_gts_name pil_env t s _ nc m _ hnc hm hs
      (NoSeq_rx_at pil_env gs { rest := ' ' :: r0, past := false } r1 hsk)
  exact (Ok_alt (OkAlt_tail (nd _ _ _ (by decide))
    (OkAlt_tail (No_alt (NoAlt_cons (nd _ _ _ (by decide)) (NoAlt_cons (nd _ _ _ (by decide))
      (NoAlt_cons (nd _ _ _ (by decide)) (NoAlt_nil pil_env _ _)))))
    (OkAlt_tail (ni _ _ _ (by decide))
    (OkAlt_tail (ni _ _ _ (by decide))
    (OkAlt_tail (No_alt (NoAlt_cons (ni _ _ _ (by decide)) (NoAlt_cons (ni _ _ _ (by decide)) (NoAlt_nil pil_env _ _))))
    (OkAlt_tail (No_alt (NoAlt_cons (nr _ _ _ (by decide)) (NoAlt_cons (nr _ _ _ (by decide)) (NoAlt_nil pil_env _ _))))
    h))))))).mono (by omega)

/-- `name <a+1 blanks> = <pattern with any blanks> X` -/
def kernelTextW (nc : Char) (m : List Char) (a : Nat) (LW : List EntW) (X : List Char) : List Char :=
  nc :: (m ++ (List.replicate (a + 1) ' ' ++ '=' :: (spW LW ++ X)))

/-- the `kernel-complex` alternative up to the optional concentration -/
theorem cplx_headW (nc : Char) (m : List Char) (a : Nat) (LW : List EntW) (toks : List Tree) (Y : List Char)
    (hnc : nc ∈ identChars) (hm : ∀ x ∈ m, x ∈ identChars) (hL : LW ≠ []) (hleg : ∀ e ∈ LW, LegalEnt e.1)
    (hp : pItems (2 * LW.length + 1) (LW.map (·.1)) = some (toks, [])) (hY : TailOK Y) :
    Ok pil_env 1 {} pil_identifier { rest := kernelTextW nc m a LW Y, past := false }
      ({ rest := List.replicate (a + 1) ' ' ++ '=' :: (spW LW ++ Y), past := false },
        [.tok (String.ofList (nc :: m))]) ∧
    Ok pil_env 2 {} (.suppress (.lit ['='])) { rest := List.replicate (a + 1) ' ' ++ '=' :: (spW LW ++ Y), past := false }
      ({ rest := spW LW ++ Y, past := false }, []) ∧
    Ok pil_env (8 * LW.length + 46) {} (.many1 (.group (.ref "pattern"))) { rest := spW LW ++ Y, past := false }
      ({ rest := Y, past := false }, [.grp toks]) := by
  have hpat := pattern_W LW toks Y hL hleg hp hY
  have h1 := Ok_ident pil_env 0 nc m (List.replicate (a + 1) ' ' ++ '=' :: (spW LW ++ Y)) hnc hm
    (by rw [List.replicate_succ]; exact OutHd_cons _ _ _ (outside_facts ' ' (by decide)))
  have h2 := Ok_punct pil_env (a + 1) '=' (spW LW ++ Y) (by decide) (by decide)
  have hstop : No pil_env 15 {} (.group (.ref "pattern")) { rest := Y, past := false } :=
    No_group (No_ref pattern_lookup (No_many1 hY.2))
  have h3 := Ok_many1 (Ok_group (Ok_ref pattern_lookup hpat)) (OkMany_stop hstop)
  simp only [List.replicate_zero, List.nil_append, List.cons_append] at h1
  have h3' := h3.mono (N' := 8 * LW.length + 46) (by omega)
  simp only [List.append_nil] at h3'
  exact ⟨h1, h2, h3'⟩

theorem skipIgn_eqW (a : Nat) (r : List Char) : skipIgn (' ' :: (List.replicate a ' ' ++ '=' :: r)) = '=' :: r := by
  have := skipIgn_blanks_cons (a + 1) '=' r (by decide) (by decide)
  simpa [List.replicate_succ] using this

/-- `name = <pattern>` with any blanks, in front of a tail -/
theorem kernel_stmt_tailW (nc : Char) (m : List Char) (a : Nat) (LW : List EntW) (toks : List Tree) (X : List Char)
    (NE : Nat) (p : Pos) (hnc : nc ∈ identChars) (hm : ∀ x ∈ m, x ∈ identChars) (hL : LW ≠ [])
    (hleg : ∀ e ∈ LW, LegalEnt e.1) (hp : pItems (2 * LW.length + 1) (LW.map (·.1)) = some (toks, []))
    (hX : Tail X) (heol : Ok pil_env NE {} eolG { rest := X, past := false } (p, [])) :
    Ok pil_env (max (8 * LW.length + 70) (NE + 30)) {} pil_stmt { rest := kernelTextW nc m a LW X, past := false }
      (p, [.grp [.tok "kernel-complex", .tok (String.ofList (nc :: m)), .grp toks]]) := by
  obtain ⟨h1, h2, h3⟩ := cplx_headW nc m a LW toks X hnc hm hL hleg hp (TailOK_tail X hX)
  have hconc : No pil_env 8 {} pil_conc { rest := X, past := false } := by
    unfold pil_conc
    have hp1 := No_punct_tail pil_env X hX '@' (by decide)
    exact (No_alt (NoAlt_cons (No_group (No_seq (NoSeq_head hp1)))
      (NoAlt_cons (No_group (No_seq (NoSeq_head hp1))) (NoAlt_nil pil_env _ _)))).mono (by decide)
  have h4 := Ok_opt_none hconc
  have hc : Ok pil_env (max (8 * LW.length + 60) (NE + 10)) {} pil_cplx
      { rest := kernelTextW nc m a LW X, past := false }
      (p, [.grp [.tok "kernel-complex", .tok (String.ofList (nc :: m)), .grp toks]]) := by
    unfold pil_cplx
    have := Ok_group (Ok_tag (t := "kernel-complex") (Ok_seq (OkSeq_cons h1 (OkSeq_cons h2 (OkSeq_cons h3
      (OkSeq_cons h4 (OkSeq_cons heol (OkSeq_nil pil_env _ _))))))))
    simp only [List.nil_append, List.append_nil, List.cons_append] at this
    exact this.mono (by omega)
  have hform : kernelTextW nc m a LW X = nc :: (m ++ (' ' :: (List.replicate a ' ' ++ '=' :: (spW LW ++ X)))) := by
    simp [kernelTextW, List.replicate_succ]
  rw [hform] at hc ⊢
  exact (stmt_before_cplxW nc m _ _ hnc hm (skipIgn_eqW a (spW LW ++ X)) _ _
    (OkAlt_head (gs := [pil_restingset]) hc)).mono (by omega)

/-- … with a concentration -/
theorem kernel_conc_stmt_tailW (nc : Char) (m : List Char) (a : Nat) (LW : List EntW) (toks : List Tree)
    (mode : List Char) (vc : Char) (vm unit X : List Char) (NE : Nat) (p : Pos)
    (hnc : nc ∈ identChars) (hm : ∀ x ∈ m, x ∈ identChars) (hL : LW ≠ [])
    (hleg : ∀ e ∈ LW, LegalEnt e.1) (hp : pItems (2 * LW.length + 1) (LW.map (·.1)) = some (toks, []))
    (hmode : IsMode mode) (hvc : vc ∈ pp_nums) (hvm : ∀ x ∈ vm, x ∈ pp_nums) (hu : IsCunit unit)
    (heol : Ok pil_env NE {} eolG { rest := X, past := false } (p, [])) :
    Ok pil_env (max (8 * LW.length + 70) (NE + 30)) {} pil_stmt
      { rest := kernelTextW nc m a LW (concTextX mode vc vm unit X), past := false }
      (p, [.grp [.tok "kernel-complex", .tok (String.ofList (nc :: m)), .grp toks,
        .grp [.tok (String.ofList mode), .tok (String.ofList (vc :: vm)), .tok (String.ofList unit)]]]) := by
  obtain ⟨h1, h2, h3⟩ := cplx_headW nc m a LW toks _ hnc hm hL hleg hp (TailOK_concX mode vc vm unit X)
  have h4 := Ok_opt_some (Ok_conc_tail mode vc vm unit X hmode hvc hvm hu)
  have hc : Ok pil_env (max (8 * LW.length + 60) (NE + 10)) {} pil_cplx
      { rest := kernelTextW nc m a LW (concTextX mode vc vm unit X), past := false }
      (p, [.grp [.tok "kernel-complex", .tok (String.ofList (nc :: m)), .grp toks,
        .grp [.tok (String.ofList mode), .tok (String.ofList (vc :: vm)), .tok (String.ofList unit)]]]) := by
    unfold pil_cplx
    have := Ok_group (Ok_tag (t := "kernel-complex") (Ok_seq (OkSeq_cons h1 (OkSeq_cons h2 (OkSeq_cons h3
      (OkSeq_cons h4 (OkSeq_cons heol (OkSeq_nil pil_env _ _))))))))
    simp only [List.nil_append, List.append_nil, List.cons_append] at this
    exact this.mono (by omega)
  have hform : kernelTextW nc m a LW (concTextX mode vc vm unit X) =
      nc :: (m ++ (' ' :: (List.replicate a ' ' ++ '=' :: (spW LW ++ concTextX mode vc vm unit X)))) := by
    simp [kernelTextW, List.replicate_succ]
  rw [hform] at hc ⊢
  exact (stmt_before_cplxW nc m _ _ hnc hm (skipIgn_eqW a _) _ _
    (OkAlt_head (gs := [pil_restingset]) hc)).mono (by omega)

end Dsd.Pil
