/-
The full model of `DomainS.identifiers` + `Singleton.__call__` (Model/DomainFull.lean) against its net effect
(`domainRequest`): evaluation of the nested requests in a well-formed registry.
-/
import DsdVerif.Model.DomainFull
import DsdVerif.Props.C04Dom

namespace Dsd.DomFullL
open Dsd Dsd.DomFull

theorem lengthArg_eq : DomFull.lengthArg = DomL.lengthOf := rfl
theorem effName_eq (cfg : DomCfg) (r : Reg DKey) (q : DomReq) : q.effName cfg r = DomL.effName cfg r q := rfl

/-! ### registry facts -/

/-- a name-only request is a look-up -/
theorem call_lookup (r : Reg DKey) (c : String) (f : Nat) (ks : List DKey) (a : Bool) :
    r.call none (some c) f ks a =
      match r.findName c with
      | some o => (r, .ret o.id false)
      | none => (r, .singletonErr none) := by
  cases h : r.findName c <;> simp [Reg.call, Reg.decide, h]

/-- a request with name and canonical form `(name, L)` in a well-formed domain registry -/
theorem call_dom (r : Reg DKey) (h : C04.DomWF r) (s : String) (L f : Nat) (a : Bool) :
    r.call (some (s, L)) (some s) f [(s, L)] a =
      match r.findName s with
      | some oc => if oc.canon.2 = L then (r, .ret oc.id false) else (r, .singletonErr none)
      | none => (r.register { id := f, name := s, canon := (s, L), keys := [(s, L)] } a, .ret f true) := by
  have hcanon : ∀ o', r.findCanon (s, L) = some o' → o' ∈ r.objs ∧ o'.name = s ∧ o'.canon.2 = L := by
    intro o' ho'
    obtain ⟨h1, h2⟩ := Reg.findCanon_some r _ o' ho'
    obtain ⟨t1, t2, _⟩ := h.shape o' h1
    rw [t2, List.mem_singleton] at h2
    exact ⟨h1, by rw [← t1, ← h2], by rw [← h2]⟩
  cases hn : r.findName s with
  | none =>
    have hc : r.findCanon (s, L) = none := by
      cases hc : r.findCanon (s, L) with
      | none => rfl
      | some o' =>
        obtain ⟨h1, h2, _⟩ := hcanon o' hc
        exact absurd h2 (Reg.findName_none r _ hn o' h1)
    simp [Reg.call, Reg.decide, hn, hc]
  | some oc =>
    obtain ⟨hoc, hname⟩ := Reg.findName_some r _ oc hn
    obtain ⟨t1, t2, _⟩ := h.shape oc hoc
    simp only
    by_cases hL : oc.canon.2 = L
    · rw [if_pos hL]
      have hcan : (s, L) = oc.canon := by rw [← hL, ← hname, ← t1]
      rw [hcan, ← hname]
      exact C01.consistent_returns_same r h.wf oc hoc _ (by rw [t2]; simp) f _ a
    · rw [if_neg hL]
      have hc : r.findCanon (s, L) = none := by
        cases hc : r.findCanon (s, L) with
        | none => rfl
        | some o' =>
          obtain ⟨h1, h2, h3⟩ := hcanon o' hc
          have : o' = oc := (C01.wf_unique r h.wf o' oc h1 hoc).1 (by rw [h2, hname])
          rw [this] at h3
          exact absurd h3 hL
      simp [Reg.call, Reg.decide, hn, hc]

/-- `len` of a live object that was returned, nothing dies -/
theorem len_existing (r : Reg DKey) (h : C04.DomWF r) (o : Obj DKey) (ho : o ∈ r.objs) :
    lenAndRelease r o.id false = (some o.canon.2, r) := by
  unfold lenAndRelease
  rw [(C01.wf_lookup r h.wf o ho).2.2.2]
  rfl

/-- `len` of a temporary; afterwards it is gone without a trace -/
theorem len_temporary (r : Reg DKey) (t : Nat) (ht : ∀ o ∈ r.objs, o.id ≠ t) (s : String) (L : Nat) :
    lenAndRelease (r.register { id := t, name := s, canon := (s, L), keys := [(s, L)] } false) t true = (some L, r) := by
  unfold lenAndRelease
  have hnone : List.find? (fun o => o.id == t) r.objs = none := by
    rw [List.find?_eq_none]
    intro o ho; simpa using ht o ho
  have hfilter : r.objs.filter (fun o => o.id != t) = r.objs := by
    rw [List.filter_eq_self]
    intro o ho; simpa using ht o ho
  simp only [Reg.findId, Reg.register, Reg.drop, List.find?_append, hnone, List.filter_append, hfilter]
  simp

/-! ### the nested requests -/

theorem callF_succ (d : Nat) (cfg : DomCfg) (r : Reg DKey) (fresh tmp : Nat) (q : DomReq) :
    callF (d + 1) cfg r fresh tmp q =
      match identifiers (fun r' q' => callF d cfg r' tmp tmp q') cfg r q with
      | (r1, .error e) => (r1, e)
      | (r1, .ok (canon, name, _)) => r1.call canon (some name) fresh canon.toList q.name.isNone := rfl

theorem identifiers_eq (nested : Reg DKey → DomReq → Reg DKey × Out) (cfg : DomCfg) (r : Reg DKey) (q : DomReq)
    (length : Option Nat) (hlen : DomL.lengthOf cfg q = .ok length) (hne : q.effName cfg r ≠ "") :
    identifiers nested cfg r q = identTail nested r (q.effName cfg r) length := by
  unfold identifiers
  rw [lengthArg_eq, hlen]
  have : (q.effName cfg r).isEmpty = false := by simpa using hne
  simp only
  show (if (q.effName cfg r).isEmpty = true then _ else _) = _
  rw [this]
  rfl

/-- `cls(m, length = None)` for an unstarred name is a name-only look-up -/
theorem callF_lookup (d : Nat) (cfg : DomCfg) (r : Reg DKey) (f t : Nat) (m : String) (hne : m ≠ "")
    (hm : isStarred m = false) :
    callF (d + 1) cfg r f t { name := some m, length := none } =
      match r.findName m with
      | some o => (r, .ret o.id false)
      | none => (r, .singletonErr none) := by
  rw [callF_succ, identifiers_eq _ cfg r { name := some m, length := none } none rfl hne]
  show (match identTail _ r m none with
    | (r1, .error e) => (r1, e)
    | (r1, .ok (canon, name, _)) => r1.call canon (some name) f canon.toList false) = _
  unfold identTail
  simp only [hm, Bool.false_eq_true, if_false, Option.toList]
  exact call_lookup r m f [] false

/-- **a starred name**: the nested look-up of the partner, then the request proper — exactly `domTail` -/
theorem callF_starred (d : Nat) (cfg : DomCfg) (r : Reg DKey) (f t : Nat) (q : DomReq) (h : C04.DomWF r)
    (hs : isStarred (q.effName cfg r) = true) (hc : isStarred (cnameOf (q.effName cfg r)) = false)
    (hcne : cnameOf (q.effName cfg r) ≠ "") (L : Option Nat) (hlen : DomL.lengthOf cfg q = .ok L) :
    callF (d + 2) cfg r f t q = DomL.domTail r f (q.effName cfg r) L q.name.isNone := by
  have hsne : q.effName cfg r ≠ "" := by
    intro e; rw [e] at hs; revert hs; decide
  rw [callF_succ, identifiers_eq _ cfg r q L hlen hsne]
  generalize q.effName cfg r = s at *
  have hnested : ∀ r', (fun r' q' => callF (d + 1) cfg r' t t q') r' { name := some (cnameOf s), length := none } =
      match r'.findName (cnameOf s) with
      | some o => (r', .ret o.id false)
      | none => (r', .singletonErr none) := fun r' => callF_lookup d cfg r' t t (cnameOf s) hcne hc
  generalize (fun r' q' => callF (d + 1) cfg r' t t q') = nested at hnested
  cases L with
  | none =>
    unfold identTail DomL.domTail
    simp only [hs, if_true]
    rw [hnested r]
    cases hf : r.findName (cnameOf s) with
    | none => simp only [Option.toList]
    | some o =>
      have ho := (Reg.findName_some r _ o hf).1
      simp only [len_existing r h o ho, Option.toList]
  | some l =>
    unfold identTail DomL.domTail
    simp only [hs, Bool.not_true, Bool.false_eq_true, if_false]
    have e : ({ name := some (cnameOf s) } : DomReq) = { name := some (cnameOf s), length := none } := rfl
    rw [e, hnested r]
    cases hf : r.findName (cnameOf s) with
    | none => simp only [Option.toList]
    | some o =>
      have ho := (Reg.findName_some r _ o hf).1
      simp only [len_existing r h o ho]
      by_cases hne : o.canon.2 = l
      · simp only [hne, ne_eq, not_true_eq_false, if_false, Option.toList]
      · simp only [hne, ne_eq, not_false_eq_true, if_true]

/-- **an unstarred name with a length**: `len(cls(name*))`, then `cls(name*, length)` — possibly through temporary
    complements that die again — then the request proper: exactly `domTail` -/
theorem callF_unstarred (d : Nat) (cfg : DomCfg) (r : Reg DKey) (f t : Nat) (q : DomReq) (h : C04.DomWF r)
    (ht : ∀ o ∈ r.objs, o.id ≠ t)
    (hn : isStarred (q.effName cfg r) = false) (hne : q.effName cfg r ≠ "") (l : Nat)
    (hlen : DomL.lengthOf cfg q = .ok (some l)) :
    callF (d + 3) cfg r f t q = DomL.domTail r f (q.effName cfg r) (some l) q.name.isNone := by
  rw [callF_succ, identifiers_eq _ cfg r q (some l) hlen hne]
  generalize q.effName cfg r = n at *
  have hss : isStarred (cnameOf n) = true := DomL.isStarred_cname_of_not n hn
  have hcs : cnameOf (cnameOf n) = n := DomL.cname_cname_of_not n hn
  have hN1 : (fun r' q' => callF (d + 2) cfg r' t t q') r { name := some (cnameOf n) } =
      DomL.domTail r t (cnameOf n) none false :=
    callF_starred d cfg r t t { name := some (cnameOf n) } h hss (by show isStarred (cnameOf (cnameOf n)) = false; rw [hcs]; exact hn)
      (by show cnameOf (cnameOf n) ≠ ""; rw [hcs]; exact hne) none rfl
  have hN2 : (fun r' q' => callF (d + 2) cfg r' t t q') r { name := some (cnameOf n), length := some l } =
      DomL.domTail r t (cnameOf n) (some l) false :=
    callF_starred d cfg r t t { name := some (cnameOf n), length := some l } h hss
      (by show isStarred (cnameOf (cnameOf n)) = false; rw [hcs]; exact hn)
      (by show cnameOf (cnameOf n) ≠ ""; rw [hcs]; exact hne) (some l) rfl
  generalize (fun r' q' => callF (d + 2) cfg r' t t q') = nested at hN1 hN2
  unfold DomL.domTail at hN1 hN2 ⊢
  simp only [hss, if_true, hcs] at hN1 hN2
  unfold identTail
  simp only [hn, Bool.not_false, if_true]
  generalize hsdef : cnameOf n = s at *
  cases hfn : r.findName n with
  | some on =>
    obtain ⟨hon, honn⟩ := Reg.findName_some r _ on hfn
    rw [hfn] at hN1 hN2
    simp only at hN1 hN2
    rw [call_dom r h s on.canon.2 t false] at hN1
    rw [call_dom r h s l t false] at hN2
    cases hfs : r.findName s with
    | some oc =>
      obtain ⟨hoc, hocn⟩ := Reg.findName_some r _ oc hfs
      have hcompl : on.canon.2 = oc.canon.2 := h.compl on hon oc hoc (by rw [hocn, honn, hsdef])
      rw [hfs] at hN1 hN2
      simp only [if_pos hcompl.symm] at hN1
      rw [hN1]
      simp only [len_existing r h oc hoc]
      by_cases hl' : oc.canon.2 = l
      · have hon' : on.canon.2 = l := by rw [hcompl, hl']
        simp only [hon', ne_eq, not_true_eq_false, if_false, hl', if_true] at hN2
        rw [hN2]
        simp only [lenAndRelease, hl', ne_eq, not_true_eq_false, if_false, Option.toList]
        rfl
      · have hon' : on.canon.2 ≠ l := by rw [hcompl]; exact hl'
        simp only [hon', ne_eq, not_false_eq_true, if_true] at hN2
        rw [hN2]
        simp only [hl', ne_eq, not_false_eq_true, if_true]
    | none =>
      rw [hfs] at hN1 hN2
      simp only at hN1 hN2
      rw [hN1]
      simp only [len_temporary r t ht s on.canon.2]
      by_cases hon' : on.canon.2 = l
      · simp only [hon', ne_eq, not_true_eq_false, if_false] at hN2
        rw [hN2]
        simp only [len_temporary r t ht s l, Option.toList]
      · simp only [hon', ne_eq, not_false_eq_true, if_true] at hN2
        rw [hN2]
        simp only [hon', ne_eq, not_false_eq_true, if_true]
        rw [call_dom r h n l f _, hfn]
        simp only [if_neg hon']
  | none =>
    rw [hfn] at hN1 hN2
    simp only at hN1 hN2
    rw [call_lookup] at hN1
    rw [call_dom r h s l t false] at hN2
    cases hfs : r.findName s with
    | some oc =>
      obtain ⟨hoc, hocn⟩ := Reg.findName_some r _ oc hfs
      rw [hfs] at hN1 hN2
      simp only at hN1 hN2
      rw [hN1]
      simp only [len_existing r h oc hoc]
      by_cases hl' : oc.canon.2 = l
      · simp only [hl', if_true] at hN2
        rw [hN2]
        simp only [lenAndRelease, hl', ne_eq, not_true_eq_false, if_false, Option.toList]
        rfl
      · simp only [hl', if_false] at hN2
        rw [hN2]
        simp only [hl', ne_eq, not_false_eq_true, if_true]
    | none =>
      rw [hfs] at hN1
      simp only at hN1
      rw [hN1]
      simp only [Option.toList]

end Dsd.DomFullL
