/-
Reachability in the object world (C05): the iteration `reachable` reaches its fixed point.
-/
import DsdVerif.Model.World

namespace Dsd.WorldL
open Dsd Dsd.World

theorem mem_expand (w : World) (s : List Nat) (x : Nat) :
    x ∈ w.expand s ↔ x ∈ s ∨ ∃ y ∈ s, x ∈ w.childrenOf y := by
  unfold expand
  rw [List.mem_eraseDups, List.mem_append, List.mem_flatMap]

theorem iter_succ {α} (f : α → α) (n : Nat) (x : α) : iter f (n + 1) x = f (iter f n x) := by
  induction n generalizing x with
  | zero => rfl
  | succ n ih =>
    show iter f (n + 1) (f x) = f (iter f (n + 1) x)
    rw [ih (f x)]; rfl

theorem iter_mono (w : World) (s : List Nat) (k : Nat) (x : Nat) (h : x ∈ iter w.expand k s) :
    x ∈ iter w.expand (k + 1) s := by
  rw [iter_succ, mem_expand]; exact Or.inl h

theorem iter_mono_le (w : World) (s : List Nat) (k m : Nat) (hkm : k ≤ m) (x : Nat)
    (h : x ∈ iter w.expand k s) : x ∈ iter w.expand m s := by
  induction m with
  | zero => have : k = 0 := by omega
            subst this; exact h
  | succ m ih =>
    by_cases hk : k = m + 1
    · subst hk; exact h
    · exact iter_mono w s m x (ih (by omega))

/-- everything in the iteration satisfies any predicate that holds on the seeds and is closed under children -/
theorem iter_sound (w : World) (s : List Nat) (R : Nat → Prop) (h0 : ∀ x ∈ s, R x)
    (hstep : ∀ x y, R x → y ∈ w.childrenOf x → R y) (k : Nat) : ∀ x ∈ iter w.expand k s, R x := by
  induction k with
  | zero => exact h0
  | succ k ih =>
    intro x hx
    rw [iter_succ, mem_expand] at hx
    rcases hx with hx | ⟨y, hy, hxy⟩
    · exact ih x hx
    · exact hstep y x (ih y hy) hxy

theorem filter_length_lt {α} (l : List α) (p q : α → Bool) (hpq : ∀ x ∈ l, p x = true → q x = true)
    (y : α) (hy : y ∈ l) (hqy : q y = true) (hpy : p y = false) :
    (l.filter p).length < (l.filter q).length := by
  induction l with
  | nil => simp at hy
  | cons a as ih =>
    have hle : ∀ (l' : List α), (∀ x ∈ l', p x = true → q x = true) →
        (l'.filter p).length ≤ (l'.filter q).length := by
      intro l' h'
      induction l' with
      | nil => simp
      | cons b bs ihb =>
        have hb := h' b (by simp)
        have hbs := ihb (fun x hx => h' x (by simp [hx]))
        simp only [List.filter_cons]
        cases hp : p b <;> cases hq : q b <;> simp_all <;> omega
    simp only [List.mem_cons] at hy
    simp only [List.filter_cons]
    rcases hy with rfl | hy
    · rw [hpy, hqy]
      have := hle as (fun x hx => hpq x (by simp [hx]))
      simp; omega
    · have := ih (fun x hx => hpq x (by simp [hx])) hy
      have ha := hpq a (by simp)
      cases hp : p a <;> cases hq : q a <;> simp_all <;> omega

/-- closedness of a set under `childrenOf` -/
def Closed (w : World) (s : List Nat) : Prop := ∀ x ∈ s, ∀ y ∈ w.childrenOf x, y ∈ s

theorem closed_expand (w : World) (s : List Nat) (h : Closed w s) :
    (∀ x, x ∈ w.expand s ↔ x ∈ s) ∧ Closed w (w.expand s) := by
  have h1 : ∀ x, x ∈ w.expand s ↔ x ∈ s := by
    intro x
    rw [mem_expand]
    constructor
    · rintro (hx | ⟨y, hy, hxy⟩)
      · exact hx
      · exact h y hy x hxy
    · exact Or.inl
  refine ⟨h1, ?_⟩
  intro x hx y hy
  rw [h1] at hx ⊢
  exact h x hx y hy

/-- **pigeonhole**: if everything that can ever be reached is a seed or a node id, `nodes.length + 1` rounds
    reach a set closed under `childrenOf` -/
theorem iter_closed (w : World) (s : List Nat) (R : Nat → Prop) (h0 : ∀ x ∈ s, R x)
    (hstep : ∀ x y, R x → y ∈ w.childrenOf x → R y)
    (hids : ∀ x, R x → x ∈ s ∨ ∃ n ∈ w.nodes, n.id = x) :
    Closed w (iter w.expand (w.nodes.length + 1) s) := by
  -- the nodes whose id is not yet in the set
  have key : ∀ k, Closed w (iter w.expand k s) ∨
      (w.nodes.filter (fun n => !(iter w.expand k s).contains n.id)).length + k ≤ w.nodes.length := by
    intro k
    induction k with
    | zero => right; simp only [Nat.add_zero]; exact List.length_filter_le _ _
    | succ k ih =>
      rcases ih with hc | hlen
      · left; rw [iter_succ]; exact (closed_expand w _ hc).2
      · by_cases hc : Closed w (iter w.expand k s)
        · left; rw [iter_succ]; exact (closed_expand w _ hc).2
        · right
          -- a new element appears
          have : ∃ x ∈ iter w.expand k s, ∃ y ∈ w.childrenOf x, y ∉ iter w.expand k s := by
            apply Classical.byContradiction
            intro hno
            apply hc
            intro x hx y hy
            apply Classical.byContradiction
            intro hny
            exact hno ⟨x, hx, y, hy, hny⟩
          obtain ⟨x, hx, y, hy, hny⟩ := this
          have hRy : R y := hstep x y (iter_sound w s R h0 hstep k x hx) hy
          have hynode : ∃ n ∈ w.nodes, n.id = y := by
            rcases hids y hRy with h | h
            · exact absurd (iter_mono_le w s 0 k (by omega) y h) hny
            · exact h
          obtain ⟨n, hn, hny'⟩ := hynode
          have hy1 : y ∈ iter w.expand (k + 1) s := by
            rw [iter_succ, mem_expand]; exact Or.inr ⟨x, hx, hy⟩
          have := filter_length_lt w.nodes
            (fun n => !(iter w.expand (k + 1) s).contains n.id)
            (fun n => !(iter w.expand k s).contains n.id)
            (by
              intro m _ hm
              simp only [Bool.not_eq_true', List.contains_eq_mem, decide_eq_false_iff_not] at hm ⊢
              intro hmem; exact hm (iter_mono w s k _ hmem))
            n hn
            (by simp only [Bool.not_eq_true', List.contains_eq_mem, decide_eq_false_iff_not]
                rw [hny']; exact hny)
            (by simp only [Bool.not_eq_false', List.contains_eq_mem, decide_eq_true_eq]
                rw [hny']; exact hy1)
          omega
  rcases key (w.nodes.length + 1) with h | h
  · exact h
  · omega

/-- unconditional version: a round that still adds something consumes a node that was not in the set before,
    so `nodes.length + 1` rounds always reach a set closed under `childrenOf` -/
theorem iter_closed' (w : World) (s : List Nat) : Closed w (iter w.expand (w.nodes.length + 1) s) := by
  have key : ∀ k, Closed w (iter w.expand k s) ∨
      (w.nodes.filter (fun n => !(iter w.expand k s).contains n.id)).length + k ≤ w.nodes.length := by
    intro k
    induction k with
    | zero => right; simp only [Nat.add_zero]; exact List.length_filter_le _ _
    | succ k ih =>
      by_cases hc1 : Closed w (iter w.expand (k + 1) s)
      · exact Or.inl hc1
      · right
        have hlen : (w.nodes.filter (fun n => !(iter w.expand k s).contains n.id)).length + k ≤ w.nodes.length := by
          rcases ih with hc | hlen
          · exfalso; apply hc1; rw [iter_succ]; exact (closed_expand w _ hc).2
          · exact hlen
        have : ∃ x ∈ iter w.expand (k + 1) s, ∃ y ∈ w.childrenOf x, y ∉ iter w.expand (k + 1) s := by
          apply Classical.byContradiction
          intro hno
          apply hc1
          intro x hx y hy
          apply Classical.byContradiction
          intro hny
          exact hno ⟨x, hx, y, hy, hny⟩
        obtain ⟨x, hx, y, hy, hny⟩ := this
        have hxk : x ∉ iter w.expand k s := by
          intro hxk
          apply hny
          rw [iter_succ, mem_expand]; exact Or.inr ⟨x, hxk, hy⟩
        -- `x` is a node
        obtain ⟨n, hn, hnx⟩ : ∃ n ∈ w.nodes, n.id = x := by
          unfold childrenOf at hy
          cases hf : w.nodes.find? (fun n => n.id == x) with
          | none => rw [hf] at hy; simp at hy
          | some n =>
            exact ⟨n, List.mem_of_find?_eq_some hf, by simpa using List.find?_some hf⟩
        have := filter_length_lt w.nodes
          (fun n => !(iter w.expand (k + 1) s).contains n.id)
          (fun n => !(iter w.expand k s).contains n.id)
          (by
            intro m _ hm
            simp only [Bool.not_eq_true', List.contains_eq_mem, decide_eq_false_iff_not] at hm ⊢
            intro hmem; exact hm (iter_mono w s k _ hmem))
          n hn
          (by simp only [Bool.not_eq_true', List.contains_eq_mem, decide_eq_false_iff_not]
              rw [hnx]; exact hxk)
          (by simp only [Bool.not_eq_false', List.contains_eq_mem, decide_eq_true_eq]
              rw [hnx]; exact hx)
        omega
  rcases key (w.nodes.length + 1) with h | h
  · exact h
  · omega

theorem reachable_closed (w : World) : Closed w w.reachable := iter_closed' w _

theorem held_sub_reachable (w : World) (x : Nat) (h : x ∈ w.held) : x ∈ w.reachable := by
  unfold reachable
  exact iter_mono_le w _ 0 _ (by omega) x (List.mem_eraseDups.mpr h)

theorem find?_filter {α} (l : List α) (p q : α → Bool) (h : ∀ a ∈ l, q a = true → p a = true) :
    (l.filter p).find? q = l.find? q := by
  induction l with
  | nil => rfl
  | cons a as ih =>
    have ih' := ih (fun b hb => h b (by simp [hb]))
    by_cases hq : q a = true
    · have hp := h a (by simp) hq
      simp [hp, hq]
    · by_cases hp : p a = true
      · simp [hp, hq, ih']
      · simp [hp, hq, ih']

theorem collect_held (w : World) : w.collect.held = w.held := rfl

theorem childrenOf_collect (w : World) (x : Nat) (hx : x ∈ w.reachable) :
    w.collect.childrenOf x = w.childrenOf x := by
  unfold childrenOf
  have : w.collect.nodes = w.nodes.filter (fun n => w.reachable.contains n.id) := rfl
  rw [this, find?_filter]
  intro n _ hn
  have : n.id = x := by simpa using hn
  simp [this, hx]

/-- after a collection everything that was reachable still is -/
theorem reachable_collect (w : World) (x : Nat) (hx : x ∈ w.reachable) : x ∈ w.collect.reachable := by
  have key := iter_sound w w.held.eraseDups (fun y => y ∈ w.reachable ∧ y ∈ w.collect.reachable)
    (fun y hy => by
      have hy' := List.mem_eraseDups.mp hy
      exact ⟨held_sub_reachable w y hy', held_sub_reachable w.collect y (by rw [collect_held]; exact hy')⟩)
    (fun a b ha hb => by
      refine ⟨reachable_closed w a ha.1 b hb, ?_⟩
      apply reachable_closed w.collect a ha.2 b
      rw [childrenOf_collect w a ha.1]; exact hb)
    (w.nodes.length + 1) x hx
  exact key.2

/-- every node that survives a collection is reachable in the collected world -/
theorem collect_nodes_reachable (w : World) : ∀ n ∈ w.collect.nodes, n.id ∈ w.collect.reachable := by
  intro n hn
  have : w.collect.nodes = w.nodes.filter (fun n => w.reachable.contains n.id) := rfl
  rw [this, List.mem_filter] at hn
  exact reachable_collect w n.id (by simpa using hn.2)

end Dsd.WorldL
