/-
Reachability in the object world (C05): the iteration `reachable` reaches its fixed point.
-/
import DsdVerif.Model.World

namespace Dsd.WorldL
open Dsd Dsd.World

theorem mem_expand (w : World) (s : List Nat) (x : Nat) :
    x ∈ w.expand s ↔ x ∈ s ∨ ∃ y ∈ s, x ∈ w.childrenOf y := by
  unfold expand
  rw [List.mem_eraseDups, List.mem_append, List.mem_flatMap]

theorem iter_succ {α} (f : α → α) (n : Nat) (x : α) : iter f (n + 1) x = f (iter f n x) := by
  induction n generalizing x with
  | zero => rfl
  | succ n ih =>
    show iter f (n + 1) (f x) = f (iter f (n + 1) x)
    rw [ih (f x)]; rfl

theorem iter_mono (w : World) (s : List Nat) (k : Nat) (x : Nat) (h : x ∈ iter w.expand k s) :
    x ∈ iter w.expand (k + 1) s := by
  rw [iter_succ, mem_expand]; exact Or.inl h

theorem iter_mono_le (w : World) (s : List Nat) (k m : Nat) (hkm : k ≤ m) (x : Nat)
    (h : x ∈ iter w.expand k s) : x ∈ iter w.expand m s := by
  induction m with
  | zero => have : k = 0 := by omega
            subst this; exact h
  | succ m ih =>
    by_cases hk : k = m + 1
    · subst hk; exact h
    · exact iter_mono w s m x (ih (by omega))

/-- everything in the iteration satisfies any predicate that holds on the seeds and is closed under children -/
theorem iter_sound (w : World) (s : List Nat) (R : Nat → Prop) (h0 : ∀ x ∈ s, R x)
    (hstep : ∀ x y, R x → y ∈ w.childrenOf x → R y) (k : Nat) : ∀ x ∈ iter w.expand k s, R x := by
  induction k with
  | zero => exact h0
  | succ k ih =>
    intro x hx
    rw [iter_succ, mem_expand] at hx
    rcases hx with hx | ⟨y, hy, hxy⟩
    · exact ih x hx
    · exact hstep y x (ih y hy) hxy

theorem filter_length_lt {α} (l : List α) (p q : α → Bool) (hpq : ∀ x ∈ l, p x = true → q x = true)
    (y : α) (hy : y ∈ l) (hqy : q y = true) (hpy : p y = false) :
    (l.filter p).length < (l.filter q).length := by
  induction l with
  | nil => simp at hy
  | cons a as ih =>
    have hle : ∀ (l' : List α), (∀ x ∈ l', p x = true → q x = true) →
        (l'.filter p).length ≤ (l'.filter q).length := by
      intro l' h'
      induction l' with
      | nil => simp
      | cons b bs ihb =>
        have hb := h' b (by simp)
        have hbs := ihb (fun x hx => h' x (by simp [hx]))
        simp only [List.filter_cons]
        cases hp : p b <;> cases hq : q b <;> simp_all <;> omega
    simp only [List.mem_cons] at hy
    simp only [List.filter_cons]
    rcases hy with rfl | hy
    · rw [hpy, hqy]
      have := hle as (fun x hx => hpq x (by simp [hx]))
      simp; omega
    · have := ih (fun x hx => hpq x (by simp [hx])) hy
      have ha := hpq a (by simp)
      cases hp : p a <;> cases hq : q a <;> simp_all <;> omega

/-- closedness of a set under `childrenOf` -/
def Closed (w : World) (s : List Nat) : Prop := ∀ x ∈ s, ∀ y ∈ w.childrenOf x, y ∈ s

theorem closed_expand (w : World) (s : List Nat) (h : Closed w s) :
    (∀ x, x ∈ w.expand s ↔ x ∈ s) ∧ Closed w (w.expand s) := by
  have h1 : ∀ x, x ∈ w.expand s ↔ x ∈ s := by
    intro x
    rw [mem_expand]
    constructor
    · rintro (hx | ⟨y, hy, hxy⟩)
      · exact hx
      · exact h y hy x hxy
    · exact Or.inl
  refine ⟨h1, ?_⟩
  intro x hx y hy
  rw [h1] at hx ⊢
  exact h x hx y hy

/-- **pigeonhole**: if everything that can ever be reached is a seed or a node id, `nodes.length + 1` rounds
    reach a set closed under `childrenOf` -/
theorem iter_closed (w : World) (s : List Nat) (R : Nat → Prop) (h0 : ∀ x ∈ s, R x)
    (hstep : ∀ x y, R x → y ∈ w.childrenOf x → R y)
    (hids : ∀ x, R x → x ∈ s ∨ ∃ n ∈ w.nodes, n.id = x) :
    Closed w (iter w.expand (w.nodes.length + 1) s) := by
  -- the nodes whose id is not yet in the set
  have key : ∀ k, Closed w (iter w.expand k s) ∨
      (w.nodes.filter (fun n => !(iter w.expand k s).contains n.id)).length + k ≤ w.nodes.length := by
    intro k
    induction k with
    | zero => right; simp only [Nat.add_zero]; exact List.length_filter_le _ _
    | succ k ih =>
      rcases ih with hc | hlen
      · left; rw [iter_succ]; exact (closed_expand w _ hc).2
      · by_cases hc : Closed w (iter w.expand k s)
        · left; rw [iter_succ]; exact (closed_expand w _ hc).2
        · right
          -- a new element appears
          have : ∃ x ∈ iter w.expand k s, ∃ y ∈ w.childrenOf x, y ∉ iter w.expand k s := by
            apply Classical.byContradiction
            intro hno
            apply hc
            intro x hx y hy
            apply Classical.byContradiction
            intro hny
            exact hno ⟨x, hx, y, hy, hny⟩
          obtain ⟨x, hx, y, hy, hny⟩ := this
          have hRy : R y := hstep x y (iter_sound w s R h0 hstep k x hx) hy
          have hynode : ∃ n ∈ w.nodes, n.id = y := by
            rcases hids y hRy with h | h
            · exact absurd (iter_mono_le w s 0 k (by omega) y h) hny
            · exact h
          obtain ⟨n, hn, hny'⟩ := hynode
          have hy1 : y ∈ iter w.expand (k + 1) s := by
            rw [iter_succ, mem_expand]; exact Or.inr ⟨x, hx, hy⟩
          have := filter_length_lt w.nodes
            (fun n => !(iter w.expand (k + 1) s).contains n.id)
            (fun n => !(iter w.expand k s).contains n.id)
            (by
              intro m _ hm
              simp only [Bool.not_eq_true', List.contains_eq_mem, decide_eq_false_iff_not] at hm ⊢
              intro hmem; exact hm (iter_mono w s k _ hmem))
            n hn
            (by simp only [Bool.not_eq_true', List.contains_eq_mem, decide_eq_false_iff_not]
                rw [hny']; exact hny)
            (by simp only [Bool.not_eq_false', List.contains_eq_mem, decide_eq_true_eq]
                rw [hny']; exact hy1)
          omega
  rcases key (w.nodes.length + 1) with h | h
  · exact h
  · omega

end Dsd.WorldL
