/-
Helper lemmas for the registry model (C01): `List.find?` / `List.Pairwise` facts and the case
analysis of `Reg.call`.
-/
import DsdVerif.Model.Registry

namespace Dsd.RegL
open Dsd

/-! ### lists -/

theorem pairwise_cases {α} (R : α → α → Prop) (l : List α) (h : l.Pairwise R) (a b : α)
    (ha : a ∈ l) (hb : b ∈ l) : a = b ∨ R a b ∨ R b a := by
  induction l with
  | nil => simp at ha
  | cons x xs ih =>
    simp only [List.pairwise_cons] at h
    simp only [List.mem_cons] at ha hb
    rcases ha with rfl | ha <;> rcases hb with rfl | hb
    · left; rfl
    · right; left; exact h.1 b hb
    · right; right; exact h.1 a ha
    · exact ih h.2 ha hb

theorem find?_unique {α} (l : List α) (p : α → Bool) (o : α) (ho : o ∈ l) (hp : p o = true)
    (hu : ∀ a ∈ l, p a = true → a = o) : l.find? p = some o := by
  cases h : l.find? p with
  | none =>
    rw [List.find?_eq_none] at h
    exact absurd hp (h o ho)
  | some x =>
    have h1 := List.find?_some h
    have h2 := List.mem_of_find?_eq_some h
    rw [hu x h2 h1]

theorem find?_append_none {α} (l : List α) (p : α → Bool) (o : α) (h : l.find? p = none) :
    (l ++ [o]).find? p = if p o then some o else none := by
  rw [List.find?_append, h]
  simp [List.find?_cons]
  split <;> simp_all

end Dsd.RegL

namespace Dsd.Reg
variable {κ : Type} [DecidableEq κ]

omit [DecidableEq κ] in
theorem findName_some (r : Reg κ) (n : String) (o : Obj κ) (h : r.findName n = some o) :
    o ∈ r.objs ∧ o.name = n := by
  unfold findName at h
  exact ⟨List.mem_of_find?_eq_some h, by simpa using List.find?_some h⟩

omit [DecidableEq κ] in
theorem findName_none (r : Reg κ) (n : String) (h : r.findName n = none) :
    ∀ o ∈ r.objs, o.name ≠ n := by
  unfold findName at h
  rw [List.find?_eq_none] at h
  intro o ho; simpa using h o ho

theorem findCanon_some (r : Reg κ) (k : κ) (o : Obj κ) (h : r.findCanon k = some o) :
    o ∈ r.objs ∧ k ∈ o.keys := by
  unfold findCanon at h
  exact ⟨List.mem_of_find?_eq_some h, by simpa using List.find?_some h⟩

theorem findCanon_none (r : Reg κ) (k : κ) (h : r.findCanon k = none) :
    ∀ o ∈ r.objs, k ∉ o.keys := by
  unfold findCanon at h
  rw [List.find?_eq_none] at h
  intro o ho; simpa using h o ho

/-- complete case analysis of `Singleton.__call__` -/
theorem call_spec (r : Reg κ) (canon : Option κ) (name : Option String) (fresh : Nat)
    (keys : List κ) (auto : Bool) :
    (∃ n k, name = some n ∧ canon = some k ∧ r.findName n = none ∧ r.findCanon k = none ∧
      r.call canon name fresh keys auto =
        (r.register { id := fresh, name := n, canon := k, keys := keys } auto, .ret fresh true)) ∨
    ((r.call canon name fresh keys auto).1 = r ∧
      ((∃ o, (r.call canon name fresh keys auto).2 = .ret o false) ∨
       ∃ e, (r.call canon name fresh keys auto).2 = .singletonErr e)) := by
  cases name with
  | none =>
    right
    cases canon with
    | none => simp [call, decide]
    | some k =>
      cases hc : r.findCanon k <;> simp [call, decide, hc]
  | some n =>
    cases canon with
    | none =>
      right
      cases hn : r.findName n <;> simp [call, decide, hn]
    | some k =>
      cases hn : r.findName n with
      | none =>
        cases hc : r.findCanon k with
        | none => left; exact ⟨n, k, rfl, rfl, hn, hc, by simp [call, decide, hn, hc]⟩
        | some oc => right; simp [call, decide, hn, hc]
      | some on =>
        right
        cases hc : r.findCanon k with
        | none => simp [call, decide, hn, hc]
        | some oc =>
          by_cases hid : on.id = oc.id <;> simp [call, decide, hn, hc, hid]

end Dsd.Reg
