/-
Input accounting for seesaw concentrations (C19): the first significant character of a concentration is a digit, so
a sign in front of it is never accepted.
-/
import DsdVerif.Lemmas.PilYield
import DsdVerif.Lemmas.SswShape

namespace Dsd.PP
open Dsd Dsd.Gen

theorem skipWs_ws_prefix (ign : List Char) (c : Char) (r : List Char) (hws : ∀ x ∈ ign, isWs x = true) (hc : isWs c = false) :
    skipWs (ign ++ c :: r) = c :: r := by
  induction ign with
  | nil => simp [skipWs, List.dropWhile_cons, hc]
  | cons a as ih =>
    have ha := hws a List.mem_cons_self
    simp only [List.cons_append, skipWs, List.dropWhile_cons, ha, if_true]
    exact ih (fun x hx => hws x (List.mem_cons_of_mem _ hx))

theorem preL_ws_prefix (ign : List Char) (c : Char) (r : List Char) (hws : ∀ x ∈ ign, isWs x = true) (hc : isWs c = false)
    (hh : c ≠ '#') : preL true (ign ++ c :: r) = c :: r := by
  simp only [preL, if_true]
  unfold skipIgn
  simp only [skipWs_ws_prefix ign c r hws hc]
  split
  · rename_i heq; simp at heq; exact absurd heq.1 hh
  · rfl

/-- **a concentration starts with a digit**: after the ignorable text, the first character is a digit -/
theorem ssw_conc_first_digit {inp rest : List Char} {ts : List Tree} (h : Yield ssw_env true ssw_conc inp rest ts) :
    ∃ d r, preL true inp = d :: r ∧ pp_nums.contains d = true := by
  unfold ssw_conc at h
  obtain ⟨m1, t1, r1, _, h1, _⟩ := h.seq_inv.cons_inv
  unfold ssw_gorf at h1
  obtain ⟨g, hg, hs⟩ := h1.alt_inv
  simp only [List.mem_cons, List.not_mem_nil, or_false] at hg
  have key : ∀ (X : List G), Yield ssw_env true (.combine (.seq (ssw_number :: X))) inp m1 t1 →
      ∃ d r, preL true inp = d :: r ∧ pp_nums.contains d = true := by
    intro X hy
    obtain ⟨ts', f, _, hc⟩ := hy.combine_inv
    obtain ⟨m2, t2, r2, _, hn, _⟩ := hc.seq_inv.cons_inv
    unfold ssw_number at hn
    cases hn with
    | word _ _ _ _ c cs hp hc' =>
      simp only [preL, Bool.false_eq_true, if_false] at hp
      exact ⟨c, cs, by simpa [preL] using hp, hc'⟩
  rcases hg with rfl | rfl
  · unfold ssw_num_sci at hs; exact key _ hs
  · unfold ssw_num_flt at hs; exact key _ hs

/-- **a concentration is never accepted at a sign**: blanks followed by `-` (or `+`) cannot start a concentration -/
theorem ssw_conc_not_at_sign (ign : List Char) (s : Char) (r rest : List Char) (ts : List Tree)
    (hws : ∀ x ∈ ign, isWs x = true) (hs : s = '-' ∨ s = '+') :
    ¬ Yield ssw_env true ssw_conc (ign ++ s :: r) rest ts := by
  intro h
  obtain ⟨d, r', hp, hd⟩ := ssw_conc_first_digit h
  rcases hs with rfl | rfl
  · rw [preL_ws_prefix ign '-' r hws (by decide) (by decide)] at hp
    cases hp
    revert hd; decide
  · rw [preL_ws_prefix ign '+' r hws (by decide) (by decide)] at hp
    cases hp
    revert hd; decide

end Dsd.PP
