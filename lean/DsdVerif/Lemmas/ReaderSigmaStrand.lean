/-
End-to-end reading of declared systems (C14, "sigma" theorems), part 4: composite domains (strands) over
declared domains.
-/
import DsdVerif.Lemmas.ReaderSigmaAttr

namespace Dsd.Sig
open Dsd Dsd.PP Dsd.RState

/-! ### requests on explicit worlds, continued -/

/-- a name-only request for a live domain returns it -/
theorem domainRequest_nameonly (cfg : DomCfg) (r : Reg DKey) (fresh : Nat) (n : String) (o : Obj DKey)
    (hn : n ≠ "") (h1 : r.findName n = some o)
    (h2 : ∀ b, r.findName (cnameOf n) = some b → r.findCanon (n, b.canon.2) = some o) :
    domainRequest cfg r fresh { name := some n } = (r, .ret o.id false) := by
  rw [DomL.domainRequest_eq]
  have he : DomL.effName cfg r { name := some n } = n := rfl
  have hlen : DomL.lengthOf cfg { name := some n } = .ok none := rfl
  have hemp : n.isEmpty = false := by simpa using hn
  rw [he, hlen]
  simp only [hemp, Bool.false_eq_true, if_false]
  unfold DomL.domTail
  simp only
  split
  · cases hp : r.findName (cnameOf n) with
    | none => simp [Reg.call, Reg.decide, h1]
    | some b => simp [Reg.call, Reg.decide, h1, h2 b hp]
  · simp [Reg.call, Reg.decide, h1]

theorem setObjs_same (c : Nat) (hc : c < 4) (objs : List (Obj DKey)) (cr : ClassReg DKey)
    (hcr : (setObjs baseDoms c objs)[c]? = some cr) :
    ReaderL.updCls (setObjs baseDoms c objs) c cr 1 { objs := objs, autoId := 1 } = setObjs baseDoms c objs :=
  setObjs_upd c hc objs objs cr hcr

/-- a name-only request for a live, held domain leaves an explicit world as it is -/
theorem mkDom_DW_existing (p : DW) (hcd : p.cd < 4) (n : String) (o : Obj DKey) (hn : n ≠ "")
    (h1 : Reg.findName ({ objs := p.dobjs, autoId := 1 } : Reg DKey) n = some o)
    (h2 : ∀ b, Reg.findName ({ objs := p.dobjs, autoId := 1 } : Reg DKey) (cnameOf n) = some b →
      Reg.findCanon ({ objs := p.dobjs, autoId := 1 } : Reg DKey) (n, b.canon.2) = some o)
    (hheld : o.id ∈ p.held) :
    p.world.mkDom p.cd { name := some n } = (p.world, .ret o.id false) := by
  obtain ⟨cr0, h0, _⟩ := baseDoms_get p.cd hcd
  have hget := setObjs_get baseDoms p.cd p.dobjs cr0 h0
  have hdoms : p.world.doms = setObjs baseDoms p.cd p.dobjs := rfl
  rw [ReaderL.mkDom_eq, ReaderL.withClass_some _ _ _ _ (by rw [hdoms]; exact hget)]
  simp only [hdoms, effId_doms p.cd hcd]
  rw [domainRequest_nameonly _ { objs := p.dobjs, autoId := 1 } _ n o hn h1 h2]
  simp only
  rw [setObjs_same p.cd hcd p.dobjs _ hget]
  have hc : p.held.contains o.id = true := by simpa using hheld
  simp only [World.settle]
  have : p.world.held = p.held := rfl
  rw [this, hc]
  rfl

/-! ### strands -/

def starsOf (names : List String) : List Char := names.map (fun _ => '*')

def newStrand (id : Nat) (nm : String) (names : List String) : Obj CKey :=
  { id := id, name := nm, canon := (names, starsOf names), keys := [(names, starsOf names)] }

def strandNode (id c : Nat) (children : List Nat) : Node := { id := id, kind := .strand, cls := c, children := children }

theorem strandRequest_create (pfx : String) (r : Reg CKey) (fresh : Nat) (names : List String) (nm : String)
    (hplus : names.contains "+" = false) (h1 : r.findName nm = none)
    (h2 : r.findCanon (names, starsOf names) = none) :
    strandRequest pfx r fresh (some names) (some nm) = (r.register (newStrand fresh nm names) false, .ret fresh true) := by
  unfold strandRequest
  simp only [hplus, Bool.false_eq_true, if_false, Option.isNone_some, Option.getD_some]
  have : (names, List.map (fun _ => '*') names) = (names, starsOf names) := rfl
  rw [this]
  simp [Reg.call, Reg.decide, h1, h2, newStrand]

def DW.addStrand (p : DW) (nm : String) (names : List String) (ids : List Nat) : DW :=
  { p with sobjs := p.sobjs ++ [newStrand p.next nm names], nodes := p.nodes ++ [strandNode p.next p.cs ids],
           held := if p.held.contains p.next then p.held else p.held ++ [p.next], next := p.next + 1 }

theorem setObjs_upd_strands (c : Nat) (hc : c < 4) (objs objs' : List (Obj CKey)) (cr : ClassReg CKey)
    (hcr : (setObjs baseStrands c objs)[c]? = some cr) :
    ReaderL.updCls (setObjs baseStrands c objs) c cr 1 { objs := objs', autoId := 1 } = setObjs baseStrands c objs' := by
  obtain ⟨cr0, h0, _⟩ := baseStrands_get c hc
  rw [setObjs_get baseStrands c objs cr0 h0] at hcr
  cases hcr
  unfold ReaderL.updCls setObjs
  rw [h0]
  simp only [List.set_set, bne_self_eq_false, Bool.or_false]

theorem filterMap_id_map_some (ids : List Nat) : (ids.map some).filterMap id = ids := by
  induction ids with
  | nil => rfl
  | cons a as ih => simp [ih]

/-- **creating a strand in an explicit world** -/
theorem mkStrand_DW (p : DW) (hcs : p.cs < 4) (nm : String) (ids : List Nat) (names : List String)
    (hnames : p.world.seqNames (ids.map some) = some names) (hplus : names.contains "+" = false)
    (h1 : ∀ o ∈ p.sobjs, o.name ≠ nm) (h2 : ∀ o ∈ p.sobjs, (names, starsOf names) ∉ o.keys) :
    p.world.mkStrand p.cs (some (ids.map some)) (some nm) = ((p.addStrand nm names ids).world, .ret p.next true) := by
  obtain ⟨cr0, h0, _⟩ := baseStrands_get p.cs hcs
  have hget := setObjs_get baseStrands p.cs p.sobjs cr0 h0
  have hstr : p.world.strands = setObjs baseStrands p.cs p.sobjs := rfl
  unfold World.mkStrand
  simp only [Option.map_some, hnames, Option.getD_some]
  rw [ReaderL.withClass_some _ _ _ _ (by rw [hstr]; exact hget)]
  simp only [hstr, effId_strands p.cs hcs]
  rw [strandRequest_create _ { objs := p.sobjs, autoId := 1 } p.world.nextId names nm hplus
    (findName_none_of _ nm h1) (findCanon_none_of _ _ h2)]
  simp only [Reg.register, Bool.false_eq_true, if_false, filterMap_id_map_some]
  rw [setObjs_upd_strands p.cs hcs p.sobjs _ _ hget]
  rfl

/-! ### generic reader steps for a composite-domain line -/

theorem tokList_map_tok (l : List String) : tokList (l.map Tree.tok) = l := by
  induction l with
  | nil => rfl
  | cons a as ih => simp [tokList, tokStr] at ih ⊢; exact ih

/-- the parsed line of a composite domain -/
def compLine (nm : String) (content : List String) : List Tree :=
  [.tok "composite-domain", .tok nm, .grp (content.map Tree.tok)]

theorem readLine_comp (s : RState) (sl : Slots) (nm : String) (content : List String) (s1 : RState) (ids : List Nat)
    (w' : World) (id : Nat) (b : Bool) (h1 : s.domList sl content = (s1, .ok ids))
    (h2 : s1.w.mkStrand sl.strand (some (ids.map some)) (some nm) = (w', .ret id b)) :
    s.readLine sl (compLine nm content) = ({ s1 with w := w' }, .ok (.strand id)) := by
  unfold compLine readLine
  simp only [tokList_map_tok, h1, h2]

theorem readDoc_strand (s : RState) (sl : Slots) (before : List Nat) (line rest : List Tree) (d : RDict)
    (s1 : RState) (id : Nat) (nm : String)
    (hrl : s.readLine sl line = (s1, .ok (.strand id)))
    (hn : objName s1.w.strands sl.strand id = some nm) :
    s.readDoc sl [] before (.grp line :: rest) d =
      (s1.keepOnly before { d with strands := dictPut d.strands nm id }).readDoc sl [] before rest
        { d with strands := dictPut d.strands nm id } := by
  conv => lhs; unfold readDoc
  simp only [kind_not_ignored, Bool.false_eq_true, if_false, hrl, hn, Option.getD_some]

/-- `[Domain(x) for x in names]` when every request returns a live object without changing the state -/
theorem domList_same (s : RState) (sl : Slots) (f : String → Nat) (names : List String)
    (h : ∀ n ∈ names, s.domReq sl { name := some n } = (s, .ok (f n))) :
    s.domList sl names = (s, .ok (names.map f)) := by
  induction names with
  | nil => rfl
  | cons n ns ih =>
    unfold domList
    rw [h n (by simp)]
    simp only
    rw [ih (fun m hm => h m (by simp [hm]))]
    rfl

/-! ### explicit state with strands -/

/-- a composite-domain declaration: name and the names of its domains -/
abbrev SDecl := String × List String

def resolveId (ds : List Decl) (n : String) : Nat := ((dDict ds).lookup n).getD 0

def idsOf (ds : List Decl) (content : List String) : List Nat := content.map (resolveId ds)

def sObjs (ds : List Decl) (ss : List SDecl) : List (Obj CKey) :=
  ss.zipIdx.map (fun p => newStrand (2 * ds.length + p.2) p.1.1 p.1.2)

def sNodes (cs : Nat) (ds : List Decl) (ss : List SDecl) : List Node :=
  ss.zipIdx.map (fun p => strandNode (2 * ds.length + p.2) cs (idsOf ds p.1.2))

def sDict (ds : List Decl) (ss : List SDecl) : List (String × Nat) :=
  ss.zipIdx.map (fun p => (p.1.1, 2 * ds.length + p.2))

def P3 (cd cs : Nat) (ds : List Decl) (ss : List SDecl) : DW :=
  { cd := cd, cs := cs, dobjs := dObjs ds, sobjs := sObjs ds ss, nodes := dNodes cd ds ++ sNodes cs ds ss,
    held := List.range (2 * ds.length + ss.length), next := 2 * ds.length + ss.length }

def S3 (cd cs : Nat) (ds : List Decl) (ss : List SDecl) : RState := { w := (P3 cd cs ds ss).world, dseq := dSeq ds }

def D3 (ds : List Decl) (ss : List SDecl) : RDict := { domains := dDict ds, strands := sDict ds ss }

theorem S3_nil (cd cs : Nat) (ds : List Decl) : S3 cd cs ds [] = S cd cs ds := by
  unfold S3 S P3 P
  simp [sObjs, sNodes]

theorem D3_nil (ds : List Decl) : D3 ds [] = D ds := rfl

theorem zipIdx_snoc {α} (l : List α) (x : α) : (l ++ [x]).zipIdx = l.zipIdx ++ [(x, l.length)] := by
  rw [List.zipIdx_append]; simp

theorem mem_zipIdx_map {α β} (l : List α) (f : α × Nat → β) (y : β) :
    y ∈ l.zipIdx.map f ↔ ∃ j x, l[j]? = some x ∧ y = f (x, j) := by
  rw [List.mem_map]
  constructor
  · rintro ⟨⟨x, j⟩, hm, rfl⟩
    exact ⟨j, x, List.mem_zipIdx_iff_getElem?.mp hm, rfl⟩
  · rintro ⟨j, x, hj, rfl⟩
    exact ⟨(x, j), List.mem_zipIdx_iff_getElem?.mpr hj, rfl⟩

/-- the content of a strand: declared domain names or their complements, none of them the break token -/
def ContentOK (ds : List Decl) (content : List String) : Prop :=
  ∀ n ∈ content, n ≠ "+" ∧ ∃ (k : Nat) (d : Decl), ds[k]? = some d ∧ (n = d.name ∨ n = star d.name)

/-- hypotheses on the strand part of a system -/
structure SSys (ds : List Decl) (ss : List SDecl) : Prop where
  content : ∀ p ∈ ss, ContentOK ds p.2
  names : (ss.map (·.1)).Nodup
  contents : (ss.map (·.2)).Nodup

/-! ### registry facts of the explicit domain class -/

theorem dObjs_findName (ds : List Decl) (hsys : Sys ds) (k : Nat) (d : Decl) (hk : ds[k]? = some d) :
    Reg.findName ({ objs := dObjs ds, autoId := 1 } : Reg DKey) d.name = some (newDom (2 * k) d.name d.len) ∧
    Reg.findName ({ objs := dObjs ds, autoId := 1 } : Reg DKey) (star d.name) =
      some (newDom (2 * k + 1) (star d.name) d.len) := by
  have hmem : newDom (2 * k) d.name d.len ∈ dObjs ds := by
    rw [dObjs, mem_perDecl]; exact ⟨k, d, hk, by simp⟩
  have hmem2 : newDom (2 * k + 1) (star d.name) d.len ∈ dObjs ds := by
    rw [dObjs, mem_perDecl]; exact ⟨k, d, hk, by simp⟩
  constructor
  · unfold Reg.findName
    apply RegL.find?_unique _ _ _ hmem (by simp [newDom])
    intro a ha hp
    exact (dObjs_by_name ds hsys k d hk a ha).1 (by simpa using hp)
  · unfold Reg.findName
    apply RegL.find?_unique _ _ _ hmem2 (by simp [newDom])
    intro a ha hp
    exact (dObjs_by_name ds hsys k d hk a ha).2 (by simpa using hp)

theorem dObjs_findCanon (ds : List Decl) (hsys : Sys ds) (k : Nat) (d : Decl) (hk : ds[k]? = some d) :
    Reg.findCanon ({ objs := dObjs ds, autoId := 1 } : Reg DKey) (d.name, d.len) =
      some (newDom (2 * k) d.name d.len) ∧
    Reg.findCanon ({ objs := dObjs ds, autoId := 1 } : Reg DKey) (star d.name, d.len) =
      some (newDom (2 * k + 1) (star d.name) d.len) := by
  have hmem : newDom (2 * k) d.name d.len ∈ dObjs ds := by
    rw [dObjs, mem_perDecl]; exact ⟨k, d, hk, by simp⟩
  have hmem2 : newDom (2 * k + 1) (star d.name) d.len ∈ dObjs ds := by
    rw [dObjs, mem_perDecl]; exact ⟨k, d, hk, by simp⟩
  constructor
  · unfold Reg.findCanon
    apply RegL.find?_unique _ _ _ hmem (by simp [newDom])
    intro a ha hp
    obtain ⟨_, _, _, hkeys, hcan⟩ := dObjs_name ds a ha
    have : (d.name, d.len) ∈ a.keys := by simpa using hp
    rw [hkeys, List.mem_singleton] at this
    exact (dObjs_by_name ds hsys k d hk a ha).1 (by rw [← hcan, ← this])
  · unfold Reg.findCanon
    apply RegL.find?_unique _ _ _ hmem2 (by simp [newDom])
    intro a ha hp
    obtain ⟨_, _, _, hkeys, hcan⟩ := dObjs_name ds a ha
    have : (star d.name, d.len) ∈ a.keys := by simpa using hp
    rw [hkeys, List.mem_singleton] at this
    exact (dObjs_by_name ds hsys k d hk a ha).2 (by rw [← hcan, ← this])

/-- a name in a strand resolves to a live domain with that name, and requesting it changes nothing -/
theorem content_request (sl : Slots) (hcd : sl.dom < 4) (cs : Nat) (ds : List Decl) (hsys : Sys ds) (ss : List SDecl)
    (n : String) (hn : ∃ (k : Nat) (d : Decl), ds[k]? = some d ∧ (n = d.name ∨ n = star d.name)) :
    (S3 sl.dom cs ds ss).domReq sl { name := some n } = (S3 sl.dom cs ds ss, .ok (resolveId ds n)) ∧
    ∃ o, (S3 sl.dom cs ds ss).w.domObj (resolveId ds n) = some (sl.dom, o) ∧ o.name = n ∧
      resolveId ds n < 2 * ds.length := by
  obtain ⟨k, d, hk, hnd⟩ := hn
  have hlt := getElem?_lt' _ _ _ hk
  have hbd := hsys.base d (List.mem_of_getElem? hk)
  obtain ⟨fn1, fn2⟩ := dObjs_findName ds hsys k d hk
  obtain ⟨fc1, fc2⟩ := dObjs_findCanon ds hsys k d hk
  obtain ⟨l1, l2⟩ := dDict_lookup ds hsys k d hk
  obtain ⟨fo1, fo2⟩ := dObjs_find ds k d hk
  have hnodes : ∀ i, i < 2 * ds.length →
      (P3 sl.dom cs ds ss).nodes.find? (fun m => m.id == i) = some (domNode i sl.dom) := by
    intro i hi
    show (dNodes sl.dom ds ++ sNodes cs ds ss).find? _ = _
    rw [List.find?_append, dNodes_find sl.dom ds i hi]; rfl
  rcases hnd with rfl | rfl
  · have hres : resolveId ds d.name = 2 * k := by unfold resolveId; rw [l1]; rfl
    rw [hres]
    have hmk := mkDom_DW_existing (P3 sl.dom cs ds ss) hcd d.name _ hbd.1 fn1
      (by
        intro b hb
        rw [cnameOf_base _ hbd] at hb
        have hb' : Reg.findName ({ objs := dObjs ds, autoId := 1 } : Reg DKey) (star d.name) = some b := hb
        rw [fn2] at hb'
        cases hb'; exact fc1)
      (by show 2 * k ∈ List.range _; exact List.mem_range.mpr (by omega))
    refine ⟨domReq_of_mkDom (S3 sl.dom cs ds ss) sl _ _ _ _ hmk, _,
      domObj_DW (P3 sl.dom cs ds ss) hcd _ _ (hnodes _ (by omega)) fo1, rfl, by omega⟩
  · have hres : resolveId ds (star d.name) = 2 * k + 1 := by unfold resolveId; rw [l2]; rfl
    rw [hres]
    have hmk := mkDom_DW_existing (P3 sl.dom cs ds ss) hcd (star d.name) _ (star_ne_empty _) fn2
      (by
        intro b hb
        rw [cnameOf_star _ hbd] at hb
        have hb' : Reg.findName ({ objs := dObjs ds, autoId := 1 } : Reg DKey) d.name = some b := hb
        rw [fn1] at hb'
        cases hb'; exact fc2)
      (by show 2 * k + 1 ∈ List.range _; exact List.mem_range.mpr (by omega))
    refine ⟨domReq_of_mkDom (S3 sl.dom cs ds ss) sl _ _ _ _ hmk, _,
      domObj_DW (P3 sl.dom cs ds ss) hcd _ _ (hnodes _ (by omega)) fo2, rfl, by omega⟩

theorem seqNames_content (w : World) (cd : Nat) (f : String → Nat) (content : List String)
    (h : ∀ n ∈ content, ∃ o, w.domObj (f n) = some (cd, o) ∧ o.name = n) :
    w.seqNames ((content.map f).map some) = some content := by
  unfold World.seqNames
  induction content with
  | nil => rfl
  | cons n ns ih =>
    obtain ⟨o, ho, hon⟩ := h n (by simp)
    have := ih (fun m hm => h m (by simp [hm]))
    simp only [List.map_cons, List.mapM_cons, ho, Option.map_some, hon]
    simp only [List.map_map] at this ⊢
    rw [this]; rfl

/-! ### one composite-domain line -/

theorem sObjs_mem (ds : List Decl) (ss : List SDecl) (o : Obj CKey) (ho : o ∈ sObjs ds ss) :
    ∃ j p, ss[j]? = some p ∧ o = newStrand (2 * ds.length + j) p.1 p.2 := by
  obtain ⟨j, p, hj, rfl⟩ := (mem_zipIdx_map ss _ o).mp ho
  exact ⟨j, p, hj, rfl⟩

theorem P3_addStrand (cd cs : Nat) (ds : List Decl) (ss : List SDecl) (p : SDecl) :
    (P3 cd cs ds ss).addStrand p.1 p.2 (idsOf ds p.2) = P3 cd cs ds (ss ++ [p]) := by
  have hc : (List.range (2 * ds.length + ss.length)).contains (2 * ds.length + ss.length) = false := by simp
  have hr : List.range (2 * ds.length + (ss.length + 1)) =
      List.range (2 * ds.length + ss.length) ++ [2 * ds.length + ss.length] := by
    have : 2 * ds.length + (ss.length + 1) = (2 * ds.length + ss.length).succ := by omega
    rw [this, List.range_succ]
  simp only [P3, DW.addStrand, hc, Bool.false_eq_true, if_false, sObjs, sNodes, zipIdx_snoc, List.map_append,
    List.map_cons, List.map_nil, List.length_append, List.length_singleton, hr, List.append_assoc]
  rfl

theorem objName_addStrand (p : DW) (hcs : p.cs < 4) (nm : String) (names : List String) (ids : List Nat)
    (h : ∀ o ∈ p.sobjs, o.id ≠ p.next) :
    objName (p.addStrand nm names ids).world.strands p.cs p.next = some nm := by
  obtain ⟨cr0, h0, _⟩ := baseStrands_get p.cs hcs
  have hstr : (p.addStrand nm names ids).world.strands =
      setObjs baseStrands p.cs (p.sobjs ++ [newStrand p.next nm names]) := rfl
  unfold objName
  rw [hstr, setObjs_get baseStrands p.cs _ cr0 h0]
  simp only [Option.bind_some, Reg.findId]
  rw [find?_snoc_new _ _ _ (fun a ha => by simpa using h a ha) (by simp [newStrand])]
  rfl

theorem range_mem_dicts (ds : List Decl) (ss : List SDecl) (i : Nat) (hi : i < 2 * ds.length + ss.length) :
    i ∈ (dDict ds).map (·.2) ++ (sDict ds ss).map (·.2) := by
  rw [List.mem_append]
  by_cases h : i < 2 * ds.length
  · exact Or.inl (range_mem_dDict ds i h)
  · right
    rw [List.mem_map]
    have hj : i - 2 * ds.length < ss.length := by omega
    refine ⟨(ss[i - 2 * ds.length].1, i), ?_, rfl⟩
    rw [sDict, mem_zipIdx_map]
    refine ⟨i - 2 * ds.length, ss[i - 2 * ds.length], List.getElem?_eq_getElem hj, ?_⟩
    simp only [Prod.mk.injEq, true_and]; omega

theorem keepOnly_S3 (cd cs : Nat) (hcd : cd < 4) (hcs : cs < 4) (ds : List Decl) (ss : List SDecl) :
    (S3 cd cs ds ss).keepOnly [] (D3 ds ss) = S3 cd cs ds ss := by
  unfold keepOnly
  have hheld : (S3 cd cs ds ss).w.held = List.range (2 * ds.length + ss.length) := rfl
  have hfil : List.filter (fun h => (([] : List Nat) ++ (D3 ds ss).domains.map (·.2) ++ (D3 ds ss).strands.map (·.2) ++
      (D3 ds ss).complexes.map (·.2) ++ (D3 ds ss).macrostates.map (·.2) ++ (D3 ds ss).det ++ (D3 ds ss).con).contains h)
      (List.range (2 * ds.length + ss.length)) = List.range (2 * ds.length + ss.length) := by
    rw [List.filter_eq_self]
    intro i hi
    have := range_mem_dicts ds ss i (List.mem_range.mp hi)
    simp only [D3, List.nil_append, List.map_nil, List.append_nil, List.contains_eq_mem, decide_eq_true_eq]
    exact this
  simp only [hheld, hfil]
  have hw : ({ (S3 cd cs ds ss).w with held := List.range (2 * ds.length + ss.length) } : World) =
      (P3 cd cs ds ss).world := rfl
  rw [hw, collect_DW (P3 cd cs ds ss) hcd hcs]
  · rfl
  · intro o ho; exact List.mem_range.mpr (by have := dObjs_id_lt ds o ho; omega)
  · intro o ho
    obtain ⟨j, p, hj, rfl⟩ := sObjs_mem ds ss o ho
    have := getElem?_lt' _ _ _ hj
    exact List.mem_range.mpr (by simp only [newStrand]; omega)
  · intro n hn
    have hn' : n ∈ dNodes cd ds ++ sNodes cs ds ss := hn
    rw [List.mem_append] at hn'
    rcases hn' with h | h
    · exact List.mem_range.mpr (by have := dNodes_id_lt cd ds n h; omega)
    · obtain ⟨j, p, hj, rfl⟩ := (mem_zipIdx_map ss _ n).mp h
      have := getElem?_lt' _ _ _ hj
      exact List.mem_range.mpr (by simp only [strandNode]; omega)

/-- **reading one composite-domain line** -/
theorem sstep (sl : Slots) (hcd : sl.dom < 4) (hcs : sl.strand < 4) (ds : List Decl) (hsys : Sys ds)
    (ss : List SDecl) (p : SDecl) (lines : List Tree) (hc : ContentOK ds p.2)
    (hn : ∀ q ∈ ss, q.1 ≠ p.1) (hcn : ∀ q ∈ ss, q.2 ≠ p.2) :
    (S3 sl.dom sl.strand ds ss).readDoc sl [] [] (.grp (compLine p.1 p.2) :: lines) (D3 ds ss) =
      (S3 sl.dom sl.strand ds (ss ++ [p])).readDoc sl [] [] lines (D3 ds (ss ++ [p])) := by
  -- the domains of the strand
  have hdl := domList_same (S3 sl.dom sl.strand ds ss) sl (resolveId ds) p.2
    (fun n hn' => (content_request sl hcd sl.strand ds hsys ss n (hc n hn').2).1)
  have hnames := seqNames_content (S3 sl.dom sl.strand ds ss).w sl.dom (resolveId ds) p.2
    (fun n hn' => by
      obtain ⟨o, h1, h2, _⟩ := (content_request sl hcd sl.strand ds hsys ss n (hc n hn').2).2
      exact ⟨o, h1, h2⟩)
  have hplus : p.2.contains "+" = false := by
    rw [List.contains_eq_mem]
    simp only [decide_eq_false_iff_not]
    intro hm; exact (hc "+" hm).1 rfl
  have hmk := mkStrand_DW (P3 sl.dom sl.strand ds ss) hcs p.1 (idsOf ds p.2) p.2 hnames hplus
    (by
      intro o ho
      obtain ⟨j, q, hj, rfl⟩ := sObjs_mem ds ss o ho
      exact hn q (List.mem_of_getElem? hj))
    (by
      intro o ho hk
      obtain ⟨j, q, hj, rfl⟩ := sObjs_mem ds ss o ho
      simp only [newStrand, List.mem_singleton, Prod.mk.injEq] at hk
      exact hcn q (List.mem_of_getElem? hj) hk.1.symm)
  have hnext : (P3 sl.dom sl.strand ds ss).next = 2 * ds.length + ss.length := rfl
  rw [hnext, P3_addStrand] at hmk
  have hrl := readLine_comp (S3 sl.dom sl.strand ds ss) sl p.1 p.2 _ _ _ _ _ hdl hmk
  have hon := objName_addStrand (P3 sl.dom sl.strand ds ss) hcs p.1 p.2 (idsOf ds p.2)
    (by
      intro o ho
      obtain ⟨j, q, hj, rfl⟩ := sObjs_mem ds ss o ho
      have := getElem?_lt' _ _ _ hj
      simp only [newStrand, hnext]; omega)
  rw [hnext, P3_addStrand] at hon
  rw [readDoc_strand _ sl [] _ lines (D3 ds ss) _ _ p.1 hrl hon]
  have hd : ({ D3 ds ss with strands := dictPut (D3 ds ss).strands p.1 (2 * ds.length + ss.length) } : RDict) =
      D3 ds (ss ++ [p]) := by
    unfold D3
    simp only
    rw [dictPut_fresh]
    · simp [sDict, zipIdx_snoc]
    · intro q hq
      obtain ⟨j, x, hj, rfl⟩ := (mem_zipIdx_map ss _ q).mp hq
      exact hn x (List.mem_of_getElem? hj)
  rw [hd]
  have hs : ({ S3 sl.dom sl.strand ds ss with w := (P3 sl.dom sl.strand ds (ss ++ [p])).world } : RState) =
      S3 sl.dom sl.strand ds (ss ++ [p]) := rfl
  rw [hs, keepOnly_S3 sl.dom sl.strand hcd hcs]

/-! ### whole documents -/

def sdoc (ss : List SDecl) : List Tree := ss.map (fun p => Tree.grp (compLine p.1 p.2))

theorem readDoc_decls_tail (sl : Slots) (hcd : sl.dom < 4) (cs : Nat) (hcs : cs < 4) (tail : List Tree) :
    ∀ (rest pre : List Decl), Sys (pre ++ rest) →
      (S sl.dom cs pre).readDoc sl [] [] (doc rest ++ tail) (D pre) =
        (S sl.dom cs (pre ++ rest)).readDoc sl [] [] tail (D (pre ++ rest)) := by
  intro rest
  induction rest with
  | nil => intro pre _; simp [doc]
  | cons d rest ih =>
    intro pre hsys
    have hassoc : pre ++ d :: rest = (pre ++ [d]) ++ rest := by simp
    have hnd := hsys.distinct
    rw [List.map_append, List.map_cons] at hnd
    have hf : ∀ x ∈ pre, x.name ≠ d.name := by
      intro x hx e
      have h1 := (List.nodup_append.mp hnd).2.2
      exact h1 x.name (List.mem_map_of_mem hx) d.name (by simp) e
    have hstep := step sl hcd cs hcs pre d (doc rest ++ tail)
      (fun x hx => hsys.base x (by simp [hx])) (hsys.base d (by simp)) hf (hsys.ok d (by simp))
    have : doc (d :: rest) ++ tail = .grp d.line :: (doc rest ++ tail) := rfl
    rw [this, hstep, hassoc]
    exact ih (pre ++ [d]) (by rw [← hassoc]; exact hsys)

theorem readDoc_strands (sl : Slots) (hcd : sl.dom < 4) (hcs : sl.strand < 4) (ds : List Decl) (hsys : Sys ds) :
    ∀ (rest pre : List SDecl), SSys ds (pre ++ rest) →
      (S3 sl.dom sl.strand ds pre).readDoc sl [] [] (sdoc rest) (D3 ds pre) =
        (S3 sl.dom sl.strand ds (pre ++ rest), .ok (D3 ds (pre ++ rest))) := by
  intro rest
  induction rest with
  | nil => intro pre _; simp [sdoc, readDoc]
  | cons p rest ih =>
    intro pre hs
    have hassoc : pre ++ p :: rest = (pre ++ [p]) ++ rest := by simp
    have hn1 := hs.names
    have hn2 := hs.contents
    rw [List.map_append, List.map_cons] at hn1 hn2
    have hf1 : ∀ q ∈ pre, q.1 ≠ p.1 := by
      intro q hq e
      exact (List.nodup_append.mp hn1).2.2 q.1 (List.mem_map_of_mem hq) p.1 (by simp) e
    have hf2 : ∀ q ∈ pre, q.2 ≠ p.2 := by
      intro q hq e
      exact (List.nodup_append.mp hn2).2.2 q.2 (List.mem_map_of_mem hq) p.2 (by simp) e
    have hstep := sstep sl hcd hcs ds hsys pre p (sdoc rest) (hs.content p (by simp)) hf1 hf2
    have : sdoc (p :: rest) = .grp (compLine p.1 p.2) :: sdoc rest := rfl
    rw [this, hstep, hassoc]
    exact ih (pre ++ [p]) (by rw [← hassoc]; exact hs)

/-- **reading domain declarations followed by composite domains into the fresh state** -/
theorem readDoc_fresh3 (sl : Slots) (hcd : sl.dom < 4) (hcs : sl.strand < 4) (ds : List Decl) (hsys : Sys ds)
    (ss : List SDecl) (hss : SSys ds ss) :
    ({} : RState).readDoc sl [] [] (doc ds ++ sdoc ss) {} =
      (S3 sl.dom sl.strand ds ss, .ok (D3 ds ss)) := by
  have h1 := readDoc_decls_tail sl hcd sl.strand hcs (sdoc ss) ds [] (by simpa using hsys)
  have hS : S sl.dom sl.strand [] = {} := by
    unfold S
    have : P sl.dom sl.strand [] = { cd := sl.dom, cs := sl.strand } := rfl
    rw [this, world_empty sl.dom sl.strand hcd hcs]
    rfl
  have hD : D [] = {} := rfl
  rw [hS, hD] at h1
  simp only [List.nil_append] at h1
  rw [h1, ← S3_nil, ← D3_nil]
  have := readDoc_strands sl hcd hcs ds hsys ss [] (by simpa using hss)
  simpa using this

/-! ### what the final state says about a strand -/

theorem sDict_lookup (ds : List Decl) (ss : List SDecl) (hn : (ss.map (·.1)).Nodup) (j : Nat) (p : SDecl)
    (hj : ss[j]? = some p) : (sDict ds ss).lookup p.1 = some (2 * ds.length + j) := by
  apply lookup_unique
  · rw [sDict, mem_zipIdx_map]; exact ⟨j, p, hj, rfl⟩
  · intro v' hv'
    rw [sDict, mem_zipIdx_map] at hv'
    obtain ⟨j', p', hj', he⟩ := hv'
    simp only [Prod.mk.injEq] at he
    have h1 : (ss.map (·.1))[j]? = some p.1 := by simp [hj]
    have h2 : (ss.map (·.1))[j']? = some p'.1 := by simp [hj']
    have hlt : j < (ss.map (·.1)).length := by simpa using getElem?_lt' _ _ _ hj
    have : j = j' := (List.getElem?_inj hlt hn).mp (by rw [h1, h2, he.1])
    rw [he.2, this]

theorem sNodes_find (cd cs : Nat) (ds : List Decl) (ss : List SDecl) (j : Nat) (p : SDecl) (hj : ss[j]? = some p) :
    (dNodes cd ds ++ sNodes cs ds ss).find? (fun n => n.id == 2 * ds.length + j) =
      some (strandNode (2 * ds.length + j) cs (idsOf ds p.2)) := by
  apply RegL.find?_unique
  · rw [List.mem_append]; right
    rw [sNodes, mem_zipIdx_map]; exact ⟨j, p, hj, rfl⟩
  · simp [strandNode]
  · intro a ha hp
    have hid : a.id = 2 * ds.length + j := by simpa using hp
    rw [List.mem_append] at ha
    rcases ha with ha | ha
    · have := dNodes_id_lt cd ds a ha; omega
    · obtain ⟨j', p', hj', rfl⟩ := (mem_zipIdx_map ss _ a).mp ha
      simp only [strandNode] at hid
      have : j' = j := by omega
      subst this
      rw [getElem?_det ss j' p p' hj hj']

theorem sObjs_find (ds : List Decl) (ss : List SDecl) (j : Nat) (p : SDecl) (hj : ss[j]? = some p) :
    (sObjs ds ss).find? (fun o => o.id == 2 * ds.length + j) = some (newStrand (2 * ds.length + j) p.1 p.2) := by
  apply RegL.find?_unique
  · rw [sObjs, mem_zipIdx_map]; exact ⟨j, p, hj, rfl⟩
  · simp [newStrand]
  · intro a ha hp
    have hid : a.id = 2 * ds.length + j := by simpa using hp
    obtain ⟨j', p', hj', rfl⟩ := sObjs_mem ds ss a ha
    simp only [newStrand] at hid
    have : j' = j := by omega
    subst this
    rw [getElem?_det ss j' p p' hj hj']

/-- the strand object behind a dictionary entry, as the world exposes it -/
theorem S3_strand (cd cs : Nat) (hcs : cs < 4) (ds : List Decl) (ss : List SDecl) (j : Nat) (p : SDecl)
    (hj : ss[j]? = some p) :
    (S3 cd cs ds ss).w.node (2 * ds.length + j) = some (strandNode (2 * ds.length + j) cs (idsOf ds p.2)) ∧
    (S3 cd cs ds ss).w.cplxObj (2 * ds.length + j) = some (cs, newStrand (2 * ds.length + j) p.1 p.2) := by
  have hnode : (S3 cd cs ds ss).w.node (2 * ds.length + j) =
      some (strandNode (2 * ds.length + j) cs (idsOf ds p.2)) := sNodes_find cd cs ds ss j p hj
  refine ⟨hnode, ?_⟩
  obtain ⟨cr0, h0, _⟩ := baseStrands_get cs hcs
  have hget := setObjs_get baseStrands cs (sObjs ds ss) cr0 h0
  have hstr : (S3 cd cs ds ss).w.strands = setObjs baseStrands cs (sObjs ds ss) := rfl
  unfold World.cplxObj
  rw [hnode]
  simp only [strandNode, reduceCtorEq, if_false, if_true, hstr, hget, Option.bind_some, Reg.findId,
    sObjs_find ds ss j p hj, Option.map_some]

/-- a strand's children are the dictionary's identities of its domain names -/
theorem idsOf_lookup (ds : List Decl) (hsys : Sys ds) (content : List String) (hc : ContentOK ds content) :
    content.map (fun n => (dDict ds).lookup n) = (idsOf ds content).map some := by
  unfold idsOf
  rw [List.map_map]
  apply List.map_congr_left
  intro n hn
  obtain ⟨_, k, d, hk, hnd⟩ := hc n hn
  obtain ⟨l1, l2⟩ := dDict_lookup ds hsys k d hk
  simp only [Function.comp, resolveId]
  rcases hnd with rfl | rfl
  · rw [l1]; rfl
  · rw [l2]; rfl

theorem sDict_keys (ds : List Decl) (ss : List SDecl) : (sDict ds ss).map (·.1) = ss.map (·.1) := by
  unfold sDict
  rw [List.map_map]
  have : ((fun (x : String × Nat) => x.1) ∘ fun (p : SDecl × Nat) => (p.1.1, 2 * ds.length + p.2)) =
      (fun (q : SDecl) => q.1) ∘ Prod.fst := rfl
  rw [this, ← List.map_map, List.zipIdx_map_fst]

/-! ### the domain part of the final state with strands -/

theorem S3_domObj (cd cs : Nat) (hcd : cd < 4) (ds : List Decl) (ss : List SDecl) (k : Nat) (d : Decl)
    (hk : ds[k]? = some d) :
    (S3 cd cs ds ss).w.domObj (2 * k) = some (cd, newDom (2 * k) d.name d.len) ∧
    (S3 cd cs ds ss).w.domObj (2 * k + 1) = some (cd, newDom (2 * k + 1) (star d.name) d.len) := by
  have hlt := getElem?_lt' _ _ _ hk
  obtain ⟨h1, h2⟩ := dObjs_find ds k d hk
  have hnodes : ∀ i, i < 2 * ds.length →
      (P3 cd cs ds ss).nodes.find? (fun m => m.id == i) = some (domNode i cd) := by
    intro i hi
    show (dNodes cd ds ++ sNodes cs ds ss).find? _ = _
    rw [List.find?_append, dNodes_find cd ds i hi]; rfl
  exact ⟨domObj_DW (P3 cd cs ds ss) hcd _ _ (hnodes _ (by omega)) h1,
    domObj_DW (P3 cd cs ds ss) hcd _ _ (hnodes _ (by omega)) h2⟩

theorem S3_live (cd cs : Nat) (ds : List Decl) (ss : List SDecl) (i : Nat) (hi : i < 2 * ds.length + ss.length) :
    (S3 cd cs ds ss).w.isLive i = true ∧ i ∈ (S3 cd cs ds ss).w.held := by
  constructor
  · unfold World.isLive World.node
    have hn : (S3 cd cs ds ss).w.nodes = dNodes cd ds ++ sNodes cs ds ss := rfl
    rw [hn]
    by_cases h : i < 2 * ds.length
    · rw [List.find?_append, dNodes_find cd ds i h]; rfl
    · have hj : i - 2 * ds.length < ss.length := by omega
      have := sNodes_find cd cs ds ss (i - 2 * ds.length) ss[i - 2 * ds.length] (List.getElem?_eq_getElem hj)
      have e : 2 * ds.length + (i - 2 * ds.length) = i := by omega
      rw [e] at this
      rw [this]; rfl
  · have : (S3 cd cs ds ss).w.held = List.range (2 * ds.length + ss.length) := rfl
    rw [this]; exact List.mem_range.mpr hi

/-- re-reading a declared domain line into any state whose slot class is the explicit registry -/
theorem reread_gen (sl : Slots) (hcd : sl.dom < 4) (ds : List Decl) (hsys : Sys ds) (s : RState)
    (hdoms : s.w.doms = setObjs baseDoms sl.dom (dObjs ds)) (k : Nat) (d : Decl) (hk : ds[k]? = some d) :
    ∃ s'', s.readLine sl d.line = (s'', .ok (.dom (2 * k))) := by
  have hbd := hsys.base d (List.mem_of_getElem? hk)
  obtain ⟨cr0, h0, _⟩ := baseDoms_get sl.dom hcd
  have hget := setObjs_get baseDoms sl.dom (dObjs ds) cr0 h0
  obtain ⟨hfn, hfn2⟩ := dObjs_findName ds hsys k d hk
  obtain ⟨hfc, _⟩ := dObjs_findCanon ds hsys k d hk
  have hpart : ∀ b, Reg.findName ({ objs := dObjs ds, autoId := 1 } : Reg DKey) (cnameOf d.name) = some b →
      b.canon.2 = d.len := by
    intro b hb
    rw [cnameOf_base _ hbd, hfn2] at hb
    cases hb; rfl
  have hout : (s.w.mkDom sl.dom { name := some d.name, length := some d.len }).2 = .ret (2 * k) false := by
    rw [ReaderL.mkDom_eq, ReaderL.withClass_some _ _ _ _ (by rw [hdoms]; exact hget)]
    simp only [hdoms, effId_doms sl.dom hcd]
    rw [domainRequest_existing _ { objs := dObjs ds, autoId := 1 } _ d.name d.len _ hbd.1 hfn hfc hpart]
    rfl
  have hreq := domReq_of_mkDom s sl { name := some d.name, length := some d.len }
    (s.w.mkDom sl.dom { name := some d.name, length := some d.len }).1 (2 * k) false
    (by rw [← hout])
  exact ⟨_, readLine_decl s sl d (hsys.ok d (List.mem_of_getElem? hk)) _ _ hreq⟩

end Dsd.Sig
