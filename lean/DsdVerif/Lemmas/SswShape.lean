/-
The trees the seesaw grammar can return (C19, parse soundness): every accepted statement has one of the valid
shapes, with the right arity and kinds of arguments — derived from the shape theorem `PP.run_shape` alone.
-/
import DsdVerif.Lemmas.PilShape

namespace Dsd.PP
open Dsd Dsd.Gen

/-! ### token classes -/

/-- a token that starts with a character of the class -/
def StartsIn (cls : List Char) (w : String) : Prop := ∃ c cs, w.toList = c :: cs ∧ cls.contains c = true

theorem StartsIn.append {cls : List Char} {w : String} (h : StartsIn cls w) (v : String) : StartsIn cls (w ++ v) := by
  obtain ⟨c, cs, hw, hc⟩ := h
  exact ⟨c, cs ++ v.toList, by rw [String.toList_append, hw]; rfl, hc⟩

theorem startsIn_join (cls : List Char) (f : Nat) (w : String) (rest : List Tree) (h : StartsIn cls w) :
    StartsIn cls (String.join (flatToks (f + 1) (.tok w :: rest))) := by
  simp only [flatToks, join_cons]
  exact h.append _

/-- a non-empty string of digits -/
def DigitStr (w : String) : Prop := ∃ c m, w = String.ofList (c :: m) ∧ pp_nums.contains c = true ∧
  ∀ x ∈ m, pp_nums.contains x = true

theorem DigitStr.startsIn {w : String} (h : DigitStr w) : StartsIn pp_nums w := by
  obtain ⟨c, m, rfl, hc, _⟩ := h
  exact ⟨c, m, String.toList_ofList, hc⟩

/-- a number token -/
def NumT (t : Tree) : Prop := ∃ w, t = .tok w ∧ DigitStr w
/-- a number or the fluorophore marker `f` -/
def NumOrF (t : Tree) : Prop := NumT t ∨ t = .tok "f"
/-- an identifier token: it starts with a letter -/
def IdT (t : Tree) : Prop := ∃ w, t = .tok w ∧ StartsIn pp_alphas w
/-- the name of an INPUT / OUTPUT: one number or identifier -/
def NameT (t : Tree) : Prop := ∃ x, t = .grp [x] ∧ (NumT x ∨ IdT x)
/-- a wire `w[a, b]` (`b` may be `f`) -/
def WireT (t : Tree) : Prop := ∃ a b, t = .grp [.tok "w", .grp [a, b]] ∧ NumT a ∧ NumOrF b
/-- a fluorophore `Fluor[n]` -/
def FluorT (t : Tree) : Prop := ∃ n, t = .grp [.tok "Fluor", n] ∧ NumT n
/-- a gate or threshold `g[w, n]` / `g[n, w]` with the keyword `kw` -/
def GateT (kw : String) (t : Tree) : Prop :=
  ∃ a b, t = .grp [.tok kw, .grp [a, b]] ∧ ((WireT a ∧ NumT b) ∨ (NumT a ∧ WireT b))
/-- a non-empty list of numbers -/
def NumListT (t : Tree) : Prop := ∃ l, t = .grp l ∧ l ≠ [] ∧ ∀ x ∈ l, NumT x
/-- a non-empty list of numbers or `f` -/
def OutListT (t : Tree) : Prop := ∃ l, t = .grp l ∧ l ≠ [] ∧ ∀ x ∈ l, NumOrF x
/-- an unsigned decimal number: the token starts with a digit -/
def ConcT (t : Tree) : Prop := ∃ w, t = .tok w ∧ StartsIn pp_nums w

/-- the valid seesaw statements -/
inductive SswLine : List Tree → Prop
  | input (n w : Tree) : NameT n → WireT w → SswLine [.tok "INPUT", n, w]
  | output (n v : Tree) : NameT n → (FluorT v ∨ WireT v) → SswLine [.tok "OUTPUT", n, v]
  | seesaw (g i o : Tree) : NumT g → NumListT i → OutListT o → SswLine [.tok "seesaw", .grp [g, i, o]]
  | wireconc (w c : Tree) : WireT w → ConcT c → SswLine [.tok "conc", w, c]
  | gateconc (g c : Tree) : GateT "g" g → ConcT c → SswLine [.tok "conc", g, c]
  | thshconc (g c : Tree) : GateT "th" g → ConcT c → SswLine [.tok "conc", g, c]
  | reporter (a b : Tree) : NumT a → NumT b → SswLine [.tok "reporter", .grp [a, b]]
  | inputfanout (a b l : Tree) : NumT a → NumT b → NumListT l → SswLine [.tok "inputfanout", .grp [a, b, l]]
  | seesawOR (a b l1 l2 : Tree) : NumT a → NumT b → NumListT l1 → NumListT l2 →
      SswLine [.tok "seesawOR", .grp [a, b, l1, l2]]
  | seesawAND (a b l1 l2 : Tree) : NumT a → NumT b → NumListT l1 → NumListT l2 →
      SswLine [.tok "seesawAND", .grp [a, b, l1, l2]]

/-- a valid statement tree -/
def SswValid (t : Tree) : Prop := ∃ l, t = .grp l ∧ SswLine l

variable {env : Env}

/-! ### the terms of the grammar -/

theorem ssw_number_shape {ts : List Tree} (h : Shape env ssw_number ts) : ∃ x, ts = [x] ∧ NumT x := by
  unfold ssw_number at h
  obtain ⟨c, m, rfl, hc, hm⟩ := h.word_inv
  exact ⟨_, rfl, _, rfl, c, m, rfl, hc, hm⟩

theorem ssw_identifier_shape {ts : List Tree} (h : Shape env ssw_identifier ts) : ∃ x, ts = [x] ∧ IdT x := by
  unfold ssw_identifier at h
  obtain ⟨c, m, rfl, hc, _⟩ := h.word_inv
  exact ⟨_, rfl, _, rfl, c, m, String.toList_ofList, hc⟩

theorem numOrF_shape {ts : List Tree} (h : Shape env (.alt [ssw_number, .lit ['f']]) ts) : ∃ x, ts = [x] ∧ NumOrF x := by
  obtain ⟨g, hg, hs⟩ := h.alt_inv
  simp only [List.mem_cons, List.not_mem_nil, or_false] at hg
  rcases hg with rfl | rfl
  · obtain ⟨x, rfl, hx⟩ := ssw_number_shape hs
    exact ⟨x, rfl, Or.inl hx⟩
  · exact ⟨_, hs.lit_inv, Or.inr rfl⟩

theorem ssw_wire_shape {ts : List Tree} (h : Shape env ssw_wire ts) : ∃ x, ts = [x] ∧ WireT x := by
  unfold ssw_wire at h
  obtain ⟨l, rfl, hg⟩ := h.group_inv
  obtain ⟨t1, r1, rfl, h1, hr1⟩ := hg.seq_inv.cons_inv
  obtain ⟨t2, r2, rfl, h2, hr2⟩ := hr1.cons_inv
  obtain ⟨t3, r3, rfl, h3, hr3⟩ := hr2.cons_inv
  obtain ⟨t4, r4, rfl, h4, hr4⟩ := hr3.cons_inv
  rw [hr4.nil_inv, h1.lit_inv, h2.suppress_inv, h4.suppress_inv]
  obtain ⟨l', rfl, hg'⟩ := h3.group_inv
  obtain ⟨a1, s1, rfl, ha1, hs1⟩ := hg'.seq_inv.cons_inv
  obtain ⟨a2, s2, rfl, ha2, hs2⟩ := hs1.cons_inv
  obtain ⟨a3, s3, rfl, ha3, hs3⟩ := hs2.cons_inv
  rw [hs3.nil_inv, ha2.suppress_inv]
  obtain ⟨a, rfl, ha⟩ := ssw_number_shape ha1
  obtain ⟨b, rfl, hb⟩ := numOrF_shape ha3
  exact ⟨_, rfl, a, b, by simp, ha, hb⟩

theorem ssw_fluor_shape {ts : List Tree} (h : Shape env ssw_fluor ts) : ∃ x, ts = [x] ∧ FluorT x := by
  unfold ssw_fluor at h
  obtain ⟨l, rfl, hg⟩ := h.group_inv
  obtain ⟨t1, r1, rfl, h1, hr1⟩ := hg.seq_inv.cons_inv
  obtain ⟨t2, r2, rfl, h2, hr2⟩ := hr1.cons_inv
  obtain ⟨t3, r3, rfl, h3, hr3⟩ := hr2.cons_inv
  obtain ⟨t4, r4, rfl, h4, hr4⟩ := hr3.cons_inv
  rw [hr4.nil_inv, h1.lit_inv, h2.suppress_inv, h4.suppress_inv]
  obtain ⟨n, rfl, hn⟩ := ssw_number_shape h3
  exact ⟨_, rfl, n, by simp, hn⟩

theorem ssw_name_shape {ts : List Tree} (h : Shape env (.group (.alt [ssw_number, ssw_identifier])) ts) :
    ∃ x, ts = [x] ∧ NameT x := by
  obtain ⟨l, rfl, hg⟩ := h.group_inv
  obtain ⟨g, hgm, hs⟩ := hg.alt_inv
  simp only [List.mem_cons, List.not_mem_nil, or_false] at hgm
  rcases hgm with rfl | rfl
  · obtain ⟨x, rfl, hx⟩ := ssw_number_shape hs
    exact ⟨_, rfl, x, rfl, Or.inl hx⟩
  · obtain ⟨x, rfl, hx⟩ := ssw_identifier_shape hs
    exact ⟨_, rfl, x, rfl, Or.inr hx⟩

/-- the common shape of the four gate / threshold terms -/
theorem gate_shape (kw : List Char) (A B : G) {ts : List Tree}
    (h : Shape env (.group (.seq [.lit kw, .suppress (.lit ['[']), .group (.seq [A, .suppress (.lit [',']), B]),
      .suppress (.lit [']'])])) ts) :
    ∃ ta tb, ts = [.grp [.tok (String.ofList kw), .grp (ta ++ tb)]] ∧ Shape env A ta ∧ Shape env B tb := by
  obtain ⟨l, rfl, hg⟩ := h.group_inv
  obtain ⟨t1, r1, rfl, h1, hr1⟩ := hg.seq_inv.cons_inv
  obtain ⟨t2, r2, rfl, h2, hr2⟩ := hr1.cons_inv
  obtain ⟨t3, r3, rfl, h3, hr3⟩ := hr2.cons_inv
  obtain ⟨t4, r4, rfl, h4, hr4⟩ := hr3.cons_inv
  rw [hr4.nil_inv, h1.lit_inv, h2.suppress_inv, h4.suppress_inv]
  obtain ⟨l', rfl, hg'⟩ := h3.group_inv
  obtain ⟨a1, s1, rfl, ha1, hs1⟩ := hg'.seq_inv.cons_inv
  obtain ⟨a2, s2, rfl, ha2, hs2⟩ := hs1.cons_inv
  obtain ⟨a3, s3, rfl, ha3, hs3⟩ := hs2.cons_inv
  rw [hs3.nil_inv, ha2.suppress_inv]
  exact ⟨a1, a3, by simp, ha1, ha3⟩

theorem gateAlt_shape {ts : List Tree} (h : Shape env (.alt [ssw_gateO, ssw_gateI]) ts) : ∃ x, ts = [x] ∧ GateT "g" x := by
  obtain ⟨g, hgm, hs⟩ := h.alt_inv
  simp only [List.mem_cons, List.not_mem_nil, or_false] at hgm
  rcases hgm with rfl | rfl
  · unfold ssw_gateO at hs
    obtain ⟨ta, tb, rfl, ha, hb⟩ := gate_shape _ _ _ hs
    obtain ⟨a, rfl, hwa⟩ := ssw_wire_shape ha
    obtain ⟨b, rfl, hnb⟩ := ssw_number_shape hb
    exact ⟨_, rfl, a, b, rfl, Or.inl ⟨hwa, hnb⟩⟩
  · unfold ssw_gateI at hs
    obtain ⟨ta, tb, rfl, ha, hb⟩ := gate_shape _ _ _ hs
    obtain ⟨a, rfl, hna⟩ := ssw_number_shape ha
    obtain ⟨b, rfl, hwb⟩ := ssw_wire_shape hb
    exact ⟨_, rfl, a, b, rfl, Or.inr ⟨hna, hwb⟩⟩

theorem thshAlt_shape {ts : List Tree} (h : Shape env (.alt [ssw_thshO, ssw_thshI]) ts) : ∃ x, ts = [x] ∧ GateT "th" x := by
  obtain ⟨g, hgm, hs⟩ := h.alt_inv
  simp only [List.mem_cons, List.not_mem_nil, or_false] at hgm
  rcases hgm with rfl | rfl
  · unfold ssw_thshO at hs
    obtain ⟨ta, tb, rfl, ha, hb⟩ := gate_shape _ _ _ hs
    obtain ⟨a, rfl, hwa⟩ := ssw_wire_shape ha
    obtain ⟨b, rfl, hnb⟩ := ssw_number_shape hb
    exact ⟨_, rfl, a, b, rfl, Or.inl ⟨hwa, hnb⟩⟩
  · unfold ssw_thshI at hs
    obtain ⟨ta, tb, rfl, ha, hb⟩ := gate_shape _ _ _ hs
    obtain ⟨a, rfl, hna⟩ := ssw_number_shape ha
    obtain ⟨b, rfl, hwb⟩ := ssw_wire_shape hb
    exact ⟨_, rfl, a, b, rfl, Or.inr ⟨hna, hwb⟩⟩

/-- a brace list over an element that yields one token of class `Q` -/
theorem braces_shape (x : G) (Q : Tree → Prop) (hx : ∀ t, Shape env x t → ∃ y, t = [y] ∧ Q y) {ts : List Tree}
    (h : Shape env (.group (.seq [.suppress (.lit ['{']), .seq [x, .many (.seq [.suppress (.lit [',']), x])],
      .suppress (.lit ['}'])])) ts) :
    ∃ l, ts = [.grp l] ∧ l ≠ [] ∧ ∀ y ∈ l, Q y := by
  obtain ⟨l, rfl, hg⟩ := h.group_inv
  obtain ⟨t1, r1, rfl, h1, hr1⟩ := hg.seq_inv.cons_inv
  obtain ⟨t2, r2, rfl, h2, hr2⟩ := hr1.cons_inv
  obtain ⟨t3, r3, rfl, h3, hr3⟩ := hr2.cons_inv
  rw [hr3.nil_inv, h1.suppress_inv, h3.suppress_inv]
  obtain ⟨a1, s1, rfl, ha1, hs1⟩ := h2.seq_inv.cons_inv
  obtain ⟨a2, s2, rfl, ha2, hs2⟩ := hs1.cons_inv
  rw [hs2.nil_inv]
  obtain ⟨y0, rfl, hy0⟩ := hx a1 ha1
  obtain ⟨tss, rfl, htss⟩ := shapeMany_flat _ a2 ha2.many_inv
  refine ⟨_, rfl, by simp, ?_⟩
  intro y hy
  simp only [List.nil_append, List.append_nil, List.cons_append, List.mem_cons, List.mem_flatten] at hy
  rcases hy with rfl | ⟨t, ht, hyt⟩
  · exact hy0
  · obtain ⟨b1, u1, rfl, hb1, hu1⟩ := (htss t ht).seq_inv.cons_inv
    obtain ⟨b2, u2, rfl, hb2, hu2⟩ := hu1.cons_inv
    rw [hu2.nil_inv, hb1.suppress_inv] at hyt
    obtain ⟨y', rfl, hy'⟩ := hx b2 hb2
    simp at hyt
    rw [hyt]; exact hy'

theorem ssw_inputs_shape {ts : List Tree} (h : Shape env ssw_inputs ts) : ∃ x, ts = [x] ∧ NumListT x := by
  unfold ssw_inputs at h
  obtain ⟨l, rfl, hne, hl⟩ := braces_shape ssw_number NumT (fun t ht => ssw_number_shape ht) h
  exact ⟨_, rfl, l, rfl, hne, hl⟩

theorem ssw_outputs_shape {ts : List Tree} (h : Shape env ssw_outputs ts) : ∃ x, ts = [x] ∧ OutListT x := by
  unfold ssw_outputs at h
  obtain ⟨l, rfl, hne, hl⟩ := braces_shape _ NumOrF (fun t ht => numOrF_shape ht) h
  exact ⟨_, rfl, l, rfl, hne, hl⟩

theorem nums_startsIn {c : Char} {m : List Char} (hc : pp_nums.contains c = true) :
    StartsIn pp_nums (String.ofList (c :: m)) := ⟨c, m, String.toList_ofList, hc⟩

/-- a concentration value starts with a digit -/
theorem ssw_gorf_shape {ts : List Tree} (h : Shape env ssw_gorf ts) : ∃ x, ts = [x] ∧ ConcT x := by
  unfold ssw_gorf at h
  obtain ⟨g, hgm, hs⟩ := h.alt_inv
  simp only [List.mem_cons, List.not_mem_nil, or_false] at hgm
  rcases hgm with rfl | rfl
  · unfold ssw_num_sci at hs
    obtain ⟨ts', f, rfl, hs'⟩ := hs.combine_inv
    obtain ⟨t1, r1, rfl, h1, _⟩ := hs'.seq_inv.cons_inv
    obtain ⟨x, rfl, w, rfl, hw⟩ := ssw_number_shape h1
    exact ⟨_, rfl, _, rfl, startsIn_join pp_nums f w _ hw.startsIn⟩
  · unfold ssw_num_flt at hs
    obtain ⟨ts', f, rfl, hs'⟩ := hs.combine_inv
    obtain ⟨t1, r1, rfl, h1, _⟩ := hs'.seq_inv.cons_inv
    obtain ⟨x, rfl, w, rfl, hw⟩ := ssw_number_shape h1
    exact ⟨_, rfl, _, rfl, startsIn_join pp_nums f w _ hw.startsIn⟩

theorem ssw_conc_shape {ts : List Tree} (h : Shape env ssw_conc ts) : ∃ x, ts = [x] ∧ ConcT x := by
  unfold ssw_conc at h
  obtain ⟨t1, r1, rfl, h1, hr1⟩ := h.seq_inv.cons_inv
  obtain ⟨t2, r2, rfl, h2, hr2⟩ := hr1.cons_inv
  rw [hr2.nil_inv, h2.suppress_inv]
  obtain ⟨x, rfl, hx⟩ := ssw_gorf_shape h1
  exact ⟨x, by simp, hx⟩

/-- the common shape of the three `conc[…]` statements -/
theorem concStmt_shape (X : G) {ts : List Tree}
    (h : Shape env (.seq [.lit ['c', 'o', 'n', 'c'], .suppress (.lit ['[']), X, .suppress (.lit [',']), ssw_conc,
      .suppress (.lit [']'])]) ts) : ∃ tx c, ts = .tok "conc" :: (tx ++ [c]) ∧ Shape env X tx ∧ ConcT c := by
  obtain ⟨t1, r1, rfl, h1, hr1⟩ := h.seq_inv.cons_inv
  obtain ⟨t2, r2, rfl, h2, hr2⟩ := hr1.cons_inv
  obtain ⟨t3, r3, rfl, h3, hr3⟩ := hr2.cons_inv
  obtain ⟨t4, r4, rfl, h4, hr4⟩ := hr3.cons_inv
  obtain ⟨t5, r5, rfl, h5, hr5⟩ := hr4.cons_inv
  obtain ⟨t6, r6, rfl, h6, hr6⟩ := hr5.cons_inv
  rw [hr6.nil_inv, h1.lit_inv, h2.suppress_inv, h4.suppress_inv, h6.suppress_inv]
  obtain ⟨c, rfl, hc⟩ := ssw_conc_shape h5
  exact ⟨t3, c, by simp, h3, hc⟩

/-- the common shape of the two-list macros -/
theorem twoList_shape (kw : List Char) {ts : List Tree}
    (h : Shape env (.seq [.lit kw, .suppress (.lit ['[']), .group (.seq [ssw_number, .suppress (.lit [',']), ssw_number,
      .suppress (.lit [',']), ssw_inputs, .suppress (.lit [',']), ssw_inputs]), .suppress (.lit [']'])]) ts) :
    ∃ a b l1 l2, ts = [.tok (String.ofList kw), .grp [a, b, l1, l2]] ∧ NumT a ∧ NumT b ∧ NumListT l1 ∧ NumListT l2 := by
  obtain ⟨t1, r1, rfl, h1, hr1⟩ := h.seq_inv.cons_inv
  obtain ⟨t2, r2, rfl, h2, hr2⟩ := hr1.cons_inv
  obtain ⟨t3, r3, rfl, h3, hr3⟩ := hr2.cons_inv
  obtain ⟨t4, r4, rfl, h4, hr4⟩ := hr3.cons_inv
  rw [hr4.nil_inv, h1.lit_inv, h2.suppress_inv, h4.suppress_inv]
  obtain ⟨l', rfl, hg'⟩ := h3.group_inv
  obtain ⟨a1, s1, rfl, ha1, hs1⟩ := hg'.seq_inv.cons_inv
  obtain ⟨a2, s2, rfl, ha2, hs2⟩ := hs1.cons_inv
  obtain ⟨a3, s3, rfl, ha3, hs3⟩ := hs2.cons_inv
  obtain ⟨a4, s4, rfl, ha4, hs4⟩ := hs3.cons_inv
  obtain ⟨a5, s5, rfl, ha5, hs5⟩ := hs4.cons_inv
  obtain ⟨a6, s6, rfl, ha6, hs6⟩ := hs5.cons_inv
  obtain ⟨a7, s7, rfl, ha7, hs7⟩ := hs6.cons_inv
  rw [hs7.nil_inv, ha2.suppress_inv, ha4.suppress_inv, ha6.suppress_inv]
  obtain ⟨a, rfl, ha⟩ := ssw_number_shape ha1
  obtain ⟨b, rfl, hb⟩ := ssw_number_shape ha3
  obtain ⟨l1, rfl, hl1⟩ := ssw_inputs_shape ha5
  obtain ⟨l2, rfl, hl2⟩ := ssw_inputs_shape ha7
  exact ⟨a, b, l1, l2, by simp, ha, hb, hl1, hl2⟩

/-- the alternatives of a statement -/
theorem ssw_body_shape {l : List Tree}
    (h : Shape env (.alt [ssw_inp, ssw_out, ssw_seesaw, ssw_wireconc, ssw_outpconc, ssw_thshconc, ssw_macros]) l) :
    SswLine l := by
  obtain ⟨g, hgm, hs⟩ := h.alt_inv
  simp only [List.mem_cons, List.not_mem_nil, or_false] at hgm
  rcases hgm with rfl | rfl | rfl | rfl | rfl | rfl | rfl
  · unfold ssw_inp at hs
    obtain ⟨t1, r1, rfl, h1, hr1⟩ := hs.seq_inv.cons_inv
    obtain ⟨t2, r2, rfl, h2, hr2⟩ := hr1.cons_inv
    obtain ⟨t3, r3, rfl, h3, hr3⟩ := hr2.cons_inv
    obtain ⟨t4, r4, rfl, h4, hr4⟩ := hr3.cons_inv
    obtain ⟨t5, r5, rfl, h5, hr5⟩ := hr4.cons_inv
    obtain ⟨t6, r6, rfl, h6, hr6⟩ := hr5.cons_inv
    rw [hr6.nil_inv, h1.lit_inv, h2.suppress_inv, h4.suppress_inv, h5.suppress_inv]
    obtain ⟨n, rfl, hn⟩ := ssw_name_shape h3
    obtain ⟨w, rfl, hw⟩ := ssw_wire_shape h6
    exact SswLine.input n w hn hw
  · unfold ssw_out at hs
    obtain ⟨t1, r1, rfl, h1, hr1⟩ := hs.seq_inv.cons_inv
    obtain ⟨t2, r2, rfl, h2, hr2⟩ := hr1.cons_inv
    obtain ⟨t3, r3, rfl, h3, hr3⟩ := hr2.cons_inv
    obtain ⟨t4, r4, rfl, h4, hr4⟩ := hr3.cons_inv
    obtain ⟨t5, r5, rfl, h5, hr5⟩ := hr4.cons_inv
    obtain ⟨t6, r6, rfl, h6, hr6⟩ := hr5.cons_inv
    rw [hr6.nil_inv, h1.lit_inv, h2.suppress_inv, h4.suppress_inv, h5.suppress_inv]
    obtain ⟨n, rfl, hn⟩ := ssw_name_shape h3
    obtain ⟨g, hgm, hv⟩ := h6.alt_inv
    simp only [List.mem_cons, List.not_mem_nil, or_false] at hgm
    rcases hgm with rfl | rfl
    · obtain ⟨v, rfl, hv'⟩ := ssw_fluor_shape hv
      exact SswLine.output n v hn (Or.inl hv')
    · obtain ⟨v, rfl, hv'⟩ := ssw_wire_shape hv
      exact SswLine.output n v hn (Or.inr hv')
  · unfold ssw_seesaw at hs
    obtain ⟨t1, r1, rfl, h1, hr1⟩ := hs.seq_inv.cons_inv
    obtain ⟨t2, r2, rfl, h2, hr2⟩ := hr1.cons_inv
    obtain ⟨t3, r3, rfl, h3, hr3⟩ := hr2.cons_inv
    obtain ⟨t4, r4, rfl, h4, hr4⟩ := hr3.cons_inv
    rw [hr4.nil_inv, h1.lit_inv, h2.suppress_inv, h4.suppress_inv]
    obtain ⟨l', rfl, hg'⟩ := h3.group_inv
    obtain ⟨a1, s1, rfl, ha1, hs1⟩ := hg'.seq_inv.cons_inv
    obtain ⟨a2, s2, rfl, ha2, hs2⟩ := hs1.cons_inv
    obtain ⟨a3, s3, rfl, ha3, hs3⟩ := hs2.cons_inv
    obtain ⟨a4, s4, rfl, ha4, hs4⟩ := hs3.cons_inv
    obtain ⟨a5, s5, rfl, ha5, hs5⟩ := hs4.cons_inv
    rw [hs5.nil_inv, ha2.suppress_inv, ha4.suppress_inv]
    obtain ⟨g, rfl, hg⟩ := ssw_number_shape ha1
    obtain ⟨i, rfl, hi⟩ := ssw_inputs_shape ha3
    obtain ⟨o, rfl, ho⟩ := ssw_outputs_shape ha5
    exact SswLine.seesaw g i o hg hi ho
  · unfold ssw_wireconc at hs
    obtain ⟨tx, c, rfl, hx, hc⟩ := concStmt_shape _ hs
    obtain ⟨w, rfl, hw⟩ := ssw_wire_shape hx
    exact SswLine.wireconc w c hw hc
  · unfold ssw_outpconc at hs
    obtain ⟨tx, c, rfl, hx, hc⟩ := concStmt_shape _ hs
    obtain ⟨g, rfl, hg⟩ := gateAlt_shape hx
    exact SswLine.gateconc g c hg hc
  · unfold ssw_thshconc at hs
    obtain ⟨tx, c, rfl, hx, hc⟩ := concStmt_shape _ hs
    obtain ⟨g, rfl, hg⟩ := thshAlt_shape hx
    exact SswLine.thshconc g c hg hc
  · unfold ssw_macros at hs
    obtain ⟨g, hgm, hm⟩ := hs.alt_inv
    simp only [List.mem_cons, List.not_mem_nil, or_false] at hgm
    rcases hgm with rfl | rfl | rfl | rfl
    · unfold ssw_reporter at hm
      obtain ⟨t1, r1, rfl, h1, hr1⟩ := hm.seq_inv.cons_inv
      obtain ⟨t2, r2, rfl, h2, hr2⟩ := hr1.cons_inv
      obtain ⟨t3, r3, rfl, h3, hr3⟩ := hr2.cons_inv
      obtain ⟨t4, r4, rfl, h4, hr4⟩ := hr3.cons_inv
      rw [hr4.nil_inv, h1.lit_inv, h2.suppress_inv, h4.suppress_inv]
      obtain ⟨l', rfl, hg'⟩ := h3.group_inv
      obtain ⟨a1, s1, rfl, ha1, hs1⟩ := hg'.seq_inv.cons_inv
      obtain ⟨a2, s2, rfl, ha2, hs2⟩ := hs1.cons_inv
      obtain ⟨a3, s3, rfl, ha3, hs3⟩ := hs2.cons_inv
      rw [hs3.nil_inv, ha2.suppress_inv]
      obtain ⟨a, rfl, ha⟩ := ssw_number_shape ha1
      obtain ⟨b, rfl, hb⟩ := ssw_number_shape ha3
      exact SswLine.reporter a b ha hb
    · unfold ssw_inputfanout at hm
      obtain ⟨t1, r1, rfl, h1, hr1⟩ := hm.seq_inv.cons_inv
      obtain ⟨t2, r2, rfl, h2, hr2⟩ := hr1.cons_inv
      obtain ⟨t3, r3, rfl, h3, hr3⟩ := hr2.cons_inv
      obtain ⟨t4, r4, rfl, h4, hr4⟩ := hr3.cons_inv
      rw [hr4.nil_inv, h1.lit_inv, h2.suppress_inv, h4.suppress_inv]
      obtain ⟨l', rfl, hg'⟩ := h3.group_inv
      obtain ⟨a1, s1, rfl, ha1, hs1⟩ := hg'.seq_inv.cons_inv
      obtain ⟨a2, s2, rfl, ha2, hs2⟩ := hs1.cons_inv
      obtain ⟨a3, s3, rfl, ha3, hs3⟩ := hs2.cons_inv
      obtain ⟨a4, s4, rfl, ha4, hs4⟩ := hs3.cons_inv
      obtain ⟨a5, s5, rfl, ha5, hs5⟩ := hs4.cons_inv
      rw [hs5.nil_inv, ha2.suppress_inv, ha4.suppress_inv]
      obtain ⟨a, rfl, ha⟩ := ssw_number_shape ha1
      obtain ⟨b, rfl, hb⟩ := ssw_number_shape ha3
      obtain ⟨l, rfl, hl⟩ := ssw_inputs_shape ha5
      exact SswLine.inputfanout a b l ha hb hl
    · unfold ssw_seesawOR at hm
      obtain ⟨a, b, l1, l2, rfl, ha, hb, hl1, hl2⟩ := twoList_shape _ hm
      exact SswLine.seesawOR a b l1 l2 ha hb hl1 hl2
    · unfold ssw_seesawAND at hm
      obtain ⟨a, b, l1, l2, rfl, ha, hb, hl1, hl2⟩ := twoList_shape _ hm
      exact SswLine.seesawAND a b l1 l2 ha hb hl1 hl2

theorem ssw_stmt_shape {ts : List Tree} (h : Shape env ssw_stmt ts) : ∃ t, ts = [t] ∧ SswValid t := by
  unfold ssw_stmt at h
  obtain ⟨t1, r1, rfl, h1, hr1⟩ := h.seq_inv.cons_inv
  obtain ⟨t2, r2, rfl, h2, hr2⟩ := hr1.cons_inv
  rw [hr2.nil_inv, shape_many1_suppress _ _ h2]
  obtain ⟨l, rfl, hl⟩ := h1.group_inv
  exact ⟨_, by simp, l, rfl, ssw_body_shape hl⟩

/-- **every statement of an accepted seesaw document is valid** -/
theorem ssw_document_shape {ts : List Tree} (h : Shape env ssw_document ts) : ∀ t ∈ ts, SswValid t := by
  unfold ssw_document at h
  obtain ⟨t1, r1, rfl, h1, hr1⟩ := h.seq_inv.cons_inv
  obtain ⟨t2, r2, rfl, h2, hr2⟩ := hr1.cons_inv
  obtain ⟨t3, r3, rfl, h3, hr3⟩ := hr2.cons_inv
  obtain ⟨t4, r4, rfl, h4, hr4⟩ := hr3.cons_inv
  rw [hr4.nil_inv, h1.stringStart_inv, h4.stringEnd_inv, shapeMany_suppress _ _ h2.many_inv]
  obtain ⟨a1, a2, rfl, ha1, ha2⟩ := h3.many1_inv
  obtain ⟨tss, rfl, hs⟩ := shapeMany_flat _ a2 ha2
  intro t ht
  simp only [List.nil_append, List.append_nil, List.mem_append] at ht
  rcases ht with ht | ht
  · obtain ⟨t', rfl, hv⟩ := ssw_stmt_shape ha1
    simp at ht; rw [ht]; exact hv
  · obtain ⟨x, hx, htx⟩ := List.mem_flatten.mp ht
    obtain ⟨t', rfl, hv⟩ := ssw_stmt_shape (hs x hx)
    simp at htx; rw [htx]; exact hv

end Dsd.PP
