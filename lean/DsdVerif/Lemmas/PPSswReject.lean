/-
Rejection of malformed seesaw statements with blanks at every token boundary (C19, negative clauses): the statement
alternatives FAIL on every stream with the tokens of a reporter with one / three arguments, a seesaw gate without
output list, an inputfanout without its second number / its list, a concentration with a minus sign; and a document
that contains such a statement — after any well-formed statements, before anything — is rejected.
-/
import DsdVerif.Lemmas.PPSswStreamKinds
import DsdVerif.Lemmas.PPSswDoc

namespace Dsd.PP.Ssw
open Dsd.PP Dsd.Gen

variable {env : Env}

section
variable {g : G} {gs : List G} {toks1 toks2 : List (List Char)} {t : List Char} {t1 : List Tree}
  {F1 : List Char → Prop} {b1 b2 : Nat}

/-- a sequence fails in its tail; the head may need a proper continuation -/
theorem failons_tailF (h1 : Comp env g toks1 t1 F1 b1) (h2 : FailOnSeq env gs toks2 b2) (hF : Follow toks2 Any F1) :
    FailOnSeq env (g :: gs) (toks1 ++ toks2) (max b1 b2 + 1) := by
  intro S R hS
  obtain ⟨S1, S2, rfl, hS1, hS2⟩ := map_snd_append hS
  rw [txt_append]
  exact evs_fail_tail (h1 S1 (txt S2 R) hS1 (hF S2 R hS2 trivial)) (h2 S2 R hS2)

theorem failons_tailF1 (h1 : Comp env g [t] t1 F1 b1) (h2 : FailOnSeq env gs toks2 b2) (hF : Follow toks2 Any F1) :
    FailOnSeq env (g :: gs) (t :: toks2) (max b1 b2 + 1) := failons_tailF h1 h2 hF
end

/-- the statement alternatives fail on `t0` followed by any stream with the tokens `toks` -/
def StmtFail (env : Env) (t0 : List Char) (toks : List (List Char)) (b : Nat) : Prop :=
  ∀ (S : Stream) (R : List Char), S.map Prod.snd = toks → Ev env sk (.alt bodyAlts) (P (t0 ++ txt S R)) none b

theorem lit_ok {c : Char} (h1 : isWs c = false) (h2 : c ≠ '#') {q : Char → Prop} (h3 : q c) (s : List Char) :
    Hd (c :: s) q := hd_mk c s q h1 h2 h3

/-! ### reporter with one or three arguments -/

theorem reporter1_fail (n : List Char) (hn : Dig n) :
    StmtFail env ['r', 'e', 'p', 'o', 'r', 't', 'e', 'r'] [['['], n, [']']] 30 := by
  intro S R hS
  have hrep : FailOn env ssw_reporter (['r', 'e', 'p', 'o', 'r', 't', 'e', 'r'] :: [['['], n, [']']]) 12 := by
    unfold ssw_reporter
    apply FailOn.cast
    · apply failon_seq
      apply failons_tail1 (comp_lit 'r' ['e', 'p', 'o', 'r', 't', 'e', 'r'] (by decide) (by decide))
      apply failons_tail1 (comp_sup '[' [] (by decide) (by decide))
      apply failons_head
      apply failon_group; apply failon_seq
      apply failons_tailF1 (comp_number n hn) (hF := by fol)
      apply failons_head
      exact failon_suppress (failon_lit ',' [] [']'] [] (hd_mk ']' [] _ (by decide) (by decide) (by decide)))
    · decide
  unfold bodyAlts
  apply Ev.cast
  · apply ev_alt
    apply eva_skip (g := ssw_inp) (by fh)
    apply eva_skip (g := ssw_out) (by fh)
    apply eva_skip (g := ssw_seesaw) (by fh)
    apply eva_skip (g := ssw_wireconc) (by fh)
    apply eva_skip (g := ssw_outpconc) (by fh)
    apply eva_skip (g := ssw_thshconc) (by fh)
    apply eva_skip
    · unfold ssw_macros
      apply ev_alt
      apply eva_skip (top_fail hrep S R hS)
      apply eva_skip (g := ssw_inputfanout) (by fh)
      apply eva_skip (g := ssw_seesawOR) (by fh)
      apply eva_skip (g := ssw_seesawAND) (by fh)
      exact eva_nil
    exact eva_nil
  · rfl
  · decide

theorem reporter3_fail (a b c : List Char) (ha : Dig a) (hb : Dig b) :
    StmtFail env ['r', 'e', 'p', 'o', 'r', 't', 'e', 'r'] (['['] :: ([a, [','], b] ++ [[','], c, [']']])) 30 := by
  intro S R hS
  have hrep : FailOn env ssw_reporter
      (['r', 'e', 'p', 'o', 'r', 't', 'e', 'r'] :: ['['] :: ([a, [','], b] ++ [[','], c, [']']])) 16 := by
    unfold ssw_reporter
    apply FailOn.cast
    · apply failon_seq
      apply failons_tail1 (comp_lit 'r' ['e', 'p', 'o', 'r', 't', 'e', 'r'] (by decide) (by decide))
      apply failons_tail1 (comp_sup '[' [] (by decide) (by decide))
      apply failons_tailF (toks1 := [a, [','], b]) (F1 := Brk) (hF := by fol)
      · apply comp_group; apply comp_seq
        apply comps_cons1 (comp_number a ha) (hF := by fol)
        apply comps_cons1 (comp_sup ',' [] (by decide) (by decide)) (hF := by fol)
        exact comps_single (comp_number b hb)
      · apply failons_head
        exact failon_suppress (failon_lit ']' [] [','] _ (hd_mk ',' [] _ (by decide) (by decide) (by decide)))
    · decide
  unfold bodyAlts
  apply Ev.cast
  · apply ev_alt
    apply eva_skip (g := ssw_inp) (by fh)
    apply eva_skip (g := ssw_out) (by fh)
    apply eva_skip (g := ssw_seesaw) (by fh)
    apply eva_skip (g := ssw_wireconc) (by fh)
    apply eva_skip (g := ssw_outpconc) (by fh)
    apply eva_skip (g := ssw_thshconc) (by fh)
    apply eva_skip
    · unfold ssw_macros
      apply ev_alt
      apply eva_skip (top_fail hrep S R hS)
      apply eva_skip (g := ssw_inputfanout) (by fh)
      apply eva_skip (g := ssw_seesawOR) (by fh)
      apply eva_skip (g := ssw_seesawAND) (by fh)
      exact eva_nil
    exact eva_nil
  · rfl
  · decide

/-! ### inputfanout without its second number / without its list -/

theorem fanout_macros_fail (toks : List (List Char)) (b : Nat)
    (hf : FailOn env ssw_inputfanout (['i', 'n', 'p', 'u', 't', 'f', 'a', 'n', 'o', 'u', 't'] :: toks) b) :
    StmtFail env ['i', 'n', 'p', 'u', 't', 'f', 'a', 'n', 'o', 'u', 't'] toks (b + 20) := by
  intro S R hS
  unfold bodyAlts
  apply Ev.cast
  · apply ev_alt
    apply eva_skip (g := ssw_inp) (by fh)
    apply eva_skip (g := ssw_out) (by fh)
    apply eva_skip (g := ssw_seesaw) (by fh)
    apply eva_skip (g := ssw_wireconc) (by fh)
    apply eva_skip (g := ssw_outpconc) (by fh)
    apply eva_skip (g := ssw_thshconc) (by fh)
    apply eva_skip
    · unfold ssw_macros
      apply ev_alt
      apply eva_skip (g := ssw_reporter) (by fh)
      apply eva_skip (top_fail hf S R hS)
      apply eva_skip (g := ssw_seesawOR) (by fh)
      apply eva_skip (g := ssw_seesawAND) (by fh)
      exact eva_nil
    exact eva_nil
  · rfl
  · omega

/-- `inputfanout [ a , { x… } ]` -/
theorem fanout_no_number_fail (a x0 : List Char) (xs : List (List Char)) (ha : Dig a) :
    StmtFail env ['i', 'n', 'p', 'u', 't', 'f', 'a', 'n', 'o', 'u', 't']
      (['['] :: a :: [','] :: (braceToks x0 xs ++ [[']']])) 40 := by
  refine fun S R hS => (fanout_macros_fail _ 12 ?_ S R hS).cast rfl (by decide)
  unfold ssw_inputfanout braceToks
  apply FailOn.cast
  · apply failon_seq
    apply failons_tail1 (comp_lit 'i' ['n', 'p', 'u', 't', 'f', 'a', 'n', 'o', 'u', 't'] (by decide) (by decide))
    apply failons_tail1 (comp_sup '[' [] (by decide) (by decide))
    apply failons_head
    apply failon_group; apply failon_seq
    apply failons_tailF1 (comp_number a ha) (hF := by fol)
    apply failons_tail1 (comp_sup ',' [] (by decide) (by decide))
    apply failons_head
    exact failon_number ['{'] _ (hd_mk '{' [] _ (by decide) (by decide) (by decide))
  · decide

/-- `inputfanout [ a , b ]` -/
theorem fanout_no_list_fail (a b : List Char) (ha : Dig a) (hb : Dig b) :
    StmtFail env ['i', 'n', 'p', 'u', 't', 'f', 'a', 'n', 'o', 'u', 't'] [['['], a, [','], b, [']']] 40 := by
  refine fun S R hS => (fanout_macros_fail _ 14 ?_ S R hS).cast rfl (by decide)
  unfold ssw_inputfanout
  apply FailOn.cast
  · apply failon_seq
    apply failons_tail1 (comp_lit 'i' ['n', 'p', 'u', 't', 'f', 'a', 'n', 'o', 'u', 't'] (by decide) (by decide))
    apply failons_tail1 (comp_sup '[' [] (by decide) (by decide))
    apply failons_head
    apply failon_group; apply failon_seq
    apply failons_tailF1 (comp_number a ha) (hF := by fol)
    apply failons_tail1 (comp_sup ',' [] (by decide) (by decide))
    apply failons_tailF1 (comp_number b hb) (hF := by fol)
    apply failons_head
    exact failon_suppress (failon_lit ',' [] [']'] [] (hd_mk ']' [] _ (by decide) (by decide) (by decide)))
  · decide

/-! ### seesaw without its output list -/

theorem strip_fail_after (s : List Char) (c c' : Char) (s' r : List Char) (h : c' ≠ c) :
    stripPrefix (s ++ c' :: s') (s ++ c :: r) = none := by
  induction s with
  | nil => simp [stripPrefix, h]
  | cons a s ih => simp [stripPrefix, ih]

theorem txt_head (k : Nat) (c0 : Char) (t : List Char) (S : Stream) (R : List Char) :
    ∃ c r, txt ((k, c0 :: t) :: S) R = c :: r ∧ (c = c0 ∨ c = ' ') := by
  cases k with
  | zero => exact ⟨c0, t ++ txt S R, rfl, Or.inl rfl⟩
  | succ k => exact ⟨' ', bl k ++ (c0 :: t ++ txt S R), by simp [txt, List.replicate_succ], Or.inr rfl⟩

/-- `seesaw [ n , { i… } ]` -/
theorem seesaw_no_outputs_fail (n i0 : List Char) (is : List (List Char)) (hn : Dig n) (hi0 : Dig i0)
    (his : ∀ y ∈ is, Dig y) :
    StmtFail env ['s', 'e', 'e', 's', 'a', 'w'] (['['] :: n :: [','] :: (braceToks i0 is ++ [[']']]))
      (is.length + 50) := by
  intro S R hS
  have hsee : FailOn env ssw_seesaw
      (['s', 'e', 'e', 's', 'a', 'w'] :: ['['] :: n :: [','] :: (braceToks i0 is ++ [[']']])) (is.length + 30) := by
    unfold ssw_seesaw
    apply FailOn.cast
    · apply failon_seq
      apply failons_tail1 (comp_lit 's' ['e', 'e', 's', 'a', 'w'] (by decide) (by decide))
      apply failons_tail1 (comp_sup '[' [] (by decide) (by decide))
      apply failons_head
      apply failon_group; apply failon_seq
      apply failons_tailF1 (comp_number n hn) (hF := by fol)
      apply failons_tail1 (comp_sup ',' [] (by decide) (by decide))
      apply failons_tail (comp_inputs i0 is hi0 his)
      apply failons_head
      exact failon_suppress (failon_lit ',' [] [']'] [] (hd_mk ']' [] _ (by decide) (by decide) (by decide)))
    · omega
  obtain ⟨k, S', rfl, _⟩ := map_snd_cons hS
  obtain ⟨c, r, hcr, hc⟩ := txt_head k '[' [] S' R
  have hOR : Ev env sk ssw_seesawOR (P (['s', 'e', 'e', 's', 'a', 'w'] ++ txt ((k, ['[']) :: S') R)) none 2 := by
    rw [hcr]
    refine fail_strip _ _ 's' _ (by decide) (by decide) ?_
    refine strip_fail_after ['s', 'e', 'e', 's', 'a', 'w'] c 'O' ['R'] r ?_
    rcases hc with rfl | rfl <;> decide
  have hAND : Ev env sk ssw_seesawAND (P (['s', 'e', 'e', 's', 'a', 'w'] ++ txt ((k, ['[']) :: S') R)) none 2 := by
    rw [hcr]
    refine fail_strip _ _ 's' _ (by decide) (by decide) ?_
    refine strip_fail_after ['s', 'e', 'e', 's', 'a', 'w'] c 'A' ['N', 'D'] r ?_
    rcases hc with rfl | rfl <;> decide
  unfold bodyAlts
  apply Ev.cast
  · apply ev_alt
    apply eva_skip (g := ssw_inp) (by fh)
    apply eva_skip (g := ssw_out) (by fh)
    apply eva_skip (top_fail hsee ((k, ['[']) :: S') R hS)
    apply eva_skip (g := ssw_wireconc) (by fh)
    apply eva_skip (g := ssw_outpconc) (by fh)
    apply eva_skip (g := ssw_thshconc) (by fh)
    apply eva_skip
    · unfold ssw_macros
      apply ev_alt
      apply eva_skip (g := ssw_reporter) (by fh)
      apply eva_skip (g := ssw_inputfanout) (by fh)
      apply eva_skip hOR
      apply eva_skip hAND
      exact eva_nil
    exact eva_nil
  · rfl
  · omega

/-! ### a minus sign in front of the concentration -/

theorem failon_conc_minus (s : List Char) (toks : List (List Char)) : FailOn env ssw_conc (('-' :: s) :: toks) 10 := by
  intro S R hS
  obtain ⟨k, S', rfl, _⟩ := map_snd_cons hS
  unfold ssw_conc
  exact (ev_seq (evs_fail_head (ev_gorf_fail k (s ++ txt S' R)))).cast rfl (by decide)

/-- `conc [ X , - …`: the alternative whose first argument matches fails at the sign -/
theorem failon_concG_minus (X : G) (TX : List (List Char)) (tx : List Tree) (bx : Nat)
    (hX : Comp env X TX tx Brk bx) (s : List Char) (more : List (List Char)) :
    FailOn env (concG X) (['c', 'o', 'n', 'c'] :: ['['] :: (TX ++ ([','] :: ('-' :: s) :: more))) (max bx 10 + 8) := by
  unfold concG
  apply FailOn.cast
  · apply failon_seq
    apply failons_tail1 (comp_lit 'c' ['o', 'n', 'c'] (by decide) (by decide))
    apply failons_tail1 (comp_sup '[' [] (by decide) (by decide))
    apply failons_tailF hX (hF := by fol)
    apply failons_tail1 (comp_sup ',' [] (by decide) (by decide))
    exact failons_head (failon_conc_minus s more)
  · omega

/-- `[ X , - v * c ]` -/
def negTail (TX : List (List Char)) (v : List Char) : List (List Char) :=
  ['['] :: (TX ++ ([','] :: ['-'] :: (concToks v ++ [[']']])))

/-- `conc [ X , - v * c ]` is rejected for every form of `X`, whatever `v` -/
theorem negconc_stream_fail {TX : List (List Char)} {tx : Tree} (hX : ConcArg TX tx) (v : List Char) :
    StmtFail env ['c', 'o', 'n', 'c'] (negTail TX v) 60 := by
  intro S R hS
  unfold negTail at hS
  have hgO : ∀ (t : List Char) (toks : List (List Char)), Hd t (fun c => 'g' ≠ c) →
      FailOn env (.alt [ssw_gateO, ssw_gateI]) (t :: toks) 6 := fun t toks h =>
    (failon_alt (failona_cons (g := ssw_gateO) (failon_gate_head 'g' [] ssw_wire ssw_number t toks h)
      (failona_cons (g := ssw_gateI) (failon_gate_head 'g' [] ssw_number ssw_wire t toks h) failona_nil))).cast
      (by decide)
  have hthO : ∀ (t : List Char) (toks : List (List Char)), Hd t (fun c => 't' ≠ c) →
      FailOn env (.alt [ssw_thshO, ssw_thshI]) (t :: toks) 6 := fun t toks h =>
    (failon_alt (failona_cons (g := ssw_thshO) (failon_gate_head 't' ['h'] ssw_wire ssw_number t toks h)
      (failona_cons (g := ssw_thshI) (failon_gate_head 't' ['h'] ssw_number ssw_wire t toks h) failona_nil))).cast
      (by decide)
  have hwireN : ∀ (n : List Char) (toks : List (List Char)), Dig n → FailOn env ssw_wire (n :: toks) 3 :=
    fun n toks hn => failon_wire n toks (hd_dig hn _ (by decide))
  have fin : ∀ (b1 b2 b3 : Nat),
      Ev env sk ssw_wireconc (P (['c', 'o', 'n', 'c'] ++ txt S R)) none b1 →
      Ev env sk ssw_outpconc (P (['c', 'o', 'n', 'c'] ++ txt S R)) none b2 →
      Ev env sk ssw_thshconc (P (['c', 'o', 'n', 'c'] ++ txt S R)) none b3 →
      b1 ≤ 50 → b2 ≤ 50 → b3 ≤ 50 →
      Ev env sk (.alt bodyAlts) (P (['c', 'o', 'n', 'c'] ++ txt S R)) none 60 := by
    intro b1 b2 b3 h1 h2 h3 l1 l2 l3
    unfold bodyAlts
    apply Ev.cast
    · apply ev_alt
      apply eva_skip (g := ssw_inp) (by fh)
      apply eva_skip (g := ssw_out) (by fh)
      apply eva_skip (g := ssw_seesaw) (by fh)
      apply eva_skip h1
      apply eva_skip h2
      apply eva_skip h3
      apply eva_skip (g := ssw_macros)
      · unfold ssw_macros
        apply ev_alt
        apply eva_skip (g := ssw_reporter) (by fh)
        apply eva_skip (g := ssw_inputfanout) (by fh)
        apply eva_skip (g := ssw_seesawOR) (by fh)
        apply eva_skip (g := ssw_seesawAND) (by fh)
        exact eva_nil
      exact eva_nil
    · rfl
    · omega
  have hw : Hd ['w'] (fun c => 'g' ≠ c) := hd_mk 'w' [] _ (by decide) (by decide) (by decide)
  have hw' : Hd ['w'] (fun c => 't' ≠ c) := hd_mk 'w' [] _ (by decide) (by decide) (by decide)
  have hg : Hd ['g'] (fun c => 'w' ≠ c) := hd_mk 'g' [] _ (by decide) (by decide) (by decide)
  have hg' : Hd ['g'] (fun c => 't' ≠ c) := hd_mk 'g' [] _ (by decide) (by decide) (by decide)
  have ht : Hd ['t', 'h'] (fun c => 'w' ≠ c) := hd_mk 't' ['h'] _ (by decide) (by decide) (by decide)
  have ht' : Hd ['t', 'h'] (fun c => 'g' ≠ c) := hd_mk 't' ['h'] _ (by decide) (by decide) (by decide)
  cases hX with
  | wire a b ha hb =>
    exact fin _ _ _
      (top_fail (env := env) (failon_concG_minus ssw_wire _ _ _ (comp_wire a b ha hb).brk [] _) S R hS)
      (top_fail (env := env) (failon_concG (.alt [ssw_gateO, ssw_gateI]) _ _ (hgO ['w'] _ hw)) S R hS)
      (top_fail (env := env) (failon_concG (.alt [ssw_thshO, ssw_thshI]) _ _ (hthO ['w'] _ hw')) S R hS)
      (by decide) (by decide) (by decide)
  | gateO a b n ha hb hn =>
    have hgate : Comp env ssw_gateO _ _ Any _ := comp_gate 'g' [] (by decide) (by decide) ssw_wire ssw_number
      _ _ _ _ _ _ (comp_wire a b ha hb).brk (comp_number n hn)
    exact fin _ _ _
      (top_fail (env := env) (failon_concG ssw_wire _ _ (failon_wire ['g'] _ hg)) S R hS)
      (top_fail (env := env) (failon_concG_minus (.alt [ssw_gateO, ssw_gateI]) _ _ _
        (comp_alt (compa_ok hgate)).brk [] _) S R hS)
      (top_fail (env := env) (failon_concG (.alt [ssw_thshO, ssw_thshI]) _ _ (hthO ['g'] _ hg')) S R hS)
      (by decide) (by decide) (by decide)
  | gateI a b n ha hb hn =>
    have hgate : Comp env ssw_gateI _ _ Any _ := comp_gate 'g' [] (by decide) (by decide) ssw_number ssw_wire
      _ _ _ _ _ _ (comp_number n hn) (comp_wire a b ha hb).brk
    have hgf : FailOn env ssw_gateO (gateToks ['g'] [n] (wireToks a b)) _ :=
      failon_gate_A 'g' [] (by decide) (by decide) ssw_wire ssw_number _ _ (hwireN n _ hn)
    exact fin _ _ _
      (top_fail (env := env) (failon_concG ssw_wire _ _ (failon_wire ['g'] _ hg)) S R hS)
      (top_fail (env := env) (failon_concG_minus (.alt [ssw_gateO, ssw_gateI]) _ _ _
        (comp_alt (compa_skip hgf (compa_ok hgate))).brk [] _) S R hS)
      (top_fail (env := env) (failon_concG (.alt [ssw_thshO, ssw_thshI]) _ _ (hthO ['g'] _ hg')) S R hS)
      (by decide) (by decide) (by decide)
  | thO a b n ha hb hn =>
    have hgate : Comp env ssw_thshO _ _ Any _ := comp_gate 't' ['h'] (by decide) (by decide) ssw_wire ssw_number
      _ _ _ _ _ _ (comp_wire a b ha hb).brk (comp_number n hn)
    exact fin _ _ _
      (top_fail (env := env) (failon_concG ssw_wire _ _ (failon_wire ['t', 'h'] _ ht)) S R hS)
      (top_fail (env := env) (failon_concG (.alt [ssw_gateO, ssw_gateI]) _ _ (hgO ['t', 'h'] _ ht')) S R hS)
      (top_fail (env := env) (failon_concG_minus (.alt [ssw_thshO, ssw_thshI]) _ _ _
        (comp_alt (compa_ok hgate)).brk [] _) S R hS)
      (by decide) (by decide) (by decide)
  | thI a b n ha hb hn =>
    have hgate : Comp env ssw_thshI _ _ Any _ := comp_gate 't' ['h'] (by decide) (by decide) ssw_number ssw_wire
      _ _ _ _ _ _ (comp_number n hn) (comp_wire a b ha hb).brk
    have hgf : FailOn env ssw_thshO (gateToks ['t', 'h'] [n] (wireToks a b)) _ :=
      failon_gate_A 't' ['h'] (by decide) (by decide) ssw_wire ssw_number _ _ (hwireN n _ hn)
    exact fin _ _ _
      (top_fail (env := env) (failon_concG ssw_wire _ _ (failon_wire ['t', 'h'] _ ht)) S R hS)
      (top_fail (env := env) (failon_concG (.alt [ssw_gateO, ssw_gateI]) _ _ (hgO ['t', 'h'] _ ht')) S R hS)
      (top_fail (env := env) (failon_concG_minus (.alt [ssw_thshO, ssw_thshI]) _ _ _
        (comp_alt (compa_skip hgf (compa_ok hgate))).brk [] _) S R hS)
      (by decide) (by decide) (by decide)

end Dsd.PP.Ssw
