/-
End-to-end reading of declared systems (C14, "sigma" theorems), part 14: reactions — look-ups of members, creating a
reaction, generic reader steps.
-/
import DsdVerif.Lemmas.ReaderSigmaMacroAttr

namespace Dsd.Sig
open Dsd Dsd.PP Dsd.RState

/-! ### looking macrostates up by name; member keys -/

/-- `Macrostate(None, name)` for a live, held macrostate leaves the world as it is -/
theorem mkMacro_lookup_gen (w : World) (cm : Nat) (hcm : cm < 4) (mobjs : List (Obj MKey))
    (hm : w.macros = setObjs baseMacros cm mobjs) (n : String) (o : Obj MKey)
    (h1 : Reg.findName ({ objs := mobjs, autoId := 1 } : Reg MKey) n = some o) (hheld : o.id ∈ w.held) :
    w.mkMacro cm none (some n) = (w, .ret o.id false) := by
  obtain ⟨cr0, h0, _⟩ := baseMacros_get cm hcm
  have hget := setObjs_get baseMacros cm mobjs cr0 h0
  rw [ReaderL.mkMacro_none w cm n _ (by rw [hm]; exact hget)]
  simp only [hm, effId_macros cm hcm]
  have hcall : Reg.call ({ objs := mobjs, autoId := 1 } : Reg MKey) none (some n) w.nextId [] false =
      ({ objs := mobjs, autoId := 1 }, .ret o.id false) := by
    simp [Reg.call, Reg.decide, h1]
  rw [hcall]
  simp only
  rw [setObjs_upd_macros cm hcm mobjs mobjs _ hget]
  have hc : w.held.contains o.id = true := by simpa using hheld
  simp only [World.settle, hc, if_true, ← hm]

theorem macroObj_gen (w : World) (cm : Nat) (hcm : cm < 4) (mobjs : List (Obj MKey))
    (hm : w.macros = setObjs baseMacros cm mobjs) (id : Nat) (ch : List Nat) (o : Obj MKey)
    (hn : w.nodes.find? (fun n => n.id == id) = some (macroNode id cm ch))
    (ho : mobjs.find? (fun x => x.id == id) = some o) :
    w.macroObj id = some (cm, o) ∧ w.cplxObj id = none := by
  obtain ⟨cr0, h0, _⟩ := baseMacros_get cm hcm
  have hget := setObjs_get baseMacros cm mobjs cr0 h0
  have hnode : w.node id = some (macroNode id cm ch) := hn
  constructor
  · unfold World.macroObj
    rw [hnode]
    simp only [macroNode, if_true, hm, hget, Option.bind_some, Reg.findId, ho, Option.map_some]
  · unfold World.cplxObj
    rw [hnode]
    simp [macroNode]

theorem memberKey_cplx (w : World) (id : Nat) (c : Nat) (o : Obj CKey) (h : w.cplxObj id = some (c, o)) :
    w.memberKey id = some (o.name, .c o.canon) := by
  unfold World.memberKey; rw [h]

theorem memberKey_macro (w : World) (id : Nat) (c : Nat) (o : Obj MKey) (h1 : w.cplxObj id = none)
    (h2 : w.macroObj id = some (c, o)) : w.memberKey id = some (o.name, .m o.canon) := by
  unfold World.memberKey; rw [h1, h2]; rfl

/-! ### creating a reaction -/

/-- reactants / products in the model's order -/
def sortMem (l : List (String × MemKey)) : List (String × MemKey) := sortBy (fun a b => memLt a.2 b.2) l

def rxnCanonOf (rs ps : List (String × MemKey)) (ty : String) : RKey :=
  ((sortMem rs).map (·.2), (sortMem ps).map (·.2), some ty)

/-- the automatic name `[type] r1 + r2 -> p1 + p2` -/
def rxnNameOf (rs ps : List (String × MemKey)) (ty : String) : String :=
  "[" ++ ty ++ "] " ++ " + ".intercalate ((sortMem rs).map (·.1)) ++ " -> " ++ " + ".intercalate ((sortMem ps).map (·.1))

def newRxn (id : Nat) (rs ps : List (String × MemKey)) (ty : String) : Obj RKey :=
  { id := id, name := rxnNameOf rs ps ty, canon := rxnCanonOf rs ps ty, keys := [rxnCanonOf rs ps ty] }

def rxnNode (id c : Nat) (children : List Nat) : Node := { id := id, kind := .rxn, cls := c, children := children }

theorem reactionRequest_eq (r : Reg RKey) (fresh : Nat) (rs ps : List (String × MemKey)) (ty : String) :
    reactionRequest r fresh (some rs) (some ps) (some ty) none =
      ((r.call (some (rxnCanonOf rs ps ty)) (some (rxnNameOf rs ps ty)) fresh [rxnCanonOf rs ps ty] false).1,
       (r.call (some (rxnCanonOf rs ps ty)) (some (rxnNameOf rs ps ty)) fresh [rxnCanonOf rs ps ty] false).2,
       some ((sortMem rs).map (·.1), (sortMem ps).map (·.1))) := rfl

theorem mkRxn_create (w : World) (cr : Nat) (hcr : cr < 4) (robjs : List (Obj RKey))
    (hr : w.rxns = setObjs baseRxns cr robjs) (rids pids : List Nat) (rs ps : List (String × MemKey))
    (hrs : rids.filterMap w.memberKey = rs) (hps : pids.filterMap w.memberKey = ps) (ty : String)
    (h1 : ∀ o ∈ robjs, o.name ≠ rxnNameOf rs ps ty) (h2 : ∀ o ∈ robjs, rxnCanonOf rs ps ty ∉ o.keys) :
    w.mkRxn cr (some rids) (some pids) (some ty) none =
      ({ w with rxns := setObjs baseRxns cr (robjs ++ [newRxn w.nextId rs ps ty]),
                nodes := w.nodes ++ [rxnNode w.nextId cr (rids ++ pids)],
                held := if w.held.contains w.nextId then w.held else w.held ++ [w.nextId],
                nextId := w.nextId + 1 }, .ret w.nextId true,
       some ((sortMem rs).map (·.1), (sortMem ps).map (·.1))) := by
  obtain ⟨cr0, h0, _⟩ := baseRxns_get cr hcr
  have hget := setObjs_get baseRxns cr robjs cr0 h0
  have f1 := findName_none_of ({ objs := robjs, autoId := 1 } : Reg RKey) _ h1
  have f2 := findCanon_none_of ({ objs := robjs, autoId := 1 } : Reg RKey) _ h2
  have hcall : Reg.call ({ objs := robjs, autoId := 1 } : Reg RKey) (some (rxnCanonOf rs ps ty))
      (some (rxnNameOf rs ps ty)) w.nextId [rxnCanonOf rs ps ty] false =
      (Reg.register { objs := robjs, autoId := 1 } (newRxn w.nextId rs ps ty) false, .ret w.nextId true) := by
    simp [Reg.call, Reg.decide, f1, f2, newRxn]
  unfold World.mkRxn
  simp only [hr, hget, Option.map_some, hrs, hps, reactionRequest_eq, hcall, Option.getD_some]
  simp only [Reg.register, Bool.false_eq_true, if_false]
  rw [setObjs_set_rxns cr hcr robjs _ _ hget]
  rfl

/-- a reaction that is already registered is returned; the world does not change -/
theorem mkRxn_existing (w : World) (cr : Nat) (hcr : cr < 4) (robjs : List (Obj RKey))
    (hr : w.rxns = setObjs baseRxns cr robjs) (rids pids : List Nat) (rs ps : List (String × MemKey))
    (hrs : rids.filterMap w.memberKey = rs) (hps : pids.filterMap w.memberKey = ps) (ty : String) (o : Obj RKey)
    (h1 : Reg.findName ({ objs := robjs, autoId := 1 } : Reg RKey) (rxnNameOf rs ps ty) = some o)
    (h2 : Reg.findCanon ({ objs := robjs, autoId := 1 } : Reg RKey) (rxnCanonOf rs ps ty) = some o)
    (hheld : o.id ∈ w.held) :
    w.mkRxn cr (some rids) (some pids) (some ty) none =
      (w, .ret o.id false, some ((sortMem rs).map (·.1), (sortMem ps).map (·.1))) := by
  obtain ⟨cr0, h0, _⟩ := baseRxns_get cr hcr
  have hget := setObjs_get baseRxns cr robjs cr0 h0
  have hcall : Reg.call ({ objs := robjs, autoId := 1 } : Reg RKey) (some (rxnCanonOf rs ps ty))
      (some (rxnNameOf rs ps ty)) w.nextId [rxnCanonOf rs ps ty] false =
      ({ objs := robjs, autoId := 1 }, .ret o.id false) := by
    simp [Reg.call, Reg.decide, h1, h2]
  unfold World.mkRxn
  simp only [hr, hget, Option.map_some, hrs, hps, reactionRequest_eq, hcall, Option.getD_some]
  rw [setObjs_set_rxns cr hcr robjs _ _ hget]
  have hc : w.held.contains o.id = true := by simpa using hheld
  simp only [World.settle, hc, if_true, ← hr]

/-! ### generic reader steps for a reaction line -/

def rxnLine (ty rate units : String) (rs ps : List String) : List Tree :=
  [.tok "reaction", .grp [.grp [.tok ty], .grp [.tok rate], .grp [.tok units]], .grp (rs.map Tree.tok),
    .grp (ps.map Tree.tok)]

/-- the look-up function `read_reaction` uses for the members -/
def lookFn (sl : Slots) (ty : String) : World → String → World × Out :=
  if (ty == "condensed") = true then (fun w n => w.mkMacro sl.macr none (some n))
  else (fun w n => let r := w.mkCplx sl.cplx none [] (some n) none; (r.1, r.2.1))

theorem readLine_rxn (s : RState) (sl : Slots) (ty rate units : String) (rs ps : List String)
    (hty : Gen.rtypes.contains ty = true) (rids pids : List Nat)
    (h1 : s.lookupAll (lookFn sl ty) rs = (s, .ok rids)) (h2 : s.lookupAll (lookFn sl ty) ps = (s, .ok pids))
    (w' : World) (id : Nat) (b : Bool) (x : Option (List String × List String))
    (h3 : s.w.mkRxn sl.rxn (some rids) (some pids) (some ty) none = (w', .ret id b, x)) :
    s.readLine sl (rxnLine ty rate units rs ps) =
      ({ s with w := w', rate := (s.rate.filter (fun p => p.1 != id)) ++ [(id, (rate, some units))] },
        .ok (.rxn id (ty == "condensed"))) := by
  unfold rxnLine readLine
  have e1 : (tokList [Tree.tok ty]).head? = some ty := rfl
  have e2 : (tokList [Tree.tok rate]).head? = some rate := rfl
  have e3 : (tokList [Tree.tok units]).head? = some units := rfl
  unfold lookFn at h1 h2
  simp only [tokList_map_tok, e1, e2, e3, hty, Option.getD_some, Bool.not_true, Bool.false_eq_true, if_false, h1, h2, h3]

/-- a reaction the reader ignores: no rate, or a missing / unknown type -/
theorem readLine_ignored (s : RState) (sl : Slots) (info rs ps : List Tree)
    (h : (match info with
          | [.grp ty, .grp ra, .grp _] =>
            (tokList ra).head? = none ∨ (match (tokList ty).head? with | some t => Gen.rtypes.contains t = false | none => True)
          | _ => True)) :
    s.readLine sl [.tok "reaction", .grp info, .grp rs, .grp ps] = (s, .ok .other) := by
  rcases info with _ | ⟨a, _ | ⟨b, _ | ⟨c, _ | ⟨d, l⟩⟩⟩⟩
  · rfl
  · cases a <;> rfl
  · cases a <;> cases b <;> rfl
  · cases a with
    | tok _ => rfl
    | grp ty =>
      cases b with
      | tok _ => rfl
      | grp ra =>
        cases c with
        | tok _ => rfl
        | grp un =>
          simp only at h
          unfold readLine
          simp only
          cases hra : (tokList ra).head? with
          | none => rfl
          | some r =>
            rw [hra] at h
            simp only [reduceCtorEq, false_or] at h
            cases hty : (tokList ty).head? with
            | none => simp
            | some t =>
              rw [hty] at h
              simp only at h
              simp
              intro hm
              simp [hm] at h
  · cases a <;> cases b <;> cases c <;> rfl

/-- filing a reaction: condensed ones under `con`, all others under `det`, each identity once -/
def putRxn (d : RDict) (id : Nat) (cond : Bool) : RDict :=
  if cond then { d with con := if d.con.contains id then d.con else d.con ++ [id] }
  else { d with det := if d.det.contains id then d.det else d.det ++ [id] }

theorem readDoc_rxn (s : RState) (sl : Slots) (before : List Nat) (line rest : List Tree) (d : RDict)
    (s1 : RState) (id : Nat) (cond : Bool) (hrl : s.readLine sl line = (s1, .ok (.rxn id cond))) :
    s.readDoc sl [] before (.grp line :: rest) d =
      (s1.keepOnly before (putRxn d id cond)).readDoc sl [] before rest (putRxn d id cond) := by
  conv => lhs; unfold readDoc
  simp only [kind_not_ignored, Bool.false_eq_true, if_false, hrl]
  cases cond <;> rfl

theorem readDoc_other (s : RState) (sl : Slots) (before : List Nat) (line rest : List Tree) (d : RDict)
    (hrl : s.readLine sl line = (s, .ok .other)) :
    s.readDoc sl [] before (.grp line :: rest) d =
      (s.keepOnly before { d with other := d.other + 1 }).readDoc sl [] before rest { d with other := d.other + 1 } := by
  conv => lhs; unfold readDoc
  simp only [kind_not_ignored, Bool.false_eq_true, if_false, hrl]

end Dsd.Sig
