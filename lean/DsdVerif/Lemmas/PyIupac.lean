import DsdVerif.Gen.PyIupac
import DsdVerif.Model.Iupac
import DsdVerif.Lemmas.PyStrandTable

/-!
The sequence-level functions of `dsdobjects/iupac_utils.py` as written in the source (`Gen/PyIupac.lean`, regenerated from the
source text statement by statement; the module-level tables are the constants of `Gen/IupacTables.lean`) compute what the
model `Model/Iupac.lean` computes, for EVERY input.  The model's error values are mapped to `Err`: a character outside a table
is `.fault "KeyError"`, incompatible constraints are `.fault "ConstraintError"` (`Err` has no constructors of its own for
these two), the length assertion is `.assertion`.
-/
namespace Dsd.PyEq
open Dsd Dsd.Iupac

/-- the `material` argument: the source tests `material == 'DNA'` and treats everything else as RNA -/
def material (m : String) : Material := if m == "DNA" then .dna else .rna

/-- the model's `none` is Python's KeyError -/
def keyErr {α} : Option α → Except Err α
  | some x => .ok x
  | none => .error (.fault "KeyError")

/-- the model's result type of `add_constraints` as a Python outcome (`returnsNone` does not occur: `ac_returns`) -/
def acOutcome : ACResult → Except Err (List Char)
  | .ok con => .ok con
  | .constraintError => .error (.fault "ConstraintError")
  | .keyError => .error (.fault "KeyError")
  | .lengthAssert => .error .assertion
  | .returnsNone => .error (.fault "translator:returnsNone")

/-! ### `d[k]` on a display with pairwise different keys -/

theorem lookup_first_last {β} (tbl : List (Char × β)) (c : Char) (h : (tbl.map (·.1)).Nodup) :
    tbl.lookup c = Iupac.lookup tbl c := by
  unfold Iupac.lookup
  induction tbl with
  | nil => rfl
  | cons kv rest ih =>
    obtain ⟨k, v⟩ := kv
    simp only [List.map_cons, List.nodup_cons] at h
    rw [List.reverse_cons, List.find?_append, List.lookup_cons]
    by_cases hc : c = k
    · subst hc
      have hnone : rest.reverse.find? (fun r => r.1 == c) = none := by
        rw [List.find?_eq_none]
        intro x hx hxc
        apply h.1
        have : x.1 = c := by simpa using hxc
        rw [← this]
        exact List.mem_map.mpr ⟨x, List.mem_reverse.mp hx, rfl⟩
      simp [hnone]
    · have h1 : (c == k) = false := by simp [hc]
      have h2 : ((k, v).1 == c) = false := by simp; exact fun e => hc e.symm
      rw [h1, ih h.2]
      simp only [List.find?_cons, h2, List.find?_nil, Option.or_none]

theorem dictGet_eq {β} (tbl : List (Char × β)) (c : Char) (h : (tbl.map (·.1)).Nodup) :
    Py.dictGet tbl c = keyErr (Iupac.lookup tbl c) := by
  rw [Py.dictGet, lookup_first_last tbl c h]
  cases Iupac.lookup tbl c <;> rfl

theorem nodup_wc_dna : (Gen.wc_complement_dna.map (·.1)).Nodup := by decide
theorem nodup_wc_rna : (Gen.wc_complement_rna.map (·.1)).Nodup := by decide
theorem nodup_wobble_dna : (Gen.wobble_complement_dna.map (·.1)).Nodup := by decide
theorem nodup_wobble_rna : (Gen.wobble_complement_rna.map (·.1)).Nodup := by decide
theorem nodup_bin : (Gen.iupac_bin.map (·.1)).Nodup := by decide

/-! ### `''.join([tbl[x] for x in sequence])` -/

theorem mapM_keyErr {α β} (f : α → Py.M β) (g : α → Option β) (l : List α) (h : ∀ x, f x = keyErr (g x)) :
    l.mapM f = keyErr (l.mapM g) := by
  induction l with
  | nil => rfl
  | cons x xs ih =>
    rw [List.mapM_cons, List.mapM_cons, h x, ih]
    cases g x with
    | none => rfl
    | some y =>
      cases List.mapM g xs with
      | none => rfl
      | some ys => rfl

theorem mapSeq_eq (tbl : List (Char × Char)) (h : (tbl.map (·.1)).Nodup) (s : List Char) :
    (List.mapM (fun x => Py.dictGet tbl x) s >>= fun r => pure (Py.strJoin [] (List.map (fun c => [c]) r)) : Py.M (List Char)) =
      keyErr (mapSeq tbl s) := by
  rw [mapM_keyErr _ (Iupac.lookup tbl) s (fun x => dictGet_eq tbl x h), mapSeq]
  cases List.mapM (Iupac.lookup tbl) s with
  | none => rfl
  | some r => simp [keyErr, bind, Except.bind, pure, Except.pure, strJoin_chars]

theorem material_dna (m : String) (h : (m == "DNA") = true) : material m = .dna := by simp [material, h]
theorem material_rna (m : String) (h : (m == "DNA") = false) : material m = .rna := by simp [material, h]

/-- **`complement` as written in the source is the model's `Iupac.complement`** (wobble table of the material, KeyError for
    a character outside it), for every text and every `material` -/
theorem complement_eq (s : List Char) (m : String) :
    Gen.py_complement s m = keyErr (Iupac.complement (material m) s) := by
  have hd := mapSeq_eq Gen.wobble_complement_dna nodup_wobble_dna s
  have hr := mapSeq_eq Gen.wobble_complement_rna nodup_wobble_rna s
  unfold Gen.py_complement Iupac.complement
  cases hm : m == "DNA" with
  | true => rw [material_dna m hm]; simpa [wobbleTable] using hd
  | false => rw [material_rna m hm]; simpa [wobbleTable] using hr

/-- **`wc_complement` as written in the source is the model's `Iupac.wcComplement`** -/
theorem wc_complement_eq (s : List Char) (m : String) :
    Gen.py_wc_complement s m = keyErr (Iupac.wcComplement (material m) s) := by
  have hd := mapSeq_eq Gen.wc_complement_dna nodup_wc_dna s
  have hr := mapSeq_eq Gen.wc_complement_rna nodup_wc_rna s
  unfold Gen.py_wc_complement Iupac.wcComplement
  cases hm : m == "DNA" with
  | true => rw [material_dna m hm]; simpa [wcTable] using hd
  | false => rw [material_rna m hm]; simpa [wcTable] using hr

/-- **`reverse_complement` as written in the source is the model's `Iupac.reverseComplement`** -/
theorem reverse_complement_eq (s : List Char) (m : String) :
    Gen.py_reverse_complement s m = keyErr (Iupac.reverseComplement (material m) s) := by
  have hd := mapSeq_eq Gen.wobble_complement_dna nodup_wobble_dna s.reverse
  have hr := mapSeq_eq Gen.wobble_complement_rna nodup_wobble_rna s.reverse
  unfold Gen.py_reverse_complement Iupac.reverseComplement
  cases hm : m == "DNA" with
  | true => rw [material_dna m hm]; simpa [wobbleTable] using hd
  | false => rw [material_rna m hm]; simpa [wobbleTable] using hr

/-- **`reverse_wc_complement` as written in the source is the model's `Iupac.reverseWcComplement`** -/
theorem reverse_wc_complement_eq (s : List Char) (m : String) :
    Gen.py_reverse_wc_complement s m = keyErr (Iupac.reverseWcComplement (material m) s) := by
  have hd := mapSeq_eq Gen.wc_complement_dna nodup_wc_dna s.reverse
  have hr := mapSeq_eq Gen.wc_complement_rna nodup_wc_rna s.reverse
  unfold Gen.py_reverse_wc_complement Iupac.reverseWcComplement
  cases hm : m == "DNA" with
  | true => rw [material_dna m hm]; simpa [wcTable] using hd
  | false => rw [material_rna m hm]; simpa [wcTable] using hr

/-! ### `add_constraints` -/

/-- one position of the source's comprehension: `bin_iupac[iupac_bin[x] & iupac_bin[y]]` (a str) -/
def pyMeet (tbl : List String) (c1 : Char × Char) : Py.M String :=
  (do let x := c1.1; let y := c1.2; pure (← Py.idx tbl ((← Py.dictGet Gen.iupac_bin x) &&& (← Py.dictGet Gen.iupac_bin y))))

theorem bin_values_lt : ∀ r ∈ Gen.iupac_bin, r.2 < 16 := by decide

theorem lookup_bin_lt (x : Char) (a : Nat) (h : Iupac.lookup Gen.iupac_bin x = some a) : a < 16 := by
  unfold Iupac.lookup at h
  obtain ⟨r, hr, rfl⟩ := Option.map_eq_some_iff.mp h
  exact bin_values_lt r (List.mem_reverse.mp (List.mem_of_find?_eq_some hr))

theorem pyMeet_eq (m : Material) (p : Char × Char) :
    (pyMeet (binTable m) p).map String.toList = keyErr (meet m p.1 p.2) := by
  unfold pyMeet meet
  simp only [dictGet_eq _ _ nodup_bin, bind, Except.bind]
  cases hx : Iupac.lookup Gen.iupac_bin p.1 with
  | none => rfl
  | some a =>
    cases hy : Iupac.lookup Gen.iupac_bin p.2 with
    | none => rfl
    | some b =>
      have ha := lookup_bin_lt _ _ hx
      have hab : a &&& b < 16 := Nat.lt_of_le_of_lt Nat.and_le_left ha
      have hlen : (binTable m).length = 16 := by cases m <;> rfl
      simp only [keyErr, Option.bind, Py.idx, List.getElem?_eq_getElem (hlen ▸ hab)]
      rfl

theorem mapM_keyErr_map {α β γ} (f : α → Py.M β) (g : α → Option γ) (h : β → γ) (l : List α)
    (hyp : ∀ x, (f x).map h = keyErr (g x)) : (l.mapM f).map (List.map h) = keyErr (l.mapM g) := by
  induction l with
  | nil => rfl
  | cons x xs ih =>
    rw [List.mapM_cons, List.mapM_cons]
    have hx := hyp x
    cases hf : f x with
    | error e =>
      rw [hf] at hx
      cases hg : g x with
      | none => rw [hg] at hx; simp only [Except.map, keyErr] at hx; cases Except.error.inj hx; rfl
      | some y => rw [hg] at hx; simp [Except.map, keyErr] at hx
    | ok b =>
      rw [hf] at hx
      cases hg : g x with
      | none => rw [hg] at hx; simp [Except.map, keyErr] at hx
      | some y =>
        rw [hg] at hx
        simp only [Except.map, keyErr, Except.ok.injEq] at hx
        subst hx
        simp only [bind, Except.bind, Option.bind]
        cases hfs : List.mapM f xs with
        | error e =>
          rw [hfs] at ih
          cases hgs : List.mapM g xs with
          | none => rw [hgs] at ih; simp only [Except.map, keyErr] at ih; cases Except.error.inj ih; rfl
          | some ys => rw [hgs] at ih; simp [Except.map, keyErr] at ih
        | ok bs =>
          rw [hfs] at ih
          cases hgs : List.mapM g xs with
          | none => rw [hgs] at ih; simp [Except.map, keyErr] at ih
          | some ys =>
            rw [hgs] at ih
            simp only [Except.map, keyErr, Except.ok.injEq] at ih
            subst ih
            rfl

/-- the model's `add_constraints` returns its result (the generated flag is `true` in this tree) -/
theorem ac_returns : Gen.add_constraints_returns = true := rfl

theorem add_constraints_unfold (s1 s2 : List Char) (m : String) :
    Gen.py_add_constraints s1 s2 m =
      if s1.length ≠ s2.length then .error .assertion else
      (List.mapM (pyMeet (binTable (material m))) (List.zip s1 s2) >>= fun parts =>
        let con := Py.strJoin [] (List.map String.toList parts)
        if con.length < s1.length then .error (.fault "ConstraintError") else .ok con) := by
  have hdef : ∀ tbl, pyMeet tbl = fun c1 => (do let x := c1.1; let y := c1.2; pure (← Py.idx tbl ((← Py.dictGet Gen.iupac_bin x) &&& (← Py.dictGet Gen.iupac_bin y)))) :=
    fun _ => rfl
  unfold Gen.py_add_constraints
  by_cases hl : s1.length = s2.length
  · cases hm : m == "DNA" with
    | true =>
      rw [material_dna m hm]
      simp only [hl, hdef, bind, Except.bind, pure, Except.pure, binTable, throw, throwThe, MonadExceptOf.throw]
      simp
    | false =>
      rw [material_rna m hm]
      simp only [hl, hdef, bind, Except.bind, pure, Except.pure, binTable, throw, throwThe, MonadExceptOf.throw]
      simp
  · simp [hl, bind, Except.bind, throw, throwThe, MonadExceptOf.throw]

/-- **`add_constraints` as written in the source is the model's `Iupac.addConstraints`** for every pair of texts and every
    `material`: AssertionError for different lengths, KeyError for a character outside `iupac_bin`, ConstraintError when a
    position has no common base, else the position-wise intersection -/
theorem add_constraints_eq (s1 s2 : List Char) (m : String) :
    Gen.py_add_constraints s1 s2 m = acOutcome (Iupac.addConstraints (material m) s1 s2) := by
  rw [add_constraints_unfold]
  unfold Iupac.addConstraints
  by_cases hl : s1.length = s2.length
  · simp only [hl, ne_eq, not_true_eq_false, if_false]
    have hmap := mapM_keyErr_map (pyMeet (binTable (material m))) (fun p => meet (material m) p.1 p.2) String.toList
      (List.zip s1 s2) (pyMeet_eq (material m))
    cases hp : List.mapM (pyMeet (binTable (material m))) (List.zip s1 s2) with
    | error e =>
      rw [hp] at hmap
      cases hg : List.mapM (fun p => meet (material m) p.1 p.2) (List.zip s1 s2) with
      | none => rw [hg] at hmap; simp only [Except.map, keyErr] at hmap; cases Except.error.inj hmap; rfl
      | some ys => rw [hg] at hmap; simp [Except.map, keyErr] at hmap
    | ok parts =>
      rw [hp] at hmap
      cases hg : List.mapM (fun p => meet (material m) p.1 p.2) (List.zip s1 s2) with
      | none => rw [hg] at hmap; simp [Except.map, keyErr] at hmap
      | some ys =>
        rw [hg] at hmap
        simp only [Except.map, keyErr, Except.ok.injEq] at hmap
        subst hmap
        simp only [bind, Except.bind, strJoin_empty, ac_returns, if_true]
        split <;> rfl
  · simp [hl, acOutcome]

/-- the fifth value of the model's result type does not occur -/
theorem addConstraints_ne_returnsNone (mt : Material) (s1 s2 : List Char) : Iupac.addConstraints mt s1 s2 ≠ .returnsNone := by
  unfold Iupac.addConstraints
  split
  · simp
  · split
    · simp
    · simp only [ac_returns, if_true]
      split <;> simp

end Dsd.PyEq

#print axioms Dsd.PyEq.complement_eq
#print axioms Dsd.PyEq.wc_complement_eq
#print axioms Dsd.PyEq.reverse_complement_eq
#print axioms Dsd.PyEq.reverse_wc_complement_eq
#print axioms Dsd.PyEq.add_constraints_eq
