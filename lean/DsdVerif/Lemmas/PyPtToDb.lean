import DsdVerif.Gen.PyFuncs

namespace Dsd.PyEq
open Dsd

/-- the character the model writes for entry `q` of strand `si` -/
def ptChar (si : Nat) (q : Option Locus × Nat) : Char :=
  match q.1 with
  | none => '.'
  | some pr => if Locus.lt (si, q.2) pr then '(' else ')'

theorem ptdb_loop2_step (pt : PairTable) (brk : Char) (join : Bool) (si : Nat)
    (strand : List (Option Locus)) (v : Gen.pair_table_to_dot_bracket.Vars) (q : Option Locus × Nat) :
    ∃ v', Gen.pair_table_to_dot_bracket.loop2 pt brk join si strand v (q.2, q.1) = .ok v' ∧
      v'.out = v.out ++ [ptChar si q] := by
  obtain ⟨o, di⟩ := q
  cases o with
  | none => exact ⟨_, rfl, rfl⟩
  | some pr =>
    by_cases h : Locus.lt (si, di) pr
    · refine ⟨{ v with locus := (si, di), out := v.out ++ ['('] }, ?_, ?_⟩
      · have ht : Py.tupleLt (si, di) pr = Locus.lt (si, di) pr := rfl
        simp [Gen.pair_table_to_dot_bracket.loop2, Py.unwrap, ht, h, bind, Except.bind,
          pure, Except.pure]
      · simp [ptChar, h]
    · refine ⟨{ v with locus := (si, di), out := v.out ++ [')'] }, ?_, ?_⟩
      · have ht : Py.tupleLt (si, di) pr = Locus.lt (si, di) pr := rfl
        simp [Gen.pair_table_to_dot_bracket.loop2, Py.unwrap, ht, h, bind, Except.bind,
          pure, Except.pure]
      · simp [ptChar, h]

theorem ptdb_loop2_fold (pt : PairTable) (brk : Char) (join : Bool) (si : Nat)
    (strand : List (Option Locus)) (l : List (Option Locus × Nat)) :
    ∀ v : Gen.pair_table_to_dot_bracket.Vars,
    ∃ v', List.foldlM (Gen.pair_table_to_dot_bracket.loop2 pt brk join si strand) v
        (l.map (fun p => (p.2, p.1))) = .ok v' ∧
      v'.out = v.out ++ l.map (ptChar si) := by
  induction l with
  | nil => intro v; exact ⟨v, rfl, by simp⟩
  | cons q l ih =>
    intro v
    obtain ⟨v1, h1, ho1⟩ := ptdb_loop2_step pt brk join si strand v q
    obtain ⟨v2, h2, ho2⟩ := ih v1
    refine ⟨v2, ?_, ?_⟩
    · simp only [List.map_cons, List.foldlM_cons, h1]
      exact h2
    · simp [ho2, ho1]

/-- one step of the model's outer fold -/
def ptStep (brk : Char) (out : List Char) (p : List (Option Locus) × Nat) : List Char :=
  (if out.isEmpty then out else out ++ [brk]) ++ p.1.zipIdx.map (ptChar p.2)

theorem ptdb_loop1_step (pt : PairTable) (brk : Char) (join : Bool)
    (v : Gen.pair_table_to_dot_bracket.Vars) (p : List (Option Locus) × Nat) :
    ∃ v', Gen.pair_table_to_dot_bracket.loop1 pt brk join v (p.2, p.1) = .ok v' ∧
      v'.out = ptStep brk v.out p := by
  obtain ⟨strand, si⟩ := p
  by_cases he : v.out.isEmpty
  · obtain ⟨v', h, ho⟩ := ptdb_loop2_fold pt brk join si strand strand.zipIdx v
    refine ⟨v', ?_, ?_⟩
    · simp only [Gen.pair_table_to_dot_bracket.loop1, Py.enumerate, he]
      simpa [bind, Except.bind, pure, Except.pure] using h
    · simp [ptStep, he, ho]
  · obtain ⟨v', h, ho⟩ := ptdb_loop2_fold pt brk join si strand strand.zipIdx
      { v with out := v.out ++ [brk] }
    refine ⟨v', ?_, ?_⟩
    · simp only [Gen.pair_table_to_dot_bracket.loop1, Py.enumerate, he]
      simpa [bind, Except.bind, pure, Except.pure] using h
    · simp [ptStep, he, ho]

theorem ptdb_loop1_fold (pt : PairTable) (brk : Char) (join : Bool)
    (l : List (List (Option Locus) × Nat)) :
    ∀ v : Gen.pair_table_to_dot_bracket.Vars,
    ∃ v', List.foldlM (Gen.pair_table_to_dot_bracket.loop1 pt brk join) v
        (l.map (fun p => (p.2, p.1))) = .ok v' ∧
      v'.out = l.foldl (ptStep brk) v.out := by
  induction l with
  | nil => intro v; exact ⟨v, rfl, rfl⟩
  | cons q l ih =>
    intro v
    obtain ⟨v1, h1, ho1⟩ := ptdb_loop1_step pt brk join v q
    obtain ⟨v2, h2, ho2⟩ := ih v1
    refine ⟨v2, ?_, ?_⟩
    · simp only [List.map_cons, List.foldlM_cons, h1]
      exact h2
    · simp [ho2, ho1]

theorem ptToDb_eq_foldl (pt : PairTable) (brk : Char) :
    ptToDb pt brk = pt.zipIdx.foldl (ptStep brk) [] := rfl

/-- the translated `pair_table_to_dot_bracket` never raises and is the model's `ptToDb`, for every table -/
theorem pair_table_to_dot_bracket_eq (pt : PairTable) (brk : Char) (join : Bool) :
    Gen.py_pair_table_to_dot_bracket pt brk join = .ok (ptToDb pt brk) := by
  obtain ⟨v', h, ho⟩ := ptdb_loop1_fold pt brk join pt.zipIdx { out := [] }
  rw [ptToDb_eq_foldl, ← ho]
  simp only [Gen.py_pair_table_to_dot_bracket, Py.enumerate]
  simp only [bind, Except.bind, pure, Except.pure] at h ⊢
  rw [h]

end Dsd.PyEq

#print axioms Dsd.PyEq.pair_table_to_dot_bracket_eq
