/-
Exterior / enclosed positions under rotation of a complex: `k` applications of `rotate_complex_once` move every
position by `rotate_pairtable_loc(·, k)` and keep "lies in an exterior loop".
-/
import DsdVerif.Lemmas.LoopObj
import DsdVerif.Props.C02Canon
import DsdVerif.Lemmas.CanonOrbit

namespace Dsd.LoopObj
open Dsd Dsd.Bracket Dsd.C06 Dsd.Brk

/-! ### a re-indexing of positions that respects pairing and exterior loops -/

structure ExtRot (pt pt' : PairTable) (r : Locus → Locus) : Prop where
  valid : ∀ l, ValidL (pt.map List.length) l → ValidL (pt'.map List.length) (r l)
  surj : ∀ l', ValidL (pt'.map List.length) l' → ∃ l, ValidL (pt.map List.length) l ∧ l' = r l
  unp : ∀ l, ValidL (pt.map List.length) l → (ptGet pt' (r l) = none ↔ ptGet pt l = none)
  ext : ∀ l, ValidL (pt.map List.length) l → ptGet pt l = none → (ExteriorPos pt' (r l) ↔ ExteriorPos pt l)

theorem ExtRot.comp {pt pt' pt'' : PairTable} {r r' : Locus → Locus} (h : ExtRot pt pt' r) (h' : ExtRot pt' pt'' r') :
    ExtRot pt pt'' (fun l => r' (r l)) := by
  refine ⟨fun l hv => h'.valid _ (h.valid l hv), ?_, ?_, ?_⟩
  · intro l'' hv''
    obtain ⟨l', hv', rfl⟩ := h'.surj l'' hv''
    obtain ⟨l, hv, rfl⟩ := h.surj l' hv'
    exact ⟨l, hv, rfl⟩
  · intro l hv
    exact (h'.unp _ (h.valid l hv)).trans (h.unp l hv)
  · intro l hv hu
    exact (h'.ext _ (h.valid l hv) ((h.unp l hv).mpr hu)).trans (h.ext l hv hu)

theorem ExtRot.congr {pt pt' : PairTable} {r r2 : Locus → Locus} (h : ExtRot pt pt' r)
    (e : ∀ l, ValidL (pt.map List.length) l → r2 l = r l) : ExtRot pt pt' r2 := by
  refine ⟨fun l hv => by rw [e l hv]; exact h.valid l hv, ?_, fun l hv => by rw [e l hv]; exact h.unp l hv,
    fun l hv hu => by rw [e l hv]; exact h.ext l hv hu⟩
  intro l' hv'
  obtain ⟨l, hv, rfl⟩ := h.surj l' hv'
  exact ⟨l, hv, (e l hv).symm⟩

/-- the sets of exterior / enclosed positions are carried over by the re-indexing -/
theorem ExtRot.image {pt pt' : PairTable} {r : Locus → Locus} (h : ExtRot pt pt' r) (P P' : Locus → Prop)
    (hP : ∀ l, P l ↔ ValidL (pt.map List.length) l ∧ ptGet pt l = none ∧ ExteriorPos pt l)
    (hP' : ∀ l, P' l ↔ ValidL (pt'.map List.length) l ∧ ptGet pt' l = none ∧ ExteriorPos pt' l) :
    ∀ l', P' l' ↔ ∃ l, P l ∧ l' = r l := by
  intro l'
  rw [hP']
  constructor
  · rintro ⟨hv', hu', he'⟩
    obtain ⟨l, hv, rfl⟩ := h.surj l' hv'
    have hu := (h.unp l hv).mp hu'
    exact ⟨l, (hP l).mpr ⟨hv, hu, (h.ext l hv hu).mp he'⟩, rfl⟩
  · rintro ⟨l, hl, rfl⟩
    obtain ⟨hv, hu, he⟩ := (hP l).mp hl
    exact ⟨h.valid l hv, (h.unp l hv).mpr hu, (h.ext l hv hu).mpr he⟩

theorem ExtRot.image_not {pt pt' : PairTable} {r : Locus → Locus} (h : ExtRot pt pt' r) (P P' : Locus → Prop)
    (hP : ∀ l, P l ↔ ValidL (pt.map List.length) l ∧ ptGet pt l = none ∧ ¬ ExteriorPos pt l)
    (hP' : ∀ l, P' l ↔ ValidL (pt'.map List.length) l ∧ ptGet pt' l = none ∧ ¬ ExteriorPos pt' l) :
    ∀ l', P' l' ↔ ∃ l, P l ∧ l' = r l := by
  intro l'
  rw [hP']
  constructor
  · rintro ⟨hv', hu', he'⟩
    obtain ⟨l, hv, rfl⟩ := h.surj l' hv'
    have hu := (h.unp l hv).mp hu'
    exact ⟨l, (hP l).mpr ⟨hv, hu, fun he => he' ((h.ext l hv hu).mpr he)⟩, rfl⟩
  · rintro ⟨l, hl, rfl⟩
    obtain ⟨hv, hu, he⟩ := (hP l).mp hl
    exact ⟨h.valid l hv, (h.unp l hv).mpr hu, fun he' => he ((h.ext l hv hu).mp he')⟩

/-! ### one step -/

theorem sym_of_linF {syms : List (List Sym)} {pt : PairTable} {t : List (Option Nat)} (L : Split.LinF syms pt t)
    (a b : Locus) (h : ptGet pt a = some b) : ptGet pt b = some a := by
  obtain ⟨i, j, rfl, rfl, hij⟩ := L.pair_of_ptGet a b h
  rw [L.hpg j, (L.hM.pair i j hij).2.2.2]; rfl

/-- the step of `rot_main` as a re-indexing -/
theorem extRot_step (pt pt' : PairTable) (syms : List (List Sym)) (t : List (Option Nat)) (L : Split.LinF syms pt t)
    (hshape : pt'.map List.length = (pt.drop 1 ++ pt.take 1).map List.length)
    (hid : ∀ l, ValidL (pt.map List.length) l → ptGet pt' (rotL1 pt.length l) = (ptGet pt l).map (rotL1 pt.length)) :
    ExtRot pt pt' (rotL1 pt.length) := by
  have hn' : pt'.length = pt.length := by
    have := congrArg List.length hshape
    simp only [List.length_map, List.length_append, List.length_drop, List.length_take] at this
    omega
  have hlt : ∀ l, ValidL (pt.map List.length) l → l.1 < pt.length := by
    intro l hv
    have := Split.validL_lt _ _ hv
    simpa using this
  refine ⟨?_, ?_, ?_, ?_⟩
  · intro l hv
    exact (rot_valid pt pt' pt.length rfl hshape l (hlt l hv)).mpr hv
  · intro l' hv'
    have hl' : l'.1 < pt.length := by
      have := Split.validL_lt _ _ hv'
      simp only [List.length_map] at this; omega
    obtain ⟨s, hs, hrs⟩ := rotS_surj pt.length l'.1 hl'
    have e : l' = rotL1 pt.length (s, l'.2) := by
      show l' = (rotS pt.length s, l'.2); rw [hrs]
    rw [e] at hv'
    exact ⟨(s, l'.2), (rot_valid pt pt' pt.length rfl hshape (s, l'.2) hs).mp hv', e⟩
  · intro l hv
    rw [hid l hv]
    cases ptGet pt l <;> simp
  · intro l hv hu
    exact exteriorPos_rot1 pt pt' pt.length rfl hshape (fun l m h => L.entry_lt l m h) (sym_of_linF L) hid l hv hu

/-! ### `wrap` arithmetic -/

theorem wrap_congr (x y : Int) (m : Nat) (h : x % (m : Int) = y % (m : Int)) : wrap x m = wrap y m := by
  unfold wrap; rw [h]

theorem rotL1_rotLoc (n : Nat) (hn : 0 < n) (k : Nat) (l : Locus) :
    rotL1 n (C07.rotLoc n (k : Int) l) = C07.rotLoc n ((k + 1 : Nat) : Int) l := by
  unfold rotL1 C07.rotLoc rotS
  simp only
  congr 1
  apply wrap_congr
  rw [ViewsRot.wrap_cast _ n hn, Int.sub_emod, Int.emod_emod_of_dvd _ (Int.dvd_refl _), ← Int.sub_emod]
  congr 1
  omega

theorem rotLoc_zero (n : Nat) (l : Locus) (hl : l.1 < n) : C07.rotLoc n ((0 : Nat) : Int) l = l := by
  unfold C07.rotLoc
  have : wrap ((l.1 : Int) - ((0 : Nat) : Int)) n = l.1 := by
    unfold wrap
    have h1 : ((l.1 : Int) - ((0 : Nat) : Int)) % (n : Int) = (l.1 : Int) := by
      simp only [Int.natCast_zero, Int.sub_zero]
      exact Int.emod_eq_of_lt (by omega) (by omega)
    rw [h1]
    have h2 : ((l.1 : Int) + (n : Int)) % (n : Int) = (l.1 : Int) := by
      rw [Int.add_emod_right]; exact Int.emod_eq_of_lt (by omega) (by omega)
    rw [h2]; rfl
  rw [this]

/-- with a single strand the re-indexing is the identity -/
theorem rotLoc_single (k : Nat) (l : Locus) (hl : l.1 < 1) : C07.rotLoc 1 (k : Int) l = l := by
  unfold C07.rotLoc
  have : wrap ((l.1 : Int) - (k : Int)) 1 = l.1 := by
    unfold wrap
    simp only [Int.natCast_one, Int.emod_one]
    have : l.1 = 0 := by omega
    rw [this]; rfl
  rw [this]

theorem rotLoc_rotL1 (n : Nat) (hn : 0 < n) (k : Nat) (l : Locus) :
    C07.rotLoc n (k : Int) (rotL1 n l) = C07.rotLoc n ((k + 1 : Nat) : Int) l := by
  unfold rotL1 C07.rotLoc rotS
  simp only
  congr 1
  apply wrap_congr
  rw [ViewsRot.wrap_cast _ n hn, Int.sub_emod, Int.emod_emod_of_dvd _ (Int.dvd_refl _), ← Int.sub_emod]
  congr 1
  omega

/-! ### `k` steps -/

theorem ExtRot.refl (pt : PairTable) : ExtRot pt pt (fun l => l) :=
  ⟨fun _ hv => hv, fun l hv => ⟨l, hv, rfl⟩, fun _ _ => Iff.rfl, fun _ _ _ => Iff.rfl⟩

/-- a well-formed description has a well-formed structure -/
theorem descr_wf (seq : List String) (sst : List Char) (hd : C02.Descr seq sst) (pt : PairTable)
    (hpt : makePairTable sst = .ok pt) :
    C07.WFStruct sst pt ∧ pt.map List.length = (splitOn "+" seq).map List.length := by
  have hl := Brk.splitOn_lengths "+" '+' seq sst hd.aligned.1 hd.aligned.2
  refine ⟨⟨hpt, ?_⟩, ?_⟩
  · intro s hs e
    have : (0 : Nat) ∈ (splitOn '+' sst).map List.length := List.mem_map.mpr ⟨s, hs, by rw [e]; rfl⟩
    rw [← hl] at this
    obtain ⟨s', hs', hl'⟩ := List.mem_map.mp this
    exact hd.nonempty s' hs' (List.length_eq_zero_iff.mp hl')
  · rw [C06.mpt_shape sst '+' pt hpt, hl]

/-- **`k` rotation steps**: the result is well formed, has as many strands, is connected iff the original is, and
    its positions are those of the original re-indexed by `rotate_pairtable_loc(·, k)` — unpaired ↔ unpaired,
    exterior ↔ exterior -/
theorem rotateN_extRot (k : Nat) : ∀ (seq : List String) (sst : List Char) (pt : PairTable),
    C02.Descr seq sst → makePairTable sst = .ok pt →
    ∃ seq' sst' pt', rotateN k seq sst = .ok (seq', sst') ∧ C02.Descr seq' sst' ∧ makePairTable sst' = .ok pt' ∧
      pt'.length = pt.length ∧ ExtRot pt pt' (C07.rotLoc pt.length (k : Int)) ∧
      (ConnL pt pt.length ↔ ConnL pt' pt'.length) := by
  induction k with
  | zero =>
    intro seq sst pt hd hpt
    refine ⟨seq, sst, pt, rfl, hd, hpt, rfl, ?_, Iff.rfl⟩
    apply (ExtRot.refl pt).congr
    intro l hv
    have := Split.validL_lt _ _ hv
    exact rotLoc_zero pt.length l (by simpa using this)
  | succ k ih =>
    intro seq sst pt hd hpt
    obtain ⟨hw, hshp⟩ := descr_wf seq sst hd pt hpt
    have hd' := (C02.descr_iff _ _).mp hd
    obtain ⟨nx, hnx, hdn, _⟩ := Rot.descr_rotateOnce seq sst hd'
    by_cases hplus : "+" ∈ seq
    · obtain ⟨seq1, sst1, pt1, h1, h2, h3, h4, h5, h6⟩ := Brk.rot_main seq sst pt hd.aligned hpt hw.nonempty hplus
      rw [h1] at hnx
      cases hnx
      obtain ⟨syms, t, L, _⟩ := Split.mpt_linF sst '+' pt hpt
      have hn1 : pt1.length = pt.length := by
        have := congrArg List.length h4
        simp only [List.length_map, List.length_append, List.length_drop, List.length_take] at this
        omega
      obtain ⟨seq', sst', pt', g1, g2, g3, g4, g5, g6⟩ := ih seq1 sst1 pt1 ((C02.descr_iff _ _).mpr hdn) h2
      refine ⟨seq', sst', pt', ?_, g2, g3, by rw [g4, hn1], ?_, ?_⟩
      · rw [ViewsRot.rotateN_succ, h1]; exact g1
      · rw [hn1] at g5
        apply ((extRot_step pt pt1 syms t L h4 h6).comp g5).congr
        intro l _
        exact (rotLoc_rotL1 pt.length (by omega) k l).symm
      · rw [← g6, hn1]
        exact Brk.connL_rot pt pt1 pt.length rfl h4 (fun l m h => L.entry_lt l m h) h6
    · rw [Rot.rotateOnce_noplus seq sst hplus] at hnx
      cases hnx
      obtain ⟨seq', sst', pt', g1, g2, g3, g4, g5, g6⟩ := ih seq sst pt hd hpt
      have hone : pt.length = 1 := by
        have := congrArg List.length hshp
        rw [splitOn_of_not_mem "+" seq hplus] at this
        simpa using this
      refine ⟨seq', sst', pt', ?_, g2, g3, g4, ?_, g6⟩
      · rw [ViewsRot.rotateN_succ, Rot.rotateOnce_noplus seq sst hplus]; exact g1
      · apply g5.congr
        intro l hv
        have hl := Split.validL_lt _ _ hv
        simp only [List.length_map, hone] at hl
        rw [hone, rotLoc_single _ l hl, rotLoc_single _ l hl]

/-! ### the `turns` setter -/

theorem strands_eq (seq : List String) (sst : List Char) (hd : C02.Descr seq sst) (pt : PairTable)
    (hpt : makePairTable sst = .ok pt) : (makeStrandTableList "+" seq).length = pt.length ∧ 0 < pt.length := by
  have h1 : Rot.nStr seq = (splitOn "+" seq).length := Rot.nStr_eq seq hd.nonempty
  have h2 := congrArg List.length (descr_wf seq sst hd pt hpt).2
  simp only [List.length_map] at h2
  have h3 := List.length_pos_iff.mpr (splitOn_ne_nil "+" seq)
  unfold Rot.nStr at h1
  omega

/-- assigning `turns = v` to a well-formed complex succeeds and moves the representation to the
    `wrap(v - turns)`-th rotation of the current one -/
theorem setTurns_rot (o : CplxObj) (hc : C03.Coherent o) (hd : C02.Descr o.seq o.sst) (pt : PairTable)
    (hpt : makePairTable o.sst = .ok pt) (v : Int) :
    ∃ r, rotateN (wrap (-(o.turns : Int) + v) pt.length) o.seq o.sst = .ok r ∧
      (o.setTurns v).1.seq = r.1 ∧ (o.setTurns v).1.sst = r.2 ∧ (o.setTurns v).2 = none ∧
      C03.Coherent (o.setTurns v).1 := by
  obtain ⟨hn, hpos⟩ := strands_eq o.seq o.sst hd pt hpt
  have hd' := (C02.descr_iff _ _).mp hd
  obtain ⟨rots, hrots, _, hget⟩ := ViewsRot.rotationsFrom_spec pt.length o.seq o.sst (fun k _ => by
    obtain ⟨y, hy, _⟩ := Rot.descr_rotateN k o.seq o.sst hd'
    exact ⟨y, hy⟩)
  have hk := ViewsRot.wrap_lt (-(o.turns : Int) + v) pt.length hpos
  obtain ⟨r, hr, _⟩ := Rot.descr_rotateN (wrap (-(o.turns : Int) + v) pt.length) o.seq o.sst hd'
  have hg := hget _ r hk hr
  obtain ⟨_, s2, s3, s4, s5, _, _⟩ := C03.size_coh o ((C03.coherent_iff o).1 hc)
  refine ⟨r, hr, ?_, ?_, ?_, (C03.setTurns_coherent o v hc).1⟩
  all_goals
    rw [CplxObj.setTurns_eq]
    rw [s2, hn, s3, s4, s5, if_neg (by omega), hrots]
    simp only [hg]

end Dsd.LoopObj
