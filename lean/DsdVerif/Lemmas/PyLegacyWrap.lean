/-
`rotate_pairtable_loc` of the translated legacy `DSD_Complex` (nested `wrap` on ints of either sign, `n = None` -> `self.size`) is
the model's `LObj.rotatePairtableLoc` on every object.  The code reads `self.size` up to three times, the model once: `size` is
idempotent (`size_idem`).
-/
import DsdVerif.Lemmas.PyLegacyBasic

set_option linter.unusedSimpArgs false

namespace Dsd.PyLegacy
open Dsd Dsd.Gen Dsd.Lg Dsd.PyObj.Basic

/-- asking `size` again changes nothing and answers the same -/
theorem size_idem (o : LObj) : o.size.1.size = (o.size.1, o.size.2) := by
  unfold LObj.size LObj.fillStrandLengths
  obtain ⟨id, name, seq, sst, canon, rot, sl, pt, li, el, lol, exd, end_, mc⟩ := o
  rcases sl with _ | _ | ⟨a, as⟩ <;> rcases lol with _ | _ | ⟨b, bs⟩ <;>
    simp only [truthy, if_true, if_false, Bool.false_eq_true, Option.getD] <;>
    first
      | rfl
      | (cases hm : makeStrandTableList "+" seq <;> simp only [List.map_nil, List.map_cons, truthy, if_true, if_false, Bool.false_eq_true, Option.getD, hm] <;> rfl)
      | (cases bs <;> rfl)

/-- the nested `wrap` at a positive modulus is the model's `lwrap` -/
theorem wrap_eq (loc : Int × Nat) (n : Option Int) (x : Int) (m : Nat) :
    DSD_Complex_rotate_pairtable_loc.wrap loc n x (Int.ofNat m) =
      match lwrap x m with
      | .ok s => .ok (Int.ofNat s)
      | .error e => .error (errOf e) := by
  unfold DSD_Complex_rotate_pairtable_loc.wrap lwrap Py.imod
  by_cases hm : m = 0
  · subst hm; rfl
  · have h0 : ¬ (Int.ofNat m = 0) := by simpa using hm
    have hnn : (0 : Int) ≤ Int.ofNat m := Int.natCast_nonneg m
    simp only [hm, h0, if_false, bind, Except.bind, pure, Except.pure, Int.fmod_eq_emod_of_nonneg _ hnn]
    congr 1
    have : 0 ≤ (x % (m : Int) + (m : Int)) % (m : Int) := Int.emod_nonneg _ (by simpa using hm)
    exact (Int.toNat_of_nonneg this).symm

/-- the answer of `rotate_pairtable_loc`: the strand index is a non-negative int again -/
def locAns (r : LObj × Except LErr (Nat × Nat)) : Except Err (Int × Nat) × DSD_Complex.Self :=
  (match r.2 with | .ok p => .ok (Int.ofNat p.1, p.2) | .error e => .error (errOf e), ofL r.1)

theorem exec_rotate_pairtable_loc (o : LObj) (loc : Int × Nat) (n : Option Int) :
    (py_DSD_Complex_rotate_pairtable_loc loc n).exec (ofL o) = locAns (o.rotatePairtableLoc loc n) := by
  unfold py_DSD_Complex_rotate_pairtable_loc LObj.rotatePairtableLoc locAns
  cases n with
  | none =>
    simp only [exec_ite, exec_bind, exec_get, exec_pure, exec_lift, exec_monadLift, exec_modify, exec_size, okAns, size_idem,
      Option.isNone_none, if_true, Py.unwrap, pure, Except.pure, wrap_eq]
    cases lwrap (loc.1 + ↑o.size.2) o.size.2 <;> rfl
  | some v =>
    simp only [exec_ite, exec_bind, exec_get, exec_pure, exec_lift, exec_monadLift, exec_modify, exec_size, okAns, size_idem,
      Option.isNone_some, if_false, Bool.false_eq_true, Py.unwrap, pure, Except.pure, wrap_eq]
    cases lwrap (loc.1 + v) o.size.2 <;> rfl

end Dsd.PyLegacy
