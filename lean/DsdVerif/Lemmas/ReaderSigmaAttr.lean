/-
End-to-end reading of declared systems (C14, "sigma" theorems), part 3: what the explicit final state and
dictionary contain.
-/
import DsdVerif.Lemmas.ReaderSigmaDoc

namespace Dsd.Sig
open Dsd Dsd.PP Dsd.RState

theorem lookup_unique {α β} [BEq α] [LawfulBEq α] (l : List (α × β)) (k : α) (v : β) (hm : (k, v) ∈ l)
    (hu : ∀ v', (k, v') ∈ l → v' = v) : l.lookup k = some v := by
  induction l with
  | nil => simp at hm
  | cons q qs ih =>
    obtain ⟨a, b⟩ := q
    by_cases hka : k = a
    · subst hka
      simp only [List.lookup_cons, beq_self_eq_true]
      rw [hu b (by simp)]
    · have h1 : (k == a) = false := by simpa using hka
      simp only [List.lookup_cons, h1]
      apply ih
      · simp only [List.mem_cons, Prod.mk.injEq] at hm
        rcases hm with ⟨h, _⟩ | h
        · exact absurd h hka
        · exact h
      · intro v' hv'; exact hu v' (by simp [hv'])

/-- positions are determined by names in a system with distinct names -/
theorem name_pos (ds : List Decl) (hnd : (ds.map Decl.name).Nodup) (k k' : Nat) (d d' : Decl)
    (hk : ds[k]? = some d) (hk' : ds[k']? = some d') (hn : d.name = d'.name) : k = k' := by
  have h1 : (ds.map Decl.name)[k]? = some d.name := by simp [hk]
  have h2 : (ds.map Decl.name)[k']? = some d'.name := by simp [hk']
  have hlt : k < (ds.map Decl.name).length := by simpa using getElem?_lt' _ _ _ hk
  exact (List.getElem?_inj hlt hnd).mp (by rw [h1, h2, hn])

theorem getElem?_det {α} (l : List α) (k : Nat) (a b : α) (h1 : l[k]? = some a) (h2 : l[k]? = some b) : a = b := by
  rw [h1] at h2; exact Option.some.inj h2

/-! ### the dictionary -/

theorem dDict_keys (ds : List Decl) : (dDict ds).map (·.1) = ds.flatMap (fun d => [d.name, star d.name]) := by
  unfold dDict perDecl
  rw [List.map_flatMap]
  simp only [List.map_cons, List.map_nil]
  have := List.flatMap_map (Prod.fst : Decl × Nat → Decl) (fun d => [d.name, star d.name]) ds.zipIdx
  rw [List.zipIdx_map_fst] at this
  exact this.symm

theorem keys_nodup (ds : List Decl) (hb : ∀ d ∈ ds, BaseName d.name) (hnd : (ds.map Decl.name).Nodup) :
    (ds.flatMap (fun d => [d.name, star d.name])).Nodup := by
  induction ds with
  | nil => simp
  | cons d ds ih =>
    rw [List.map_cons, List.nodup_cons] at hnd
    have hbd := hb d (by simp)
    have hb' : ∀ x ∈ ds, BaseName x.name := fun x hx => hb x (by simp [hx])
    have hf : ∀ x ∈ ds, x.name ≠ d.name := by
      intro x hx e; exact hnd.1 (by rw [← e]; exact List.mem_map_of_mem hx)
    simp only [List.flatMap_cons, List.cons_append, List.nil_append, List.nodup_cons, List.mem_cons,
      List.mem_flatMap, List.not_mem_nil, or_false, not_or, not_exists, not_and]
    refine ⟨⟨base_ne_star _ _ hbd, ?_⟩, ?_, ih hb' hnd.2⟩
    · intro x hx
      obtain ⟨f1, f2, f3, f4⟩ := fresh_names ds hb' d.name hbd hf x hx
      exact ⟨fun e => f1 e.symm, fun e => f2 e.symm⟩
    · intro x hx
      obtain ⟨f1, f2, f3, f4⟩ := fresh_names ds hb' d.name hbd hf x hx
      exact ⟨fun e => f3 e.symm, fun e => f4 e.symm⟩

theorem dDict_lookup (ds : List Decl) (hsys : Sys ds) (k : Nat) (d : Decl) (hk : ds[k]? = some d) :
    (dDict ds).lookup d.name = some (2 * k) ∧ (dDict ds).lookup (star d.name) = some (2 * k + 1) := by
  constructor
  · apply lookup_unique
    · rw [dDict, mem_perDecl]; exact ⟨k, d, hk, by simp⟩
    · intro v' hv'
      rw [dDict, mem_perDecl] at hv'
      obtain ⟨k', d', hk', hx⟩ := hv'
      simp only [List.mem_cons, Prod.mk.injEq, List.not_mem_nil, or_false] at hx
      rcases hx with ⟨h1, h2⟩ | ⟨h1, _⟩
      · rw [h2, name_pos ds hsys.distinct k k' d d' hk hk' h1]
      · exact absurd h1 (base_ne_star _ _ (hsys.base d (List.mem_of_getElem? hk)))
  · apply lookup_unique
    · rw [dDict, mem_perDecl]; exact ⟨k, d, hk, by simp⟩
    · intro v' hv'
      rw [dDict, mem_perDecl] at hv'
      obtain ⟨k', d', hk', hx⟩ := hv'
      simp only [List.mem_cons, Prod.mk.injEq, List.not_mem_nil, or_false] at hx
      rcases hx with ⟨h1, _⟩ | ⟨h1, h2⟩
      · exact absurd h1.symm (base_ne_star _ _ (hsys.base d' (List.mem_of_getElem? hk')))
      · rw [h2, name_pos ds hsys.distinct k k' d d' hk hk' (star_inj _ _ h1)]

/-! ### the registry and the nodes -/

theorem dObjs_find (ds : List Decl) (k : Nat) (d : Decl) (hk : ds[k]? = some d) :
    (dObjs ds).find? (fun o => o.id == 2 * k) = some (newDom (2 * k) d.name d.len) ∧
    (dObjs ds).find? (fun o => o.id == 2 * k + 1) = some (newDom (2 * k + 1) (star d.name) d.len) := by
  constructor
  · apply RegL.find?_unique
    · rw [dObjs, mem_perDecl]; exact ⟨k, d, hk, by simp⟩
    · simp [newDom]
    · intro a ha hp
      rw [dObjs, mem_perDecl] at ha
      obtain ⟨k', d', hk', hx⟩ := ha
      have hid : a.id = 2 * k := by simpa using hp
      simp only [List.mem_cons, List.not_mem_nil, or_false] at hx
      rcases hx with rfl | rfl
      · simp only [newDom] at hid
        have : k' = k := by omega
        subst this
        rw [getElem?_det ds k' d d' hk hk']
      · simp only [newDom] at hid; omega
  · apply RegL.find?_unique
    · rw [dObjs, mem_perDecl]; exact ⟨k, d, hk, by simp⟩
    · simp [newDom]
    · intro a ha hp
      rw [dObjs, mem_perDecl] at ha
      obtain ⟨k', d', hk', hx⟩ := ha
      have hid : a.id = 2 * k + 1 := by simpa using hp
      simp only [List.mem_cons, List.not_mem_nil, or_false] at hx
      rcases hx with rfl | rfl
      · simp only [newDom] at hid; omega
      · simp only [newDom] at hid
        have : k' = k := by omega
        subst this
        rw [getElem?_det ds k' d d' hk hk']

theorem dNodes_find (c : Nat) (ds : List Decl) (i : Nat) (hi : i < 2 * ds.length) :
    (dNodes c ds).find? (fun n => n.id == i) = some (domNode i c) := by
  have hk : i / 2 < ds.length := by omega
  apply RegL.find?_unique
  · rw [dNodes, mem_perDecl]
    refine ⟨i / 2, ds[i / 2], List.getElem?_eq_getElem hk, ?_⟩
    simp only [List.mem_cons, List.not_mem_nil, or_false]
    by_cases he : i % 2 = 0
    · left; congr 1; omega
    · right; congr 1; omega
  · simp [domNode]
  · intro a ha hp
    rw [dNodes, mem_perDecl] at ha
    obtain ⟨k', d', _, hx⟩ := ha
    have hid : a.id = i := by simpa using hp
    simp only [List.mem_cons, List.not_mem_nil, or_false] at hx
    rcases hx with rfl | rfl
    · simp only [domNode] at hid; simp only [domNode, hid]
    · simp only [domNode] at hid; simp only [domNode, hid]

/-- the objects behind the dictionary entries, as the world exposes them -/
theorem S_domObj (cd cs : Nat) (hcd : cd < 4) (ds : List Decl) (k : Nat) (d : Decl) (hk : ds[k]? = some d) :
    (S cd cs ds).w.domObj (2 * k) = some (cd, newDom (2 * k) d.name d.len) ∧
    (S cd cs ds).w.domObj (2 * k + 1) = some (cd, newDom (2 * k + 1) (star d.name) d.len) := by
  have hlt := getElem?_lt' _ _ _ hk
  obtain ⟨h1, h2⟩ := dObjs_find ds k d hk
  exact ⟨domObj_DW (P cd cs ds) hcd _ _ (dNodes_find cd ds _ (by omega)) h1,
    domObj_DW (P cd cs ds) hcd _ _ (dNodes_find cd ds _ (by omega)) h2⟩

theorem S_live (cd cs : Nat) (ds : List Decl) (i : Nat) (hi : i < 2 * ds.length) :
    (S cd cs ds).w.isLive i = true ∧ i ∈ (S cd cs ds).w.held := by
  constructor
  · unfold World.isLive World.node
    have : (S cd cs ds).w.nodes = dNodes cd ds := rfl
    rw [this, dNodes_find cd ds i hi]; rfl
  · have : (S cd cs ds).w.held = List.range (2 * ds.length) := rfl
    rw [this]; exact List.mem_range.mpr hi

/-! ### sequences -/

theorem dSeq_lookup (ds : List Decl) (k : Nat) (n seq : String) (hk : ds[k]? = some (.sl n seq)) :
    (dSeq ds).lookup (2 * k) = some seq ∧ (dSeq ds).lookup (2 * k + 1) = some (rcOf seq) := by
  constructor
  · apply lookup_unique
    · rw [dSeq, mem_perDecl]; exact ⟨k, _, hk, by simp⟩
    · intro v' hv'
      rw [dSeq, mem_perDecl] at hv'
      obtain ⟨k', d', hk', hx⟩ := hv'
      cases d' with
      | dl _ _ _ => simp at hx
      | sl n' seq' =>
        simp only [List.mem_cons, Prod.mk.injEq, List.not_mem_nil, or_false] at hx
        rcases hx with ⟨h1, h2⟩ | ⟨h1, _⟩
        · have : k' = k := by omega
          subst this
          have := getElem?_det ds k' _ _ hk hk'
          cases this; exact h2
        · omega
  · apply lookup_unique
    · rw [dSeq, mem_perDecl]; exact ⟨k, _, hk, by simp⟩
    · intro v' hv'
      rw [dSeq, mem_perDecl] at hv'
      obtain ⟨k', d', hk', hx⟩ := hv'
      cases d' with
      | dl _ _ _ => simp at hx
      | sl n' seq' =>
        simp only [List.mem_cons, Prod.mk.injEq, List.not_mem_nil, or_false] at hx
        rcases hx with ⟨h1, _⟩ | ⟨h1, h2⟩
        · omega
        · have : k' = k := by omega
          subst this
          have := getElem?_det ds k' _ _ hk hk'
          cases this; exact h2

theorem dSeq_lookup_dl (ds : List Decl) (k : Nat) (n tk : String) (l : Nat) (hk : ds[k]? = some (.dl n tk l)) :
    (dSeq ds).lookup (2 * k) = none ∧ (dSeq ds).lookup (2 * k + 1) = none := by
  constructor <;>
  · apply lookup_none_of
    intro q hq e
    rw [dSeq, mem_perDecl] at hq
    obtain ⟨k', d', hk', hx⟩ := hq
    cases d' with
    | dl _ _ _ => simp at hx
    | sl n' seq' =>
      simp only [List.mem_cons, List.not_mem_nil, or_false] at hx
      have : k' = k := by rcases hx with rfl | rfl <;> simp at e <;> omega
      subst this
      have := getElem?_det ds k' _ _ hk hk'
      cases this

/-! ### re-reading a declared line -/

theorem domainRequest_existing (cfg : DomCfg) (r : Reg DKey) (fresh : Nat) (n : String) (l : Nat) (o : Obj DKey)
    (hn : n ≠ "") (h1 : r.findName n = some o) (h2 : r.findCanon (n, l) = some o)
    (h3 : ∀ b, r.findName (cnameOf n) = some b → b.canon.2 = l) :
    domainRequest cfg r fresh { name := some n, length := some l } = (r, .ret o.id false) := by
  rw [DomL.domainRequest_eq]
  have he : DomL.effName cfg r { name := some n, length := some l } = n := rfl
  have hlen : DomL.lengthOf cfg { name := some n, length := some l } = .ok (some l) := rfl
  have hemp : n.isEmpty = false := by simpa using hn
  rw [he, hlen]
  simp only [hemp, Bool.false_eq_true, if_false]
  unfold DomL.domTail
  simp only
  cases hp : r.findName (cnameOf n) with
  | none => simp [Reg.call, Reg.decide, h1, h2]
  | some b =>
    simp only [ne_eq, h3 b hp, not_true_eq_false, if_false]
    simp [Reg.call, Reg.decide, h1, h2]

/-- the names of the explicit registry determine the object -/
theorem dObjs_by_name (ds : List Decl) (hsys : Sys ds) (k : Nat) (d : Decl) (hk : ds[k]? = some d) (a : Obj DKey)
    (ha : a ∈ dObjs ds) :
    (a.name = d.name → a = newDom (2 * k) d.name d.len) ∧
    (a.name = star d.name → a = newDom (2 * k + 1) (star d.name) d.len) := by
  rw [dObjs, mem_perDecl] at ha
  obtain ⟨k', d', hk', hx⟩ := ha
  simp only [List.mem_cons, List.not_mem_nil, or_false] at hx
  have hbd := hsys.base d (List.mem_of_getElem? hk)
  have hbd' := hsys.base d' (List.mem_of_getElem? hk')
  rcases hx with rfl | rfl
  · constructor
    · intro e
      simp only [newDom] at e
      have := name_pos ds hsys.distinct k k' d d' hk hk' e.symm
      subst this
      rw [getElem?_det ds k d d' hk hk']
    · intro e
      simp only [newDom] at e
      exact absurd e (base_ne_star _ _ hbd')
  · constructor
    · intro e
      simp only [newDom] at e
      exact absurd e.symm (base_ne_star _ _ hbd)
    · intro e
      simp only [newDom] at e
      have := name_pos ds hsys.distinct k k' d d' hk hk' (star_inj _ _ e).symm
      subst this
      rw [getElem?_det ds k d d' hk hk']

/-- **a declared line read on its own into the final state returns the very object the document created** -/
theorem reread (sl : Slots) (hcd : sl.dom < 4) (cs : Nat) (ds : List Decl) (hsys : Sys ds) (k : Nat) (d : Decl)
    (hk : ds[k]? = some d) :
    ∃ s'', (S sl.dom cs ds).readLine sl d.line = (s'', .ok (.dom (2 * k))) := by
  have hbd := hsys.base d (List.mem_of_getElem? hk)
  have hmem : newDom (2 * k) d.name d.len ∈ dObjs ds := by
    rw [dObjs, mem_perDecl]; exact ⟨k, d, hk, by simp⟩
  have hmem2 : newDom (2 * k + 1) (star d.name) d.len ∈ dObjs ds := by
    rw [dObjs, mem_perDecl]; exact ⟨k, d, hk, by simp⟩
  -- the registry of the slot class
  obtain ⟨cr0, h0, _⟩ := baseDoms_get sl.dom hcd
  have hget := setObjs_get baseDoms sl.dom (dObjs ds) cr0 h0
  have hdoms : (S sl.dom cs ds).w.doms = setObjs baseDoms sl.dom (dObjs ds) := rfl
  have hfn : Reg.findName ({ objs := dObjs ds, autoId := 1 } : Reg DKey) d.name = some (newDom (2 * k) d.name d.len) := by
    unfold Reg.findName
    apply RegL.find?_unique _ _ _ hmem (by simp [newDom])
    intro a ha hp
    exact (dObjs_by_name ds hsys k d hk a ha).1 (by simpa using hp)
  have hfc : Reg.findCanon ({ objs := dObjs ds, autoId := 1 } : Reg DKey) (d.name, d.len) =
      some (newDom (2 * k) d.name d.len) := by
    unfold Reg.findCanon
    apply RegL.find?_unique _ _ _ hmem (by simp [newDom])
    intro a ha hp
    obtain ⟨_, _, _, hkeys, hcan⟩ := dObjs_name ds a ha
    have : (d.name, d.len) ∈ a.keys := by simpa using hp
    rw [hkeys, List.mem_singleton] at this
    exact (dObjs_by_name ds hsys k d hk a ha).1 (by rw [← hcan, ← this])
  have hpart : ∀ b, Reg.findName ({ objs := dObjs ds, autoId := 1 } : Reg DKey) (cnameOf d.name) = some b →
      b.canon.2 = d.len := by
    intro b hb
    obtain ⟨hbm, hbn⟩ := Reg.findName_some _ _ b hb
    rw [cnameOf_base _ hbd] at hbn
    rw [(dObjs_by_name ds hsys k d hk b hbm).2 hbn]; rfl
  have hout : ((S sl.dom cs ds).w.mkDom sl.dom { name := some d.name, length := some d.len }).2 = .ret (2 * k) false := by
    rw [ReaderL.mkDom_eq, ReaderL.withClass_some _ _ _ _ (by rw [hdoms]; exact hget)]
    simp only [hdoms, effId_doms sl.dom hcd]
    rw [domainRequest_existing _ { objs := dObjs ds, autoId := 1 } _ d.name d.len _ hbd.1 hfn hfc hpart]
    rfl
  have hreq := domReq_of_mkDom (S sl.dom cs ds) sl { name := some d.name, length := some d.len }
    ((S sl.dom cs ds).w.mkDom sl.dom { name := some d.name, length := some d.len }).1 (2 * k) false
    (by rw [← hout])
  exact ⟨_, readLine_decl (S sl.dom cs ds) sl d (hsys.ok d (List.mem_of_getElem? hk)) _ _ hreq⟩

end Dsd.Sig
