/-
(c) a dtype given together with a CONSISTENT length: code and model proceed exactly as for the same request without dtype.
-/
import DsdVerif.Lemmas.PyDomainEqIdent3d

namespace Dsd.PyDomainEq
open Dsd Dsd.Gen Dsd.PySingletonL

theorem identifiers_dtype_consistent_py (request : Py.Dom.Req → Py.Dom.M Nat) (tmp cutoff sh lo : Nat) (pre : String)
    (name : Option String) (l : Nat) (pfx : Option String) (d : String) (hd : d = "short" ∨ d = "long")
    (hc : (d == "short") = decide (l ≤ cutoff)) (s : Py.Dom.Cls) :
    (py_DomainS_identifiers request tmp cutoff sh lo pre name (some l) pfx (some d)).exec s =
      (py_DomainS_identifiers request tmp cutoff sh lo pre name (some l) pfx none).exec s := by
  have ht : Py.Dom.truthyOS (some d) = true := by rcases hd with rfl | rfl <;> decide
  have ht0 : Py.Dom.truthyOS none = false := rfl
  have hc' : (!((some d == some "short") == decide (l ≤ cutoff))) = false := by
    have : (some d == some "short") = (d == "short") := by simp
    rw [this, hc]; simp
  unfold py_DomainS_identifiers
  simp only [exec_ite, exec_bind, exec_get, exec_pure, exec_lift, Py.unwrap, pure_ok, Option.isNone_none, Option.isNone_some, if_true,
    if_false, Bool.false_eq_true, ht, ht0, hc']

theorem identifiers_dtype_consistent_model (nested : Reg DKey → DomReq → Reg DKey × Out) (cfg : DomCfg) (r : Reg DKey)
    (name : Option String) (l : Nat) (pfx : Option String) (d : DType) (hc : (d == .short) = decide (l ≤ cfg.cutoff)) :
    DomFull.identifiers nested cfg r { name := name, length := some l, prefix_ := pfx, dtype := some d } =
      DomFull.identifiers nested cfg r { name := name, length := some l, prefix_ := pfx } := by
  unfold DomFull.identifiers DomFull.lengthArg
  simp [hc]

end Dsd.PyDomainEq
