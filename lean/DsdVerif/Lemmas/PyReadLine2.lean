/-
More branch equalities between the translated `read_pil_line` (Gen/PyReadLine.lean) under `PyReadLineL.modelEnv` and `ReaderFull.readLineFull`:
how a request of the model's world (`req`) runs in the translation's monad, and the `sl-domain` branch.
-/
import DsdVerif.Lemmas.PyReadLine

namespace Dsd.PyReadLineL
open Dsd Dsd.PP Dsd.Gen Dsd.ReaderFull

/-- running a request followed by a continuation: the world after the request, or the request's exception -/
theorem exec_req_bind {α β} (f : RState → RState × Except RErr α) (k : α → Py.MS RState β) (s : RState) :
    Py.MS.exec (req f >>= k) s =
      (match f s with
       | (s', .ok a) => Py.MS.exec (k a) s'
       | (s', .error e) => (.error (ofRErr e), s')) := by
  simp only [Py.MS.exec, req, bind, ExceptT.bind, ExceptT.mk, ExceptT.run, ExceptT.bindCont, StateT.bind, StateT.run]
  rcases f s with ⟨s', (e | a)⟩ <;> rfl

theorem exec_map_req {α β} (f : RState → RState × Except RErr α) (g : α → β) (s : RState) :
    Py.MS.exec (g <$> req f) s =
      (match f s with
       | (s', .ok a) => (.ok (g a), s')
       | (s', .error e) => (.error (ofRErr e), s')) := by
  simp only [Py.MS.exec, req, Functor.map, ExceptT.map, ExceptT.mk, ExceptT.run, StateT.map, StateT.run, bind, StateT.bind, pure, StateT.pure]
  rcases f s with ⟨s', (e | a)⟩ <;> rfl

macro "rl_simp2" : tactic =>
  `(tactic| simp [py_read_pil_line, modelEnv, Py.idx, Py.treeEqStr, Py.treeInt, Py.treeLen, RState.readLineFull, item, isStr,
      lineSl, outOf, named, asStr, pyInt, exec_req_bind, exec_map_req, *])

set_option hygiene false in
macro "rl_fin2" : tactic =>
  `(tactic| first | done | rfl | (generalize ctorDomain _ _ _ = r; rcases r with ⟨s1, (e | id)⟩ <;> rfl))

/-- the `sl-domain` branch of the translation is the branch `lineSl` of the model, for a line whose name and sequence constraint are strs (the
    grammar's shape; for a LIST in one of these places the model reports TypeError at once, the code goes on - `len` of a list is fine - and
    fails later, after the domain was requested) -/
theorem sl_eq (sl : Slots) (RT : Py.StrSet) (g12 : Py.FloatLit → String) (strL : List Tree → String) (name con : String) (rest : List Tree)
    (s : RState) :
    Py.MS.exec (py_read_pil_line (modelEnv sl RT g12 strL) (.tok "sl-domain" :: .tok name :: .tok con :: rest)) s =
      outOf (.tok "sl-domain" :: .tok name :: .tok con :: rest) (s.readLineFull sl (.tok "sl-domain" :: .tok name :: .tok con :: rest)) := by
  rcases rest with _ | ⟨(l3 | g3), _ | ⟨l4, more⟩⟩
  · rl_simp2; rl_fin2
  · cases hn : l3.toNat? with
    | none => rl_simp2; rl_fin2
    | some n => by_cases hc : n = con.length <;> rl_simp2 <;> rl_fin2
  · rl_simp2; rl_fin2
  · rl_simp2; rl_fin2
  · rl_simp2; rl_fin2

/-- running `m` followed by a continuation -/
theorem exec_bind {α β} (m : Py.MS RState α) (k : α → Py.MS RState β) (s : RState) :
    Py.MS.exec (m >>= k) s =
      (match Py.MS.exec m s with
       | (.ok a, s') => Py.MS.exec (k a) s'
       | (.error e, s') => (.error e, s')) := by
  simp only [Py.MS.exec, bind, ExceptT.bind, ExceptT.mk, ExceptT.run, ExceptT.bindCont, StateT.bind, StateT.run]
  rcases m s with ⟨(e | a), s'⟩ <;> rfl

theorem exec_pure {α} (a : α) (s : RState) : Py.MS.exec (pure a : Py.MS RState α) s = (.ok a, s) := rfl

theorem named_tok {α} (d : String) (f : String → RState → RState × Except RErr α) : named (.tok d) f = req (fun s => f d s) := rfl

/-- **a list comprehension of requests is the model's `listComp`**: `[G(x) for x in names]` over strs, in order, the first exception abandons
    the list and keeps the world as it is then -/
theorem mapM_named {β} (F : RState → String → RState × Except RErr β) (ds : List String) (s : RState) :
    Py.MS.exec (List.mapM (fun (d : Tree) => named d (fun n s => F s n)) (ds.map Tree.tok)) s =
      (match listComp F s ds with
       | (s', .ok l) => (.ok l, s')
       | (s', .error e) => (.error (ofRErr e), s')) := by
  induction ds generalizing s with
  | nil => rfl
  | cons d ds ih =>
    simp only [List.map_cons, List.mapM_cons, named_tok, exec_req_bind, listComp]
    rcases F s d with ⟨s1, (e | y)⟩
    · rfl
    · simp only [exec_bind, ih s1, exec_pure]
      rcases listComp F s1 ds with ⟨s2, (e | ys)⟩ <;> rfl

theorem asStrs_map (ds : List String) : asStrs (ds.map Tree.tok) = .ok ds := by
  induction ds with
  | nil => rfl
  | cons d ds ih => simp only [asStrs, List.map_cons, List.mapM_cons, asStr] at *; rw [ih]; rfl

/-- the `composite-domain` branch of the translation is the branch `lineComposite` of the model, for a line whose name is a str and whose
    third item is a list of strs (for a list that contains a LIST the model reports TypeError before any request, the code requests the domains
    before it) -/
theorem composite_eq (sl : Slots) (RT : Py.StrSet) (g12 : Py.FloatLit → String) (strL : List Tree → String) (name : String) (ds : List String)
    (rest : List Tree) (s : RState) :
    Py.MS.exec (py_read_pil_line (modelEnv sl RT g12 strL) (.tok "composite-domain" :: .tok name :: .grp (ds.map .tok) :: rest)) s =
      outOf (.tok "composite-domain" :: .tok name :: .grp (ds.map .tok) :: rest)
        (s.readLineFull sl (.tok "composite-domain" :: .tok name :: .grp (ds.map .tok) :: rest)) := by
  simp [py_read_pil_line, modelEnv, Py.idx, Py.treeEqStr, Py.treeItems, RState.readLineFull, item, isStr, lineComposite, outOf, asList,
    asStr, asStrs_map, Except.bind, exec_bind, mapM_named, named_tok, exec_req_bind, exec_map_req]
  have h := mapM_named (fun s d => ctorDomain sl s { name := some d }) ds s
  simp only [List.mapM_map] at h
  rw [h]
  generalize listComp (fun s d => ctorDomain sl s { name := some d }) s ds = r
  rcases r with ⟨s1, (e | sq)⟩
  · rfl
  · simp only
    generalize ctorStrand sl s1 (some (List.map some sq)) (some name) = r2
    rcases r2 with ⟨s2, (e | id)⟩ <;> rfl

end Dsd.PyReadLineL
