/-
Class independence of the reader (C15), line level: on a world whose slot-class strands are built from slot-class
domains, every reader operation — for ANY token list — keeps that invariant, never touches a registry of a
non-slot class, keeps all handles, and returns objects of the slot classes.
-/
import DsdVerif.Lemmas.ReaderFrame
import DsdVerif.Lemmas.ReaderBranches

namespace Dsd.RdL
open Dsd Dsd.PP

def slotOf (sl : Slots) : Kind → Nat
  | .dom => sl.dom | .strand => sl.strand | .cplx => sl.cplx | .macro => sl.macr | .rxn => sl.rxn

/-- the registries of all non-slot classes hold the same objects -/
structure Frame (sl : Slots) (w w' : World) : Prop where
  doms : SameOff sl.dom w.doms w'.doms
  strands : SameOff sl.strand w.strands w'.strands
  cplxs : SameOff sl.cplx w.cplxs w'.cplxs
  macros : SameOff sl.macr w.macros w'.macros
  rxns : SameOff sl.rxn w.rxns w'.rxns

theorem Frame.refl (sl : Slots) (w : World) : Frame sl w w :=
  ⟨SameOff.refl _ _, SameOff.refl _ _, SameOff.refl _ _, SameOff.refl _ _, SameOff.refl _ _⟩
theorem Frame.trans {sl : Slots} {a b c : World} (h1 : Frame sl a b) (h2 : Frame sl b c) : Frame sl a c :=
  ⟨h1.doms.trans h2.doms, h1.strands.trans h2.strands, h1.cplxs.trans h2.cplxs, h1.macros.trans h2.macros,
    h1.rxns.trans h2.rxns⟩

theorem FrameK.frame {k : Kind} {c : Nat} {w w' : World} (h : FrameK k c w w') (sl : Slots) (hc : c = slotOf sl k) :
    Frame sl w w' := by
  obtain ⟨h1, h2, h3, h4, h5⟩ := h
  subst hc
  cases k <;> simp only [slotOf, reduceCtorEq, if_true, if_false] at h1 h2 h3 h4 h5 <;>
    exact ⟨by first | exact h1 | exact SameOff.of_eq _ h1, by first | exact h2 | exact SameOff.of_eq _ h2,
      by first | exact h3 | exact SameOff.of_eq _ h3, by first | exact h4 | exact SameOff.of_eq _ h4,
      by first | exact h5 | exact SameOff.of_eq _ h5⟩

/-- strands of the slot class are built from domains of the slot class -/
def SlotStrands (sl : Slots) (w : World) : Prop :=
  ∀ n ∈ w.nodes, n.kind = .strand → n.cls = sl.strand → ∀ ch ∈ n.children, has w .dom sl.dom ch

/-- the invariant of the reader's world -/
structure Inv (sl : Slots) (w : World) : Prop where
  wf : WF w
  ss : SlotStrands sl w

theorem inv_empty (sl : Slots) : Inv sl ({} : World) := ⟨wf_empty, by intro n hn; simp at hn⟩

/-- what an operation does to the world: nothing is lost or touched off the slot classes, and whatever is new
    carries an identity at or above the old counter -/
structure LS (sl : Slots) (w w' : World) : Prop where
  has : ∀ k c i, has w k c i → has w' k c i
  frame : Frame sl w w'
  held : ∀ x ∈ w.held, x ∈ w'.held
  next : w.nextId ≤ w'.nextId
  nodesNew : ∀ n ∈ w'.nodes, n ∈ w.nodes ∨ w.nextId ≤ n.id
  hasNew : ∀ k c i, RdL.has w' k c i → RdL.has w k c i ∨ w.nextId ≤ i

theorem LS.refl (sl : Slots) (w : World) : LS sl w w :=
  ⟨fun _ _ _ h => h, Frame.refl sl w, fun _ h => h, Nat.le_refl _, fun _ h => Or.inl h, fun _ _ _ h => Or.inl h⟩
theorem LS.trans {sl : Slots} {a b c : World} (h1 : LS sl a b) (h2 : LS sl b c) : LS sl a c := by
  refine ⟨fun k c' i h => h2.has k c' i (h1.has k c' i h), h1.frame.trans h2.frame, fun x h => h2.held x (h1.held x h),
    Nat.le_trans h1.next h2.next, ?_, ?_⟩
  · intro n hn
    rcases h2.nodesNew n hn with h | h
    · exact h1.nodesNew n h
    · exact Or.inr (Nat.le_trans h1.next h)
  · intro k c' i hh
    rcases h2.hasNew k c' i hh with h | h
    · exact h1.hasNew k c' i h
    · exact Or.inr (Nat.le_trans h1.next h)

/-- one request to the slot class of its kind -/
theorem op_step (sl : Slots) (w w' : World) (k : Kind) (c : Nat) (children : List Nat) (out : Out)
    (g : GrowF w w' k c children out) (f : OpFacts k c w w' out) (hc : c = slotOf sl k) (hi : Inv sl w)
    (hch : ∀ ch ∈ children, HasNode w ch) (hss : k = .strand → ∀ ch ∈ children, has w .dom sl.dom ch) :
    Inv sl w' ∧ LS sl w w' := by
  refine ⟨⟨g.wf hi.wf hch, ?_⟩, ⟨g.hasOld, f.1.frame sl hc, f.2.1, ?_, ?_, ?_⟩⟩
  · intro n hn hk hcls ch hchn
    rcases g.node_cases n hn with hn | ⟨rfl, _⟩
    · exact g.hasOld _ _ _ (hi.ss n hn hk hcls ch hchn)
    · exact g.hasOld _ _ _ (hss hk ch hchn)
  · rw [g.next]; unfold nextOf; split <;> omega
  · intro n hn
    rcases g.node_cases n hn with hn | ⟨rfl, _⟩
    · exact Or.inl hn
    · exact Or.inr (Nat.le_refl _)
  · intro k' c' i hh
    rcases g.hasNew k' c' i hh with h | ⟨_, hi', _, _⟩
    · exact Or.inl h
    · exact Or.inr (by omega)

theorem IsDomOf.node {sl : Slots} {w : World} (h : WF w) {i : Nat} (hd : has w .dom sl.dom i) : HasNode w i := by
  obtain ⟨n, hn, hi, _⟩ := h.objNode .dom sl.dom i hd
  exact ⟨n, hn, hi⟩

theorem has_node {w : World} (h : WF w) {k : Kind} {c i : Nat} (hd : has w k c i) : HasNode w i := by
  obtain ⟨n, hn, hi, _⟩ := h.objNode k c i hd
  exact ⟨n, hn, hi⟩

/-! ### domain requests -/

theorem domReq_fs (s : RState) (sl : Slots) (hi : Inv sl s.w) (hsl : SlotsOK sl) (n : String) (len : Option Nat) :
    Inv sl (s.domReq sl { name := some n, length := len }).1.w ∧
    LS sl s.w (s.domReq sl { name := some n, length := len }).1.w ∧
    (∀ id, (s.domReq sl { name := some n, length := len }).2 = .ok id →
      has (s.domReq sl { name := some n, length := len }).1.w .dom sl.dom id ∧
      id ∈ (s.domReq sl { name := some n, length := len }).1.w.held) := by
  obtain ⟨cr, hc⟩ := class_some s.w.doms sl.dom hi.wf.lens.1 hsl.dom
  have g := mkDom_growF s.w sl.dom cr hc n len
  have f := mkDom_facts s.w sl.dom { name := some n, length := len }
  obtain ⟨hi', hls⟩ := op_step sl _ _ .dom sl.dom [] _ g f rfl hi (by simp) (by intro h; cases h)
  unfold RState.domReq
  generalize s.w.mkDom sl.dom { name := some n, length := len } = res at g f hi' hls
  obtain ⟨w', out⟩ := res
  simp only at g f hi' hls ⊢
  cases out with
  | ret i b =>
    refine ⟨hi', hls, ?_⟩
    intro id hid
    simp only [Except.ok.injEq] at hid
    subst hid
    exact ⟨g.ret i b rfl, f.2.2 i b rfl⟩
  | _ => exact ⟨hi', hls, by intro id hid; simp at hid⟩

theorem domList_fs (sl : Slots) (hsl : SlotsOK sl) (names : List String) :
    ∀ (s : RState), Inv sl s.w →
    Inv sl (s.domList sl names).1.w ∧ LS sl s.w (s.domList sl names).1.w ∧
    (∀ ids, (s.domList sl names).2 = .ok ids → ∀ id ∈ ids, has (s.domList sl names).1.w .dom sl.dom id) := by
  induction names with
  | nil =>
    intro s hi
    simp only [RState.domList]
    exact ⟨hi, LS.refl _ _, by intro ids h; cases h; simp⟩
  | cons n ns ih =>
    intro s hi
    obtain ⟨a1, a2, a3⟩ := domReq_fs s sl hi hsl n none
    simp only [RState.domList]
    generalize s.domReq sl { name := some n } = r1 at a1 a2 a3
    obtain ⟨s1, res1⟩ := r1
    cases res1 with
    | error e =>
      simp only at a1 a2 a3 ⊢
      exact ⟨a1, a2, by intro ids h; cases h⟩
    | ok id =>
      simp only at a1 a2 a3 ⊢
      obtain ⟨b1, b2, b3⟩ := ih s1 a1
      generalize s1.domList sl ns = r2 at b1 b2 b3
      obtain ⟨s2, res2⟩ := r2
      cases res2 with
      | error e =>
        simp only at b1 b2 b3 ⊢
        exact ⟨b1, a2.trans b2, by intro ids h; cases h⟩
      | ok ids =>
        simp only at b1 b2 b3 ⊢
        refine ⟨b1, a2.trans b2, ?_⟩
        intro ids' h
        cases h
        intro x hx
        rcases List.mem_cons.mp hx with rfl | hx
        · exact b2.has _ _ _ (a3 _ rfl).1
        · exact b3 ids rfl x hx

/-! ### strands -/

theorem strandDomains_fs (s : RState) (sl : Slots) (hi : Inv sl s.w) (hsl : SlotsOK sl) (n : String) :
    Inv sl (s.strandDomains sl n).1.w ∧ LS sl s.w (s.strandDomains sl n).1.w ∧
    (∀ ds, (s.strandDomains sl n).2 = .ok ds → ∀ d ∈ ds, has (s.strandDomains sl n).1.w .dom sl.dom d) := by
  obtain ⟨cr, hc⟩ := class_some s.w.strands sl.strand hi.wf.lens.2.1 hsl.strand
  have g := (mkStrand_grow s.w sl.strand cr hc none n).toF
  have f := mkStrand_facts s.w sl.strand none (some n)
  obtain ⟨hi', hls⟩ := op_step sl _ _ .strand sl.strand _ _ g f rfl hi (by simp) (by simp)
  unfold RState.strandDomains
  generalize s.w.mkStrand sl.strand none (some n) = res at g f hi' hls
  obtain ⟨w', out⟩ := res
  simp only at g f hi' hls ⊢
  cases out with
  | ret i b =>
    refine ⟨hi', hls, ?_⟩
    intro ds hds
    simp only [Except.ok.injEq] at hds
    subst hds
    obtain ⟨nd, h1, h2, _, h4, h5⟩ := wf_node_of_has w' hi'.wf .strand sl.strand i (g.ret i b rfl)
    rw [h1]
    simp only [Option.map_some, Option.getD_some]
    exact hi'.ss nd h2 h4 h5
  | _ => exact ⟨hi', hls, by intro ds hds; simp at hds⟩

/-- the class of a registered domain is read off its node -/
theorem domObj_class (w : World) (h : WF w) (c i : Nat) (hd : has w .dom c i) :
    ∃ cr o, w.domObj i = some (c, o) ∧ w.doms[c]? = some cr := by
  obtain ⟨cr, hcr, o, ho, hoi⟩ := hd
  obtain ⟨n, hn, _, _, hk, hc⟩ := wf_node_of_has w h .dom c i ⟨cr, hcr, o, ho, hoi⟩
  unfold World.domObj
  rw [hn]
  simp only [hk, if_true, hc, hcr, Option.bind_some]
  have : (cr.reg.findId i).isSome := by
    unfold Reg.findId
    rw [List.find?_isSome]
    exact ⟨o, ho, by simp [hoi]⟩
  obtain ⟨o', ho'⟩ := Option.isSome_iff_exists.mp this
  exact ⟨cr, o', by rw [ho']; rfl, rfl⟩

/-- `~d` for a domain of the slot class stays in the slot class -/
theorem invert_fs (sl : Slots) (w : World) (hi : Inv sl w) (i : Nat) (hd : has w .dom sl.dom i) :
    Inv sl (w.invert i).1 ∧ LS sl w (w.invert i).1 ∧
    (∀ j b, (w.invert i).2 = .ret j b → has (w.invert i).1 .dom sl.dom j ∧ j ∈ (w.invert i).1.held) := by
  obtain ⟨cr, o, h1, h2⟩ := domObj_class w hi.wf sl.dom i hd
  unfold World.invert
  rw [h1]
  simp only
  have g := mkDom_growF w sl.dom cr h2 (cnameOf o.name) (some o.canon.2)
  have f := mkDom_facts w sl.dom { name := some (cnameOf o.name), length := some o.canon.2 }
  obtain ⟨hi', hls⟩ := op_step sl _ _ .dom sl.dom [] _ g f rfl hi (by simp) (by intro h; cases h)
  exact ⟨hi', hls, fun j b hj => ⟨g.ret j b hj, f.2.2 j b hj⟩⟩

theorem invertAll_fs (sl : Slots) (ds : List Nat) : ∀ (s : RState), Inv sl s.w → (∀ d ∈ ds, has s.w .dom sl.dom d) →
    Inv sl (s.invertAll ds).1.w ∧ LS sl s.w (s.invertAll ds).1.w ∧
    (∀ ids, (s.invertAll ds).2 = .ok ids → ∀ id ∈ ids, has (s.invertAll ds).1.w .dom sl.dom id) := by
  induction ds with
  | nil =>
    intro s hi _
    simp only [RState.invertAll]
    exact ⟨hi, LS.refl _ _, by intro ids h; cases h; simp⟩
  | cons d ds ih =>
    intro s hi hg
    obtain ⟨a1, a2, a3⟩ := invert_fs sl s.w hi d (hg d List.mem_cons_self)
    simp only [RState.invertAll]
    generalize s.w.invert d = res at a1 a2 a3
    obtain ⟨w', out⟩ := res
    simp only at a1 a2 a3 ⊢
    cases out with
    | ret i b =>
      simp only
      obtain ⟨b1, b2, b3⟩ := ih { s with w := w' } a1 (fun x hx => a2.has _ _ _ (hg x (List.mem_cons_of_mem _ hx)))
      generalize RState.invertAll { s with w := w' } ds = r2 at b1 b2 b3
      obtain ⟨s2, res2⟩ := r2
      cases res2 with
      | error e =>
        simp only at b1 b2 b3 ⊢
        exact ⟨b1, a2.trans b2, by intro ids h; cases h⟩
      | ok ids =>
        simp only at b1 b2 b3 ⊢
        refine ⟨b1, a2.trans b2, ?_⟩
        intro ids' h
        cases h
        intro x hx
        rcases List.mem_cons.mp hx with rfl | hx
        · exact b2.has _ _ _ (a3 x b rfl).1
        · exact b3 ids rfl x hx
    | _ => exact ⟨a1, a2, by intro ds hds; simp at hds⟩

/-! ### look-ups by name -/

/-- a look-up function of the reader: a request to the slot class of kind `k` that creates no node with children -/
def LookOK (sl : Slots) (k : Kind) (f : World → String → World × Out) : Prop :=
  ∀ w n, Inv sl w → GrowF w (f w n).1 k (slotOf sl k) [] (f w n).2 ∧ OpFacts k (slotOf sl k) w (f w n).1 (f w n).2

theorem lookupAll_fs (sl : Slots) (f : World → String → World × Out) (k : Kind) (hf : LookOK sl k f)
    (names : List String) :
    ∀ (s : RState), Inv sl s.w →
    Inv sl (s.lookupAll f names).1.w ∧ LS sl s.w (s.lookupAll f names).1.w ∧
    (∀ ids, (s.lookupAll f names).2 = .ok ids → ∀ id ∈ ids, has (s.lookupAll f names).1.w k (slotOf sl k) id) := by
  induction names with
  | nil =>
    intro s hi
    simp only [RState.lookupAll]
    exact ⟨hi, LS.refl _ _, by intro ids h; cases h; simp⟩
  | cons n ns ih =>
    intro s hi
    obtain ⟨g, fa⟩ := hf s.w n hi
    obtain ⟨hi', hls⟩ := op_step sl _ _ k _ [] _ g fa rfl hi (by simp) (by simp)
    simp only [RState.lookupAll]
    generalize f s.w n = res at g fa hi' hls
    obtain ⟨w', out⟩ := res
    simp only at g fa hi' hls ⊢
    cases out with
    | ret i b =>
      simp only
      obtain ⟨b1, b2, b3⟩ := ih { s with w := w' } hi'
      generalize RState.lookupAll { s with w := w' } f ns = r2 at b1 b2 b3
      obtain ⟨s2, res2⟩ := r2
      cases res2 with
      | error e =>
        simp only at b1 b2 b3 ⊢
        exact ⟨b1, hls.trans b2, by intro ids h; cases h⟩
      | ok ids =>
        simp only at b1 b2 b3 ⊢
        refine ⟨b1, hls.trans b2, ?_⟩
        intro ids' h
        cases h
        intro x hx
        rcases List.mem_cons.mp hx with rfl | hx
        · exact b2.has _ _ _ (g.ret x b rfl)
        · exact b3 ids rfl x hx
    | _ => exact ⟨hi', hls, by intro ds hds; simp at hds⟩

theorem lookCplx_ok (sl : Slots) (hsl : SlotsOK sl) :
    LookOK sl .cplx (fun w n => ((w.mkCplx sl.cplx none [] (some n) none).fst, (w.mkCplx sl.cplx none [] (some n) none).snd.fst)) := by
  intro w n hi
  obtain ⟨cr, hc⟩ := class_some w.cplxs sl.cplx hi.wf.lens.2.2.1 hsl.cplx
  exact ⟨(mkCplx_grow w sl.cplx cr hc none [] n).toF, mkCplx_facts w sl.cplx none [] (some n) none⟩

theorem lookMacro_ok (sl : Slots) (hsl : SlotsOK sl) :
    LookOK sl .macro (fun w n => w.mkMacro sl.macr none (some n)) := by
  intro w n hi
  obtain ⟨cr, hc⟩ := class_some w.macros sl.macr hi.wf.lens.2.2.2.1 hsl.macr
  exact ⟨(mkMacro_grow w sl.macr cr hc none n).toF, mkMacro_facts w sl.macr none (some n)⟩

/-! ### the fallback loop of the kernel branch -/

def FSpec (sl : Slots) (s : RState) (r : RState × Except RErr (List (Option Nat) × List Char)) : Prop :=
  Inv sl r.1.w ∧ LS sl s.w r.1.w ∧
  (∀ ids st, r.2 = .ok (ids, st) → ∀ id, some id ∈ ids → has r.1.w .dom sl.dom id)

theorem FSpec.err {sl : Slots} {s s1 : RState} {e : RErr} (h1 : Inv sl s1.w) (h2 : LS sl s.w s1.w) :
    FSpec sl s (s1, .error e) := ⟨h1, h2, by intro ids st h; cases h⟩

theorem FSpec.cont {sl : Slots} {s s1 : RState} (hext : LS sl s.w s1.w) (ds : List Nat)
    (hds : ∀ d ∈ ds, has s1.w .dom sl.dom d) (c : Char)
    (r2 : RState × Except RErr (List (Option Nat) × List Char)) (h2 : FSpec sl s1 r2) :
    FSpec sl s (kcont ds c r2) := by
  unfold kcont
  obtain ⟨s2, res2⟩ := r2
  obtain ⟨b1, b2, b3⟩ := h2
  cases res2 with
  | error e => exact FSpec.err b1 (hext.trans b2)
  | ok p =>
    obtain ⟨ids, st⟩ := p
    refine ⟨b1, hext.trans b2, ?_⟩
    intro ids' st' h id hid
    simp only [Except.ok.injEq, Prod.mk.injEq] at h
    obtain ⟨rfl, _⟩ := h
    simp only [List.mem_append, List.mem_map, Option.some.injEq, exists_eq_right] at hid
    rcases hid with hid | hid
    · exact b2.has _ _ _ (hds id hid)
    · exact b3 ids st rfl id hid

theorem expandKernel_fs (sl : Slots) (hsl : SlotsOK sl) (names : List String) :
    ∀ (struct : List Char) (s : RState), Inv sl s.w → FSpec sl s (s.expandKernel sl names struct) := by
  induction names with
  | nil =>
    intro struct s hi
    simp only [RState.expandKernel]
    exact ⟨hi, LS.refl _ _, by intro ids st h; cases h; simp⟩
  | cons n ns ih =>
    intro struct s hi
    cases struct with
    | nil => simp only [RState.expandKernel]; exact FSpec.err hi (LS.refl _ _)
    | cons c cs =>
      simp only [RState.expandKernel]
      split
      · have h2 := ih cs s hi
        generalize s.expandKernel sl ns cs = r2 at h2
        obtain ⟨s2, res2⟩ := r2
        obtain ⟨b1, b2, b3⟩ := h2
        cases res2 with
        | error e => exact FSpec.err b1 b2
        | ok p =>
          obtain ⟨ids, st⟩ := p
          refine ⟨b1, b2, ?_⟩
          intro ids' st' h id hid
          simp only [Except.ok.injEq, Prod.mk.injEq] at h
          obtain ⟨rfl, _⟩ := h
          simp only [List.mem_cons, reduceCtorEq, false_or] at hid
          exact b3 ids st rfl id hid
      · obtain ⟨a1, a2, a3⟩ := domReq_fs s sl hi hsl n none
        generalize s.domReq sl { name := some n } = r1 at a1 a2 a3
        obtain ⟨s1, res1⟩ := r1
        simp only at a1 a2 a3
        cases res1 with
        | ok id =>
          simp only
          exact FSpec.cont a2 [id] (by intro d hd; simp at hd; rw [hd]; exact (a3 _ rfl).1) c _ (ih cs s1 a1)
        | error e =>
          cases e with
          | singleton =>
            simp only
            obtain ⟨p1, p2, p3⟩ := strandDomains_fs s1 sl a1 hsl n
            generalize s1.strandDomains sl n = r2 at p1 p2 p3
            obtain ⟨s2, res2⟩ := r2
            simp only at p1 p2 p3
            cases res2 with
            | ok ds =>
              simp only
              exact FSpec.cont (a2.trans p2) ds (p3 ds rfl) c _ (ih cs s2 p1)
            | error e2 =>
              cases e2 with
              | singleton =>
                simp only
                obtain ⟨q1, q2, q3⟩ := strandDomains_fs s2 sl p1 hsl (compName n)
                generalize s2.strandDomains sl (compName n) = r3 at q1 q2 q3
                obtain ⟨s3, res3⟩ := r3
                simp only at q1 q2 q3
                cases res3 with
                | ok ds =>
                  simp only
                  obtain ⟨t1, t2, t3⟩ := invertAll_fs sl ds.reverse s3 q1
                    (fun d hd => q3 ds rfl d (List.mem_reverse.mp hd))
                  generalize s3.invertAll ds.reverse = r4 at t1 t2 t3
                  obtain ⟨s4, res4⟩ := r4
                  simp only at t1 t2 t3
                  cases res4 with
                  | ok ids4 =>
                    simp only
                    exact FSpec.cont ((a2.trans p2).trans (q2.trans t2)) ids4 (t3 ids4 rfl) c _ (ih cs s4 t1)
                  | error e4 =>
                    simp only
                    exact FSpec.err t1 ((a2.trans p2).trans (q2.trans t2))
                | error e3 =>
                  cases e3 <;> simp only <;> exact FSpec.err q1 ((a2.trans p2).trans q2)
              | _ => simp only; exact FSpec.err p1 (a2.trans p2)
          | _ => simp only; exact FSpec.err a1 a2

theorem collect_fs (sl : Slots) (hsl : SlotsOK sl) (names : List String) : ∀ (s : RState), Inv sl s.w →
    Inv sl (RState.readLine.collect sl s names).1.w ∧ LS sl s.w (RState.readLine.collect sl s names).1.w ∧
    (∀ st, (RState.readLine.collect sl s names).2 = .ok st → ∀ ds ∈ st, ∀ d ∈ ds,
      has (RState.readLine.collect sl s names).1.w .dom sl.dom d) := by
  induction names with
  | nil =>
    intro s hi
    simp only [RState.readLine.collect]
    exact ⟨hi, LS.refl _ _, by intro st h; cases h; simp⟩
  | cons n ns ih =>
    intro s hi
    obtain ⟨a1, a2, a3⟩ := strandDomains_fs s sl hi hsl n
    simp only [RState.readLine.collect]
    generalize s.strandDomains sl n = r1 at a1 a2 a3
    obtain ⟨s1, res1⟩ := r1
    cases res1 with
    | error e =>
      simp only at a1 a2 a3 ⊢
      exact ⟨a1, a2, by intro ids h; cases h⟩
    | ok ds =>
      simp only at a1 a2 a3 ⊢
      obtain ⟨b1, b2, b3⟩ := ih s1 a1
      generalize RState.readLine.collect sl s1 ns = r2 at b1 b2 b3
      obtain ⟨s2, res2⟩ := r2
      cases res2 with
      | error e =>
        simp only at b1 b2 b3 ⊢
        exact ⟨b1, a2.trans b2, by intro ids h; cases h⟩
      | ok st =>
        simp only at b1 b2 b3 ⊢
        refine ⟨b1, a2.trans b2, ?_⟩
        intro st' h
        cases h
        intro ds' hds' d hd
        rcases List.mem_cons.mp hds' with rfl | hds'
        · exact b2.has _ _ _ (a3 _ rfl d hd)
        · exact b3 st rfl ds' hds' d hd

/-! ### `read_pil_line` on any token list -/

/-- the object a line yields belongs to the slot class of its kind and is held -/
def ObjIn (sl : Slots) (w : World) : RObj → Prop
  | .dom id => has w .dom sl.dom id ∧ id ∈ w.held
  | .strand id => has w .strand sl.strand id ∧ id ∈ w.held
  | .cplx id => has w .cplx sl.cplx id ∧ id ∈ w.held
  | .macro id => has w .macro sl.macr id ∧ id ∈ w.held
  | .rxn id _ => has w .rxn sl.rxn id ∧ id ∈ w.held
  | .other => True

def RSpec (sl : Slots) (s : RState) (r : RState × Except RErr RObj) : Prop :=
  Inv sl r.1.w ∧ LS sl s.w r.1.w ∧ ∀ obj, r.2 = .ok obj → ObjIn sl r.1.w obj

theorem RSpec.err {sl : Slots} {s s1 : RState} {e : RErr} (h1 : Inv sl s1.w) (h2 : LS sl s.w s1.w) :
    RSpec sl s (s1, .error e) := ⟨h1, h2, by intro o h; cases h⟩

theorem RSpec.other {sl : Slots} {s s1 : RState} (h1 : Inv sl s1.w) (h2 : LS sl s.w s1.w) :
    RSpec sl s (s1, .ok .other) := ⟨h1, h2, by intro o h; cases h; trivial⟩

theorem RSpec.ite {sl : Slots} {s : RState} (c : Prop) [Decidable c] (a b : RState × Except RErr RObj)
    (ha : RSpec sl s a) (hb : RSpec sl s b) : RSpec sl s (if c then a else b) := by
  split <;> assumption


/-- the request for a strand, complex, macrostate or reaction that ends a branch -/
theorem finish_step (sl : Slots) (s s1 : RState) (w' : World) (out : Out) (k : Kind) (children : List Nat)
    (hls0 : LS sl s.w s1.w) (hi1 : Inv sl s1.w)
    (g : GrowF s1.w w' k (slotOf sl k) children out) (f : OpFacts k (slotOf sl k) s1.w w' out)
    (hch : ∀ ch ∈ children, HasNode s1.w ch) (hss : k = .strand → ∀ ch ∈ children, has s1.w .dom sl.dom ch) :
    Inv sl w' ∧ LS sl s.w w' ∧ (∀ i b, out = .ret i b → has w' k (slotOf sl k) i ∧ i ∈ w'.held) := by
  obtain ⟨hi', hls⟩ := op_step sl _ _ k _ children _ g f rfl hi1 hch hss
  exact ⟨hi', hls0.trans hls, fun i b ho => ⟨g.ret i b ho, f.2.2 i b ho⟩⟩

theorem ktail_fs (sl : Slots) (s s1 : RState) (hls : LS sl s.w s1.w) (hi : Inv sl s1.w) (hsl : SlotsOK sl)
    (seq : List (Option Nat)) (sst : List Char) (name : String) (rest : List Tree)
    (hseq : ∀ id, some id ∈ seq → has s1.w .dom sl.dom id) :
    RSpec sl s (ktail s1 sl seq sst name rest) := by
  obtain ⟨cr, hc⟩ := class_some s1.w.cplxs sl.cplx hi.wf.lens.2.2.1 hsl.cplx
  have g := (mkCplx_grow s1.w sl.cplx cr hc (some seq) sst name).toF
  have f := mkCplx_facts s1.w sl.cplx (some seq) sst (some name) none
  obtain ⟨b1, b2, b3⟩ := finish_step sl s s1 _ _ .cplx _ hls hi g f
    (by
      intro ch hch
      simp only [Option.getD_some, List.mem_filterMap, id_eq, exists_eq_right] at hch
      exact has_node hi.wf (hseq ch hch)) (by intro h; cases h)
  unfold ktail
  generalize s1.w.mkCplx sl.cplx (some seq) sst (some name) none = res at b1 b2 b3
  obtain ⟨w', out, ids⟩ := res
  simp only at b1 b2 b3 ⊢
  cases out with
  | ret i b =>
    simp only
    split
    · refine ⟨by simpa [RState.setConc] using b1, by simpa [RState.setConc] using b2, ?_⟩
      intro o h; cases h; exact b3 i b rfl
    · refine ⟨b1, b2, ?_⟩
      intro o h; cases h; exact b3 i b rfl
    · exact RSpec.err b1 b2
  | _ => exact RSpec.err b1 b2

theorem readLine_fs (s : RState) (sl : Slots) (hi : Inv sl s.w) (hsl : SlotsOK sl) (line : List Tree) :
    RSpec sl s (s.readLine sl line) := by
  unfold RState.readLine
  split
  · -- dl-domain
    rename_i name len tail
    simp only
    split
    · exact RSpec.err hi (LS.refl _ _)
    · rename_i l _
      obtain ⟨a1, a2, a3⟩ := domReq_fs s sl hi hsl name (some l)
      generalize s.domReq sl { name := some name, length := some l } = r1 at a1 a2 a3
      obtain ⟨s1, res1⟩ := r1
      cases res1 with
      | error e => exact RSpec.err a1 a2
      | ok id =>
        refine ⟨a1, a2, ?_⟩
        intro o h; cases h; exact a3 _ rfl
  · -- sl-domain
    rename_i name con rest
    simp only
    apply RSpec.ite
    · exact RSpec.err hi (LS.refl _ _)
    · obtain ⟨a1, a2, a3⟩ := domReq_fs s sl hi hsl name (some con.length)
      generalize s.domReq sl { name := some name, length := some con.length } = r1 at a1 a2 a3
      obtain ⟨s1, res1⟩ := r1
      cases res1 with
      | error e => exact RSpec.err a1 a2
      | ok id =>
        refine ⟨a1, a2, ?_⟩
        intro o h; cases h; exact a3 _ rfl
  · -- composite-domain
    rename_i name doms tail
    obtain ⟨a1, a2, a3⟩ := domList_fs sl hsl (tokList doms) s hi
    generalize s.domList sl (tokList doms) = r1 at a1 a2 a3
    obtain ⟨s1, res1⟩ := r1
    cases res1 with
    | error e => exact RSpec.err a1 a2
    | ok ids =>
      simp only at a1 a2 a3 ⊢
      have c2 := a3 ids rfl
      obtain ⟨cr, hc⟩ := class_some s1.w.strands sl.strand a1.wf.lens.2.1 hsl.strand
      have g := (mkStrand_grow s1.w sl.strand cr hc (some (ids.map some)) name).toF
      simp only [Option.getD_some, filterMap_id_map_some] at g
      have f := mkStrand_facts s1.w sl.strand (some (ids.map some)) (some name)
      obtain ⟨b1, b2, b3⟩ := finish_step sl s s1 _ _ .strand ids a2 a1 g f
        (fun ch hch => has_node a1.wf (c2 ch hch)) (fun _ ch hch => c2 ch hch)
      generalize s1.w.mkStrand sl.strand (some (ids.map some)) (some name) = res at b1 b2 b3
      obtain ⟨w', out⟩ := res
      simp only at b1 b2 b3 ⊢
      cases out with
      | ret i b =>
        refine ⟨b1, b2, ?_⟩
        intro o h; cases h; exact b3 i b rfl
      | _ => exact RSpec.err b1 b2
  · -- strand-complex
    rename_i name strands db tail
    obtain ⟨a1, a2, a3⟩ := collect_fs sl hsl (tokList strands) s hi
    generalize RState.readLine.collect sl s (tokList strands) = r1 at a1 a2 a3
    obtain ⟨s1, res1⟩ := r1
    cases res1 with
    | error e => exact RSpec.err a1 a2
    | ok st =>
      cases st with
      | nil => exact RSpec.err a1 a2
      | cons x xs =>
        simp only at a1 a2 a3 ⊢
        obtain ⟨cr, hc⟩ := class_some s1.w.cplxs sl.cplx a1.wf.lens.2.2.1 hsl.cplx
        have g := (mkCplx_grow s1.w sl.cplx cr hc
          (some (joinWith none (List.map (fun ds => List.map some ds) (x :: xs))))
          (List.filter (fun x => x != ' ') db.toList) name).toF
        have f := mkCplx_facts s1.w sl.cplx (some (joinWith none (List.map (fun ds => List.map some ds) (x :: xs))))
          (List.filter (fun x => x != ' ') db.toList) (some name) none
        obtain ⟨b1, b2, b3⟩ := finish_step sl s s1 _ _ .cplx _ a2 a1 g f
          (by
            intro ch hch
            simp only [Option.getD_some, List.mem_filterMap, id_eq, exists_eq_right] at hch
            obtain ⟨ds, hds, hd⟩ := mem_joinWith_none (x :: xs) ch hch
            exact has_node a1.wf (a3 _ rfl ds hds ch hd)) (by intro h; cases h)
        generalize s1.w.mkCplx sl.cplx (some (joinWith none (List.map (fun ds => List.map some ds) (x :: xs))))
          (List.filter (fun x => x != ' ') db.toList) (some name) none = res at b1 b2 b3
        obtain ⟨w', out, ids⟩ := res
        simp only at b1 b2 b3 ⊢
        cases out with
        | ret i b =>
          refine ⟨b1, b2, ?_⟩
          intro o h; cases h; exact b3 i b rfl
        | _ => exact RSpec.err b1 b2
  · -- kernel-complex
    rename_i name pat rest
    cases hres : resolveKernel (treeSize 1000 pat + 2) pat with
    | error e => cases e <;> exact RSpec.err hi (LS.refl _ _)
    | ok p =>
      obtain ⟨names, struct⟩ := p
      simp only
      obtain ⟨a1, a2, a3⟩ := domList_fs sl hsl (names.filter (fun x => x != "+")) s hi
      generalize s.domList sl (names.filter (fun x => x != "+")) = r1 at a1 a2 a3
      obtain ⟨s1, res1⟩ := r1
      cases res1 with
      | ok ids =>
        simp only at a1 a2 a3 ⊢
        exact ktail_fs sl s s1 a2 a1 hsl _ struct name rest
          (fun id hid => a3 ids rfl id (weave_mem names ids id hid))
      | error e =>
        cases e with
        | singleton =>
          simp only at a1 a2 a3 ⊢
          obtain ⟨b1, b2, b3⟩ := expandKernel_fs sl hsl names struct s1 a1
          generalize s1.expandKernel sl names struct = r2 at b1 b2 b3
          obtain ⟨s2, res2⟩ := r2
          cases res2 with
          | error e2 => exact RSpec.err b1 (a2.trans b2)
          | ok p =>
            obtain ⟨seq, sst⟩ := p
            simp only at b1 b2 b3 ⊢
            exact ktail_fs sl s s2 (a2.trans b2) b1 hsl seq sst name rest (b3 seq sst rfl)
        | _ => exact RSpec.err a1 a2
  · -- resting-macrostate
    rename_i name mem tail
    obtain ⟨a1, a2, a3⟩ := lookupAll_fs sl _ .cplx (lookCplx_ok sl hsl) (tokList mem) s hi
    generalize s.lookupAll _ (tokList mem) = r1 at a1 a2 a3
    obtain ⟨s1, res1⟩ := r1
    cases res1 with
    | error e => exact RSpec.err a1 a2
    | ok ids =>
      simp only at a1 a2 a3 ⊢
      obtain ⟨cr, hc⟩ := class_some s1.w.macros sl.macr a1.wf.lens.2.2.2.1 hsl.macr
      have g := (mkMacro_grow s1.w sl.macr cr hc (some ids) name).toF
      simp only [Option.getD_some] at g
      have f := mkMacro_facts s1.w sl.macr (some ids) (some name)
      obtain ⟨b1, b2, b3⟩ := finish_step sl s s1 _ _ .macro ids a2 a1 g f
        (fun ch hch => has_node a1.wf (a3 ids rfl ch hch)) (by intro h; cases h)
      generalize s1.w.mkMacro sl.macr (some ids) (some name) = res at b1 b2 b3
      obtain ⟨w', out⟩ := res
      simp only at b1 b2 b3 ⊢
      cases out with
      | ret i b =>
        refine ⟨b1, b2, ?_⟩
        intro o h; cases h; exact b3 i b rfl
      | _ => exact RSpec.err b1 b2
  · -- reaction
    rename_i info rs ps tail
    have hother : RSpec sl s (s, .ok .other) := RSpec.other hi (LS.refl _ _)
    rcases info with _ | ⟨a, _ | ⟨b, _ | ⟨c, _ | ⟨d, r⟩⟩⟩⟩
    case cons.cons.cons.nil =>
      cases a <;> cases b <;> cases c
      case grp.grp.grp ty0 ra0 un0 =>
        simp only
        generalize (tokList ty0).head? = ty
        generalize (tokList ra0).head? = rate
        generalize (tokList un0).head? = units
        cases rate with
        | none => exact hother
        | some ra =>
          simp only
          apply RSpec.ite
          · exact hother
          · have hlook : ∃ k, slotOf sl k = slotOf sl k ∧ LookOK sl k
                (if (ty.getD "" == "condensed") = true then fun w n => w.mkMacro sl.macr none (some n)
                  else fun w n => ((w.mkCplx sl.cplx none [] (some n) none).fst,
                    (w.mkCplx sl.cplx none [] (some n) none).snd.fst)) := by
              by_cases hcond : (ty.getD "" == "condensed") = true
              · exact ⟨.macro, rfl, by simp only [hcond, if_true]; exact lookMacro_ok sl hsl⟩
              · exact ⟨.cplx, rfl, by simp only [hcond]; exact lookCplx_ok sl hsl⟩
            obtain ⟨k, _, hf⟩ := hlook
            generalize (if (ty.getD "" == "condensed") = true then fun (w : World) (n : String) => w.mkMacro sl.macr none (some n)
                  else fun w n => ((w.mkCplx sl.cplx none [] (some n) none).fst,
                    (w.mkCplx sl.cplx none [] (some n) none).snd.fst)) = f at hf
            obtain ⟨a1, a2, a3⟩ := lookupAll_fs sl f k hf (tokList rs) s hi
            generalize s.lookupAll f (tokList rs) = r1 at a1 a2 a3
            obtain ⟨s1, res1⟩ := r1
            cases res1 with
            | error e => exact RSpec.err a1 a2
            | ok rids =>
              simp only at a1 a2 a3 ⊢
              obtain ⟨b1, b2, b3⟩ := lookupAll_fs sl f k hf (tokList ps) s1 a1
              generalize s1.lookupAll f (tokList ps) = r2 at b1 b2 b3
              obtain ⟨s2, res2⟩ := r2
              cases res2 with
              | error e => exact RSpec.err b1 (a2.trans b2)
              | ok pids =>
                simp only at b1 b2 b3 ⊢
                obtain ⟨cr, hc⟩ := class_some s2.w.rxns sl.rxn b1.wf.lens.2.2.2.2 hsl.rxn
                have g := (mkRxn_grow s2.w sl.rxn cr hc rids pids (some (ty.getD "")) none).toF
                have fa := mkRxn_facts s2.w sl.rxn (some rids) (some pids) (some (ty.getD "")) none
                obtain ⟨c1, c2, c3⟩ := finish_step sl s s2 _ _ .rxn _ (a2.trans b2) b1 g fa
                  (by
                    intro ch hch
                    rcases List.mem_append.mp hch with hch | hch
                    · exact has_node b1.wf (b2.has _ _ _ (a3 rids rfl ch hch))
                    · exact has_node b1.wf (b3 pids rfl ch hch)) (by intro h; cases h)
                generalize s2.w.mkRxn sl.rxn (some rids) (some pids) (some (ty.getD "")) none = res at c1 c2 c3
                obtain ⟨w', out, lists⟩ := res
                simp only at c1 c2 c3 ⊢
                cases out with
                | ret i b =>
                  refine ⟨c1, c2, ?_⟩
                  intro o h; cases h; exact c3 i b rfl
                | _ => exact RSpec.err c1 c2
      all_goals (simp only; exact hother)
    all_goals (simp only; exact hother)
  · exact RSpec.other hi (LS.refl _ _)

end Dsd.RdL
