/-
`exterior_domains` / `enclosed_domains` of the translated legacy `DSD_Complex` (Gen/PyLegacy.lean): the two nested loops with
`self._exterior_domains.append(…)` / `self._enclosed_domains.append(…)` are the model's filters (`LObj.exteriorDomainsView`,
`LObj.enclosedDomainsView`) on every object that satisfies the invariant `Inv`:

  `PtOk`   a truthy cached pair table is a table `make_pair_table` returns (Lemmas/PyLegacyLoop)
  `LiOk`   a truthy cached loop index was computed by `make_loop_index` from the cached pair table, together with the cached
           exterior loops
  `EnOk`   truthy cached exterior domains come with cached enclosed domains (not `None`)

(new objects have it, every modelled method keeps it).  Without it the hand model is more total than the code: it reads a
locus outside the cached pair table as "unpaired" where `self._pair_table[si][di]` raises IndexError.
-/
import DsdVerif.Lemmas.PyLegacyLoop
import DsdVerif.Lemmas.PyObjExt

set_option linter.unusedSimpArgs false
set_option linter.unusedVariables false

namespace Dsd.PyLegacy
open Dsd Dsd.Gen Dsd.Lg
open Dsd.PyObj.Ext (exec_pure exec_bind exec_get exec_modify exec_throw exec_lift exec_monadLift pure_ok unpAt liAt fE fN shape_row
  mem_enumerate extOf_fold)

/-- a truthy cached loop index is `make_loop_index` of the cached pair table, with the cached exterior loops -/
def LiOk (o : LObj) : Prop :=
  ∀ l, o.loopIndex = some l → l ≠ [] →
    ∃ pt e, o.pairTable = some pt ∧ IsPt pt ∧ LObj.runLoopIndex pt = .ok (l, e) ∧ o.exteriorLoops = some e

/-- truthy cached exterior domains come with cached enclosed domains (`exterior_domains` fills both, `rotate_once` resets both) -/
def EnOk (o : LObj) : Prop := ∀ d, o.exteriorDomains = some d → d ≠ [] → ∃ n, o.enclosedDomains = some n

/-- the invariant of the cached attributes -/
structure Inv (o : LObj) : Prop where
  pt : PtOk o
  li : LiOk o
  en : EnOk o

theorem isPt_ne_nil (pt : PairTable) (h : IsPt pt) : pt ≠ [] := by
  obtain ⟨ss, hss⟩ := h
  exact PyObj.Ext.mpt_ne_nil ss pt hss

theorem rli_shape (pt : PairTable) (h : IsPt pt) (li : List (List Nat)) (e : List Nat)
    (hr : LObj.runLoopIndex pt = .ok (li, e)) : li.map List.length = pt.map List.length := by
  obtain ⟨ss, hss⟩ := h
  unfold LObj.runLoopIndex at hr
  cases hm : makeLoopIndex pt false with
  | error e' =>
    have := LgL.makeLoopIndex_err _ _ _ hm
    subst this
    rw [hm] at hr; cases hr
  | ok lo =>
    rw [hm] at hr
    simp only [Except.ok.injEq, Prod.mk.injEq] at hr
    rw [← hr.1]
    exact PyObj.Ext.li_shape ss pt lo hss hm

/-! ### the two nested loops -/

/-- the object with the two domain lists replaced -/
def setEN (s : DSD_Complex.Self) (X N : List (Nat × Nat)) : DSD_Complex.Self :=
  { s with _exterior_domains := some X, _enclosed_domains := some N }

theorem exec_loop2 (s : DSD_Complex.Self) (pt : PairTable) (li : List (List Nat)) (e : List Nat)
    (h1 : s._pair_table = some pt) (h2 : s._loop_index = some li) (h3 : s._exterior_loops = some e)
    (si di dom : Nat) (strand : List Nat) (v : DSD_Complex_exterior_domains.Vars) (X N : List (Nat × Nat))
    (row : List Nat) (x : Nat) (prow : List (Option (Nat × Nat))) (p : Option (Nat × Nat))
    (hr : li[si]? = some row) (hx : row[di]? = some x) (hpr : pt[si]? = some prow) (hp : prow[di]? = some p) :
    (DSD_Complex_exterior_domains.loop2 si strand v (di, dom)).exec (setEN s X N) =
      (.ok v, setEN s (if fE pt li e (si, di) then X ++ [(si, di)] else X) (if fN pt li e (si, di) then N ++ [(si, di)] else N)) := by
  have hl : liAt li (si, di) = x := by simp [liAt, hr, hx]
  have hu : unpAt pt (si, di) = p.isNone := by simp [unpAt, hpr, hp]
  unfold DSD_Complex_exterior_domains.loop2
  simp only [exec_bind, exec_get, exec_lift, setEN, h1, h2, h3, Py.unwrap, Py.idx, pure_ok, hr, hx, hpr, hp, fE, fN, hl, hu]
  by_cases hc : e.contains x = true <;> by_cases hn : p.isNone = true <;>
    simp only [hc, hn, if_true, if_false, exec_bind, exec_get, exec_lift, exec_modify, exec_pure, Py.unwrap, pure_ok,
      h1, hpr, hp, Bool.not_true, Bool.false_eq_true, Bool.true_and, Bool.false_and, Bool.not_false, Bool.and_true, Bool.and_false]

theorem exec_inner (s : DSD_Complex.Self) (pt : PairTable) (li : List (List Nat)) (e : List Nat)
    (h1 : s._pair_table = some pt) (h2 : s._loop_index = some li) (h3 : s._exterior_loops = some e)
    (si : Nat) (strand : List Nat) (row : List Nat) (prow : List (Option (Nat × Nat)))
    (hr : li[si]? = some row) (hpr : pt[si]? = some prow) (hlen : prow.length = row.length)
    (ds : List (Nat × Nat)) (hds : ∀ d ∈ ds, d.1 < row.length) (v : DSD_Complex_exterior_domains.Vars) (X N : List (Nat × Nat)) :
    (List.foldlM (DSD_Complex_exterior_domains.loop2 si strand) v ds).exec (setEN s X N) =
      (.ok v, setEN s (X ++ (ds.map (fun d => (si, d.1))).filter (fE pt li e))
                      (N ++ (ds.map (fun d => (si, d.1))).filter (fN pt li e))) := by
  induction ds generalizing X N with
  | nil => simp [List.foldlM, exec_pure]
  | cons d ds ih =>
    obtain ⟨di, dom⟩ := d
    have hd : di < row.length := hds (di, dom) (by simp)
    have hx : row[di]? = some row[di] := List.getElem?_eq_getElem hd
    have hp : prow[di]? = some (prow[di]'(by omega)) := List.getElem?_eq_getElem (by omega)
    rw [List.foldlM_cons, exec_bind, exec_loop2 s pt li e h1 h2 h3 si di dom strand v X N row _ prow _ hr hx hpr hp]
    simp only
    rw [ih (fun d hd => hds d (List.mem_cons_of_mem _ hd))]
    simp only [List.map_cons, List.filter_cons]
    by_cases c1 : fE pt li e (si, di) = true <;> by_cases c2 : fN pt li e (si, di) = true <;>
      simp [c1, c2]

theorem exec_loop1 (s : DSD_Complex.Self) (pt : PairTable) (li : List (List Nat)) (e : List Nat)
    (h1 : s._pair_table = some pt) (h2 : s._loop_index = some li) (h3 : s._exterior_loops = some e)
    (hsh : li.map List.length = pt.map List.length)
    (si : Nat) (row : List Nat) (hr : li[si]? = some row)
    (v : DSD_Complex_exterior_domains.Vars) (X N : List (Nat × Nat)) :
    (DSD_Complex_exterior_domains.loop1 v (si, row)).exec (setEN s X N) =
      (.ok v, setEN s (X ++ (row.zipIdx.map (fun q => (si, q.2))).filter (fE pt li e))
                      (N ++ (row.zipIdx.map (fun q => (si, q.2))).filter (fN pt li e))) := by
  obtain ⟨prow, hpr, hlen⟩ := shape_row pt li hsh si row hr
  unfold DSD_Complex_exterior_domains.loop1
  simp only [exec_bind]
  rw [exec_inner s pt li e h1 h2 h3 si row row prow hr hpr hlen (Py.enumerate row)
    (fun d hd => by have := mem_enumerate row d hd; exact (List.getElem?_eq_some_iff.mp this).1)]
  simp only [exec_pure, Py.enumerate, List.map_map]
  rfl

theorem exec_outer (s : DSD_Complex.Self) (pt : PairTable) (li : List (List Nat)) (e : List Nat)
    (h1 : s._pair_table = some pt) (h2 : s._loop_index = some li) (h3 : s._exterior_loops = some e)
    (hsh : li.map List.length = pt.map List.length)
    (rs : List (Nat × List Nat)) (hrs : ∀ r ∈ rs, li[r.1]? = some r.2)
    (v : DSD_Complex_exterior_domains.Vars) (X N : List (Nat × Nat)) :
    (List.foldlM DSD_Complex_exterior_domains.loop1 v rs).exec (setEN s X N) =
      (.ok v, setEN s (X ++ ((rs.map (fun r => r.2.zipIdx.map (fun q => (r.1, q.2)))).flatten).filter (fE pt li e))
                      (N ++ ((rs.map (fun r => r.2.zipIdx.map (fun q => (r.1, q.2)))).flatten).filter (fN pt li e))) := by
  induction rs generalizing X N with
  | nil => simp [List.foldlM, exec_pure]
  | cons r rs ih =>
    obtain ⟨si, row⟩ := r
    rw [List.foldlM_cons, exec_bind, exec_loop1 s pt li e h1 h2 h3 hsh si row (hrs (si, row) (by simp))]
    simp only
    rw [ih (fun r hr => hrs r (List.mem_cons_of_mem _ hr))]
    simp [List.filter_append, List.append_assoc]

/-- both loops together, from empty lists: the model's two filtered lists -/
theorem exec_tail (s : DSD_Complex.Self) (pt : PairTable) (li : List (List Nat)) (e : List Nat)
    (h1 : s._pair_table = some pt) (h2 : s._loop_index = some li) (h3 : s._exterior_loops = some e)
    (hsh : li.map List.length = pt.map List.length) :
    (List.foldlM DSD_Complex_exterior_domains.loop1 ({} : DSD_Complex_exterior_domains.Vars) (Py.enumerate li)).exec (setEN s [] []) =
      (.ok {}, setEN s (CplxObj.extOf pt (li, e)).1 (CplxObj.extOf pt (li, e)).2) := by
  rw [exec_outer s pt li e h1 h2 h3 hsh (Py.enumerate li) (fun r hr => mem_enumerate li r hr) {} [] [], extOf_fold]
  simp only [List.nil_append]

/-- the answer of a view that returns the cached `None`-able list itself -/
def optAns {α} (r : LObj × Except LErr α) : Except Err (Option α) × DSD_Complex.Self :=
  (match r.2 with | .ok a => .ok (some a) | .error e => .error (errOf e), ofL r.1)

/-- `if not self._loop_index or self._exterior_loops: self._loop_index, self._exterior_loops = make_loop_index(self._pair_table)`
    of the model, as a function -/
def stepLI (o1 : LObj) (pt : PairTable) : LObj × Except LErr (List (List Nat) × List Nat) :=
  if !truthy o1.loopIndex || truthy o1.exteriorLoops then
    match LObj.runLoopIndex pt with
    | .error e => (o1, .error e)
    | .ok (li, ext) => ({ o1 with loopIndex := some li, exteriorLoops := some ext }, .ok (li, ext))
  else (o1, .ok (o1.loopIndex.getD [], o1.exteriorLoops.getD []))

/-- the model's `exterior_domains` with its two filters folded into `CplxObj.extOf` -/
theorem extView_eq (o : LObj) : o.exteriorDomainsView =
    if truthy o.exteriorDomains then (o, .ok (o.exteriorDomains.getD []))
    else match o.fillPairTable with
      | (o1, .error e) => (o1, .error e)
      | (o1, .ok pt) =>
        match stepLI o1 pt with
        | (o2, .error e) => (o2, .error e)
        | (o2, .ok l) =>
          ({ o2 with exteriorDomains := some (CplxObj.extOf pt l).1, enclosedDomains := some (CplxObj.extOf pt l).2 },
            .ok (CplxObj.extOf pt l).1) := by
  unfold LObj.exteriorDomainsView stepLI
  by_cases hX : truthy o.exteriorDomains = true
  · simp only [hX, if_true]
  · simp only [hX, if_false, Bool.false_eq_true]
    rcases o.fillPairTable with ⟨o1, r⟩
    cases r with
    | error e => rfl
    | ok pt =>
      simp only []
      by_cases hC : (!truthy o1.loopIndex || truthy o1.exteriorLoops) = true
      · simp only [hC, if_true]
        cases LObj.runLoopIndex pt with
        | error e => rfl
        | ok l => rfl
      · simp only [hC, if_false, Bool.false_eq_true]
        rfl

/-- the leaf "the loop index is computed now" of `exec_exterior_domains`, for a pair table `PT` with `HP : IsPt PT` -/
macro "ext_recompute" PT:term "," HP:term "," seq:term "," sst:term "," sl:term "," lol:term : tactic => `(tactic| (
  cases hli : py_make_loop_index $PT false with
  | error e => obtain ⟨h1, h2⟩ := li_err $PT $HP e hli; rw [h1, h2]; rfl
  | ok r =>
    have hr := li_ok $PT $HP r hli
    have ht := exec_tail { _sequence := $seq, _structure := $sst, _strand_lengths := $sl, _pair_table := some $PT, _loop_index := some r.1, _exterior_loops := some r.2.1, _lol_sequence := $lol, _exterior_domains := none, _enclosed_domains := none } $PT r.1 r.2.1 rfl rfl rfl (rli_shape $PT $HP _ _ hr)
    simp only [setEN] at ht
    rw [hr]
    simp only [ht]))

/-- the branch "pair table not cached" of `exec_exterior_domains` -/
macro "ext_uncached" hLi:term "," li:ident "," seq:term "," sst:term "," sl:term "," lol:term : tactic => `(tactic| (
  cases hm : makePairTable $sst with
  | error e => rw [LgL.makePairTable_err _ _ hm]; rfl
  | ok pt =>
    simp only []
    rcases $li:ident with _ | _ | ⟨l0, ls⟩ <;>
      simp only [truthy, Bool.not_true, Bool.not_false, if_true, if_false, Bool.false_eq_true, Option.getD, Bool.true_or, Bool.false_or]
    · ext_recompute pt, ⟨$sst, hm⟩, $seq, $sst, $sl, $lol
    · ext_recompute pt, ⟨$sst, hm⟩, $seq, $sst, $sl, $lol
    · -- a truthy cached loop index without a cached pair table: excluded by `LiOk`
      exfalso
      obtain ⟨pt', e, hp, hI, _, _⟩ := $hLi (l0 :: ls) rfl (by simp)
      cases hp <;> exact isPt_ne_nil _ hI rfl))

/-- the branch "pair table cached" of `exec_exterior_domains` -/
macro "ext_cached" hPt:term "," hLi:term "," li:ident "," r0:term "," rs:term "," seq:term "," sst:term "," sl:term "," lol:term : tactic => `(tactic| (
  have hp : IsPt ($r0 :: $rs) := $hPt _ rfl (by simp)
  rcases $li:ident with _ | _ | ⟨l0, ls⟩ <;>
    simp only [truthy, Bool.not_true, Bool.not_false, if_true, if_false, Bool.false_eq_true, Option.getD, Bool.true_or, Bool.false_or]
  · ext_recompute ($r0 :: $rs), hp, $seq, $sst, $sl, $lol
  · ext_recompute ($r0 :: $rs), hp, $seq, $sst, $sl, $lol
  · obtain ⟨pt', e, hq, hI, hrun, hel⟩ := $hLi (l0 :: ls) rfl (by simp)
    cases hq
    simp only [] at hel
    subst hel
    rcases e with _ | ⟨e0, es⟩ <;>
      simp only [truthy, Bool.not_true, Bool.not_false, if_true, if_false, Bool.false_eq_true, Option.getD, Bool.true_or, Bool.false_or, Bool.or_false, Bool.or_true]
    · have ht := exec_tail { _sequence := $seq, _structure := $sst, _strand_lengths := $sl, _pair_table := some ($r0 :: $rs), _loop_index := some (l0 :: ls), _exterior_loops := some [], _lol_sequence := $lol, _exterior_domains := none, _enclosed_domains := none } ($r0 :: $rs) (l0 :: ls) [] rfl rfl rfl (rli_shape _ hp _ _ hrun)
      simp only [setEN] at ht
      simp only [ht]
    · ext_recompute ($r0 :: $rs), hp, $seq, $sst, $sl, $lol))

open Dsd.PyObj.Basic (exec_ite) in
theorem exec_exterior_domains (o : LObj) (h : Inv o) :
    (py_DSD_Complex_exterior_domains).exec (ofL o) = optAns o.exteriorDomainsView := by
  rw [extView_eq]
  unfold py_DSD_Complex_exterior_domains LObj.fillPairTable optAns stepLI
  simp only [exec_ite, exec_bind, exec_get, exec_pure, exec_lift, exec_monadLift, exec_modify, exec_structure', PyFuncs.py_make_pair_table_eq, truthy_eq]
  obtain ⟨id, name, seq, sst, canon, rot, sl, pt, li, el, lol, exd, end_, mc⟩ := o
  have hLi := h.li
  have hPt := h.pt
  rcases exd with _ | _ | ⟨x0, xs⟩ <;>
    simp only [truthy, ofL, Py.unwrap, Bool.not_true, Bool.not_false, if_true, if_false, Option.getD, pure, Except.pure, Bool.false_eq_true] <;>
    (rcases pt with _ | _ | ⟨r0, rs⟩ <;>
      simp only [truthy, ofL, Py.unwrap, Bool.not_true, Bool.not_false, if_true, if_false, Option.getD, pure, Except.pure, Bool.false_eq_true])
  · ext_uncached hLi, li, seq, sst, sl, lol
  · ext_uncached hLi, li, seq, sst, sl, lol
  · ext_cached hPt, hLi, li, r0, rs, seq, sst, sl, lol
  · ext_uncached hLi, li, seq, sst, sl, lol
  · ext_uncached hLi, li, seq, sst, sl, lol
  · ext_cached hPt, hLi, li, r0, rs, seq, sst, sl, lol

/-- a successful `exterior_domains` leaves `_enclosed_domains` set -/
theorem ext_en_some (o : LObj) (h : EnOk o) (o1 : LObj) (d : List Locus) (hv : o.exteriorDomainsView = (o1, .ok d)) :
    ∃ n, o1.enclosedDomains = some n := by
  rw [extView_eq] at hv
  by_cases hX : truthy o.exteriorDomains = true
  · simp only [hX, if_true] at hv
    cases hv
    cases hd : o.exteriorDomains with
    | none => rw [hd] at hX; cases hX
    | some l =>
      cases l with
      | nil => rw [hd] at hX; cases hX
      | cons x xs => exact h _ hd (by simp)
  · simp only [hX, if_false, Bool.false_eq_true] at hv
    rcases hf : o.fillPairTable with ⟨o1', r⟩
    rw [hf] at hv
    cases r with
    | error e => cases hv
    | ok pt =>
      simp only [] at hv
      rcases hs : stepLI o1' pt with ⟨o2, r2⟩
      rw [hs] at hv
      cases r2 with
      | error e => cases hv
      | ok l => simp only [] at hv; cases hv; exact ⟨_, rfl⟩

theorem exec_enclosed_domains (o : LObj) (h : Inv o) :
    (py_DSD_Complex_enclosed_domains).exec (ofL o) = optAns o.enclosedDomainsView := by
  unfold py_DSD_Complex_enclosed_domains LObj.enclosedDomainsView optAns
  simp only [PyObj.Basic.exec_ite, exec_bind, exec_get, exec_pure, exec_lift, exec_monadLift, exec_modify, truthy_eq,
    exec_exterior_domains o h]
  by_cases hN : truthy o.enclosedDomains = true
  · have : truthy (ofL o)._enclosed_domains = true := hN
    simp only [hN, this, Bool.not_true, Bool.false_eq_true, if_false, if_true]
    cases hd : o.enclosedDomains with
    | none => rw [hd] at hN; cases hN
    | some l => simp only [ofL, hd, Option.getD]
  · have : truthy (ofL o)._enclosed_domains = false := by show truthy o.enclosedDomains = false; simpa using hN
    simp only [hN, this, Bool.not_false, if_true, if_false, Bool.false_eq_true]
    rcases hv : o.exteriorDomainsView with ⟨o1, r⟩
    cases r with
    | error e => rfl
    | ok d =>
      obtain ⟨n, hn⟩ := ext_en_some o h.en o1 d hv
      simp only [optAns, ofL, hn, Option.getD]

end Dsd.PyLegacy
