/-
Kernel statements with unbalanced parentheses are rejected by `pil_stmt` (C13, negative clause), whatever the
comments in the text that follows.  The argument is parse soundness with comment-aware accounting
(Lemmas/PilYieldC.lean): a successful run of `pil_cplx` consumes a text whose parentheses — outside comments — are
balanced, and it consumes the whole statement line; so the consumed text `s ++ r1` would have to be balanced.
-/
import DsdVerif.Lemmas.PilBad
import DsdVerif.Lemmas.PilYieldC

namespace Dsd.Pil
open Dsd.PP Dsd.Gen

/-- on a text without comment sign, `scan` is `bdepth` -/
theorem scan_nohash (cs : List Char) (h : '#' ∉ cs) (d : Nat) :
    scan false d cs = (bdepth cs d).map (fun d' => (false, d')) := by
  induction cs generalizing d with
  | nil => rfl
  | cons c cs ih =>
    simp only [List.mem_cons, not_or] at h
    have hc : c ≠ '#' := fun e => h.1 e.symm
    simp only [scan, bdepth, hc, if_false]
    split
    · exact ih h.2 _
    · split
      · cases d with
        | zero => rfl
        | succ d' => exact ih h.2 _
      · exact ih h.2 _

/-- a kernel statement consumes a line end: its consumed text contains a line feed, or it reaches the end -/
theorem cplx_consumes_line {skip : Bool} {inp rest c : List Char} {ts : List Tree}
    (h : Yield pil_env skip pil_cplx inp rest ts) (e : inp = c ++ rest) : '\n' ∈ c ∨ rest = [] := by
  unfold pil_cplx at h
  obtain ⟨t, _, h1⟩ := h.group_inv
  cases h1 with
  | tag _ _ _ _ _ t' h2 =>
    obtain ⟨x1, u1, v1, _, g1, k1⟩ := h2.seq_inv.cons_inv
    obtain ⟨x2, u2, v2, _, g2, k2⟩ := k1.cons_inv
    obtain ⟨x3, u3, v3, _, g3, k3⟩ := k2.cons_inv
    obtain ⟨x4, u4, v4, _, g4, k4⟩ := k3.cons_inv
    obtain ⟨x5, u5, v5, _, g5, k5⟩ := k4.cons_inv
    obtain ⟨hx5, _⟩ := k5.nil_inv
    subst hx5
    obtain ⟨c1, e1⟩ := g1.suffix
    obtain ⟨c2, e2⟩ := g2.suffix
    obtain ⟨c3, e3⟩ := g3.suffix
    obtain ⟨c4, e4⟩ := g4.suffix
    obtain ⟨mid, ta, tb, _, ha, hb⟩ := g5.many1_inv
    obtain ⟨cm, em⟩ := hb.suffix
    obtain ⟨_, tl, hl⟩ := ha.suppress_inv
    cases hl with
    | lineEndNl _ _ cs hp =>
      left
      obtain ⟨ign, ei, _⟩ := preL_split skip x4
      rw [hp] at ei
      have : c ++ rest = (c1 ++ (c2 ++ (c3 ++ (c4 ++ (ign ++ '\n' :: cm))))) ++ rest := by
        rw [← e, e1, e2, e3, e4, ei, em]; simp
      have hc := List.append_cancel_right this
      rw [hc]; simp
    | lineEndEof _ _ hp =>
      right
      cases cm with
      | nil => simpa using em.symm
      | cons y ys => simp at em

/-- two splits of the same text: the one that contains a line feed extends the one that does not -/
theorem split_extends {s R c rest : List Char} (e : s ++ R = c ++ rest) (hs : '\n' ∉ s) (hc : '\n' ∈ c ∨ rest = []) :
    ∃ r1, c = s ++ r1 ∧ R = r1 ++ rest := by
  rcases List.append_eq_append_iff.mp e with ⟨t, h1, h2⟩ | ⟨t, h1, h2⟩
  · -- c = s ++ t
    exact ⟨t, h1, h2⟩
  · -- s = c ++ t
    rcases hc with hc | hc
    · exact absurd (by rw [h1]; exact List.mem_append_left _ hc) hs
    · subst hc
      have ht : t = [] ∧ R = [] := by simpa using h2.symm
      obtain ⟨rfl, rfl⟩ := ht
      exact ⟨[], by simpa using h1.symm, rfl⟩

/-- no prefix of `R` closes the parentheses that `s` leaves open -/
def Unclosable (s R : List Char) : Prop :=
  ∀ r1 r2 b', R = r1 ++ r2 → scan false 0 (s ++ r1) ≠ some (b', 0)

/-- **the kernel alternative fails on a statement line whose parentheses cannot be closed** -/
theorem No_cplx_unclosable (s R : List Char) (hs : '\n' ∉ s) (hu : Unclosable s R) :
    No pil_env 0 {} pil_cplx { rest := s ++ R, past := false } := by
  intro fuel _
  cases hrun : run pil_env fuel {} pil_cplx { rest := s ++ R, past := false } with
  | none => rfl
  | some r =>
    exfalso
    obtain ⟨p', ts⟩ := r
    have hy := run_yield pil_env fuel {} pil_cplx _ p' ts hrun
    obtain ⟨c, e, nc⟩ := cplx_neutC hy
    obtain ⟨r1, hc, hR⟩ := split_extends e hs (cplx_consumes_line hy e)
    obtain ⟨b', hsc, _⟩ := nc false 0 (Or.inl rfl)
    rw [hc] at hsc
    exact hu r1 p'.rest b' hR hsc

/-- the text of a kernel statement: the name, `=`, the pattern text — with any blanks around the sign -/
def kernelLine (name : List Char) (a b : Nat) (pt : List Char) : List Char :=
  name ++ (List.replicate a ' ' ++ ('=' :: (List.replicate b ' ' ++ pt)))

/-- **a kernel statement line whose parentheses cannot be closed is rejected by `pil_stmt`** -/
theorem No_stmt_unclosable (name : List Char) (a b : Nat) (pt R : List Char)
    (hname : name ≠ [] ∧ ∀ c ∈ name, c ∈ identChars) (hnk : name ∉ keywords) (hpt : ∀ c ∈ pt, PatCh c)
    (hu : Unclosable (kernelLine name a b pt) R) :
    No pil_env 20 {} pil_stmt { rest := kernelLine name a b pt ++ R, past := false } := by
  have hnl : '\n' ∉ kernelLine name a b pt := by
    unfold kernelLine
    simp only [List.mem_append, List.mem_cons, List.mem_replicate, not_or]
    refine ⟨fun hm => (ident_facts _ (hname.2 _ hm)).2.2.2.2.2.1 rfl, fun h => absurd h.2 (by decide), by decide,
      fun h => absurd h.2 (by decide), fun hm => (patCh_facts _ (hpt _ hm)).2.1 rfl⟩
  have hcx := No_cplx_unclosable _ R hnl hu
  have hX : OutHd (fun x => x ∉ identChars) (List.replicate a ' ' ++ ('=' :: (List.replicate b ' ' ++ pt)) ++ R) := by
    rw [List.append_assoc]
    exact OutHd_blanks _ a _ (outside_facts ' ' (by decide)) (OutHd_cons _ '=' _ (outside_facts '=' (by decide)))
  have := No_stmt_name name _ hname hnk hX 0 (by
    have e : name ++ (List.replicate a ' ' ++ ('=' :: (List.replicate b ' ' ++ pt)) ++ R) =
        kernelLine name a b pt ++ R := by unfold kernelLine; simp
    rw [e]; exact hcx)
  have e : kernelLine name a b pt ++ R =
      name ++ (List.replicate a ' ' ++ ('=' :: (List.replicate b ' ' ++ pt)) ++ R) := by unfold kernelLine; simp
  rw [e]
  exact this.mono (by decide)

/-! ### the two kinds of imbalance -/

theorem kernelLine_nohash (name : List Char) (a b : Nat) (pt : List Char)
    (hname : ∀ c ∈ name, c ∈ identChars) (hpt : ∀ c ∈ pt, PatCh c) : '#' ∉ kernelLine name a b pt := by
  unfold kernelLine
  simp only [List.mem_append, List.mem_cons, List.mem_replicate, not_or]
  exact ⟨fun hm => (ident_facts _ (hname _ hm)).2.1 rfl, fun h => absurd h.2 (by decide), by decide,
    fun h => absurd h.2 (by decide), fun hm => (patCh_facts _ (hpt _ hm)).1 rfl⟩

/-- the depth after the line is the depth after the pattern text -/
theorem kernelLine_bdepth (name : List Char) (a b : Nat) (pt : List Char) (hname : ∀ c ∈ name, c ∈ identChars) :
    bdepth (kernelLine name a b pt) 0 = bdepth pt 0 := by
  have hA : NoBr (name ++ (List.replicate a ' ' ++ ('=' :: List.replicate b ' '))) := by
    intro x hx
    simp only [List.mem_append, List.mem_cons, List.mem_replicate] at hx
    rcases hx with hx | ⟨_, rfl⟩ | rfl | ⟨_, rfl⟩
    · exact nobr_identChars x (hname x hx)
    all_goals decide
  have e : kernelLine name a b pt = (name ++ (List.replicate a ' ' ++ ('=' :: List.replicate b ' '))) ++ pt := by
    unfold kernelLine; simp
  rw [e, bdepth_append, hA.neutral 0]
  rfl

/-- **too many closing parentheses**: whatever follows -/
theorem unclosable_of_close (name : List Char) (a b : Nat) (pt R : List Char) (hname : ∀ c ∈ name, c ∈ identChars)
    (hpt : ∀ c ∈ pt, PatCh c) (h : bdepth pt 0 = none) : Unclosable (kernelLine name a b pt) R := by
  intro r1 r2 b' _ hsc
  rw [scan_append, scan_nohash _ (kernelLine_nohash name a b pt hname hpt) 0, kernelLine_bdepth name a b pt hname, h] at hsc
  simp at hsc

/-- the following text never closes `k + 1` open parentheses -/
def NeverCloses (k : Nat) (R : List Char) : Prop :=
  ∀ r1 r2 b', R = r1 ++ r2 → scan false (k + 1) r1 ≠ some (b', 0)

/-- **too many opening parentheses**, when the following text does not close them -/
theorem unclosable_of_open (name : List Char) (a b : Nat) (pt R : List Char) (hname : ∀ c ∈ name, c ∈ identChars)
    (hpt : ∀ c ∈ pt, PatCh c) (k : Nat) (h : bdepth pt 0 = some (k + 1)) (hR : NeverCloses k R) :
    Unclosable (kernelLine name a b pt) R := by
  intro r1 r2 b' e hsc
  rw [scan_append, scan_nohash _ (kernelLine_nohash name a b pt hname hpt) 0, kernelLine_bdepth name a b pt hname, h] at hsc
  simp only [Option.map_some, Option.bind_some] at hsc
  exact hR r1 r2 b' e hsc

/-- a text without `)` closes nothing -/
theorem scan_mono (cs : List Char) (h : ')' ∉ cs) : ∀ (st : Bool) (d : Nat) (b' : Bool) (d' : Nat),
    scan st d cs = some (b', d') → d ≤ d' := by
  induction cs with
  | nil => intro st d b' d' hs; cases st <;> (simp [scan] at hs; omega)
  | cons c cs ih =>
    simp only [List.mem_cons, not_or] at h
    have hc : c ≠ ')' := fun e => h.1 e.symm
    intro st d b' d' hs
    cases st with
    | true =>
      simp only [scan] at hs
      split at hs <;> exact ih h.2 _ _ _ _ hs
    | false =>
      simp only [scan, hc, if_false] at hs
      split at hs
      · exact ih h.2 _ _ _ _ hs
      · split at hs
        · have := ih h.2 _ _ _ _ hs; omega
        · exact ih h.2 _ _ _ _ hs

theorem neverCloses_of_noclose (k : Nat) (R : List Char) (h : ')' ∉ R) : NeverCloses k R := by
  intro r1 r2 b' e hsc
  have h1 : ')' ∉ r1 := by
    intro hm; apply h; rw [e]; exact List.mem_append_left _ hm
  have := scan_mono r1 h1 false (k + 1) b' 0 hsc
  omega

end Dsd.Pil
