/-
`canonical_form` of the legacy model keeps the object's `name` (and its identity): needed for the key of `NAMES` in `__init__`.
-/
import DsdVerif.Lemmas.PyLegacyInit

set_option linter.unusedSimpArgs false

namespace Dsd.PyLegacyInit
open Dsd Dsd.Gen Dsd.Lg Dsd.LgL Dsd.PyLegacy Dsd.PyLegacyReg

theorem size_name (o : LObj) : o.size.1.name = o.name := (congrArg LObj.name (withCore_size o)).symm
theorem rotateOnce_name (o : LObj) : o.rotateOnce.1.name = o.name := (congrArg LObj.name (withCore_rotateOnce o)).symm

theorem doMemorycheck_name (R : LReg) (o : LObj) (c : CKey) (r : Option Nat) : (o.doMemorycheck R c r).1.name = o.name := by
  unfold LObj.doMemorycheck
  split
  · rfl
  · split
    · rfl
    · simp only []
      split <;> exact size_name o

theorem canonLoop_name (R : LReg) : ∀ (k e : Nat) (o : LObj) (vars : List (CKey × Nat)),
    (LObj.canonLoop R k e o vars).1.name = o.name := by
  intro k
  induction k with
  | zero => intro e o vars; rfl
  | succ k ih =>
    intro e o vars
    rw [LObj.canonLoop]
    have h1 := rotateOnce_name o
    rcases hr : o.rotateOnce with ⟨o1, r⟩
    rw [hr] at h1
    cases r with
    | some err => exact h1
    | none =>
      simp only []
      split
      · rw [ih]; exact h1
      · split
        · have h2 := doMemorycheck_name R o1 (o1.seq, o1.sst) (some e)
          rcases hd : o1.doMemorycheck R (o1.seq, o1.sst) (some e) with ⟨o2, r2⟩
          rw [hd] at h2
          cases r2 with
          | some err => simp only []; rw [h2]; exact h1
          | none => simp only []; rw [ih, h2]; exact h1
        · rw [ih]; exact h1

/-- **`canonical_form` keeps the name of the object** -/
theorem canonicalForm_name (R : LReg) (o : LObj) : (o.canonicalForm R).1.name = o.name := by
  unfold LObj.canonicalForm
  split
  · rfl
  · simp only []
    have h0 := size_name o
    have h1 := canonLoop_name R o.size.2 1 o.size.1 []
    rcases hl : LObj.canonLoop R o.size.2 1 o.size.1 [] with ⟨o1, r⟩
    rw [hl] at h1
    cases r with
    | error e => simp only []; rw [h1, h0]
    | ok vars =>
      simp only []
      split
      · simp only []; rw [h1, h0]
      · split
        · simp only []; rw [h1, h0]
        · simp only []
          rw [size_name]
          simp only []
          rw [h1, h0]

end Dsd.PyLegacyInit
