/-
Case analysis of `domainRequest` (C04).
-/
import DsdVerif.Lemmas.DomainNames
import DsdVerif.Lemmas.Registry

namespace Dsd.DomL
open Dsd

/-- the name a request ends up with -/
def effName (cfg : DomCfg) (r : Reg DKey) (q : DomReq) : String :=
  match q.name with
  | some n => n
  | none => (q.prefix_.getD cfg.prefix_) ++ toString r.autoId

def defLen (cfg : DomCfg) : DType → Nat
  | .short => cfg.shortLen
  | .long => cfg.longLen

/-- the length check of `DomainS.identifiers` -/
def lengthOf (cfg : DomCfg) (q : DomReq) : Except Unit (Option Nat) :=
  match q.length with
  | none => .ok (match q.dtype with | some .short => some cfg.shortLen | some .long => some cfg.longLen | none => none)
  | some l => match q.dtype with
    | some d => if (d == .short) == (decide (l ≤ cfg.cutoff)) then .ok (some l) else .error ()
    | none => .ok (some l)

/-- the part of `domainRequest` after name and length are known -/
def domTail (r : Reg DKey) (fresh : Nat) (name : String) (length : Option Nat) (autoNamed : Bool) :
    Reg DKey × Out :=
  match length with
  | none =>
    if isStarred name then
      match r.findName (cnameOf name) with
      | some o => r.call (some (name, o.canon.2)) (some name) fresh [(name, o.canon.2)] autoNamed
      | none => r.call none (some name) fresh [] autoNamed
    else r.call none (some name) fresh [] autoNamed
  | some l =>
    match r.findName (cnameOf name) with
    | some o => if o.canon.2 ≠ l then (r, .singletonErr none)
                else r.call (some (name, l)) (some name) fresh [(name, l)] autoNamed
    | none => r.call (some (name, l)) (some name) fresh [(name, l)] autoNamed

theorem domainRequest_eq (cfg : DomCfg) (r : Reg DKey) (fresh : Nat) (q : DomReq) :
    domainRequest cfg r fresh q =
      if (effName cfg r q).isEmpty then (r, .fault "IndexError") else
      match lengthOf cfg q with
      | .error _ => (r, .objectInitErr)
      | .ok length => domTail r fresh (effName cfg r q) length q.name.isNone := by
  rfl

theorem call_none_spec (r : Reg DKey) (n : String) (fresh : Nat) (ks : List DKey) (auto : Bool) :
    (r.call none (some n) fresh ks auto).1 = r ∧
      ∀ id, (r.call none (some n) fresh ks auto).2 ≠ .ret id true := by
  rcases Reg.call_spec r none (some n) fresh ks auto with ⟨_, _, _, hk, _⟩ | ⟨h1, ⟨o, ho⟩ | ⟨e, he⟩⟩
  · cases hk
  · exact ⟨h1, fun id => by rw [ho]; simp⟩
  · exact ⟨h1, fun id => by rw [he]; simp⟩

theorem call_some_spec (r : Reg DKey) (n : String) (L : Nat) (fresh : Nat) (auto : Bool) :
    ((r.call (some (n, L)) (some n) fresh [(n, L)] auto).1 = r ∧
      ∀ id, (r.call (some (n, L)) (some n) fresh [(n, L)] auto).2 ≠ .ret id true) ∨
    (r.call (some (n, L)) (some n) fresh [(n, L)] auto =
        (r.register { id := fresh, name := n, canon := (n, L), keys := [(n, L)] } auto, .ret fresh true) ∧
      r.findName n = none ∧ r.findCanon (n, L) = none) := by
  rcases Reg.call_spec r (some (n, L)) (some n) fresh [(n, L)] auto with
    ⟨n', k', hn, hk, h1, h2, hcall⟩ | ⟨h1, ⟨o, ho⟩ | ⟨e, he⟩⟩
  · cases hn; cases hk; right; exact ⟨hcall, h1, h2⟩
  · left; exact ⟨h1, fun id => by rw [ho]; simp⟩
  · left; exact ⟨h1, fun id => by rw [he]; simp⟩

/-- what `domTail` does: nothing, or it creates `(name, L)` with `L` the requested length, or, for a
    starred name without length, the partner's length -/
theorem domTail_spec (r : Reg DKey) (fresh : Nat) (name : String) (length : Option Nat) (auto : Bool) :
    ((domTail r fresh name length auto).1 = r ∧ ∀ id, (domTail r fresh name length auto).2 ≠ .ret id true) ∨
    ∃ L, domTail r fresh name length auto =
        (r.register { id := fresh, name := name, canon := (name, L), keys := [(name, L)] } auto, .ret fresh true) ∧
      r.findName name = none ∧ r.findCanon (name, L) = none ∧
      (∀ o, r.findName (cnameOf name) = some o → o.canon.2 = L) ∧
      (∀ l, length = some l → L = l) := by
  cases length with
  | none =>
    unfold domTail
    simp only
    cases hs : isStarred name with
    | false => left; simpa using call_none_spec r name fresh [] auto
    | true =>
      simp only [if_true]
      cases ho : r.findName (cnameOf name) with
      | none => left; exact call_none_spec r name fresh [] auto
      | some o =>
        simp only
        rcases call_some_spec r name o.canon.2 fresh auto with h | ⟨h1, h2, h3⟩
        · left; exact h
        · right
          refine ⟨o.canon.2, h1, h2, h3, ?_, ?_⟩
          · intro o' ho'; cases ho'; rfl
          · intro l hl; cases hl
  | some l =>
    unfold domTail
    simp only
    cases ho : r.findName (cnameOf name) with
    | none =>
      simp only
      rcases call_some_spec r name l fresh auto with h | ⟨h1, h2, h3⟩
      · left; exact h
      · right
        refine ⟨l, h1, h2, h3, ?_, ?_⟩
        · intro o' ho'; cases ho'
        · intro l' hl; cases hl; rfl
    | some o =>
      simp only
      by_cases hne : o.canon.2 = l
      · simp only [hne, ne_eq, not_true_eq_false, if_false]
        rcases call_some_spec r name l fresh auto with h | ⟨h1, h2, h3⟩
        · left; exact h
        · right
          refine ⟨l, h1, h2, h3, ?_, ?_⟩
          · intro o' ho'; cases ho'; exact hne
          · intro l' hl; cases hl; rfl
      · left
        simp [hne]

theorem lengthOf_spec (cfg : DomCfg) (q : DomReq) (length : Option Nat) (h : lengthOf cfg q = .ok length) :
    (∀ l, q.length = some l → length = some l) ∧
    (q.length = none → ∀ d, q.dtype = some d → length = some (defLen cfg d)) := by
  unfold lengthOf at h
  constructor
  · intro l hl
    rw [hl] at h
    cases hd : q.dtype with
    | none => rw [hd] at h; simp at h; exact h.symm
    | some d =>
      rw [hd] at h; simp only at h
      split at h
      · cases h; rfl
      · cases h
  · intro hl d hd
    rw [hl, hd] at h
    cases d <;> simp at h <;> rw [← h] <;> rfl

/-- complete case analysis of a domain request -/
theorem domainRequest_spec (cfg : DomCfg) (r : Reg DKey) (fresh : Nat) (q : DomReq) :
    ((domainRequest cfg r fresh q).1 = r ∧ ∀ id, (domainRequest cfg r fresh q).2 ≠ .ret id true) ∨
    ∃ L, domainRequest cfg r fresh q =
        (r.register { id := fresh, name := effName cfg r q, canon := (effName cfg r q, L),
                      keys := [(effName cfg r q, L)] } q.name.isNone, .ret fresh true) ∧
      effName cfg r q ≠ "" ∧
      r.findName (effName cfg r q) = none ∧ r.findCanon (effName cfg r q, L) = none ∧
      (∀ o, r.findName (cnameOf (effName cfg r q)) = some o → o.canon.2 = L) ∧
      (∀ l, q.length = some l → L = l) ∧
      (q.length = none → ∀ d, q.dtype = some d → L = defLen cfg d) := by
  rw [domainRequest_eq]
  by_cases he : (effName cfg r q).isEmpty = true
  · left; simp [he]
  · have hne : effName cfg r q ≠ "" := by simpa using he
    simp only [he, Bool.false_eq_true, if_false]
    cases hlen : lengthOf cfg q with
    | error u => left; simp
    | ok length =>
      simp only
      obtain ⟨hl1, hl2⟩ := lengthOf_spec cfg q length hlen
      rcases domTail_spec r fresh (effName cfg r q) length q.name.isNone with h | ⟨L, h1, h2, h3, h4, h5⟩
      · left; exact h
      · right
        refine ⟨L, h1, hne, h2, h3, h4, ?_, ?_⟩
        · intro l hl; exact h5 l (hl1 l hl)
        · intro hl d hd; exact h5 _ (hl2 hl d hd)

end Dsd.DomL
