/-
Helper lemmas for the class-specific side conditions of C01 (`complexIdentifiers`).
-/
import DsdVerif.Model.Objects
import DsdVerif.Lemmas.Registry

namespace Dsd.RegL
open Dsd

theorem foldl_min_mem (ks : List CKey) (k : CKey) :
    ks.foldl (fun m x => if ckeyLt x m then x else m) k ∈ k :: ks := by
  induction ks generalizing k with
  | nil => simp
  | cons x xs ih =>
    simp only [List.foldl_cons]
    by_cases hc : ckeyLt x k = true
    · have := ih x
      simp only [hc, if_true, List.mem_cons] at this ⊢
      rcases this with h | h
      · right; left; exact h
      · right; right; exact h
    · have := ih k
      simp only [hc, List.mem_cons] at this ⊢
      rcases this with h | h
      · left; exact h
      · right; right; exact h

theorem minKey_mem (seen : List CKey) (c : CKey) (h : minKey seen = some c) : c ∈ seen := by
  cases seen with
  | nil => simp [minKey] at h
  | cons k ks =>
    simp only [minKey, Option.some.injEq] at h
    rw [← h]; exact foldl_min_mem ks k

/-- invariant of the rotation loop of `ComplexS.identifiers`: everything collected so far is
    unregistered; the result either comes from the exhausted loop (canonical form among the collected,
    unregistered keys) or from the early exit at a registered rotation -/
theorem loop_spec (r : Reg CKey) (n : Nat) :
    ∀ (k e : Nat) (s : List String) (t : List Char) (seen : List CKey) (ids : CplxIds),
      (∀ x ∈ seen, r.findCanon x = none) →
      complexIdentifiers.loop r n k e s t seen = .ok ids →
      (ids.canon ∈ ids.keys ∧ ∀ x ∈ ids.keys, r.findCanon x = none) ∨
        (r.findCanon ids.canon).isSome = true := by
  intro k
  induction k with
  | zero =>
    intro e s t seen ids hseen h
    unfold complexIdentifiers.loop at h
    cases hm : minKey seen with
    | none => simp [hm] at h
    | some c =>
      simp only [hm, Except.ok.injEq] at h
      subst h
      left
      refine ⟨List.mem_eraseDups.mpr (minKey_mem seen c hm), ?_⟩
      intro x hx
      exact hseen x (List.mem_eraseDups.mp hx)
  | succ k ih =>
    intro e s t seen ids hseen h
    unfold complexIdentifiers.loop at h
    by_cases hreg : (r.findCanon (s, t)).isSome = true
    · simp only [hreg, if_true, Except.ok.injEq] at h
      subst h
      right; exact hreg
    · simp only [hreg] at h
      cases hrot : rotateOnce s t with
      | error err =>
        rw [hrot] at h
        cases err <;> simp at h
      | ok nx =>
        rw [hrot] at h
        simp only at h
        apply ih (e + 1) nx.1 nx.2 (seen ++ [(s, t)]) ids _ h
        intro x hx
        simp only [List.mem_append, List.mem_singleton] at hx
        rcases hx with hx | rfl
        · exact hseen x hx
        · simpa using hreg

theorem complexIdentifiers_spec (r : Reg CKey) (seq : List String) (sst : List Char) (ids : CplxIds)
    (h : complexIdentifiers r seq sst = .ok ids) :
    (ids.canon ∈ ids.keys ∧ ∀ x ∈ ids.keys, r.findCanon x = none) ∨
      (r.findCanon ids.canon).isSome = true := by
  unfold complexIdentifiers at h
  split at h
  · cases h
  · exact loop_spec r _ _ 0 seq sst [] ids (by simp) h

/-- `DomainS(name)` without length and type -/
theorem domainRequest_nameOnly (cfg : DomCfg) (r : Reg DKey) (fresh : Nat) (n : String) :
    domainRequest cfg r fresh { name := some n } =
      if n.isEmpty then (r, .fault "IndexError") else
      if isStarred n then
        match r.findName (cnameOf n) with
        | some o => r.call (some (n, o.canon.2)) (some n) fresh [(n, o.canon.2)] false
        | none => r.call none (some n) fresh [] false
      else r.call none (some n) fresh [] false := by
  unfold domainRequest
  simp only [Option.isNone_some]
  rfl

end Dsd.RegL
