/-
The invariant `Inv` of the cached attributes of a legacy `DSD_Complex` (Lemmas/PyLegacyExt) holds for new objects and is kept by
every modelled method: `rotate_once`, `size`, `strand_length`, `get_domain`, `get_paired_loc`, `loop_index`, `get_loop_index`,
`is_connected`, `exterior_domains`, `enclosed_domains` (the other views do not change the object).
-/
import DsdVerif.Lemmas.PyLegacyExt

set_option linter.unusedSimpArgs false
set_option linter.unusedVariables false

namespace Dsd.PyLegacy
open Dsd Dsd.Gen Dsd.Lg

theorem inv_new (id : Nat) (name : String) (seq : List String) (sst : List Char) (mc : Bool) :
    Inv { id := id, name := name, seq := seq, sst := sst, memorycheck := mc } :=
  ⟨fun _ ht => (by cases ht), fun _ ht => (by cases ht), fun _ ht => (by cases ht)⟩

/-- only the five cached attributes matter -/
theorem inv_frame (o o' : LObj) (h : Inv o) (h1 : o'.pairTable = o.pairTable) (h2 : o'.loopIndex = o.loopIndex)
    (h3 : o'.exteriorLoops = o.exteriorLoops) (h4 : o'.exteriorDomains = o.exteriorDomains)
    (h5 : o'.enclosedDomains = o.enclosedDomains) : Inv o' := by
  refine ⟨?_, ?_, ?_⟩
  · intro t ht hne; rw [h1] at ht; exact h.pt t ht hne
  · intro l hl hne; rw [h2] at hl; rw [h1, h3]; exact h.li l hl hne
  · intro d hd hne; rw [h4] at hd; rw [h5]; exact h.en d hd hne

theorem truthy_some {α} (o : Option (List α)) (h : truthy o = true) : ∃ x xs, o = some (x :: xs) := by
  cases o with
  | none => cases h
  | some l => cases l with
    | nil => cases h
    | cons x xs => exact ⟨x, xs, rfl⟩

/-- what `if not self._pair_table: self._pair_table = make_pair_table(…)` leaves: the table is cached, it is a table of
    `make_pair_table`, nothing else changes, the invariant is kept -/
theorem fill_spec (o : LObj) (h : Inv o) (o1 : LObj) (pt : PairTable) (hf : o.fillPairTable = (o1, .ok pt)) :
    Inv o1 ∧ o1.pairTable = some pt ∧ IsPt pt ∧ o1.loopIndex = o.loopIndex ∧ o1.exteriorLoops = o.exteriorLoops ∧
      o1.exteriorDomains = o.exteriorDomains ∧ o1.enclosedDomains = o.enclosedDomains := by
  unfold LObj.fillPairTable at hf
  by_cases hc : truthy o.pairTable = true
  · obtain ⟨x, xs, hx⟩ := truthy_some _ hc
    simp only [hc, if_true, hx, Option.getD] at hf
    cases hf
    exact ⟨h, hx, h.pt _ hx (by simp), rfl, rfl, rfl, rfl⟩
  · simp only [hc, if_false, Bool.false_eq_true] at hf
    cases hm : makePairTable o.sst with
    | error e =>
      rw [hm] at hf
      have := LgL.makePairTable_err _ _ hm
      subst this
      cases hf
    | ok pt' =>
      rw [hm] at hf
      cases hf
      refine ⟨⟨?_, ?_, h.en⟩, rfl, ⟨o.sst, hm⟩, rfl, rfl, rfl, rfl⟩
      · intro t ht _
        simp only [Option.some.injEq] at ht
        subst ht
        exact ⟨o.sst, hm⟩
      · -- a truthy loop index would need a truthy cached pair table
        intro l hl hne
        obtain ⟨pt0, e, hp, hI, _, _⟩ := h.li l hl hne
        exfalso
        apply hc
        have := isPt_ne_nil _ hI
        rw [hp]
        cases pt0 with
        | nil => exact absurd rfl this
        | cons => rfl

theorem fill_err (o : LObj) (h : Inv o) (o1 : LObj) (e : LErr) (hf : o.fillPairTable = (o1, .error e)) : o1 = o := by
  unfold LObj.fillPairTable at hf
  by_cases hc : truthy o.pairTable = true
  · simp only [hc, if_true] at hf; cases hf
  · simp only [hc, if_false, Bool.false_eq_true] at hf
    cases hm : makePairTable o.sst with
    | error e' =>
      rw [hm] at hf
      have := LgL.makePairTable_err _ _ hm
      subst this
      cases hf; rfl
    | ok pt' => rw [hm] at hf; cases hf

/-- `self._loop_index, self._exterior_loops = make_loop_index(self._pair_table)` keeps the invariant -/
theorem inv_setLI (o1 : LObj) (h : Inv o1) (pt : PairTable) (hp : o1.pairTable = some pt) (hI : IsPt pt)
    (li : List (List Nat)) (ext : List Nat) (hr : LObj.runLoopIndex pt = .ok (li, ext)) :
    Inv { o1 with loopIndex := some li, exteriorLoops := some ext } := by
  refine ⟨h.pt, ?_, h.en⟩
  intro l hl _
  simp only [Option.some.injEq] at hl
  subst hl
  exact ⟨pt, ext, hp, hI, hr, rfl⟩

theorem inv_rotateOnce (o : LObj) (h : Inv o) : Inv o.rotateOnce.1 := by
  unfold LObj.rotateOnce
  split
  · exact inv_frame o _ h rfl rfl rfl rfl rfl
  · exact ⟨fun _ ht => (by cases ht), fun _ ht => (by cases ht), fun _ ht => (by cases ht)⟩

theorem fsl_frame (o : LObj) : o.fillStrandLengths.1.pairTable = o.pairTable ∧ o.fillStrandLengths.1.loopIndex = o.loopIndex ∧
    o.fillStrandLengths.1.exteriorLoops = o.exteriorLoops ∧ o.fillStrandLengths.1.exteriorDomains = o.exteriorDomains ∧
    o.fillStrandLengths.1.enclosedDomains = o.enclosedDomains := by
  unfold LObj.fillStrandLengths
  split
  · exact ⟨rfl, rfl, rfl, rfl, rfl⟩
  · simp only []
    split <;> exact ⟨rfl, rfl, rfl, rfl, rfl⟩

theorem inv_size (o : LObj) (h : Inv o) : Inv o.size.1 := by
  obtain ⟨a, b, c, d, e⟩ := fsl_frame o
  exact inv_frame o _ h a b c d e

theorem inv_strandLength (o : LObj) (h : Inv o) (k : Nat) : Inv (o.strandLength k).1 := by
  obtain ⟨a, b, c, d, e⟩ := fsl_frame o
  exact inv_frame o _ h a b c d e

theorem inv_getDomain (o : LObj) (h : Inv o) (l : Locus) : Inv (o.getDomain l).1 := by
  unfold LObj.getDomain
  simp only []
  split <;> exact inv_frame o _ h rfl rfl rfl rfl rfl

/-- the object after the prologue that fills the pair table -/
theorem inv_fill (o : LObj) (h : Inv o) : Inv o.fillPairTable.1 := by
  rcases hf : o.fillPairTable with ⟨o1, r⟩
  cases r with
  | error e => rw [fill_err o h o1 e hf]; exact h
  | ok pt => exact (fill_spec o h o1 pt hf).1

theorem inv_getPairedLoc (o : LObj) (h : Inv o) (l : Int × Int) : Inv (o.getPairedLoc l).1 := by
  unfold LObj.getPairedLoc
  split
  · exact h
  · have := inv_fill o h
    rcases hf : o.fillPairTable with ⟨o1, r⟩
    rw [hf] at this
    cases r <;> exact this

theorem inv_loopIndexView (o : LObj) (h : Inv o) : Inv o.loopIndexView.1 := by
  unfold LObj.loopIndexView
  have := inv_fill o h
  rcases hf : o.fillPairTable with ⟨o1, r⟩
  rw [hf] at this
  cases r <;> exact this

theorem inv_isConnected (o : LObj) (h : Inv o) : Inv o.isConnected.1 := by
  unfold LObj.isConnected
  rcases hf : o.fillPairTable with ⟨o1, r⟩
  cases r with
  | error e => rw [fill_err o h o1 e hf]; exact h
  | ok pt =>
    obtain ⟨h1, hp, hI, _⟩ := fill_spec o h o1 pt hf
    simp only []
    split
    · exact h1
    · cases hr : LObj.runLoopIndex pt with
      | error e => cases e <;> exact h1
      | ok l => exact inv_setLI o1 h1 pt hp hI l.1 l.2 hr

theorem inv_getLoopIndex (o : LObj) (h : Inv o) (l : Locus) : Inv (o.getLoopIndex l).1 := by
  unfold LObj.getLoopIndex
  rcases hf : o.fillPairTable with ⟨o1, r⟩
  cases r with
  | error e => rw [fill_err o h o1 e hf]; exact h
  | ok pt =>
    obtain ⟨h1, hp, hI, _⟩ := fill_spec o h o1 pt hf
    simp only []
    by_cases hc : truthy o1.loopIndex = true
    · simp only [hc, if_true]; exact h1
    · simp only [hc, if_false, Bool.false_eq_true]
      cases hr : LObj.runLoopIndex pt with
      | error e => exact h1
      | ok l => exact inv_setLI o1 h1 pt hp hI l.1 l.2 hr

theorem inv_stepLI (o1 : LObj) (h1 : Inv o1) (pt : PairTable) (hp : o1.pairTable = some pt) (hI : IsPt pt) :
    Inv (stepLI o1 pt).1 := by
  unfold stepLI
  split
  · cases hr : LObj.runLoopIndex pt with
    | error e => exact h1
    | ok l => exact inv_setLI o1 h1 pt hp hI l.1 l.2 hr
  · exact h1

theorem inv_exteriorDomainsView (o : LObj) (h : Inv o) : Inv o.exteriorDomainsView.1 := by
  rw [extView_eq]
  split
  · exact h
  · rcases hf : o.fillPairTable with ⟨o1, r⟩
    cases r with
    | error e => rw [fill_err o h o1 e hf]; exact h
    | ok pt =>
      obtain ⟨h1, hp, hI, _⟩ := fill_spec o h o1 pt hf
      have h2 := inv_stepLI o1 h1 pt hp hI
      simp only []
      rcases hs : stepLI o1 pt with ⟨o2, r2⟩
      rw [hs] at h2
      cases r2 with
      | error e => exact h2
      | ok l =>
        simp only []
        exact ⟨h2.pt, h2.li, fun _ _ _ => ⟨_, rfl⟩⟩

theorem inv_enclosedDomainsView (o : LObj) (h : Inv o) : Inv o.enclosedDomainsView.1 := by
  unfold LObj.enclosedDomainsView
  split
  · exact h
  · have := inv_exteriorDomainsView o h
    rcases hv : o.exteriorDomainsView with ⟨o1, r⟩
    rw [hv] at this
    cases r <;> exact this

end Dsd.PyLegacy
