/-
The containment clause of the invariant on complexes: the names in a live complex's sequence are the names of its
node's children (domain objects), and every child carries one of these names.  Preservation by the operations on
complexes, in particular by `split()` (whose components take as children the parent's children filtered by name).
-/
import DsdVerif.Lemmas.SplitInv
import DsdVerif.Lemmas.Rotate

namespace Dsd.SplitObj
open Dsd Dsd.Bracket

/-- `ch` is a live domain object named `x` -/
def DomNamed (w : World) (ch : Nat) (x : String) : Prop :=
  ∃ (c : Nat) (cr : ClassReg DKey) (d : Obj DKey), w.doms[c]? = some cr ∧ d ∈ cr.reg.objs ∧ d.id = ch ∧ d.name = x

/-- names of the sequence ↔ names of the children -/
structure KidsOK (w : World) (children : List Nat) (seq : List String) : Prop where
  names : ∀ x ∈ seq, x ≠ "+" → ∃ ch ∈ children, DomNamed w ch x
  kids : ∀ ch ∈ children, ∃ x ∈ seq, DomNamed w ch x

/-- every live complex's node contains exactly the domains named in its sequence -/
def ChildNamesOK (w : World) : Prop :=
  ∀ (c id : Nat) (nd : Node) (o : CplxObj), RdL.has w .cplx c id → nd ∈ w.nodes → nd.id = id →
    w.cstate.lookup id = some o → KidsOK w nd.children o.seq

theorem domNamed_congr (w w' : World) (h : w'.doms = w.doms) (ch : Nat) (x : String) (hd : DomNamed w ch x) :
    DomNamed w' ch x := by
  obtain ⟨c, cr, d, h1, h2, h3, h4⟩ := hd
  exact ⟨c, cr, d, by rw [h]; exact h1, h2, h3, h4⟩

theorem kidsOK_mono (w w' : World) (children : List Nat) (seq seq' : List String) (h : KidsOK w children seq)
    (hseq : ∀ x, x ∈ seq' ↔ x ∈ seq) (hd : ∀ ch ∈ children, ∀ x, DomNamed w ch x → DomNamed w' ch x) :
    KidsOK w' children seq' := by
  refine ⟨?_, ?_⟩
  · intro x hx hne
    obtain ⟨ch, hch, hdn⟩ := h.names x ((hseq x).mp hx) hne
    exact ⟨ch, hch, hd ch hch x hdn⟩
  · intro ch hch
    obtain ⟨x, hx, hdn⟩ := h.kids ch hch
    exact ⟨x, (hseq x).mpr hx, hd ch hch x hdn⟩

/-- frame: live complexes, their nodes and the names in their states come from `w` -/
theorem childNames_frame (w w' : World) (h : ChildNamesOK w)
    (hsub : ∀ (c id : Nat) (nd : Node) (o : CplxObj), RdL.has w' .cplx c id → nd ∈ w'.nodes → nd.id = id →
      w'.cstate.lookup id = some o →
      RdL.has w .cplx c id ∧ nd ∈ w.nodes ∧ (∃ o0, w.cstate.lookup id = some o0 ∧ ∀ x, x ∈ o.seq ↔ x ∈ o0.seq) ∧
      (∀ ch ∈ nd.children, ∀ x, DomNamed w ch x → DomNamed w' ch x)) : ChildNamesOK w' := by
  intro c id nd o hh hn hid ho
  obtain ⟨h1, h2, ⟨o0, ho0, hseq⟩, hdn⟩ := hsub c id nd o hh hn hid ho
  exact kidsOK_mono w w' _ _ _ (h c id nd o0 h1 h2 hid ho0) hseq hdn

theorem childNames_normW (w : World) (h : ChildNamesOK w) (c : Nat) (cr : ClassReg CKey) (hc : w.cplxs[c]? = some cr) :
    ChildNamesOK (normW w c cr) :=
  childNames_frame w _ h (fun c' id _ o hh hn _ ho =>
    ⟨(has_normW w c cr hc .cplx c' id).mp hh, hn, ⟨o, ho, fun _ => Iff.rfl⟩, fun _ _ _ hd => hd⟩)

theorem childNames_held (w : World) (h : ChildNamesOK w) (held : List Nat) : ChildNamesOK { w with held := held } :=
  childNames_frame w _ h (fun _ _ _ o hh hn _ ho => ⟨hh, hn, ⟨o, ho, fun _ => Iff.rfl⟩, fun _ _ _ hd => hd⟩)

theorem childNames_oldW (w : World) (h : ChildNamesOK w) (c : Nat) (cr : ClassReg CKey) (hc : w.cplxs[c]? = some cr)
    (id : Nat) : ChildNamesOK (oldW w c cr id) :=
  childNames_held _ (childNames_normW w h c cr hc) _

/-! ### creation -/

theorem lookup_append_ne (l : List (Nat × CplxObj)) (k k' : Nat) (v o : CplxObj) (hne : k ≠ k')
    (h : (l ++ [(k', v)]).lookup k = some o) : l.lookup k = some o := by
  rw [List.lookup_append] at h
  cases hl : l.lookup k with
  | some o' => rw [hl] at h; exact h
  | none =>
    rw [hl] at h
    have : (k == k') = false := by rw [beq_eq_false_iff_ne]; exact hne
    simp [List.lookup_cons, this] at h

theorem live_lt (w : World) (hw : RdL.WOK w) (c i : Nat) (h : RdL.has w .cplx c i) : i < w.nextId := by
  obtain ⟨n, hn1, hn2, _⟩ := hw.objNode .cplx c i h
  have := hw.lt n hn1
  omega

/-- a new complex whose node contains the domains named in its sequence -/
theorem childNames_create (w w' : World) (hw : RdL.WOK w) (hs : CplxStateOK w) (h : ChildNamesOK w) (nn : Node)
    (o : CplxObj)
    (hhas : ∀ c' i, RdL.has w' .cplx c' i → RdL.has w .cplx c' i ∨ i = w.nextId)
    (hnodes : w'.nodes = w.nodes ++ [nn]) (hnn : nn.id = w.nextId)
    (hcs : w'.cstate = w.cstate ++ [(w.nextId, o)])
    (hdoms : ∀ ch x, DomNamed w ch x → DomNamed w' ch x)
    (hk : KidsOK w nn.children o.seq) : ChildNamesOK w' := by
  intro c id nd o' hh hn hid ho
  rw [hnodes] at hn
  rw [hcs] at ho
  have hcases : (id = w.nextId ∧ nd = nn) ∨ (id ≠ w.nextId ∧ nd ∈ w.nodes) := by
    simp only [List.mem_append, List.mem_singleton] at hn
    rcases hn with hn | rfl
    · right
      have := hw.lt nd hn
      exact ⟨by omega, hn⟩
    · left; exact ⟨by rw [← hid, hnn], rfl⟩
  rcases hcases with ⟨e, rfl⟩ | ⟨hne, hn'⟩
  · subst e
    rw [lookup_append_new _ w.nextId _ (fun p hp => by have := hs.stateLt p hp; omega)] at ho
    cases ho
    exact kidsOK_mono w w' _ _ _ hk (fun _ => Iff.rfl) (fun ch _ x hd => hdoms ch x hd)
  · rcases hhas c id hh with h1 | h1
    · have ho' := lookup_append_ne _ _ _ _ _ hne ho
      exact kidsOK_mono w w' _ _ _ (h c id nd o' h1 hn' hid ho') (fun _ => Iff.rfl) (fun ch _ x hd => hdoms ch x hd)
    · exact absurd h1 hne

theorem childNames_newW (w : World) (hw : RdL.WOK w) (hs : CplxStateOK w) (h : ChildNamesOK w) (c : Nat)
    (cr : ClassReg CKey) (hc : w.cplxs[c]? = some cr) (nm : String) (canon : CKey) (keys : List CKey)
    (names : List String) (sst : List Char) (turns : Nat) (children : List Nat) (hk : KidsOK w children names) :
    ChildNamesOK (newW w c cr nm canon keys names sst turns children) :=
  childNames_create w _ hw hs h { id := w.nextId, kind := .cplx, cls := c, children := children } _
    (fun c' i hh => by
      rcases (has_newW w c cr hc nm canon keys names sst turns children .cplx c' i).mp hh with h1 | ⟨_, _, h3⟩
      · exact Or.inl h1
      · exact Or.inr h3)
    rfl rfl rfl (fun _ _ hd => hd) hk

/-! ### looking a domain up -/

theorem domObj_of_named (w : World) (hw : RdL.WOK w) (ch : Nat) (x : String) (h : DomNamed w ch x) :
    ∃ c d, w.domObj ch = some (c, d) ∧ d.name = x := by
  obtain ⟨c, cr, d, h1, h2, h3, h4⟩ := h
  obtain ⟨n, hn, _, _, hk, hc⟩ := RdL.node_of_has w hw .dom c ch ⟨cr, h1, d, h2, h3⟩
  refine ⟨c, d, ?_, h4⟩
  unfold World.domObj
  rw [hn]
  simp only [hk, if_true, hc, h1, Option.bind_some]
  have : cr.reg.findId ch = some d := by
    unfold Reg.findId
    apply RegL.find?_unique _ _ d h2 (by simp [h3])
    intro a ha hp
    exact RdL.eq_of_nodup_map (·.id) cr.reg.objs (hw.domIds c cr h1) a d ha h2 (by simp at hp; rw [hp, h3])
  rw [this]
  rfl

theorem named_of_domObj (w : World) (ch c : Nat) (d : Obj DKey) (h : w.domObj ch = some (c, d)) :
    DomNamed w ch d.name := by
  unfold World.domObj at h
  cases hn : w.node ch with
  | none => rw [hn] at h; cases h
  | some n =>
    rw [hn] at h
    simp only at h
    split at h
    · cases hc : w.doms[n.cls]? with
      | none => rw [hc] at h; cases h
      | some cr =>
        rw [hc] at h
        simp only [Option.bind_some] at h
        cases hf : cr.reg.findId ch with
        | none => rw [hf] at h; cases h
        | some d' =>
          rw [hf] at h
          simp only [Option.map_some, Option.some.injEq, Prod.mk.injEq] at h
          obtain ⟨_, rfl⟩ := h
          unfold Reg.findId at hf
          exact ⟨n.cls, cr, d', hc, List.mem_of_find?_eq_some hf, by simpa using List.find?_some hf, rfl⟩
    · cases h

/-- the children `split()` gives a component: the parent's children carrying one of the component's names -/
theorem kidsOK_splitChildren (w : World) (hw : RdL.WOK w) (names : List String) (pch : List Nat)
    (hpar : ∀ x ∈ names, x ≠ "+" → ∃ ch ∈ pch, DomNamed w ch x) :
    KidsOK w (splitChildren w names pch) names := by
  refine ⟨?_, ?_⟩
  · intro x hx hne
    obtain ⟨ch, hch, hd⟩ := hpar x hx hne
    obtain ⟨c, d, hdo, hname⟩ := domObj_of_named w hw ch x hd
    refine ⟨ch, ?_, hd⟩
    unfold splitChildren
    rw [List.mem_filter]
    refine ⟨hch, ?_⟩
    rw [hdo]
    simp only [List.contains_eq_mem, decide_eq_true_eq]
    rw [hname]; exact hx
  · intro ch hch
    unfold splitChildren at hch
    rw [List.mem_filter] at hch
    obtain ⟨_, hf⟩ := hch
    cases hdo : w.domObj ch with
    | none => rw [hdo] at hf; cases hf
    | some p =>
      obtain ⟨c, d⟩ := p
      rw [hdo] at hf
      simp only [List.contains_eq_mem, decide_eq_true_eq] at hf
      exact ⟨d.name, hf, named_of_domObj w ch c d hdo⟩

/-! ### garbage collection -/

theorem lookup_filter_some (l : List (Nat × CplxObj)) (p : Nat → Bool) (k : Nat) (v : CplxObj)
    (h : (l.filter (fun q => p q.1)).lookup k = some v) : l.lookup k = some v := by
  by_cases hk : p k = true
  · rw [lookup_filter l p k hk] at h; exact h
  · exfalso
    have : (l.filter (fun q => p q.1)).lookup k = none := by
      rw [List.lookup_eq_none_iff]
      intro q hq
      have := (List.mem_filter.mp hq).2
      have hne : k ≠ q.1 := by
        intro e
        rw [← e] at this
        exact hk this
      simpa using hne
    rw [this] at h; cases h

theorem childNames_collect (w : World) (hw : RdL.WOK w) (h : ChildNamesOK w) : ChildNamesOK w.collect := by
  intro c id nd o hh hn hid ho
  obtain ⟨hh', _⟩ := (RdL.has_collect w .cplx c id).mp hh
  simp only [World.collect, List.mem_filter, List.contains_eq_mem, decide_eq_true_eq] at hn
  have ho' : w.cstate.lookup id = some o := lookup_filter_some w.cstate (fun i => w.reachable.contains i) id o ho
  refine kidsOK_mono w _ _ _ _ (h c id nd o hh' hn.1 hid ho') (fun _ => Iff.rfl) ?_
  intro ch hch x ⟨c', cr, d, h1, h2, h3, h4⟩
  have hal := RdL.reachable_closed w hw nd hn.1 hn.2 ch hch
  refine ⟨c', { cr with reg := { cr.reg with objs := cr.reg.objs.filter (fun o => w.reachable.contains o.id) } },
    d, ?_, ?_, h3, h4⟩
  · simp only [World.collect]
    exact C05.dropDead_get w.doms _ c' cr h1
  · simp only [List.mem_filter, List.contains_eq_mem, decide_eq_true_eq]
    exact ⟨h2, by rw [h3]; exact hal⟩

/-! ### `split()` -/

theorem goRes_kids {cls : Nat} {pch held0 : List Nat} {ps : List Part} {w : World} {acc : List Out}
    {res : World × List Out} (hg : GoRes cls pch held0 ps w acc res) (seq0 : List String)
    (hps : ∀ p ∈ ps, ∀ x ∈ pnames p, x ≠ "+" → x ∈ seq0)
    (hpar : ∀ x ∈ seq0, x ≠ "+" → ∃ ch ∈ pch, DomNamed w ch x) (hck : ChildNamesOK w) : ChildNamesOK res.1 := by
  induction hg with
  | nil w acc hw hs => exact hck
  | old p ps w acc res cr ob k hw hs hc _ _ _ _ _ ih =>
    exact ih (fun q hq => hps q (List.mem_cons_of_mem _ hq)) hpar (childNames_oldW w hck cls cr hc ob.id)
  | new p ps w acc res cr ids k hw hs hc _ _ _ _ ih =>
    exact ih (fun q hq => hps q (List.mem_cons_of_mem _ hq)) hpar
      (childNames_newW w hw hs hck cls cr hc _ _ _ _ _ _ _
        (kidsOK_splitChildren w hw (pnames p) pch (fun x hx hne => hpar x (hps p (by simp) x hx hne) hne)))
  | abort p ps w acc cr on k hw hs hc _ _ _ =>
    exact childNames_collect _ (RdL.wok_held _ (wok_normW w hw cls cr hc) _)
      (childNames_held _ (childNames_normW w hck cls cr hc) _)

/-- the names of a part are names of the complex -/
theorem parts_names (seq : List String) (sst : List Char) (hd : C02.Descr seq sst) (pt : PairTable)
    (hpt : makePairTable sst = .ok pt) (parts : List Part)
    (hsp : splitPt (pt.length + 1) (makeStrandTableList "+" seq) pt = .ok parts) :
    ∀ p ∈ parts, ∀ x ∈ pnames p, x ≠ "+" → x ∈ seq := by
  obtain ⟨pt', hpt', hne, hshape⟩ := descr_pt seq sst hd
  rw [hpt] at hpt'; cases hpt'
  rw [stab_eq seq hd.nonempty] at hsp
  have hlen : (splitOn "+" seq).length = pt.length := by
    have := congrArg List.length hshape; simpa using this.symm
  obtain ⟨parts', idxs, f, l, q, _, _⟩ := C09.split_spec sst '+' pt (splitOn "+" seq) hpt hlen
  rw [hsp] at f
  have := Except.ok.inj f
  subst this
  intro p hp
  obtain ⟨k, hk⟩ := List.mem_iff_getElem?.mp hp
  have hkl : k < idxs.length := by rw [l]; exact (List.getElem?_eq_some_iff.mp hk).1
  obtain ⟨po, hidx⟩ := q k p _ hk (List.getElem?_eq_getElem hkl)
  generalize idxs[k] = idx at po hidx
  have hrows : ∀ r ∈ p.1, r ∈ splitOn "+" seq := by
    intro r hr
    rw [po.strands] at hr
    obtain ⟨i, _, hi⟩ := List.mem_filterMap.mp hr
    exact List.mem_of_getElem? hi
  have hp1 : p.1 ≠ [] := by
    cases idx with
    | nil => exact absurd rfl hidx
    | cons i0 is =>
      have hb := po.bound i0 (by simp)
      rw [po.strands, List.filterMap_cons, List.getElem?_eq_getElem (by omega)]
      simp
  have hsplit : splitOn "+" (pnames p) = p.1 := by
    apply splitOn_joinWith "+" p.1 hp1
    intro r hr hmem
    exact (Brk.mem_splitOn "+" seq r "+" (hrows r hr) hmem).2 rfl
  intro x hx hxne
  obtain ⟨r, hr, hxr⟩ := Brk.mem_splitOn_of_ne "+" (pnames p) x hx hxne
  rw [hsplit] at hr
  exact (Brk.mem_splitOn "+" seq r x (hrows r hr) hxr).1

/-- **`split()` preserves the containment clause** -/
theorem childNames_splitC (w : World) (id c : Nat) (hw : RdL.WOK w) (hs : CplxStateOK w) (hk : ChildNamesOK w)
    (hlive : RdL.has w .cplx c id) : ChildNamesOK (w.splitC id).1 := by
  obtain ⟨o, nd, cr, ob, pt, parts, ho, hnd, hmem, _, hc, hob, hid, he, hpt, hsp, hpok, hg⟩ :=
    splitC_run w id c hw hs hlive
  have hndid : nd.id = id := by
    unfold World.node at hnd
    simpa using List.find?_some hnd
  exact goRes_kids hg o.seq (parts_names o.seq o.sst he.descr pt hpt parts hsp)
    (hk c id nd o hlive hmem hndid ho).names hk

/-! ### views and the `turns` setter -/

theorem idxOf?_some (seq : List String) (p : Nat) (h : seq.idxOf? "+" = some p) :
    seq = seq.take p ++ "+" :: seq.drop (p + 1) := by
  unfold List.idxOf? at h
  rw [List.findIdx?_eq_some_iff_getElem] at h
  obtain ⟨hp, hb, _⟩ := h
  have e : seq[p] = "+" := by simpa using hb
  conv => lhs; rw [← List.take_append_drop p seq, List.drop_eq_getElem_cons hp, e]

/-- a rotation step permutes the names -/
theorem rotateOnce_mem (seq : List String) (sst : List Char) (r : List String × List Char)
    (h : rotateOnce seq sst = .ok r) (x : String) : x ∈ r.1 ↔ x ∈ seq := by
  cases hp : seq.idxOf? "+" with
  | none =>
    unfold rotateOnce at h
    rw [hp] at h
    cases h
    exact Iff.rfl
  | some p =>
    rw [Rot.rotateOnce_fst seq sst r p h hp]
    have e := idxOf?_some seq p hp
    generalize seq.take p = a at e ⊢
    generalize seq.drop (p + 1) = b at e ⊢
    rw [e]
    simp only [List.mem_append, List.mem_cons, List.not_mem_nil, or_false]
    constructor
    · rintro ((h1 | h1) | h1)
      · exact Or.inr (Or.inr h1)
      · exact Or.inr (Or.inl h1)
      · exact Or.inl h1
    · rintro (h1 | h1 | h1)
      · exact Or.inr h1
      · exact Or.inl (Or.inr h1)
      · exact Or.inl (Or.inl h1)

theorem rotateN_mem (k : Nat) : ∀ (seq : List String) (sst : List Char) (r : List String × List Char),
    rotateN k seq sst = .ok r → ∀ x, x ∈ r.1 ↔ x ∈ seq := by
  induction k with
  | zero => intro seq sst r h x; cases h; exact Iff.rfl
  | succ k ih =>
    intro seq sst r h x
    rw [ViewsRot.rotateN_succ] at h
    cases h1 : rotateOnce seq sst with
    | error e => rw [h1] at h; cases h
    | ok r1 =>
      rw [h1] at h
      exact (ih r1.1 r1.2 r h x).trans (rotateOnce_mem seq sst r1 h1 x)

theorem childNames_cset (w : World) (h : ChildNamesOK w) (id : Nat) (o o' : CplxObj)
    (ho : w.cstate.lookup id = some o)
    (hseq : ∀ c, RdL.has w .cplx c id → ∀ x, x ∈ o'.seq ↔ x ∈ o.seq) : ChildNamesOK (w.cset id o') := by
  apply childNames_frame w _ h
  intro c i nd o1 hh hn _ ho1
  refine ⟨hh, hn, ?_, fun _ _ _ hd => hd⟩
  have hl : (w.cset id o').cstate.lookup i = if i = id then (w.cstate.lookup i).map (fun _ => o') else w.cstate.lookup i :=
    lookup_cset w.cstate id i o'
  rw [hl] at ho1
  by_cases hi : i = id
  · subst hi
    rw [if_pos rfl, ho] at ho1
    cases ho1
    exact ⟨o, ho, hseq c hh⟩
  · rw [if_neg hi] at ho1
    exact ⟨o1, ho1, fun _ => Iff.rfl⟩

/-- the state of a live complex is coherent -/
theorem live_entry (w : World) (hs : CplxStateOK w) (c id : Nat) (hh : RdL.has w .cplx c id) (o : CplxObj)
    (ho : w.cstate.lookup id = some o) : ∃ cr ob, w.cplxs[c]? = some cr ∧ ob ∈ cr.reg.objs ∧ EntryOK ob o := by
  obtain ⟨cr, hc, ob, hob, hid⟩ := hh
  obtain ⟨o', ho', he⟩ := hs.entry c cr ob hc hob
  rw [hid, ho] at ho'
  cases ho'
  exact ⟨cr, ob, hc, hob, he⟩

theorem childNames_queryC (w : World) (id : Nat) (v : View) (hs : CplxStateOK w) (h : ChildNamesOK w) :
    ChildNamesOK (w.queryC id v).1 := by
  unfold World.queryC
  cases ho : w.cstate.lookup id with
  | none => exact h
  | some o =>
    apply childNames_cset w h id o _ ho
    intro c hh x
    obtain ⟨_, ob, _, _, he⟩ := live_entry w hs c id hh o ho
    obtain ⟨_, _, g3, _⟩ := C03.query_coherent o v he.coh
    show x ∈ (o.query v).1.seq ↔ x ∈ o.seq
    rw [g3]

theorem childNames_setTurns (w : World) (id : Nat) (v : Int) (hs : CplxStateOK w) (h : ChildNamesOK w) :
    ChildNamesOK (w.setTurns id v).1 := by
  unfold World.setTurns
  cases ho : w.cstate.lookup id with
  | none => exact h
  | some o =>
    apply childNames_cset w h id o _ ho
    intro c hh x
    obtain ⟨_, ob, _, _, he⟩ := live_entry w hs c id hh o ho
    obtain ⟨_, ⟨s1, _, _, _, _⟩, _, _⟩ := C03.setTurns_coh o v ((C03.coherent_iff o).1 he.coh)
    obtain ⟨k, hk⟩ := stPure_rotation o v
    show x ∈ (o.setTurns v).1.seq ↔ x ∈ o.seq
    rw [s1]
    exact rotateN_mem k o.seq o.sst _ hk x

/-! ### requests -/

theorem domNamed_grow {w w' : World} {k : Kind} {c : Nat} {children : List Nat} {out : Out}
    (g : RdL.Grow w w' k c children out) (ch : Nat) (x : String) (h : DomNamed w ch x) : DomNamed w' ch x := by
  obtain ⟨c0, cr0, d, h1, h2, h3, h4⟩ := h
  have hlt : c0 < w'.doms.length := by rw [g.lens.1]; exact RdL.getElem?_lt _ _ _ h1
  obtain ⟨cr, hcr, hobjs⟩ := g.domObjs c0 _ (List.getElem?_eq_getElem hlt)
  rw [h1] at hcr
  cases hcr
  refine ⟨c0, _, d, List.getElem?_eq_getElem hlt, ?_, h3, h4⟩
  rcases hobjs with e | ⟨o, e, _⟩
  · rw [e]; exact h2
  · rw [e]; exact List.mem_append_left _ h2

/-- a request that creates no complex with a state -/
theorem childNames_grow {w w' : World} {k : Kind} {c : Nat} {children : List Nat} {out : Out}
    (g : RdL.Grow w w' k c children out) (hw : RdL.WOK w) (h : ChildNamesOK w) (hcs : w'.cstate = w.cstate)
    (hno : k = .cplx → out ≠ .ret w.nextId true) : ChildNamesOK w' := by
  apply childNames_frame w _ h
  intro c' id nd o hh hn hid ho
  have hh' : RdL.has w .cplx c' id := by
    rcases g.hasNew .cplx c' id hh with h1 | ⟨e, _, hk, _⟩
    · exact h1
    · exact absurd e (hno hk.symm)
  refine ⟨hh', ?_, ⟨o, by rw [← hcs]; exact ho, fun _ => Iff.rfl⟩, fun ch _ x hd => domNamed_grow g ch x hd⟩
  rw [g.nodes] at hn
  simp only [List.mem_append] at hn
  rcases hn with hn | hn
  · exact hn
  · exfalso
    have hlt := live_lt w hw c' id hh'
    unfold RdL.newNodes at hn
    split at hn
    · rename_i i
      simp only [List.mem_singleton] at hn
      have := g.retTrue i rfl
      rw [hn] at hid
      simp only at hid
      omega
    · cases hn

theorem childNames_mkDom (w : World) (hw : RdL.WOK w) (h : ChildNamesOK w) (c : Nat) (cr : ClassReg DKey)
    (hc : w.doms[c]? = some cr) (n : String) (hn : n ≠ "") (len : Option Nat) :
    ChildNamesOK (w.mkDom c { name := some n, length := len }).1 := by
  apply childNames_grow (RdL.mkDom_grow w c cr hc n hn len).1 hw h ?_ (fun e => by cases e)
  unfold World.mkDom
  simp only
  generalize World.withClass w.doms c _ = r
  obtain ⟨ds, out⟩ := r
  exact (settle_frame { w with doms := ds } out .dom c []).2.1

theorem seqNames_some (w : World) : ∀ (s : List (Option Nat)) (names : List String), w.seqNames s = some names →
    (∀ x ∈ names, x ≠ "+" → ∃ ch, some ch ∈ s ∧ DomNamed w ch x) ∧
    (∀ ch, some ch ∈ s → ∃ x ∈ names, DomNamed w ch x) := by
  intro s
  induction s with
  | nil =>
    intro names h
    simp [World.seqNames] at h
    subst h
    exact ⟨fun x hx => (by cases hx), fun ch hch => (by cases hch)⟩
  | cons a s ih =>
    intro names h
    unfold World.seqNames at h
    rw [List.mapM_cons] at h
    simp only [Option.bind_eq_bind, Option.bind_eq_some_iff, Option.pure_def, Option.some.injEq] at h
    obtain ⟨b, hb, bs, hbs, rfl⟩ := h
    obtain ⟨i1, i2⟩ := ih bs hbs
    cases a with
    | none =>
      simp only [Option.some.injEq] at hb
      subst hb
      refine ⟨?_, ?_⟩
      · intro x hx hne
        simp only [List.mem_cons] at hx
        rcases hx with rfl | hx
        · exact absurd rfl hne
        · obtain ⟨ch, h1, h2⟩ := i1 x hx hne
          exact ⟨ch, List.mem_cons_of_mem _ h1, h2⟩
      · intro ch hch
        simp only [List.mem_cons] at hch
        rcases hch with hch | hch
        · cases hch
        · obtain ⟨x, h1, h2⟩ := i2 ch hch
          exact ⟨x, List.mem_cons_of_mem _ h1, h2⟩
    | some i =>
      simp only [Option.map_eq_some_iff] at hb
      obtain ⟨p, hp, rfl⟩ := hb
      obtain ⟨pc, pd⟩ := p
      have hdn := named_of_domObj w i pc pd hp
      refine ⟨?_, ?_⟩
      · intro x hx hne
        simp only [List.mem_cons] at hx
        rcases hx with rfl | hx
        · exact ⟨i, by simp, hdn⟩
        · obtain ⟨ch, h1, h2⟩ := i1 x hx hne
          exact ⟨ch, List.mem_cons_of_mem _ h1, h2⟩
      · intro ch hch
        simp only [List.mem_cons, Option.some.injEq] at hch
        rcases hch with rfl | hch
        · exact ⟨pd.name, by simp, hdn⟩
        · obtain ⟨x, h1, h2⟩ := i2 ch hch
          exact ⟨x, List.mem_cons_of_mem _ h1, h2⟩


theorem kidsOK_seqNames (w : World) (s : List (Option Nat)) (sst : List Char)
    (hd : C02.Descr ((w.seqNames s).getD []) sst) : KidsOK w (s.filterMap id) ((w.seqNames s).getD []) := by
  cases hs : w.seqNames s with
  | none =>
    rw [hs] at hd
    exact absurd rfl (hd.nonempty [] (by simp [splitOn]))
  | some names =>
    obtain ⟨i1, i2⟩ := seqNames_some w s names hs
    simp only [Option.getD_some]
    refine ⟨?_, ?_⟩
    · intro x hx hne
      obtain ⟨ch, h1, h2⟩ := i1 x hx hne
      exact ⟨ch, List.mem_filterMap.mpr ⟨some ch, h1, rfl⟩, h2⟩
    · intro ch hch
      obtain ⟨a, ha, e⟩ := List.mem_filterMap.mp hch
      simp only [id_eq] at e
      subst e
      exact i2 ch ha

/-- what a request for a complex does to the states -/
theorem mkCplx_state (w : World) (c : Nat) (cr : ClassReg CKey) (hw : RdL.WOK w) (hs : CplxStateOK w)
    (hc : w.cplxs[c]? = some cr) (seq : Option (List (Option Nat))) (sst : List Char) (name pfx : Option String)
    (hd : ∀ s, seq = some s → C02.Descr ((w.seqNames s).getD []) sst) :
    ((∀ i, (w.mkCplx c seq sst name pfx).2.1 ≠ .ret i true) ∧ (w.mkCplx c seq sst name pfx).1.cstate = w.cstate) ∨
    (∃ (s : List (Option Nat)) (o : CplxObj), seq = some s ∧ (w.mkCplx c seq sst name pfx).2.1 = .ret w.nextId true ∧
      o.seq = (w.seqNames s).getD [] ∧ (w.mkCplx c seq sst name pfx).1.cstate = w.cstate ++ [(w.nextId, o)]) := by
  have hfresh : ∀ o ∈ cr.reg.objs, o.id ≠ w.nextId := by
    intro o ho e
    have := live_lt w hw c o.id ⟨cr, hc, o, ho, rfl⟩
    omega
  have hR := request_inv (World.effPrefix w.cplxs 5 c) { cr.reg with autoId := World.effId w.cplxs 5 c } w.nextId
    { seq := seq.map (fun s => (w.seqNames s).getD []), sst := sst, name := name, prefix_ := pfx }
    ((hs.regs c cr hc).autoId _) hfresh (by
      intro s hs'
      cases seq with
      | none => cases hs'
      | some s0 =>
        simp only [Option.map_some, Option.some.injEq] at hs'
        subst hs'
        exact hd s0 rfl)
  unfold World.mkCplx
  simp only [hc]
  generalize complexRequest (World.effPrefix w.cplxs 5 c) { cr.reg with autoId := World.effId w.cplxs 5 c } w.nextId
    { seq := seq.map (fun s => (w.seqNames s).getD []), sst := sst, name := name, prefix_ := pfx } = res at hR
  obtain ⟨r', out, ids⟩ := res
  rcases hR with ⟨h1, h2⟩ | ⟨s, ids', nm, b, hq, hres, hreg, hmem⟩
  · left
    simp only at h1 h2
    subst h1
    simp only
    refine ⟨h2, ?_⟩
    split
    · exact absurd rfl (h2 _)
    · exact (settle_frame _ _ _ _ _).2.1
  · right
    cases hres
    cases seq with
    | none => cases hq
    | some s0 =>
      simp only [Option.map_some, Option.some.injEq] at hq
      subst hq
      exact ⟨s0, _, rfl, rfl, rfl, rfl⟩

/-- **a named request for a complex preserves the containment clause** -/
theorem childNames_mkCplx (w : World) (c : Nat) (cr : ClassReg CKey) (hw : RdL.WOK w) (hs : CplxStateOK w)
    (h : ChildNamesOK w) (hc : w.cplxs[c]? = some cr) (seq : Option (List (Option Nat))) (sst : List Char) (n : String)
    (hd : ∀ s, seq = some s → C02.Descr ((w.seqNames s).getD []) sst) :
    ChildNamesOK (w.mkCplx c seq sst (some n) none).1 := by
  have g := RdL.mkCplx_grow w c cr hc seq sst n
  rcases mkCplx_state w c cr hw hs hc seq sst (some n) none hd with ⟨h1, h2⟩ | ⟨s, o, rfl, h1, h2, h3⟩
  · exact childNames_grow g hw h h2 (fun _ => h1 _)
  · refine childNames_create w _ hw hs h
      { id := w.nextId, kind := .cplx, cls := c, children := s.filterMap id } o ?_ ?_ rfl h3
      (fun ch x hdn => domNamed_grow g ch x hdn) ?_
    · intro c' i hh
      rcases g.hasNew .cplx c' i hh with a | ⟨_, a, _, _⟩
      · exact Or.inl a
      · exact Or.inr a
    · have := g.nodes
      rw [h1] at this
      exact this
    · simp only
      rw [h2]
      exact kidsOK_seqNames w s sst (hd s rfl)

theorem childNames_mkCplxByNames (w : World) (c : Nat) (cr : ClassReg CKey) (hw : RdL.WOK w) (hs : CplxStateOK w)
    (h : ChildNamesOK w) (hc : w.cplxs[c]? = some cr) (names : List String) (sst : List Char) (pch : List Nat)
    (hd : C02.Descr names sst) (hpar : ∀ x ∈ names, x ≠ "+" → ∃ ch ∈ pch, DomNamed w ch x) :
    ChildNamesOK (w.mkCplxByNames c names sst pch).1 := by
  obtain ⟨ids0, _, h0⟩ := pure_ids names sst hd
  have hfresh : ∀ o ∈ cr.reg.objs, o.id ≠ w.nextId := by
    intro o ho e
    have := live_lt w hw c o.id ⟨cr, hc, o, ho, rfl⟩
    omega
  have hstep := mkCplxByNames_out w c cr hc (hs.regs c cr hc) hfresh names sst pch hd ids0 h0
  generalize w.mkCplxByNames c names sst pch = res at hstep
  cases hstep with
  | old ob ho hcan hn => exact childNames_oldW w h c cr hc ob.id
  | new ids hno hcan hkeys hfk hn =>
    exact childNames_newW w hw hs h c cr hc _ _ _ _ _ _ _ (kidsOK_splitChildren w hw names pch hpar)
  | refused on hn hne => exact childNames_normW w h c cr hc

end Dsd.SplitObj
