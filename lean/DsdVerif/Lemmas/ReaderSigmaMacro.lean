/-
End-to-end reading of declared systems (C14, "sigma" theorems), part 11: explicit worlds with all five kinds of
objects; look-ups of complexes by name; creating a macrostate.
-/
import DsdVerif.Lemmas.ReaderSigmaDup
import DsdVerif.Lemmas.Sort

namespace Dsd.Sig
open Dsd Dsd.PP Dsd.RState

/-- parameters of a world holding objects of all five kinds -/
structure DW6 where
  cd : Nat
  cs : Nat
  cc : Nat
  cm : Nat
  cr : Nat
  dobjs : List (Obj DKey) := []
  sobjs : List (Obj CKey) := []
  cobjs : List (Obj CKey) := []
  mobjs : List (Obj MKey) := []
  robjs : List (Obj RKey) := []
  nodes : List Node := []
  held : List Nat := []
  next : Nat := 0
  cstate : List (Nat × CplxObj) := []

def baseMacros : List (ClassReg MKey) := ({} : World).macros
def baseRxns : List (ClassReg RKey) := ({} : World).rxns

def DW6.world (p : DW6) : World :=
  { ({} : World) with
    doms := setObjs baseDoms p.cd p.dobjs, strands := setObjs baseStrands p.cs p.sobjs,
    cplxs := setObjs baseCplxs p.cc p.cobjs, macros := setObjs baseMacros p.cm p.mobjs,
    rxns := setObjs baseRxns p.cr p.robjs,
    nodes := p.nodes, held := p.held, nextId := p.next, cstate := p.cstate }

theorem baseMacros_get (c : Nat) (hc : c < 4) : ∃ cr, baseMacros[c]? = some cr ∧ cr.reg = {} := by
  have : c = 0 ∨ c = 1 ∨ c = 2 ∨ c = 3 := by omega
  rcases this with rfl | rfl | rfl | rfl <;> exact ⟨_, rfl, rfl⟩

theorem baseRxns_get (c : Nat) (hc : c < 4) : ∃ cr, baseRxns[c]? = some cr ∧ cr.reg = {} := by
  have : c = 0 ∨ c = 1 ∨ c = 2 ∨ c = 3 := by omega
  rcases this with rfl | rfl | rfl | rfl <;> exact ⟨_, rfl, rfl⟩

theorem effId_macros (c : Nat) (hc : c < 4) (objs : List (Obj MKey)) :
    World.effId (setObjs baseMacros c objs) 5 c = 1 := by
  have : c = 0 ∨ c = 1 ∨ c = 2 ∨ c = 3 := by omega
  rcases this with rfl | rfl | rfl | rfl <;> rfl

theorem setObjs_upd_macros (c : Nat) (hc : c < 4) (objs objs' : List (Obj MKey)) (cr : ClassReg MKey)
    (hcr : (setObjs baseMacros c objs)[c]? = some cr) :
    ReaderL.updCls (setObjs baseMacros c objs) c cr 1 { objs := objs', autoId := 1 } = setObjs baseMacros c objs' := by
  obtain ⟨cr0, h0, _⟩ := baseMacros_get c hc
  rw [setObjs_get baseMacros c objs cr0 h0] at hcr
  cases hcr
  unfold ReaderL.updCls setObjs
  rw [h0]
  simp only [List.set_set, bne_self_eq_false, Bool.or_false]

theorem setObjs_set_rxns (c : Nat) (hc : c < 4) (objs objs' : List (Obj RKey)) (cr : ClassReg RKey)
    (hcr : (setObjs baseRxns c objs)[c]? = some cr) :
    (setObjs baseRxns c objs).set c { cr with reg := { objs := objs', autoId := 1 } } = setObjs baseRxns c objs' := by
  obtain ⟨cr0, h0, _⟩ := baseRxns_get c hc
  rw [setObjs_get baseRxns c objs cr0 h0] at hcr
  cases hcr
  unfold setObjs
  rw [h0]
  simp only [List.set_set]

theorem dropDead_setObjs_macros (c : Nat) (hc : c < 4) (objs : List (Obj MKey)) (alive : List Nat) :
    World.dropDead (setObjs baseMacros c objs) alive =
      setObjs baseMacros c (objs.filter (fun o => alive.contains o.id)) := by
  have : c = 0 ∨ c = 1 ∨ c = 2 ∨ c = 3 := by omega
  rcases this with rfl | rfl | rfl | rfl <;> rfl

theorem dropDead_setObjs_rxns (c : Nat) (hc : c < 4) (objs : List (Obj RKey)) (alive : List Nat) :
    World.dropDead (setObjs baseRxns c objs) alive =
      setObjs baseRxns c (objs.filter (fun o => alive.contains o.id)) := by
  have : c = 0 ∨ c = 1 ∨ c = 2 ∨ c = 3 := by omega
  rcases this with rfl | rfl | rfl | rfl <;> rfl

theorem setObjs_nil_macros (c : Nat) (hc : c < 4) : setObjs baseMacros c [] = baseMacros := by
  have : c = 0 ∨ c = 1 ∨ c = 2 ∨ c = 3 := by omega
  rcases this with rfl | rfl | rfl | rfl <;> rfl

theorem setObjs_nil_rxns (c : Nat) (hc : c < 4) : setObjs baseRxns c [] = baseRxns := by
  have : c = 0 ∨ c = 1 ∨ c = 2 ∨ c = 3 := by omega
  rcases this with rfl | rfl | rfl | rfl <;> rfl

/-- a `DW4` world seen as a world without macrostates and reactions -/
def DW4.lift (p : DW4) (cm cr : Nat) : DW6 :=
  { cd := p.cd, cs := p.cs, cc := p.cc, cm := cm, cr := cr, dobjs := p.dobjs, sobjs := p.sobjs, cobjs := p.cobjs,
    nodes := p.nodes, held := p.held, next := p.next, cstate := p.cstate }

theorem DW6_of_DW4 (p : DW4) (cm cr : Nat) (hcm : cm < 4) (hcr : cr < 4) : (p.lift cm cr).world = p.world := by
  unfold DW6.world DW4.world DW4.lift
  simp only [setObjs_nil_macros cm hcm, setObjs_nil_rxns cr hcr]
  rfl

/-- nothing is collected when every object and node is held -/
theorem collect_DW6 (p : DW6) (hcd : p.cd < 4) (hcs : p.cs < 4) (hcc : p.cc < 4) (hcm : p.cm < 4) (hcr : p.cr < 4)
    (hd : ∀ o ∈ p.dobjs, o.id ∈ p.held) (hs : ∀ o ∈ p.sobjs, o.id ∈ p.held) (hc : ∀ o ∈ p.cobjs, o.id ∈ p.held)
    (hm : ∀ o ∈ p.mobjs, o.id ∈ p.held) (hrx : ∀ o ∈ p.robjs, o.id ∈ p.held)
    (hn : ∀ n ∈ p.nodes, n.id ∈ p.held) (hst : ∀ q ∈ p.cstate, q.1 ∈ p.held) : p.world.collect = p.world := by
  have hr : ∀ x ∈ p.held, p.world.reachable.contains x = true := by
    intro x hx
    simp only [List.contains_eq_mem, decide_eq_true_eq]
    exact WorldL.held_sub_reachable p.world x hx
  unfold World.collect
  have e1 : p.world.doms = setObjs baseDoms p.cd p.dobjs := rfl
  have e2 : p.world.strands = setObjs baseStrands p.cs p.sobjs := rfl
  have e3 : p.world.nodes = p.nodes := rfl
  have e4 : p.world.cstate = p.cstate := rfl
  have e5 : p.world.cplxs = setObjs baseCplxs p.cc p.cobjs := rfl
  have e6 : p.world.macros = setObjs baseMacros p.cm p.mobjs := rfl
  have e7 : p.world.rxns = setObjs baseRxns p.cr p.robjs := rfl
  simp only [e1, e2, e3, e4, e5, e6, e7, dropDead_setObjs_doms p.cd hcd, dropDead_setObjs_strands p.cs hcs,
    dropDead_setObjs_cplxs p.cc hcc, dropDead_setObjs_macros p.cm hcm, dropDead_setObjs_rxns p.cr hcr]
  rw [List.filter_eq_self.mpr (fun o ho => hr _ (hd o ho)), List.filter_eq_self.mpr (fun o ho => hr _ (hs o ho)),
    List.filter_eq_self.mpr (fun o ho => hr _ (hc o ho)), List.filter_eq_self.mpr (fun o ho => hr _ (hm o ho)),
    List.filter_eq_self.mpr (fun o ho => hr _ (hrx o ho)),
    List.filter_eq_self.mpr (fun n hn' => hr _ (hn n hn')), List.filter_eq_self.mpr (fun q hq => hr _ (hst q hq))]
  rfl

/-! ### looking complexes up by name -/

/-- `Complex(None, None, name)` for a live, held complex leaves the world as it is -/
theorem mkCplx_lookup_gen (w : World) (cc : Nat) (hcc : cc < 4) (cobjs : List (Obj CKey))
    (hcp : w.cplxs = setObjs baseCplxs cc cobjs) (n : String) (o : Obj CKey)
    (h1 : Reg.findName ({ objs := cobjs, autoId := 1 } : Reg CKey) n = some o) (hheld : o.id ∈ w.held) :
    w.mkCplx cc none [] (some n) none = (w, .ret o.id false, none) := by
  obtain ⟨cr0, h0, _⟩ := baseCplxs_get cc hcc
  have hget := setObjs_get baseCplxs cc cobjs cr0 h0
  rw [ReaderL.mkCplx_none w cc n _ (by rw [hcp]; exact hget)]
  simp only [hcp, effId_cplxs cc hcc]
  have hcall : Reg.call ({ objs := cobjs, autoId := 1 } : Reg CKey) none (some n) w.nextId [] false =
      ({ objs := cobjs, autoId := 1 }, .ret o.id false) := by
    simp [Reg.call, Reg.decide, h1]
  rw [hcall]
  simp only [ReaderL.updCls]
  rw [setObjs_upd_cplxs cc hcc cobjs cobjs _ hget]
  have hc : w.held.contains o.id = true := by simpa using hheld
  simp only [World.settle, hc, if_true, ← hcp]

theorem lookupAll_same (s : RState) (f : World → String → World × Out) (g : String → Nat) (names : List String)
    (h : ∀ n ∈ names, ∃ b, f s.w n = (s.w, .ret (g n) b)) :
    s.lookupAll f names = (s, .ok (names.map g)) := by
  induction names with
  | nil => rfl
  | cons n ns ih =>
    obtain ⟨b, hb⟩ := h n (by simp)
    unfold lookupAll
    rw [hb]
    simp only
    have hs : ({ s with w := s.w } : RState) = s := rfl
    rw [hs, ih (fun m hm => h m (by simp [hm]))]
    rfl

theorem cplxObj_gen (w : World) (cc : Nat) (hcc : cc < 4) (cobjs : List (Obj CKey))
    (hcp : w.cplxs = setObjs baseCplxs cc cobjs) (id : Nat) (ch : List Nat) (o : Obj CKey)
    (hn : w.nodes.find? (fun n => n.id == id) = some (cplxNode id cc ch))
    (ho : cobjs.find? (fun x => x.id == id) = some o) : w.cplxObj id = some (cc, o) := by
  obtain ⟨cr0, h0, _⟩ := baseCplxs_get cc hcc
  have hget := setObjs_get baseCplxs cc cobjs cr0 h0
  have hnode : w.node id = some (cplxNode id cc ch) := hn
  unfold World.cplxObj
  rw [hnode]
  simp only [cplxNode, if_true, hcp, hget, Option.bind_some, Reg.findId, ho, Option.map_some]

/-! ### creating a macrostate -/

/-- the canonical form of a macrostate: the members' canonical forms in the model's order -/
def macroCanon (ms : List (String × CKey)) : MKey := (sortBy (fun a b => ckeyLt a.2 b.2) ms).map (·.2)

def newMacro (id : Nat) (nm : String) (ms : List (String × CKey)) : Obj MKey :=
  { id := id, name := nm, canon := macroCanon ms, keys := [macroCanon ms] }

def macroNode (id c : Nat) (children : List Nat) : Node := { id := id, kind := .macro, cls := c, children := children }

theorem macroCanon_ne_nil (ms : List (String × CKey)) (h : ms ≠ []) : (macroCanon ms).isEmpty = false := by
  unfold macroCanon
  have hl := SortL.sortBy_length (fun a b : String × CKey => ckeyLt a.2 b.2) ms
  cases hs : sortBy (fun a b : String × CKey => ckeyLt a.2 b.2) ms with
  | nil => rw [hs] at hl; exact absurd (List.length_eq_zero_iff.mp hl.symm) h
  | cons a as => rfl

theorem mkMacro_create (w : World) (cm : Nat) (hcm : cm < 4) (mobjs : List (Obj MKey))
    (hm : w.macros = setObjs baseMacros cm mobjs) (ids : List Nat) (ms : List (String × CKey))
    (hms : ids.filterMap (fun id => (w.cplxObj id).map (fun p => (p.2.name, p.2.canon))) = ms) (hne : ms ≠ [])
    (nm : String) (hnm : nm ∈ ms.map (·.1)) (h1 : ∀ o ∈ mobjs, o.name ≠ nm)
    (h2 : ∀ o ∈ mobjs, macroCanon ms ∉ o.keys) :
    w.mkMacro cm (some ids) (some nm) =
      ({ w with macros := setObjs baseMacros cm (mobjs ++ [newMacro w.nextId nm ms]),
                nodes := w.nodes ++ [macroNode w.nextId cm ids],
                held := if w.held.contains w.nextId then w.held else w.held ++ [w.nextId],
                nextId := w.nextId + 1 }, .ret w.nextId true) := by
  obtain ⟨cr0, h0, _⟩ := baseMacros_get cm hcm
  have hget := setObjs_get baseMacros cm mobjs cr0 h0
  have f1 := findName_none_of ({ objs := mobjs, autoId := 1 } : Reg MKey) nm h1
  have f2 := findCanon_none_of ({ objs := mobjs, autoId := 1 } : Reg MKey) (macroCanon ms) h2
  have hreq : macroRequest ({ objs := mobjs, autoId := 1 } : Reg MKey) w.nextId (some ms) (some nm) =
      (Reg.register { objs := mobjs, autoId := 1 } (newMacro w.nextId nm ms) false, .ret w.nextId true) := by
    unfold macroRequest
    have hc : (ms.map (·.1)).contains nm = true := by simpa using hnm
    have he := macroCanon_ne_nil ms hne
    unfold macroCanon at he f2
    simp only [hc, if_true, he, Bool.false_eq_true, if_false]
    simp [Reg.call, Reg.decide, f1, f2, newMacro, macroCanon]
  unfold World.mkMacro
  simp only [Option.map_some, hms, Option.getD_some]
  rw [ReaderL.withClass_some _ _ _ _ (by rw [hm]; exact hget)]
  simp only [hm, effId_macros cm hcm, hreq]
  simp only [Reg.register, Bool.false_eq_true, if_false]
  rw [setObjs_upd_macros cm hcm mobjs _ _ hget]
  rfl

/-! ### generic reader steps for a resting-macrostate line -/

def macroLine (nm : String) (members : List String) : List Tree :=
  [.tok "resting-macrostate", .tok nm, .grp (members.map Tree.tok)]

theorem readLine_macro (s : RState) (sl : Slots) (nm : String) (members : List String) (ids : List Nat)
    (h1 : s.lookupAll (fun w n => let r := w.mkCplx sl.cplx none [] (some n) none; (r.1, r.2.1)) members = (s, .ok ids))
    (w' : World) (id : Nat) (b : Bool) (h2 : s.w.mkMacro sl.macr (some ids) (some nm) = (w', .ret id b)) :
    s.readLine sl (macroLine nm members) = ({ s with w := w' }, .ok (.macro id)) := by
  unfold macroLine readLine
  simp only [tokList_map_tok, h1, h2]

theorem readDoc_macro (s : RState) (sl : Slots) (before : List Nat) (line rest : List Tree) (d : RDict)
    (s1 : RState) (id : Nat) (nm : String)
    (hrl : s.readLine sl line = (s1, .ok (.macro id)))
    (hn : objName s1.w.macros sl.macr id = some nm) :
    s.readDoc sl [] before (.grp line :: rest) d =
      (s1.keepOnly before { d with macrostates := dictPut d.macrostates nm id }).readDoc sl [] before rest
        { d with macrostates := dictPut d.macrostates nm id } := by
  conv => lhs; unfold readDoc
  simp only [kind_not_ignored, Bool.false_eq_true, if_false, hrl, hn, Option.getD_some]

end Dsd.Sig
