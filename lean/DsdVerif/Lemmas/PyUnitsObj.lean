/-
The translated methods of `ReactionS` (rate constant, `rateformat`, `arity`) and of `ComplexS` (concentration) on their records
(Gen/PyUnits.lean) are the model functions of Model/Units.lean.  Core Lean only.
-/
import DsdVerif.Lemmas.PyUnits

set_option linter.unusedSimpArgs false

namespace Dsd.PyUnitsL
open Dsd Gen

/-! ### running the monad -/

section exec
variable {σ α β : Type}

theorem exec_pure (a : α) (s : σ) : (pure a : Py.MS σ α).exec s = (.ok a, s) := rfl

theorem exec_bind (m : Py.MS σ α) (f : α → Py.MS σ β) (s : σ) :
    (m >>= f).exec s = match m.exec s with
      | (.ok a, s') => (f a).exec s'
      | (.error e, s') => (.error e, s') := by
  simp only [Py.MS.exec, ExceptT.run, bind, ExceptT.bind, ExceptT.mk, StateT.bind, StateT.run]
  cases h : m s with
  | mk r s' => cases r <;> rfl

theorem exec_get (s : σ) : (get : Py.MS σ σ).exec s = (.ok s, s) := rfl
theorem exec_modify (f : σ → σ) (s : σ) : (modify f : Py.MS σ Unit).exec s = (.ok (), f s) := rfl
theorem exec_throw (e : Err) (s : σ) : (throw e : Py.MS σ α).exec s = (.error e, s) := rfl
theorem exec_lift (x : Except Err α) (s : σ) : (liftM x : Py.MS σ α).exec s = (x, s) := by cases x <;> rfl
theorem exec_monadLift (x : Except Err α) (s : σ) : (monadLift x : Py.MS σ α).exec s = (x, s) := by cases x <;> rfl
theorem exec_ite (c : Prop) [Decidable c] (a b : Py.MS σ α) (s : σ) :
    (if c then a else b).exec s = if c then a.exec s else b.exec s := by split <;> rfl

end exec

/-! ### the rate constant -/

/-- the three argument forms of the model as Python values of the setter's argument type -/
def argOf : Units.RateArg → Py.RateArg
  | .number v => .number v
  | .tuple1 v => .tuple1 v
  | .pair v u => .pair v u

/-- **the `rate_constant` setter as written is the model `Units.setRate`**: for a number, a 1-tuple and a pair it stores exactly the
    model's constant and units and touches nothing else -/
theorem py_rate_set_eq (a : Units.RateArg) (s : ReactionS.Self) :
    (py_ReactionS_set_rate_constant (argOf a)).exec s =
      (.ok (), { s with _const := some (Units.setRate a).1, _units := (Units.setRate a).2 }) := by
  cases a <;> rfl

/-- … and any other tuple (empty, or longer than two) is refused by the assertion with the object unchanged -/
theorem py_rate_set_refused (s : ReactionS.Self) :
    (py_ReactionS_set_rate_constant .tuple0).exec s = (.error .assertion, s) ∧
    ∀ k, (py_ReactionS_set_rate_constant (.longer k)).exec s = (.error .assertion, s) := by
  refine ⟨rfl, fun k => ?_⟩
  rfl

/-- **the `rate_constant` getter as written is the model `Units.getRate`** (`(None, None)` as long as no constant is stored); the
    object is unchanged -/
theorem py_rate_get_eq (s : ReactionS.Self) :
    py_ReactionS_rate_constant.exec s =
      (.ok (match s._const with
            | none => (none, none)
            | some c => (some (Units.getRate (c, s._units)).1, (Units.getRate (c, s._units)).2)), s) := by
  unfold py_ReactionS_rate_constant
  obtain ⟨r, p, c, u⟩ := s
  cases c with
  | none => rfl
  | some c =>
    simp only [exec_bind, exec_get, exec_ite, exec_pure, exec_monadLift, exec_lift, Option.isNone, Py.unwrap, py_flint_eq,
      Units.getRate, pure, Except.pure]
    rfl

/-- `arity` as written: the numbers of reactants and products; the object is unchanged -/
theorem py_arity_eq (s : ReactionS.Self) :
    py_ReactionS_arity.exec s = (.ok (s._reactants.length, s._products.length), s) := rfl

/-! ### rateformat -/

/-- the unit names of a rate-unit string `'/a/b'`: `s.split('/')[1:]`, as the code computes them -/
def unitsOf (s : String) : List String := (Py.strSplit s '/').drop 1

/-- the loop of `rateformat` is the model's fold of `convert` over the unit pairs -/
theorem exec_rateformat_loop (out : String) (ps : List (String × String)) (v : ReactionS_rateformat.Vars) (s : ReactionS.Self) :
    (List.foldlM (ReactionS_rateformat.loop1 out) v ps).exec s =
      (match liftU (ps.foldlM (fun c (io : String × String) => Units.convert c io.2 io.1) v.newc) with
       | .ok c => .ok { v with newc := c }
       | .error e => .error e, s) := by
  induction ps generalizing v with
  | nil => rfl
  | cons p ps ih =>
    rw [List.foldlM_cons, List.foldlM_cons, exec_bind]
    have hstep : (ReactionS_rateformat.loop1 out v p).exec s =
        (match liftU (Units.convert v.newc p.2 p.1) with
         | .ok c => .ok { v with newc := c }
         | .error e => .error e, s) := by
      unfold ReactionS_rateformat.loop1
      simp only [exec_bind, exec_monadLift, exec_lift, exec_pure, py_convert_units_eq]
      cases Units.convert v.newc p.2 p.1 <;> rfl
    rw [hstep]
    cases hc : Units.convert v.newc p.2 p.1 with
    | error e => simp [liftU, bind, Except.bind]
    | ok c => simp [liftU, bind, Except.bind, ih]

/-- without units `rateformat` raises ObjectInitError and leaves the object as it is -/
theorem py_rateformat_no_units (out : String) (s : ReactionS.Self) (hu : s._units = none) :
    (py_ReactionS_rateformat out).exec s = (.error .objectInit, s) := by
  unfold py_ReactionS_rateformat
  obtain ⟨r, p, c, u⟩ := s
  simp only at hu; subst hu
  rfl

/-- **`rateformat` as written is the model `Units.rateformat`** on the unit names that `.split('/')[1:]` yields, for every stored
    constant, every units string, every requested string and every number of reactants: the same number (with the requested
    string), or the same exception; the object is unchanged -/
theorem py_rateformat_eq (out u : String) (c : Rat) (s : ReactionS.Self) (hu : s._units = some u) (hc : s._const = some c) :
    (py_ReactionS_rateformat out).exec s =
      (match liftU (Units.rateformat c (unitsOf u) (unitsOf out) s._reactants.length) with
       | .ok r => .ok (r, out)
       | .error e => .error e, s) := by
  unfold py_ReactionS_rateformat Units.rateformat
  obtain ⟨rs, ps, c', u'⟩ := s
  simp only at hu hc; subst hu; subst hc
  simp only [exec_bind, exec_get, exec_ite, exec_pure, exec_monadLift, exec_lift, exec_throw, Option.isNone, Py.unwrap, Py.unwrapAttr,
    pure, Except.pure, exec_rateformat_loop]
  simp only [unitsOf]
  have h0 : ¬ (false = true) := by decide
  by_cases h1 : (List.drop 1 (Py.strSplit u '/')).length = rs.length
  · have t1 : ¬ (((List.drop 1 (Py.strSplit u '/')).length != rs.length) = true) := by simp only [h1, bne_self_eq_false]; decide
    by_cases h2 : (List.drop 1 (Py.strSplit out '/')).length = rs.length
    · have t2 : ¬ (((List.drop 1 (Py.strSplit out '/')).length != rs.length) = true) := by simp only [h2, bne_self_eq_false]; decide
      rw [if_neg h0, if_neg t1, if_neg t2]
      simp only [ne_eq, h1, h2, not_true_eq_false, if_false]
      cases List.foldlM (fun c (io : String × String) => Units.convert c io.snd io.fst) c
          ((List.drop 1 (Py.strSplit u '/')).zip (List.drop 1 (Py.strSplit out '/'))) <;> rfl
    · have t2 : ((List.drop 1 (Py.strSplit out '/')).length != rs.length) = true := by simpa using h2
      rw [if_neg h0, if_neg t1, if_pos t2]
      simp only [ne_eq, h1, h2, not_true_eq_false, not_false_eq_true, if_false, if_true]
      rfl
  · have t1 : ((List.drop 1 (Py.strSplit u '/')).length != rs.length) = true := by simpa using h1
    rw [if_neg h0, if_pos t1]
    simp only [ne_eq, h1, not_false_eq_true, if_true]
    rfl

/-! ### concentration -/

/-- the `concentration` setter as written stores the triple (or `None`) it is given -/
theorem py_conc_set_eq (trip : Option (String × (Rat × String))) (s : ComplexSConc.Self) :
    (py_ComplexSConc_set_concentration trip).exec s = (.ok (), { s with _concentration := trip }) := by
  cases trip <;> rfl

/-- the `concentration` getter as written returns what is stored -/
theorem py_conc_get_eq (s : ComplexSConc.Self) : py_ComplexSConc_concentration.exec s = (.ok s._concentration, s) := rfl

/-- **`concentrationformat` as written is the model `Units.concentrationformat`** on the stored value and unit: the stored mode, the
    converted number and the requested unit, or the model's exception; the object is unchanged -/
theorem py_concentrationformat_eq (out m u : String) (v : Rat) (s : ComplexSConc.Self) (h : s._concentration = some (m, v, u)) :
    (py_ComplexSConc_concentrationformat out).exec s =
      (match liftU (Units.concentrationformat v u out) with
       | .ok r => .ok (m, r, out)
       | .error e => .error e, s) := by
  unfold py_ComplexSConc_concentrationformat Units.concentrationformat
  obtain ⟨c⟩ := s
  simp only at h; subst h
  simp only [exec_bind, exec_get, exec_pure, exec_monadLift, exec_lift, Py.unwrap, pure, Except.pure, py_convert_units_eq]
  cases Units.convert v u out <;> rfl

/-- without a stored concentration `concentrationformat` raises TypeError (`None[0]`) -/
theorem py_concentrationformat_none (out : String) (s : ComplexSConc.Self) (h : s._concentration = none) :
    (py_ComplexSConc_concentrationformat out).exec s = (.error (.fault "TypeError"), s) := by
  obtain ⟨c⟩ := s
  simp only at h; subst h
  rfl

end Dsd.PyUnitsL
