/-
`rotate_once` of the translated legacy `DSD_Complex` (Gen/PyLegacy.lean) is the model's `LObj.rotateOnce` on EVERY object:
the two bracket-flipping loops with their Python-list stack, the item assignments, and the reset of the six cached attributes.
-/
import DsdVerif.Lemmas.PyLegacyBasic
import DsdVerif.Lemmas.LegacyRotate

set_option linter.unusedSimpArgs false

namespace Dsd.PyLegacy
open Dsd Dsd.Gen Dsd.Lg Dsd.PyObj.Basic

abbrev RV := DSD_Complex_rotate_once.Vars

/-- one iteration of a bracket loop on the locals -/
def bstep (push pop : Char) (v : RV) (i : Nat) : Except Err RV :=
  match v.tmpstruct[i]? with
  | none => .error (.fault "IndexError")
  | some c =>
    if c = push then .ok { v with stack := v.stack ++ [i] }
    else if c = pop then
      (if v.stack.isEmpty then .error (.fault "DSDObjectsError") else .ok { v with stack := v.stack.dropLast })
    else .ok v

theorem loop1_exec (v : RV) (i : Nat) (s : DSD_Complex.Self) :
    (DSD_Complex_rotate_once.loop1 v i).exec s = (bstep '(' ')' v i, s) := by
  unfold DSD_Complex_rotate_once.loop1 bstep Py.idx
  simp only [exec_ite, exec_bind, exec_get, exec_pure, exec_lift, exec_monadLift, exec_modify, exec_throw]
  cases h : v.tmpstruct[i]? with
  | none => rfl
  | some c =>
    simp only [pure, Except.pure]
    by_cases h1 : c = '('
    · simp only [h1, beq_self_eq_true, if_true]
    · by_cases h2 : c = ')'
      · subst h2
        simp only [h1, beq_iff_eq, if_false, if_true, beq_self_eq_true, Py.pop]
        cases hs : v.stack.getLast? with
        | none =>
          have : v.stack = [] := List.getLast?_eq_none_iff.mp hs
          simp only [this, List.isEmpty_nil, if_true]
          rfl
        | some x =>
          have : v.stack ≠ [] := by intro h0; rw [h0] at hs; cases hs
          have : v.stack.isEmpty = false := by cases hv : v.stack with | nil => exact absurd hv this | cons => rfl
          simp only [this, Bool.false_eq_true, if_false]
          rfl
      · simp only [h1, h2, beq_iff_eq, if_false]

theorem loop3_exec (v : RV) (i : Nat) (s : DSD_Complex.Self) :
    (DSD_Complex_rotate_once.loop3 v i).exec s = (bstep ')' '(' v i, s) := by
  unfold DSD_Complex_rotate_once.loop3 bstep Py.idx
  simp only [exec_ite, exec_bind, exec_get, exec_pure, exec_lift, exec_monadLift, exec_modify, exec_throw]
  cases h : v.tmpstruct[i]? with
  | none => rfl
  | some c =>
    simp only [pure, Except.pure]
    by_cases h1 : c = ')'
    · simp only [h1, beq_self_eq_true, if_true]
    · by_cases h2 : c = '('
      · subst h2
        simp only [h1, beq_iff_eq, if_false, if_true, beq_self_eq_true, Py.pop]
        cases hs : v.stack.getLast? with
        | none =>
          have : v.stack = [] := List.getLast?_eq_none_iff.mp hs
          simp only [this, List.isEmpty_nil, if_true]
          rfl
        | some x =>
          have : v.stack ≠ [] := by intro h0; rw [h0] at hs; cases hs
          have : v.stack.isEmpty = false := by cases hv : v.stack with | nil => exact absurd hv this | cons => rfl
          simp only [this, Bool.false_eq_true, if_false]
          rfl
      · simp only [h1, h2, beq_iff_eq, if_false]


/-- the fold of a bracket loop on the locals is the model's `bracketLoop` -/
theorem bstep_fold (push pop : Char) (p : Nat) (tmp : List Char) : ∀ (is stack : List Nat),
    List.foldlM (bstep push pop) ({ p := p, tmpstruct := tmp, stack := stack } : RV) is =
      match bracketLoop push pop tmp is stack with
      | .ok st => .ok { p := p, tmpstruct := tmp, stack := st }
      | .error e => .error (errOf e) := by
  intro is
  induction is with
  | nil => intro stack; rfl
  | cons i is ih =>
    intro stack
    rw [List.foldlM_cons]
    simp only [bstep, bracketLoop]
    cases h : tmp[i]? with
    | none => rfl
    | some c =>
      simp only []
      by_cases h1 : c = push
      · simp only [h1, if_true]; exact ih _
      · by_cases h2 : c = pop
        · subst h2
          simp only [h1, if_false, if_true]
          by_cases h3 : stack.isEmpty = true
          · simp only [h3, if_true]; rfl
          · simp only [h3, if_false, Bool.false_eq_true]; exact ih _
        · simp only [h1, h2, if_false]; exact ih _

/-- the indices a bracket loop leaves on its stack were all read from the list -/
theorem bracketLoop_lt (push pop : Char) (tmp : List Char) : ∀ (is st st' : List Nat),
    bracketLoop push pop tmp is st = .ok st' → (∀ x ∈ st, x < tmp.length) → ∀ x ∈ st', x < tmp.length := by
  intro is
  induction is with
  | nil => intro st st' h hb; simp only [bracketLoop] at h; cases h; exact hb
  | cons i is ih =>
    intro st st' h hb
    simp only [bracketLoop] at h
    cases hc : tmp[i]? with
    | none => rw [hc] at h; cases h
    | some c =>
      rw [hc] at h
      simp only [] at h
      have hi : i < tmp.length := by
        rcases List.getElem?_eq_some_iff.mp hc with ⟨hlt, _⟩; exact hlt
      split at h
      · refine ih _ _ h ?_
        intro x hx
        rcases List.mem_append.mp hx with hx | hx
        · exact hb x hx
        · simp only [List.mem_singleton] at hx; omega
      · split at h
        · split at h
          · cases h
          · exact ih _ _ h (fun x hx => hb x (List.dropLast_subset _ hx))
        · exact ih _ _ h hb

/-- one iteration of an assignment loop on the locals -/
def astep (c : Char) (v : RV) (i : Nat) : Except Err RV :=
  if i < v.tmpstruct.length then .ok { v with tmpstruct := v.tmpstruct.set i c } else .error (.fault "IndexError")

theorem loop2_exec (v : RV) (i : Nat) (s : DSD_Complex.Self) :
    (DSD_Complex_rotate_once.loop2 v i).exec s = (astep ')' v i, s) := by
  unfold DSD_Complex_rotate_once.loop2 astep Py.setIdx
  simp only [exec_ite, exec_bind, exec_get, exec_pure, exec_lift, exec_monadLift, exec_modify, exec_throw]
  by_cases hi : i < v.tmpstruct.length <;> simp only [hi, if_true, if_false] <;> rfl

theorem loop4_exec (v : RV) (i : Nat) (s : DSD_Complex.Self) :
    (DSD_Complex_rotate_once.loop4 v i).exec s = (astep '(' v i, s) := by
  unfold DSD_Complex_rotate_once.loop4 astep Py.setIdx
  simp only [exec_ite, exec_bind, exec_get, exec_pure, exec_lift, exec_monadLift, exec_modify, exec_throw]
  by_cases hi : i < v.tmpstruct.length <;> simp only [hi, if_true, if_false] <;> rfl

theorem astep_fold (c : Char) (p : Nat) (st0 : List Nat) : ∀ (is : List Nat) (tmp : List Char),
    (∀ x ∈ is, x < tmp.length) →
    List.foldlM (astep c) ({ p := p, tmpstruct := tmp, stack := st0 } : RV) is =
      .ok { p := p, tmpstruct := assignAll tmp is c, stack := st0 } := by
  intro is
  induction is with
  | nil => intro tmp _; rfl
  | cons i is ih =>
    intro tmp hb
    rw [List.foldlM_cons]
    have hi : i < tmp.length := hb i (List.mem_cons_self)
    simp only [astep, hi, if_true]
    refine (ih (tmp.set i c) ?_).trans ?_
    · intro x hx; rw [List.length_set]; exact hb x (List.mem_cons_of_mem _ hx)
    · rfl

/-- the answer of `rotate_once`: the object itself (the state), or the exception -/
def rotAns (r : LObj × Option LErr) : Except Err Unit × DSD_Complex.Self :=
  (match r.2 with | none => .ok () | some e => .error (errOf e), ofL r.1)

theorem range2_eq (a b : Nat) : Py.range2 a b = List.range' a (b - a) := by
  unfold Py.range2
  rw [List.range'_eq_map_range]
  apply List.map_congr_left
  intro x _; omega

theorem exec_rotate_once (o : LObj) : (py_DSD_Complex_rotate_once).exec (ofL o) = rotAns o.rotateOnce := by
  unfold py_DSD_Complex_rotate_once LObj.rotateOnce rotateOnceLists rotAns
  have f1 := exec_foldlM_pure _ _ loop1_exec
  have f2 := exec_foldlM_pure _ _ loop2_exec
  have f3 := exec_foldlM_pure _ _ loop3_exec
  have f4 := exec_foldlM_pure _ _ loop4_exec
  cases hp : o.seq.idxOf? "+" with
  | none =>
    have hc : (ofL o)._sequence.contains "+" = false := by
      show o.seq.contains "+" = false
      unfold List.idxOf? at hp
      rw [List.findIdx?_eq_none_iff] at hp
      simp only [List.contains_eq_mem, decide_eq_false_iff_not]
      intro hm; simpa using hp _ hm
    simp only [exec_ite, exec_bind, exec_get, exec_pure, exec_lift, exec_monadLift, exec_modify, exec_throw, hc, Bool.false_eq_true, if_false]
    rfl
  | some p =>
    obtain ⟨hpl, hget, -⟩ := Rot.idxOf?_some o.seq "+" p hp
    have hc : (ofL o)._sequence.contains "+" = true := by
      show o.seq.contains "+" = true
      simp only [List.contains_eq_mem, decide_eq_true_eq]
      exact List.mem_of_getElem? hget
    have hi : Py.index (ofL o)._sequence "+" = .ok p := by
      show Py.index o.seq "+" = .ok p
      unfold Py.index; unfold List.idxOf? at hp; rw [hp]; rfl
    simp only [exec_ite, exec_bind, exec_get, exec_pure, exec_lift, exec_monadLift, exec_modify, exec_throw, hc, hi, if_true,
      exec_structure', f1, f2, f3, f4]
    simp only [ofL, bstep_fold, flipStructure]
    cases h1 : bracketLoop '(' ')' o.sst (List.range p) [] with
    | error e => rfl
    | ok st1 =>
      have hb1 := bracketLoop_lt _ _ _ _ _ _ h1 (by intro x hx; cases hx)
      simp only [astep_fold _ _ _ _ _ hb1, range2_eq, bstep_fold]
      cases h2 : bracketLoop ')' '(' (assignAll o.sst st1 ')')
          (List.range' (p + 1) ((assignAll o.sst st1 ')').length - (p + 1))).reverse [] with
      | error e => rfl
      | ok st2 =>
        have hb2 := bracketLoop_lt _ _ _ _ _ _ h2 (by intro x hx; cases hx)
        simp only [astep_fold _ _ _ _ _ hb2]

end Dsd.PyLegacy
