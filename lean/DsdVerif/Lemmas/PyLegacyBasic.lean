/-
The cached views of the translated legacy `DSD_Complex` without loops: each is the model's function on every object.
-/
import DsdVerif.Lemmas.PyLegacyDefs
import DsdVerif.Props.PyFuncs

set_option linter.unusedSimpArgs false

namespace Dsd.PyLegacy
open Dsd Dsd.Gen Dsd.Lg Dsd.PyObj.Basic

theorem exec_sequence (o : LObj) : (py_DSD_Complex_sequence).exec (ofL o) = (.ok o.seq, ofL o) := rfl
theorem exec_structure (o : LObj) : (py_DSD_Complex_structure).exec (ofL o) = (.ok o.sst, ofL o) := rfl
theorem exec_structure' (s : DSD_Complex.Self) : (py_DSD_Complex_structure).exec s = (.ok s._structure, s) := rfl

theorem exec_size (o : LObj) : (py_DSD_Complex_size).exec (ofL o) = okAns o.size := by
  unfold py_DSD_Complex_size LObj.size LObj.fillStrandLengths okAns
  simp only [exec_ite, exec_bind, exec_get, exec_pure, exec_lift, exec_monadLift, exec_modify, PyFuncs.py_make_strand_table_list_default, truthy_eq]
  obtain ⟨id, name, seq, sst, canon, rot, sl, pt, li, el, lol, exd, end_, mc⟩ := o
  rcases sl with _ | _ | ⟨_, _⟩ <;> rcases lol with _ | _ | ⟨_, _⟩ <;> rfl

/-- `l[i]` of the model and of the prelude -/
theorem idx_exAns {α} (l : List α) (i : Nat) :
    (match (match l[i]? with | some n => (Except.ok n : Except LErr α) | none => .error (.fault "IndexError")) with
      | .ok a => (Except.ok a : Except Err α) | .error e => .error (errOf e)) = Py.idx l i := by
  unfold Py.idx; cases l[i]? <;> rfl

theorem exec_strand_length (o : LObj) (pos : Nat) :
    (py_DSD_Complex_strand_length pos).exec (ofL o) = exAns (o.strandLength pos) := by
  unfold py_DSD_Complex_strand_length LObj.strandLength LObj.fillStrandLengths exAns
  simp only [exec_ite, exec_bind, exec_get, exec_pure, exec_lift, exec_monadLift, exec_modify, PyFuncs.py_make_strand_table_list_default, truthy_eq]
  obtain ⟨id, name, seq, sst, canon, rot, sl, pt, li, el, lol, exd, end_, mc⟩ := o
  rcases sl with _ | _ | ⟨_, _⟩ <;> rcases lol with _ | _ | ⟨_, _⟩ <;>
    simp only [truthy, ofL, Py.unwrap, Bool.not_true, Bool.not_false, if_true, if_false, Option.getD, pure, Except.pure, Bool.false_eq_true] <;>
    (congr 1; unfold Py.idx; split <;> (rename_i h; rw [h]; rfl))

/-- closes `(l[i][j] through Py.idx, s) = (the model's l[i]?.bind (·[j]?) answer, s)` -/
macro "idx2" l:term "," i:term "," j:term : tactic => `(tactic| (
  simp only [Py.idx]
  cases h1 : ($l)[$i]? with
  | none => rfl
  | some r =>
    simp only [Option.bind, pure, Except.pure]
    cases h2 : r[$j]? <;> rfl))

theorem exec_lol_sequence (o : LObj) : (py_DSD_Complex_lol_sequence).exec (ofL o) = (.ok o.lolSequenceView, ofL o) := by
  unfold py_DSD_Complex_lol_sequence LObj.lolSequenceView
  simp only [exec_ite, exec_bind, exec_get, exec_pure, exec_lift, exec_monadLift, exec_modify, PyFuncs.py_make_strand_table_list_default]
  rfl

theorem exec_get_domain (o : LObj) (loc : Locus) :
    (py_DSD_Complex_get_domain loc).exec (ofL o) = exAns (o.getDomain loc) := by
  unfold py_DSD_Complex_get_domain LObj.getDomain exAns
  simp only [exec_ite, exec_bind, exec_get, exec_pure, exec_lift, exec_monadLift, exec_modify, PyFuncs.py_make_strand_table_list_default, truthy_eq]
  obtain ⟨id, name, seq, sst, canon, rot, sl, pt, li, el, lol, exd, end_, mc⟩ := o
  rcases lol with _ | _ | ⟨r0, rs⟩ <;>
    simp only [truthy, ofL, Py.unwrap, Bool.not_true, Bool.not_false, if_true, if_false, Option.getD, pure, Except.pure, Bool.false_eq_true]
  · idx2 (makeStrandTableList "+" seq), loc.1, loc.2
  · idx2 (makeStrandTableList "+" seq), loc.1, loc.2
  · idx2 (r0 :: rs), loc.1, loc.2

/-! ### the pair table -/

theorem exec_pair_table (o : LObj) :
    (py_DSD_Complex_pair_table).exec (ofL o) = exAns (o, o.pairTableView) := by
  unfold py_DSD_Complex_pair_table exAns
  simp only [exec_ite, exec_bind, exec_get, exec_pure, exec_lift, exec_monadLift, exec_modify, exec_structure, PyFuncs.py_make_pair_table_eq,
    LgL.pairTableView_eq]
  cases h : makePairTable o.sst with
  | ok pt => rfl
  | error e => rw [LgL.makePairTable_err _ _ h]; rfl

theorem exec_get_paired_loc (o : LObj) (loc : Locus) :
    (py_DSD_Complex_get_paired_loc loc).exec (ofL o) = exAns (o.getPairedLoc ((loc.1 : Int), (loc.2 : Int))) := by
  unfold py_DSD_Complex_get_paired_loc LObj.getPairedLoc LObj.fillPairTable exAns
  simp only [exec_ite, exec_bind, exec_get, exec_pure, exec_lift, exec_monadLift, exec_modify, exec_structure', PyFuncs.py_make_pair_table_eq, truthy_eq]
  have hneg : ¬ (((loc.1 : Nat) : Int) < 0 ∨ ((loc.2 : Nat) : Int) < 0) := by omega
  simp only [Nat.not_lt_zero, decide_false, Bool.or_false, Bool.false_eq_true, if_false, hneg, Int.toNat_natCast]
  obtain ⟨id, name, seq, sst, canon, rot, sl, pt, li, el, lol, exd, end_, mc⟩ := o
  rcases pt with _ | _ | ⟨r0, rs⟩ <;>
    simp only [truthy, ofL, Py.unwrap, Bool.not_true, Bool.not_false, if_true, if_false, Option.getD, pure, Except.pure, Bool.false_eq_true]
  · cases h : makePairTable sst with
    | ok pt => simp only []; idx2 pt, loc.1, loc.2
    | error e => rw [LgL.makePairTable_err _ _ h]; rfl
  · cases h : makePairTable sst with
    | ok pt => simp only []; idx2 pt, loc.1, loc.2
    | error e => rw [LgL.makePairTable_err _ _ h]; rfl
  · idx2 (r0 :: rs), loc.1, loc.2

end Dsd.PyLegacy
