/-
C20, task 3: facts about the abstract legacy canonical form, orbits that meet, and `dict` updates — the material
for relating a legacy registry state to a registry of the current API.
-/
import DsdVerif.Lemmas.LegacyConstruct

namespace Dsd.LgL
open Dsd Dsd.Lg Dsd.Rot

/-! ### `d[k] = v` -/

theorem dictPut_new {κ ν} [DecidableEq κ] (d : List (κ × ν)) (k : κ) (v : ν) (h : k ∉ d.map (·.1)) :
    dictPut d k v = d ++ [(k, v)] := by
  induction d with
  | nil => rfl
  | cons p d ih =>
    obtain ⟨k', v'⟩ := p
    simp only [List.map_cons, List.mem_cons, not_or] at h
    have hne : ¬ k' = k := fun e => h.1 e.symm
    simp only [dictPut, if_neg hne, List.cons_append]
    rw [ih h.2]

theorem lookup_of_mem_nodup {κ ν} [BEq κ] [LawfulBEq κ] (d : List (κ × ν)) (hn : (d.map (·.1)).Nodup) (k : κ) (v : ν)
    (h : (k, v) ∈ d) : d.lookup k = some v := by
  induction d with
  | nil => cases h
  | cons p d ih =>
    obtain ⟨k', v'⟩ := p
    simp only [List.map_cons, List.nodup_cons] at hn
    rcases List.mem_cons.mp h with h1 | h1
    · cases h1; simp
    · have hne : k ≠ k' := fun e => hn.1 (by rw [← e]; exact List.mem_map_of_mem (f := (·.1)) h1)
      have : (k == k') = false := by simpa using hne
      simp only [List.lookup_cons, this]
      exact ih hn.2 h1

theorem mem_of_lookup {κ ν} [BEq κ] [LawfulBEq κ] (d : List (κ × ν)) (k : κ) (v : ν) (h : d.lookup k = some v) :
    (k, v) ∈ d := by
  induction d with
  | nil => cases h
  | cons p d ih =>
    obtain ⟨k', v'⟩ := p
    by_cases e : k = k'
    · subst e; simp at h; subst h; exact List.mem_cons_self ..
    · have : (k == k') = false := by simpa using e
      simp only [List.lookup_cons, this] at h
      exact List.mem_cons_of_mem _ (ih h)

/-! ### the abstract legacy canonical form -/

/-- what `legacyCanon` returns on a well-formed description: the minimum of the orbit, first met at count
    `idxOf + 1`, and `_rotations` is the number of turns from it back to the description -/
theorem legacyCanon_facts (s : List String) (t : List Char) (hd : Descr' s t) (c : CKey) (rot : Nat)
    (h : legacyCanon s t = .ok (c, rot)) :
    ∃ vs, legacyVariants (nStr s) s t = .ok vs ∧ vs.length = nStr s ∧ c ∈ vs ∧ vs.idxOf c + 1 + rot = nStr s ∧
      c ∈ orb (nStr s) s t ∧ (∀ x ∈ orb (nStr s) s t, ckeyLt x c = false) ∧ rot < nStr s ∧
      rotateN rot c.1 c.2 = .ok (s, t) ∧ rotateN (vs.idxOf c + 1) s t = .ok c := by
  obtain ⟨vs, hvs, hlen, hget⟩ := legacyVariants_spec (nStr s) s t hd
  have hn : (makeStrandTableList "+" s).length = nStr s := rfl
  unfold legacyCanon at h
  simp only [hn, hvs] at h
  cases hm : minKey vs with
  | none => rw [hm] at h; cases h
  | some c0 =>
    rw [hm] at h
    simp only [Except.ok.injEq, Prod.mk.injEq] at h
    obtain ⟨rfl, hrot⟩ := h
    obtain ⟨m1, m2⟩ := Ord.minKey_spec vs c0 hm
    have hidx : vs.idxOf c0 < vs.length := List.idxOf_lt_length_iff.mpr m1
    have hrot' : rot = nStr s - (vs.idxOf c0 + 1) := by
      have hf : firstIdx1 vs c0 = vs.idxOf c0 + 1 := rfl
      by_cases hge : firstIdx1 vs c0 ≥ nStr s
      · rw [if_pos hge] at hrot; omega
      · rw [if_neg hge] at hrot; omega
    have hgetc : vs[vs.idxOf c0]? = some c0 := by
      rw [List.getElem?_eq_getElem hidx, List.getElem_idxOf hidx]
    obtain ⟨z', h1, h2⟩ := hget (vs.idxOf c0) (by omega)
    rw [hgetc] at h1; cases h1
    refine ⟨vs, hvs, hlen, m1, by omega, (variants_mem_orb s t hd vs hvs c0).mp m1, ?_, by omega, ?_, h2⟩
    · intro x hx
      exact m2 x ((variants_mem_orb s t hd vs hvs x).mpr hx)
    · have := legacy_rot_back s t hd c0 (vs.idxOf c0 + 1) (by omega) (by omega) h2
      rw [Nat.mod_eq_of_lt (by omega)] at this
      rw [hrot']; exact this

/-- `legacyCanon` is total on well-formed descriptions -/
theorem legacyCanon_total (s : List String) (t : List Char) (hd : Descr' s t) : ∃ c rot, legacyCanon s t = .ok (c, rot) := by
  obtain ⟨c, e, h, _⟩ := legacyCanon_spec s t hd
  exact ⟨c, _, h⟩

/-! ### orbits -/

/-- two well-formed descriptions whose orbits meet have the same orbit and the same number of strands -/
theorem orb_share (a b : CKey) (ha : Descr' a.1 a.2) (hb : Descr' b.1 b.2) (z : CKey)
    (hza : z ∈ orb (nStr a.1) a.1 a.2) (hzb : z ∈ orb (nStr b.1) b.1 b.2) :
    nStr a.1 = nStr b.1 ∧ ∀ w, w ∈ orb (nStr a.1) a.1 a.2 ↔ w ∈ orb (nStr b.1) b.1 b.2 := by
  obtain ⟨i, _, hi⟩ := (mem_orb _ _ _ _).mp hza
  obtain ⟨j, _, hj⟩ := (mem_orb _ _ _ _).mp hzb
  obtain ⟨_, hy1, _, hn1⟩ := descr_rotateN i a.1 a.2 ha
  rw [hi] at hy1; cases hy1
  obtain ⟨_, hy2, _, hn2⟩ := descr_rotateN j b.1 b.2 hb
  rw [hj] at hy2; cases hy2
  have hn : nStr a.1 = nStr b.1 := by rw [← hn1, hn2]
  refine ⟨hn, fun w => ?_⟩
  rw [← orb_rotateN i a.1 a.2 ha z hi w, ← orb_rotateN j b.1 b.2 hb z hj w, hn]

/-- a description is in the orbit of each of its rotations -/
theorem self_mem_orb_of (a : CKey) (ha : Descr' a.1 a.2) (z : CKey) (hz : z ∈ orb (nStr a.1) a.1 a.2) :
    Descr' z.1 z.2 ∧ nStr z.1 = nStr a.1 ∧ a ∈ orb (nStr z.1) z.1 z.2 := by
  obtain ⟨i, _, hi⟩ := (mem_orb _ _ _ _).mp hz
  obtain ⟨_, hy1, hdz, hn1⟩ := descr_rotateN i a.1 a.2 ha
  rw [hi] at hy1; cases hy1
  refine ⟨hdz, hn1, ?_⟩
  rw [hn1]
  exact (orb_rotateN i a.1 a.2 ha z hi a).mpr (self_mem_orb a.1 a.2 ha)

/-- the first position of an element -/
theorem idxOf_first (vs : List CKey) (c : CKey) (h : c ∈ vs) :
    vs[vs.idxOf c]? = some c ∧ ∀ i, i < vs.idxOf c → ∀ z, vs[i]? = some z → z ≠ c := by
  have hidx : vs.idxOf c < vs.length := List.idxOf_lt_length_iff.mpr h
  refine ⟨by rw [List.getElem?_eq_getElem hidx, List.getElem_idxOf hidx], ?_⟩
  intro i hi z hz e
  have hz' := (List.getElem?_eq_some_iff.mp hz).2
  have hi' : i < vs.findIdx (fun x => x == c) := hi
  have := List.not_of_lt_findIdx hi'
  rw [hz', e] at this
  simp at this

end Dsd.LgL
