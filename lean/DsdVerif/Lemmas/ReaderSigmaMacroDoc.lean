/-
End-to-end reading of declared systems (C14, "sigma" theorems), part 12: documents with resting macrostates over
declared complexes.
-/
import DsdVerif.Lemmas.ReaderSigmaMacro

namespace Dsd.Sig
open Dsd Dsd.PP Dsd.RState

/-- a resting macrostate: name and member complex names -/
structure MDecl where
  name : String
  members : List String

/-- identity and canonical form of the complex named `n` among the complexes `C` (identities from `b` on) -/
def cResolve (b : Nat) (C : List CSpec) (n : String) : Nat := ((cDict b C).lookup n).getD 0

def cCanonOf (C : List CSpec) (n : String) : CKey :=
  ((C.find? (fun c => c.name == n)).map (fun c => (cIds c.ns c.sst).canon)).getD ([], [])

def msOf (C : List CSpec) (M : MDecl) : List (String × CKey) := M.members.map (fun n => (n, cCanonOf C n))

def mObjs (b : Nat) (C : List CSpec) (MS : List MDecl) : List (Obj MKey) :=
  MS.zipIdx.map (fun p => newMacro (b + p.2) p.1.name (msOf C p.1))

def mNodes (cm b4 b : Nat) (C : List CSpec) (MS : List MDecl) : List Node :=
  MS.zipIdx.map (fun p => macroNode (b + p.2) cm (p.1.members.map (cResolve b4 C)))

def mDict (b : Nat) (MS : List MDecl) : List (String × Nat) := MS.zipIdx.map (fun p => (p.1.name, b + p.2))

def base6 (ds : List Decl) (ss : List SDecl) (C : List CSpec) : Nat := base4 ds ss + C.length

def P6 (cd cst cc cm cr : Nat) (ds : List Decl) (ss : List SDecl) (C : List CSpec) (MS : List MDecl) : DW6 :=
  { cd := cd, cs := cst, cc := cc, cm := cm, cr := cr, dobjs := dObjs ds, sobjs := sObjs ds ss,
    cobjs := cObjs (base4 ds ss) C, mobjs := mObjs (base6 ds ss C) C MS,
    nodes := dNodes cd ds ++ sNodes cst ds ss ++ cNodes cc (base4 ds ss) C ++
      mNodes cm (base4 ds ss) (base6 ds ss C) C MS,
    held := List.range (base6 ds ss C + MS.length), next := base6 ds ss C + MS.length,
    cstate := cStates (base4 ds ss) C }

def S6 (cd cst cc cm cr : Nat) (ds : List Decl) (ss : List SDecl) (C : List CSpec) (MS : List MDecl)
    (conc : List (Nat × (String × String × String))) : RState :=
  { w := (P6 cd cst cc cm cr ds ss C MS).world, dseq := dSeq ds, conc := conc }

def D6 (ds : List Decl) (ss : List SDecl) (C : List CSpec) (MS : List MDecl) : RDict :=
  { domains := dDict ds, strands := sDict ds ss, complexes := cDict (base4 ds ss) C,
    macrostates := mDict (base6 ds ss C) MS }

theorem S6_nil (cd cst cc cm cr : Nat) (hcm : cm < 4) (hcr : cr < 4) (ds : List Decl) (ss : List SDecl)
    (C : List CSpec) (conc : List (Nat × (String × String × String))) :
    S6 cd cst cc cm cr ds ss C [] conc = S4 cd cst cc ds ss C conc := by
  unfold S6 S4
  have := DW6_of_DW4 (P4 cd cst cc ds ss C) cm cr hcm hcr
  have e : P6 cd cst cc cm cr ds ss C [] = (P4 cd cst cc ds ss C).lift cm cr := by
    simp [P6, P4, DW4.lift, mObjs, mNodes, base6]
  rw [e, this]

theorem D6_nil (ds : List Decl) (ss : List SDecl) (C : List CSpec) : D6 ds ss C [] = D4 ds ss C := rfl

/-! ### facts about the complexes -/

/-- what the macrostate (and reaction) stages need to know about the complexes read before -/
structure CFacts (C : List CSpec) : Prop where
  names : (C.map (·.name)).Nodup
  descr : ∀ c ∈ C, Rot.Descr' c.ns c.sst
  nonrot : C.Pairwise (fun a b => (b.ns, b.sst) ∉ Rot.orb (Rot.nStr a.ns) a.ns a.sst)

theorem cspec_pos (C : List CSpec) (hn : (C.map (·.name)).Nodup) (i j : Nat) (c c' : CSpec) (hi : C[i]? = some c)
    (hj : C[j]? = some c') (he : c.name = c'.name) : i = j := by
  have h1 : (C.map (·.name))[i]? = some c.name := by simp [hi]
  have h2 : (C.map (·.name))[j]? = some c'.name := by simp [hj]
  have hlt : i < (C.map (·.name)).length := by simpa using getElem?_lt' _ _ _ hi
  exact (List.getElem?_inj hlt hn).mp (by rw [h1, h2, he])

theorem cResolve_get (b : Nat) (C : List CSpec) (hf : CFacts C) (i : Nat) (c : CSpec) (hi : C[i]? = some c) :
    cResolve b C c.name = b + i := by
  unfold cResolve
  rw [cDict_lookup b C hf.names i c hi]; rfl

theorem cCanonOf_get (C : List CSpec) (hf : CFacts C) (i : Nat) (c : CSpec) (hi : C[i]? = some c) :
    cCanonOf C c.name = (cIds c.ns c.sst).canon := by
  unfold cCanonOf
  have : C.find? (fun x => x.name == c.name) = some c := by
    apply RegL.find?_unique _ _ c (List.mem_of_getElem? hi) (by simp)
    intro a ha hp
    obtain ⟨j, hj⟩ := List.getElem?_of_mem ha
    have he : a.name = c.name := by simpa using hp
    have := cspec_pos C hf.names j i a c hj hi he
    subst this
    exact getElem?_det C j a c hj hi
  rw [this]; rfl

/-- different complexes have different canonical forms -/
theorem canon_inj (C : List CSpec) (hf : CFacts C) (i j : Nat) (c c' : CSpec) (hi : C[i]? = some c)
    (hj : C[j]? = some c') (he : (cIds c.ns c.sst).canon = (cIds c'.ns c'.sst).canon) : i = j := by
  have hdc := hf.descr c (List.mem_of_getElem? hi)
  have hdc' := hf.descr c' (List.mem_of_getElem? hj)
  obtain ⟨_, m1, _⟩ := cIds_spec ({} : Reg CKey) c.ns c.sst hdc (fun _ _ => rfl)
  obtain ⟨_, m2, _⟩ := cIds_spec ({} : Reg CKey) c'.ns c'.sst hdc' (fun _ _ => rfl)
  have hli := getElem?_lt' _ _ _ hi
  have hlj := getElem?_lt' _ _ _ hj
  have hp := List.pairwise_iff_getElem.mp hf.nonrot
  have hci : C[i] = c := by rw [List.getElem?_eq_getElem hli] at hi; exact Option.some.inj hi
  have hcj : C[j] = c' := by rw [List.getElem?_eq_getElem hlj] at hj; exact Option.some.inj hj
  rcases Nat.lt_trichotomy i j with h | h | h
  · exfalso
    have := hp i j hli hlj h
    rw [hci, hcj] at this
    exact this (orb_meet (c.ns, c.sst) (c'.ns, c'.sst) hdc hdc' _ m1 (by rw [he]; exact m2))
  · exact h
  · exfalso
    have := hp j i hlj hli h
    rw [hci, hcj] at this
    exact this (orb_meet (c'.ns, c'.sst) (c.ns, c.sst) hdc' hdc _ m2 (by rw [← he]; exact m1))

/-- equal canonical forms of two member lists over `C` mean equal member sets -/
theorem macroCanon_inj (C : List CSpec) (hf : CFacts C) (A B : MDecl) (hA : ∀ n ∈ A.members, n ∈ C.map (·.name))
    (hB : ∀ n ∈ B.members, n ∈ C.map (·.name)) (he : macroCanon (msOf C A) = macroCanon (msOf C B)) :
    ∀ n, n ∈ A.members → n ∈ B.members := by
  have p1 := (SortL.sortBy_perm (fun a b : String × CKey => ckeyLt a.2 b.2) (msOf C A)).map (·.2)
  have p2 := (SortL.sortBy_perm (fun a b : String × CKey => ckeyLt a.2 b.2) (msOf C B)).map (·.2)
  unfold macroCanon at he
  rw [he] at p1
  have hperm := p1.symm.trans p2
  intro n hn
  have h1 : cCanonOf C n ∈ (msOf C A).map (·.2) := by
    unfold msOf; rw [List.map_map]; exact List.mem_map.mpr ⟨n, hn, rfl⟩
  have h2 := hperm.mem_iff.mp h1
  unfold msOf at h2
  rw [List.map_map, List.mem_map] at h2
  obtain ⟨n', hn', he'⟩ := h2
  simp only [Function.comp] at he'
  obtain ⟨c, hc, rfl⟩ := List.mem_map.mp (hA n hn)
  obtain ⟨c', hc', rfl⟩ := List.mem_map.mp (hB n' hn')
  obtain ⟨i, hi⟩ := List.getElem?_of_mem hc
  obtain ⟨j, hj⟩ := List.getElem?_of_mem hc'
  rw [cCanonOf_get C hf i c hi, cCanonOf_get C hf j c' hj] at he'
  have := canon_inj C hf j i c' c hj hi he'
  subst this
  rw [getElem?_det C j c c' hi hj]
  exact hn'

/-! ### nodes and registries of the explicit state -/

theorem mObjs_mem (b : Nat) (C : List CSpec) (MS : List MDecl) (o : Obj MKey) (ho : o ∈ mObjs b C MS) :
    ∃ j M, MS[j]? = some M ∧ o = newMacro (b + j) M.name (msOf C M) := by
  obtain ⟨j, M, hj, rfl⟩ := (mem_zipIdx_map MS _ o).mp ho
  exact ⟨j, M, hj, rfl⟩

theorem nodes6_cplx (cd cst cc cm cr : Nat) (ds : List Decl) (ss : List SDecl) (C : List CSpec) (MS : List MDecl)
    (j : Nat) (c : CSpec) (hj : C[j]? = some c) :
    (P6 cd cst cc cm cr ds ss C MS).nodes.find? (fun m => m.id == base4 ds ss + j) =
      some (cplxNode (base4 ds ss + j) cc (c.seq.filterMap id)) := by
  show (dNodes cd ds ++ sNodes cst ds ss ++ cNodes cc (base4 ds ss) C ++ mNodes cm (base4 ds ss) (base6 ds ss C) C MS).find? _ = _
  have := nodes4_cplx cd cst cc ds ss C j c hj
  have h4 : (P4 cd cst cc ds ss C).nodes = dNodes cd ds ++ sNodes cst ds ss ++ cNodes cc (base4 ds ss) C := rfl
  rw [h4] at this
  rw [List.find?_append, this]; rfl

theorem nodes6_macro (cd cst cc cm cr : Nat) (ds : List Decl) (ss : List SDecl) (C : List CSpec) (MS : List MDecl)
    (j : Nat) (M : MDecl) (hj : MS[j]? = some M) :
    (P6 cd cst cc cm cr ds ss C MS).nodes.find? (fun m => m.id == base6 ds ss C + j) =
      some (macroNode (base6 ds ss C + j) cm (M.members.map (cResolve (base4 ds ss) C))) := by
  show (dNodes cd ds ++ sNodes cst ds ss ++ cNodes cc (base4 ds ss) C ++ mNodes cm (base4 ds ss) (base6 ds ss C) C MS).find? _ = _
  apply RegL.find?_unique
  · rw [List.mem_append]; right
    rw [mNodes, mem_zipIdx_map]; exact ⟨j, M, hj, rfl⟩
  · simp [macroNode]
  · intro a ha hp
    have hid : a.id = base6 ds ss C + j := by simpa using hp
    rw [List.mem_append, List.mem_append, List.mem_append] at ha
    rcases ha with ((ha | ha) | ha) | ha
    · have := dNodes_id_lt cd ds a ha; unfold base6 base4 at hid; omega
    · obtain ⟨j', p', hj', rfl⟩ := (mem_zipIdx_map ss _ a).mp ha
      have := getElem?_lt' _ _ _ hj'
      simp only [strandNode] at hid; unfold base6 base4 at hid; omega
    · obtain ⟨j', c', hj', rfl⟩ := cNodes_mem cc _ C a ha
      have := getElem?_lt' _ _ _ hj'
      simp only [cplxNode] at hid; unfold base6 at hid; omega
    · obtain ⟨j', M', hj', rfl⟩ := (mem_zipIdx_map MS _ a).mp ha
      simp only [macroNode] at hid
      have : j' = j := by omega
      subst this
      rw [getElem?_det MS j' M M' hj hj']

theorem cObjs_findName (b : Nat) (C : List CSpec) (hf : CFacts C) (i : Nat) (c : CSpec) (hi : C[i]? = some c) :
    Reg.findName ({ objs := cObjs b C, autoId := 1 } : Reg CKey) c.name =
      some (newCplx (b + i) c.name (cIds c.ns c.sst)) := by
  unfold Reg.findName
  apply RegL.find?_unique
  · rw [cObjs, mem_zipIdx_map]; exact ⟨i, c, hi, rfl⟩
  · simp [newCplx]
  · intro a ha hp
    obtain ⟨j, c', hj, rfl⟩ := cObjs_mem b C a ha
    have he : c'.name = c.name := by simpa [newCplx] using hp
    have := cspec_pos C hf.names j i c' c hj hi he
    subst this
    rw [getElem?_det C j c c' hi hj]

theorem mObjs_find (b : Nat) (C : List CSpec) (MS : List MDecl) (j : Nat) (M : MDecl) (hj : MS[j]? = some M) :
    (mObjs b C MS).find? (fun o => o.id == b + j) = some (newMacro (b + j) M.name (msOf C M)) := by
  apply RegL.find?_unique
  · rw [mObjs, mem_zipIdx_map]; exact ⟨j, M, hj, rfl⟩
  · simp [newMacro]
  · intro a ha hp
    have hid : a.id = b + j := by simpa using hp
    obtain ⟨j', M', hj', rfl⟩ := mObjs_mem b C MS a ha
    simp only [newMacro] at hid
    have : j' = j := by omega
    subst this
    rw [getElem?_det MS j' M M' hj hj']

/-- a member complex looked up by name in the explicit state: same world, its identity; and its registry view -/
theorem member_lookup (cd cst cc cm cr : Nat) (hcc : cc < 4) (ds : List Decl) (ss : List SDecl) (C : List CSpec)
    (hf : CFacts C) (MS : List MDecl) (n : String) (hn : n ∈ C.map (·.name)) :
    (P6 cd cst cc cm cr ds ss C MS).world.mkCplx cc none [] (some n) none =
      ((P6 cd cst cc cm cr ds ss C MS).world, .ret (cResolve (base4 ds ss) C n) false, none) ∧
    (P6 cd cst cc cm cr ds ss C MS).world.cplxObj (cResolve (base4 ds ss) C n) =
      some (cc, newCplx (cResolve (base4 ds ss) C n) n
        (cIds ((C.find? (fun c => c.name == n)).map (·.ns) |>.getD []) ((C.find? (fun c => c.name == n)).map (·.sst) |>.getD []))) ∧
    ((P6 cd cst cc cm cr ds ss C MS).world.cplxObj (cResolve (base4 ds ss) C n)).map (fun p => (p.2.name, p.2.canon)) =
      some (n, cCanonOf C n) := by
  obtain ⟨c, hc, rfl⟩ := List.mem_map.mp hn
  obtain ⟨i, hi⟩ := List.getElem?_of_mem hc
  have hlt := getElem?_lt' _ _ _ hi
  have hres := cResolve_get (base4 ds ss) C hf i c hi
  have hfind : C.find? (fun x => x.name == c.name) = some c := by
    apply RegL.find?_unique _ _ c hc (by simp)
    intro a ha hp
    obtain ⟨j, hj⟩ := List.getElem?_of_mem ha
    have he : a.name = c.name := by simpa using hp
    have := cspec_pos C hf.names j i a c hj hi he
    subst this
    exact getElem?_det C j a c hj hi
  have hobj := cplxObj_gen (P6 cd cst cc cm cr ds ss C MS).world cc hcc (cObjs (base4 ds ss) C) rfl (base4 ds ss + i) _ _
    (nodes6_cplx cd cst cc cm cr ds ss C MS i c hi) (cObjs_find _ C i c hi)
  rw [hres]
  refine ⟨?_, ?_, ?_⟩
  · exact mkCplx_lookup_gen _ cc hcc (cObjs (base4 ds ss) C) rfl c.name _ (cObjs_findName _ C hf i c hi)
      (by
        show base4 ds ss + i ∈ List.range (base6 ds ss C + MS.length)
        exact List.mem_range.mpr (by unfold base6; omega))
  · rw [hobj, hfind]; rfl
  · rw [hobj, cCanonOf_get C hf i c hi]; rfl

/-! ### one macrostate -/

theorem filterMap_map_some {α β γ} (g : α → β) (F : β → Option γ) (h : α → γ) (l : List α)
    (hF : ∀ a ∈ l, F (g a) = some (h a)) : (l.map g).filterMap F = l.map h := by
  induction l with
  | nil => rfl
  | cons a as ih =>
    simp only [List.map_cons, List.filterMap_cons, hF a (by simp)]
    rw [ih (fun x hx => hF x (by simp [hx]))]

theorem P6_snoc_world (cd cst cc cm cr : Nat) (ds : List Decl) (ss : List SDecl) (C : List CSpec) (MS : List MDecl)
    (M : MDecl) :
    ({ (P6 cd cst cc cm cr ds ss C MS).world with
        macros := setObjs baseMacros cm (mObjs (base6 ds ss C) C MS ++
          [newMacro (P6 cd cst cc cm cr ds ss C MS).world.nextId M.name (msOf C M)]),
        nodes := (P6 cd cst cc cm cr ds ss C MS).world.nodes ++
          [macroNode (P6 cd cst cc cm cr ds ss C MS).world.nextId cm (M.members.map (cResolve (base4 ds ss) C))],
        held := if (P6 cd cst cc cm cr ds ss C MS).world.held.contains (P6 cd cst cc cm cr ds ss C MS).world.nextId
          then (P6 cd cst cc cm cr ds ss C MS).world.held
          else (P6 cd cst cc cm cr ds ss C MS).world.held ++ [(P6 cd cst cc cm cr ds ss C MS).world.nextId],
        nextId := (P6 cd cst cc cm cr ds ss C MS).world.nextId + 1 } : World) =
      (P6 cd cst cc cm cr ds ss C (MS ++ [M])).world := by
  have hnext : (P6 cd cst cc cm cr ds ss C MS).world.nextId = base6 ds ss C + MS.length := rfl
  have hheld : (P6 cd cst cc cm cr ds ss C MS).world.held = List.range (base6 ds ss C + MS.length) := rfl
  have hc : (List.range (base6 ds ss C + MS.length)).contains (base6 ds ss C + MS.length) = false := by simp
  have hr : List.range (base6 ds ss C + (MS.length + 1)) =
      List.range (base6 ds ss C + MS.length) ++ [base6 ds ss C + MS.length] := by
    have : base6 ds ss C + (MS.length + 1) = (base6 ds ss C + MS.length).succ := by omega
    rw [this, List.range_succ]
  simp only [hnext, hheld, hc, Bool.false_eq_true, if_false]
  unfold DW6.world P6
  simp only [mObjs, mNodes, zipIdx_snoc, List.map_append, List.map_cons, List.map_nil, List.length_append,
    List.length_singleton, hr, List.append_assoc]
  rfl

/-- hypotheses on one macrostate relative to the earlier ones -/
structure MOK (C : List CSpec) (MS : List MDecl) (M : MDecl) : Prop where
  nonempty : M.members ≠ []
  members : ∀ n ∈ M.members, n ∈ C.map (·.name)
  named : M.name ∈ M.members
  fresh : ∀ M' ∈ MS, M'.name ≠ M.name
  newset : ∀ M' ∈ MS, (∀ n ∈ M'.members, n ∈ C.map (·.name)) → ¬ (∀ n, n ∈ M'.members ↔ n ∈ M.members)
  earlier : ∀ M' ∈ MS, ∀ n ∈ M'.members, n ∈ C.map (·.name)

theorem mkMacro_S6 (cd cst cc cm cr : Nat) (hcc : cc < 4) (hcm : cm < 4) (ds : List Decl) (ss : List SDecl)
    (C : List CSpec) (hf : CFacts C) (MS : List MDecl) (M : MDecl) (hM : MOK C MS M) :
    (P6 cd cst cc cm cr ds ss C MS).world.mkMacro cm (some (M.members.map (cResolve (base4 ds ss) C))) (some M.name) =
      ((P6 cd cst cc cm cr ds ss C (MS ++ [M])).world, .ret (base6 ds ss C + MS.length) true) := by
  have hms : (M.members.map (cResolve (base4 ds ss) C)).filterMap
      (fun id => ((P6 cd cst cc cm cr ds ss C MS).world.cplxObj id).map (fun p => (p.2.name, p.2.canon))) = msOf C M :=
    filterMap_map_some _ _ _ M.members
      (fun n hn => (member_lookup cd cst cc cm cr hcc ds ss C hf MS n (hM.members n hn)).2.2)
  have hne : msOf C M ≠ [] := by
    intro e
    have := congrArg List.length e
    simp only [msOf, List.length_map, List.length_nil] at this
    exact hM.nonempty (List.length_eq_zero_iff.mp this)
  have := mkMacro_create (P6 cd cst cc cm cr ds ss C MS).world cm hcm (mObjs (base6 ds ss C) C MS) rfl _ _ hms hne M.name
    (by
      unfold msOf; rw [List.map_map]
      exact List.mem_map.mpr ⟨M.name, hM.named, rfl⟩)
    (by
      intro o ho
      obtain ⟨j, M', hj, rfl⟩ := mObjs_mem _ C MS o ho
      exact hM.fresh M' (List.mem_of_getElem? hj))
    (by
      intro o ho hk
      obtain ⟨j, M', hj, rfl⟩ := mObjs_mem _ C MS o ho
      have hM' := List.mem_of_getElem? hj
      simp only [newMacro, List.mem_singleton] at hk
      apply hM.newset M' hM' (hM.earlier M' hM')
      intro n
      exact ⟨macroCanon_inj C hf M' M (hM.earlier M' hM') hM.members hk.symm n,
        macroCanon_inj C hf M M' hM.members (hM.earlier M' hM') hk n⟩)
  rw [this, P6_snoc_world]
  rfl

theorem objName_S6 (cd cst cc cm cr : Nat) (hcm : cm < 4) (ds : List Decl) (ss : List SDecl) (C : List CSpec)
    (MS : List MDecl) (j : Nat) (M : MDecl) (hj : MS[j]? = some M) :
    objName (P6 cd cst cc cm cr ds ss C MS).world.macros cm (base6 ds ss C + j) = some M.name := by
  obtain ⟨cr0, h0, _⟩ := baseMacros_get cm hcm
  have hmp : (P6 cd cst cc cm cr ds ss C MS).world.macros = setObjs baseMacros cm (mObjs (base6 ds ss C) C MS) := rfl
  unfold objName
  rw [hmp, setObjs_get baseMacros cm _ cr0 h0]
  simp only [Option.bind_some, Reg.findId, mObjs_find _ C MS j M hj]
  rfl

theorem range_mem_dicts6 (ds : List Decl) (ss : List SDecl) (C : List CSpec) (MS : List MDecl) (i : Nat)
    (hi : i < base6 ds ss C + MS.length) :
    i ∈ (dDict ds).map (·.2) ++ (sDict ds ss).map (·.2) ++ (cDict (base4 ds ss) C).map (·.2) ++
      (mDict (base6 ds ss C) MS).map (·.2) := by
  rw [List.mem_append]
  by_cases h : i < base6 ds ss C
  · exact Or.inl (range_mem_dicts4 ds ss C i h)
  · right
    rw [List.mem_map]
    have hj : i - base6 ds ss C < MS.length := by omega
    refine ⟨(MS[i - base6 ds ss C].name, i), ?_, rfl⟩
    rw [mDict, mem_zipIdx_map]
    refine ⟨i - base6 ds ss C, MS[i - base6 ds ss C], List.getElem?_eq_getElem hj, ?_⟩
    simp only [Prod.mk.injEq, true_and]; omega

theorem keepOnly_S6 (cd cst cc cm cr : Nat) (hcd : cd < 4) (hcs : cst < 4) (hcc : cc < 4) (hcm : cm < 4) (hcr : cr < 4)
    (ds : List Decl) (ss : List SDecl) (C : List CSpec) (MS : List MDecl)
    (conc : List (Nat × (String × String × String))) :
    (S6 cd cst cc cm cr ds ss C MS conc).keepOnly [] (D6 ds ss C MS) = S6 cd cst cc cm cr ds ss C MS conc := by
  unfold keepOnly
  have hheld : (S6 cd cst cc cm cr ds ss C MS conc).w.held = List.range (base6 ds ss C + MS.length) := rfl
  have hfil : List.filter (fun h => (([] : List Nat) ++ (D6 ds ss C MS).domains.map (·.2) ++
      (D6 ds ss C MS).strands.map (·.2) ++ (D6 ds ss C MS).complexes.map (·.2) ++
      (D6 ds ss C MS).macrostates.map (·.2) ++ (D6 ds ss C MS).det ++ (D6 ds ss C MS).con).contains h)
      (List.range (base6 ds ss C + MS.length)) = List.range (base6 ds ss C + MS.length) := by
    rw [List.filter_eq_self]
    intro i hi
    have := range_mem_dicts6 ds ss C MS i (List.mem_range.mp hi)
    simp only [D6, List.nil_append, List.append_nil, List.contains_eq_mem, decide_eq_true_eq]
    exact this
  simp only [hheld, hfil]
  have hw : ({ (S6 cd cst cc cm cr ds ss C MS conc).w with held := List.range (base6 ds ss C + MS.length) } : World) =
      (P6 cd cst cc cm cr ds ss C MS).world := rfl
  rw [hw, collect_DW6 (P6 cd cst cc cm cr ds ss C MS) hcd hcs hcc hcm hcr]
  · rfl
  · intro o ho; exact List.mem_range.mpr (by have := dObjs_id_lt ds o ho; unfold base6 base4; omega)
  · intro o ho
    obtain ⟨j, p, hj, rfl⟩ := sObjs_mem ds ss o ho
    have := getElem?_lt' _ _ _ hj
    exact List.mem_range.mpr (by simp only [newStrand]; unfold base6 base4; omega)
  · intro o ho
    obtain ⟨j, c, hj, rfl⟩ := cObjs_mem _ C o ho
    have := getElem?_lt' _ _ _ hj
    exact List.mem_range.mpr (by simp only [newCplx]; unfold base6; omega)
  · intro o ho
    obtain ⟨j, M, hj, rfl⟩ := mObjs_mem _ C MS o ho
    have := getElem?_lt' _ _ _ hj
    exact List.mem_range.mpr (by simp only [newMacro]; omega)
  · intro o ho; simp [P6] at ho
  · intro n hn
    have hn' : n ∈ dNodes cd ds ++ sNodes cst ds ss ++ cNodes cc (base4 ds ss) C ++
        mNodes cm (base4 ds ss) (base6 ds ss C) C MS := hn
    rw [List.mem_append, List.mem_append, List.mem_append] at hn'
    rcases hn' with ((h | h) | h) | h
    · exact List.mem_range.mpr (by have := dNodes_id_lt cd ds n h; unfold base6 base4; omega)
    · obtain ⟨j, p, hj, rfl⟩ := (mem_zipIdx_map ss _ n).mp h
      have := getElem?_lt' _ _ _ hj
      exact List.mem_range.mpr (by simp only [strandNode]; unfold base6 base4; omega)
    · obtain ⟨j, c, hj, rfl⟩ := cNodes_mem cc _ C n h
      have := getElem?_lt' _ _ _ hj
      exact List.mem_range.mpr (by simp only [cplxNode]; unfold base6; omega)
    · obtain ⟨j, M, hj, rfl⟩ := (mem_zipIdx_map MS _ n).mp h
      have := getElem?_lt' _ _ _ hj
      exact List.mem_range.mpr (by simp only [macroNode]; omega)
  · intro q hq
    obtain ⟨j, c, hj, rfl⟩ := (mem_zipIdx_map C _ q).mp hq
    have := getElem?_lt' _ _ _ hj
    exact List.mem_range.mpr (by simp only; unfold base6; omega)

/-- **reading one resting-macrostate line** -/
theorem mstep (sl : Slots) (hcd : sl.dom < 4) (hcs : sl.strand < 4) (hcc : sl.cplx < 4) (hcm : sl.macr < 4)
    (hcr : sl.rxn < 4) (ds : List Decl) (ss : List SDecl) (C : List CSpec) (hf : CFacts C) (MS : List MDecl) (M : MDecl)
    (hM : MOK C MS M) (conc : List (Nat × (String × String × String))) (lines : List Tree) :
    (S6 sl.dom sl.strand sl.cplx sl.macr sl.rxn ds ss C MS conc).readDoc sl [] []
        (.grp (macroLine M.name M.members) :: lines) (D6 ds ss C MS) =
      (S6 sl.dom sl.strand sl.cplx sl.macr sl.rxn ds ss C (MS ++ [M]) conc).readDoc sl [] [] lines
        (D6 ds ss C (MS ++ [M])) := by
  have hla := lookupAll_same (S6 sl.dom sl.strand sl.cplx sl.macr sl.rxn ds ss C MS conc)
    (fun w n => let r := w.mkCplx sl.cplx none [] (some n) none; (r.1, r.2.1)) (cResolve (base4 ds ss) C) M.members
    (fun n hn => ⟨false, by
      have := (member_lookup sl.dom sl.strand sl.cplx sl.macr sl.rxn hcc ds ss C hf MS n (hM.members n hn)).1
      have hw : (S6 sl.dom sl.strand sl.cplx sl.macr sl.rxn ds ss C MS conc).w =
          (P6 sl.dom sl.strand sl.cplx sl.macr sl.rxn ds ss C MS).world := rfl
      simp only [hw, this]⟩)
  have hmk := mkMacro_S6 sl.dom sl.strand sl.cplx sl.macr sl.rxn hcc hcm ds ss C hf MS M hM
  have hrl := readLine_macro (S6 sl.dom sl.strand sl.cplx sl.macr sl.rxn ds ss C MS conc) sl M.name M.members _ hla
    _ _ _ hmk
  have hon := objName_S6 sl.dom sl.strand sl.cplx sl.macr sl.rxn hcm ds ss C (MS ++ [M]) MS.length M (by simp)
  rw [readDoc_macro _ sl [] _ lines (D6 ds ss C MS) _ _ M.name hrl hon]
  have hd : ({ D6 ds ss C MS with macrostates := dictPut (D6 ds ss C MS).macrostates M.name (base6 ds ss C + MS.length) } :
      RDict) = D6 ds ss C (MS ++ [M]) := by
    unfold D6
    simp only
    rw [dictPut_fresh]
    · simp [mDict, zipIdx_snoc]
    · intro q hq
      obtain ⟨j, x, hj, rfl⟩ := (mem_zipIdx_map MS _ q).mp hq
      exact hM.fresh x (List.mem_of_getElem? hj)
  rw [hd]
  have hs : ({ S6 sl.dom sl.strand sl.cplx sl.macr sl.rxn ds ss C MS conc with
      w := (P6 sl.dom sl.strand sl.cplx sl.macr sl.rxn ds ss C (MS ++ [M])).world } : RState) =
      S6 sl.dom sl.strand sl.cplx sl.macr sl.rxn ds ss C (MS ++ [M]) conc := rfl
  rw [hs, keepOnly_S6 sl.dom sl.strand sl.cplx sl.macr sl.rxn hcd hcs hcc hcm hcr]

/-! ### whole documents -/

def mdoc (MS : List MDecl) : List Tree := MS.map (fun M => Tree.grp (macroLine M.name M.members))

/-- hypotheses on the macrostates of a system over the complexes `C` -/
structure MSys (C : List CSpec) (MS : List MDecl) : Prop where
  each : ∀ M ∈ MS, M.members ≠ [] ∧ (∀ n ∈ M.members, n ∈ C.map (·.name)) ∧ M.name ∈ M.members
  names : (MS.map (·.name)).Nodup
  sets : MS.Pairwise (fun A B => ¬ ∀ n, n ∈ A.members ↔ n ∈ B.members)

theorem readDoc_macros_tail (sl : Slots) (hcd : sl.dom < 4) (hcs : sl.strand < 4) (hcc : sl.cplx < 4) (hcm : sl.macr < 4)
    (hcr : sl.rxn < 4) (ds : List Decl) (ss : List SDecl) (C : List CSpec) (hf : CFacts C)
    (conc : List (Nat × (String × String × String))) (tail : List Tree) :
    ∀ (rest pre : List MDecl), MSys C (pre ++ rest) →
      (S6 sl.dom sl.strand sl.cplx sl.macr sl.rxn ds ss C pre conc).readDoc sl [] [] (mdoc rest ++ tail)
          (D6 ds ss C pre) =
        (S6 sl.dom sl.strand sl.cplx sl.macr sl.rxn ds ss C (pre ++ rest) conc).readDoc sl [] [] tail
          (D6 ds ss C (pre ++ rest)) := by
  intro rest
  induction rest with
  | nil => intro pre _; simp [mdoc]
  | cons M rest ih =>
    intro pre hs
    have hassoc : pre ++ M :: rest = (pre ++ [M]) ++ rest := by simp
    have hMmem : M ∈ pre ++ M :: rest := by simp
    obtain ⟨e1, e2, e3⟩ := hs.each M hMmem
    have hn := hs.names
    rw [List.map_append, List.map_cons] at hn
    have hM : MOK C pre M := by
      refine ⟨e1, e2, e3, ?_, ?_, ?_⟩
      · intro M' hM' e
        exact (List.nodup_append.mp hn).2.2 M'.name (List.mem_map_of_mem hM') M.name (by simp) e
      · intro M' hM' _
        exact (List.pairwise_append.mp hs.sets).2.2 M' hM' M (by simp)
      · intro M' hM'
        exact (hs.each M' (by simp [hM'])).2.1
    have hstep := mstep sl hcd hcs hcc hcm hcr ds ss C hf pre M hM conc (mdoc rest ++ tail)
    have : mdoc (M :: rest) ++ tail = .grp (macroLine M.name M.members) :: (mdoc rest ++ tail) := rfl
    rw [this, hstep, hassoc]
    exact ih (pre ++ [M]) (by rw [← hassoc]; exact hs)

theorem readDoc_kernels_tail (sl : Slots) (hcd : sl.dom < 4) (hcs : sl.strand < 4) (hcc : sl.cplx < 4) (ds : List Decl)
    (hsys : Sys ds) (ss : List SDecl) (C : List CSpec) (tail : List Tree) :
    ∀ (rest done : List KDecl), KSys ds C (done ++ rest) →
      (S4 sl.dom sl.strand sl.cplx ds ss (C ++ done.map (KDecl.spec ds)) (kConc (base4 ds ss + C.length) done)).readDoc
          sl [] [] (kdoc rest ++ tail) (D4 ds ss (C ++ done.map (KDecl.spec ds))) =
        (S4 sl.dom sl.strand sl.cplx ds ss (C ++ (done ++ rest).map (KDecl.spec ds))
            (kConc (base4 ds ss + C.length) (done ++ rest))).readDoc sl [] [] tail
          (D4 ds ss (C ++ (done ++ rest).map (KDecl.spec ds))) := by
  intro rest
  induction rest with
  | nil => intro done _; simp [kdoc]
  | cons k rest ih =>
    intro done hs
    have hassoc : done ++ k :: rest = (done ++ [k]) ++ rest := by simp
    have hsplit : C ++ (done ++ k :: rest).map (KDecl.spec ds) =
        (C ++ done.map (KDecl.spec ds)) ++ (k.spec ds :: rest.map (KDecl.spec ds)) := by simp
    have hkmem : k ∈ done ++ k :: rest := by simp
    have hname : ∀ c' ∈ C ++ done.map (KDecl.spec ds), c'.name ≠ k.name := by
      intro c' hc' e
      have hn := hs.names
      rw [hsplit, List.map_append, List.map_cons] at hn
      exact (List.nodup_append.mp hn).2.2 c'.name (List.mem_map_of_mem hc') k.name (by simp [KDecl.spec]) e
    have hdk : Rot.Descr' k.ns k.sst := hs.descr (k.spec ds) (by rw [hsplit]; simp)
    have hdisj : ∀ c' ∈ C ++ done.map (KDecl.spec ds), ∀ x ∈ Rot.orb (Rot.nStr k.ns) k.ns k.sst,
        x ∉ Rot.orb (Rot.nStr c'.ns) c'.ns c'.sst := by
      intro c' hc' x hx hx'
      have hdc : Rot.Descr' c'.ns c'.sst := hs.descr c' (by rw [hsplit]; exact List.mem_append_left _ hc')
      have hp := hs.nonrot
      rw [hsplit] at hp
      have hR := (List.pairwise_append.mp hp).2.2 c' hc' (k.spec ds) (by simp)
      exact hR (orb_meet (c'.ns, c'.sst) (k.ns, k.sst) hdc hdk x hx' hx)
    have hstep := kstep sl hcd hcs hcc ds hsys ss C done k (kdoc rest ++ tail) (hs.res k hkmem) (hs.doms k hkmem) hdk
      hname hdisj
    have : kdoc (k :: rest) ++ tail = .grp k.line :: (kdoc rest ++ tail) := rfl
    rw [this, hstep, hassoc]
    exact ih (done ++ [k]) (by rw [← hassoc]; exact hs)

/-- reading everything up to the complexes, with more lines to follow -/
theorem readDoc_fresh5_tail (sl : Slots) (hcd : sl.dom < 4) (hcs : sl.strand < 4) (hcc : sl.cplx < 4) (ds : List Decl)
    (hsys : Sys ds) (ss : List SDecl) (hss : SSys ds ss) (cds : List CDecl) (hcs' : CSys ds ss cds)
    (kds : List KDecl) (hks : KSys ds (cds.map (CDecl.spec ds ss)) kds) (tail : List Tree) :
    ({} : RState).readDoc sl [] [] (doc ds ++ (sdoc ss ++ (cdoc cds ++ (kdoc kds ++ tail)))) {} =
      (S4 sl.dom sl.strand sl.cplx ds ss (cds.map (CDecl.spec ds ss) ++ kds.map (KDecl.spec ds))
          (kConc (base4 ds ss + cds.length) kds)).readDoc sl [] [] tail
        (D4 ds ss (cds.map (CDecl.spec ds ss) ++ kds.map (KDecl.spec ds))) := by
  have h1 := readDoc_decls_tail sl hcd sl.strand hcs (sdoc ss ++ (cdoc cds ++ (kdoc kds ++ tail))) ds []
    (by simpa using hsys)
  have hS : S sl.dom sl.strand [] = {} := by
    unfold S
    have : P sl.dom sl.strand [] = { cd := sl.dom, cs := sl.strand } := rfl
    rw [this, world_empty sl.dom sl.strand hcd hcs]
    rfl
  have hD : D [] = {} := rfl
  rw [hS, hD] at h1
  simp only [List.nil_append] at h1
  rw [h1, ← S3_nil, ← D3_nil]
  have h2 := readDoc_strands_tail sl hcd hcs ds hsys (cdoc cds ++ (kdoc kds ++ tail)) ss [] (by simpa using hss)
  simp only [List.nil_append] at h2
  rw [h2, ← S4_nil sl.dom sl.strand sl.cplx hcc, ← D4_nil]
  have h3 := readDoc_cplxs_tail sl hcd hcs hcc ds hsys ss hss [] (kdoc kds ++ tail) cds [] (by simpa using hcs')
  simp only [List.nil_append, List.map_nil] at h3
  rw [h3]
  have h4 := readDoc_kernels_tail sl hcd hcs hcc ds hsys ss (cds.map (CDecl.spec ds ss)) tail kds []
    (by simpa using hks)
  simp only [List.map_nil, List.append_nil, List.nil_append, List.length_map] at h4
  have hk0 : kConc (base4 ds ss + cds.length) [] = [] := rfl
  rw [hk0] at h4
  exact h4

end Dsd.Sig
