/-
Seesaw documents of any number of statements (C19): a document parses as the concatenation of its statements.
`StmtText s t`: `s` is the text of one statement (without its line end) that the statement alternatives parse to
the tree `t` in front of any continuation, at a cost linear in its length.
-/
import DsdVerif.Lemmas.PPSswMore

namespace Dsd.PP.Ssw
open Dsd.PP Dsd.Gen

/-- a character that can start a statement: not skipped, not a comment, not a line end -/
def StartCh (c : Char) : Prop := isWs c = false ∧ c ≠ '#' ∧ c ≠ '\n'

/-- `s` is the text of one statement: it starts with a proper character, contains no tab, and the statement
    alternatives parse it to the tokens of `t`, whatever follows, within `3 * s.length + 30` steps -/
structure StmtText (s : List Char) (t : Tree) : Prop where
  head : ∃ c, s.head? = some c ∧ StartCh c
  notab : '\t' ∉ s
  parses : ∃ ts b, t = .grp ts ∧ b ≤ 3 * s.length + 30 ∧
    ∀ rest, Ev ssw_env sk (.alt bodyAlts) (P (s ++ rest)) (some (P rest, ts)) b

theorem StmtText.cons {s : List Char} {t : Tree} (h : StmtText s t) : ∃ c r, s = c :: r ∧ StartCh c := by
  obtain ⟨c, hc, hs⟩ := h.head
  cases s with
  | nil => simp at hc
  | cons d r => simp at hc; subst hc; exact ⟨d, r, rfl, hs⟩

/-- a convenient introduction rule: `f rest` is the normalised form of `s ++ rest` -/
theorem StmtText.of (s : List Char) (ts : List Tree) (b : Nat) (c : Char) (f : List Char → List Char)
    (hhead : s.head? = some c) (hc : StartCh c) (hnt : '\t' ∉ s) (hb : b ≤ 3 * s.length + 30)
    (hf : ∀ rest, s ++ rest = f rest)
    (hev : ∀ rest, Ev ssw_env sk (.alt bodyAlts) (P (f rest)) (some (P rest, ts)) b) : StmtText s (.grp ts) :=
  ⟨⟨c, hhead, hc⟩, hnt, ts, b, rfl, hb, fun rest => by rw [hf rest]; exact hev rest⟩

variable {env : Env}

/-! ### line ends at the end of the input -/

theorem evm_lineEnds_eof (k : Nat) :
    EvMany env sk (.suppress .lineEnd) (P (List.replicate k '\n')) (some (Pend, [])) (k + 4) := by
  induction k with
  | zero =>
    have h2 : Ev env sk (.suppress .lineEnd) (P []) (some (Pend, [])) 2 := ev_suppress ev_lineEnd_eof
    have h3 : Ev env sk (.suppress .lineEnd) Pend none 1 := ev_suppress_fail ev_lineEnd_past
    exact (evm_step h2 (by simp) (evm_stop h3)).cast rfl (by decide)
  | succ k ih =>
    have h1 : Ev env sk (.suppress .lineEnd) (P ('\n' :: List.replicate k '\n'))
        (some (P (List.replicate k '\n'), [])) 2 := ev_suppress (ev_lineEnd_nl _)
    have hne : P (List.replicate k '\n') ≠ P ('\n' :: List.replicate k '\n') := by
      intro h
      have := congrArg (fun p : Pos => p.rest.length) h
      simp at this
    rw [List.replicate_succ]
    exact (evm_step h1 hne ih).cast rfl (by omega)

/-- the continuation after a statement's line ends: the end of the input, or the next statement -/
inductive Cont : List Char → Pos → Prop
  | eof : Cont [] Pend
  | next (c : Char) (r : List Char) : StartCh c → Cont (c :: r) (P (c :: r))

theorem ev_lineEnds_cont (k : Nat) (R : List Char) (p : Pos) (h : Cont R p) :
    Ev env sk (.many1 (.suppress .lineEnd)) (P ('\n' :: (List.replicate k '\n' ++ R))) (some (p, [])) (k + 6) := by
  cases h with
  | eof =>
    have h1 : Ev env sk (.suppress .lineEnd) (P ('\n' :: List.replicate k '\n'))
        (some (P (List.replicate k '\n'), [])) 2 := ev_suppress (ev_lineEnd_nl _)
    rw [List.append_nil]
    exact (ev_many1 h1 (evm_lineEnds_eof k)).cast rfl (by omega)
  | next c r hc => exact (ev_lineEnds_nls k c r hc.1 hc.2.1 hc.2.2).cast rfl (by omega)

theorem ev_lineEnds_eof0 : Ev env sk (.many1 (.suppress .lineEnd)) (P []) (some (Pend, [])) 4 := by
  have h2 : Ev env sk (.suppress .lineEnd) (P []) (some (Pend, [])) 2 := ev_suppress ev_lineEnd_eof
  have h3 : Ev env sk (.suppress .lineEnd) Pend none 1 := ev_suppress_fail ev_lineEnd_past
  exact (ev_many1 h2 (evm_stop h3)).cast rfl (by decide)

/-! ### one statement inside a document -/

/-- a statement with its line end, `k` further blank lines, and the continuation `R` -/
theorem stmt_term (s : List Char) (t : Tree) (h : StmtText s t) (k : Nat) (R : List Char) (p : Pos) (hc : Cont R p) :
    Ev ssw_env sk ssw_stmt (P (s ++ '\n' :: (List.replicate k '\n' ++ R))) (some (p, [t])) (3 * s.length + k + 40) := by
  obtain ⟨ts, b, rfl, hb, hev⟩ := h.parses
  exact (stmt_ok _ _ _ ts b (k + 6) (hev _) (ev_lineEnds_cont k R p hc)).cast rfl (by omega)

/-- the last statement of a document without final line end -/
theorem stmt_open (s : List Char) (t : Tree) (h : StmtText s t) :
    Ev ssw_env sk ssw_stmt (P s) (some (Pend, [t])) (3 * s.length + 38) := by
  obtain ⟨ts, b, rfl, hb, hev⟩ := h.parses
  have := hev []
  rw [List.append_nil] at this
  exact (stmt_ok _ _ _ ts b 4 this ev_lineEnds_eof0).cast rfl (by omega)

/-! ### any number of statements -/

/-- a statement text, its tree, and the number of blank lines after it -/
abbrev Item := List Char × Tree × Nat

def itemText (x : Item) : List Char := x.1 ++ '\n' :: List.replicate x.2.2 '\n'
def itemsText (l : List Item) : List Char := l.flatMap itemText

theorem itemsText_cons (x : Item) (xs : List Item) (T : List Char) :
    itemsText (x :: xs) ++ T = x.1 ++ '\n' :: (List.replicate x.2.2 '\n' ++ (itemsText xs ++ T)) := by
  simp [itemsText, itemText, List.append_assoc]

/-- the position in front of the items `l` followed by `T` (position `p`) -/
def posOf (l : List Item) (T : List Char) (p : Pos) : Pos :=
  match l with
  | [] => p
  | _ :: _ => P (itemsText l ++ T)

theorem cont_items (l : List Item) (hl : ∀ x ∈ l, StmtText x.1 x.2.1) (T : List Char) (p : Pos) (hc : Cont T p) :
    Cont (itemsText l ++ T) (posOf l T p) := by
  cases l with
  | nil => simpa [itemsText, posOf] using hc
  | cons x xs =>
    obtain ⟨c, r, hx, hs⟩ := (hl x List.mem_cons_self).cons
    simp only [posOf]
    rw [itemsText_cons, hx]
    exact Cont.next c _ hs

theorem posOf_ne (x : Item) (xs : List Item) (hl : ∀ y ∈ xs, StmtText y.1 y.2.1) (T : List Char) (p : Pos)
    (hc : Cont T p) : posOf xs T p ≠ P (itemsText (x :: xs) ++ T) := by
  have hcont := cont_items xs hl T p hc
  generalize posOf xs T p = q at hcont
  generalize hR : itemsText xs ++ T = R at hcont
  intro h
  cases hcont with
  | eof => simp at h
  | next c r hc' =>
    have := congrArg (fun p : Pos => p.rest.length) h
    simp only [itemsText_cons, hR, List.length_append, List.length_cons, List.length_replicate] at this
    omega

/-- **the statements of a document are parsed one after the other** -/
theorem chain (l : List Item) (hl : ∀ x ∈ l, StmtText x.1 x.2.1) (T : List Char) (p : Pos) (hc : Cont T p)
    (tt : List Tree) (bt : Nat) (htail : EvMany ssw_env sk ssw_stmt p (some (Pend, tt)) bt) :
    EvMany ssw_env sk ssw_stmt (posOf l T p) (some (Pend, l.map (·.2.1) ++ tt)) (3 * (itemsText l).length + bt + 41) := by
  induction l with
  | nil => exact htail.cast rfl (by omega)
  | cons x xs ih =>
    have hxs : ∀ y ∈ xs, StmtText y.1 y.2.1 := fun y hy => hl y (List.mem_cons_of_mem _ hy)
    have h1 := stmt_term x.1 x.2.1 (hl x List.mem_cons_self) x.2.2 (itemsText xs ++ T) (posOf xs T p)
      (cont_items xs hxs T p hc)
    rw [← itemsText_cons] at h1
    have hne := posOf_ne x xs hxs T p hc
    simp only [posOf]
    refine (evm_step h1 hne (ih hxs)).cast (by simp) ?_
    simp only [itemsText, itemText, List.flatMap_cons, List.length_append, List.length_cons, List.length_replicate]
    omega

/-! ### documents -/

theorem doc_frame (k0 : Nat) (c : Char) (r : List Char) (hc : StartCh c) (tt : List Tree) (b : Nat)
    (hm : Ev ssw_env sk (.many1 ssw_stmt) (P (c :: r)) (some (Pend, tt)) b) :
    Ev ssw_env sk ssw_document (P (List.replicate k0 '\n' ++ c :: r)) (some (Pend, tt)) (b + k0 + 12) := by
  unfold ssw_document
  apply Ev.cast
  · apply ev_seq
    apply evs_cons ev_stringStart
    apply evs_cons (ev_many (evm_lineEnds_nls k0 c r hc.1 hc.2.1 hc.2.2))
    apply evs_cons hm
    apply evs_cons ev_stringEnd_end
    exact evs_nil
  · simp
  · omega

theorem notab_items (l : List Item) (hl : ∀ x ∈ l, StmtText x.1 x.2.1) : '\t' ∉ itemsText l := by
  induction l with
  | nil => simp [itemsText]
  | cons x xs ih =>
    have h1 := (hl x List.mem_cons_self).notab
    have h2 := ih (fun y hy => hl y (List.mem_cons_of_mem _ hy))
    simp only [itemsText, List.flatMap_cons] at h2 ⊢
    simp [itemText, h1, h2]

/-- the statements `x :: xs`, each with its line end and blank lines, after `k0` leading blank lines -/
theorem document_ev (k0 : Nat) (x : Item) (xs : List Item) (hl : ∀ y ∈ x :: xs, StmtText y.1 y.2.1) :
    Ev ssw_env sk ssw_document (P (List.replicate k0 '\n' ++ itemsText (x :: xs)))
      (some (Pend, (x :: xs).map (·.2.1))) (3 * (itemsText (x :: xs)).length + k0 + 80) := by
  have hxs : ∀ y ∈ xs, StmtText y.1 y.2.1 := fun y hy => hl y (List.mem_cons_of_mem _ hy)
  have hx := hl x List.mem_cons_self
  obtain ⟨c, r, hcr, hc⟩ := hx.cons
  have h1 := stmt_term x.1 x.2.1 hx x.2.2 (itemsText xs ++ []) (posOf xs [] Pend) (cont_items xs hxs [] Pend Cont.eof)
  rw [← itemsText_cons, List.append_nil] at h1
  have h2 := chain xs hxs [] Pend Cont.eof [] 19 (evm_stop stmt_stop)
  have hm := ev_many1 h1 h2
  have htext : itemsText (x :: xs) = c :: (r ++ '\n' :: (List.replicate x.2.2 '\n' ++ itemsText xs)) := by
    simp [itemsText, itemText, hcr]
  have hlen : (itemsText (x :: xs)).length = x.1.length + 1 + x.2.2 + (itemsText xs).length := by
    simp [itemsText, itemText]; omega
  rw [htext] at hm ⊢
  refine (doc_frame k0 c _ hc _ _ hm).cast (by simp) ?_
  rw [← htext, hlen]
  omega

/-- … and a last statement without line end -/
theorem document_open_ev (k0 : Nat) (l : List Item) (hl : ∀ y ∈ l, StmtText y.1 y.2.1) (s : List Char) (t : Tree)
    (hs : StmtText s t) :
    Ev ssw_env sk ssw_document (P (List.replicate k0 '\n' ++ (itemsText l ++ s)))
      (some (Pend, l.map (·.2.1) ++ [t])) (3 * (itemsText l ++ s).length + k0 + 100) := by
  obtain ⟨cs, rs, hcs, hsc⟩ := hs.cons
  have hlast : EvMany ssw_env sk ssw_stmt (P s) (some (Pend, [t])) (3 * s.length + 40) :=
    (evm_step (stmt_open s t hs) (by simp) (evm_stop stmt_stop)).cast (by simp) (by omega)
  cases l with
  | nil =>
    have hm := ev_many1 (stmt_open s t hs) (evm_stop (stmt_stop (env := ssw_env)))
    simp only [itemsText, List.flatMap_nil, List.nil_append, List.map_nil]
    rw [hcs] at hm ⊢
    refine (doc_frame k0 cs rs hsc _ _ hm).cast (by simp) ?_
    simp only [List.length_cons]
    omega
  | cons x xs =>
    have hxs : ∀ y ∈ xs, StmtText y.1 y.2.1 := fun y hy => hl y (List.mem_cons_of_mem _ hy)
    have hx := hl x List.mem_cons_self
    obtain ⟨c, r, hcr, hc⟩ := hx.cons
    have hcont : Cont s (P s) := by rw [hcs]; exact Cont.next cs rs hsc
    have h1 := stmt_term x.1 x.2.1 hx x.2.2 (itemsText xs ++ s) (posOf xs s (P s)) (cont_items xs hxs s (P s) hcont)
    rw [← itemsText_cons] at h1
    have h2 := chain xs hxs s (P s) hcont [t] _ hlast
    have hm := ev_many1 h1 h2
    have htext : itemsText (x :: xs) ++ s = c :: (r ++ '\n' :: (List.replicate x.2.2 '\n' ++ (itemsText xs ++ s))) := by
      simp [itemsText, itemText, hcr]
    have hlen : (itemsText (x :: xs) ++ s).length = x.1.length + 1 + x.2.2 + (itemsText xs).length + s.length := by
      simp [itemsText, itemText]; omega
    rw [htext] at hm ⊢
    refine (doc_frame k0 c _ hc _ _ hm).cast (by simp) ?_
    rw [← htext, hlen]
    omega

/-- **documents parse as the concatenation of their statements**: `k0` leading blank lines, then any number `≥ 1`
    of statements of any kinds, each followed by its line end and any number of blank lines -/
theorem document_parse (k0 : Nat) (stmts : List Item) (hne : stmts ≠ []) (h : ∀ x ∈ stmts, StmtText x.1 x.2.1) :
    parseDoc ssw_env ssw_grammar (String.ofList (List.replicate k0 '\n' ++ itemsText stmts)) =
      some (stmts.map (·.2.1)) := by
  cases stmts with
  | nil => exact absurd rfl hne
  | cons x xs =>
    have hev := document_ev k0 x xs h
    have hnt : '\t' ∉ List.replicate k0 '\n' ++ itemsText (x :: xs) := by
      have := notab_items (x :: xs) h
      simp [this]
    rw [parseDoc_of_ev ssw_grammar _ _ _ hnt hev (by simp only [List.length_append, List.length_replicate]; omega)]
    rfl

/-- the same when the final line end is missing: the end of the input closes the last statement -/
theorem document_parse_open (k0 : Nat) (stmts : List Item) (h : ∀ x ∈ stmts, StmtText x.1 x.2.1)
    (s : List Char) (t : Tree) (hs : StmtText s t) :
    parseDoc ssw_env ssw_grammar (String.ofList (List.replicate k0 '\n' ++ (itemsText stmts ++ s))) =
      some (stmts.map (·.2.1) ++ [t]) := by
  have hev := document_open_ev k0 stmts h s t hs
  have hnt : '\t' ∉ List.replicate k0 '\n' ++ (itemsText stmts ++ s) := by
    have h1 := notab_items stmts h
    have h2 := hs.notab
    simp [h1, h2]
  rw [parseDoc_of_ev ssw_grammar _ _ _ hnt hev (by
    obtain ⟨c, r, hcr, _⟩ := hs.cons
    simp only [List.length_append, List.length_replicate, hcr, List.length_cons]; omega)]
  rfl

end Dsd.PP.Ssw
