import DsdVerif.Lemmas.Matcher

namespace Dsd.Bracket


theorem sym_cases (w : List Sym) (i : Nat) (h : i < w.length) :
    w[i]? = some .op ∨ w[i]? = some .cl ∨ w[i]? = some .dot := by
  have : w[i]? = some w[i] := List.getElem?_eq_getElem h
  cases hw : w[i] <;> simp_all

/-- partners of closing brackets agree -/
theorem cl_agree (w : List Sym) (M T : Nat → Option Nat) (hM : Matching w M) (hT : Matching w T) :
    ∀ n i, i < n → w[i]? = some .cl → M i = T i := by
  intro n
  induction n with
  | zero => intro i h; omega
  | succ n ih =>
    intro i hi hc
    by_cases hlt : i < n
    · exact ih i hlt hc
    · have hin : i = n := by omega
      subst hin
      obtain ⟨a, ha1, ha2, ha3, ha4⟩ := hM.cl i hc
      obtain ⟨b, hb1, hb2, hb3, hb4⟩ := hT.cl i hc
      by_cases hab : a = b
      · subst hab; rw [ha2, hb2]
      · exfalso
        -- wlog a < b handled by symmetric blocks
        rcases Nat.lt_or_gt_of_ne hab with h | h
        · -- a < b < i ; in M, b is op with partner c
          obtain ⟨c, hc1, hc2, hc3, hc4⟩ := hM.op b hb4
          by_cases hci : c < i
          · have e := ih c hci hc4
            -- M c = some b, T c = M c = some b, but T b = some i so T's partner of b is i, and T c = some b means T b = some c
            obtain ⟨d, hd1, hd2, hd3, hd4⟩ := hT.cl c hc4
            have : d = b := by rw [← e, hc3] at hd2; exact (Option.some.inj hd2).symm
            subst this
            rw [hb3] at hd3
            have : i = c := Option.some.inj hd3
            omega
          · by_cases hce : c = i
            · subst hce; rw [ha2] at hc3; have := Option.some.inj hc3; omega
            · exact hM.nocross a i b c ha3 hc2 h hb1 (by omega)
        · obtain ⟨c, hc1, hc2, hc3, hc4⟩ := hT.op a ha4
          by_cases hci : c < i
          · have e := ih c hci hc4
            obtain ⟨d, hd1, hd2, hd3, hd4⟩ := hM.cl c hc4
            have : d = a := by rw [e, hc3] at hd2; exact (Option.some.inj hd2).symm
            subst this
            rw [ha3] at hd3
            have : i = c := Option.some.inj hd3
            omega
          · by_cases hce : c = i
            · subst hce; rw [hb2] at hc3; have := Option.some.inj hc3; omega
            · exact hT.nocross b i a c hb3 hc2 h ha1 (by omega)

theorem matching_unique (w : List Sym) (M T : Nat → Option Nat) (hM : Matching w M) (hT : Matching w T) :
    M = T := by
  funext i
  by_cases hi : i < w.length
  · rcases sym_cases w i hi with h | h | h
    · -- op: partner j is a cl, where they agree
      obtain ⟨j, hj1, hj2, hj3, hj4⟩ := hM.op i h
      have e := cl_agree w M T hM hT (j+1) j (by omega) hj4
      obtain ⟨k, hk1, hk2, hk3, hk4⟩ := hT.op i h
      have e2 := cl_agree w M T hM hT (k+1) k (by omega) hk4
      -- T j = M j = some i ; T i = some k ; T k = some i ; M k = T k = some i
      -- M i = some j and M k = some i → M-partner of k is i → M i = some k
      obtain ⟨d, hd1, hd2, hd3, hd4⟩ := hM.cl k hk4
      rw [e2, hk3] at hd2
      have : d = i := (Option.some.inj hd2).symm
      subst this
      rw [hd3, hk2]
    · exact cl_agree w M T hM hT (i+1) i (by omega) h
    · rw [hM.dot i h, hT.dot i h]
  · rw [hM.out i (by omega), hT.out i (by omega)]




end Dsd.Bracket
