/-
`ComplexS.is_domainlevel_complement` as translated from the source (Gen/PyComplexS2.lean) is `isDomainLevelComplement` of Model/Dlc.lean
on every coherent object (`PCoh` of Lemmas/PyObjDefs.lean), with `invert` := the name toggle of the model.
-/
import DsdVerif.Lemmas.PyObjBasic
import DsdVerif.Gen.PyComplexS2
import DsdVerif.Model.Dlc

set_option linter.unusedSimpArgs false
set_option linter.unusedVariables false

namespace Dsd.PyObj2
open Dsd Gen PyObj PyObj.Basic

/-- the PARAMETER `invert` as Model/Dlc.lean reads `~d`: complementary name, same length -/
def nameToggle (d : String × Nat) : Py.M (String × Nat) := pure (compName d.1, d.2)

/-- the strand table of names as the table of domains `(name, lenOf name)` -/
def domTable (lenOf : String → Nat) (stab : List (List String)) : List (List Dom) :=
  stab.map (fun row => row.map (fun n => (⟨n, lenOf n⟩ : Dom)))

/-- `strand_table[l[0]][l[1]]` on names -/
def getName (stab : List (List String)) (l : Locus) : Except Err String :=
  match stab[l.1]? with
  | none => .error (.fault "IndexError")
  | some row =>
    match row[l.2]? with
    | none => .error (.fault "IndexError")
    | some n => .ok n

theorem getDomain_domTable (lenOf : String → Nat) (stab : List (List String)) (l : Locus) :
    getDomain (domTable lenOf stab) l =
      match getName stab l with
      | .ok n => .ok ⟨n, lenOf n⟩
      | .error e => .error e := by
  unfold getDomain getName domTable
  simp only [List.getElem?_map]
  cases stab[l.1]? with
  | none => rfl
  | some row =>
    simp only [Option.map_some, List.getElem?_map]
    cases row[l.2]? <;> rfl

/-- what the loops maintain: a coherent object with the representation of `s0` whose cached pair table is `t` -/
structure Inv (s0 : ComplexS.Self) (t : PairTable) (σ : ComplexS.Self) : Prop where
  coh : PCoh σ
  rep : SameRepS s0 σ
  pt : σ._pair_table = some t

/-- `self.get_domain(l)` on such an object: the name in the strand table of the current sequence (IndexError outside) -/
theorem exec_get_domain (s0 : ComplexS.Self) (t : PairTable) (σ : ComplexS.Self) (hi : Inv s0 t σ) (l : Locus) :
    ∃ σ', (py_ComplexS_get_domain l).exec σ = (getName (makeStrandTableList "+" s0._sequence) l, σ') ∧ Inv s0 t σ' := by
  obtain ⟨σ', hex, hc, hr, _, hpt, _⟩ := exec_p_strand_table σ hi.coh
  refine ⟨σ', ?_, ⟨hc, SameRepS.trans hi.rep hr, hpt.trans hi.pt⟩⟩
  simp only [py_ComplexS_get_domain, exec_bind, exec_pure, exec_lift, hex, unwrap_some, idx_eq, hi.rep.1, getName]
  cases (makeStrandTableList "+" s0._sequence)[l.1]? with
  | none => rfl
  | some x =>
    simp only []
    cases x[l.2]? <;> rfl

/-- the result of one cell as the loop variables after it -/
def afterCell (v : ComplexS_is_domainlevel_complement.Vars) (si di : Nat) (cell : Option Locus) (r : Except Err Bool) :
    Except Err ComplexS_is_domainlevel_complement.Vars :=
  match r with
  | .error e => .error e
  | .ok true => .ok { v with loc := (si, di), cloc := cell }
  | .ok false => .ok { v with loc := (si, di), cloc := cell, retv := false, returned := true }

/-- one iteration of the inner loop: the cell `(si, di)` of the cached table is the element being visited, and the test is `dlcCell` -/
theorem exec_loop2 (lenOf : String → Nat) (s0 : ComplexS.Self) (t : PairTable) (σ : ComplexS.Self) (hi : Inv s0 t σ)
    (si di : Nat) (strand row : List (Option Locus)) (cell : Option Locus) (hrow : t[si]? = some row) (hcell : row[di]? = some cell)
    (v : ComplexS_is_domainlevel_complement.Vars) (hv : v.returned = false) :
    ∃ σ', Inv s0 t σ' ∧
      (ComplexS_is_domainlevel_complement.loop2 lenOf nameToggle si strand v (di, cell)).exec σ =
        (afterCell v si di cell (dlcCell (domTable lenOf (makeStrandTableList "+" s0._sequence)) si di cell), σ') := by
  unfold ComplexS_is_domainlevel_complement.loop2
  simp only [hv, Bool.false_eq_true, if_false, exec_bind, exec_get, exec_pure, exec_lift, exec_ite, hi.pt, unwrap_some, idx_eq, hrow, hcell]
  cases cell with
  | none =>
    refine ⟨σ, hi, ?_⟩
    simp [dlcCell, afterCell, exec_pure, exec_ite]
    exact hv
  | some c =>
    obtain ⟨σ1, h1, hi1⟩ := exec_get_domain s0 t σ hi (si, di)
    obtain ⟨σ2, h2, hi2⟩ := exec_get_domain s0 t σ1 hi1 c
    refine ⟨match getName (makeStrandTableList "+" s0._sequence) (si, di) with | .ok _ => σ2 | .error _ => σ1, ?_, ?_⟩
    · cases getName (makeStrandTableList "+" s0._sequence) (si, di) <;> assumption
    · simp only [Option.isNone, Bool.not_false, if_true, exec_ite, exec_bind, exec_pure, exec_lift, exec_monadLift, h1, unwrap_some,
        dlcCell, getDomain_domTable]
      cases hn : getName (makeStrandTableList "+" s0._sequence) (si, di) with
      | error e => rfl
      | ok n =>
        simp only [h2]
        cases hn' : getName (makeStrandTableList "+" s0._sequence) c with
        | error e => rfl
        | ok n' =>
          simp only [nameToggle, exec_pure, exec_lift, exec_monadLift, C2.dom, afterCell]
          have hp : (pure (compName n', lenOf n') : Py.M (String × Nat)) = Except.ok (compName n', lenOf n') := rfl
          rw [hp]
          simp only [Dom.compl, Dom.mk.injEq, hv]
          by_cases he : n = compName n' ∧ lenOf n = lenOf n'
          · have hb : ((n, lenOf n) == (compName n', lenOf n')) = true := by
              rw [beq_iff_eq, Prod.mk.injEq]; exact he
            have hd : decide (n = compName n' ∧ lenOf n = lenOf n') = true := decide_eq_true he
            simp only [hb, hd, Bool.not_true, Bool.false_eq_true, if_false]
          · have hb : ((n, lenOf n) == (compName n', lenOf n')) = false := by
              rw [beq_eq_false_iff_ne, Ne, Prod.mk.injEq]; exact he
            have hd : decide (n = compName n' ∧ lenOf n = lenOf n') = false := decide_eq_false he
            simp only [hb, hd, Bool.not_false, if_true]

/-! ### the loops -/

/-- `enumerate(l)` from the index `k` on -/
def enumFrom {α} (k : Nat) (l : List α) : List (Nat × α) := (l.zipIdx k).map (fun p => (p.2, p.1))

theorem enumerate_eq {α} (l : List α) : Py.enumerate l = enumFrom 0 l := rfl

theorem enumFrom_cons {α} (k : Nat) (x : α) (xs : List α) : enumFrom k (x :: xs) = (k, x) :: enumFrom (k + 1) xs := by
  simp [enumFrom, List.zipIdx_cons]

theorem getElem?_of_drop {α} (l : List α) (k : Nat) (x : α) (r : List α) (h : l.drop k = x :: r) :
    l[k]? = some x ∧ l.drop (k + 1) = r := by
  constructor
  · have := congrArg (fun m => m[0]?) h
    simpa using this
  · have := congrArg List.tail h
    simpa using this

/-- what a loop leaves for the outcome `r` of the model's loop: the exception, or variables whose flag says whether `return False` ran -/
def LoopOut (r : Except Err Bool) (out : Except Err ComplexS_is_domainlevel_complement.Vars) : Prop :=
  match r with
  | .error e => out = .error e
  | .ok true => ∃ v', out = .ok v' ∧ v'.returned = false
  | .ok false => ∃ v', out = .ok v' ∧ v'.returned = true ∧ v'.retv = false

/-- after `return False` the remaining iterations of the inner loop are no-ops -/
theorem loop2_returned (lenOf : String → Nat) (inv) (si : Nat) (strand : List (Option Locus))
    (l : List (Nat × Option Locus)) (v : ComplexS_is_domainlevel_complement.Vars) (hv : v.returned = true) (σ : ComplexS.Self) :
    (List.foldlM (ComplexS_is_domainlevel_complement.loop2 lenOf inv si strand) v l).exec σ = (.ok v, σ) := by
  induction l with
  | nil => rfl
  | cons x xs ih =>
    rw [List.foldlM_cons, exec_bind]
    have : (ComplexS_is_domainlevel_complement.loop2 lenOf inv si strand v x).exec σ = (.ok v, σ) := by
      unfold ComplexS_is_domainlevel_complement.loop2
      simp only [hv, if_true]
      rfl
    rw [this]
    exact ih

/-- the inner loop over the rest of the strand `si` is `dlcRow` -/
theorem exec_loop2_fold (lenOf : String → Nat) (s0 : ComplexS.Self) (t : PairTable) (si : Nat) (strand row : List (Option Locus))
    (hrow : t[si]? = some row) (cells : List (Option Locus)) :
    ∀ (d : Nat) (hd : row.drop d = cells) (σ : ComplexS.Self) (hi : Inv s0 t σ)
      (v : ComplexS_is_domainlevel_complement.Vars) (hv : v.returned = false),
    ∃ σ' out, Inv s0 t σ' ∧
      (List.foldlM (ComplexS_is_domainlevel_complement.loop2 lenOf nameToggle si strand) v (enumFrom d cells)).exec σ = (out, σ') ∧
      LoopOut (dlcRow (domTable lenOf (makeStrandTableList "+" s0._sequence)) si d cells) out := by
  induction cells with
  | nil =>
    intro d hd σ hi v hv
    exact ⟨σ, .ok v, hi, rfl, v, rfl, hv⟩
  | cons cell rest ih =>
    intro d hd σ hi v hv
    obtain ⟨hcell, hd'⟩ := getElem?_of_drop row d cell rest hd
    obtain ⟨σ1, hi1, hstep⟩ := exec_loop2 lenOf s0 t σ hi si d strand row cell hrow hcell v hv
    rw [enumFrom_cons, List.foldlM_cons, exec_bind, hstep]
    simp only [dlcRow]
    cases hc : dlcCell (domTable lenOf (makeStrandTableList "+" s0._sequence)) si d cell with
    | error e => exact ⟨σ1, .error e, hi1, rfl, rfl⟩
    | ok b =>
      cases b with
      | true =>
        simp only [afterCell]
        exact ih (d + 1) hd' σ1 hi1 _ hv
      | false =>
        simp only [afterCell]
        rw [loop2_returned _ _ _ _ _ _ rfl]
        exact ⟨σ1, _, hi1, rfl, _, rfl, rfl, rfl⟩

theorem loop1_returned (lenOf : String → Nat) (inv) (l : List (Nat × List (Option Locus)))
    (v : ComplexS_is_domainlevel_complement.Vars) (hv : v.returned = true) (σ : ComplexS.Self) :
    (List.foldlM (ComplexS_is_domainlevel_complement.loop1 lenOf inv) v l).exec σ = (.ok v, σ) := by
  induction l with
  | nil => rfl
  | cons x xs ih =>
    rw [List.foldlM_cons, exec_bind]
    have : (ComplexS_is_domainlevel_complement.loop1 lenOf inv v x).exec σ = (.ok v, σ) := by
      unfold ComplexS_is_domainlevel_complement.loop1
      simp only [hv, if_true]
      rfl
    rw [this]
    exact ih

/-- one iteration of the outer loop: the strand `si` of the cached table -/
theorem exec_loop1 (lenOf : String → Nat) (s0 : ComplexS.Self) (t : PairTable) (si : Nat) (strand : List (Option Locus))
    (hrow : t[si]? = some strand) (σ : ComplexS.Self) (hi : Inv s0 t σ)
    (v : ComplexS_is_domainlevel_complement.Vars) (hv : v.returned = false) :
    ∃ σ' out, Inv s0 t σ' ∧
      (ComplexS_is_domainlevel_complement.loop1 lenOf nameToggle v (si, strand)).exec σ = (out, σ') ∧
      LoopOut (dlcRow (domTable lenOf (makeStrandTableList "+" s0._sequence)) si 0 strand) out := by
  obtain ⟨σ', out, hi', hex, hout⟩ := exec_loop2_fold lenOf s0 t si strand strand hrow strand 0 rfl σ hi v hv
  refine ⟨σ', out, hi', ?_, hout⟩
  unfold ComplexS_is_domainlevel_complement.loop1
  simp only [hv, Bool.false_eq_true, if_false, exec_bind, enumerate_eq, hex]
  cases out with
  | error e => rfl
  | ok v' => simp only [exec_ite, exec_pure]; split <;> rfl

/-- the outer loop over the rest of the table is `dlcRows` -/
theorem exec_loop1_fold (lenOf : String → Nat) (s0 : ComplexS.Self) (t : PairTable) (rows : PairTable) :
    ∀ (k : Nat) (hk : t.drop k = rows) (σ : ComplexS.Self) (hi : Inv s0 t σ)
      (v : ComplexS_is_domainlevel_complement.Vars) (hv : v.returned = false),
    ∃ σ' out, Inv s0 t σ' ∧
      (List.foldlM (ComplexS_is_domainlevel_complement.loop1 lenOf nameToggle) v (enumFrom k rows)).exec σ = (out, σ') ∧
      LoopOut (dlcRows (domTable lenOf (makeStrandTableList "+" s0._sequence)) k rows) out := by
  induction rows with
  | nil =>
    intro k hk σ hi v hv
    exact ⟨σ, .ok v, hi, rfl, v, rfl, hv⟩
  | cons strand rest ih =>
    intro k hk σ hi v hv
    obtain ⟨hrow, hk'⟩ := getElem?_of_drop t k strand rest hk
    obtain ⟨σ1, out1, hi1, hstep, hout1⟩ := exec_loop1 lenOf s0 t k strand hrow σ hi v hv
    rw [enumFrom_cons, List.foldlM_cons, exec_bind, hstep]
    simp only [dlcRows]
    cases hc : dlcRow (domTable lenOf (makeStrandTableList "+" s0._sequence)) k 0 strand with
    | error e =>
      rw [hc] at hout1; simp only [LoopOut] at hout1; subst hout1
      exact ⟨σ1, .error e, hi1, rfl, rfl⟩
    | ok b =>
      cases b with
      | true =>
        rw [hc] at hout1; obtain ⟨v', rfl, hv'⟩ := hout1
        exact ih (k + 1) hk' σ1 hi1 v' hv'
      | false =>
        rw [hc] at hout1; obtain ⟨v', rfl, hv', hr'⟩ := hout1
        simp only []
        rw [loop1_returned _ _ _ _ hv']
        exact ⟨σ1, _, hi1, rfl, v', rfl, hv', hr'⟩

/-- **`is_domainlevel_complement` as written is the model `isDomainLevelComplement`** on the strand table of the current sequence (names
    with the lengths `lenOf` gives them) and the pair table of the current structure, for every coherent object - whatever tables
    are cached; the exception of `make_pair_table` if the structure has none; the object stays coherent with the same representation -/
theorem py_dlc_eq (lenOf : String → Nat) (s : ComplexS.Self) (h : PCoh s) :
    ∃ s', (py_ComplexS_is_domainlevel_complement lenOf nameToggle).exec s =
        (match makePairTable s._structure with
         | .error e => .error e
         | .ok t => isDomainLevelComplement (domTable lenOf (makeStrandTableList "+" s._sequence)) t, s') ∧
      PCoh s' ∧ SameRepS s s' := by
  unfold py_ComplexS_is_domainlevel_complement
  rcases exec_pair_table s h with ⟨t, s1, hm, hex, hc1, hr1, hpt, _⟩ | ⟨e, hm, hex⟩
  · have hi1 : Inv s t s1 := ⟨hc1, hr1, hpt⟩
    obtain ⟨σ', out, hi', hfold, hout⟩ := exec_loop1_fold lenOf s t t 0 rfl s1 hi1 {} rfl
    refine ⟨σ', ?_, hi'.coh, hi'.rep⟩
    simp only [exec_bind, hex, enumerate_eq, hfold, hm, isDomainLevelComplement]
    cases hd : dlcRows (domTable lenOf (makeStrandTableList "+" s._sequence)) 0 t with
    | error e => rw [hd] at hout; simp only [LoopOut] at hout; subst hout; rfl
    | ok b =>
      cases b with
      | true =>
        rw [hd] at hout; obtain ⟨v', rfl, hv'⟩ := hout
        simp only [exec_ite, exec_pure, hv', Bool.false_eq_true, if_false]
      | false =>
        rw [hd] at hout; obtain ⟨v', rfl, hv', hr'⟩ := hout
        simp only [exec_ite, exec_pure, hv', if_true, hr']
  · exact ⟨s, by simp only [exec_bind, hex, hm], h, SameRepS.refl _⟩

end Dsd.PyObj2
