/-
The reader's operations on a well-formed world (C16): each keeps the world well-formed, only adds objects, returns
identities of the expected kind, and fails with declared errors only.
-/
import DsdVerif.Lemmas.ReaderWF

namespace Dsd.RdL
open Dsd Dsd.PP

/-- `w'` extends `w`: nothing was lost -/
structure Ext (w w' : World) : Prop where
  has : ∀ k c i, has w k c i → has w' k c i
  good : ∀ i, GoodDom w i → GoodDom w' i
  node : ∀ i, HasNode w i → HasNode w' i

theorem Ext.refl (w : World) : Ext w w := ⟨fun _ _ _ h => h, fun _ h => h, fun _ h => h⟩
theorem Ext.trans {a b c : World} (h1 : Ext a b) (h2 : Ext b c) : Ext a c :=
  ⟨fun k c' i h => h2.has k c' i (h1.has k c' i h), fun i h => h2.good i (h1.good i h), fun i h => h2.node i (h1.node i h)⟩

theorem Grow.ext {w w' k c children out} (g : Grow w w' k c children out) : Ext w w' :=
  ⟨g.hasOld, g.goodOld, g.hasNodeOld⟩

def NoFault (e : RErr) : Prop := ∀ k, e ≠ .fault k

theorem ofOut_nf (out : Out) (h1 : ∀ kk, out ≠ .fault kk) (h2 : ∀ i b, out ≠ .ret i b) : NoFault (RErr.ofOut out) := by
  intro k
  cases out with
  | ret i b => exact absurd rfl (h2 i b)
  | fault kk => exact absurd rfl (h1 kk)
  | _ => simp [RErr.ofOut]

/-- a domain identity of some class -/
def IsDom (w : World) (i : Nat) : Prop := ∃ c, has w .dom c i

theorem IsDom.node {w : World} (h : WOK w) {i : Nat} (hd : IsDom w i) : HasNode w i := by
  obtain ⟨c, hc⟩ := hd
  obtain ⟨n, hn, hi, _⟩ := h.objNode .dom c i hc
  exact ⟨n, hn, hi⟩

theorem GoodDom.isDom {w : World} {i : Nat} (h : GoodDom w i) : IsDom w i := by
  obtain ⟨c, cr, o, h1, h2, h3, _⟩ := h
  exact ⟨c, cr, h1, o, h2, h3⟩

theorem Ext.isDom {w w' : World} (e : Ext w w') {i : Nat} (h : IsDom w i) : IsDom w' i := by
  obtain ⟨c, hc⟩ := h
  exact ⟨c, e.has .dom c i hc⟩

theorem class_some {κ} (cs : List (ClassReg κ)) (c : Nat) (hl : cs.length = 4) (hc : c < 4) : ∃ cr, cs[c]? = some cr := by
  have : c < cs.length := by omega
  exact ⟨cs[c], List.getElem?_eq_getElem this⟩

/-- the slot configuration names existing classes -/
structure SlotsOK (sl : Slots) : Prop where
  dom : sl.dom < 4
  strand : sl.strand < 4
  cplx : sl.cplx < 4
  macr : sl.macr < 4
  rxn : sl.rxn < 4

/-! ### domain requests -/

theorem domReq_spec (s : RState) (sl : Slots) (hw : WOK s.w) (hsl : SlotsOK sl) (n : String) (hn : n ≠ "")
    (len : Option Nat) :
    WOK (s.domReq sl { name := some n, length := len }).1.w ∧
    Ext s.w (s.domReq sl { name := some n, length := len }).1.w ∧
    (∀ id, (s.domReq sl { name := some n, length := len }).2 = .ok id →
      has (s.domReq sl { name := some n, length := len }).1.w .dom sl.dom id ∧
      (n ≠ "*" → GoodDom (s.domReq sl { name := some n, length := len }).1.w id)) ∧
    (∀ e, (s.domReq sl { name := some n, length := len }).2 = .error e → NoFault e) := by
  obtain ⟨cr, hc⟩ := class_some s.w.doms sl.dom hw.lens.1 hsl.dom
  obtain ⟨g, hgood⟩ := mkDom_grow s.w sl.dom cr hc n hn len
  have hw' := g.wok hw (by simp) (by intro h; cases h)
  unfold RState.domReq
  generalize s.w.mkDom sl.dom { name := some n, length := len } = res at g hgood hw'
  obtain ⟨w', out⟩ := res
  simp only at g hgood hw' ⊢
  cases out with
  | ret i b =>
    refine ⟨hw', g.ext, ?_, ?_⟩
    · intro id hid
      simp only [Except.ok.injEq] at hid
      subst hid
      exact ⟨g.ret i b rfl, hgood i b rfl⟩
    · intro e he; simp at he
  | fault kk => exact absurd rfl (g.noFault kk)
  | _ =>
    refine ⟨hw', g.ext, ?_, ?_⟩
    · intro id hid; simp at hid
    · intro e he
      simp only [Except.error.injEq] at he
      subst he
      intro k; simp [RErr.ofOut]

theorem domList_spec (sl : Slots) (hsl : SlotsOK sl) (names : List String) (hn : ∀ n ∈ names, n ≠ "") :
    ∀ (s : RState), WOK s.w →
    WOK (s.domList sl names).1.w ∧ Ext s.w (s.domList sl names).1.w ∧
    (∀ ids, (s.domList sl names).2 = .ok ids → ids.length = names.length ∧
      (∀ id ∈ ids, has (s.domList sl names).1.w .dom sl.dom id) ∧
      ((∀ n ∈ names, n ≠ "*") → ∀ id ∈ ids, GoodDom (s.domList sl names).1.w id)) ∧
    (∀ e, (s.domList sl names).2 = .error e → NoFault e) := by
  induction names with
  | nil =>
    intro s hw
    simp only [RState.domList]
    exact ⟨hw, Ext.refl _, by intro ids h; cases h; simp, by intro e h; cases h⟩
  | cons n ns ih =>
    intro s hw
    obtain ⟨a1, a2, a3, a4⟩ := domReq_spec s sl hw hsl n (hn n List.mem_cons_self) none
    simp only [RState.domList]
    generalize s.domReq sl { name := some n } = r1 at a1 a2 a3 a4
    obtain ⟨s1, res1⟩ := r1
    cases res1 with
    | error e =>
      simp only at a1 a2 a3 a4 ⊢
      exact ⟨a1, a2, (by intro ids h; cases h), by intro e' h; cases h; exact a4 e rfl⟩
    | ok id =>
      simp only at a1 a2 a3 a4 ⊢
      obtain ⟨b1, b2, b3, b4⟩ := ih (fun m hm => hn m (List.mem_cons_of_mem _ hm)) s1 a1
      generalize s1.domList sl ns = r2 at b1 b2 b3 b4
      obtain ⟨s2, res2⟩ := r2
      cases res2 with
      | error e =>
        simp only at b1 b2 b3 b4 ⊢
        exact ⟨b1, a2.trans b2, (by intro ids h; cases h), by intro e' h; cases h; exact b4 e rfl⟩
      | ok ids =>
        simp only at b1 b2 b3 b4 ⊢
        refine ⟨b1, a2.trans b2, ?_, by intro e' h; cases h⟩
        intro ids' h
        cases h
        obtain ⟨c1, c2, c3⟩ := b3 ids rfl
        obtain ⟨d1, d2⟩ := a3 id rfl
        refine ⟨by simp [c1], ?_, ?_⟩
        · intro x hx
          rcases List.mem_cons.mp hx with rfl | hx
          · exact b2.has _ _ _ d1
          · exact c2 x hx
        · intro hstar x hx
          rcases List.mem_cons.mp hx with rfl | hx
          · exact b2.good _ (d2 (hstar n List.mem_cons_self))
          · exact c3 (fun m hm => hstar m (List.mem_cons_of_mem _ hm)) x hx

/-! ### strands -/

theorem strandDomains_spec (s : RState) (sl : Slots) (hw : WOK s.w) (hsl : SlotsOK sl) (n : String) :
    WOK (s.strandDomains sl n).1.w ∧ Ext s.w (s.strandDomains sl n).1.w ∧
    (∀ ds, (s.strandDomains sl n).2 = .ok ds → ∀ d ∈ ds, GoodDom (s.strandDomains sl n).1.w d) ∧
    (∀ e, (s.strandDomains sl n).2 = .error e → NoFault e) := by
  obtain ⟨cr, hc⟩ := class_some s.w.strands sl.strand hw.lens.2.1 hsl.strand
  have g := mkStrand_grow s.w sl.strand cr hc none n
  have hw' := g.wok hw (by simp) (by simp)
  unfold RState.strandDomains
  generalize s.w.mkStrand sl.strand none (some n) = res at g hw'
  obtain ⟨w', out⟩ := res
  simp only at g hw' ⊢
  cases out with
  | ret i b =>
    refine ⟨hw', g.ext, ?_, by intro e he; simp at he⟩
    intro ds hds
    simp only [Except.ok.injEq] at hds
    subst hds
    obtain ⟨nd, h1, h2, _, h4, _⟩ := node_of_has w' hw' .strand sl.strand i (g.ret i b rfl)
    rw [h1]
    simp only [Option.map_some, Option.getD_some]
    exact hw'.strandChild nd h2 h4
  | fault kk => exact absurd rfl (g.noFault kk)
  | _ =>
    refine ⟨hw', g.ext, by intro ds hds; simp at hds, ?_⟩
    intro e he
    simp only [Except.error.injEq] at he
    subst he
    intro k; simp [RErr.ofOut]

theorem invertAll_spec (ds : List Nat) : ∀ (s : RState), WOK s.w → (∀ d ∈ ds, GoodDom s.w d) →
    WOK (s.invertAll ds).1.w ∧ Ext s.w (s.invertAll ds).1.w ∧
    (∀ ids, (s.invertAll ds).2 = .ok ids → ∀ id ∈ ids, IsDom (s.invertAll ds).1.w id) ∧
    (∀ e, (s.invertAll ds).2 = .error e → NoFault e) := by
  induction ds with
  | nil =>
    intro s hw _
    simp only [RState.invertAll]
    exact ⟨hw, Ext.refl _, by intro ids h; cases h; simp, by intro e h; cases h⟩
  | cons d ds ih =>
    intro s hw hg
    obtain ⟨c, g, hret⟩ := invert_grow s.w hw d (hg d List.mem_cons_self)
    have hw' := g.wok hw (by simp) (by intro h; cases h)
    simp only [RState.invertAll]
    generalize s.w.invert d = res at g hret hw'
    obtain ⟨w', out⟩ := res
    simp only at g hret hw' ⊢
    cases out with
    | ret i b =>
      simp only
      obtain ⟨b1, b2, b3, b4⟩ := ih { s with w := w' } hw'
        (fun x hx => g.ext.good x (hg x (List.mem_cons_of_mem _ hx)))
      generalize RState.invertAll { s with w := w' } ds = r2 at b1 b2 b3 b4
      obtain ⟨s2, res2⟩ := r2
      cases res2 with
      | error e =>
        simp only at b1 b2 b3 b4 ⊢
        exact ⟨b1, g.ext.trans b2, (by intro ids h; cases h), by intro e' h; cases h; exact b4 e rfl⟩
      | ok ids =>
        simp only at b1 b2 b3 b4 ⊢
        refine ⟨b1, g.ext.trans b2, ?_, by intro e' h; cases h⟩
        intro ids' h
        cases h
        intro x hx
        rcases List.mem_cons.mp hx with rfl | hx
        · exact b2.isDom ⟨c, hret x b rfl⟩
        · exact b3 ids rfl x hx
    | fault kk => exact absurd rfl (g.noFault kk)
    | _ =>
      refine ⟨hw', g.ext, by intro ds hds; simp at hds, ?_⟩
      intro e he
      simp only [Except.error.injEq] at he
      subst he
      intro k; simp [RErr.ofOut]

/-! ### look-ups by name -/

theorem lookupAll_spec (f : World → String → World × Out) (k : Kind) (c : Nat)
    (hf : ∀ w n, WOK w → Grow w (f w n).1 k c [] (f w n).2) (names : List String) :
    ∀ (s : RState), WOK s.w →
    WOK (s.lookupAll f names).1.w ∧ Ext s.w (s.lookupAll f names).1.w ∧
    (∀ ids, (s.lookupAll f names).2 = .ok ids → ∀ id ∈ ids, has (s.lookupAll f names).1.w k c id) ∧
    (∀ e, (s.lookupAll f names).2 = .error e → NoFault e) := by
  induction names with
  | nil =>
    intro s hw
    simp only [RState.lookupAll]
    exact ⟨hw, Ext.refl _, by intro ids h; cases h; simp, by intro e h; cases h⟩
  | cons n ns ih =>
    intro s hw
    have g := hf s.w n hw
    have hw' := g.wok hw (by simp) (by simp)
    simp only [RState.lookupAll]
    generalize f s.w n = res at g hw'
    obtain ⟨w', out⟩ := res
    simp only at g hw' ⊢
    cases out with
    | ret i b =>
      simp only
      obtain ⟨b1, b2, b3, b4⟩ := ih { s with w := w' } hw'
      generalize RState.lookupAll { s with w := w' } f ns = r2 at b1 b2 b3 b4
      obtain ⟨s2, res2⟩ := r2
      cases res2 with
      | error e =>
        simp only at b1 b2 b3 b4 ⊢
        exact ⟨b1, g.ext.trans b2, (by intro ids h; cases h), by intro e' h; cases h; exact b4 e rfl⟩
      | ok ids =>
        simp only at b1 b2 b3 b4 ⊢
        refine ⟨b1, g.ext.trans b2, ?_, by intro e' h; cases h⟩
        intro ids' h
        cases h
        intro x hx
        rcases List.mem_cons.mp hx with rfl | hx
        · exact b2.has _ _ _ (g.ret x b rfl)
        · exact b3 ids rfl x hx
    | fault kk => exact absurd rfl (g.noFault kk)
    | _ =>
      refine ⟨hw', g.ext, by intro ds hds; simp at hds, ?_⟩
      intro e he
      simp only [Except.error.injEq] at he
      subst he
      intro k'; simp [RErr.ofOut]

theorem lookCplx_grow (sl : Slots) (hsl : SlotsOK sl) (w : World) (n : String) (hw : WOK w) :
    Grow w ((fun (w : World) (n : String) => let r := w.mkCplx sl.cplx none [] (some n) none; (r.1, r.2.1)) w n).1
      .cplx sl.cplx [] ((fun (w : World) (n : String) => let r := w.mkCplx sl.cplx none [] (some n) none; (r.1, r.2.1)) w n).2 := by
  obtain ⟨cr, hc⟩ := class_some w.cplxs sl.cplx hw.lens.2.2.1 hsl.cplx
  exact mkCplx_grow w sl.cplx cr hc none [] n

theorem lookMacro_grow (sl : Slots) (hsl : SlotsOK sl) (w : World) (n : String) (hw : WOK w) :
    Grow w (w.mkMacro sl.macr none (some n)).1 .macro sl.macr [] (w.mkMacro sl.macr none (some n)).2 := by
  obtain ⟨cr, hc⟩ := class_some w.macros sl.macr hw.lens.2.2.2.1 hsl.macr
  exact mkMacro_grow w sl.macr cr hc none n

/-! ### the fallback loop of the kernel branch -/

/-- what `expandKernel` guarantees about its result -/
def KSpec (s : RState) (r : RState × Except RErr (List (Option Nat) × List Char)) : Prop :=
  WOK r.1.w ∧ Ext s.w r.1.w ∧
  (∀ ids st, r.2 = .ok (ids, st) → ∀ id, some id ∈ ids → IsDom r.1.w id) ∧
  (∀ e, r.2 = .error e → NoFault e)

theorem KSpec.err {s s1 : RState} {e : RErr} (h1 : WOK s1.w) (h2 : Ext s.w s1.w) (h3 : NoFault e) :
    KSpec s (s1, .error e) :=
  ⟨h1, h2, (by intro ids st h; cases h), by intro e' h; cases h; exact h3⟩

def kcont (ds : List Nat) (c : Char) (r2 : RState × Except RErr (List (Option Nat) × List Char)) :
    RState × Except RErr (List (Option Nat) × List Char) :=
  match r2 with
  | (s2, .ok (ids, st)) => (s2, .ok (ds.map some ++ ids, ds.map (fun _ => c) ++ st))
  | (s2, .error e) => (s2, .error e)

/-- continue with the rest of the names after `ds` was found for the first one -/
theorem KSpec.cont {s s1 : RState} (hext : Ext s.w s1.w) (ds : List Nat) (hds : ∀ d ∈ ds, IsDom s1.w d) (c : Char)
    (r2 : RState × Except RErr (List (Option Nat) × List Char)) (h2 : KSpec s1 r2) :
    KSpec s (kcont ds c r2) := by
  unfold kcont
  obtain ⟨s2, res2⟩ := r2
  obtain ⟨b1, b2, b3, b4⟩ := h2
  cases res2 with
  | error e => exact KSpec.err b1 (hext.trans b2) (b4 e rfl)
  | ok p =>
    obtain ⟨ids, st⟩ := p
    refine ⟨b1, hext.trans b2, ?_, by intro e h; cases h⟩
    intro ids' st' h id hid
    simp only [Except.ok.injEq, Prod.mk.injEq] at h
    obtain ⟨rfl, _⟩ := h
    simp only [List.mem_append, List.mem_map, Option.some.injEq, exists_eq_right] at hid
    rcases hid with hid | hid
    · exact b2.isDom (hds id hid)
    · exact b3 ids st rfl id hid

theorem nf_of_ne_singleton : NoFault RErr.pilFormat := by intro k; simp

theorem expandKernel_spec (sl : Slots) (hsl : SlotsOK sl) (names : List String) :
    ∀ (struct : List Char) (s : RState), WOK s.w → names.length = struct.length → (∀ n ∈ names, n ≠ "") →
    KSpec s (s.expandKernel sl names struct) := by
  induction names with
  | nil =>
    intro struct s hw _ _
    simp only [RState.expandKernel]
    exact ⟨hw, Ext.refl _, (by intro ids st h; cases h; simp), by intro e h; cases h⟩
  | cons n ns ih =>
    intro struct s hw hlen hn
    cases struct with
    | nil => simp at hlen
    | cons c cs =>
      have hlen' : ns.length = cs.length := by simpa using hlen
      have hn' : ∀ m ∈ ns, m ≠ "" := fun m hm => hn m (List.mem_cons_of_mem _ hm)
      simp only [RState.expandKernel]
      split
      · -- a strand break
        have h2 := ih cs s hw hlen' hn'
        generalize s.expandKernel sl ns cs = r2 at h2
        obtain ⟨s2, res2⟩ := r2
        obtain ⟨b1, b2, b3, b4⟩ := h2
        cases res2 with
        | error e => exact KSpec.err b1 b2 (b4 e rfl)
        | ok p =>
          obtain ⟨ids, st⟩ := p
          refine ⟨b1, b2, ?_, by intro e h; cases h⟩
          intro ids' st' h id hid
          simp only [Except.ok.injEq, Prod.mk.injEq] at h
          obtain ⟨rfl, _⟩ := h
          simp only [List.mem_cons, reduceCtorEq, false_or] at hid
          exact b3 ids st rfl id hid
      · obtain ⟨a1, a2, a3, a4⟩ := domReq_spec s sl hw hsl n (hn n List.mem_cons_self) none
        generalize s.domReq sl { name := some n } = r1 at a1 a2 a3 a4
        obtain ⟨s1, res1⟩ := r1
        simp only at a1 a2 a3 a4
        cases res1 with
        | ok id =>
          simp only
          exact KSpec.cont a2 [id] (by intro d hd; simp at hd; rw [hd]; exact ⟨_, (a3 _ rfl).1⟩) c _
            (ih cs s1 a1 hlen' hn')
        | error e =>
          have hnf := a4 e rfl
          cases e with
          | singleton =>
            simp only
            obtain ⟨p1, p2, p3, p4⟩ := strandDomains_spec s1 sl a1 hsl n
            generalize s1.strandDomains sl n = r2 at p1 p2 p3 p4
            obtain ⟨s2, res2⟩ := r2
            simp only at p1 p2 p3 p4
            cases res2 with
            | ok ds =>
              simp only
              exact KSpec.cont (a2.trans p2) ds (fun d hd => (p3 ds rfl d hd).isDom) c _ (ih cs s2 p1 hlen' hn')
            | error e2 =>
              have hnf2 := p4 e2 rfl
              cases e2 with
              | singleton =>
                simp only
                obtain ⟨q1, q2, q3, q4⟩ := strandDomains_spec s2 sl p1 hsl (compName n)
                generalize s2.strandDomains sl (compName n) = r3 at q1 q2 q3 q4
                obtain ⟨s3, res3⟩ := r3
                simp only at q1 q2 q3 q4
                cases res3 with
                | ok ds =>
                  simp only
                  obtain ⟨t1, t2, t3, t4⟩ := invertAll_spec ds.reverse s3 q1
                    (fun d hd => q3 ds rfl d (List.mem_reverse.mp hd))
                  generalize s3.invertAll ds.reverse = r4 at t1 t2 t3 t4
                  obtain ⟨s4, res4⟩ := r4
                  simp only at t1 t2 t3 t4
                  cases res4 with
                  | ok ids4 =>
                    simp only
                    exact KSpec.cont ((a2.trans p2).trans (q2.trans t2)) ids4 (t3 ids4 rfl) c _ (ih cs s4 t1 hlen' hn')
                  | error e4 =>
                    simp only
                    exact KSpec.err t1 ((a2.trans p2).trans (q2.trans t2)) (t4 e4 rfl)
                | error e3 =>
                  have hnf3 := q4 e3 rfl
                  cases e3 <;> simp only <;>
                    first
                      | exact KSpec.err q1 ((a2.trans p2).trans q2) hnf3
                      | exact KSpec.err q1 ((a2.trans p2).trans q2) nf_of_ne_singleton
              | _ => simp only; exact KSpec.err p1 (a2.trans p2) hnf2
          | _ => simp only; exact KSpec.err a1 a2 hnf

end Dsd.RdL
