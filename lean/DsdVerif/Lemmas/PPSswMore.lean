/-
Symbolic execution of the remaining seesaw statement kinds: identifiers, `f` wires, gate / threshold
concentrations, decimal numbers, the two-list macros, trailing comments and multi-statement documents.
-/
import DsdVerif.Lemmas.PPSsw

namespace Dsd.PP.Ssw
open Dsd.PP Dsd.Gen

variable {env : Env}

/-! ### more leaves -/

/-- a literal fails when it is not a prefix of the text -/
theorem ev_lit_fail_strip0 (s : List Char) (c : Char) (r : List Char) (hws : isWs c = false) (hh : c ≠ '#')
    (h : stripPrefix s (c :: r) = none) : Ev env sk (.lit s) (P (c :: r)) none 0 := by
  intro fuel _
  cases fuel with
  | zero => simp only [run]
  | succ f =>
    have hp : pre sk (P (c :: r)) = P (c :: r) := by
      simp only [pre, if_true]; rw [skipIgn_cons_of c r hws hh]
    simp only [run, hp, h]
    simp

/-- a number fails before a non-digit -/
theorem ev_number_failk (k : Nat) (c : Char) (r : List Char) (hws : isWs c = false) (hh : c ≠ '#')
    (hc : pp_nums.contains c = false) : Ev env sk ssw_number (P (bl k ++ c :: r)) none 0 := by
  unfold ssw_number
  apply ev_word_fail _ _ c r _ hc
  simp only [pre, if_true]
  exact skipIgn_blanks_consE k c r hws hh

theorem ev_number_fail0 (c : Char) (r : List Char) (hws : isWs c = false) (hh : c ≠ '#')
    (hc : pp_nums.contains c = false) : Ev env sk ssw_number (P (c :: r)) none 0 := by
  simpa using ev_number_failk (env := env) 0 c r hws hh hc

theorem dropWhile_all {α} (q : α → Bool) (l : List α) (h : ∀ x ∈ l, q x = true) : l.dropWhile q = [] := by
  induction l with
  | nil => rfl
  | cons x xs ih =>
    rw [List.dropWhile_cons, h x List.mem_cons_self]
    simp only [if_true]
    exact ih (fun y hy => h y (List.mem_cons_of_mem _ hy))

/-- `LineEnd` before a trailing comment that runs to the end of the input -/
theorem skipIgn_comment (e : Nat) (comment : List Char) (hc : '\n' ∉ comment) :
    skipIgn (bl e ++ '#' :: comment) = [] := by
  rw [skipIgn_blanksE]
  unfold skipIgn
  rw [skipWs_cons_of '#' comment (by decide)]
  simp only
  have : ('#' :: comment).dropWhile (· != '\n') = [] := by
    apply dropWhile_all
    intro x hx
    rcases List.mem_cons.mp hx with rfl | hx
    · decide
    · have : x ≠ '\n' := fun e => hc (e ▸ hx)
      simpa using this
  rw [this]
  rfl

theorem ev_lineEnd_comment (e : Nat) (comment : List Char) (hc : '\n' ∉ comment) :
    Ev env sk .lineEnd (P (bl e ++ '#' :: comment)) (some (Pend, [])) 1 := by
  intro fuel hf
  obtain ⟨f, rfl⟩ : ∃ f, fuel = f + 1 := ⟨fuel - 1, by omega⟩
  have hp : pre sk (P (bl e ++ '#' :: comment)) = P [] := by
    simp only [pre, if_true]; rw [skipIgn_comment e comment hc]
  simp only [run, hp]
  simp

/-- `OneOrMore(Suppress(LineEnd()))` on a trailing comment without final line feed -/
theorem ev_lineEnds_comment (e : Nat) (comment : List Char) (hc : '\n' ∉ comment) :
    Ev env sk (.many1 (.suppress .lineEnd)) (P (bl e ++ '#' :: comment)) (some (Pend, [])) 5 := by
  have h2 : Ev env sk (.suppress .lineEnd) (P (bl e ++ '#' :: comment)) (some (Pend, [])) 2 :=
    ev_suppress (ev_lineEnd_comment e comment hc)
  have h3 : Ev env sk (.suppress .lineEnd) Pend none 1 := ev_suppress_fail ev_lineEnd_past
  exact (ev_many1 h2 (evm_stop h3)).cast rfl (by decide)

/-- line ends between two statements: `k` line feeds, then a character that starts the next statement -/
theorem evm_lineEnds_nls (k : Nat) (c : Char) (r : List Char) (hws : isWs c = false) (hh : c ≠ '#') (hnl : c ≠ '\n') :
    EvMany env sk (.suppress .lineEnd) (P (List.replicate k '\n' ++ c :: r)) (some (P (c :: r), [])) (k + 3) := by
  induction k with
  | zero =>
    have hpre : (pre sk (P (c :: r))).rest = c :: r := by
      simp only [pre, if_true]; exact skipIgn_cons_of c r hws hh
    exact (evm_stop (ev_suppress_fail (ev_lineEnd_fail c r hpre hnl))).cast rfl (by omega)
  | succ k ih =>
    have h1 : Ev env sk (.suppress .lineEnd) (P ('\n' :: (List.replicate k '\n' ++ c :: r)))
        (some (P (List.replicate k '\n' ++ c :: r), [])) 2 := ev_suppress (ev_lineEnd_nl _)
    have hne : P (List.replicate k '\n' ++ c :: r) ≠ P ('\n' :: (List.replicate k '\n' ++ c :: r)) := by
      intro h
      have := congrArg (fun p : Pos => p.rest.length) h
      simp at this
    have hgoal : List.replicate (k + 1) '\n' ++ c :: r = '\n' :: (List.replicate k '\n' ++ c :: r) := by
      simp [List.replicate_succ]
    rw [hgoal]
    exact (evm_step h1 hne ih).cast rfl (by omega)

theorem ev_lineEnds_nls (k : Nat) (c : Char) (r : List Char) (hws : isWs c = false) (hh : c ≠ '#') (hnl : c ≠ '\n') :
    Ev env sk (.many1 (.suppress .lineEnd)) (P ('\n' :: (List.replicate k '\n' ++ c :: r)))
      (some (P (c :: r), [])) (k + 5) := by
  have h1 : Ev env sk (.suppress .lineEnd) (P ('\n' :: (List.replicate k '\n' ++ c :: r)))
      (some (P (List.replicate k '\n' ++ c :: r), [])) 2 := ev_suppress (ev_lineEnd_nl _)
  exact (ev_many1 h1 (evm_lineEnds_nls k c r hws hh hnl)).cast rfl (by omega)

/-! ### statement and document frames -/

theorem stmt_ok (p p1 p2 : Pos) (t : List Tree) (b b2 : Nat) (h : Ev env sk (.alt bodyAlts) p (some (p1, t)) b)
    (hle : Ev env sk (.many1 (.suppress .lineEnd)) p1 (some (p2, [])) b2) :
    Ev env sk ssw_stmt p (some (p2, [.grp t])) (b + b2 + 4) := by
  rw [ssw_stmt_eq]
  refine (ev_seq (evs_cons (ev_group h) (evs_cons hle evs_nil))).cast rfl ?_
  omega

theorem stmt_stop : Ev env sk ssw_stmt Pend none 18 := by
  rw [ssw_stmt_eq]
  exact (ev_seq (evs_fail_head (ev_group_fail body_fail_past))).cast rfl (by decide)

theorem doc_start (c : Char) (r : List Char) (hws : isWs c = false) (hh : c ≠ '#') (hnl : c ≠ '\n') :
    Ev env sk (.many (.suppress .lineEnd)) (P (c :: r)) (some (P (c :: r), [])) 3 := by
  have hpre : (pre sk (P (c :: r))).rest = c :: r := by
    simp only [pre, if_true]; exact skipIgn_cons_of c r hws hh
  exact ev_many (evm_stop (ev_suppress_fail (ev_lineEnd_fail c r hpre hnl)))

/-- a document of one statement -/
theorem doc_one (c : Char) (r : List Char) (hws : isWs c = false) (hh : c ≠ '#') (hnl : c ≠ '\n')
    (t : List Tree) (b : Nat) (h : Ev env sk ssw_stmt (P (c :: r)) (some (Pend, t)) b) :
    Ev env sk ssw_document (P (c :: r)) (some (Pend, t)) (b + 30) := by
  unfold ssw_document
  apply Ev.cast
  · apply ev_seq
    apply evs_cons ev_stringStart
    apply evs_cons (doc_start c r hws hh hnl)
    apply evs_cons (ev_many1 h (evm_stop stmt_stop))
    apply evs_cons ev_stringEnd_end
    exact evs_nil
  · simp
  · omega

/-- a document of two statements -/
theorem doc_two (c : Char) (r : List Char) (hws : isWs c = false) (hh : c ≠ '#') (hnl : c ≠ '\n')
    (p1 : Pos) (hp1 : Pend ≠ p1) (t1 t2 : List Tree) (b1 b2 : Nat)
    (h1 : Ev env sk ssw_stmt (P (c :: r)) (some (p1, t1)) b1)
    (h2 : Ev env sk ssw_stmt p1 (some (Pend, t2)) b2) :
    Ev env sk ssw_document (P (c :: r)) (some (Pend, t1 ++ t2)) (b1 + b2 + 40) := by
  unfold ssw_document
  apply Ev.cast
  · apply ev_seq
    apply evs_cons ev_stringStart
    apply evs_cons (doc_start c r hws hh hnl)
    apply evs_cons (ev_many1 h1 (evm_step h2 hp1 (evm_stop stmt_stop)))
    apply evs_cons ev_stringEnd_end
    exact evs_nil
  · simp
  · omega

/-- a reporter statement followed by anything -/
theorem reporter_ev_rest (a b : List Char) (ha : Dig a) (hb : Dig b) (k : Nat) (rest : List Char) :
    Ev env sk (.alt bodyAlts)
      (P ('r' :: 'e' :: 'p' :: 'o' :: 'r' :: 't' :: 'e' :: 'r' :: '[' :: (a ++ ',' :: (bl k ++ (b ++ ']' :: rest)))))
      (some (P rest, [.tok "reporter", .grp [numT a, numT b]])) 30 := by
  unfold bodyAlts
  apply Ev.cast
  · apply ev_alt
    apply eva_skip (g := ssw_inp) (by fh)
    apply eva_skip (g := ssw_out) (by fh)
    apply eva_skip (g := ssw_seesaw) (by fh)
    apply eva_skip (g := ssw_wireconc) (by fh)
    apply eva_skip (g := ssw_outpconc) (by fh)
    apply eva_skip (g := ssw_thshconc) (by fh)
    apply eva_ok
    unfold ssw_macros
    apply ev_alt; apply eva_ok
    unfold ssw_reporter
    apply ev_seq
    apply evs_cons (ev_lit0 'r' ['e', 'p', 'o', 'r', 't', 'e', 'r'] _ (by decide) (by decide))
    apply evs_cons (ev_suppress (ev_lit0 '[' [] _ (by decide) (by decide)))
    apply evs_cons
    · apply ev_group; apply ev_seq
      apply evs_cons (ev_number0 a ha ',' _ (by decide))
      apply evs_cons (ev_suppress (ev_lit0 ',' [] _ (by decide) (by decide)))
      apply evs_cons (ev_number k b hb ']' _ (by decide))
      exact evs_nil
    apply evs_cons (ev_suppress (ev_lit0 ']' [] _ (by decide) (by decide)))
    exact evs_nil
  · rfl
  · decide

/-! ### identifiers -/

/-- seesaw identifiers: a letter followed by letters / digits / `_` / `-` -/
def Ident (s : List Char) : Prop := ∃ c cs, s = c :: cs ∧ c ∈ pp_alphas ∧ ∀ x ∈ cs, x ∈ pp_alphanums ++ ['_', '-']

theorem alphas_facts : ∀ c ∈ pp_alphas, isWs c = false ∧ c ≠ '#' ∧ c ≠ '\t' ∧ pp_nums.contains c = false ∧
    pp_alphas.contains c = true := by decide

theorem body_facts : ∀ c ∈ pp_alphanums ++ ['_', '-'], c ≠ '\t' ∧ (pp_alphanums ++ ['_', '-']).contains c = true := by
  decide

abbrev nameG : G := .group (.alt [ssw_number, ssw_identifier])

theorem ev_name_number (n : List Char) (hn : Dig n) (r : List Char) :
    Ev env sk nameG (P (n ++ ')' :: r)) (some (P (')' :: r), [.grp [numT n]])) 5 :=
  (ev_group (ev_alt (eva_ok (ev_number0 n hn ')' r (by decide))))).cast rfl (by decide)

theorem ev_name_ident (n : List Char) (hn : Ident n) (r : List Char) :
    Ev env sk nameG (P (n ++ ')' :: r)) (some (P (')' :: r), [.grp [numT n]])) 5 := by
  obtain ⟨c, cs, rfl, hc, hcs⟩ := hn
  obtain ⟨w1, w2, _, w4, w5⟩ := alphas_facts c hc
  have hfail : Ev env sk ssw_number (P (c :: cs ++ ')' :: r)) none 0 := ev_number_fail0 c _ w1 w2 w4
  have hid : Ev env sk ssw_identifier (P (c :: cs ++ ')' :: r)) (some (P (')' :: r), [numT (c :: cs)])) 1 := by
    unfold ssw_identifier
    apply run_word
    · simp only [pre, if_true]
      rw [List.cons_append, skipIgn_cons_of c _ w1 w2]
    · exact w5
    · intro x hx; exact (body_facts x (hcs x hx)).2
    · decide
  exact (ev_group (ev_alt (eva_skip hfail (eva_ok hid)))).cast rfl (by decide)

/-! ### INPUT / OUTPUT with any name and any value -/

theorem inp_ev_gen (n : List Char)
    (hname : ∀ r, Ev env sk nameG (P (n ++ ')' :: r)) (some (P (')' :: r), [.grp [numT n]])) 5)
    (k1 : Nat) (T : List Char) (wt : Tree) (hwire : Ev env sk ssw_wire (P T) (some (P ['\n'], [wt])) 14) :
    Ev env sk (.alt bodyAlts)
      (P ('I' :: 'N' :: 'P' :: 'U' :: 'T' :: '(' :: (n ++ ')' :: (bl k1 ++ '=' :: T))))
      (some (P ['\n'], [.tok "INPUT", .grp [numT n], wt])) 30 := by
  unfold bodyAlts
  apply Ev.cast
  · apply ev_alt; apply eva_ok
    unfold ssw_inp
    apply ev_seq
    apply evs_cons (ev_lit0 'I' ['N', 'P', 'U', 'T'] _ (by decide) (by decide))
    apply evs_cons (ev_suppress (ev_lit0 '(' [] _ (by decide) (by decide)))
    apply evs_cons (hname _)
    apply evs_cons (ev_suppress (ev_lit0 ')' [] _ (by decide) (by decide)))
    apply evs_cons (ev_suppress (ev_lit k1 '=' [] _ (by decide) (by decide)))
    apply evs_cons hwire
    exact evs_nil
  · rfl
  · decide

theorem out_ev_gen (n : List Char)
    (hname : ∀ r, Ev env sk nameG (P (n ++ ')' :: r)) (some (P (')' :: r), [.grp [numT n]])) 5)
    (k1 : Nat) (T : List Char) (vt : Tree)
    (hval : Ev env sk (.alt [ssw_fluor, ssw_wire]) (P T) (some (P ['\n'], [vt])) 20) :
    Ev env sk (.alt bodyAlts)
      (P ('O' :: 'U' :: 'T' :: 'P' :: 'U' :: 'T' :: '(' :: (n ++ ')' :: (bl k1 ++ '=' :: T))))
      (some (P ['\n'], [.tok "OUTPUT", .grp [numT n], vt])) 40 := by
  unfold bodyAlts
  apply Ev.cast
  · apply ev_alt
    apply eva_skip (g := ssw_inp) (by fh)
    apply eva_ok
    unfold ssw_out
    apply ev_seq
    apply evs_cons (ev_lit0 'O' ['U', 'T', 'P', 'U', 'T'] _ (by decide) (by decide))
    apply evs_cons (ev_suppress (ev_lit0 '(' [] _ (by decide) (by decide)))
    apply evs_cons (hname _)
    apply evs_cons (ev_suppress (ev_lit0 ')' [] _ (by decide) (by decide)))
    apply evs_cons (ev_suppress (ev_lit k1 '=' [] _ (by decide) (by decide)))
    apply evs_cons hval
    exact evs_nil
  · rfl
  · decide

theorem ev_fluor_failk (k : Nat) (c : Char) (r : List Char) (hws : isWs c = false) (hh : c ≠ '#') (hne : 'F' ≠ c) :
    Ev env sk ssw_fluor (P (bl k ++ c :: r)) none 3 := by
  unfold ssw_fluor
  exact (ev_group_fail (ev_seq (evs_fail_head (ev_lit_failk k 'F' c _ r hws hh hne)))).cast rfl (by decide)

theorem ev_wire_failk (k : Nat) (c : Char) (r : List Char) (hws : isWs c = false) (hh : c ≠ '#') (hne : 'w' ≠ c) :
    Ev env sk ssw_wire (P (bl k ++ c :: r)) none 3 := by
  unfold ssw_wire
  exact (ev_group_fail (ev_seq (evs_fail_head (ev_lit_failk k 'w' c _ r hws hh hne)))).cast rfl (by decide)

theorem ev_wire_fail0 (c : Char) (r : List Char) (hws : isWs c = false) (hh : c ≠ '#') (hne : 'w' ≠ c) :
    Ev env sk ssw_wire (P (c :: r)) none 3 := by
  simpa using ev_wire_failk (env := env) 0 c r hws hh hne

/-- a wire fails on a digit string -/
theorem ev_wire_fail_dig (n : List Char) (hn : Dig n) (r : List Char) : Ev env sk ssw_wire (P (n ++ r)) none 3 := by
  obtain ⟨d, ds, rfl, hd, _⟩ := hn.cons
  obtain ⟨w1, w2, _⟩ := nums_facts d hd
  have hne : 'w' ≠ d := by
    intro e; subst e; revert hd; decide
  exact ev_wire_fail0 d _ w1 w2 hne

/-- the value of an OUTPUT: a wire (the fluorophore alternative fails at `w`) -/
theorem ev_outval_wire (k k3 : Nat) (a b : List Char) (ha : Dig a) (hb : Dig b) (rest : List Char) :
    Ev env sk (.alt [ssw_fluor, ssw_wire]) (P (bl k ++ ('w' :: '[' :: (a ++ ',' :: (bl k3 ++ (b ++ ']' :: rest))))))
      (some (P rest, [wireT a b])) 20 :=
  (ev_alt (eva_skip (ev_fluor_failk k 'w' _ (by decide) (by decide) (by decide))
    (eva_ok (ev_wire k k3 a b ha hb rest)))).cast rfl (by decide)

/-- a wire `w[a,␣…f]` -/
theorem ev_wire_f (k k3 : Nat) (a : List Char) (ha : Dig a) (rest : List Char) :
    Ev env sk ssw_wire (P (bl k ++ ('w' :: '[' :: (a ++ ',' :: (bl k3 ++ 'f' :: ']' :: rest)))))
      (some (P rest, [.grp [.tok "w", .grp [numT a, .tok "f"]]])) 14 := by
  unfold ssw_wire
  apply Ev.cast
  · apply ev_group; apply ev_seq
    apply evs_cons (ev_lit k 'w' [] _ (by decide) (by decide))
    apply evs_cons (ev_suppress (ev_lit0 '[' [] _ (by decide) (by decide)))
    apply evs_cons
    · apply ev_group; apply ev_seq
      apply evs_cons (ev_number0 a ha ',' _ (by decide))
      apply evs_cons (ev_suppress (ev_lit0 ',' [] _ (by decide) (by decide)))
      apply evs_cons
      · apply ev_alt
        apply eva_skip (ev_number_failk k3 'f' _ (by decide) (by decide) (by decide))
        apply eva_ok
        exact ev_lit k3 'f' [] _ (by decide) (by decide)
      exact evs_nil
    apply evs_cons (ev_suppress (ev_lit0 ']' [] _ (by decide) (by decide)))
    exact evs_nil
  · rfl
  · decide

/-! ### concentration statements -/

/-- the common shape of `wireconc`, `outpconc`, `thshconc` -/
def concG (X : G) : G :=
  .seq [.lit ['c', 'o', 'n', 'c'], .suppress (.lit ['[']), X, .suppress (.lit [',']), ssw_conc, .suppress (.lit [']'])]

theorem wireconc_eq : ssw_wireconc = concG ssw_wire := rfl
theorem outpconc_eq : ssw_outpconc = concG (.alt [ssw_gateO, ssw_gateI]) := rfl
theorem thshconc_eq : ssw_thshconc = concG (.alt [ssw_thshO, ssw_thshI]) := rfl

theorem concG_ok (X : G) (T C rest : List Char) (tx tc : List Tree) (bx bc : Nat)
    (hX : Ev env sk X (P T) (some (P (',' :: C), tx)) bx)
    (hconc : Ev env sk ssw_conc (P C) (some (P (']' :: rest), tc)) bc) :
    Ev env sk (concG X) (P ('c' :: 'o' :: 'n' :: 'c' :: '[' :: T)) (some (P rest, .tok "conc" :: (tx ++ tc)))
      (bx + bc + 10) := by
  unfold concG
  apply Ev.cast
  · apply ev_seq
    apply evs_cons (ev_lit0 'c' ['o', 'n', 'c'] _ (by decide) (by decide))
    apply evs_cons (ev_suppress (ev_lit0 '[' [] _ (by decide) (by decide)))
    apply evs_cons hX
    apply evs_cons (ev_suppress (ev_lit0 ',' [] _ (by decide) (by decide)))
    apply evs_cons hconc
    apply evs_cons (ev_suppress (ev_lit0 ']' [] _ (by decide) (by decide)))
    exact evs_nil
  · simp
  · omega

theorem concG_fail (X : G) (T : List Char) (bx : Nat) (hX : Ev env sk X (P T) none bx) :
    Ev env sk (concG X) (P ('c' :: 'o' :: 'n' :: 'c' :: '[' :: T)) none (bx + 5) := by
  unfold concG
  apply Ev.cast
  · apply ev_seq
    apply evs_fail_tail (ev_lit0 'c' ['o', 'n', 'c'] _ (by decide) (by decide))
    apply evs_fail_tail (ev_suppress (ev_lit0 '[' [] _ (by decide) (by decide)))
    exact evs_fail_head hX
  · rfl
  · omega

/-- the common shape of `gateO`, `gateI`, `thshO`, `thshI` -/
def gateG (l : List Char) (A B : G) : G :=
  .group (.seq [.lit l, .suppress (.lit ['[']), .group (.seq [A, .suppress (.lit [',']), B]), .suppress (.lit [']'])])

theorem gateO_eq : ssw_gateO = gateG ['g'] ssw_wire ssw_number := rfl
theorem gateI_eq : ssw_gateI = gateG ['g'] ssw_number ssw_wire := rfl
theorem thshO_eq : ssw_thshO = gateG ['t', 'h'] ssw_wire ssw_number := rfl
theorem thshI_eq : ssw_thshI = gateG ['t', 'h'] ssw_number ssw_wire := rfl

theorem gateG_ok (c : Char) (s : List Char) (hws : isWs c = false) (hh : c ≠ '#') (A B : G) (T M rest : List Char)
    (ta tb : List Tree) (ba bb : Nat)
    (hA : Ev env sk A (P T) (some (P (',' :: M), ta)) ba)
    (hB : Ev env sk B (P M) (some (P (']' :: rest), tb)) bb) :
    Ev env sk (gateG (c :: s) A B) (P (c :: s ++ '[' :: T))
      (some (P rest, [.grp [.tok (String.ofList (c :: s)), .grp (ta ++ tb)]])) (ba + bb + 12) := by
  unfold gateG
  apply Ev.cast
  · apply ev_group; apply ev_seq
    apply evs_cons (ev_lit0 c s _ hws hh)
    apply evs_cons (ev_suppress (ev_lit0 '[' [] _ (by decide) (by decide)))
    apply evs_cons
    · apply ev_group; apply ev_seq
      apply evs_cons hA
      apply evs_cons (ev_suppress (ev_lit0 ',' [] _ (by decide) (by decide)))
      apply evs_cons hB
      exact evs_nil
    apply evs_cons (ev_suppress (ev_lit0 ']' [] _ (by decide) (by decide)))
    exact evs_nil
  · simp
  · omega

theorem gateG_fail_A (c : Char) (s : List Char) (hws : isWs c = false) (hh : c ≠ '#') (A B : G) (T : List Char)
    (ba : Nat) (hA : Ev env sk A (P T) none ba) :
    Ev env sk (gateG (c :: s) A B) (P (c :: s ++ '[' :: T)) none (ba + 8) := by
  unfold gateG
  apply Ev.cast
  · apply ev_group_fail; apply ev_seq
    apply evs_fail_tail (ev_lit0 c s _ hws hh)
    apply evs_fail_tail (ev_suppress (ev_lit0 '[' [] _ (by decide) (by decide)))
    apply evs_fail_head
    apply ev_group_fail; apply ev_seq
    exact evs_fail_head hA
  · rfl
  · omega

theorem gateG_fail_head (a c : Char) (s : List Char) (A B : G) (r : List Char) (hws : isWs c = false) (hh : c ≠ '#')
    (hne : a ≠ c) : Ev env sk (gateG (a :: s) A B) (P (c :: r)) none 3 :=
  ev_group_fail (fail_head a c s _ r hws hh hne)

/-- `conc[g[w[a,b], n], v*c]` -/
theorem gateO_conc_ev (a b n v : List Char) (ha : Dig a) (hb : Dig b) (hn : Dig n) (hv : Dig v) (k3 k4 k5 : Nat) :
    Ev env sk (.alt bodyAlts)
      (P ('c' :: 'o' :: 'n' :: 'c' :: '[' :: 'g' :: '[' :: 'w' :: '[' :: (a ++ ',' :: (bl k3 ++ (b ++ ']' :: ',' ::
        (bl k4 ++ (n ++ ']' :: ',' :: (bl k5 ++ (v ++ ['*', 'c', ']', '\n'])))))))))
      (some (P ['\n'], [.tok "conc", .grp [.tok "g", .grp [wireT a b, numT n]], numT v])) 80 := by
  have hgate := gateG_ok (env := env) 'g' [] (by decide) (by decide) ssw_wire ssw_number _ _ _ _ _ _ _
    (ev_wire 0 k3 a b ha hb (',' :: (bl k4 ++ (n ++ ']' :: ',' :: (bl k5 ++ (v ++ ['*', 'c', ']', '\n']))))))
    (ev_number k4 n hn ']' _ (by decide))
  have hX : Ev env sk (.alt [ssw_gateO, ssw_gateI]) _ _ _ := ev_alt (eva_ok (g := ssw_gateO) hgate)
  have hok := concG_ok _ _ _ _ _ _ _ _ hX (ev_conc k5 v hv [']', '\n'])
  unfold bodyAlts
  apply Ev.cast
  · apply ev_alt
    apply eva_skip (g := ssw_inp) (by fh)
    apply eva_skip (g := ssw_out) (by fh)
    apply eva_skip (g := ssw_seesaw) (by fh)
    apply eva_skip (g := ssw_wireconc)
      (concG_fail ssw_wire _ _ (ev_wire_fail0 'g' _ (by decide) (by decide) (by decide)))
    apply eva_ok (g := ssw_outpconc)
    exact hok
  · rfl
  · decide

/-- `conc[g[n, w[a,b]], v*c]` -/
theorem gateI_conc_ev (a b n v : List Char) (ha : Dig a) (hb : Dig b) (hn : Dig n) (hv : Dig v) (k3 k4 k5 : Nat) :
    Ev env sk (.alt bodyAlts)
      (P ('c' :: 'o' :: 'n' :: 'c' :: '[' :: 'g' :: '[' :: (n ++ ',' :: (bl k4 ++ ('w' :: '[' :: (a ++ ',' ::
        (bl k3 ++ (b ++ ']' :: ']' :: ',' :: (bl k5 ++ (v ++ ['*', 'c', ']', '\n']))))))))))
      (some (P ['\n'], [.tok "conc", .grp [.tok "g", .grp [numT n, wireT a b]], numT v])) 80 := by
  have hO := gateG_fail_A (env := env) 'g' [] (by decide) (by decide) ssw_wire ssw_number _ _
    (ev_wire_fail_dig n hn (',' :: (bl k4 ++ ('w' :: '[' :: (a ++ ',' ::
        (bl k3 ++ (b ++ ']' :: ']' :: ',' :: (bl k5 ++ (v ++ ['*', 'c', ']', '\n'])))))))))
  have hI := gateG_ok (env := env) 'g' [] (by decide) (by decide) ssw_number ssw_wire _ _ _ _ _ _ _
    (ev_number0 n hn ',' _ (by decide))
    (ev_wire k4 k3 a b ha hb (']' :: ',' :: (bl k5 ++ (v ++ ['*', 'c', ']', '\n']))))
  have hX : Ev env sk (.alt [ssw_gateO, ssw_gateI]) _ _ _ :=
    ev_alt (eva_skip (g := ssw_gateO) hO (eva_ok (g := ssw_gateI) hI))
  have hok := concG_ok _ _ _ _ _ _ _ _ hX (ev_conc k5 v hv [']', '\n'])
  unfold bodyAlts
  apply Ev.cast
  · apply ev_alt
    apply eva_skip (g := ssw_inp) (by fh)
    apply eva_skip (g := ssw_out) (by fh)
    apply eva_skip (g := ssw_seesaw) (by fh)
    apply eva_skip (g := ssw_wireconc)
      (concG_fail ssw_wire _ _ (ev_wire_fail0 'g' _ (by decide) (by decide) (by decide)))
    apply eva_ok (g := ssw_outpconc)
    exact hok
  · rfl
  · decide

/-- `conc[th[w[a,b], n], v*c]` -/
theorem thO_conc_ev (a b n v : List Char) (ha : Dig a) (hb : Dig b) (hn : Dig n) (hv : Dig v) (k3 k4 k5 : Nat) :
    Ev env sk (.alt bodyAlts)
      (P ('c' :: 'o' :: 'n' :: 'c' :: '[' :: 't' :: 'h' :: '[' :: 'w' :: '[' :: (a ++ ',' :: (bl k3 ++ (b ++ ']' ::
        ',' :: (bl k4 ++ (n ++ ']' :: ',' :: (bl k5 ++ (v ++ ['*', 'c', ']', '\n'])))))))))
      (some (P ['\n'], [.tok "conc", .grp [.tok "th", .grp [wireT a b, numT n]], numT v])) 80 := by
  have hgate := gateG_ok (env := env) 't' ['h'] (by decide) (by decide) ssw_wire ssw_number _ _ _ _ _ _ _
    (ev_wire 0 k3 a b ha hb (',' :: (bl k4 ++ (n ++ ']' :: ',' :: (bl k5 ++ (v ++ ['*', 'c', ']', '\n']))))))
    (ev_number k4 n hn ']' _ (by decide))
  have hX : Ev env sk (.alt [ssw_thshO, ssw_thshI]) _ _ _ := ev_alt (eva_ok (g := ssw_thshO) hgate)
  have hok := concG_ok _ _ _ _ _ _ _ _ hX (ev_conc k5 v hv [']', '\n'])
  unfold bodyAlts
  apply Ev.cast
  · apply ev_alt
    apply eva_skip (g := ssw_inp) (by fh)
    apply eva_skip (g := ssw_out) (by fh)
    apply eva_skip (g := ssw_seesaw) (by fh)
    apply eva_skip (g := ssw_wireconc)
      (concG_fail ssw_wire _ _ (ev_wire_fail0 't' _ (by decide) (by decide) (by decide)))
    apply eva_skip (g := ssw_outpconc)
      (concG_fail (.alt [ssw_gateO, ssw_gateI]) _ _
        (ev_alt (eva_skip (g := ssw_gateO)
          (gateG_fail_head 'g' 't' [] ssw_wire ssw_number _ (by decide) (by decide) (by decide))
          (eva_skip (g := ssw_gateI)
            (gateG_fail_head 'g' 't' [] ssw_number ssw_wire _ (by decide) (by decide) (by decide)) eva_nil))))
    apply eva_ok (g := ssw_thshconc)
    exact hok
  · rfl
  · decide

/-! ### decimal numbers -/

theorem flatToks_toks (ss : List String) (f : Nat) (h : ss.length ≤ f) : flatToks f (ss.map .tok) = ss := by
  induction ss generalizing f with
  | nil => cases f <;> simp [flatToks]
  | cons x xs ih =>
    obtain ⟨f', rfl⟩ : ∃ f', f = f' + 1 := ⟨f - 1, by simp at h; omega⟩
    simp only [List.map_cons, flatToks]
    rw [ih f' (by simp at h; omega)]

/-- `Combine` joins the tokens of its body -/
theorem ev_combine_toks {ctx : Ctx} {g : G} {p p1 : Pos} {b : Nat} (ss : List String)
    (h : Ev env nsk g (pre ctx p) (some (p1, ss.map .tok)) b) (hb : ss.length ≤ b + 1) :
    Ev env ctx (.combine g) p (some (p1, [.tok (String.join ss)])) (b + 1) := by
  intro fuel hf
  obtain ⟨f, rfl⟩ : ∃ f, fuel = f + 1 := ⟨fuel - 1, by omega⟩
  simp only [run, h f (by omega)]
  rw [flatToks_toks ss (f + 1) (by omega)]

/-- `gorf` on `v.w`: the scientific alternative consumes `v.w` and fails at `e`; the float alternative takes `v.w` -/
theorem ev_gorf_dec (k : Nat) (v w : List Char) (hv : Dig v) (hw : Dig w) (c : Char) (r : List Char)
    (hc : pp_nums.contains c = false) (he : 'e' ≠ c) :
    Ev env sk ssw_gorf (P (bl k ++ (v ++ '.' :: (w ++ c :: r))))
      (some (P (c :: r), [numT (v ++ '.' :: w)])) 14 := by
  have hnum := ev_number_nsk (env := env) v hv '.' (w ++ c :: r) (by decide)
  have hopt : Ev env nsk (.opt (.seq [.lit ['.'], ssw_number])) (P ('.' :: (w ++ c :: r)))
      (some (P (c :: r), [.tok ".", numT w])) 5 := by
    apply Ev.cast
    · apply ev_opt_some; apply ev_seq
      apply evs_cons (ev_lit_nsk ['.'] _)
      apply evs_cons (ev_number_nsk w hw c r hc)
      exact evs_nil
    · rfl
    · decide
  have hpre := pre_blanks_dig k v hv ('.' :: (w ++ c :: r))
  have hsci : Ev env sk ssw_num_sci (P (bl k ++ (v ++ '.' :: (w ++ c :: r)))) none 10 := by
    unfold ssw_num_sci
    apply Ev.cast
    · apply ev_combine_fail
      rw [hpre]
      apply ev_seq
      apply evs_fail_tail hnum
      apply evs_fail_tail hopt
      exact evs_fail_head (ev_lit_fail 'e' c [] r (by rw [pre_nsk]) he)
    · rfl
    · decide
  have hflt : Ev env sk ssw_num_flt (P (bl k ++ (v ++ '.' :: (w ++ c :: r))))
      (some (P (c :: r), [numT (v ++ '.' :: w)])) 10 := by
    unfold ssw_num_flt
    have hin : Ev env nsk (.seq [ssw_number, .opt (.seq [.lit ['.'], ssw_number])]) (P (v ++ '.' :: (w ++ c :: r)))
        (some (P (c :: r), [String.ofList v, ".", String.ofList w].map .tok)) 8 :=
      (ev_seq (evs_cons hnum (evs_cons hopt evs_nil))).cast rfl (by decide)
    have hcomb := ev_combine_toks (env := env) (ctx := sk) (p := P (bl k ++ (v ++ '.' :: (w ++ c :: r))))
      [String.ofList v, ".", String.ofList w] (by rw [hpre]; exact hin) (by simp)
    refine hcomb.cast ?_ (by decide)
    have : String.join [String.ofList v, ".", String.ofList w] = String.ofList (v ++ '.' :: w) := by
      simp [String.join, String.append_assoc]
    rw [this]
  unfold ssw_gorf
  exact (ev_alt (eva_skip hsci (eva_ok hflt))).cast rfl (by decide)

theorem ev_conc_of_gorf (C rest : List Char) (tg : List Tree) (bg : Nat)
    (hg : Ev env sk ssw_gorf (P C) (some (P ('*' :: 'c' :: rest), tg)) bg) :
    Ev env sk ssw_conc (P C) (some (P rest, tg)) (bg + 8) := by
  unfold ssw_conc
  apply Ev.cast
  · apply ev_seq
    apply evs_cons hg
    apply evs_cons
    · apply ev_suppress; apply ev_seq
      apply evs_cons (ev_lit0 '*' [] _ (by decide) (by decide))
      apply evs_cons (ev_lit0 'c' [] _ (by decide) (by decide))
      exact evs_nil
    exact evs_nil
  · simp
  · omega

theorem wireconc_dec_ev (a b v w : List Char) (ha : Dig a) (hb : Dig b) (hv : Dig v) (hw : Dig w) (k3 k : Nat) :
    Ev env sk (.alt bodyAlts)
      (P ('c' :: 'o' :: 'n' :: 'c' :: '[' :: 'w' :: '[' :: (a ++ ',' :: (bl k3 ++ (b ++ ']' :: ',' ::
        (bl k ++ (v ++ '.' :: (w ++ ['*', 'c', ']', '\n']))))))))
      (some (P ['\n'], [.tok "conc", wireT a b, numT (v ++ '.' :: w)])) 80 := by
  have hconc := ev_conc_of_gorf (env := env) _ [']', '\n'] _ _
    (ev_gorf_dec k v w hv hw '*' ['c', ']', '\n'] (by decide) (by decide))
  have hok : Ev env sk ssw_wireconc _ _ _ := concG_ok ssw_wire _ _ _ _ _ _ _
    (ev_wire 0 k3 a b ha hb (',' :: (bl k ++ (v ++ '.' :: (w ++ ['*', 'c', ']', '\n']))))) hconc
  unfold bodyAlts
  apply Ev.cast
  · apply ev_alt
    apply eva_skip (g := ssw_inp) (by fh)
    apply eva_skip (g := ssw_out) (by fh)
    apply eva_skip (g := ssw_seesaw) (by fh)
    apply eva_ok
    exact hok
  · rfl
  · decide

/-! ### the two-list macros -/

/-- the common shape of `seesawOR` and `seesawAND` -/
def twoListG (l : List Char) : G :=
  .seq [.lit l, .suppress (.lit ['[']), .group (.seq [ssw_number, .suppress (.lit [',']), ssw_number,
    .suppress (.lit [',']), ssw_inputs, .suppress (.lit [',']), ssw_inputs]), .suppress (.lit [']'])]

theorem seesawOR_eq : ssw_seesawOR = twoListG ['s', 'e', 'e', 's', 'a', 'w', 'O', 'R'] := rfl
theorem seesawAND_eq : ssw_seesawAND = twoListG ['s', 'e', 'e', 's', 'a', 'w', 'A', 'N', 'D'] := rfl

theorem twoList_ok (c : Char) (s : List Char) (hws : isWs c = false) (hh : c ≠ '#') (a b x0 y0 : List Char)
    (xs ys : List (List Char)) (ha : Dig a) (hb : Dig b) (hx0 : Dig x0) (hy0 : Dig y0) (hxs : ∀ y ∈ xs, Dig y)
    (hys : ∀ y ∈ ys, Dig y) (k1 k2 k3 : Nat) (rest : List Char) :
    Ev env sk (twoListG (c :: s))
      (P (c :: s ++ '[' :: (a ++ ',' :: (bl k1 ++ (b ++ ',' :: (bl k2 ++ '{' :: (x0 ++ (tailR xs ++ '}' :: ',' ::
        (bl k3 ++ '{' :: (y0 ++ (tailR ys ++ '}' :: ']' :: rest)))))))))))
      (some (P rest, [.tok (String.ofList (c :: s)),
        .grp [numT a, numT b, .grp ((x0 :: xs).map numT), .grp ((y0 :: ys).map numT)]]))
      (xs.length + ys.length + 40) := by
  unfold twoListG
  apply Ev.cast
  · apply ev_seq
    apply evs_cons (ev_lit0 c s _ hws hh)
    apply evs_cons (ev_suppress (ev_lit0 '[' [] _ (by decide) (by decide)))
    apply evs_cons
    · apply ev_group; apply ev_seq
      apply evs_cons (ev_number0 a ha ',' _ (by decide))
      apply evs_cons (ev_suppress (ev_lit0 ',' [] _ (by decide) (by decide)))
      apply evs_cons (ev_number k1 b hb ',' _ (by decide))
      apply evs_cons (ev_suppress (ev_lit0 ',' [] _ (by decide) (by decide)))
      apply evs_cons (ev_inputs k2 x0 xs hx0 hxs _)
      apply evs_cons (ev_suppress (ev_lit0 ',' [] _ (by decide) (by decide)))
      apply evs_cons (ev_inputs k3 y0 ys hy0 hys _)
      exact evs_nil
    apply evs_cons (ev_suppress (ev_lit0 ']' [] _ (by decide) (by decide)))
    exact evs_nil
  · rfl
  · omega

/-- the `seesaw` alternative on `seesawX…`: the keyword matches, the bracket does not -/
theorem seesaw_fail_suffix (c : Char) (r : List Char) (hws : isWs c = false) (hh : c ≠ '#') (hne : '[' ≠ c) :
    Ev env sk ssw_seesaw (P ('s' :: 'e' :: 'e' :: 's' :: 'a' :: 'w' :: c :: r)) none 5 := by
  unfold ssw_seesaw
  apply Ev.cast
  · apply ev_seq
    apply evs_fail_tail (ev_lit0 's' ['e', 'e', 's', 'a', 'w'] _ (by decide) (by decide))
    exact evs_fail_head (ev_suppress_fail (ev_lit_fail0 '[' c [] r hws hh hne))
  · rfl
  · decide

/-- a sequence that starts with a literal fails when the literal is not a prefix of the text -/
theorem fail_strip (s : List Char) (gs : List G) (c : Char) (r : List Char) (hws : isWs c = false) (hh : c ≠ '#')
    (h : stripPrefix s (c :: r) = none) : Ev env sk (.seq (.lit s :: gs)) (P (c :: r)) none 2 :=
  (ev_seq (evs_fail_head (ev_lit_fail_strip0 s c r hws hh h))).cast rfl (by decide)

theorem seesawOR_ev (a b x0 y0 : List Char) (xs ys : List (List Char)) (ha : Dig a) (hb : Dig b) (hx0 : Dig x0)
    (hy0 : Dig y0) (hxs : ∀ y ∈ xs, Dig y) (hys : ∀ y ∈ ys, Dig y) (k1 k2 k3 : Nat) :
    Ev env sk (.alt bodyAlts)
      (P ('s' :: 'e' :: 'e' :: 's' :: 'a' :: 'w' :: 'O' :: 'R' :: '[' :: (a ++ ',' :: (bl k1 ++ (b ++ ',' ::
        (bl k2 ++ '{' :: (x0 ++ (tailR xs ++ '}' :: ',' :: (bl k3 ++ '{' :: (y0 ++ (tailR ys ++
          ['}', ']', '\n'])))))))))))
      (some (P ['\n'], [.tok "seesawOR",
        .grp [numT a, numT b, .grp ((x0 :: xs).map numT), .grp ((y0 :: ys).map numT)]]))
      (xs.length + ys.length + 60) := by
  have hok := twoList_ok (env := env) 's' ['e', 'e', 's', 'a', 'w', 'O', 'R'] (by decide) (by decide)
    a b x0 y0 xs ys ha hb hx0 hy0 hxs hys k1 k2 k3 ['\n']
  unfold bodyAlts
  apply Ev.cast
  · apply ev_alt
    apply eva_skip (g := ssw_inp) (by fh)
    apply eva_skip (g := ssw_out) (by fh)
    apply eva_skip (seesaw_fail_suffix 'O' _ (by decide) (by decide) (by decide))
    apply eva_skip (g := ssw_wireconc) (by fh)
    apply eva_skip (g := ssw_outpconc) (by fh)
    apply eva_skip (g := ssw_thshconc) (by fh)
    apply eva_ok
    unfold ssw_macros
    apply ev_alt
    apply eva_skip (g := ssw_reporter) (by fh)
    apply eva_skip (g := ssw_inputfanout) (by fh)
    apply eva_ok (g := ssw_seesawOR)
    exact hok
  · rfl
  · omega

theorem seesawAND_ev (a b x0 y0 : List Char) (xs ys : List (List Char)) (ha : Dig a) (hb : Dig b) (hx0 : Dig x0)
    (hy0 : Dig y0) (hxs : ∀ y ∈ xs, Dig y) (hys : ∀ y ∈ ys, Dig y) (k1 k2 k3 : Nat) :
    Ev env sk (.alt bodyAlts)
      (P ('s' :: 'e' :: 'e' :: 's' :: 'a' :: 'w' :: 'A' :: 'N' :: 'D' :: '[' :: (a ++ ',' :: (bl k1 ++ (b ++ ',' ::
        (bl k2 ++ '{' :: (x0 ++ (tailR xs ++ '}' :: ',' :: (bl k3 ++ '{' :: (y0 ++ (tailR ys ++
          ['}', ']', '\n'])))))))))))
      (some (P ['\n'], [.tok "seesawAND",
        .grp [numT a, numT b, .grp ((x0 :: xs).map numT), .grp ((y0 :: ys).map numT)]]))
      (xs.length + ys.length + 60) := by
  have hok := twoList_ok (env := env) 's' ['e', 'e', 's', 'a', 'w', 'A', 'N', 'D'] (by decide) (by decide)
    a b x0 y0 xs ys ha hb hx0 hy0 hxs hys k1 k2 k3 ['\n']
  unfold bodyAlts
  apply Ev.cast
  · apply ev_alt
    apply eva_skip (g := ssw_inp) (by fh)
    apply eva_skip (g := ssw_out) (by fh)
    apply eva_skip (seesaw_fail_suffix 'A' _ (by decide) (by decide) (by decide))
    apply eva_skip (g := ssw_wireconc) (by fh)
    apply eva_skip (g := ssw_outpconc) (by fh)
    apply eva_skip (g := ssw_thshconc) (by fh)
    apply eva_ok
    unfold ssw_macros
    apply ev_alt
    apply eva_skip (g := ssw_reporter) (by fh)
    apply eva_skip (g := ssw_inputfanout) (by fh)
    apply eva_skip (g := ssw_seesawOR) (fail_strip _ _ 's' _ (by decide) (by decide) rfl)
    apply eva_ok (g := ssw_seesawAND)
    exact hok
  · rfl
  · omega

/-- a seesaw gate with one list only: every alternative fails -/
theorem seesaw_missing_fail (n i0 : List Char) (is : List (List Char)) (hn : Dig n) (hi0 : Dig i0)
    (his : ∀ y ∈ is, Dig y) (k1 : Nat) (r : List Char) :
    Ev env sk (.alt bodyAlts)
      (P ('s' :: 'e' :: 'e' :: 's' :: 'a' :: 'w' :: '[' :: (n ++ ',' :: (bl k1 ++ '{' :: (i0 ++ (tailR is ++
        '}' :: ']' :: r))))))
      none (is.length + 60) := by
  unfold bodyAlts
  apply Ev.cast
  · apply ev_alt
    apply eva_skip (g := ssw_inp) (by fh)
    apply eva_skip (g := ssw_out) (by fh)
    apply eva_skip
    · unfold ssw_seesaw
      apply ev_seq
      apply evs_fail_tail (ev_lit0 's' ['e', 'e', 's', 'a', 'w'] _ (by decide) (by decide))
      apply evs_fail_tail (ev_suppress (ev_lit0 '[' [] _ (by decide) (by decide)))
      apply evs_fail_head
      apply ev_group_fail; apply ev_seq
      apply evs_fail_tail (ev_number0 n hn ',' _ (by decide))
      apply evs_fail_tail (ev_suppress (ev_lit0 ',' [] _ (by decide) (by decide)))
      apply evs_fail_tail (ev_inputs k1 i0 is hi0 his _)
      exact evs_fail_head (ev_suppress_fail (ev_lit_fail0 ',' ']' [] r (by decide) (by decide) (by decide)))
    apply eva_skip (g := ssw_wireconc) (by fh)
    apply eva_skip (g := ssw_outpconc) (by fh)
    apply eva_skip (g := ssw_thshconc) (by fh)
    apply eva_skip
    · unfold ssw_macros
      apply ev_alt
      apply eva_skip (g := ssw_reporter) (by fh)
      apply eva_skip (g := ssw_inputfanout) (by fh)
      apply eva_skip (g := ssw_seesawOR) (fail_strip _ _ 's' _ (by decide) (by decide) rfl)
      apply eva_skip (g := ssw_seesawAND) (fail_strip _ _ 's' _ (by decide) (by decide) rfl)
      exact eva_nil
    exact eva_nil
  · rfl
  · omega

end Dsd.PP.Ssw
