/-
Declared systems as TEXT, continued: resting macrostates and reactions in the simplest layout, and the proof that the
PIL parser turns the rendered system into exactly the token trees the reader theorems `read_macrostates_sigma` /
`read_reactions_sigma` are stated on.
-/
import DsdVerif.Lemmas.TextSigma
import DsdVerif.Lemmas.ReaderSigmaRxnAttr

namespace Dsd.TextSig
open Dsd Dsd.PP Dsd.Gen
open Dsd.C13 (blanks Ident Digits Letters commaSep plusSep tokOf Stmt stmtsText)
open Dsd.Pil (StmtText)

/-! ### resting macrostates -/

/-- `state M = [c1, c2]` -/
def renderMacro (M : Sig.MDecl) : List Char :=
  "state ".toList ++ M.name.toList ++ " = [".toList ++ commaSep (M.members.map String.toList) ++ [']']

def MacroText (M : Sig.MDecl) : Prop :=
  Ident M.name.toList ∧ M.members ≠ [] ∧ ∀ m ∈ M.members, Ident m.toList

theorem stmtText_macro (M : Sig.MDecl) (h : MacroText M) :
    StmtText (renderMacro M) (.grp (Sig.macroLine M.name M.members)) := by
  obtain ⟨hn, hne, hm⟩ := h
  have kl : "state ".toList = "state".toList ++ [' '] := by rfl
  have ke : " = [".toList = [' ', '=', ' ', '['] := by rfl
  have e1 : "state".toList ++ blanks (0 + 1) ++ M.name.toList ++ blanks 1 ++ ['='] ++ blanks 1 ++ ['['] ++
      commaSep (M.members.map String.toList) ++ [']'] ++ blanks 0 = renderMacro M := by
    unfold renderMacro; rw [kl, ke]; simp [blanks, List.append_assoc]
  have e2 : (Tree.grp [.tok "resting-macrostate", tokOf M.name.toList, .grp ((M.members.map String.toList).map tokOf)]) =
      .grp (Sig.macroLine M.name M.members) := by
    rw [map_tokOf_toList]; simp [tokOf, Sig.macroLine, String.ofList_toList]
  rw [← e1, ← e2]
  exact C13.stmtText_resting _ (Or.inl rfl) M.name.toList (M.members.map String.toList) hn
    ⟨by simpa using hne, by
      intro d hd'
      obtain ⟨n, hn', rfl⟩ := List.mem_map.mp hd'
      exact hm n hn'⟩ 0 1 1 0

/-! ### reactions -/

/-- a reaction as written: type, integer rate, concentration units, time unit, reactants, products -/
structure RText where
  ty : String
  rate : String
  cunits : List String
  tu : String
  reactants : List String
  products : List String

def RText.unitChars (R : RText) : List Char :=
  (R.cunits.map (fun u => '/' :: u.toList)).flatten ++ ['/'] ++ R.tu.toList

/-- the declaration the reader theorems speak about -/
def RText.decl (R : RText) : Sig.RDecl :=
  { ty := R.ty, rate := R.rate, units := String.ofList R.unitChars, reactants := R.reactants, products := R.products }

/-- `reaction [ty = rate /M/s] r1 + r2 -> p1` -/
def renderRxn (R : RText) : List Char :=
  "reaction [".toList ++ R.ty.toList ++ " = ".toList ++ R.rate.toList ++ [' '] ++ R.unitChars ++ "] ".toList ++
    plusSep (R.reactants.map String.toList) ++ " -> ".toList ++ plusSep (R.products.map String.toList)

def RxnText (R : RText) : Prop :=
  Letters R.ty.toList ∧ Digits R.rate.toList ∧
  (∀ u ∈ R.cunits, u = "M" ∨ u = "mM" ∨ u = "uM" ∨ u = "nM" ∨ u = "pM") ∧
  (R.tu = "s" ∨ R.tu = "m" ∨ R.tu = "h") ∧
  (R.reactants ≠ [] ∧ ∀ r ∈ R.reactants, Ident r.toList) ∧ (R.products ≠ [] ∧ ∀ p ∈ R.products, Ident p.toList)

theorem stmtText_rxn (R : RText) (h : RxnText R) :
    StmtText (renderRxn R)
      (.grp (Sig.rxnLine R.ty R.rate (String.ofList R.unitChars) R.reactants R.products)) := by
  obtain ⟨hty, hrate, hcu, htu, ⟨hr1, hr2⟩, ⟨hp1, hp2⟩⟩ := h
  have hmapu : (R.cunits.map String.toList).map (fun u => '/' :: u) = R.cunits.map (fun u => '/' :: u.toList) := by
    rw [List.map_map]; rfl
  have e1 : "reaction [".toList ++ R.ty.toList ++ " = ".toList ++ R.rate.toList ++ [' '] ++
      ((R.cunits.map String.toList).map (fun u => '/' :: u)).flatten ++ ['/'] ++ R.tu.toList ++ "] ".toList ++
      plusSep (R.reactants.map String.toList) ++ " -> ".toList ++ plusSep (R.products.map String.toList) = renderRxn R := by
    unfold renderRxn RText.unitChars; rw [hmapu]; simp [List.append_assoc]
  have e2 : (Tree.grp [.tok "reaction",
      .grp [.grp [tokOf R.ty.toList], .grp [tokOf R.rate.toList],
        .grp [tokOf (((R.cunits.map String.toList).map (fun u => '/' :: u)).flatten ++ ['/'] ++ R.tu.toList)]],
      .grp ((R.reactants.map String.toList).map tokOf), .grp ((R.products.map String.toList).map tokOf)]) =
      .grp (Sig.rxnLine R.ty R.rate (String.ofList R.unitChars) R.reactants R.products) := by
    rw [map_tokOf_toList, map_tokOf_toList, hmapu]
    simp [tokOf, Sig.rxnLine, RText.unitChars, String.ofList_toList]
  rw [← e1, ← e2]
  refine C13.stmtText_reaction_info R.ty.toList R.rate.toList (R.cunits.map String.toList) R.tu.toList
    (R.reactants.map String.toList) (R.products.map String.toList) hty hrate ?_ ?_ ?_ ?_
  · intro u hu
    obtain ⟨v, hv, rfl⟩ := List.mem_map.mp hu
    rcases hcu v hv with rfl | rfl | rfl | rfl | rfl
    · exact Or.inl rfl
    · exact Or.inr (Or.inl rfl)
    · exact Or.inr (Or.inr (Or.inl rfl))
    · exact Or.inr (Or.inr (Or.inr (Or.inl rfl)))
    · exact Or.inr (Or.inr (Or.inr (Or.inr rfl)))
  · rcases htu with h | h | h <;> rw [h]
    · exact Or.inl rfl
    · exact Or.inr (Or.inl rfl)
    · exact Or.inr (Or.inr rfl)
  · exact ⟨by simpa using hr1, by
      intro d hd'
      obtain ⟨n, hn', rfl⟩ := List.mem_map.mp hd'
      exact hr2 n hn'⟩
  · exact ⟨by simpa using hp1, by
      intro d hd'
      obtain ⟨n, hn', rfl⟩ := List.mem_map.mp hd'
      exact hp2 n hn'⟩

/-- `reaction r1 + r2 -> p1` — no info box: the reader ignores it -/
def renderPlain (rs ps : List String) : List Char :=
  "reaction ".toList ++ plusSep (rs.map String.toList) ++ " -> ".toList ++ plusSep (ps.map String.toList)

theorem stmtText_plain (rs ps : List String) (hr : rs ≠ [] ∧ ∀ r ∈ rs, Ident r.toList)
    (hp : ps ≠ [] ∧ ∀ p ∈ ps, Ident p.toList) :
    StmtText (renderPlain rs ps) (.grp [.tok "reaction", .grp [], .grp (rs.map Tree.tok), .grp (ps.map Tree.tok)]) := by
  have kl : "reaction ".toList = "reaction".toList ++ [' '] := by rfl
  have e1 : "reaction".toList ++ blanks (0 + 1) ++ plusSep (rs.map String.toList) ++ " -> ".toList ++
      plusSep (ps.map String.toList) = renderPlain rs ps := by
    unfold renderPlain; rw [kl]; simp [blanks, List.append_assoc]
  rw [← e1, ← map_tokOf_toList rs, ← map_tokOf_toList ps]
  exact C13.stmtText_reaction_plain _ (Or.inl rfl) (rs.map String.toList) (ps.map String.toList)
    ⟨by simpa using hr.1, by
      intro d hd'
      obtain ⟨n, hn', rfl⟩ := List.mem_map.mp hd'
      exact hr.2 n hn'⟩
    ⟨by simpa using hp.1, by
      intro d hd'
      obtain ⟨n, hn', rfl⟩ := List.mem_map.mp hd'
      exact hp.2 n hn'⟩ 0

/-- a `reaction` line of the text: a declared reaction, one without info box, or one whose type the reader does not
    know (both ignored by the reader) -/
inductive RTLine
  | decl (R : RText)
  | plain (rs ps : List String)
  | unk (R : RText)

def RTLine.line : RTLine → Sig.RLine
  | .decl R => .decl R.decl
  | .plain rs ps => .ign [] (rs.map Tree.tok) (ps.map Tree.tok)
  | .unk R => .ign [.grp [.tok R.ty], .grp [.tok R.rate], .grp [.tok (String.ofList R.unitChars)]]
      (R.reactants.map Tree.tok) (R.products.map Tree.tok)

def renderRLine : RTLine → List Char
  | .decl R => renderRxn R
  | .plain rs ps => renderPlain rs ps
  | .unk R => renderRxn R

def RLineText : RTLine → Prop
  | .decl R => RxnText R
  | .plain rs ps => (rs ≠ [] ∧ ∀ r ∈ rs, Ident r.toList) ∧ (ps ≠ [] ∧ ∀ p ∈ ps, Ident p.toList)
  | .unk R => RxnText R

theorem stmtText_rline (ln : RTLine) (h : RLineText ln) : StmtText (renderRLine ln) ln.line.tree := by
  cases ln with
  | decl R => exact stmtText_rxn R h
  | plain rs ps => exact stmtText_plain rs ps h.1 h.2
  | unk R => exact stmtText_rxn R h

/-! ### systems -/

def items6 (ds : List Sig.Decl) (ss : List Sig.SDecl) (cds : List Sig.CDecl) (kds : List KText)
    (MS : List Sig.MDecl) (L : List RTLine) : List Stmt :=
  items ds ss cds kds ++
    (MS.map (fun M => (renderMacro M, Tree.grp (Sig.macroLine M.name M.members), 0)) ++
      L.map (fun ln => (renderRLine ln, ln.line.tree, 0)))

/-- **the canonical text of a full declared system**: one statement per line -/
def renderSys6 (ds : List Sig.Decl) (ss : List Sig.SDecl) (cds : List Sig.CDecl) (kds : List KText)
    (MS : List Sig.MDecl) (L : List RTLine) : String :=
  String.ofList (stmtsText (items6 ds ss cds kds MS L))

structure TextSys6 (ds : List Sig.Decl) (ss : List Sig.SDecl) (cds : List Sig.CDecl) (kds : List KText)
    (MS : List Sig.MDecl) (L : List RTLine) : Prop where
  lower : TextSys ds ss cds kds
  macros : ∀ M ∈ MS, MacroText M
  rxns : ∀ ln ∈ L, RLineText ln

/-- **the rendered full system parses to the reader theorems' document** -/
theorem render_parses6 (ds : List Sig.Decl) (ss : List Sig.SDecl) (cds : List Sig.CDecl) (kds : List KText)
    (MS : List Sig.MDecl) (L : List RTLine) (h : TextSys6 ds ss cds kds MS L) (hne : items6 ds ss cds kds MS L ≠ []) :
    parseDoc pil_env pil_grammar (renderSys6 ds ss cds kds MS L) =
      some (Sig.doc ds ++ (Sig.sdoc ss ++ (Sig.cdoc cds ++ (Sig.kdoc (kds.map KText.decl) ++
        (Sig.mdoc MS ++ Sig.rdoc (L.map RTLine.line)))))) := by
  have hall : ∀ x ∈ items6 ds ss cds kds MS L, StmtText x.1 x.2.1 := by
    intro x hx
    simp only [items6, items, List.mem_append, List.mem_map] at hx
    rcases hx with (⟨d, hd, rfl⟩ | ⟨p, hp, rfl⟩ | ⟨c, hc, rfl⟩ | ⟨k, hk, rfl⟩) | ⟨M, hM, rfl⟩ | ⟨ln, hl, rfl⟩
    · exact stmtText_decl d (h.lower.decls d hd)
    · exact stmtText_strand p (h.lower.strands p hp)
    · exact stmtText_cplx c (h.lower.cplxs c hc)
    · exact stmtText_kern k (h.lower.kerns k hk)
    · exact stmtText_macro M (h.macros M hM)
    · exact stmtText_rline ln (h.rxns ln hl)
  have := C13.document_rt (items6 ds ss cds kds MS L) hne hall
  unfold renderSys6 stmtsText
  rw [this]
  simp [items6, items, Sig.doc, Sig.sdoc, Sig.cdoc, Sig.kdoc, Sig.mdoc, Sig.rdoc, Function.comp_def, List.append_assoc]

end Dsd.TextSig
