/-
General rejection theorems for the PIL grammar (C13), from parse soundness (`PP.Yield`): the kernel lines of an
accepted document were read from well-nested text; a kernel statement with unbalanced parentheses is rejected.
-/
import DsdVerif.Lemmas.PilYield
import DsdVerif.Lemmas.PPRunEv

namespace Dsd.PP
open Dsd Dsd.Gen

/-! ### which alternative produced a kernel line -/

theorem tagged_first {env : Env} (T : String) (L : List G) {ts : List Tree}
    (h : Shape env (.group (.tag T (.seq L))) ts) : ∃ l, ts = [.grp (.tok T :: l)] := by
  obtain ⟨t, rfl, h1⟩ := h.group_inv
  obtain ⟨t', rfl, _⟩ := h1.tag_inv
  exact ⟨t', rfl⟩

/-- a statement that returns a `kernel-complex` line is a kernel statement -/
theorem stmt_kernel_is_cplx {skip : Bool} {inp rest : List Char} {ts : List Tree}
    (h : Yield pil_env skip pil_stmt inp rest ts) (line : Tree) (hl : line ∈ ts) (l : List Tree)
    (hk : line = .grp (.tok "kernel-complex" :: l)) : Yield pil_env skip pil_cplx inp rest ts := by
  unfold pil_stmt at h
  obtain ⟨g, hg, hs⟩ := h.alt_inv
  -- every other alternative carries another tag
  have other : ∀ (T : String) (L : List G), T ≠ "kernel-complex" → Shape pil_env (.group (.tag T (.seq L))) ts → False := by
    intro T L hT hsh
    obtain ⟨l', e⟩ := tagged_first T L hsh
    rw [e] at hl
    simp only [List.mem_cons, List.not_mem_nil, or_false] at hl
    rw [hk] at hl
    simp only [Tree.grp.injEq, List.cons.injEq, Tree.tok.injEq] at hl
    exact hT hl.1.symm
  simp only [List.mem_cons, List.not_mem_nil, or_false] at hg
  rcases hg with rfl | rfl | rfl | rfl | rfl | rfl | rfl | rfl
  · exfalso; unfold pil_sl_domain at hs; exact other _ _ (by decide) hs.shape
  · exfalso
    unfold pil_dl_domain at hs
    obtain ⟨g, hg, hs'⟩ := hs.alt_inv
    simp only [List.mem_cons, List.not_mem_nil, or_false] at hg
    rcases hg with rfl | rfl | rfl <;> exact other _ _ (by decide) hs'.shape
  · exfalso; unfold pil_comp_domain at hs; exact other _ _ (by decide) hs.shape
  · exfalso; unfold pil_strand at hs; exact other _ _ (by decide) hs.shape
  · exfalso
    unfold pil_strandcomplex at hs
    obtain ⟨g, hg, hs'⟩ := hs.alt_inv
    simp only [List.mem_cons, List.not_mem_nil, or_false] at hg
    rcases hg with rfl | rfl <;> exact other _ _ (by decide) hs'.shape
  · exfalso
    unfold pil_reaction at hs
    obtain ⟨g, hg, hs'⟩ := hs.alt_inv
    simp only [List.mem_cons, List.not_mem_nil, or_false] at hg
    rcases hg with rfl | rfl <;> exact other _ _ (by decide) hs'.shape
  · exact hs
  · exfalso
    unfold pil_restingset at hs
    obtain ⟨g, hg, hs'⟩ := hs.alt_inv
    simp only [List.mem_cons, List.not_mem_nil, or_false] at hg
    rcases hg with rfl | rfl <;> exact other _ _ (by decide) hs'.shape

/-- every tree of a repetition comes from one of its elements, which ran on a suffix of the input -/
theorem YieldMany.elem {env : Env} : ∀ {skip : Bool} {g : G} {inp rest : List Char} {ts : List Tree},
    YieldMany env skip g inp rest ts → ∀ line ∈ ts, ∃ pre i r t, inp = pre ++ i ∧ Yield env skip g i r t ∧ line ∈ t
  | _, _, _, _, _, .nil _ _ _, line, hl => by simp at hl
  | _, _, _, _, _, .cons skip g inp mid rest t1 t2 h1 h2, line, hl => by
    rcases List.mem_append.mp hl with hl | hl
    · exact ⟨[], inp, mid, t1, rfl, h1, hl⟩
    · obtain ⟨c, e⟩ := h1.suffix
      obtain ⟨pre, i, r, t, e', hy, hlt⟩ := YieldMany.elem h2 line hl
      exact ⟨c ++ pre, i, r, t, by rw [e, e', List.append_assoc], hy, hlt⟩

/-- **the kernel lines of an accepted document were read from well-nested text**: for every `kernel-complex` line
    of the result there is a piece `c` of the (comment-free) text, consumed by the statement that returned this line,
    whose parentheses are balanced -/
theorem kernel_lines_neutral {inp rest : List Char} {ts : List Tree} (h : Yield pil_env true pil_document inp rest ts)
    (hh : '#' ∉ inp) (line : Tree) (hl : line ∈ ts) (l : List Tree) (hk : line = .grp (.tok "kernel-complex" :: l)) :
    ∃ pre c post t, inp = pre ++ (c ++ post) ∧ Yield pil_env true pil_cplx (c ++ post) post t ∧ line ∈ t ∧ Neutral c := by
  unfold pil_document at h
  obtain ⟨m1, t1, r1, rfl, h1, hr1⟩ := h.seq_inv.cons_inv
  obtain ⟨m2, t2, r2, rfl, h2, hr2⟩ := hr1.cons_inv
  obtain ⟨m3, t3, r3, rfl, h3, hr3⟩ := hr2.cons_inv
  obtain ⟨m4, t4, r4, rfl, h4, hr4⟩ := hr3.cons_inv
  obtain ⟨_, hr4e⟩ := hr4.nil_inv
  -- only the statements return trees
  have ht1 : t1 = [] := by cases h1; rfl
  have ht2 : t2 = [] := shapeMany_suppress _ _ h2.shape.many_inv
  have ht4 : t4 = [] := by cases h4; rfl
  rw [ht1, ht2, ht4, hr4e] at hl
  simp only [List.nil_append, List.append_nil] at hl
  obtain ⟨c1, e1⟩ := h1.suffix
  obtain ⟨c2, e2⟩ := h2.suffix
  have e12 : inp = (c1 ++ c2) ++ m2 := by rw [e1, e2, List.append_assoc]
  -- the statement that returned the line
  have hstmt : ∃ pre i r t, m2 = pre ++ i ∧ Yield pil_env true pil_stmt i r t ∧ line ∈ t := by
    obtain ⟨mid, ta, tb, rfl, ha, hb⟩ := h3.many1_inv
    rcases List.mem_append.mp hl with hl | hl
    · exact ⟨[], m2, mid, ta, rfl, ha, hl⟩
    · obtain ⟨c, e⟩ := ha.suffix
      obtain ⟨pre, i, r, t, e', hy, hlt⟩ := hb.elem line hl
      exact ⟨c ++ pre, i, r, t, by rw [e, e', List.append_assoc], hy, hlt⟩
  obtain ⟨pre, i, r, t, ei, hy, hlt⟩ := hstmt
  have hcplx := stmt_kernel_is_cplx hy line hlt l hk
  have hhi : '#' ∉ i := by
    have := (notmem_of_suffix e12 hh).2
    exact (notmem_of_suffix ei this).2
  obtain ⟨c, ec, nc⟩ := cplx_neutral hcplx hhi
  refine ⟨(c1 ++ c2) ++ pre, c, r, t, ?_, by rw [← ec]; exact hcplx, hlt, nc⟩
  rw [e12, ei, ec]; simp

/-! ### a kernel statement with unbalanced parentheses is rejected -/

/-- the identifier characters of the PIL grammar -/
abbrev identChars : List Char := pp_alphanums ++ ['_', '-']

theorem identChars_facts' : ∀ c ∈ identChars, isWs c = false ∧ c ≠ '#' ∧ c ≠ '\n' ∧ c ≠ '\t' ∧ c ≠ ' ' ∧ c ≠ '=' := by decide

theorem preL_ident_head (c : Char) (r : List Char) (hc : c ∈ identChars) : preL true (c :: r) = c :: r := by
  obtain ⟨h1, h2, _⟩ := identChars_facts' c hc
  simp only [preL, if_true]
  exact skipIgn_cons_of c r h1 h2

theorem preL_blank_eq (r : List Char) : preL true (' ' :: '=' :: r) = '=' :: r := by
  simp [preL, skipIgn, skipWs, isWs, List.dropWhile]

/-- two maximal strings over a class at the head of the same text are the same string -/
theorem class_prefix_unique (cls : List Char) : ∀ (a b x y : List Char), (∀ c ∈ a, cls.contains c = true) →
    (∀ c ∈ b, cls.contains c = true) → (∀ c r, x = c :: r → cls.contains c = false) →
    (∀ c r, y = c :: r → cls.contains c = false) → a ++ x = b ++ y → a = b ∧ x = y := by
  intro a
  induction a with
  | nil =>
    intro b x y _ hb hx _ h
    cases b with
    | nil => exact ⟨rfl, by simpa using h⟩
    | cons d b' =>
      simp only [List.nil_append, List.cons_append] at h
      have := hx d _ h
      rw [hb d List.mem_cons_self] at this
      cases this
  | cons c a' ih =>
    intro b x y ha hb hx hy h
    cases b with
    | nil =>
      simp only [List.nil_append, List.cons_append] at h
      have := hy c _ h.symm
      rw [ha c List.mem_cons_self] at this
      cases this
    | cons d b' =>
      simp only [List.cons_append, List.cons.injEq] at h
      obtain ⟨h1, h2⟩ := ih b' x y (fun z hz => ha z (List.mem_cons_of_mem _ hz))
        (fun z hz => hb z (List.mem_cons_of_mem _ hz)) hx hy h.2
      exact ⟨by rw [h.1, h1], h2⟩

/-- a keyword at the head of `name = …` is the whole name -/
theorem kw_at_name (K name r mid : List Char) (ts : List Tree) (hK : ∀ c ∈ K, identChars.contains c = true)
    (hname : name ≠ [] ∧ ∀ c ∈ name, c ∈ identChars)
    (h : Yield pil_env true (.suppress (.kw K identChars)) (name ++ ' ' :: '=' :: r) mid ts) :
    mid = ' ' :: '=' :: r := by
  obtain ⟨_, t, hy⟩ := h.suppress_inv
  cases hy with
  | kw _ _ _ _ rest hs hla =>
    obtain ⟨c0, n', rfl⟩ : ∃ c0 n', name = c0 :: n' := by
      cases name with
      | nil => exact absurd rfl hname.1
      | cons c0 n' => exact ⟨c0, n', rfl⟩
    rw [List.cons_append, preL_ident_head c0 _ (hname.2 c0 List.mem_cons_self)] at hs
    have e := stripPrefix_some K _ mid hs
    have := class_prefix_unique identChars K (c0 :: n') mid (' ' :: '=' :: r) hK
      (fun c hc => by simpa using hname.2 c hc) hla
      (by intro c r' e'; cases e'; decide) (by rw [← e]; rfl)
    exact this.2

/-- nothing that starts with an identifier can start at ` = …` -/
theorem identifier_not_at_eq (r mid : List Char) (ts : List Tree)
    (h : Yield pil_env true pil_identifier (' ' :: '=' :: r) mid ts) : False := by
  unfold pil_identifier at h
  cases h with
  | word _ _ _ _ c cs hp hc =>
    rw [preL_blank_eq] at hp
    cases hp
    revert hc; decide

theorem domain_not_at_eq (r mid : List Char) (ts : List Tree)
    (h : Yield pil_env true pil_domain (' ' :: '=' :: r) mid ts) : False := by
  unfold pil_domain at h
  obtain ⟨ts', f, _, hc⟩ := h.combine_inv
  rw [preL_blank_eq] at hc
  obtain ⟨m1, t1, r1, _, h1, _⟩ := hc.seq_inv.cons_inv
  unfold pil_identifier at h1
  cases h1 with
  | word _ _ _ _ c cs hp hc' =>
    simp only [preL, Bool.false_eq_true, if_false] at hp
    cases hp
    revert hc'; decide

/-- a keyword statement `KEYWORD X …` cannot start at `name = …` when `X` cannot start at ` = …` -/
theorem kwstmt_excluded (T : String) (K : List Char) (X : G) (L : List G) (name r mid : List Char) (ts : List Tree)
    (hK : ∀ c ∈ K, identChars.contains c = true) (hname : name ≠ [] ∧ ∀ c ∈ name, c ∈ identChars)
    (hX : ∀ m t, ¬ Yield pil_env true X (' ' :: '=' :: r) m t)
    (h : Yield pil_env true (.group (.tag T (.seq (.suppress (.kw K identChars) :: X :: L)))) (name ++ ' ' :: '=' :: r) mid ts) :
    False := by
  obtain ⟨t, _, h1⟩ := h.group_inv
  cases h1 with
  | tag _ _ _ _ _ t' h2 =>
    obtain ⟨m1, t1, r1, _, ha, hr1⟩ := h2.seq_inv.cons_inv
    obtain ⟨m2, t2, r2, _, hb, _⟩ := hr1.cons_inv
    have hm1 := kw_at_name K name r m1 t1 hK hname ha
    subst hm1
    exact hX m2 t2 hb

theorem reaction_excluded (K : List Char) (L : List G) (name r mid : List Char) (ts : List Tree)
    (hK : ∀ c ∈ K, identChars.contains c = true) (hname : name ≠ [] ∧ ∀ c ∈ name, c ∈ identChars)
    (h : Yield pil_env true (.group (.tag "reaction" (.seq (.suppress (.kw K identChars) :: .group (.opt pil_infobox) ::
      .group pil_species :: L)))) (name ++ ' ' :: '=' :: r) mid ts) : False := by
  obtain ⟨t, _, h1⟩ := h.group_inv
  cases h1 with
  | tag _ _ _ _ _ t' h2 =>
    obtain ⟨m1, t1, r1, _, ha, hr1⟩ := h2.seq_inv.cons_inv
    obtain ⟨m2, t2, r2, _, hb, hr2⟩ := hr1.cons_inv
    obtain ⟨m3, t3, r3, _, hc, _⟩ := hr2.cons_inv
    have hm1 := kw_at_name K name r m1 t1 hK hname ha
    subst hm1
    obtain ⟨tb, _, hb'⟩ := hb.group_inv
    rcases hb'.opt_inv with ⟨hm2, _⟩ | hinfo
    · -- no info box: the species must start here
      subst hm2
      obtain ⟨tc, _, hc'⟩ := hc.group_inv
      unfold pil_species at hc'
      obtain ⟨m4, t4, r4, _, hid, _⟩ := hc'.seq_inv.cons_inv
      exact identifier_not_at_eq r m4 t4 hid
    · unfold pil_infobox at hinfo
      obtain ⟨m4, t4, r4, _, hbr, _⟩ := hinfo.seq_inv.cons_inv
      obtain ⟨_, tq, hq⟩ := hbr.suppress_inv
      cases hq with
      | lit _ _ _ _ hs =>
        rw [preL_blank_eq] at hs
        simp [stripPrefix] at hs

/-- at `name = …` only the kernel-statement alternative can succeed -/
theorem stmt_at_name_is_cplx (name r mid : List Char) (ts : List Tree) (hname : name ≠ [] ∧ ∀ c ∈ name, c ∈ identChars)
    (h : Yield pil_env true pil_stmt (name ++ ' ' :: '=' :: r) mid ts) :
    Yield pil_env true pil_cplx (name ++ ' ' :: '=' :: r) mid ts := by
  unfold pil_stmt at h
  obtain ⟨g, hg, hs⟩ := h.alt_inv
  have hdom : ∀ m t, ¬ Yield pil_env true pil_domain (' ' :: '=' :: r) m t := fun m t hy => domain_not_at_eq r m t hy
  have hid : ∀ m t, ¬ Yield pil_env true pil_identifier (' ' :: '=' :: r) m t := fun m t hy => identifier_not_at_eq r m t hy
  simp only [List.mem_cons, List.not_mem_nil, or_false] at hg
  rcases hg with rfl | rfl | rfl | rfl | rfl | rfl | rfl | rfl
  · exfalso; unfold pil_sl_domain at hs
    exact kwstmt_excluded _ _ _ _ name r mid ts (by decide) hname hdom hs
  · exfalso
    unfold pil_dl_domain at hs
    obtain ⟨g, hg, hs'⟩ := hs.alt_inv
    simp only [List.mem_cons, List.not_mem_nil, or_false] at hg
    rcases hg with rfl | rfl | rfl <;> exact kwstmt_excluded _ _ _ _ name r mid ts (by decide) hname hdom hs'
  · exfalso; unfold pil_comp_domain at hs
    exact kwstmt_excluded _ _ _ _ name r mid ts (by decide) hname hid hs
  · exfalso; unfold pil_strand at hs
    exact kwstmt_excluded _ _ _ _ name r mid ts (by decide) hname hid hs
  · exfalso
    unfold pil_strandcomplex at hs
    obtain ⟨g, hg, hs'⟩ := hs.alt_inv
    simp only [List.mem_cons, List.not_mem_nil, or_false] at hg
    rcases hg with rfl | rfl <;> exact kwstmt_excluded _ _ _ _ name r mid ts (by decide) hname hid hs'
  · exfalso
    unfold pil_reaction at hs
    obtain ⟨g, hg, hs'⟩ := hs.alt_inv
    simp only [List.mem_cons, List.not_mem_nil, or_false] at hg
    rcases hg with rfl | rfl <;> exact reaction_excluded _ _ name r mid ts (by decide) hname hs'
  · exact hs
  · exfalso
    unfold pil_restingset at hs
    obtain ⟨g, hg, hs'⟩ := hs.alt_inv
    simp only [List.mem_cons, List.not_mem_nil, or_false] at hg
    rcases hg with rfl | rfl <;> exact kwstmt_excluded _ _ _ _ name r mid ts (by decide) hname hid hs'

/-! the line ends -/

theorem last_nl : ∀ (b a y : List Char), a ++ ['\n'] = b ++ '\n' :: y → '\n' ∉ a → y = [] := by
  intro b
  induction b with
  | nil =>
    intro a y h hn
    cases a with
    | nil => simpa using h.symm
    | cons c a' =>
      simp only [List.cons_append, List.nil_append, List.cons.injEq] at h
      exact absurd (by rw [h.1]; exact List.mem_cons_self) hn
  | cons d b' ih =>
    intro a y h hn
    cases a with
    | nil =>
      simp only [List.nil_append, List.cons_append, List.cons.injEq] at h
      have := h.2
      cases b' <;> simp at this
    | cons c a' =>
      simp only [List.cons_append, List.cons.injEq] at h
      exact ih a' y h.2 (fun hm => hn (List.mem_cons_of_mem _ hm))

theorem suffix_nil {c rest : List Char} (h : ([] : List Char) = c ++ rest) : rest = [] := by
  cases c with
  | nil => simpa using h.symm
  | cons x xs => simp at h

/-- when every line feed of `x` is its last character, line ends leave nothing -/
theorem lineEnds_rest_nil {env : Env} {skip : Bool} {x rest : List Char} {ts : List Tree}
    (h : Yield env skip (.many1 (.suppress .lineEnd)) x rest ts) (hx : ∀ pre y, x = pre ++ '\n' :: y → y = []) :
    rest = [] := by
  obtain ⟨mid, t1, t2, _, h1, h2⟩ := h.many1_inv
  have hmid : mid = [] := by
    obtain ⟨_, t, hy⟩ := h1.suppress_inv
    cases hy with
    | lineEndNl _ _ cs hp =>
      obtain ⟨ign, e, _⟩ := preL_split skip x
      rw [hp] at e
      exact hx ign mid e
    | lineEndEof _ _ hp => rfl
  subst hmid
  obtain ⟨c, e⟩ := h2.suffix
  exact suffix_nil e

theorem Yield.many_inv {env : Env} {skip : Bool} {g : G} {inp rest : List Char} {ts : List Tree}
    (h : Yield env skip (.many g) inp rest ts) : YieldMany env skip g inp rest ts := by cases h; assumption

theorem yieldMany_none {env : Env} : ∀ {skip : Bool} {g : G} {inp rest : List Char} {ts : List Tree},
    YieldMany env skip g inp rest ts → (∀ r t, ¬ Yield env skip g inp r t) → rest = inp
  | _, _, _, _, _, .nil _ _ _, _ => rfl
  | _, _, _, _, _, .cons _ _ _ mid _ t1 _ h1 _, hno => absurd h1 (hno mid t1)

/-- the text of a kernel statement `name = pattern`, as a list of characters -/
def kernelText (name pt : List Char) : List Char := name ++ ' ' :: '=' :: ' ' :: (pt ++ ['\n'])

/-- the characters of a pattern text -/
def PatCh (c : Char) : Prop := c ∈ identChars ∨ c = ' ' ∨ c = '+' ∨ c = '*' ∨ c = '^' ∨ c = '(' ∨ c = ')'

theorem patCh_facts (c : Char) (h : PatCh c) : c ≠ '#' ∧ c ≠ '\n' ∧ c ≠ '\t' := by
  rcases h with h | rfl | rfl | rfl | rfl | rfl | rfl
  · obtain ⟨_, h2, h3, h4, _⟩ := identChars_facts' c h
    exact ⟨h2, h3, h4⟩
  all_goals decide

/-- **parse soundness for kernel statements**: if `name = pt` is accepted, the parentheses of `pt` are balanced -/
theorem kernelText_accepted_balanced (name pt rest : List Char) (ts : List Tree)
    (hname : name ≠ [] ∧ ∀ c ∈ name, c ∈ identChars) (hpt : ∀ c ∈ pt, PatCh c)
    (h : Yield pil_env true pil_document (kernelText name pt) rest ts) : Balanced pt := by
  obtain ⟨c0, n', hn0⟩ : ∃ c0 n', name = c0 :: n' := by
    cases name with
    | nil => exact absurd rfl hname.1
    | cons c0 n' => exact ⟨c0, n', rfl⟩
  have hc0 : c0 ∈ identChars := hname.2 c0 (by rw [hn0]; exact List.mem_cons_self)
  have hnameFacts : ∀ c ∈ name, c ≠ '#' ∧ c ≠ '\n' ∧ c ≠ '(' ∧ c ≠ ')' := by
    intro c hc
    obtain ⟨_, h2, h3, _⟩ := identChars_facts' c (hname.2 c hc)
    obtain ⟨h5, h6⟩ := nobr_identChars c (hname.2 c hc)
    exact ⟨h2, h3, h5, h6⟩
  -- no comment, and the only line feed is the last character
  have hh : '#' ∉ kernelText name pt := by
    unfold kernelText
    simp only [List.mem_append, List.mem_cons, List.not_mem_nil, or_false, not_or]
    refine ⟨fun hm => (hnameFacts _ hm).1 rfl, by decide, by decide, by decide, fun hm => (patCh_facts _ (hpt _ hm)).1 rfl, by decide⟩
  have hbody : kernelText name pt = (name ++ ' ' :: '=' :: ' ' :: pt) ++ ['\n'] := by unfold kernelText; simp
  have hnl : '\n' ∉ name ++ ' ' :: '=' :: ' ' :: pt := by
    simp only [List.mem_append, List.mem_cons, not_or]
    exact ⟨fun hm => (hnameFacts _ hm).2.1 rfl, by decide, by decide, by decide, fun hm => (patCh_facts _ (hpt _ hm)).2.1 rfl⟩
  have hsuf : ∀ (p x : List Char), kernelText name pt = p ++ x → ∀ pre y, x = pre ++ '\n' :: y → y = [] := by
    intro p x e pre y ex
    apply last_nl (p ++ pre) (name ++ ' ' :: '=' :: ' ' :: pt) y _ hnl
    rw [← hbody, e, ex]; simp
  -- the document
  unfold pil_document at h
  obtain ⟨m1, t1, r1, _, h1, hr1⟩ := h.seq_inv.cons_inv
  obtain ⟨m2, t2, r2, _, h2, hr2⟩ := hr1.cons_inv
  obtain ⟨m3, t3, r3, _, h3, _⟩ := hr2.cons_inv
  have hm1 : m1 = kernelText name pt := by cases h1; rfl
  subst hm1
  -- no line end at the start
  have hm2 : m2 = kernelText name pt := by
    apply yieldMany_none h2.many_inv
    intro r t hy
    obtain ⟨_, t', hy'⟩ := hy.suppress_inv
    have hp : preL true (kernelText name pt) = c0 :: (n' ++ ' ' :: '=' :: ' ' :: (pt ++ ['\n'])) := by
      unfold kernelText; rw [hn0, List.cons_append]; exact preL_ident_head c0 _ hc0
    cases hy' with
    | lineEndNl _ _ cs hq =>
      rw [hp] at hq
      simp only [List.cons.injEq] at hq
      exact (identChars_facts' c0 hc0).2.2.1 hq.1
    | lineEndEof _ _ hq => rw [hp] at hq; cases hq
  subst hm2
  -- the first statement is the kernel statement, and it consumes everything
  obtain ⟨mid, ta, tb, _, ha, _⟩ := h3.many1_inv
  have hcplx := stmt_at_name_is_cplx name (' ' :: (pt ++ ['\n'])) mid ta hname ha
  obtain ⟨c, ec, nc⟩ := cplx_neutral hcplx hh
  have hmid : mid = [] := by
    unfold pil_cplx at hcplx
    obtain ⟨t, _, hc1⟩ := hcplx.group_inv
    cases hc1 with
    | tag _ _ _ _ _ t' hc2 =>
      obtain ⟨pre, i, rr, tt, e, hy⟩ := hc2.seq_inv.elem (.many1 (.suppress .lineEnd)) (by simp)
      -- the last element of the sequence leaves `mid`
      obtain ⟨x1, u1, v1, _, g1, k1⟩ := hc2.seq_inv.cons_inv
      obtain ⟨x2, u2, v2, _, g2, k2⟩ := k1.cons_inv
      obtain ⟨x3, u3, v3, _, g3, k3⟩ := k2.cons_inv
      obtain ⟨x4, u4, v4, _, g4, k4⟩ := k3.cons_inv
      obtain ⟨x5, u5, v5, _, g5, k5⟩ := k4.cons_inv
      obtain ⟨hx5, _⟩ := k5.nil_inv
      subst hx5
      obtain ⟨c1, e1⟩ := g1.suffix
      obtain ⟨c2, e2⟩ := g2.suffix
      obtain ⟨c3, e3⟩ := g3.suffix
      obtain ⟨c4, e4⟩ := g4.suffix
      apply lineEnds_rest_nil g5
      apply hsuf (c1 ++ c2 ++ c3 ++ c4) x4
      show kernelText name pt = _
      have : name ++ ' ' :: '=' :: ' ' :: (pt ++ ['\n']) = kernelText name pt := rfl
      rw [← this, e1, e2, e3, e4]; simp
  subst hmid
  -- so the whole text is well nested
  have hwhole : Neutral (kernelText name pt) := by
    have : name ++ ' ' :: '=' :: ' ' :: (pt ++ ['\n']) = c := by simpa using ec
    unfold kernelText; rw [this]; exact nc
  have hA : NoBr (name ++ [' ', '=', ' ']) := by
    intro x hx
    simp only [List.mem_append, List.mem_cons, List.not_mem_nil, or_false] at hx
    rcases hx with hx | rfl | rfl | rfl
    · exact ⟨(hnameFacts x hx).2.2.1, (hnameFacts x hx).2.2.2⟩
    all_goals decide
  have hB : NoBr ['\n'] := by intro x hx; simp at hx; subst hx; decide
  have h0 := hwhole 0
  have hsplit : kernelText name pt = (name ++ [' ', '=', ' ']) ++ (pt ++ ['\n']) := by unfold kernelText; simp
  rw [hsplit, bdepth_append, hA.neutral 0] at h0
  simp only [Option.bind_some] at h0
  rw [bdepth_append] at h0
  unfold Balanced
  cases hp : bdepth pt 0 with
  | none => rw [hp] at h0; simp at h0
  | some d =>
    rw [hp] at h0
    simp only [Option.bind_some] at h0
    rw [hB.neutral d] at h0
    exact h0

end Dsd.PP
