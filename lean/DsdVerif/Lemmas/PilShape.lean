/-
The shapes of the lines the PIL grammar produces (C16, text level): inversion lemmas for `Shape`, the token
classes of the grammar (identifiers, domains, numbers, kernel patterns) and the line shapes `PilLine`.
-/
import DsdVerif.Lemmas.PPShape
import DsdVerif.Lemmas.ReaderName
import DsdVerif.Gen.Grammars
import Std.Data.String.ToNat

namespace Dsd.PP
open Dsd Dsd.Gen Dsd.RdL

/-! ### inversion -/

variable {env : Env}

theorem Shape.seq_inv {gs : List G} {ts : List Tree} (h : Shape env (.seq gs) ts) : ShapeSeq env gs ts := by
  cases h; assumption
theorem ShapeSeq.nil_inv {ts : List Tree} (h : ShapeSeq env [] ts) : ts = [] := by cases h; rfl
theorem ShapeSeq.cons_inv {g : G} {gs : List G} {ts : List Tree} (h : ShapeSeq env (g :: gs) ts) :
    ∃ t1 t2, ts = t1 ++ t2 ∧ Shape env g t1 ∧ ShapeSeq env gs t2 := by
  cases h with
  | cons _ _ t1 t2 h1 h2 => exact ⟨t1, t2, rfl, h1, h2⟩
theorem Shape.alt_inv {gs : List G} {ts : List Tree} (h : Shape env (.alt gs) ts) : ∃ g ∈ gs, Shape env g ts := by
  cases h with
  | alt _ g _ hg hs => exact ⟨g, hg, hs⟩
theorem Shape.group_inv {g : G} {ts : List Tree} (h : Shape env (.group g) ts) : ∃ t, ts = [.grp t] ∧ Shape env g t := by
  cases h with
  | group _ t hs => exact ⟨t, rfl, hs⟩
theorem Shape.suppress_inv {g : G} {ts : List Tree} (h : Shape env (.suppress g) ts) : ts = [] := by cases h; rfl
theorem Shape.tag_inv {t : String} {g : G} {ts : List Tree} (h : Shape env (.tag t g) ts) :
    ∃ t', ts = .tok t :: t' ∧ Shape env g t' := by
  cases h with
  | tag _ _ t' hs => exact ⟨t', rfl, hs⟩
theorem Shape.lit_inv {s : List Char} {ts : List Tree} (h : Shape env (.lit s) ts) : ts = [.tok (String.ofList s)] := by
  cases h; rfl
theorem Shape.word_inv {init body : List Char} {ts : List Tree} (h : Shape env (.word init body) ts) :
    ∃ c m, ts = [.tok (String.ofList (c :: m))] ∧ init.contains c = true ∧ ∀ x ∈ m, body.contains x = true := by
  cases h with
  | word _ _ c m h1 h2 => exact ⟨c, m, rfl, h1, h2⟩
theorem Shape.opt_inv {g : G} {ts : List Tree} (h : Shape env (.opt g) ts) : ts = [] ∨ Shape env g ts := by
  cases h with
  | optNone => exact Or.inl rfl
  | optSome _ _ hs => exact Or.inr hs
theorem Shape.many_inv {g : G} {ts : List Tree} (h : Shape env (.many g) ts) : ShapeMany env g ts := by
  cases h; assumption
theorem Shape.many1_inv {g : G} {ts : List Tree} (h : Shape env (.many1 g) ts) :
    ∃ t1 t2, ts = t1 ++ t2 ∧ Shape env g t1 ∧ ShapeMany env g t2 := by
  cases h with
  | many1 _ t1 t2 h1 h2 => exact ⟨t1, t2, rfl, h1, h2⟩
theorem Shape.combine_inv {g : G} {ts : List Tree} (h : Shape env (.combine g) ts) :
    ∃ ts' f, ts = [.tok (String.join (flatToks (f + 1) ts'))] ∧ Shape env g ts' := by
  cases h with
  | combine _ ts' f hs => exact ⟨ts', f, rfl, hs⟩
theorem Shape.ref_inv {n : String} {ts : List Tree} (h : Shape env (.ref n) ts) :
    ∃ g, env.lookup n = some g ∧ Shape env g ts := by
  cases h with
  | ref _ g _ hg hs => exact ⟨g, hg, hs⟩
theorem Shape.stringStart_inv {ts : List Tree} (h : Shape env .stringStart ts) : ts = [] := by cases h; rfl
theorem Shape.stringEnd_inv {ts : List Tree} (h : Shape env .stringEnd ts) : ts = [] := by cases h; rfl

/-- the shapes of a repetition, one by one -/
theorem shapeMany_flat (g : G) : ∀ ts, ShapeMany env g ts →
    ∃ tss : List (List Tree), ts = tss.flatten ∧ ∀ t ∈ tss, Shape env g t
  | _, .nil _ => ⟨[], rfl, by simp⟩
  | _, .cons _ t1 t2 h1 h2 => by
    obtain ⟨tss, e, h⟩ := shapeMany_flat g t2 h2
    exact ⟨t1 :: tss, by simp [e], by intro t ht; rcases List.mem_cons.mp ht with rfl | ht; exact h1; exact h t ht⟩

theorem shapeMany_suppress (g : G) (ts : List Tree) (h : ShapeMany env (.suppress g) ts) : ts = [] := by
  obtain ⟨tss, rfl, hs⟩ := shapeMany_flat _ ts h
  simp only [List.flatten_eq_nil_iff]
  intro t ht
  exact (hs t ht).suppress_inv

/-- `OneOrMore(Suppress(…))` contributes nothing -/
theorem shape_many1_suppress (g : G) (ts : List Tree) (h : Shape env (.many1 (.suppress g)) ts) : ts = [] := by
  obtain ⟨t1, t2, rfl, h1, h2⟩ := h.many1_inv
  rw [h1.suppress_inv, shapeMany_suppress g t2 h2]; rfl

/-! ### token classes -/

/-- a token that starts with an identifier character -/
def StartsId (w : String) : Prop := ∃ c cs, w.toList = c :: cs ∧ (pp_alphanums ++ ['_', '-']).contains c = true

theorem identChars_facts : ∀ c ∈ pp_alphanums ++ ['_', '-'], c ≠ '*' ∧ c ≠ '+' := by decide

theorem StartsId.gname {w : String} (h : StartsId w) : GName w := by
  obtain ⟨c, cs, hw, hc⟩ := h
  have hc' := identChars_facts c (by simpa using hc)
  constructor
  · intro e; rw [e] at hw; simp at hw
  · intro e; rw [e] at hw
    have : ("*" : String).toList = ['*'] := rfl
    rw [this] at hw
    simp at hw
    exact hc'.1 hw.1.symm

theorem StartsId.ne_plus {w : String} (h : StartsId w) : w ≠ "+" := by
  obtain ⟨c, cs, hw, hc⟩ := h
  have hc' := identChars_facts c (by simpa using hc)
  intro e; rw [e] at hw
  have : ("+" : String).toList = ['+'] := rfl
  rw [this] at hw
  simp at hw
  exact hc'.2 hw.1.symm

theorem StartsId.append {w : String} (h : StartsId w) (v : String) : StartsId (w ++ v) := by
  obtain ⟨c, cs, hw, hc⟩ := h
  exact ⟨c, cs ++ v.toList, by rw [String.toList_append, hw]; rfl, hc⟩

theorem join_cons (a : String) (l : List String) : String.join (a :: l) = a ++ String.join l := by
  have key : ∀ (l : List String) (x : String), l.foldl (· ++ ·) x = x ++ l.foldl (· ++ ·) "" := by
    intro l
    induction l with
    | nil => intro x; simp
    | cons b bs ih =>
      intro x
      simp only [List.foldl_cons]
      rw [ih (x ++ b), ih ("" ++ b)]
      simp [String.append_assoc]
  unfold String.join
  simp only [List.foldl_cons]
  rw [key l ("" ++ a)]
  simp

/-- a `Combine` whose body starts with an identifier yields a token that starts with an identifier character -/
theorem startsId_join (f : Nat) (w : String) (rest : List Tree) (h : StartsId w) :
    StartsId (String.join (flatToks (f + 1) (.tok w :: rest))) := by
  simp only [flatToks, join_cons]
  exact h.append _

theorem identifier_shape {ts : List Tree} (h : Shape env pil_identifier ts) : ∃ w, ts = [.tok w] ∧ StartsId w := by
  unfold pil_identifier at h
  obtain ⟨c, m, rfl, hc, _⟩ := h.word_inv
  exact ⟨_, rfl, c, m, String.toList_ofList, hc⟩

theorem domain_shape {ts : List Tree} (h : Shape env pil_domain ts) : ∃ w, ts = [.tok w] ∧ StartsId w := by
  unfold pil_domain at h
  obtain ⟨ts', f, rfl, h'⟩ := h.combine_inv
  obtain ⟨t1, t2, rfl, h1, _⟩ := h'.seq_inv.cons_inv
  obtain ⟨w, rfl, hw⟩ := identifier_shape h1
  exact ⟨_, rfl, startsId_join f w _ hw⟩

theorem sense_shape {ts : List Tree} (h : Shape env pil_sense ts) : ∃ w, ts = [.tok w] ∧ StartsId w := by
  unfold pil_sense at h
  obtain ⟨ts', f, rfl, h'⟩ := h.combine_inv
  obtain ⟨t1, t2, rfl, h1, _⟩ := h'.seq_inv.cons_inv
  obtain ⟨w, rfl, hw⟩ := identifier_shape h1
  exact ⟨_, rfl, startsId_join f w _ hw⟩

theorem nums_digit : ∀ c ∈ pp_nums, c.isDigit = true := by decide

theorem number_shape {ts : List Tree} (h : Shape env pil_number ts) : ∃ w, ts = [.tok w] ∧ (w.toNat?).isSome := by
  unfold pil_number at h
  obtain ⟨c, m, rfl, hc, hm⟩ := h.word_inv
  refine ⟨_, rfl, ?_⟩
  rw [String.isSome_toNat?]
  apply String.isNat_of_isDigit
  · intro e
    have := congrArg String.toList e
    simp at this
  · intro x hx
    rw [String.toList_ofList] at hx
    rcases List.mem_cons.mp hx with rfl | hx
    · exact nums_digit _ (by simpa using hc)
    · exact nums_digit _ (by simpa using hm x hx)

theorem dlength_shape {ts : List Tree} (h : Shape env pil_dlength ts) :
    ∃ w, ts = [.tok w] ∧ (w = "short" ∨ w = "long" ∨ (w.toNat?).isSome) := by
  unfold pil_dlength at h
  obtain ⟨g, hg, hs⟩ := h.alt_inv
  simp only [List.mem_cons, List.not_mem_nil, or_false] at hg
  rcases hg with rfl | rfl | rfl
  · obtain ⟨w, rfl, hw⟩ := number_shape hs
    exact ⟨w, rfl, Or.inr (Or.inr hw)⟩
  · exact ⟨_, hs.lit_inv, Or.inl rfl⟩
  · exact ⟨_, hs.lit_inv, Or.inr (Or.inl rfl)⟩

/-! ### kernel patterns -/

/-- the body of the `pattern` forward declaration -/
def patternG : G := .many1 (.alt [pil_loop, .lit ['+'], pil_sense])

theorem pil_env_pattern : pil_env.lookup "pattern" = some patternG := rfl

theorem KForest.append {a b : List Tree} (ha : KForest a) (hb : KForest b) : KForest (a ++ b) := by
  induction ha with
  | nil => exact hb
  | tok s rest hs _ ih => exact KForest.tok s _ hs ih
  | loop s inner rest hs hp hi _ _ ih2 => exact KForest.loop s inner _ hs hp hi ih2

theorem one_le_sizeOf (l : List Tree) : 1 ≤ sizeOf l := by
  cases l with
  | nil => simp
  | cons x xs => simp only [List.cons.sizeOf_spec]; omega

theorem sizeOf_append (a b : List Tree) : sizeOf (a ++ b) + 1 = sizeOf a + sizeOf b := by
  induction a with
  | nil => simp only [List.nil_append, List.nil.sizeOf_spec]; omega
  | cons x xs ih => simp only [List.cons_append, List.cons.sizeOf_spec]; omega

theorem sizeOf_mem_flatten (tss : List (List Tree)) (t : List Tree) (h : t ∈ tss) : sizeOf t ≤ sizeOf tss.flatten := by
  induction tss with
  | nil => simp at h
  | cons x xs ih =>
    simp only [List.flatten_cons]
    have := sizeOf_append x xs.flatten
    have h1 := one_le_sizeOf xs.flatten
    have h2 := one_le_sizeOf x
    rcases List.mem_cons.mp h with rfl | h
    · omega
    · have := ih h; omega

/-- one element of a pattern: a name, a break, or a loop `name( … )` -/
theorem pattern_item {t : List Tree} (h : Shape pil_env (.alt [pil_loop, .lit ['+'], pil_sense]) t) :
    (∃ w, t = [.tok w] ∧ (StartsId w ∨ w = "+")) ∨
    (∃ w inner, t = [.tok w, .grp inner] ∧ StartsId w ∧ (inner = [] ∨ Shape pil_env patternG inner)) := by
  obtain ⟨g, hg, hs⟩ := h.alt_inv
  simp only [List.mem_cons, List.not_mem_nil, or_false] at hg
  rcases hg with rfl | rfl | rfl
  · right
    unfold pil_loop at hs
    obtain ⟨t1, r1, rfl, h1, hr1⟩ := hs.seq_inv.cons_inv
    obtain ⟨t2, r2, rfl, h2, hr2⟩ := hr1.cons_inv
    obtain ⟨t3, r3, rfl, h3, hr3⟩ := hr2.cons_inv
    rw [hr3.nil_inv, h3.suppress_inv]
    obtain ⟨ts', f, rfl, h1'⟩ := h1.combine_inv
    obtain ⟨a1, a2, rfl, ha1, _⟩ := h1'.seq_inv.cons_inv
    obtain ⟨w, rfl, hw⟩ := sense_shape ha1
    obtain ⟨inner, rfl, hin⟩ := h2.group_inv
    refine ⟨String.join (flatToks (f + 1) ([Tree.tok w] ++ a2)), inner, by simp, startsId_join f w a2 hw, ?_⟩
    rcases hin.opt_inv with rfl | hin
    · exact Or.inl rfl
    · unfold pil_innerloop at hin
      obtain ⟨g, hg, hs'⟩ := hin.alt_inv
      simp only [List.mem_cons, List.not_mem_nil, or_false] at hg
      rcases hg with rfl | rfl
      · obtain ⟨g', hg', hs''⟩ := hs'.ref_inv
        rw [pil_env_pattern] at hg'
        cases hg'
        exact Or.inr hs''
      · exact Or.inl hs'.suppress_inv
  · left; exact ⟨_, hs.lit_inv, Or.inr rfl⟩
  · left
    obtain ⟨w, rfl, hw⟩ := sense_shape hs
    exact ⟨w, rfl, Or.inl hw⟩

theorem gname_plus : GName "+" := ⟨by decide, by decide⟩

theorem pattern_forest_aux : ∀ (n : Nat) (ts : List Tree), sizeOf ts ≤ n → Shape pil_env patternG ts → KForest ts := by
  intro n
  induction n with
  | zero => intro ts h; cases ts <;> simp at h
  | succ n ih =>
    intro ts hsz h
    unfold patternG at h
    obtain ⟨t1, t2, rfl, h1, h2⟩ := h.many1_inv
    obtain ⟨tss, rfl, hs⟩ := shapeMany_flat _ t2 h2
    -- every element is a forest
    have hitem : ∀ t, sizeOf t ≤ n + 1 → Shape pil_env (.alt [pil_loop, .lit ['+'], pil_sense]) t → KForest t := by
      intro t ht hst
      rcases pattern_item hst with ⟨w, rfl, hw⟩ | ⟨w, inner, rfl, hw, hin⟩
      · rcases hw with hw | rfl
        · exact KForest.tok w [] hw.gname KForest.nil
        · exact KForest.tok "+" [] gname_plus KForest.nil
      · refine KForest.loop w inner [] hw.gname hw.ne_plus ?_ KForest.nil
        rcases hin with rfl | hin
        · exact KForest.nil
        · apply ih inner _ hin
          simp only [List.cons.sizeOf_spec, Tree.grp.sizeOf_spec, List.nil.sizeOf_spec] at ht
          omega
    have happ := sizeOf_append t1 tss.flatten
    have hf1 := one_le_sizeOf tss.flatten
    have h11 := one_le_sizeOf t1
    apply KForest.append (hitem t1 (by omega) h1)
    -- the remaining elements
    have : ∀ (l : List (List Tree)), (∀ t ∈ l, KForest t) → KForest l.flatten := by
      intro l hl
      induction l with
      | nil => exact KForest.nil
      | cons x xs ihx =>
        exact KForest.append (hl x List.mem_cons_self) (ihx (fun t ht => hl t (List.mem_cons_of_mem _ ht)))
    apply this
    intro t ht
    have := sizeOf_mem_flatten tss t ht
    exact hitem t (by omega) (hs t ht)

/-- **a parsed kernel pattern is a forest**: a nested list only directly after a name -/
theorem pattern_forest {ts : List Tree} (h : Shape pil_env patternG ts) : KForest ts :=
  pattern_forest_aux (sizeOf ts) ts (Nat.le_refl _) h

/-! ### line shapes -/

/-- what the PIL grammar guarantees about a parsed line (the tokens of one statement group) -/
inductive PilLine : List Tree → Prop
  | dl (name len : String) : GName name → (len = "short" ∨ len = "long" ∨ (len.toNat?).isSome) →
      PilLine [.tok "dl-domain", .tok name, .tok len]
  | sl (name con : String) (rest : List Tree) : GName name → PilLine (.tok "sl-domain" :: .tok name :: .tok con :: rest)
  | comp (name : String) (doms rest : List Tree) : (∀ t ∈ doms, ∃ s, t = .tok s ∧ GName s) →
      PilLine (.tok "composite-domain" :: .tok name :: .grp doms :: rest)
  | strandComplex (name db : String) (strands : List Tree) :
      PilLine [.tok "strand-complex", .tok name, .grp strands, .tok db]
  | kernel (name : String) (pat rest : List Tree) : KForest pat →
      PilLine (.tok "kernel-complex" :: .tok name :: .grp pat :: rest)
  | resting (name : String) (mem : List Tree) : PilLine [.tok "resting-macrostate", .tok name, .grp mem]
  | reaction (info rs ps : List Tree) : PilLine [.tok "reaction", .grp info, .grp rs, .grp ps]

theorem word_tok {init body : List Char} {ts : List Tree} (h : Shape env (.word init body) ts) : ∃ w, ts = [.tok w] := by
  obtain ⟨c, m, rfl, _⟩ := h.word_inv
  exact ⟨_, rfl⟩

/-- a repetition of single-token elements yields tokens of that class -/
theorem many1_toks (g : G) (Q : String → Prop) (hg : ∀ t, Shape env g t → ∃ w, t = [.tok w] ∧ Q w) (ts : List Tree)
    (h : Shape env (.many1 g) ts) : ∀ t ∈ ts, ∃ s, t = .tok s ∧ Q s := by
  obtain ⟨t1, t2, rfl, h1, h2⟩ := h.many1_inv
  obtain ⟨tss, rfl, hs⟩ := shapeMany_flat _ t2 h2
  intro t ht
  rcases List.mem_append.mp ht with ht | ht
  · obtain ⟨w, rfl, hw⟩ := hg t1 h1
    simp at ht; exact ⟨w, ht, hw⟩
  · obtain ⟨l, hl, htl⟩ := List.mem_flatten.mp ht
    obtain ⟨w, rfl, hw⟩ := hg l (hs l hl)
    simp at htl; exact ⟨w, htl, hw⟩

theorem opt_suppress_nil {g : G} {ts : List Tree} (h : Shape env (.opt (.suppress g)) ts) : ts = [] := by
  rcases h.opt_inv with rfl | h
  · rfl
  · exact h.suppress_inv

theorem sl_shape {ts : List Tree} (h : Shape pil_env pil_sl_domain ts) : ∃ l, ts = [.grp l] ∧ PilLine l := by
  unfold pil_sl_domain at h
  obtain ⟨l, rfl, hg1⟩ := h.group_inv
  obtain ⟨l', rfl, hg2⟩ := hg1.tag_inv
  obtain ⟨t1, r1, rfl, h1, hr1⟩ := hg2.seq_inv.cons_inv
  obtain ⟨t2, r2, rfl, h2, hr2⟩ := hr1.cons_inv
  obtain ⟨t3, r3, rfl, h3, hr3⟩ := hr2.cons_inv
  obtain ⟨t4, r4, rfl, h4, hr4⟩ := hr3.cons_inv
  obtain ⟨t5, r5, rfl, h5, hr5⟩ := hr4.cons_inv
  obtain ⟨t6, r6, rfl, h6, hr6⟩ := hr5.cons_inv
  rw [hr6.nil_inv, h1.suppress_inv, h3.suppress_inv, shape_many1_suppress _ _ h6]
  obtain ⟨name, rfl, hn⟩ := domain_shape h2
  unfold pil_constraint at h4
  obtain ⟨con, rfl⟩ := word_tok h4
  exact ⟨_, rfl, by simpa using PilLine.sl name con _ hn.gname⟩

theorem dl_body_shape (k : G) {ts : List Tree}
    (h : Shape pil_env (.group (.tag "dl-domain" (.seq [.suppress k, pil_domain, .suppress pil_assign, pil_dlength,
      .many1 (.suppress .lineEnd)]))) ts) : ∃ l, ts = [.grp l] ∧ PilLine l := by
  obtain ⟨l, rfl, hg1⟩ := h.group_inv
  obtain ⟨l', rfl, hg2⟩ := hg1.tag_inv
  obtain ⟨t1, r1, rfl, h1, hr1⟩ := hg2.seq_inv.cons_inv
  obtain ⟨t2, r2, rfl, h2, hr2⟩ := hr1.cons_inv
  obtain ⟨t3, r3, rfl, h3, hr3⟩ := hr2.cons_inv
  obtain ⟨t4, r4, rfl, h4, hr4⟩ := hr3.cons_inv
  obtain ⟨t5, r5, rfl, h5, hr5⟩ := hr4.cons_inv
  rw [hr5.nil_inv, h1.suppress_inv, h3.suppress_inv, shape_many1_suppress _ _ h5]
  obtain ⟨name, rfl, hn⟩ := domain_shape h2
  obtain ⟨len, rfl, hl⟩ := dlength_shape h4
  exact ⟨_, rfl, by simpa using PilLine.dl name len hn.gname hl⟩

theorem dl_shape {ts : List Tree} (h : Shape pil_env pil_dl_domain ts) : ∃ l, ts = [.grp l] ∧ PilLine l := by
  unfold pil_dl_domain at h
  obtain ⟨g, hg, hs⟩ := h.alt_inv
  simp only [List.mem_cons, List.not_mem_nil, or_false] at hg
  rcases hg with rfl | rfl | rfl <;> exact dl_body_shape _ hs

theorem comp_body_shape (k : G) {ts : List Tree}
    (h : Shape pil_env (.group (.tag "composite-domain" (.seq [.suppress k, pil_identifier, .suppress pil_assign,
      .group (.many1 pil_domain), .opt (.seq [.suppress pil_assign, pil_number]), .many1 (.suppress .lineEnd)]))) ts) :
    ∃ l, ts = [.grp l] ∧ PilLine l := by
  obtain ⟨l, rfl, hg1⟩ := h.group_inv
  obtain ⟨l', rfl, hg2⟩ := hg1.tag_inv
  obtain ⟨t1, r1, rfl, h1, hr1⟩ := hg2.seq_inv.cons_inv
  obtain ⟨t2, r2, rfl, h2, hr2⟩ := hr1.cons_inv
  obtain ⟨t3, r3, rfl, h3, hr3⟩ := hr2.cons_inv
  obtain ⟨t4, r4, rfl, h4, hr4⟩ := hr3.cons_inv
  obtain ⟨t5, r5, rfl, h5, hr5⟩ := hr4.cons_inv
  obtain ⟨t6, r6, rfl, h6, hr6⟩ := hr5.cons_inv
  rw [hr6.nil_inv, h1.suppress_inv, h3.suppress_inv, shape_many1_suppress _ _ h6]
  obtain ⟨name, rfl, _⟩ := identifier_shape h2
  obtain ⟨doms, rfl, hd⟩ := h4.group_inv
  have hdoms := many1_toks pil_domain GName
    (fun t ht => by obtain ⟨w, rfl, hw⟩ := domain_shape ht; exact ⟨w, rfl, hw.gname⟩) doms hd
  exact ⟨_, rfl, by simpa using PilLine.comp name doms _ hdoms⟩

theorem comp_shape {ts : List Tree} (h : Shape pil_env pil_comp_domain ts) : ∃ l, ts = [.grp l] ∧ PilLine l := by
  unfold pil_comp_domain at h; exact comp_body_shape _ h

theorem strand_shape {ts : List Tree} (h : Shape pil_env pil_strand ts) : ∃ l, ts = [.grp l] ∧ PilLine l := by
  unfold pil_strand at h; exact comp_body_shape _ h

theorem strandcomplex_shape {ts : List Tree} (h : Shape pil_env pil_strandcomplex ts) :
    ∃ l, ts = [.grp l] ∧ PilLine l := by
  unfold pil_strandcomplex at h
  obtain ⟨g, hg, hs⟩ := h.alt_inv
  simp only [List.mem_cons, List.not_mem_nil, or_false] at hg
  rcases hg with rfl | rfl
  · obtain ⟨l, rfl, hg1⟩ := hs.group_inv
    obtain ⟨l', rfl, hg2⟩ := hg1.tag_inv
    obtain ⟨t1, r1, rfl, h1, hr1⟩ := hg2.seq_inv.cons_inv
    obtain ⟨t2, r2, rfl, h2, hr2⟩ := hr1.cons_inv
    obtain ⟨t3, r3, rfl, h3, hr3⟩ := hr2.cons_inv
    obtain ⟨t4, r4, rfl, h4, hr4⟩ := hr3.cons_inv
    obtain ⟨t5, r5, rfl, h5, hr5⟩ := hr4.cons_inv
    obtain ⟨t6, r6, rfl, h6, hr6⟩ := hr5.cons_inv
    obtain ⟨t7, r7, rfl, h7, hr7⟩ := hr6.cons_inv
    obtain ⟨t8, r8, rfl, h8, hr8⟩ := hr7.cons_inv
    rw [hr8.nil_inv, h1.suppress_inv, h3.suppress_inv, opt_suppress_nil h4, opt_suppress_nil h6,
      shape_many1_suppress _ _ h8]
    obtain ⟨name, rfl, _⟩ := identifier_shape h2
    obtain ⟨strands, rfl, _⟩ := h5.group_inv
    unfold pil_dotbracket at h7
    obtain ⟨db, rfl⟩ := word_tok h7
    exact ⟨_, rfl, by simpa using PilLine.strandComplex name db strands⟩
  · obtain ⟨l, rfl, hg1⟩ := hs.group_inv
    obtain ⟨l', rfl, hg2⟩ := hg1.tag_inv
    obtain ⟨t1, r1, rfl, h1, hr1⟩ := hg2.seq_inv.cons_inv
    obtain ⟨t2, r2, rfl, h2, hr2⟩ := hr1.cons_inv
    obtain ⟨t3, r3, rfl, h3, hr3⟩ := hr2.cons_inv
    obtain ⟨t4, r4, rfl, h4, hr4⟩ := hr3.cons_inv
    obtain ⟨t5, r5, rfl, h5, hr5⟩ := hr4.cons_inv
    obtain ⟨t6, r6, rfl, h6, hr6⟩ := hr5.cons_inv
    obtain ⟨t7, r7, rfl, h7, hr7⟩ := hr6.cons_inv
    rw [hr7.nil_inv, h1.suppress_inv, h3.suppress_inv, h5.suppress_inv, shape_many1_suppress _ _ h7]
    obtain ⟨name, rfl, _⟩ := identifier_shape h2
    obtain ⟨strands, rfl, _⟩ := h4.group_inv
    unfold pil_dotbracket at h6
    obtain ⟨db, rfl⟩ := word_tok h6
    exact ⟨_, rfl, by simpa using PilLine.strandComplex name db strands⟩

theorem reaction_body_shape (k : G) {ts : List Tree}
    (h : Shape pil_env (.group (.tag "reaction" (.seq [.suppress k, .group (.opt pil_infobox), .group pil_species,
      .suppress (.lit ['-', '>']), .group pil_species, .many1 (.suppress .lineEnd)]))) ts) :
    ∃ l, ts = [.grp l] ∧ PilLine l := by
  obtain ⟨l, rfl, hg1⟩ := h.group_inv
  obtain ⟨l', rfl, hg2⟩ := hg1.tag_inv
  obtain ⟨t1, r1, rfl, h1, hr1⟩ := hg2.seq_inv.cons_inv
  obtain ⟨t2, r2, rfl, h2, hr2⟩ := hr1.cons_inv
  obtain ⟨t3, r3, rfl, h3, hr3⟩ := hr2.cons_inv
  obtain ⟨t4, r4, rfl, h4, hr4⟩ := hr3.cons_inv
  obtain ⟨t5, r5, rfl, h5, hr5⟩ := hr4.cons_inv
  obtain ⟨t6, r6, rfl, h6, hr6⟩ := hr5.cons_inv
  rw [hr6.nil_inv, h1.suppress_inv, h4.suppress_inv, shape_many1_suppress _ _ h6]
  obtain ⟨info, rfl, _⟩ := h2.group_inv
  obtain ⟨rs, rfl, _⟩ := h3.group_inv
  obtain ⟨ps, rfl, _⟩ := h5.group_inv
  exact ⟨_, rfl, by simpa using PilLine.reaction info rs ps⟩

theorem reaction_shape {ts : List Tree} (h : Shape pil_env pil_reaction ts) : ∃ l, ts = [.grp l] ∧ PilLine l := by
  unfold pil_reaction at h
  obtain ⟨g, hg, hs⟩ := h.alt_inv
  simp only [List.mem_cons, List.not_mem_nil, or_false] at hg
  rcases hg with rfl | rfl <;> exact reaction_body_shape _ hs

theorem resting_body_shape (k : G) {ts : List Tree}
    (h : Shape pil_env (.group (.tag "resting-macrostate" (.seq [.suppress k, pil_identifier, .suppress (.lit ['=']),
      .suppress (.lit ['[']), .group (.seq [pil_identifier, .many (.seq [.suppress (.lit [',']), pil_identifier])]),
      .suppress (.lit [']']), .many1 (.suppress .lineEnd)]))) ts) :
    ∃ l, ts = [.grp l] ∧ PilLine l := by
  obtain ⟨l, rfl, hg1⟩ := h.group_inv
  obtain ⟨l', rfl, hg2⟩ := hg1.tag_inv
  obtain ⟨t1, r1, rfl, h1, hr1⟩ := hg2.seq_inv.cons_inv
  obtain ⟨t2, r2, rfl, h2, hr2⟩ := hr1.cons_inv
  obtain ⟨t3, r3, rfl, h3, hr3⟩ := hr2.cons_inv
  obtain ⟨t4, r4, rfl, h4, hr4⟩ := hr3.cons_inv
  obtain ⟨t5, r5, rfl, h5, hr5⟩ := hr4.cons_inv
  obtain ⟨t6, r6, rfl, h6, hr6⟩ := hr5.cons_inv
  obtain ⟨t7, r7, rfl, h7, hr7⟩ := hr6.cons_inv
  rw [hr7.nil_inv, h1.suppress_inv, h3.suppress_inv, h4.suppress_inv, h6.suppress_inv, shape_many1_suppress _ _ h7]
  obtain ⟨name, rfl, _⟩ := identifier_shape h2
  obtain ⟨mem, rfl, _⟩ := h5.group_inv
  exact ⟨_, rfl, by simpa using PilLine.resting name mem⟩

theorem resting_shape {ts : List Tree} (h : Shape pil_env pil_restingset ts) : ∃ l, ts = [.grp l] ∧ PilLine l := by
  unfold pil_restingset at h
  obtain ⟨g, hg, hs⟩ := h.alt_inv
  simp only [List.mem_cons, List.not_mem_nil, or_false] at hg
  rcases hg with rfl | rfl <;> exact resting_body_shape _ hs

theorem cplx_shape {ts : List Tree} (h : Shape pil_env pil_cplx ts) : ∃ l, ts = [.grp l] ∧ PilLine l := by
  unfold pil_cplx at h
  obtain ⟨l, rfl, hg1⟩ := h.group_inv
  obtain ⟨l', rfl, hg2⟩ := hg1.tag_inv
  obtain ⟨t1, r1, rfl, h1, hr1⟩ := hg2.seq_inv.cons_inv
  obtain ⟨t2, r2, rfl, h2, hr2⟩ := hr1.cons_inv
  obtain ⟨t3, r3, rfl, h3, hr3⟩ := hr2.cons_inv
  obtain ⟨t4, r4, rfl, h4, hr4⟩ := hr3.cons_inv
  obtain ⟨t5, r5, rfl, h5, hr5⟩ := hr4.cons_inv
  rw [hr5.nil_inv, h2.suppress_inv, shape_many1_suppress _ _ h5]
  obtain ⟨name, rfl, _⟩ := identifier_shape h1
  obtain ⟨a1, a2, rfl, ha1, _⟩ := h3.many1_inv
  obtain ⟨pat, rfl, hp⟩ := ha1.group_inv
  obtain ⟨g, hg, hs⟩ := hp.ref_inv
  rw [pil_env_pattern] at hg
  cases hg
  exact ⟨_, rfl, by simpa using PilLine.kernel name pat _ (pattern_forest hs)⟩

/-- every statement is one group whose tokens form a `PilLine` -/
theorem stmt_shape {ts : List Tree} (h : Shape pil_env pil_stmt ts) : ∃ l, ts = [.grp l] ∧ PilLine l := by
  unfold pil_stmt at h
  obtain ⟨g, hg, hs⟩ := h.alt_inv
  simp only [List.mem_cons, List.not_mem_nil, or_false] at hg
  rcases hg with rfl | rfl | rfl | rfl | rfl | rfl | rfl | rfl
  · exact sl_shape hs
  · exact dl_shape hs
  · exact comp_shape hs
  · exact strand_shape hs
  · exact strandcomplex_shape hs
  · exact reaction_shape hs
  · exact cplx_shape hs
  · exact resting_shape hs

/-- **the lines of a parsed PIL document** -/
theorem document_shape {ts : List Tree} (h : Shape pil_env pil_document ts) :
    ∀ t ∈ ts, ∃ l, t = .grp l ∧ PilLine l := by
  unfold pil_document at h
  obtain ⟨t1, r1, rfl, h1, hr1⟩ := h.seq_inv.cons_inv
  obtain ⟨t2, r2, rfl, h2, hr2⟩ := hr1.cons_inv
  obtain ⟨t3, r3, rfl, h3, hr3⟩ := hr2.cons_inv
  obtain ⟨t4, r4, rfl, h4, hr4⟩ := hr3.cons_inv
  rw [hr4.nil_inv, h1.stringStart_inv, h4.stringEnd_inv, shapeMany_suppress _ _ h2.many_inv]
  obtain ⟨a1, a2, rfl, ha1, ha2⟩ := h3.many1_inv
  obtain ⟨tss, rfl, hs⟩ := shapeMany_flat _ a2 ha2
  intro t ht
  simp only [List.nil_append, List.append_nil, List.mem_append] at ht
  rcases ht with ht | ht
  · obtain ⟨l, rfl, hl⟩ := stmt_shape ha1
    simp at ht; exact ⟨l, ht, hl⟩
  · obtain ⟨x, hx, htx⟩ := List.mem_flatten.mp ht
    obtain ⟨l, rfl, hl⟩ := stmt_shape (hs x hx)
    simp at htx; exact ⟨l, htx, hl⟩

end Dsd.PP
