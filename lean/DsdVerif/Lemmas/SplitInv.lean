/-
Preservation of the world invariant `RdL.WOK ∧ SplitObj.CplxStateOK` by the operations on complexes
(`mkDom`, `mkCplx`, `mkCplxByNames`, `splitC`, `setTurns`, `queryC`, `collect`, dropping a handle).
-/
import DsdVerif.Lemmas.SplitObj

namespace Dsd.SplitObj
open Dsd Dsd.Bracket

/-! ### frames -/

/-- the registries of complexes keep their objects, the states are the same -/
theorem cso_frame (w w' : World) (h : CplxStateOK w)
    (hc : ∀ (c' : Nat) (cr' : ClassReg CKey), w'.cplxs[c']? = some cr' →
      ∃ cr : ClassReg CKey, w.cplxs[c']? = some cr ∧ cr'.reg.objs = cr.reg.objs)
    (hst : w'.cstate = w.cstate) (hn : w.nextId ≤ w'.nextId) : CplxStateOK w' := by
  refine ⟨?_, ?_, ?_⟩
  · intro c' cr' hcr'
    obtain ⟨cr, h1, h2⟩ := hc c' cr' hcr'
    exact regOK_of_objs (h.regs c' cr h1) h2
  · intro c' cr' ob hcr' hob
    obtain ⟨cr, h1, h2⟩ := hc c' cr' hcr'
    rw [hst]
    exact h.entry c' cr ob h1 (by rw [← h2]; exact hob)
  · intro p hp
    rw [hst] at hp
    have := h.stateLt p hp
    omega

theorem settle_frame (w : World) (out : Out) (k : Kind) (c : Nat) (ch : List Nat) :
    (w.settle out k c ch).cplxs = w.cplxs ∧ (w.settle out k c ch).cstate = w.cstate ∧
    w.nextId ≤ (w.settle out k c ch).nextId := by
  unfold World.settle
  split <;> simp

theorem cso_mkDom (w : World) (h : CplxStateOK w) (c : Nat) (q : DomReq) : CplxStateOK (w.mkDom c q).1 := by
  unfold World.mkDom
  simp only
  generalize World.withClass w.doms c _ = r
  obtain ⟨ds, out⟩ := r
  simp only
  obtain ⟨a, b, d⟩ := settle_frame { w with doms := ds } out .dom c []
  exact cso_frame w _ h (fun c' cr' hcr' => ⟨cr', by rw [a] at hcr'; exact hcr', rfl⟩) b d

/-! ### garbage collection -/

theorem lookup_filter (l : List (Nat × CplxObj)) (p : Nat → Bool) (k : Nat) (hk : p k = true) :
    (l.filter (fun q => p q.1)).lookup k = l.lookup k := by
  induction l with
  | nil => rfl
  | cons a l ih =>
    obtain ⟨a1, a2⟩ := a
    by_cases hp : p a1 = true
    · rw [List.filter_cons_of_pos (by simpa using hp)]
      simp only [List.lookup_cons, ih]
    · rw [List.filter_cons_of_neg (by simpa using hp), ih]
      have : (k == a1) = false := by
        rw [beq_eq_false_iff_ne]; intro e; rw [e] at hk; exact hp hk
      simp only [List.lookup_cons, this]

theorem regOK_filter (r : Reg CKey) (h : RegOK r) (objs : List (Obj CKey)) (p : Obj CKey → Bool)
    (e : objs = r.objs.filter p) : RegOK { r with objs := objs } := by
  subst e
  refine ⟨⟨h.wf.names.filter _, h.wf.ids.filter _, h.wf.keys.filter _, ?_⟩, ?_, ?_⟩
  · intro o ho; exact h.wf.canon o (List.mem_filter.mp ho).1
  · intro o ho; exact h.orb o (List.mem_filter.mp ho).1
  · intro o ho; exact h.min o (List.mem_filter.mp ho).1

theorem cso_collect (w : World) (h : CplxStateOK w) : CplxStateOK w.collect := by
  refine ⟨?_, ?_, ?_⟩
  · intro c' cr' hcr'
    obtain ⟨cr, h1, h2⟩ := RdL.dropDead_some w.cplxs w.reachable c' cr' hcr'
    exact regOK_of_objs (regOK_filter cr.reg (h.regs c' cr h1) _ _ rfl) h2
  · intro c' cr' ob hcr' hob
    obtain ⟨cr, h1, h2⟩ := RdL.dropDead_some w.cplxs w.reachable c' cr' hcr'
    rw [h2] at hob
    obtain ⟨hob1, hob2⟩ := List.mem_filter.mp hob
    obtain ⟨o, ho, he⟩ := h.entry c' cr ob h1 hob1
    refine ⟨o, ?_, he⟩
    show (w.cstate.filter (fun p => w.reachable.contains p.1)).lookup ob.id = some o
    rw [lookup_filter w.cstate (fun i => w.reachable.contains i) ob.id hob2]
    exact ho
  · intro p hp
    exact h.stateLt p (List.mem_filter.mp hp).1

theorem cso_held (w : World) (h : CplxStateOK w) (held : List Nat) : CplxStateOK { w with held := held } :=
  ⟨h.regs, h.entry, h.stateLt⟩

/-- dropping a handle -/
theorem cso_drop (w : World) (h : CplxStateOK w) (id : Nat) : CplxStateOK (w.drop id) :=
  cso_collect _ (cso_held w h _)

/-! ### `split()` -/

theorem goRes_inv {cls : Nat} {pch held0 : List Nat} {ps : List Part} {w : World} {acc : List Out}
    {res : World × List Out} (hg : GoRes cls pch held0 ps w acc res) : RdL.WOK res.1 ∧ CplxStateOK res.1 := by
  induction hg with
  | nil w acc hw hs => exact ⟨hw, hs⟩
  | old p ps w acc res cr ob k _ _ _ _ _ _ _ _ ih => exact ih
  | new p ps w acc res cr ids k _ _ _ _ _ _ _ ih => exact ih
  | abort p ps w acc cr on k hw hs hc _ _ _ =>
    exact ⟨RdL.wok_collect _ (RdL.wok_held _ (wok_normW w hw cls cr hc) _),
      cso_collect _ (cso_held _ (cso_normW w hs cls cr hc) _)⟩

/-- **`split()` preserves the invariant** -/
theorem inv_splitC (w : World) (id c : Nat) (hw : RdL.WOK w) (hs : CplxStateOK w) (hlive : RdL.has w .cplx c id) :
    RdL.WOK (w.splitC id).1 ∧ CplxStateOK (w.splitC id).1 := by
  obtain ⟨_, _, _, _, _, _, _, _, _, _, _, _, _, _, _, _, _, hg⟩ := splitC_run w id c hw hs hlive
  exact goRes_inv hg

/-- the unnamed request of `split()` preserves the invariant -/
theorem inv_mkCplxByNames (w : World) (c : Nat) (cr : ClassReg CKey) (hw : RdL.WOK w) (hs : CplxStateOK w)
    (hc : w.cplxs[c]? = some cr) (names : List String) (sst : List Char) (pch : List Nat)
    (hd : C02.Descr names sst) (hch : ∀ ch ∈ pch, RdL.HasNode w ch) :
    RdL.WOK (w.mkCplxByNames c names sst pch).1 ∧ CplxStateOK (w.mkCplxByNames c names sst pch).1 := by
  obtain ⟨ids0, _, h0⟩ := pure_ids names sst hd
  have hfresh : ∀ o ∈ cr.reg.objs, o.id ≠ w.nextId := by
    intro o ho e
    obtain ⟨n, hn1, hn2, _⟩ := hw.objNode .cplx c o.id ⟨cr, hc, o, ho, rfl⟩
    have := hw.lt n hn1
    omega
  have hstep := mkCplxByNames_out w c cr hc (hs.regs c cr hc) hfresh names sst pch hd ids0 h0
  generalize w.mkCplxByNames c names sst pch = res at hstep
  cases hstep with
  | old ob ho hcan hn => exact ⟨wok_oldW w hw c cr hc ob.id, cso_oldW w hs c cr hc ob.id⟩
  | new ids hno hcan hkeys hfk hn =>
    exact ⟨wok_newW w hw c cr hc _ _ _ _ _ _ _ (fun ch hc' => hch ch (List.mem_filter.mp hc').1),
      cso_newW w hw hs c cr hc names sst hd ids0 ids h0 hkeys hfk _ hn _ _⟩
  | refused on hn hne => exact ⟨wok_normW w hw c cr hc, cso_normW w hs c cr hc⟩

/-! ### a general request for a complex -/

theorem regOK_register' (r : Reg CKey) (h : RegOK r) (fresh : Nat) (seq : List String) (sst : List Char)
    (hd : C02.Descr seq sst) (ids0 ids : CplxIds) (nm : String) (b : Bool)
    (h0 : minKey (C02.orbit (C02.nStrands seq) seq sst) = some ids0.canon)
    (hkeys : ∀ k, k ∈ ids.keys ↔ k ∈ C02.orbit (C02.nStrands seq) seq sst)
    (hfree : ∀ k ∈ ids.keys, r.findCanon k = none) (hn : r.findName nm = none)
    (hfresh : ∀ o ∈ r.objs, o.id ≠ fresh) :
    RegOK (r.register { id := fresh, name := nm, canon := ids0.canon, keys := ids.keys } b) :=
  regOK_of_objs (regOK_register r h fresh seq sst hd ids0 ids nm h0 hkeys hfree hn hfresh) rfl

/-- a request for a complex either leaves the registry alone and creates nothing, or registers a new object
    whose keys are the rotations of the requested description -/
theorem request_inv (pfx : String) (r : Reg CKey) (fresh : Nat) (q : CplxReq) (h : RegOK r)
    (hfresh : ∀ o ∈ r.objs, o.id ≠ fresh) (hd : ∀ s, q.seq = some s → C02.Descr s q.sst) :
    ((complexRequest pfx r fresh q).1 = r ∧ ∀ i, (complexRequest pfx r fresh q).2.1 ≠ .ret i true) ∨
    ∃ (s : List String) (ids : CplxIds) (nm : String) (b : Bool), q.seq = some s ∧
      complexRequest pfx r fresh q =
        (r.register { id := fresh, name := nm, canon := ids.canon, keys := ids.keys } b, .ret fresh true, some ids) ∧
      RegOK (r.register { id := fresh, name := nm, canon := ids.canon, keys := ids.keys } b) ∧
      (s, q.sst) ∈ ids.keys := by
  unfold complexRequest
  cases hq : q.seq with
  | none =>
    left
    cases q.name with
    | none => exact ⟨rfl, fun i e => by cases e⟩
    | some n =>
      simp only
      rcases Reg.call_spec r none (some n) fresh [] false with ⟨_, _, _, e, _⟩ | ⟨h1, h2⟩
      · cases e
      · refine ⟨h1, fun i e => ?_⟩
        rcases h2 with ⟨o, ho⟩ | ⟨o, ho⟩ <;> rw [ho] at e <;> cases e
  | some s =>
    have hds := hd s hq
    have hd' := (C02.descr_iff _ _).mp hds
    simp only
    rcases Rot.ids_cases r s q.sst hd' with ⟨ids, hids, hmem, hsome⟩ | ⟨hfree, c, hc, hci⟩
    · left
      rw [hids]
      simp only
      rcases Reg.call_spec r (some ids.canon) (some (q.name.getD (q.prefix_.getD pfx ++ toString r.autoId))) fresh
        ids.keys q.name.isNone with ⟨n, k, _, e, _, hk, _⟩ | ⟨h1, h2⟩
      · cases e
        rw [hk] at hsome; cases hsome
      · refine ⟨h1, fun i e => ?_⟩
        rcases h2 with ⟨o, ho⟩ | ⟨o, ho⟩ <;> rw [ho] at e <;> cases e
    · obtain ⟨ids, hids, hic, hik⟩ : ∃ ids, complexIdentifiers r s q.sst = .ok ids ∧ ids.canon = c ∧
          ids.keys = (Rot.orb (Rot.nStr s) s q.sst).eraseDups := ⟨_, hci, rfl, rfl⟩
      rw [hids]
      simp only
      have hkeys : ∀ k, k ∈ ids.keys ↔ k ∈ C02.orbit (C02.nStrands s) s q.sst := by
        intro k; rw [hik, C02.orbit_eq, C02.nStrands_eq]; exact List.mem_eraseDups
      have hfk : ∀ k ∈ ids.keys, r.findCanon k = none :=
        fun k hk => hfree k (by rw [← C02.orbit_eq, ← C02.nStrands_eq]; exact (hkeys k).mp hk)
      rcases Reg.call_spec r (some ids.canon) (some (q.name.getD (q.prefix_.getD pfx ++ toString r.autoId))) fresh
        ids.keys q.name.isNone with ⟨n, k, e1, e2, hn, hk, hcall⟩ | ⟨h1, h2⟩
      · right
        cases e1; cases e2
        refine ⟨s, ids, _, _, rfl, by rw [hcall], ?_, ?_⟩
        · exact regOK_register' r h fresh s q.sst hds ids ids _ _
            (by rw [C02.orbit_eq, C02.nStrands_eq, hic]; exact hc) hkeys hfk hn hfresh
        · rw [hkeys, C02.orbit_eq, C02.nStrands_eq]
          exact Rot.self_mem_orb s q.sst hd'
      · left
        refine ⟨h1, fun i e => ?_⟩
        rcases h2 with ⟨o, ho⟩ | ⟨o, ho⟩ <;> rw [ho] at e <;> cases e

/-- a created complex with a correct state entry -/
theorem cso_create (w w' : World) (h : CplxStateOK w) (c : Nat) (cr cr' : ClassReg CKey) (ob : Obj CKey) (o : CplxObj)
    (hc : w.cplxs[c]? = some cr) (hcp : w'.cplxs = w.cplxs.set c cr') (hobjs : cr'.reg.objs = cr.reg.objs ++ [ob])
    (hreg : RegOK cr'.reg) (hcs : w'.cstate = w.cstate ++ [(w.nextId, o)]) (hid : ob.id = w.nextId)
    (hnext : w'.nextId = w.nextId + 1) (he : EntryOK ob o) : CplxStateOK w' := by
  refine ⟨?_, ?_, ?_⟩
  · intro c' cr'' hcr'
    rw [hcp] at hcr'
    rcases getElem?_set_cases _ _ _ _ _ hcr' with ⟨_, rfl, _⟩ | ⟨_, h2⟩
    · exact hreg
    · exact h.regs c' cr'' h2
  · intro c' cr'' ob' hcr' hob
    have hold : ∀ (c'' : Nat) (cr'' : ClassReg CKey), w.cplxs[c'']? = some cr'' → ob' ∈ cr''.reg.objs →
        ∃ o, w'.cstate.lookup ob'.id = some o ∧ EntryOK ob' o := by
      intro c'' cr'' h1 h2
      obtain ⟨o, ho, he⟩ := h.entry c'' cr'' ob' h1 h2
      exact ⟨o, by rw [hcs]; exact lookup_append_old _ _ _ _ ho, he⟩
    rw [hcp] at hcr'
    rcases getElem?_set_cases _ _ _ _ _ hcr' with ⟨_, rfl, _⟩ | ⟨_, h2⟩
    · rw [hobjs] at hob
      simp only [List.mem_append, List.mem_singleton] at hob
      rcases hob with hob | rfl
      · exact hold c cr hc hob
      · refine ⟨o, ?_, he⟩
        rw [hcs, hid]
        exact lookup_append_new _ w.nextId _ (fun p hp => by have := h.stateLt p hp; omega)
    · exact hold c' cr'' h2 hob
  · intro p hp
    rw [hcs] at hp
    simp only [List.mem_append, List.mem_singleton] at hp
    rcases hp with hp | rfl
    · have := h.stateLt p hp; omega
    · simp only; omega

/-- class `c`'s registry replaced -/
def withC (w : World) (c : Nat) (cr' : ClassReg CKey) : World := { w with cplxs := w.cplxs.set c cr' }

/-- **`ComplexS(sequence, structure, name, prefix)` preserves the state invariant**, provided a given sequence and
    structure are a well-formed description (aligned, balanced, no empty strand) -/
theorem cso_mkCplx (w : World) (c : Nat) (cr : ClassReg CKey) (hw : RdL.WOK w) (hs : CplxStateOK w)
    (hc : w.cplxs[c]? = some cr) (seq : Option (List (Option Nat))) (sst : List Char) (name pfx : Option String)
    (hd : ∀ s, seq = some s → C02.Descr ((w.seqNames s).getD []) sst) :
    CplxStateOK (w.mkCplx c seq sst name pfx).1 := by
  have hfresh : ∀ o ∈ cr.reg.objs, o.id ≠ w.nextId := by
    intro o ho e
    obtain ⟨n, hn1, hn2, _⟩ := hw.objNode .cplx c o.id ⟨cr, hc, o, ho, rfl⟩
    have := hw.lt n hn1
    omega
  have hR := request_inv (World.effPrefix w.cplxs 5 c) { cr.reg with autoId := World.effId w.cplxs 5 c } w.nextId
    { seq := seq.map (fun s => (w.seqNames s).getD []), sst := sst, name := name, prefix_ := pfx }
    ((hs.regs c cr hc).autoId _) hfresh (by
      intro s hs'
      cases seq with
      | none => cases hs'
      | some s0 =>
        simp only [Option.map_some, Option.some.injEq] at hs'
        subst hs'
        exact hd s0 rfl)
  unfold World.mkCplx
  simp only [hc]
  generalize complexRequest (World.effPrefix w.cplxs 5 c) { cr.reg with autoId := World.effId w.cplxs 5 c } w.nextId
    { seq := seq.map (fun s => (w.seqNames s).getD []), sst := sst, name := name, prefix_ := pfx } = res at hR
  obtain ⟨r', out, ids⟩ := res
  rcases hR with ⟨h1, h2⟩ | ⟨s, ids', nm, b, hq, hres, hreg, hmem⟩
  · simp only at h1 h2
    subst h1
    simp only
    have hframe : ∀ (cr' : ClassReg CKey) (ch : List Nat), cr'.reg.objs = cr.reg.objs →
        CplxStateOK ((withC w c cr').settle out .cplx c ch) := by
      intro cr' ch hobjs
      obtain ⟨a, b, d⟩ := settle_frame (withC w c cr') out .cplx c ch
      refine cso_frame w _ hs ?_ b d
      intro c' cr'' hcr'
      rw [a] at hcr'
      rcases getElem?_set_cases _ _ _ _ _ hcr' with ⟨rfl, rfl, _⟩ | ⟨_, h3⟩
      · exact ⟨cr, hc, hobjs⟩
      · exact ⟨cr'', h3, rfl⟩
    split
    · exact absurd rfl (h2 _)
    · exact hframe _ _ rfl
  · cases hres
    cases seq with
    | none => cases hq
    | some s0 =>
      simp only [Option.map_some, Option.some.injEq] at hq
      subst hq
      simp only [Option.map_some]
      have hfid := findId_register_new { cr.reg with autoId := World.effId w.cplxs 5 c }
        { id := w.nextId, name := nm, canon := ids'.canon, keys := ids'.keys } b hfresh
      simp only at hfid
      refine cso_create w _ hs c cr _ { id := w.nextId, name := nm, canon := ids'.canon, keys := ids'.keys } _ hc
        rfl rfl hreg rfl rfl rfl ?_
      refine ⟨hd s0 rfl, hmem, rfl, ?_, C03.coherent_fresh _ _ _ _ _⟩
      simp only [hfid, Option.map_some, Option.getD_some]

theorem inv_mkCplx (w : World) (c : Nat) (cr : ClassReg CKey) (hw : RdL.WOK w) (hs : CplxStateOK w)
    (hc : w.cplxs[c]? = some cr) (seq : Option (List (Option Nat))) (sst : List Char) (n : String)
    (hd : ∀ s, seq = some s → C02.Descr ((w.seqNames s).getD []) sst)
    (hch : ∀ ch ∈ (seq.getD []).filterMap id, RdL.HasNode w ch) :
    RdL.WOK (w.mkCplx c seq sst (some n) none).1 ∧ CplxStateOK (w.mkCplx c seq sst (some n) none).1 :=
  ⟨(RdL.mkCplx_grow w c cr hc seq sst n).wok hw hch (fun e => by cases e), cso_mkCplx w c cr hw hs hc seq sst _ _ hd⟩

/-! ### the mutable state: views and the `turns` setter -/

theorem lookup_cset (l : List (Nat × CplxObj)) (id i : Nat) (o' : CplxObj) :
    (l.map (fun p => if p.1 == id then (id, o') else p)).lookup i =
      if i = id then (l.lookup i).map (fun _ => o') else l.lookup i := by
  induction l with
  | nil => simp
  | cons a l ih =>
    obtain ⟨a1, a2⟩ := a
    simp only [List.map_cons]
    by_cases ha : a1 = id
    · subst ha
      simp only [beq_self_eq_true, if_true, List.lookup_cons]
      by_cases hi : i = a1
      · subst hi; simp
      · have : (i == a1) = false := by rw [beq_eq_false_iff_ne]; exact hi
        simp only [this, ih, if_neg hi]
    · have hb : (a1 == id) = false := by rw [beq_eq_false_iff_ne]; exact ha
      rw [hb, if_neg (by simp)]
      simp only [List.lookup_cons]
      by_cases hi : i = a1
      · subst hi
        simp only [beq_self_eq_true, if_neg ha]
      · have : (i == a1) = false := by rw [beq_eq_false_iff_ne]; exact hi
        simp only [this, ih]

theorem wok_cset (w : World) (h : RdL.WOK w) (id : Nat) (o' : CplxObj) : RdL.WOK (w.cset id o') :=
  wok_congr w _ h rfl ⟨rfl, rfl, rfl, rfl⟩ rfl rfl (fun k _ _ hh => by cases k <;> exact hh)

theorem cso_cset (w : World) (h : CplxStateOK w) (id : Nat) (o o' : CplxObj) (ho : w.cstate.lookup id = some o)
    (hrep : ∀ (c : Nat) (cr : ClassReg CKey) (ob : Obj CKey), w.cplxs[c]? = some cr → ob ∈ cr.reg.objs →
      EntryOK ob o → EntryOK ob o') : CplxStateOK (w.cset id o') := by
  refine ⟨h.regs, ?_, ?_⟩
  · intro c cr ob hc hob
    obtain ⟨o1, ho1, he1⟩ := h.entry c cr ob hc hob
    show ∃ o, (w.cstate.map (fun p => if p.1 == id then (id, o') else p)).lookup ob.id = some o ∧ EntryOK ob o
    rw [lookup_cset]
    by_cases hi : ob.id = id
    · rw [if_pos hi, ho1]
      rw [hi, ho] at ho1
      cases ho1
      exact ⟨o', rfl, hrep c cr ob hc hob he1⟩
    · rw [if_neg hi]
      exact ⟨o1, ho1, he1⟩
  · intro p hp
    obtain ⟨q, hq, e⟩ := List.mem_map.mp hp
    have := h.stateLt q hq
    have hpq : p.1 = q.1 := by
      rw [← e]
      by_cases hqi : q.1 = id
      · simp [hqi]
      · have : (q.1 == id) = false := by rw [beq_eq_false_iff_ne]; exact hqi
        simp [this]
    show p.1 < w.nextId
    omega

theorem entry_query (ob : Obj CKey) (o : CplxObj) (v : View) (he : EntryOK ob o) : EntryOK ob (o.query v).1 := by
  obtain ⟨g1, _, g3, g4, _, g6, g7⟩ := C03.query_coherent o v he.coh
  refine ⟨?_, ?_, ?_, ?_, g1⟩
  · rw [g3, g4]; exact he.descr
  · rw [g3, g4]; exact he.rot
  · rw [g6]; exact he.canon
  · rw [g7]; exact he.name

/-- **a view preserves the invariant** -/
theorem inv_queryC (w : World) (id : Nat) (v : View) (hw : RdL.WOK w) (hs : CplxStateOK w) :
    RdL.WOK (w.queryC id v).1 ∧ CplxStateOK (w.queryC id v).1 := by
  unfold World.queryC
  cases ho : w.cstate.lookup id with
  | none => exact ⟨hw, hs⟩
  | some o =>
    exact ⟨wok_cset w hw id _, cso_cset w hs id o _ ho (fun _ _ ob _ _ he => entry_query ob o v he)⟩

theorem rotationsFrom_mem (n : Nat) : ∀ (s : List String) (t : List Char) (rots : List (List String × List Char)),
    rotationsFrom n s t = .ok rots → ∀ p ∈ rots, ∃ k, rotateN k s t = .ok p := by
  induction n with
  | zero => intro s t rots h p hp; cases h; cases hp
  | succ m ih =>
    intro s t rots h p hp
    cases m with
    | zero =>
      cases h
      simp only [List.mem_singleton] at hp
      subst hp
      exact ⟨0, rfl⟩
    | succ m =>
      simp only [rotationsFrom] at h
      cases hone : rotateOnce s t with
      | error e => rw [hone] at h; cases h
      | ok r =>
        rw [hone] at h
        simp only at h
        cases hrest : rotationsFrom (m + 1) r.1 r.2 with
        | error e => rw [hrest] at h; cases h
        | ok rest =>
          rw [hrest] at h
          cases h
          simp only [List.mem_cons] at hp
          rcases hp with rfl | hp
          · exact ⟨0, rfl⟩
          · obtain ⟨k, hk⟩ := ih r.1 r.2 rest hrest p hp
            exact ⟨k + 1, by rw [ViewsRot.rotateN_succ, hone]; exact hk⟩

/-- the setter moves the state to a rotation of the current representation -/
theorem stPure_rotation (o : CplxObj) (v : Int) :
    ∃ k, rotateN k o.seq o.sst = .ok ((CplxObj.stPure o v).seq, (CplxObj.stPure o v).sst) := by
  unfold CplxObj.stPure
  simp only
  split
  · exact ⟨0, rfl⟩
  · cases hr : rotationsFrom (makeStrandTableList "+" o.seq).length o.seq o.sst with
    | error e => exact ⟨0, rfl⟩
    | ok rots =>
      simp only
      cases hp : rots[wrap (-(o.turns : Int) + v) (makeStrandTableList "+" o.seq).length]? with
      | none => exact ⟨0, rfl⟩
      | some p =>
        exact rotationsFrom_mem _ o.seq o.sst rots hr p (List.mem_of_getElem? hp)

theorem entry_setTurns (r : Reg CKey) (h : RegOK r) (ob : Obj CKey) (hob : ob ∈ r.objs) (o : CplxObj) (v : Int)
    (he : EntryOK ob o) : EntryOK ob (o.setTurns v).1 := by
  obtain ⟨g1, ⟨s1, s2, _, _, _⟩, g3, g4⟩ := C03.setTurns_coh o v ((C03.coherent_iff o).1 he.coh)
  obtain ⟨k, hk⟩ := stPure_rotation o v
  rw [← s1, ← s2] at hk
  have hd' := (C02.descr_iff _ _).mp he.descr
  obtain ⟨y, hy, hdy, _⟩ := Rot.descr_rotateN k o.seq o.sst hd'
  rw [hk] at hy
  cases hy
  obtain ⟨hdc, hkeys⟩ := h.orb ob hob
  have hdc' := (C02.descr_iff _ _).mp hdc
  refine ⟨(C02.descr_iff _ _).mpr hdy, ?_, by rw [g3]; exact he.canon, by rw [g4]; exact he.name,
    (C03.coherent_iff _).2 g1⟩
  have hcur := (hkeys _).mp he.rot
  rw [C02.orbit_eq, C02.nStrands_eq, Rot.mem_orb_any _ _ hdc'] at hcur
  obtain ⟨i, hi⟩ := hcur
  rw [hkeys, C02.orbit_eq, C02.nStrands_eq, Rot.mem_orb_any _ _ hdc']
  exact ⟨i + k, by rw [ViewsRot.rotateN_add_ok i k _ _ _ hi]; exact hk⟩

/-- **the `turns` setter preserves the invariant** -/
theorem inv_setTurns (w : World) (id : Nat) (v : Int) (hw : RdL.WOK w) (hs : CplxStateOK w) :
    RdL.WOK (w.setTurns id v).1 ∧ CplxStateOK (w.setTurns id v).1 := by
  unfold World.setTurns
  cases ho : w.cstate.lookup id with
  | none => exact ⟨hw, hs⟩
  | some o =>
    exact ⟨wok_cset w hw id _, cso_cset w hs id o _ ho
      (fun c cr ob hc hob he => entry_setTurns cr.reg (hs.regs c cr hc) ob hob o v he)⟩

theorem inv_collect (w : World) (hw : RdL.WOK w) (hs : CplxStateOK w) : RdL.WOK w.collect ∧ CplxStateOK w.collect :=
  ⟨RdL.wok_collect w hw, cso_collect w hs⟩

end Dsd.SplitObj
