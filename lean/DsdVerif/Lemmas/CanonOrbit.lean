/-
Orbits of well-formed complex descriptions under strand rotation (C02).
-/
import DsdVerif.Lemmas.RotatePeriod
import DsdVerif.Model.Objects

namespace Dsd.Rot
open Dsd.Bracket

/-- lemma-level copy of `C02.Descr` (stated with `Al` / `cword`) -/
structure Descr' (seq : List String) (sst : List Char) : Prop where
  al : Al seq sst
  bal : ∃ t, matchW (cword sst) = some t
  chars : OkChars sst
  nonempty : ∀ s ∈ splitOn "+" seq, s ≠ []

def nStr (seq : List String) : Nat := (makeStrandTableList "+" seq).length

def orb (n : Nat) (seq : List String) (sst : List Char) : List (List String × List Char) :=
  (List.range n).filterMap (fun k => (rotateN k seq sst).toOption)

theorem nStr_eq (seq : List String) (h : ∀ s ∈ splitOn "+" seq, s ≠ []) :
    nStr seq = (splitOn "+" seq).length := by
  unfold nStr makeStrandTableList
  rw [List.filter_eq_self.mpr]
  intro s hs
  have := h s hs
  cases s with
  | nil => exact absurd rfl this
  | cons a b => rfl

theorem nStr_pos (seq : List String) (h : ∀ s ∈ splitOn "+" seq, s ≠ []) : 0 < nStr seq := by
  rw [nStr_eq seq h]
  exact List.length_pos_iff.mpr (splitOn_ne_nil "+" seq)

theorem rotateOnce_noplus (seq : List String) (sst : List Char) (h : "+" ∉ seq) :
    rotateOnce seq sst = .ok (seq, sst) := by
  unfold rotateOnce
  have : seq.idxOf? "+" = none := by
    simp [List.idxOf?, List.findIdx?_eq_none_iff]
    intro x hx e; subst e; exact h hx
  rw [this]

theorem splitOn_rotL (seq : List String) (p : Nat) (hp : seq.idxOf? "+" = some p) :
    splitOn "+" (rotL seq "+" p) = (splitOn "+" seq).drop 1 ++ (splitOn "+" seq).take 1 := by
  obtain ⟨h1, h2⟩ := idxOf?_split seq "+" p hp
  have e : splitOn "+" seq = [seq.take p] ++ splitOn "+" (seq.drop (p + 1)) := by
    conv => lhs; rw [h1]
    rw [splitOn_append_sep, splitOn_not_mem _ _ h2]
  rw [e]
  unfold rotL
  simp only [List.append_assoc, List.singleton_append]
  rw [splitOn_append_sep, splitOn_not_mem _ _ h2]
  simp

/-- one rotation of a well-formed description succeeds and gives a well-formed description
    with the same number of strands -/
theorem descr_rotateOnce (seq : List String) (sst : List Char) (hd : Descr' seq sst) :
    ∃ nx, rotateOnce seq sst = .ok nx ∧ Descr' nx.1 nx.2 ∧ nStr nx.1 = nStr seq := by
  by_cases hplus : "+" ∈ seq
  · obtain ⟨p, hp⟩ := idxOf?_isSome_of_mem seq "+" hplus
    obtain ⟨t, ht⟩ := hd.bal
    obtain ⟨sst', t', hrot, hal', hok', hm', _⟩ := rotateOnce_step seq sst p t hd.al hd.chars hp ht
    have hsp := splitOn_rotL seq p hp
    have hne : ∀ s ∈ splitOn "+" (rotL seq "+" p), s ≠ [] := by
      intro s hs
      rw [hsp, List.mem_append] at hs
      rcases hs with hs | hs
      · exact hd.nonempty s (List.mem_of_mem_drop hs)
      · exact hd.nonempty s (List.mem_of_mem_take hs)
    refine ⟨(rotL seq "+" p, sst'), hrot, ⟨hal', ⟨t', hm'⟩, hok', hne⟩, ?_⟩
    rw [nStr_eq _ hne, nStr_eq _ hd.nonempty, hsp]
    have := List.length_pos_iff.mpr (splitOn_ne_nil "+" seq)
    simp; omega
  · exact ⟨(seq, sst), rotateOnce_noplus seq sst hplus, hd, rfl⟩

/-- `n` rotations of an `n`-stranded well-formed description are the identity -/
theorem descr_period (seq : List String) (sst : List Char) (hd : Descr' seq sst) :
    rotateN (nStr seq) seq sst = .ok (seq, sst) := by
  rw [nStr_eq seq hd.nonempty]
  obtain ⟨t, hm⟩ := hd.bal
  have hM := matchW_sound _ _ hm
  by_cases hplus : "+" ∈ seq
  · rw [splitOn_length]
    apply period_aux seq sst t hd.al hd.chars hm hplus _ seq sst t 0 hd.al hd.chars hm
    · rw [conj_zero]
      intro x hx; apply hM.out; rw [cword_length]; omega
    · omega
    · rw [R_zero]
    · simp [List.count_append]
  · rw [splitOn_not_mem _ _ hplus]
    simp only [List.length_singleton, rotateN, rotateOnce_noplus seq sst hplus]
    rfl

theorem rotateN_succ (k : Nat) (seq : List String) (sst : List Char) :
    rotateN (k + 1) seq sst = (rotateOnce seq sst >>= fun r => rotateN k r.1 r.2) := rfl

theorem rotateN_add (a b : Nat) (seq : List String) (sst : List Char) :
    rotateN (a + b) seq sst = (rotateN a seq sst >>= fun y => rotateN b y.1 y.2) := by
  induction a generalizing seq sst with
  | zero => simp [rotateN]; rfl
  | succ a ih =>
    have e : a + 1 + b = (a + b) + 1 := by omega
    rw [e, rotateN_succ, rotateN_succ]
    cases h : rotateOnce seq sst with
    | error err => rfl
    | ok r =>
      show rotateN (a + b) r.1 r.2 = (rotateN a r.1 r.2 >>= fun y => rotateN b y.1 y.2)
      exact ih r.1 r.2

theorem descr_rotateN (k : Nat) (seq : List String) (sst : List Char) (hd : Descr' seq sst) :
    ∃ y, rotateN k seq sst = .ok y ∧ Descr' y.1 y.2 ∧ nStr y.1 = nStr seq := by
  induction k generalizing seq sst with
  | zero => exact ⟨(seq, sst), rfl, hd, rfl⟩
  | succ k ih =>
    obtain ⟨nx, h1, h2, h3⟩ := descr_rotateOnce seq sst hd
    obtain ⟨y, h4, h5, h6⟩ := ih nx.1 nx.2 h2
    refine ⟨y, ?_, h5, by rw [h6, h3]⟩
    rw [rotateN_succ, h1]; exact h4

theorem rotateN_add_period (a q : Nat) (seq : List String) (sst : List Char) (hd : Descr' seq sst) :
    rotateN (a + nStr seq * q) seq sst = rotateN a seq sst := by
  induction q with
  | zero => simp
  | succ q ih =>
    have e : a + nStr seq * (q + 1) = nStr seq + (a + nStr seq * q) := by
      rw [Nat.mul_succ]; omega
    rw [e, rotateN_add, descr_period seq sst hd]
    exact ih

theorem rotateN_mod (k : Nat) (seq : List String) (sst : List Char) (hd : Descr' seq sst) :
    rotateN k seq sst = rotateN (k % nStr seq) seq sst := by
  have := rotateN_add_period (k % nStr seq) (k / nStr seq) seq sst hd
  rw [Nat.mod_add_div] at this
  exact this

theorem toOption_eq_some {ε α} (x : Except ε α) (a : α) : x.toOption = some a ↔ x = .ok a := by
  cases x <;> simp [Except.toOption]

theorem mem_orb (n : Nat) (seq : List String) (sst : List Char) (z : List String × List Char) :
    z ∈ orb n seq sst ↔ ∃ k, k < n ∧ rotateN k seq sst = .ok z := by
  unfold orb
  simp only [List.mem_filterMap, List.mem_range, toOption_eq_some]

theorem mem_orb_any (seq : List String) (sst : List Char) (hd : Descr' seq sst)
    (z : List String × List Char) :
    z ∈ orb (nStr seq) seq sst ↔ ∃ k, rotateN k seq sst = .ok z := by
  rw [mem_orb]
  constructor
  · rintro ⟨k, _, h⟩; exact ⟨k, h⟩
  · rintro ⟨k, h⟩
    refine ⟨k % nStr seq, Nat.mod_lt _ (nStr_pos seq hd.nonempty), ?_⟩
    rw [← rotateN_mod k seq sst hd]; exact h

/-- a rotation has the same orbit (as a set) -/
theorem orb_rotateN (a : Nat) (seq : List String) (sst : List Char) (hd : Descr' seq sst)
    (y : List String × List Char) (hy : rotateN a seq sst = .ok y) (z : List String × List Char) :
    z ∈ orb (nStr seq) y.1 y.2 ↔ z ∈ orb (nStr seq) seq sst := by
  obtain ⟨y', hy', hdy, hny⟩ := descr_rotateN a seq sst hd
  rw [hy] at hy'; cases hy'
  rw [← hny, mem_orb_any y.1 y.2 hdy, hny, mem_orb_any seq sst hd]
  constructor
  · rintro ⟨k, h⟩
    refine ⟨a + k, ?_⟩
    rw [rotateN_add, hy]; exact h
  · rintro ⟨k, h⟩
    refine ⟨k + a * (nStr seq - 1), ?_⟩
    have h1 : rotateN (a + (k + a * (nStr seq - 1))) seq sst = .ok z := by
      have hpos := nStr_pos seq hd.nonempty
      have e : a + (k + a * (nStr seq - 1)) = k + nStr seq * a := by
        have : a * (nStr seq - 1) + a = a * nStr seq := by
          rw [← Nat.mul_succ]; congr 1; omega
        rw [Nat.mul_comm (nStr seq) a]; omega
      rw [e, rotateN_add_period k a seq sst hd]; exact h
    rw [rotateN_add, hy] at h1; exact h1

theorem orb_succ (k : Nat) (seq : List String) (sst : List Char) (nx : List String × List Char)
    (h : rotateOnce seq sst = .ok nx) : orb (k + 1) seq sst = (seq, sst) :: orb k nx.1 nx.2 := by
  unfold orb
  rw [List.range_succ_eq_map, List.filterMap_cons]
  have h0 : (rotateN 0 seq sst).toOption = some (seq, sst) := rfl
  rw [h0]
  simp only [List.filterMap_map]
  congr 1
  have : ((fun k => (rotateN k seq sst).toOption) ∘ Nat.succ) =
      (fun k => (rotateN k nx.1 nx.2).toOption) := by
    funext j
    simp only [Function.comp, Nat.succ_eq_add_one, rotateN_succ, h]
    rfl
  rw [this]

end Dsd.Rot
