/-
Lemmas about the statement-level translation of `read_pil` (Gen/PyReadPil.lean): what ONE iteration of its loop does, by the outcome of
`read_pil_line` and the class of the object, and the fold over an `ignore` list.
-/
import DsdVerif.Gen.PyReadPil

namespace Dsd.PyReadPilL
open Dsd Dsd.PP Dsd.Gen

variable {ω : Type}

/-- the statement's keyword is in the (non-empty) `ignore` list -/
def ignored (ignore : Option (List String)) (line : List Tree) : Bool :=
  match ignore, line with
  | some ign, .tok k :: _ => ign.contains k
  | _, _ => false

/-- an ignored statement: the iteration is `continue` - `read_pil_line` is not called, nothing changes -/
theorem loop_ignored (env : ReadPil.Env ω) (data : String) (is_file : Bool) (ignore : Option (List String)) (v : read_pil.Vars)
    (line : List Tree) (h : ignored ignore line = true) :
    read_pil.loop1 env data is_file ignore v line = pure v := by
  match ignore, line, h with
  | some ign, .tok k :: rest, h =>
    simp only [ignored] at h
    have hne : ign.isEmpty = false := by cases ign <;> simp_all
    have hm : k ∈ ign := by simpa using h
    simp [read_pil.loop1, Py.truthyOL, hne, Py.idx, Py.unwrap, Py.treeInStrs, hm]

/-- the loop over a statement list equals the loop over the statements that are not ignored -/
theorem fold_ignore (env : ReadPil.Env ω) (data : String) (is_file : Bool) (ignore : Option (List String)) (lines : List (List Tree))
    (v : read_pil.Vars) :
    List.foldlM (read_pil.loop1 env data is_file ignore) v lines =
      List.foldlM (read_pil.loop1 env data is_file ignore) v (lines.filter (fun l => !ignored ignore l)) := by
  induction lines generalizing v with
  | nil => rfl
  | cons l ls ih =>
    by_cases h : ignored ignore l = true
    · rw [List.filter_cons_of_neg (by simpa using h), List.foldlM_cons, loop_ignored env data is_file ignore v l h]
      simpa using ih v
    · rw [List.filter_cons_of_pos (by simpa using h), List.foldlM_cons, List.foldlM_cons]
      congr 1; funext v'; exact ih v'

/-- the configured reader: all five slots hold a class -/
def Configured (env : ReadPil.Env ω) (D S C M R : Py.ClassId) : Prop :=
  env.g = { Domain := some D, Strand := some S, Complex := some C, Macrostate := some M, Reaction := some R }

/-- the Domain branch: NOT brought into a closed form here - it is the generated iteration itself for an outcome that is already known
    (`read_pil_line` replaced by the constant `obj x`): the object is filed under its name, then `~obj` under the complement's name, with
    the reverse Watson-Crick complement as its sequence when the object has one and the complement none (KeyError -> PilFormatError) -/
def fileDomain (env : ReadPil.Env ω) (v : read_pil.Vars) (x : Py.Obj) : ReadPil.M ω read_pil.Vars :=
  read_pil.loop1 { env with read_pil_line := fun _ => pure (.obj x) } "" false none v []

/-- **one iteration in closed form**: where the outcome `o` of `read_pil_line` is filed.  The tests are made in THIS order - Domain, Strand,
    Complex, Macrostate, Reaction - so an object whose class is a subclass of both the Strand and the Complex slot (StrandS is a subclass of
    ComplexS) is a strand; a reaction is condensed iff `rtype == 'condensed'`; a raw line goes to `other`; an object of none of the five
    classes fails the `assert` -/
def file (env : ReadPil.Env ω) (D S C M R : Py.ClassId) (v : read_pil.Vars) (o : Py.Val) : ReadPil.M ω read_pil.Vars :=
  match o with
  | .raw _ => pure { v with obj := o, out_other := v.out_other ++ [o] }
  | .obj x =>
    if env.sub x.cls D then fileDomain env v x
    else if env.sub x.cls S then pure { v with obj := o, out_strands := Py.dictSet v.out_strands x.name o }
    else if env.sub x.cls C then pure { v with obj := o, out_complexes := Py.dictSet v.out_complexes x.name o }
    else if env.sub x.cls M then pure { v with obj := o, out_macrostates := Py.dictSet v.out_macrostates x.name o }
    else if env.sub x.cls R then
      (if x.rtype == "condensed" then pure { v with obj := o, out_con_reactions := Py.setAdd v.out_con_reactions o }
       else pure { v with obj := o, out_det_reactions := Py.setAdd v.out_det_reactions o })
    else throw Err.assertion

theorem loop_interpreted (env : ReadPil.Env ω) (D S C M R : Py.ClassId) (hg : Configured env D S C M R) (data : String) (is_file : Bool)
    (v : read_pil.Vars) (line : List Tree) :
    read_pil.loop1 env data is_file none v line = env.read_pil_line line >>= file env D S C M R v := by
  unfold Configured at hg
  simp only [read_pil.loop1, Py.truthyOL, hg]
  simp only [Bool.false_eq_true, if_false]
  congr 1; funext o
  cases o with
  | raw l => simp [file, Py.isinstanceG, Py.valIsList]
  | obj x =>
    simp only [file, Py.isinstanceG, Py.valAttr, Py.valObj, Py.valIsList, fileDomain, read_pil.loop1, Py.truthyOL, hg]
    by_cases hD : env.sub x.cls D = true
    · simp [hD, Py.isinstanceG, Py.valAttr, Py.valObj]
    · by_cases hS : env.sub x.cls S = true
      · simp [hD, hS]
      · by_cases hC : env.sub x.cls C = true
        · simp [hD, hS, hC]
        · by_cases hM : env.sub x.cls M = true
          · simp [hD, hS, hC, hM]
          · by_cases hR : env.sub x.cls R = true
            · by_cases hc : x.rtype = "condensed" <;> (simp [hD, hS, hC, hM, hR, hc]) <;> try rfl
            · (simp [hD, hS, hC, hM, hR]) <;> try rfl

end Dsd.PyReadPilL
