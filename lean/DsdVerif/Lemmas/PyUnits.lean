/-
`flint` and `convert_units` as translated from the source (Gen/PyUnits.lean) are the model functions of Model/Units.lean.
Core Lean only.
-/
import DsdVerif.Gen.PyUnits
import DsdVerif.Model.Units

set_option linter.unusedSimpArgs false

namespace Dsd.PyUnitsL
open Dsd Gen

/-- the model's exceptions as the exceptions the transcription raises -/
def errOf : Units.Err → Err
  | .valueError => .fault "ValueError"
  | .keyError => .fault "KeyError"
  | .objectInit => .objectInit
  | .notImplemented => .notImplemented

/-- a result of the model (`Model/Units.lean` has its own small exception type) read as a result of the transcription -/
def liftU {α} (r : Except Units.Err α) : Except Err α :=
  match r with
  | .ok a => .ok a
  | .error e => .error (errOf e)

@[simp] theorem liftU_ok {α} (a : α) : liftU (.ok a : Except Units.Err α) = .ok a := rfl
@[simp] theorem liftU_error {α} (e : Units.Err) : liftU (.error e : Except Units.Err α) = .error (errOf e) := rfl

/-! ### flint -/

/-- `flint(n)` returns its argument's value; in particular the `except OverflowError` handler is never entered for the numbers
    the reading represents (finite values) -/
theorem py_flint_eq (n : Rat) : py_flint n = .ok n := by
  unfold py_flint
  simp only [Py.toFloat, Py.toInt, bind, Except.bind, pure, Except.pure, tryCatch, tryCatchThe, MonadExceptOf.tryCatch, Except.tryCatch]
  by_cases h : (n == Py.truncVal n) = true
  · have h' : Py.truncVal n = n := (beq_iff_eq.mp h).symm
    rw [h']
    simp only [beq_self_eq_true, if_true]
    rfl
  · simp only [h]
    rfl

/-! ### the regenerated tables as Python dicts -/

theorem find?_reverse_of_unique {α} (p : α → Bool) (l : List α)
    (h : l.Pairwise (fun a b => ¬ (p a = true ∧ p b = true))) : l.reverse.find? p = l.find? p := by
  induction l with
  | nil => rfl
  | cons x xs ih =>
    rw [List.pairwise_cons] at h
    rw [List.reverse_cons, List.find?_append, ih h.2]
    cases hx : p x with
    | true =>
      have hn : xs.find? p = none := by
        rw [List.find?_eq_none]
        intro b hb hpb
        exact h.1 b hb ⟨hx, hpb⟩
      simp [hn, List.find?, hx]
    | false =>
      simp [List.find?, hx]

/-- a table whose keys are pairwise different: look-up of the FIRST item with the key (Python's `d[k]` on the item list, `List.lookup`)
    is the model's look-up (the LAST item with the key: what a dict display with a repeated key would keep) -/
theorem lookup_unitTable (tbl : List (String × (Nat × Nat))) (hk : tbl.Pairwise (fun a b => a.1 ≠ b.1)) (u : String) :
    (Py.unitTable tbl).lookup u = (Units.lookup tbl u).map Py.scaleVal := by
  unfold Units.lookup
  rw [find?_reverse_of_unique]
  · unfold Py.unitTable
    induction tbl with
    | nil => rfl
    | cons r rs ih =>
      rw [List.pairwise_cons] at hk
      simp only [List.map_cons, List.lookup_cons, List.find?_cons]
      by_cases h : r.1 = u
      · subst h; simp
      · have h1 : (u == r.1) = false := by simpa using fun e => h e.symm
        have h2 : (r.1 == u) = false := by simpa using h
        rw [h1, h2]
        exact ih hk.2
  · refine hk.imp ?_
    intro a b hab ⟨ha, hb⟩
    exact hab ((beq_iff_eq.mp ha).trans (beq_iff_eq.mp hb).symm)

theorem dictHas_unitTable (tbl) (hk : tbl.Pairwise (fun a b => a.1 ≠ b.1)) (u : String) :
    Py.dictHas (Py.unitTable tbl) u = (Units.lookup tbl u).isSome := by
  unfold Py.dictHas; rw [lookup_unitTable tbl hk]; cases Units.lookup tbl u <;> rfl

theorem dictGet_unitTable (tbl) (hk : tbl.Pairwise (fun a b => a.1 ≠ b.1)) (u : String) :
    Py.dictGet (Py.unitTable tbl) u =
      match Units.lookup tbl u with
      | some p => .ok (Units.scaleOf p)
      | none => .error (.fault "KeyError") := by
  unfold Py.dictGet; rw [lookup_unitTable tbl hk]; cases Units.lookup tbl u <;> rfl

/-- the keys of the dict displays inside `convert_units` are pairwise different (also checked by the translator) -/
theorem conc_keys : Gen.units_conc.Pairwise (fun a b => a.1 ≠ b.1) := by decide
theorem time_keys : Gen.units_time.Pairwise (fun a b => a.1 ≠ b.1) := by decide

/-- no scale of the tables is zero: the division in `convert_units` cannot raise ZeroDivisionError -/
theorem conc_pos : ∀ r ∈ Gen.units_conc, r.2.1 ≠ 0 ∧ r.2.2 ≠ 0 := by decide
theorem time_pos : ∀ r ∈ Gen.units_time, r.2.1 ≠ 0 ∧ r.2.2 ≠ 0 := by decide

theorem lookup_mem' (tbl : List (String × (Nat × Nat))) (u : String) (p) (h : Units.lookup tbl u = some p) : (u, p) ∈ tbl := by
  unfold Units.lookup at h
  cases hf : tbl.reverse.find? (fun r => r.1 == u) with
  | none => simp [hf] at h
  | some r =>
    simp [hf] at h
    have hm := List.mem_of_find?_eq_some hf
    have hp := List.find?_some hf
    simp at hp hm
    obtain ⟨a, b⟩ := r
    simp at hp h; subst hp; subst h; exact hm

theorem inv_ne_zero' (a : Rat) (h : a ≠ 0) : a⁻¹ ≠ 0 := by
  intro h0
  apply h
  rw [← Rat.inv_inv a, h0, Rat.inv_zero]

theorem scaleOf_ne_zero' (p : Nat × Nat) (h : p.1 ≠ 0 ∧ p.2 ≠ 0) : Units.scaleOf p ≠ 0 := by
  unfold Units.scaleOf
  rw [Rat.div_def]
  intro h0
  rcases Rat.mul_eq_zero.mp h0 with h1 | h1
  · exact h.1 (Rat.natCast_eq_zero_iff.mp h1)
  · exact inv_ne_zero' _ (fun e => h.2 (Rat.natCast_eq_zero_iff.mp e)) h1

theorem scale_ne_zero (tbl) (hp : ∀ r ∈ tbl, r.2.1 ≠ 0 ∧ r.2.2 ≠ 0) (u : String) (p) (h : Units.lookup tbl u = some p) :
    Units.scaleOf p ≠ 0 := scaleOf_ne_zero' p (hp _ (lookup_mem' tbl u p h))

/-! ### convert_units -/

theorem div_ok (a b : Rat) (h : b ≠ 0) : Py.div a b = .ok (a / b) := by
  unfold Py.div; rw [if_neg h]; rfl

/-- **`convert_units` as written is the model `Units.convert`**, for every value and every pair of unit names: the same number, or
    the same exception (`ValueError` for an unknown `unit_in`, `KeyError` for a `unit_out` outside the family of `unit_in`) -/
theorem py_convert_units_eq (v : Rat) (a b : String) : py_convert_units v a b = liftU (Units.convert v a b) := by
  unfold py_convert_units Units.convert
  simp only [dictHas_unitTable _ conc_keys, dictHas_unitTable _ time_keys, dictGet_unitTable _ conc_keys,
    dictGet_unitTable _ time_keys]
  cases hca : Units.lookup Gen.units_conc a with
  | some sa =>
    cases hcb : Units.lookup Gen.units_conc b with
    | some sb =>
      have := scale_ne_zero _ conc_pos b sb hcb
      simp [bind, Except.bind, div_ok _ _ this, py_flint_eq]
    | none => simp [bind, Except.bind, errOf]
  | none =>
    cases hta : Units.lookup Gen.units_time a with
    | none => simp [throw, throwThe, MonadExceptOf.throw, errOf]
    | some sa =>
      cases htb : Units.lookup Gen.units_time b with
      | some sb =>
        have := scale_ne_zero _ time_pos b sb htb
        simp [bind, Except.bind, div_ok _ _ this, py_flint_eq]
      | none => simp [bind, Except.bind, errOf]

end Dsd.PyUnitsL
