/-
The machine-generated statement-level translation of `rotate_complex_once` (Gen/PyFuncs.lean) is the
hand-written model `rotateOnce` (Model/Complex.lean) whenever sequence and structure have the same length.
-/
import DsdVerif.Gen.PyFuncs
import DsdVerif.Lemmas.RotateScan

namespace Dsd.PyEq
open Dsd Dsd.Gen

/-! ### `setAll` does not depend on the order of the indices -/

theorem setAll_reverse {α} (l : List α) (idx : List Nat) (v : α) :
    setAll l idx.reverse v = setAll l idx v := by
  apply List.ext_getElem?
  intro i
  rw [Rot.setAll_get, Rot.setAll_get]
  simp

/-! ### loops 2 and 4: writing one character at every index of the stack -/

theorem loop2_fold (seq : List String) (sst : List Char) (is : List Nat) (v : rotate_complex_once.Vars)
    (h : ∀ a ∈ is, a < v.nstr.length) :
    List.foldlM (rotate_complex_once.loop2 seq sst) v is = .ok { v with nstr := setAll v.nstr is ')' } := by
  induction is generalizing v with
  | nil => rfl
  | cons a is ih =>
    have ha : a < v.nstr.length := h a (by simp)
    rw [List.foldlM_cons]
    have e : rotate_complex_once.loop2 seq sst v a = .ok { v with nstr := v.nstr.set a ')' } := by
      simp [rotate_complex_once.loop2, Py.setIdx, ha, bind, Except.bind, pure, Except.pure]
    rw [e]
    show List.foldlM _ _ is = _
    rw [ih]
    · rfl
    · intro b hb; simp; exact h b (by simp [hb])

theorem loop4_fold (seq : List String) (sst : List Char) (is : List Nat) (v : rotate_complex_once.Vars)
    (h : ∀ a ∈ is, a < v.nstr.length) :
    List.foldlM (rotate_complex_once.loop4 seq sst) v is = .ok { v with nstr := setAll v.nstr is '(' } := by
  induction is generalizing v with
  | nil => rfl
  | cons a is ih =>
    have ha : a < v.nstr.length := h a (by simp)
    rw [List.foldlM_cons]
    have e : rotate_complex_once.loop4 seq sst v a = .ok { v with nstr := v.nstr.set a '(' } := by
      simp [rotate_complex_once.loop4, Py.setIdx, ha, bind, Except.bind, pure, Except.pure]
    rw [e]
    show List.foldlM _ _ is = _
    rw [ih]
    · rfl
    · intro b hb; simp; exact h b (by simp [hb])


/-! ### loops 1 and 3: the two bracket scans -/

theorem loop1_step (seq : List String) (sst : List Char) (v : rotate_complex_once.Vars) (i : Nat) (c : Char)
    (hc : v.nstr[i]? = some c) :
    rotate_complex_once.loop1 seq sst v i =
      if c = '(' then .ok { v with stack := v.stack ++ [i] }
      else if c = ')' then
        (if v.stack = [] then .error Err.secondaryStructure else .ok { v with stack := v.stack.dropLast })
      else .ok v := by
  unfold rotate_complex_once.loop1
  simp only [Py.idx, hc]
  by_cases h1 : c = '('
  · subst h1; rfl
  · by_cases h2 : c = ')'
    · subst h2
      rcases List.eq_nil_or_concat v.stack with h | ⟨l, a, h⟩
      · simp only [h, Py.pop]; rfl
      · simp [h, Py.pop, bind, Except.bind, pure, Except.pure]
    · simp [h1, h2,  bind, Except.bind, pure, Except.pure]

theorem loop3_step (seq : List String) (sst : List Char) (v : rotate_complex_once.Vars) (i : Nat) (c : Char)
    (hc : v.nstr[i]? = some c) :
    rotate_complex_once.loop3 seq sst v i =
      if c = ')' then .ok { v with stack := v.stack ++ [i] }
      else if c = '(' then
        (if v.stack = [] then .error Err.secondaryStructure else .ok { v with stack := v.stack.dropLast })
      else .ok v := by
  unfold rotate_complex_once.loop3
  simp only [Py.idx, hc]
  by_cases h1 : c = ')'
  · subst h1; rfl
  · by_cases h2 : c = '('
    · subst h2
      rcases List.eq_nil_or_concat v.stack with h | ⟨l, a, h⟩
      · simp only [h, Py.pop]; rfl
      · simp [h, Py.pop, bind, Except.bind, pure, Except.pure]
    · simp [h1, h2,  bind, Except.bind, pure, Except.pure]

theorem foldlM_cons_error {α β} (f : β → α → Py.M β) (b : β) (a : α) (l : List α) (e : Err)
    (h : f b a = .error e) : List.foldlM f b (a :: l) = .error e := by
  rw [List.foldlM_cons, h]; rfl

theorem foldlM_cons_ok {α β} (f : β → α → Py.M β) (b b' : β) (a : α) (l : List α)
    (h : f b a = .ok b') : List.foldlM f b (a :: l) = List.foldlM f b' l := by
  rw [List.foldlM_cons, h]; rfl

theorem loop1_fold (seq : List String) (sst : List Char) (cs : List Char) (i : Nat) (st : List Nat)
    (v : rotate_complex_once.Vars) (hs : v.stack = st.reverse)
    (hc : ∀ k (hk : k < cs.length), v.nstr[i + k]? = some cs[k]) :
    List.foldlM (rotate_complex_once.loop1 seq sst) v (List.range' i cs.length) =
      match scanFwd cs i st with
      | none => .error Err.secondaryStructure
      | some st' => .ok { v with stack := st'.reverse } := by
  induction cs generalizing i st v with
  | nil => cases v; simp_all [scanFwd, pure, Except.pure]
  | cons c cs ih =>
    have h0 : v.nstr[i]? = some c := by
      have := hc 0 (Nat.zero_lt_succ _); rw [Nat.add_zero] at this; exact this
    have htl : ∀ (w : rotate_complex_once.Vars), w.nstr = v.nstr →
        ∀ k (hk : k < cs.length), w.nstr[i + 1 + k]? = some cs[k] := by
      intro w hw k hk
      have := hc (k + 1) (Nat.succ_lt_succ hk)
      rw [hw, Nat.add_assoc, Nat.add_comm 1 k]; exact this
    have step := loop1_step seq sst v i c h0
    rw [List.length_cons, List.range'_succ]
    unfold scanFwd
    by_cases h1 : c = '('
    · rw [if_pos h1] at step ⊢
      rw [foldlM_cons_ok _ _ _ _ _ step]
      exact ih (i + 1) (i :: st) { v with stack := v.stack ++ [i] } (by simp [hs]) (htl _ rfl)
    · by_cases h2 : c = ')'
      · rw [if_neg h1, if_pos h2] at step ⊢
        cases st with
        | nil =>
          rw [if_pos (by simp [hs])] at step
          rw [foldlM_cons_error _ _ _ _ _ step]
        | cons a rest =>
          rw [if_neg (by simp [hs])] at step
          rw [foldlM_cons_ok _ _ _ _ _ step]
          exact ih (i + 1) rest { v with stack := v.stack.dropLast } (by simp [hs]) (htl _ rfl)
      · rw [if_neg h1, if_neg h2] at step ⊢
        rw [foldlM_cons_ok _ _ _ _ _ step]
        exact ih (i + 1) st v hs (htl _ rfl)

/-- the indices `i, i-1, …` (`n` of them) -/
def down : Nat → Nat → List Nat
  | _, 0 => []
  | i, n + 1 => i :: down (i - 1) n

theorem loop3_fold (seq : List String) (sst : List Char) (cs : List Char) (i : Nat) (st : List Nat)
    (v : rotate_complex_once.Vars) (hs : v.stack = st.reverse)
    (hc : ∀ k (hk : k < cs.length), v.nstr[i - k]? = some cs[k]) :
    List.foldlM (rotate_complex_once.loop3 seq sst) v (down i cs.length) =
      match scanBwd cs i st with
      | none => .error Err.secondaryStructure
      | some st' => .ok { v with stack := st'.reverse } := by
  induction cs generalizing i st v with
  | nil => cases v; simp_all [scanBwd, down, pure, Except.pure]
  | cons c cs ih =>
    have h0 : v.nstr[i]? = some c := by
      have := hc 0 (Nat.zero_lt_succ _); rw [Nat.sub_zero] at this; exact this
    have htl : ∀ (w : rotate_complex_once.Vars), w.nstr = v.nstr →
        ∀ k (hk : k < cs.length), w.nstr[i - 1 - k]? = some cs[k] := by
      intro w hw k hk
      have := hc (k + 1) (Nat.succ_lt_succ hk)
      rw [hw, Nat.sub_sub, Nat.add_comm 1 k]; exact this
    have step := loop3_step seq sst v i c h0
    rw [List.length_cons, down]
    unfold scanBwd
    by_cases h1 : c = ')'
    · rw [if_pos h1] at step ⊢
      rw [foldlM_cons_ok _ _ _ _ _ step]
      exact ih (i - 1) (i :: st) { v with stack := v.stack ++ [i] } (by simp [hs]) (htl _ rfl)
    · by_cases h2 : c = '('
      · rw [if_neg h1, if_pos h2] at step ⊢
        cases st with
        | nil =>
          rw [if_pos (by simp [hs])] at step
          rw [foldlM_cons_error _ _ _ _ _ step]
        | cons a rest =>
          rw [if_neg (by simp [hs])] at step
          rw [foldlM_cons_ok _ _ _ _ _ step]
          exact ih (i - 1) rest { v with stack := v.stack.dropLast } (by simp [hs]) (htl _ rfl)
      · rw [if_neg h1, if_neg h2] at step ⊢
        rw [foldlM_cons_ok _ _ _ _ _ step]
        exact ih (i - 1) st v hs (htl _ rfl)

theorem range2_reverse (a b : Nat) : (Py.range2 a b).reverse = down (b - 1) (b - a) := by
  suffices h : ∀ n, (Py.range2 a (a + n)).reverse = down (a + n - 1) n by
    by_cases hab : a ≤ b
    · obtain ⟨n, rfl⟩ := Nat.exists_eq_add_of_le hab
      simpa using h n
    · have : b - a = 0 := by omega
      simp [Py.range2, this, down]
  intro n
  induction n with
  | zero => simp [Py.range2, down]
  | succ n ih =>
    have e : Py.range2 a (a + (n + 1)) = Py.range2 a (a + n) ++ [a + n] := by
      simp [Py.range2, List.range_succ, Nat.add_comm]
    rw [e, List.reverse_append, ih]
    simp [down]

theorem scanFwd_lt (B : Nat) (cs : List Char) (i : Nat) (st st' : List Nat) (h : scanFwd cs i st = some st')
    (hst : ∀ a ∈ st, a < B) (hi : i + cs.length ≤ B) : ∀ a ∈ st', a < B := by
  induction cs generalizing i st with
  | nil => simp [scanFwd] at h; subst h; exact hst
  | cons c cs ih =>
    simp only [List.length_cons] at hi
    unfold scanFwd at h
    split at h
    · refine ih (i + 1) (i :: st) h ?_ (by omega)
      intro a ha
      rcases List.mem_cons.1 ha with rfl | ha
      · omega
      · exact hst a ha
    · split at h
      · cases st with
        | nil => simp at h
        | cons b rest =>
          exact ih (i + 1) rest h (fun a ha => hst a (List.mem_cons_of_mem _ ha)) (by omega)
      · exact ih (i + 1) st h hst (by omega)

theorem scanBwd_lt (B : Nat) (cs : List Char) (i : Nat) (st st' : List Nat) (h : scanBwd cs i st = some st')
    (hst : ∀ a ∈ st, a < B) (hi : cs ≠ [] → i < B) : ∀ a ∈ st', a < B := by
  induction cs generalizing i st with
  | nil => simp [scanBwd] at h; subst h; exact hst
  | cons c cs ih =>
    have hiB : i < B := hi (by simp)
    unfold scanBwd at h
    split at h
    · refine ih (i - 1) (i :: st) h ?_ (fun _ => by omega)
      intro a ha
      rcases List.mem_cons.1 ha with rfl | ha
      · omega
      · exact hst a ha
    · split at h
      · cases st with
        | nil => simp at h
        | cons b rest =>
          exact ih (i - 1) rest h (fun a ha => hst a (List.mem_cons_of_mem _ ha)) (fun _ => by omega)
      · exact ih (i - 1) st h hst (fun _ => by omega)

theorem ok_bind {α β} (a : α) (f : α → Py.M β) : (Except.ok a >>= f) = f a := rfl
theorem error_bind {α β} (e : Err) (f : α → Py.M β) : ((Except.error e : Py.M α) >>= f) = Except.error e := rfl

theorem rotate_complex_once_eq (seq : List String) (sst : List Char) (h : seq.length = sst.length) :
    Gen.py_rotate_complex_once seq sst = rotateOnce seq sst := by
  unfold Gen.py_rotate_complex_once rotateOnce
  cases hp : seq.idxOf? "+" with
  | none =>
    have hc : seq.contains "+" = false := by
      unfold List.idxOf? at hp
      rw [List.findIdx?_eq_none_iff] at hp
      simp only [List.contains_eq_mem, decide_eq_false_iff_not]
      intro hm; simpa using hp _ hm
    simp only [hc]
    rfl
  | some p =>
    obtain ⟨hpl, hget, -⟩ := Rot.idxOf?_some seq "+" p hp
    have hc : seq.contains "+" = true := by
      simp only [List.contains_eq_mem, decide_eq_true_eq]
      exact List.mem_of_getElem? hget
    have hi : Py.index seq "+" = .ok p := by
      unfold Py.index; unfold List.idxOf? at hp; rw [hp]; rfl
    have hps : p ≤ sst.length := by omega
    have hlen : (sst.take p).length = p := by simp; omega
    simp only [hc, hi, if_true, ok_bind]
    -- loop 1
    have e1 := loop1_fold seq sst (sst.take p) 0 []
      { stack := [], p := p, nstr := sst, seq := List.drop (p + 1) seq ++ ["+"] ++ List.take p seq, sst := sst }
      rfl (by
        intro k hk
        simp only [Nat.zero_add, List.getElem_take]
        exact List.getElem?_eq_getElem _)
    rw [hlen, ← List.range_eq_range'] at e1
    rw [e1]
    cases hf : scanFwd (sst.take p) 0 [] with
    | none => rfl
    | some st1 =>
      have hb1 : ∀ a ∈ st1, a < sst.length :=
        scanFwd_lt sst.length _ 0 [] st1 hf (by simp) (by omega)
      simp only [ok_bind]
      -- loop 2
      rw [loop2_fold _ _ _ _ (by simpa using hb1)]
      simp only [ok_bind, setAll_reverse]
      generalize hn1 : setAll sst st1 ')' = n1
      have hn1l : n1.length = sst.length := by rw [← hn1, Rot.setAll_length]
      -- loop 3
      have e3 := loop3_fold seq sst (n1.drop (p + 1)).reverse (n1.length - 1) []
        { stack := [], p := p, nstr := n1, seq := List.drop (p + 1) seq ++ ["+"] ++ List.take p seq, sst := sst }
        rfl (by
          intro k hk
          simp only [List.length_reverse, List.length_drop] at hk
          simp only [List.getElem_reverse, List.getElem_drop]
          rw [List.getElem?_eq_getElem (by omega)]
          congr 2
          simp only [List.length_drop]
          omega)
      rw [List.length_reverse, List.length_drop, ← range2_reverse] at e3
      rw [e3]
      cases hbw : scanBwd (n1.drop (p + 1)).reverse (n1.length - 1) [] with
      | none => rfl
      | some st2 =>
        have hb2 : ∀ a ∈ st2, a < n1.length :=
          scanBwd_lt n1.length _ _ [] st2 hbw (by simp) (by
            intro hne
            have : (n1.drop (p + 1)).reverse.length ≠ 0 := by
              intro h0; exact hne (List.eq_nil_of_length_eq_zero h0)
            simp only [List.length_reverse, List.length_drop] at this
            omega)
        simp only [ok_bind]
        -- loop 4
        rw [loop4_fold _ _ _ _ (by simpa using hb2)]
        simp only [ok_bind, setAll_reverse]
        rfl

end Dsd.PyEq

#print axioms Dsd.PyEq.rotate_complex_once_eq
