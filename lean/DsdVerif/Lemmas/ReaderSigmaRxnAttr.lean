/-
End-to-end reading of declared systems (C14, "sigma" theorems), part 16: what the final state says about a
reaction; reading a declared reaction again.
-/
import DsdVerif.Lemmas.ReaderSigmaRxnDoc

namespace Dsd.Sig
open Dsd Dsd.PP Dsd.RState

/-! ### the lower parts of the state with reactions -/

/-- what a state must provide so that the macrostate part can be read off -/
structure LowerM (sl : Slots) (ds : List Decl) (ss : List SDecl) (C : List CSpec) (MS : List MDecl) (s' : RState)
    (d' : RDict) : Prop where
  macros : s'.w.macros = setObjs baseMacros sl.macr (mObjs (base6 ds ss C) C MS)
  nmacro : ∀ j M, MS[j]? = some M → s'.w.nodes.find? (fun m => m.id == base6 ds ss C + j) =
    some (macroNode (base6 ds ss C + j) sl.macr (M.members.map (cResolve (base4 ds ss) C)))
  held : ∀ i, i < base6 ds ss C + MS.length → i ∈ s'.w.held
  mdict : d'.macrostates = mDict (base6 ds ss C) MS

theorem lowerM_S6 (sl : Slots) (ds : List Decl) (ss : List SDecl) (C : List CSpec) (MS : List MDecl)
    (conc : List (Nat × (String × String × String))) :
    LowerM sl ds ss C MS (S6 sl.dom sl.strand sl.cplx sl.macr sl.rxn ds ss C MS conc) (D6 ds ss C MS) :=
  { macros := rfl,
    nmacro := fun j M hj => nodes6_macro sl.dom sl.strand sl.cplx sl.macr sl.rxn ds ss C MS j M hj,
    held := fun i hi => by
      show i ∈ List.range (base6 ds ss C + MS.length)
      exact List.mem_range.mpr hi,
    mdict := rfl }

theorem lower_S7 (sl : Slots) (ds : List Decl) (ss : List SDecl) (C : List CSpec) (MS : List MDecl) (RS : List RDecl)
    (conc : List (Nat × (String × String × String))) (oth : Nat) :
    Lower sl ds ss C (S7 sl.dom sl.strand sl.cplx sl.macr sl.rxn ds ss C MS RS conc) (D7 ds ss C MS RS oth) :=
  { doms := rfl, strands := rfl, cplxs := rfl, cstate := rfl, dseq := rfl,
    ndom := fun i hi => nodes7_old sl.dom sl.strand sl.cplx sl.macr sl.rxn ds ss C MS RS _ _
      (nodes6_dom sl.dom sl.strand sl.cplx sl.macr sl.rxn ds ss C MS i hi),
    nstrand := fun j p hj => nodes7_old sl.dom sl.strand sl.cplx sl.macr sl.rxn ds ss C MS RS _ _
      (nodes6_strand sl.dom sl.strand sl.cplx sl.macr sl.rxn ds ss C MS j p hj),
    ncplx := fun j c hj => nodes7_old sl.dom sl.strand sl.cplx sl.macr sl.rxn ds ss C MS RS _ _
      (nodes6_cplx sl.dom sl.strand sl.cplx sl.macr sl.rxn ds ss C MS j c hj),
    held := fun i hi => by
      show i ∈ List.range (base7 ds ss C MS + RS.length)
      exact List.mem_range.mpr (by unfold base7 base6; omega),
    ddict := rfl, sdict := rfl, cdict := rfl }

theorem lowerM_S7 (sl : Slots) (ds : List Decl) (ss : List SDecl) (C : List CSpec) (MS : List MDecl) (RS : List RDecl)
    (conc : List (Nat × (String × String × String))) (oth : Nat) :
    LowerM sl ds ss C MS (S7 sl.dom sl.strand sl.cplx sl.macr sl.rxn ds ss C MS RS conc) (D7 ds ss C MS RS oth) :=
  { macros := rfl,
    nmacro := fun j M hj => nodes7_old sl.dom sl.strand sl.cplx sl.macr sl.rxn ds ss C MS RS _ _
      (nodes6_macro sl.dom sl.strand sl.cplx sl.macr sl.rxn ds ss C MS j M hj),
    held := fun i hi => by
      show i ∈ List.range (base7 ds ss C MS + RS.length)
      exact List.mem_range.mpr (by unfold base7; omega),
    mdict := rfl }

/-! ### lists of identities -/

theorem filterMap_zipIdx_nodup {α} (b : Nat) (f : α × Nat → Option Nat)
    (hf : ∀ p v, f p = some v → v = b + p.2) :
    ∀ (l : List α) (k : Nat), ((l.zipIdx k).filterMap f).Nodup ∧ ∀ v ∈ (l.zipIdx k).filterMap f, b + k ≤ v := by
  intro l
  induction l with
  | nil => intro k; simp
  | cons a as ih =>
    intro k
    obtain ⟨h1, h2⟩ := ih (k + 1)
    simp only [List.zipIdx_cons, List.filterMap_cons]
    cases hfa : f (a, k) with
    | none => exact ⟨h1, fun v hv => by have := h2 v hv; omega⟩
    | some v =>
      have hv := hf _ _ hfa
      simp only at hv
      refine ⟨?_, ?_⟩
      · rw [List.nodup_cons]
        refine ⟨?_, h1⟩
        intro hm; have := h2 v hm; omega
      · intro x hx
        simp only [List.mem_cons] at hx
        rcases hx with rfl | hx
        · omega
        · have := h2 x hx; omega

theorem rDet_nodup (b : Nat) (RS : List RDecl) : (rDet b RS).Nodup :=
  (filterMap_zipIdx_nodup b _ (fun p v h => by
    cases hc : p.1.cond <;> simp [hc] at h
    exact h.symm) RS 0).1

theorem rCon_nodup (b : Nat) (RS : List RDecl) : (rCon b RS).Nodup :=
  (filterMap_zipIdx_nodup b _ (fun p v h => by
    cases hc : p.1.cond <;> simp [hc] at h
    exact h.symm) RS 0).1

theorem rDet_mem (b : Nat) (RS : List RDecl) (i : Nat) (hi : i ∈ rDet b RS) :
    ∃ j R, RS[j]? = some R ∧ R.cond = false ∧ i = b + j := by
  unfold rDet at hi
  rw [List.mem_filterMap] at hi
  obtain ⟨⟨R, j⟩, hm, he⟩ := hi
  have hj := List.mem_zipIdx_iff_getElem?.mp hm
  cases hc : R.cond <;> simp [hc] at he
  exact ⟨j, R, hj, hc, he.symm⟩

theorem rCon_mem (b : Nat) (RS : List RDecl) (i : Nat) (hi : i ∈ rCon b RS) :
    ∃ j R, RS[j]? = some R ∧ R.cond = true ∧ i = b + j := by
  unfold rCon at hi
  rw [List.mem_filterMap] at hi
  obtain ⟨⟨R, j⟩, hm, he⟩ := hi
  have hj := List.mem_zipIdx_iff_getElem?.mp hm
  cases hc : R.cond <;> simp [hc] at he
  exact ⟨j, R, hj, hc, he.symm⟩

/-! ### the reaction behind an identity -/

theorem rObjs_find (b : Nat) (C : List CSpec) (MS : List MDecl) (RS : List RDecl) (j : Nat) (R : RDecl)
    (hj : RS[j]? = some R) :
    (rObjs b C MS RS).find? (fun o => o.id == b + j) = some (newRxn (b + j) (rsOf C MS R) (psOf C MS R) R.ty) := by
  apply RegL.find?_unique
  · rw [rObjs, mem_zipIdx_map]; exact ⟨j, R, hj, rfl⟩
  · simp [newRxn]
  · intro a ha hp
    have hid : a.id = b + j := by simpa using hp
    obtain ⟨j', R', hj', rfl⟩ := rObjs_mem b C MS RS a ha
    simp only [newRxn] at hid
    have : j' = j := by omega
    subst this
    rw [getElem?_det RS j' R R' hj hj']

theorem rRates_lookup (b : Nat) (RS : List RDecl) (j : Nat) (R : RDecl) (hj : RS[j]? = some R) :
    (rRates b RS).lookup (b + j) = some (R.rate, some R.units) := by
  apply lookup_unique
  · rw [rRates, mem_zipIdx_map]; exact ⟨j, R, hj, rfl⟩
  · intro v' hv'
    rw [rRates, mem_zipIdx_map] at hv'
    obtain ⟨j', R', hj', he⟩ := hv'
    simp only [Prod.mk.injEq] at he
    have : j' = j := by omega
    subst this
    rw [he.2, getElem?_det RS j' R R' hj hj']

theorem S7_rxn (cd cst cc cm cr : Nat) (hcr : cr < 4) (ds : List Decl) (ss : List SDecl) (C : List CSpec)
    (MS : List MDecl) (RS : List RDecl) (conc : List (Nat × (String × String × String))) (j : Nat) (R : RDecl)
    (hj : RS[j]? = some R) :
    (S7 cd cst cc cm cr ds ss C MS RS conc).w.node (base7 ds ss C MS + j) =
      some (rxnNode (base7 ds ss C MS + j) cr (rChildren (base4 ds ss) (base6 ds ss C) C MS R)) ∧
    (∃ clr, (S7 cd cst cc cm cr ds ss C MS RS conc).w.rxns[cr]? = some clr ∧
      clr.reg.findId (base7 ds ss C MS + j) = some (newRxn (base7 ds ss C MS + j) (rsOf C MS R) (psOf C MS R) R.ty)) ∧
    (S7 cd cst cc cm cr ds ss C MS RS conc).rate.lookup (base7 ds ss C MS + j) = some (R.rate, some R.units) ∧
    (S7 cd cst cc cm cr ds ss C MS RS conc).w.isLive (base7 ds ss C MS + j) = true ∧
    base7 ds ss C MS + j ∈ (S7 cd cst cc cm cr ds ss C MS RS conc).w.held := by
  have hlt := getElem?_lt' _ _ _ hj
  have hnode : (S7 cd cst cc cm cr ds ss C MS RS conc).w.node (base7 ds ss C MS + j) =
      some (rxnNode (base7 ds ss C MS + j) cr (rChildren (base4 ds ss) (base6 ds ss C) C MS R)) :=
    nodes7_rxn cd cst cc cm cr ds ss C MS RS j R hj
  obtain ⟨cr0, h0, _⟩ := baseRxns_get cr hcr
  have hget := setObjs_get baseRxns cr (rObjs (base7 ds ss C MS) C MS RS) cr0 h0
  refine ⟨hnode, ⟨_, hget, ?_⟩, rRates_lookup _ RS j R hj, ?_, ?_⟩
  · simp only [Reg.findId]; exact rObjs_find _ C MS RS j R hj
  · unfold World.isLive; rw [hnode]; rfl
  · show base7 ds ss C MS + j ∈ List.range (base7 ds ss C MS + RS.length)
    exact List.mem_range.mpr (by omega)

/-! ### reading a declared reaction again -/

theorem rdecl_pos {β} [DecidableEq β] (f : RDecl → β) (RS : List RDecl) (hn : (RS.map f).Nodup) (i j : Nat)
    (R R' : RDecl) (hi : RS[i]? = some R) (hj : RS[j]? = some R') (he : f R = f R') : i = j := by
  have h1 : (RS.map f)[i]? = some (f R) := by simp [hi]
  have h2 : (RS.map f)[j]? = some (f R') := by simp [hj]
  have hlt : i < (RS.map f).length := by simpa using getElem?_lt' _ _ _ hi
  exact (List.getElem?_inj hlt hn).mp (by rw [h1, h2, he])

/-- **the same reaction declared again** in the state the document produced: the same object is returned and the
    dictionary does not get a second entry -/
theorem rxn_reread (sl : Slots) (hcc : sl.cplx < 4) (hcm : sl.macr < 4) (hcr : sl.rxn < 4) (ds : List Decl)
    (ss : List SDecl) (C : List CSpec) (hf : CFacts C) (MS : List MDecl) (hmn : (MS.map (·.name)).Nodup)
    (RS : List RDecl) (hnames : (RS.map (rName C MS)).Nodup) (hcanons : (RS.map (rCanon C MS)).Nodup)
    (conc : List (Nat × (String × String × String))) (oth : Nat) (j : Nat) (R : RDecl) (hj : RS[j]? = some R)
    (hty : Gen.rtypes.contains R.ty = true)
    (hmem : ∀ n ∈ R.reactants ++ R.products,
      if R.cond = true then n ∈ MS.map (·.name) else n ∈ C.map (·.name)) :
    (∃ s1, (S7 sl.dom sl.strand sl.cplx sl.macr sl.rxn ds ss C MS RS conc).readLine sl
        (rxnLine R.ty R.rate R.units R.reactants R.products) = (s1, .ok (.rxn (base7 ds ss C MS + j) R.cond))) ∧
    putRxn (D7 ds ss C MS RS oth) (base7 ds ss C MS + j) R.cond = D7 ds ss C MS RS oth := by
  have hlt := getElem?_lt' _ _ _ hj
  have hmemb : ∀ n ∈ R.reactants ++ R.products,
      (∃ b, lookFn sl R.ty (P7 sl.dom sl.strand sl.cplx sl.macr sl.rxn ds ss C MS RS).world n =
        ((P7 sl.dom sl.strand sl.cplx sl.macr sl.rxn ds ss C MS RS).world,
          .ret (memId (base4 ds ss) (base6 ds ss C) C MS R.cond n) b)) ∧
      (P7 sl.dom sl.strand sl.cplx sl.macr sl.rxn ds ss C MS RS).world.memberKey
          (memId (base4 ds ss) (base6 ds ss C) C MS R.cond n) = some (memOf C MS R.cond n) :=
    fun n hn => member7 sl hcc hcm ds ss C hf MS hmn RS R.ty n (hmem n hn)
  have hw : (S7 sl.dom sl.strand sl.cplx sl.macr sl.rxn ds ss C MS RS conc).w =
      (P7 sl.dom sl.strand sl.cplx sl.macr sl.rxn ds ss C MS RS).world := rfl
  have hla1 := lookupAll_same (S7 sl.dom sl.strand sl.cplx sl.macr sl.rxn ds ss C MS RS conc) (lookFn sl R.ty)
    (memId (base4 ds ss) (base6 ds ss C) C MS R.cond) R.reactants
    (fun n hn => by rw [hw]; exact (hmemb n (List.mem_append_left _ hn)).1)
  have hla2 := lookupAll_same (S7 sl.dom sl.strand sl.cplx sl.macr sl.rxn ds ss C MS RS conc) (lookFn sl R.ty)
    (memId (base4 ds ss) (base6 ds ss C) C MS R.cond) R.products
    (fun n hn => by rw [hw]; exact (hmemb n (List.mem_append_right _ hn)).1)
  have hrs := filterMap_members (P7 sl.dom sl.strand sl.cplx sl.macr sl.rxn ds ss C MS RS).world
    (memId (base4 ds ss) (base6 ds ss C) C MS R.cond) (memOf C MS R.cond) R.reactants
    (fun n hn => (hmemb n (List.mem_append_left _ hn)).2)
  have hps := filterMap_members (P7 sl.dom sl.strand sl.cplx sl.macr sl.rxn ds ss C MS RS).world
    (memId (base4 ds ss) (base6 ds ss C) C MS R.cond) (memOf C MS R.cond) R.products
    (fun n hn => (hmemb n (List.mem_append_right _ hn)).2)
  have hobjmem : newRxn (base7 ds ss C MS + j) (rsOf C MS R) (psOf C MS R) R.ty ∈ rObjs (base7 ds ss C MS) C MS RS := by
    rw [rObjs, mem_zipIdx_map]; exact ⟨j, R, hj, rfl⟩
  have hfn : Reg.findName ({ objs := rObjs (base7 ds ss C MS) C MS RS, autoId := 1 } : Reg RKey)
      (rxnNameOf (rsOf C MS R) (psOf C MS R) R.ty) =
      some (newRxn (base7 ds ss C MS + j) (rsOf C MS R) (psOf C MS R) R.ty) := by
    unfold Reg.findName
    apply RegL.find?_unique _ _ _ hobjmem (by simp [newRxn])
    intro a ha hp
    obtain ⟨j', R', hj', rfl⟩ := rObjs_mem _ C MS RS a ha
    have he : rName C MS R' = rName C MS R := by
      have : rxnNameOf (rsOf C MS R') (psOf C MS R') R'.ty = rxnNameOf (rsOf C MS R) (psOf C MS R) R.ty := by
        simpa [newRxn] using hp
      exact this
    have := rdecl_pos (rName C MS) RS hnames j' j R' R hj' hj he
    subst this
    rw [getElem?_det RS j' R R' hj hj']
  have hfc : Reg.findCanon ({ objs := rObjs (base7 ds ss C MS) C MS RS, autoId := 1 } : Reg RKey)
      (rxnCanonOf (rsOf C MS R) (psOf C MS R) R.ty) =
      some (newRxn (base7 ds ss C MS + j) (rsOf C MS R) (psOf C MS R) R.ty) := by
    unfold Reg.findCanon
    apply RegL.find?_unique _ _ _ hobjmem (by simp [newRxn])
    intro a ha hp
    obtain ⟨j', R', hj', rfl⟩ := rObjs_mem _ C MS RS a ha
    have he : rCanon C MS R' = rCanon C MS R := by
      have : rxnCanonOf (rsOf C MS R) (psOf C MS R) R.ty ∈ [rxnCanonOf (rsOf C MS R') (psOf C MS R') R'.ty] := by
        simpa [newRxn] using hp
      exact (List.mem_singleton.mp this).symm
    have := rdecl_pos (rCanon C MS) RS hcanons j' j R' R hj' hj he
    subst this
    rw [getElem?_det RS j' R R' hj hj']
  have hmk := mkRxn_existing (P7 sl.dom sl.strand sl.cplx sl.macr sl.rxn ds ss C MS RS).world sl.rxn hcr
    (rObjs (base7 ds ss C MS) C MS RS) rfl _ _ _ _ hrs hps R.ty _ hfn hfc
    (by
      show base7 ds ss C MS + j ∈ List.range (base7 ds ss C MS + RS.length)
      exact List.mem_range.mpr (by omega))
  have hrl := readLine_rxn (S7 sl.dom sl.strand sl.cplx sl.macr sl.rxn ds ss C MS RS conc) sl R.ty R.rate R.units
    R.reactants R.products hty _ _ hla1 hla2 _ _ _ _ hmk
  refine ⟨⟨_, hrl⟩, ?_⟩
  obtain ⟨l1, l2⟩ := rxn_listed (base7 ds ss C MS) RS j R hj
  unfold putRxn
  cases hc : R.cond with
  | true =>
    have : (D7 ds ss C MS RS oth).con.contains (base7 ds ss C MS + j) = true := by
      rw [List.contains_eq_mem]; simp only [decide_eq_true_eq]; exact (l1 hc).1
    simp only [if_true, this]
  | false =>
    have : (D7 ds ss C MS RS oth).det.contains (base7 ds ss C MS + j) = true := by
      rw [List.contains_eq_mem]; simp only [decide_eq_true_eq]; exact (l2 hc).1
    simp only [Bool.false_eq_true, if_false, this, if_true]

end Dsd.Sig
